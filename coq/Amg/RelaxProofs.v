(* Proofs about the relaxation model (Amg/Relax.v). *)
From Coq Require Import Field.
From Raptor Require Import Base.Sums Sparse.Defs Amg.Relax Amg.RelaxOrders.

Section UpdXat.
Variable F : Type.
Variable zero : F.
Notation xat := (xat F zero).
Notation upd := (upd F).

Lemma upd_length (l : list F) i v : length (upd l i v) = length l.
Proof. revert i; induction l as [|a l IH]; intros [|i]; simpl; auto. Qed.

Lemma xat_upd_eq (l : list F) i v : i < length l -> xat (upd l i v) i = v.
Proof.
  unfold Defs.xat. revert i; induction l as [|a l IH]; intros [|i] H; simpl in *; try lia; auto.
  apply IH. lia.
Qed.

Lemma xat_upd_neq (l : list F) i j v : i <> j -> xat (upd l i v) j = xat l j.
Proof.
  unfold Defs.xat. revert i j; induction l as [|a l IH]; intros [|i] [|j] H; simpl; auto; try lia.
Qed.

Lemma upd_oob (l : list F) i v : length l <= i -> upd l i v = l.
Proof. revert i; induction l as [|a l IH]; intros [|i] H; simpl in *; auto; try lia. f_equal. apply IH. lia. Qed.
End UpdXat.

(* ------------------------------------------------------------------ *)
(* a Gauss-Seidel-like pass: visit the indices of `ord`, replacing entry i by a value computed
   from the current vector *)
Section GPass.
Variable F : Type.
Variable zero : F.
Notation xat := (xat F zero).
Notation upd := (upd F).

Definition gstep (h : nat -> (nat -> F) -> F) (y : list F) (i : nat) : list F := upd y i (h i (xat y)).
Definition gpass (h : nat -> (nat -> F) -> F) (ord : list nat) (y : list F) : list F := fold_left (gstep h) ord y.

Variable h : nat -> (nat -> F) -> F.

Lemma gpass_length ord y : length (gpass h ord y) = length y.
Proof.
  unfold gpass. revert y; induction ord as [|i ord IH]; intros y; simpl; [reflexivity|].
  rewrite IH. unfold gstep. apply upd_length.
Qed.

Lemma gpass_app o1 o2 y : gpass h (o1 ++ o2) y = gpass h o2 (gpass h o1 y).
Proof. unfold gpass. apply fold_left_app. Qed.

Lemma gpass_notin ord y c : ~ In c ord -> xat (gpass h ord y) c = xat y c.
Proof.
  unfold gpass. revert y; induction ord as [|i ord IH]; intros y H; simpl; [reflexivity|].
  rewrite IH by (intro; apply H; right; assumption).
  unfold gstep. apply xat_upd_neq. intro; subst. apply H. left; reflexivity.
Qed.

Lemma gpass_at pre i post y :
  ~ In i post -> i < length y ->
  xat (gpass h (pre ++ i :: post) y) i = h i (xat (gpass h pre y)).
Proof.
  intros Hn Hl. rewrite gpass_app. simpl.
  change (fold_left (gstep h) post (gstep h (gpass h pre y) i)) with (gpass h post (gstep h (gpass h pre y) i)).
  rewrite gpass_notin by assumption.
  unfold gstep. apply xat_upd_eq. rewrite gpass_length. assumption.
Qed.

Lemma gpass_pre_in pre i post y c :
  NoDup (pre ++ i :: post) -> In c pre ->
  xat (gpass h (pre ++ i :: post) y) c = xat (gpass h pre y) c.
Proof.
  intros Hnd Hc. rewrite gpass_app. apply gpass_notin.
  intro Hin. revert Hnd Hc Hin. generalize (i :: post) as l. clear.
  induction pre as [|a pre IH]; simpl; intros l Hnd Hc Hin; [contradiction|].
  inversion Hnd; subst. destruct Hc as [->|Hc].
  - apply H1. apply in_or_app. right; assumption.
  - eapply IH; eassumption.
Qed.

Lemma upd_same (y : list F) i : upd y i (xat y i) = y.
Proof.
  unfold Defs.xat. revert i; induction y as [|a y IH]; intros [|i]; simpl; auto. f_equal. apply IH.
Qed.

Lemma gpass_fixed ord y : (forall i, In i ord -> h i (xat y) = xat y i) -> gpass h ord y = y.
Proof.
  unfold gpass. induction ord as [|i ord IH]; intros H; simpl; [reflexivity|].
  assert (E : gstep h y i = y). { unfold gstep. rewrite H by (left; reflexivity). apply upd_same. }
  rewrite E. apply IH. intros j Hj. apply H. right; assumption.
Qed.

Lemma gpass_ext (h' : nat -> (nat -> F) -> F) ord y :
  (forall i X, In i ord -> h i X = h' i X) -> gpass h ord y = gpass h' ord y.
Proof.
  unfold gpass. revert y; induction ord as [|i ord IH]; intros y H; simpl; [reflexivity|].
  assert (E : gstep h y i = gstep h' y i) by (unfold gstep; rewrite (H i) by (left; reflexivity); reflexivity).
  rewrite E. apply IH. intros j X Hj. apply H. right; assumption.
Qed.

(* a fold whose every step is a gstep is a gpass *)
Lemma fold_is_gpass {R} (step : list F -> R -> list F) (idx : R -> nat) (l : list R) y :
  (forall r z, In r l -> step z r = gstep h z (idx r)) ->
  fold_left step l y = gpass h (map idx l) y.
Proof.
  unfold gpass. revert y; induction l as [|r l IH]; intros y H; simpl; [reflexivity|].
  rewrite H by (left; reflexivity). apply IH. intros r' z Hr. apply H. right; assumption.
Qed.
End GPass.

(* ------------------------------------------------------------------ *)
(* list facts: filters, stable sort and move_diag are permutations       *)
Section ListFacts.
Context {X : Type}.

Lemma filter_nil_neg (p : X -> bool) l : filter p l = [] -> filter (fun a => negb (p a)) l = l.
Proof.
  induction l as [|a l IH]; simpl; [reflexivity|]. destruct (p a); simpl; [discriminate|].
  intros H. f_equal. apply IH. exact H.
Qed.

Lemma filter_nothing (p : X -> bool) l : (forall a, In a l -> p a = false) -> filter p l = [].
Proof.
  induction l as [|a l IH]; simpl; intros H; [reflexivity|].
  rewrite (H a) by (left; reflexivity). apply IH. intros; apply H; right; assumption.
Qed.

Lemma filter_all (p : X -> bool) l : (forall a, In a l -> p a = true) -> filter p l = l.
Proof.
  induction l as [|a l IH]; simpl; intros H; [reflexivity|].
  rewrite (H a) by (left; reflexivity). f_equal. apply IH. intros; apply H; right; assumption.
Qed.

Lemma filter_comm (p q : X -> bool) l : filter p (filter q l) = filter q (filter p l).
Proof.
  induction l as [|a l IH]; simpl; [reflexivity|].
  destruct (q a) eqn:Q; destruct (p a) eqn:P; simpl; rewrite ?Q, ?P, IH; reflexivity.
Qed.

Lemma perm_filter (p : X -> bool) l1 l2 : Permutation l1 l2 -> Permutation (filter p l1) (filter p l2).
Proof.
  induction 1; simpl.
  - constructor.
  - destruct (p x); [constructor|]; assumption.
  - destruct (p x); destruct (p y); try constructor; apply Permutation_refl.
  - eapply Permutation_trans; eassumption.
Qed.

Lemma insert_by_perm (le : X -> X -> bool) x l : Permutation (insert_by le x l) (x :: l).
Proof.
  induction l as [|y l IH]; simpl; [apply Permutation_refl|].
  destruct (le x y); [apply Permutation_refl|].
  eapply Permutation_trans; [apply perm_skip; exact IH|apply perm_swap].
Qed.

Lemma isort_by_perm (le : X -> X -> bool) l : Permutation (isort_by le l) l.
Proof.
  induction l as [|x l IH]; simpl; [constructor|].
  eapply Permutation_trans; [apply insert_by_perm|apply perm_skip; exact IH].
Qed.

Lemma extract_first_some (p : X -> bool) l a rest :
  extract_first p l = Some (a, rest) ->
  p a = true /\ Permutation l (a :: rest) /\ filter p l = a :: filter p rest.
Proof.
  revert a rest; induction l as [|x l IH]; simpl; intros a rest H; [discriminate|].
  destruct (p x) eqn:P.
  - inversion H; subst. split; [assumption|split; [apply Permutation_refl|reflexivity]].
  - destruct (extract_first p l) as [[y r]|] eqn:E; [|discriminate].
    inversion H; subst. destruct (IH a r eq_refl) as [H1 [H2 H3]].
    split; [assumption|split].
    + eapply Permutation_trans; [apply perm_skip; exact H2|apply perm_swap].
    + simpl. rewrite P. exact H3.
Qed.

Lemma extract_first_none (p : X -> bool) l : extract_first p l = None -> filter p l = [].
Proof.
  induction l as [|x l IH]; simpl; [reflexivity|].
  destruct (p x); [discriminate|]. destruct (extract_first p l) as [[y r]|]; [discriminate|].
  intros _. apply IH. reflexivity.
Qed.
End ListFacts.

Section RowFacts.
Variable F : Type.
Notation row := (list (nat * F)).

(* a row that stores exactly one entry in column i: what sort + move_diag make of it *)
Lemma move_diag_sorted_unique (i : nat) (r : row) (e : nat * F) :
  filter (fun p => fst p =? i) r = [e] ->
  exists t, move_diag_line i (sort_line r) = e :: t /\ Permutation r (e :: t) /\
            filter (fun p => fst p =? i) t = [].
Proof.
  intros H. unfold move_diag_line.
  assert (Hs : filter (fun p => fst p =? i) (sort_line r) = [e]).
  { apply Permutation_length_1_inv. rewrite <- H. apply perm_filter. apply Permutation_sym. apply isort_by_perm. }
  destruct (extract_first (fun p => fst p =? i) (sort_line r)) as [[d rest]|] eqn:E.
  - apply extract_first_some in E. destruct E as [_ [E2 E3]].
    rewrite Hs in E3. inversion E3; subst. exists rest. split; [reflexivity|split].
    + eapply Permutation_trans; [apply Permutation_sym; apply isort_by_perm|exact E2].
    + symmetry; assumption.
  - apply extract_first_none in E. rewrite Hs in E. discriminate.
Qed.
End RowFacts.

(* ------------------------------------------------------------------ *)
Section RelaxProofs.
Variable F : Type.
Variables (zero one : F) (add mul sub : F -> F -> F) (opp : F -> F) (div : F -> F -> F) (inv : F -> F).
Variable Fth : field_theory zero one add mul sub opp div inv (@eq F).
Variable tiny : F -> bool.
Add Field Ffield : Fth.
Let Rth := F_R Fth.

Notation "0" := zero.
Notation "1" := one.
Infix "+" := add.
Infix "*" := mul.
Infix "-" := sub.
Infix "/" := div.
Notation row := (list (nat * F)).
Notation xat := (xat F zero).
Notation upd := (upd F).
Notation sumF := (sumf F zero add).
Notation denL := (den_line F zero add).
Notation coef := (coef F zero add).
Notation offdot := (offdot F zero add mul).
Notation rowdot := (rowdot F zero add mul).
Notation relax_val := (relax_val F one add mul sub div).
Notation row_acc := (row_acc F zero add mul).

(* sum over the stored entries of a row of  value * X(column) *)
Definition esum (X : nat -> F) (r : row) : F := sumF (map (fun p => snd p * X (fst p)) r).
Definition neq_col (i : nat) (p : nat * F) : bool := negb (fst p =? i).
Definition eq_col (i : nat) (p : nat * F) : bool := fst p =? i.

Lemma esum_app X r1 r2 : esum X (r1 ++ r2) = esum X r1 + esum X r2.
Proof. unfold esum. rewrite map_app. apply (sumf_app F zero one add mul sub opp Rth). Qed.

Lemma esum_perm X r1 r2 : Permutation r1 r2 -> esum X r1 = esum X r2.
Proof. intros H. unfold esum. apply (sumf_perm F zero one add mul sub opp Rth). apply Permutation_map. exact H. Qed.

Lemma esum_ext X Y r : (forall p, In p r -> X (fst p) = Y (fst p)) -> esum X r = esum Y r.
Proof. intros H. unfold esum. f_equal. apply map_ext_in. intros p Hp. rewrite (H p Hp). reflexivity. Qed.

Lemma esum_split (q : nat * F -> bool) X r :
  esum X r = esum X (filter q r) + esum X (filter (fun p => negb (q p)) r).
Proof. unfold esum. apply (sumf_filter_split F zero one add mul sub opp Rth). Qed.

Lemma row_acc_esum v r s0 : row_acc v r s0 = s0 + esum (xat v) r.
Proof.
  unfold Relax.row_acc, esum. revert s0; induction r as [|p r IH]; intros s0; simpl; [ring|].
  rewrite IH. ring.
Qed.

Lemma fold_sub_esum X r a :
  fold_left (fun a p => a - snd p * X (fst p)) r a = a - esum X r.
Proof.
  unfold esum. revert a; induction r as [|p r IH]; intros a; simpl; [ring|]. rewrite IH. ring.
Qed.

(* entries versus the dense coefficients a_ij = den_line row j *)
Lemma den_line_cons (c : nat) (v : F) (r : row) j :
  denL ((c, v) :: r) j = (if c =? j then v else 0) + denL r j.
Proof. unfold den_line. simpl. destruct (c =? j); simpl; ring. Qed.

Lemma esum_den X (r : row) n :
  (forall p, In p r -> fst p < n) ->
  esum X r = sumF (map (fun j => denL r j * X j) (seq 0 n)).
Proof.
  induction r as [|[c v] r IH]; intros H.
  - unfold esum; simpl. rewrite (sumf_map_ext F zero add) with (g := fun _ => 0).
    + symmetry. apply (sumf_map_zero F zero one add mul sub opp Rth).
    + intros j _. unfold den_line; simpl. ring.
  - unfold esum in *. simpl.
    rewrite IH by (intros p Hp; apply H; right; assumption).
    rewrite (sumf_map_ext F zero add) with
        (f := fun j => denL ((c, v) :: r) j * X j)
        (g := fun j => (if c =? j then v else 0) * X j + denL r j * X j)
      by (intros j _; rewrite den_line_cons; ring).
    rewrite (sumf_map_add F zero one add mul sub opp Rth).
    f_equal.
    rewrite (sumf_single F zero one add mul sub opp Rth) with (k := c).
    + rewrite Nat.eqb_refl. reflexivity.
    + apply (H (c, v)). left; reflexivity.
    + intros j _ Hne. destruct (c =? j) eqn:E; [apply Nat.eqb_eq in E; congruence|ring].
Qed.

Lemma den_line_neq_filter (r : row) i j :
  denL (filter (neq_col i) r) j = if j =? i then 0 else denL r j.
Proof.
  unfold den_line. rewrite filter_filter.
  destruct (j =? i) eqn:E.
  - apply Nat.eqb_eq in E; subst.
    rewrite (filter_nothing (fun a : nat * F => neq_col i a && (fst a =? i))); [reflexivity|].
    intros p _. unfold neq_col. destruct (fst p =? i); reflexivity.
  - f_equal. f_equal. apply filter_ext. intros p. unfold neq_col.
    destruct (fst p =? j) eqn:E2; [|apply andb_false_r].
    apply Nat.eqb_eq in E2. rewrite E2, E. reflexivity.
Qed.

Lemma esum_offdot (A : list row) n i X :
  (forall p, In p (arow F A i) -> fst p < n) ->
  esum X (filter (neq_col i) (arow F A i)) = offdot A n i X.
Proof.
  intros H. unfold Relax.offdot, Relax.coef.
  rewrite (esum_den X _ n).
  - apply (sumf_map_ext F zero add). intros j _. rewrite den_line_neq_filter.
    destruct (j =? i); ring.
  - intros p Hp. apply filter_In in Hp. apply H. apply Hp.
Qed.

Lemma offdot_ext (A : list row) n i X Y :
  (forall j, j < n -> j <> i -> X j = Y j) -> offdot A n i X = offdot A n i Y.
Proof.
  intros H. unfold Relax.offdot. apply (sumf_map_ext F zero add). intros j Hj.
  apply in_seq in Hj. destruct (j =? i) eqn:E; [reflexivity|].
  apply Nat.eqb_neq in E. rewrite (H j) by (try lia; assumption). reflexivity.
Qed.

Lemma rowdot_split (A : list row) n i X :
  i < n -> rowdot A n i X = offdot A n i X + coef A i i * X i.
Proof.
  intros Hi. unfold Relax.rowdot, Relax.offdot.
  rewrite (sumf_map_ext F zero add) with
      (f := fun j => coef A i j * X j)
      (g := fun j => (if j =? i then 0 else coef A i j * X j) + (if j =? i then coef A i j * X j else 0))
    by (intros j _; destruct (j =? i); ring).
  rewrite (sumf_map_add F zero one add mul sub opp Rth). f_equal.
  rewrite (sumf_single F zero one add mul sub opp Rth) with (k := i).
  - rewrite Nat.eqb_refl. reflexivity.
  - exact Hi.
  - intros j _ Hne. destruct (j =? i) eqn:E; [apply Nat.eqb_eq in E; congruence|reflexivity].
Qed.

(* a single stored diagonal entry is the coefficient a_ii *)
Lemma coef_diag_unique (A : list row) i d :
  filter (eq_col i) (arow F A i) = [(i, d)] -> coef A i i = d.
Proof.
  intros H. unfold Relax.coef, den_line. unfold eq_col in H. rewrite H. simpl. ring.
Qed.


(* ------------------------------------------------------------------ *)
(* one prepared row of a rank: diagonal first, and its two partial sums together are the
   off-diagonal sum of the global row with in-block columns read from Y, the others from X0 *)
Lemma prep_row_good (A : list row) lo sz i d :
  in_blk lo sz i = true ->
  filter (eq_col i) (arow F A i) = [(i, d)] ->
  exists t, pr_on F (prep_row F lo sz i (arow F A i)) = (i, d) :: t /\
    forall Y X0, esum Y t + esum X0 (pr_off F (prep_row F lo sz i (arow F A i))) =
                 esum (fun c => if in_blk lo sz c then Y c else X0 c) (filter (neq_col i) (arow F A i)).
Proof.
  intros Hi Hd. set (r := arow F A i) in *.
  set (inb := fun p : nat * F => in_blk lo sz (fst p)).
  assert (Hon : filter (eq_col i) (split_on F lo sz r) = [(i, d)]).
  { unfold split_on. rewrite filter_comm. rewrite Hd. simpl. rewrite Hi. reflexivity. }
  destruct (move_diag_sorted_unique F i (split_on F lo sz r) (i, d) Hon) as [t [Ht [Hp Hn]]].
  exists t. split; [exact Ht|].
  intros Y X0. set (g := fun c => if in_blk lo sz c then Y c else X0 c).
  rewrite (esum_split inb g (filter (neq_col i) r)).
  f_equal.
  - rewrite filter_comm. change (filter inb r) with (split_on F lo sz r).
    rewrite (esum_perm g _ _ (perm_filter (neq_col i) _ _ Hp)).
    simpl. unfold neq_col at 1. simpl. rewrite Nat.eqb_refl. simpl.
    change (filter (neq_col i) t) with (filter (fun a => negb (eq_col i a)) t).
    rewrite (filter_nil_neg (eq_col i) t Hn).
    apply esum_ext. intros p Hp'. unfold g.
    assert (Hin : In p (split_on F lo sz r)).
    { eapply Permutation_in; [apply Permutation_sym; exact Hp|]. right; exact Hp'. }
    apply filter_In in Hin. destruct Hin as [_ Hin]. rewrite Hin. reflexivity.
  - rewrite filter_comm. change (filter (fun p => negb (inb p)) r) with (split_off F lo sz r).
    unfold prep_row. cbn [pr_off]. unfold sort_line.
    rewrite (esum_perm X0 _ _ (isort_by_perm _ (split_off F lo sz r))).
    rewrite (filter_all (neq_col i) (split_off F lo sz r)).
    + apply esum_ext. intros p Hp'. unfold g. apply filter_In in Hp'. destruct Hp' as [_ Hp'].
      destruct (in_blk lo sz (fst p)); [discriminate|reflexivity].
    + intros p Hp'. apply filter_In in Hp'. destruct Hp' as [_ Hp']. unfold neq_col.
      destruct (fst p =? i) eqn:E; [|reflexivity].
      apply Nat.eqb_eq in E. rewrite E, Hi in Hp'. discriminate.
Qed.


(* ------------------------------------------------------------------ *)
(* blocks of a partition *)
Lemma in_blk_iff lo sz c : in_blk lo sz c = true <-> lo <= c < lo + sz.
Proof.
  unfold in_blk. rewrite andb_true_iff, Nat.leb_le, Nat.ltb_lt. tauto.
Qed.

Lemma in_blk_false lo sz c : in_blk lo sz c = false <-> ~ (lo <= c < lo + sz).
Proof.
  rewrite <- in_blk_iff. destruct (in_blk lo sz c); split; intros; try congruence; try tauto.
Qed.

Lemma blocks_from_bounds s parts lo sz :
  In (lo, sz) (blocks_from s parts) -> s <= lo /\ lo + sz <= s + list_sum parts.
Proof.
  revert s; induction parts as [|p ps IH]; intros s H; simpl in *; [contradiction|].
  destruct H as [H|H].
  - inversion H; subst. lia.
  - apply IH in H. lia.
Qed.

Lemma blocks_cover s parts i :
  s <= i < s + list_sum parts ->
  exists lo sz, In (lo, sz) (blocks_from s parts) /\ lo <= i < lo + sz.
Proof.
  revert s; induction parts as [|p ps IH]; intros s H; simpl in *; [lia|].
  destruct (Nat.lt_ge_cases i (s + p)) as [Hlt|Hge].
  - exists s, p. split; [left; reflexivity|lia].
  - destruct (IH (s + p)%nat) as [lo [sz [H1 H2]]]; [lia|].
    exists lo, sz. split; [right; assumption|assumption].
Qed.

Definition same_blk (BL : list (nat * nat)) (i c : nat) : bool :=
  existsb (fun bl => in_blk (fst bl) (snd bl) i && in_blk (fst bl) (snd bl) c) BL.

Lemma same_blk_in s parts lo sz i c :
  In (lo, sz) (blocks_from s parts) -> lo <= i < lo + sz ->
  same_blk (blocks_from s parts) i c = in_blk lo sz c.
Proof.
  revert s; induction parts as [|p ps IH]; intros s H Hi; simpl in *; [contradiction|].
  destruct H as [H|H].
  - inversion H; subst lo sz. clear H.
    replace (in_blk s p i) with true by (symmetry; apply in_blk_iff; exact Hi). simpl.
    destruct (in_blk s p c); [reflexivity|]. simpl.
    apply not_true_is_false. intros E. unfold same_blk in E. apply existsb_exists in E.
    destruct E as [[lo' sz'] [E1 E2]]. apply blocks_from_bounds in E1. simpl in E2.
    apply andb_true_iff in E2. destruct E2 as [E2 _]. apply in_blk_iff in E2. lia.
  - pose proof (blocks_from_bounds _ _ _ _ H) as Hb.
    replace (in_blk s p i) with false by (symmetry; apply in_blk_false; lia). simpl.
    apply IH; assumption.
Qed.

(* ------------------------------------------------------------------ *)
(* the hybrid SOR row update as a function of the current vector (shared by both directions) *)
Definition hsor (A : list row) (BL : list (nat * nat)) (omega : F) (b x0 : list F) (i : nat) (X : nat -> F) : F :=
  relax_val omega (X i) (xat b i)
    (esum (fun c => if same_blk BL i c then X c else xat x0 c) (filter (neq_col i) (arow F A i)))
    (coef A i i).
Definition hjac (A : list row) (omega : F) (b x0 : list F) (i : nat) (X : nat -> F) : F :=
  relax_val omega (xat x0 i) (xat b i) (esum (xat x0) (filter (neq_col i) (arow F A i))) (coef A i i).

Definition diag_unique (A : list row) (i : nat) : Prop :=
  exists d, filter (eq_col i) (arow F A i) = [(i, d)].

Lemma annot_in (l : list (prow F)) ra : In ra (annot F l) -> In (fst ra) l.
Proof.
  induction l as [|r l IH]; simpl; [tauto|]. intros [H|H]; [subst; left; reflexivity|right; auto].
Qed.

Lemma annot_map_fst (l : list (prow F)) : map fst (annot F l) = l.
Proof. induction l as [|r l IH]; simpl; [reflexivity|]. rewrite IH. reflexivity. Qed.

Section OneBlock.
Variables (A : list row) (parts : list nat) (omega : F) (b x0 : list F).
Let BL := blocks_from 0 parts.
Variables (lo sz : nat).
Hypothesis Hblk : In (lo, sz) BL.
Let mkrow := fun i => prep_row F lo sz i (nth i A []).

Lemma sum_good i y t d :
  lo <= i < lo + sz ->
  filter (eq_col i) (arow F A i) = [(i, d)] ->
  (forall Y X0, esum Y t + esum X0 (pr_off F (mkrow i)) =
                esum (fun c => if in_blk lo sz c then Y c else X0 c) (filter (neq_col i) (arow F A i))) ->
  relax_val omega (xat y i) (xat b i) (row_acc x0 (pr_off F (mkrow i)) (row_acc y t 0)) d
  = hsor A BL omega b x0 i (xat y).
Proof.
  intros Hi Hd Hs. unfold hsor. rewrite (coef_diag_unique A i d Hd).
  f_equal. rewrite !row_acc_esum.
  rewrite (esum_ext (fun c => if same_blk BL i c then xat y c else xat x0 c)
                    (fun c => if in_blk lo sz c then xat y c else xat x0 c)).
  - rewrite <- Hs. ring.
  - intros p _. unfold BL. rewrite (same_blk_in 0 parts lo sz i (fst p) Hblk Hi). reflexivity.
Qed.

Lemma fwd_step_good i y la :
  lo <= i < lo + sz -> diag_unique A i ->
  sor_fwd_row F zero one add mul sub div omega b x0 ([], [], y) (mkrow i, la)
  = ([], [], gstep F zero (hsor A BL omega b x0) y i).
Proof.
  intros Hi [d Hd].
  destruct (prep_row_good A lo sz i d (proj2 (in_blk_iff lo sz i) Hi) Hd) as [t [Hon Hs]].
  unfold sor_fwd_row. cbn [fst snd]. unfold mkrow. change (nth i A []) with (arow F A i).
  rewrite Hon. cbn [app pr_i prep_row fst snd]. rewrite Nat.eqb_refl.
  unfold gstep. do 2 f_equal.
  apply (sum_good i y t d Hi Hd Hs).
Qed.

Lemma fwd_block_fold idx y :
  (forall i, In i idx -> lo <= i < lo + sz /\ diag_unique A i) ->
  fold_left (sor_fwd_row F zero one add mul sub div omega b x0) (annot F (map mkrow idx)) ([], [], y)
  = ([], [], gpass F zero (hsor A BL omega b x0) idx y).
Proof.
  revert y; induction idx as [|i idx IH]; intros y H; [reflexivity|].
  cbn [map annot fold_left].
  destruct (H i (or_introl eq_refl)) as [Hi Hd].
  rewrite (fwd_step_good i y _ Hi Hd).
  rewrite IH by (intros j Hj; apply H; right; assumption).
  reflexivity.
Qed.

Lemma bwd_step_good i y la :
  lo <= i < lo + sz -> diag_unique A i ->
  sor_bwd_row F zero one add mul sub div omega b x0 y (mkrow i, la)
  = gstep F zero (hsor A BL omega b x0) y i.
Proof.
  intros Hi [d Hd].
  destruct (prep_row_good A lo sz i d (proj2 (in_blk_iff lo sz i) Hi) Hd) as [t [Hon Hs]].
  unfold sor_bwd_row. cbn [fst snd]. unfold mkrow. change (nth i A []) with (arow F A i).
  rewrite Hon. cbn [pr_i prep_row fst snd]. rewrite Nat.eqb_refl.
  unfold gstep. f_equal.
  apply (sum_good i y t d Hi Hd Hs).
Qed.

Lemma bwd_block_fold idx y :
  (forall i, In i idx -> lo <= i < lo + sz /\ diag_unique A i) ->
  fold_left (sor_bwd_row F zero one add mul sub div omega b x0) (rev (annot F (map mkrow idx))) y
  = gpass F zero (hsor A BL omega b x0) (rev idx) y.
Proof.
  intros H.
  rewrite (fold_is_gpass F zero (hsor A BL omega b x0) _ (fun ra => pr_i F (fst ra))).
  - f_equal. rewrite map_rev. f_equal.
    rewrite <- (map_map fst (pr_i F)). rewrite annot_map_fst. rewrite map_map.
    unfold mkrow. simpl. apply map_id.
  - intros ra z Hin. apply in_rev in Hin. destruct ra as [r la].
    apply annot_in in Hin. cbn [fst] in *. apply in_map_iff in Hin. destruct Hin as [i [E Hi]]. subst r.
    destruct (H i Hi) as [Hi1 Hi2].
    rewrite (bwd_step_good i z la Hi1 Hi2). unfold mkrow. reflexivity.
Qed.

Lemma jac_step_good i y :
  lo <= i < lo + sz ->
  (exists d, filter (eq_col i) (arow F A i) = [(i, d)] /\ tiny d = false) ->
  dist_jac_row F zero one add mul sub div tiny omega b x0 y (mkrow i)
  = gstep F zero (hjac A omega b x0) y i.
Proof.
  intros Hi [d [Hd Ht]].
  destruct (prep_row_good A lo sz i d (proj2 (in_blk_iff lo sz i) Hi) Hd) as [t [Hon Hs]].
  unfold dist_jac_row. unfold mkrow. change (nth i A []) with (arow F A i).
  rewrite Hon. cbn [pr_i prep_row fst snd]. rewrite Ht.
  unfold gstep. f_equal. unfold hjac. rewrite (coef_diag_unique A i d Hd). f_equal.
  rewrite !row_acc_esum.
  rewrite (esum_ext (xat x0) (fun c => if in_blk lo sz c then xat x0 c else xat x0 c)
                    (filter (neq_col i) (arow F A i)))
    by (intros p _; destruct (in_blk lo sz (fst p)); reflexivity).
  rewrite <- Hs. ring.
Qed.

End OneBlock.


(* ------------------------------------------------------------------ *)
(* the distributed passes are gpasses over the global vector *)
Section DistPasses.
Variables (A : list row) (parts : list nat) (n : nat) (omega : F) (b : list F).
Hypothesis Hsum : list_sum parts = n.
Let BL := blocks_from 0 parts.
Notation P := (prepare F A parts).

Lemma blk_row_in_range lo sz i : In (lo, sz) BL -> In i (seq lo sz) -> lo <= i < lo + sz /\ i < n.
Proof.
  intros Hb Hi. apply in_seq in Hi. apply blocks_lo_ge in Hb. split; [exact Hi|]. rewrite <- Hsum. lia.
Qed.

Lemma dist_fwd_gpass x0 y :
  (forall i, i < n -> diag_unique A i) ->
  dist_fwd_pass F zero one add mul sub div P b omega x0 y = gpass F zero (hsor A BL omega b x0) (seq 0 n) y.
Proof.
  intros Hd. rewrite <- Hsum, <- (fwd_order_seq 0 parts). fold BL.
  unfold dist_fwd_pass, prepare, fwd_order. fold BL.
  assert (G : forall BL' y, (forall bl, In bl BL' -> In bl BL) ->
     fold_left (fun y blk => snd (fold_left (sor_fwd_row F zero one add mul sub div omega b x0) blk ([], [], y)))
               (map (fun bl => annot F (prep_block F A (fst bl) (snd bl))) BL') y
     = gpass F zero (hsor A BL omega b x0) (flat_map (fun bl => seq (fst bl) (snd bl)) BL') y).
  { induction BL' as [|[lo sz] BL' IH]; intros y' Hsub; [reflexivity|].
    cbn [map fold_left flat_map fst snd]. unfold prep_block.
    rewrite (fwd_block_fold A parts omega b x0 lo sz (Hsub _ (or_introl eq_refl)) (seq lo sz) y').
    - cbn [snd]. rewrite gpass_app. apply IH. intros bl Hbl. apply Hsub. right; exact Hbl.
    - intros i Hi. destruct (blk_row_in_range lo sz i (Hsub _ (or_introl eq_refl)) Hi) as [H1 H2].
      split; [exact H1|apply Hd; exact H2]. }
  apply G. auto.
Qed.

Lemma dist_bwd_gpass x0 y :
  (forall i, i < n -> diag_unique A i) ->
  dist_bwd_pass F zero one add mul sub div P b omega x0 y = gpass F zero (hsor A BL omega b x0) (bwd_order BL) y.
Proof.
  intros Hd. unfold dist_bwd_pass, prepare, bwd_order. fold BL.
  assert (G : forall BL' y, (forall bl, In bl BL' -> In bl BL) ->
     fold_left (fun y blk => fold_left (sor_bwd_row F zero one add mul sub div omega b x0) (rev blk) y)
               (map (fun bl => annot F (prep_block F A (fst bl) (snd bl))) BL') y
     = gpass F zero (hsor A BL omega b x0) (flat_map (fun bl => rev (seq (fst bl) (snd bl))) BL') y).
  { induction BL' as [|[lo sz] BL' IH]; intros y' Hsub; [reflexivity|].
    cbn [map fold_left flat_map fst snd]. unfold prep_block.
    rewrite (bwd_block_fold A parts omega b x0 lo sz (Hsub _ (or_introl eq_refl)) (seq lo sz) y').
    - rewrite gpass_app. apply IH. intros bl Hbl. apply Hsub. right; exact Hbl.
    - intros i Hi. destruct (blk_row_in_range lo sz i (Hsub _ (or_introl eq_refl)) Hi) as [H1 H2].
      split; [exact H1|apply Hd; exact H2]. }
  apply G. auto.
Qed.

Lemma dist_jac_gpass x0 :
  (forall i, i < n -> exists d, filter (eq_col i) (arow F A i) = [(i, d)] /\ tiny d = false) ->
  dist_jac_pass F zero one add mul sub div tiny P b omega x0 = gpass F zero (hjac A omega b x0) (seq 0 n) x0.
Proof.
  intros Hd. rewrite <- Hsum, <- (fwd_order_seq 0 parts). fold BL.
  unfold dist_jac_pass, prepare, fwd_order. fold BL.
  assert (G : forall BL' y, (forall bl, In bl BL' -> In bl BL) ->
     fold_left (fun y blk => fold_left (fun y ra => dist_jac_row F zero one add mul sub div tiny omega b x0 y (fst ra)) blk y)
               (map (fun bl => annot F (prep_block F A (fst bl) (snd bl))) BL') y
     = gpass F zero (hjac A omega b x0) (flat_map (fun bl => seq (fst bl) (snd bl)) BL') y).
  { induction BL' as [|[lo sz] BL' IH]; intros y' Hsub; [reflexivity|].
    cbn [map fold_left flat_map fst snd].
    rewrite (fold_is_gpass F zero (hjac A omega b x0) _ (fun ra => pr_i F (fst ra))).
    - rewrite gpass_app. rewrite IH by (intros bl Hbl; apply Hsub; right; exact Hbl).
      f_equal. f_equal. rewrite <- (map_map fst (pr_i F)). rewrite annot_map_fst.
      unfold prep_block. rewrite map_map. simpl. apply map_id.
    - intros ra z Hin. destruct ra as [r la]. apply annot_in in Hin. cbn [fst] in *.
      unfold prep_block in Hin. apply in_map_iff in Hin. destruct Hin as [i [E Hi]]. subst r.
      destruct (blk_row_in_range lo sz i (Hsub _ (or_introl eq_refl)) Hi) as [H1 H2].
      rewrite (jac_step_good A omega b x0 lo sz i z H1 (Hd i H2)). reflexivity. }
  apply G. auto.
Qed.

End DistPasses.


(* ------------------------------------------------------------------ *)
(* row-wise characterisation of the distributed passes *)
Notation wf_cols := (wf_cols F).
Notation diag_stored := (diag_stored F zero).
Notation diag_not_tiny := (diag_not_tiny F zero tiny).
Notation solves := (solves F zero add mul).
Notation jac_spec := (jac_spec F zero one add mul sub div).
Notation fwd_spec := (fwd_spec F zero one add mul sub div).
Notation bwd_spec := (bwd_spec F zero one add mul sub div).

Lemma diag_stored_unique A n : diag_stored A n -> forall i, i < n -> diag_unique A i.
Proof. intros H i Hi. destruct (H i Hi) as [d [Hd _]]. exists d. exact Hd. Qed.

Section DistChar.
Variables (A : list row) (parts : list nat) (n : nat) (omega : F) (b : list F).
Hypothesis Hsum : list_sum parts = n.
Hypothesis Hwf : wf_cols A n.
Let BL := blocks_from 0 parts.
Notation P := (prepare F A parts).

Lemma hsor_offdot x0 lo sz i X :
  In (lo, sz) BL -> lo <= i < lo + sz ->
  hsor A BL omega b x0 i X =
  relax_val omega (X i) (xat b i) (offdot A n i (fun j => if in_blk lo sz j then X j else xat x0 j)) (coef A i i).
Proof.
  intros Hb Hi. unfold hsor. f_equal.
  assert (Hn : i < n). { apply blocks_lo_ge in Hb. rewrite <- Hsum. lia. }
  rewrite (esum_offdot A n i) by (intros p Hp; apply (Hwf i p Hn Hp)).
  apply offdot_ext. intros j _ _. unfold BL. rewrite (same_blk_in 0 parts lo sz i j Hb Hi). reflexivity.
Qed.

Theorem dist_fwd_char x0 y :
  length y = n -> diag_stored A n ->
  fwd_spec A parts n omega b x0 y (dist_fwd_pass F zero one add mul sub div P b omega x0 y).
Proof.
  intros Hlen Hd lo sz i Hb Hi.
  assert (Hn : i < n). { apply blocks_lo_ge in Hb. rewrite <- Hsum. lia. }
  rewrite (dist_fwd_gpass A parts n omega b Hsum x0 y (diag_stored_unique A n Hd)).
  fold BL. set (h := hsor A BL omega b x0).
  assert (Es : seq 0 n = seq 0 i ++ i :: seq (S i) (n - S i)).
  { rewrite (seq_split 0 n i) by lia. rewrite Nat.sub_0_r. reflexivity. }
  assert (Hnd : NoDup (seq 0 i ++ i :: seq (S i) (n - S i))) by (rewrite <- Es; apply seq_NoDup).
  set (z := gpass F zero h (seq 0 n) y).
  assert (E : xat z i = h i (xat (gpass F zero h (seq 0 i) y))).
  { unfold z. rewrite Es. apply gpass_at; [intro Hin; apply in_seq in Hin; lia|lia]. }
  rewrite E. unfold h at 1. rewrite (hsor_offdot x0 lo sz i _ Hb Hi).
  f_equal.
  - apply gpass_notin. intro Hin. apply in_seq in Hin. lia.
  - apply offdot_ext. intros j Hj Hne. destruct (in_blk lo sz j); [|reflexivity].
    destruct (j <? i) eqn:Elt.
    + apply Nat.ltb_lt in Elt. unfold z. rewrite Es. symmetry. apply gpass_pre_in; [exact Hnd|].
      apply in_seq. lia.
    + apply Nat.ltb_ge in Elt. apply gpass_notin. intro Hin. apply in_seq in Hin. lia.
Qed.

Theorem dist_bwd_char x0 y :
  length y = n -> diag_stored A n ->
  bwd_spec A parts n omega b x0 y (dist_bwd_pass F zero one add mul sub div P b omega x0 y).
Proof.
  intros Hlen Hd lo sz i Hb Hi.
  assert (Hn : i < n). { apply blocks_lo_ge in Hb. rewrite <- Hsum. lia. }
  rewrite (dist_bwd_gpass A parts n omega b Hsum x0 y (diag_stored_unique A n Hd)).
  fold BL. set (h := hsor A BL omega b x0).
  destruct (bwd_order_split 0 parts lo sz i Hb Hi) as [pre [post [Es Hpre]]]. fold BL in Es.
  assert (Hnd : NoDup (pre ++ i :: post)) by (rewrite <- Es; apply bwd_order_nodup).
  assert (Hnp : ~ In i post).
  { intro Hin. apply NoDup_remove_2 in Hnd. apply Hnd. apply in_or_app. right; exact Hin. }
  assert (Hni : ~ In i pre). { intro Hin. apply (Hpre i Hi) in Hin. lia. }
  set (z := gpass F zero h (bwd_order BL) y).
  assert (E : xat z i = h i (xat (gpass F zero h pre y))).
  { unfold z. rewrite Es. apply gpass_at; [exact Hnp|lia]. }
  rewrite E. unfold h at 1. rewrite (hsor_offdot x0 lo sz i _ Hb Hi).
  f_equal.
  - apply gpass_notin. exact Hni.
  - apply offdot_ext. intros j Hj Hne. destruct (in_blk lo sz j) eqn:Ej; [|reflexivity].
    apply in_blk_spec in Ej.
    destruct (i <? j) eqn:Elt.
    + apply Nat.ltb_lt in Elt. unfold z. rewrite Es. symmetry. apply gpass_pre_in; [exact Hnd|].
      apply (Hpre j Ej). exact Elt.
    + apply Nat.ltb_ge in Elt. apply gpass_notin. intro Hin. apply (Hpre j Ej) in Hin. lia.
Qed.

Theorem dist_jac_char x :
  length x = n -> diag_not_tiny A n ->
  jac_spec A n omega b x (dist_jac_pass F zero one add mul sub div tiny P b omega x).
Proof.
  intros Hlen Hd i Hn.
  rewrite (dist_jac_gpass A parts n omega b Hsum x).
  - assert (Es : seq 0 n = seq 0 i ++ i :: seq (S i) (n - S i)).
    { rewrite (seq_split 0 n i) by lia. rewrite Nat.sub_0_r. reflexivity. }
    rewrite Es. rewrite gpass_at by (try (intro Hin; apply in_seq in Hin); lia).
    unfold hjac. f_equal. apply esum_offdot. intros p Hp. apply (Hwf i p Hn Hp).
  - intros j Hj. destruct (Hd j Hj) as [d [H1 [_ H3]]]. exists d. split; assumption.
Qed.

(* the row-wise equations determine the result *)
Lemma xat_ext (z z' : list F) : length z = n -> length z' = n ->
  (forall i, i < n -> xat z i = xat z' i) -> z = z'.
Proof.
  intros H1 H2 H. apply (nth_ext z z' zero zero); [congruence|].
  intros i Hi. apply H. lia.
Qed.

Theorem fwd_spec_unique x0 y z z' :
  length z = n -> length z' = n ->
  fwd_spec A parts n omega b x0 y z -> fwd_spec A parts n omega b x0 y z' -> z = z'.
Proof.
  intros L1 L2 S1 S2. apply xat_ext; try assumption.
  intros i. induction i as [i IH] using lt_wf_ind. intros Hn.
  destruct (blocks_cover 0 parts i) as [lo [sz [Hb Hi]]]; [rewrite Hsum; lia|].
  rewrite (S1 lo sz i Hb Hi), (S2 lo sz i Hb Hi). f_equal.
  apply offdot_ext. intros j Hj _. destruct (in_blk lo sz j); [|reflexivity].
  destruct (j <? i) eqn:E; [|reflexivity]. apply Nat.ltb_lt in E. apply IH; assumption.
Qed.

Theorem bwd_spec_unique x0 y z z' :
  length z = n -> length z' = n ->
  bwd_spec A parts n omega b x0 y z -> bwd_spec A parts n omega b x0 y z' -> z = z'.
Proof.
  intros L1 L2 S1 S2. apply xat_ext; try assumption.
  assert (G : forall k i, n - k <= i -> i < n -> xat z i = xat z' i).
  { induction k as [|k IH]; intros i Hk Hn; [lia|].
    destruct (blocks_cover 0 parts i) as [lo [sz [Hb Hi]]]; [rewrite Hsum; lia|].
    rewrite (S1 lo sz i Hb Hi), (S2 lo sz i Hb Hi). f_equal.
    apply offdot_ext. intros j Hj _. destruct (in_blk lo sz j); [|reflexivity].
    destruct (i <? j) eqn:E; [|reflexivity]. apply Nat.ltb_lt in E. apply IH; lia. }
  intros i Hi. apply (G n i); lia.
Qed.

(* fixed point *)
Lemma relax_val_fixed (xi s d : F) : d <> 0 -> relax_val omega xi (s + d * xi) s d = xi.
Proof. intros Hd. unfold Relax.relax_val. field. exact Hd. Qed.

Lemma hsor_fixed x i :
  diag_stored A n -> solves A n x b -> i < n -> hsor A BL omega b x i (xat x) = xat x i.
Proof.
  intros Hd Hs Hn. unfold hsor. destruct (Hd i Hn) as [d [Hd1 Hd2]].
  rewrite (coef_diag_unique A i d Hd1).
  rewrite (esum_ext _ (xat x)) by (intros p _; destruct (same_blk BL i (fst p)); reflexivity).
  rewrite (esum_offdot A n i) by (intros p Hp; apply (Hwf i p Hn Hp)).
  rewrite <- (Hs i Hn). rewrite (rowdot_split A n i _ Hn). rewrite (coef_diag_unique A i d Hd1).
  apply relax_val_fixed. exact Hd2.
Qed.

Lemma hjac_fixed x i :
  diag_stored A n -> solves A n x b -> i < n -> hjac A omega b x i (xat x) = xat x i.
Proof.
  intros Hd Hs Hn. unfold hjac. destruct (Hd i Hn) as [d [Hd1 Hd2]].
  rewrite (coef_diag_unique A i d Hd1).
  rewrite (esum_offdot A n i) by (intros p Hp; apply (Hwf i p Hn Hp)).
  rewrite <- (Hs i Hn). rewrite (rowdot_split A n i _ Hn). rewrite (coef_diag_unique A i d Hd1).
  apply relax_val_fixed. exact Hd2.
Qed.

Theorem dist_fwd_fixed x :
  diag_stored A n -> solves A n x b ->
  dist_fwd_pass F zero one add mul sub div P b omega x x = x.
Proof.
  intros Hd Hs. rewrite (dist_fwd_gpass A parts n omega b Hsum x x (diag_stored_unique A n Hd)).
  apply gpass_fixed. intros i Hi. apply in_seq in Hi. apply hsor_fixed; try assumption. lia.
Qed.

Theorem dist_bwd_fixed x :
  diag_stored A n -> solves A n x b ->
  dist_bwd_pass F zero one add mul sub div P b omega x x = x.
Proof.
  intros Hd Hs. rewrite (dist_bwd_gpass A parts n omega b Hsum x x (diag_stored_unique A n Hd)).
  apply gpass_fixed. intros i Hi. apply bwd_order_in in Hi. apply hsor_fixed; try assumption. lia.
Qed.

End DistChar.


(* ------------------------------------------------------------------ *)
(* Jacobi fixed point does not need the zero-tolerance side condition: a guarded row is left alone *)
Lemma fold_left_fixed {R} (step : list F -> R -> list F) (l : list R) (y : list F) :
  (forall r, In r l -> step y r = y) -> fold_left step l y = y.
Proof.
  induction l as [|r l IH]; intros H; simpl; [reflexivity|].
  rewrite (H r) by (left; reflexivity). apply IH. intros r' Hr. apply H. right; exact Hr.
Qed.

Theorem dist_jac_fixed (A : list row) (parts : list nat) (n : nat) (omega : F) (b x : list F) :
  list_sum parts = n -> wf_cols A n -> diag_stored A n -> solves A n x b ->
  dist_jac_pass F zero one add mul sub div tiny (prepare F A parts) b omega x = x.
Proof.
  intros Hsum Hwf Hd Hs. unfold dist_jac_pass, prepare.
  apply fold_left_fixed. intros blk Hblk. apply in_map_iff in Hblk. destruct Hblk as [[lo sz] [E Hb]]. subst blk.
  apply fold_left_fixed. intros [r la] Hin. apply annot_in in Hin. cbn [fst snd] in *.
  unfold prep_block in Hin. apply in_map_iff in Hin. destruct Hin as [i [E Hi]]. subst r.
  destruct (blk_row_in_range parts n Hsum lo sz i Hb Hi) as [H1 H2].
  destruct (Hd i H2) as [d [Hd1 Hd2]].
  destruct (tiny d) eqn:Et.
  - destruct (prep_row_good A lo sz i d (proj2 (in_blk_iff lo sz i) H1) Hd1) as [t [Hon _]].
    unfold dist_jac_row. change (nth i A []) with (arow F A i). rewrite Hon. cbn [snd]. rewrite Et. reflexivity.
  - rewrite (jac_step_good A omega b x lo sz i x H1 (ex_intro _ d (conj Hd1 Et))).
    unfold gstep. rewrite (hjac_fixed A n omega b Hwf x i Hd Hs H2). apply upd_same.
Qed.

(* ------------------------------------------------------------------ *)
(* relax.cpp: the sequential sweeps are the same gpasses *)
Notation diag_first := (diag_first F zero).

Lemma upd_upd (l : list F) i a c : upd (upd l i a) i c = upd l i c.
Proof. revert i; induction l as [|x l IH]; intros [|i]; simpl; auto. f_equal. apply IH. Qed.

Definition hseq (A : list row) (omega : F) (b : list F) (i : nat) (X : nat -> F) : F :=
  (omega / coef A i i) * (xat b i - esum X (filter (neq_col i) (arow F A i))) + (1 - omega) * X i.

Lemma sor_inner_fold (x : list F) i (t : row) acc :
  i < length x -> (forall p, In p t -> fst p <> i) ->
  fold_left (fun x p => upd x i (xat x i - snd p * xat x (fst p))) t (upd x i acc)
  = upd x i (fold_left (fun a p => a - snd p * xat x (fst p)) t acc).
Proof.
  intros Hi. revert acc; induction t as [|p t IH]; intros acc H; simpl; [reflexivity|].
  rewrite xat_upd_eq by exact Hi.
  rewrite xat_upd_neq by (intro E; apply (H p (or_introl eq_refl)); symmetry; exact E).
  rewrite upd_upd. apply IH. intros q Hq. apply H. right; exact Hq.
Qed.

Lemma sor_inner_oob (x : list F) i (t : row) :
  length x <= i ->
  fold_left (fun x p => upd x i (xat x i - snd p * xat x (fst p))) t x = x.
Proof.
  intros Hi. induction t as [|p t IH]; simpl; [reflexivity|]. rewrite upd_oob by exact Hi. exact IH.
Qed.

Lemma diag_first_filter (A : list row) i d t :
  arow F A i = (i, d) :: t -> filter (eq_col i) t = [] ->
  filter (eq_col i) (arow F A i) = [(i, d)] /\ filter (neq_col i) (arow F A i) = t.
Proof.
  intros E Ht. rewrite E. simpl. unfold eq_col at 1, neq_col at 1. simpl. rewrite Nat.eqb_refl. simpl.
  rewrite Ht. split; [reflexivity|].
  change (filter (neq_col i) t) with (filter (fun a => negb (eq_col i a)) t). apply filter_nil_neg. exact Ht.
Qed.

Lemma seq_sor_row_gstep (A : list row) omega b x i d t :
  arow F A i = (i, d) :: t -> filter (eq_col i) t = [] ->
  seq_sor_row F zero one add mul sub div omega b x (i, arow F A i) = gstep F zero (hseq A omega b) x i.
Proof.
  intros E Ht. destruct (diag_first_filter A i d t E Ht) as [F1 F2].
  unfold seq_sor_row, gstep. cbn [fst snd]. rewrite E.
  destruct (Nat.lt_ge_cases i (length x)) as [Hi|Hi].
  - rewrite sor_inner_fold.
    + rewrite upd_upd. rewrite xat_upd_eq by exact Hi. f_equal.
      unfold hseq. rewrite (coef_diag_unique A i d F1). rewrite F2. cbn [snd].
      rewrite fold_sub_esum. reflexivity.
    + exact Hi.
    + intros p Hp E2. assert (Hin : In p (filter (eq_col i) t)).
      { apply filter_In. split; [exact Hp|]. unfold eq_col. apply Nat.eqb_eq. exact E2. }
      rewrite Ht in Hin. exact Hin.
  - rewrite (upd_oob F x i (xat b i) Hi). rewrite sor_inner_oob by exact Hi.
    rewrite !upd_oob by exact Hi. reflexivity.
Qed.

Lemma list_sum_single (n : nat) : list_sum [n] = n.
Proof. simpl. lia. Qed.

Section SeqSor.
Variables (A : list row) (n : nat) (omega : F) (b : list F).
Hypothesis Hlen : length A = n.
Hypothesis Hdf : diag_first A n.

Lemma indexed_row ir : In ir (indexed A) -> fst ir < n /\ snd ir = arow F A (fst ir).
Proof.
  destruct ir as [i a]. intros H. unfold indexed in H. apply indexed_from_in in H.
  destruct H as [H1 H2]. rewrite Nat.sub_0_r in H2. cbn [fst snd]. split; [lia|].
  unfold arow. symmetry. apply nth_error_nth. exact H2.
Qed.

Lemma seq_row_step ir z : In ir (indexed A) ->
  seq_sor_row F zero one add mul sub div omega b z ir = gstep F zero (hseq A omega b) z (fst ir).
Proof.
  intros H. destruct (indexed_row ir H) as [H1 H2]. destruct ir as [i a]. cbn [fst snd] in *. subst a.
  destruct (Hdf i H1) as [d [t [E [Ht _]]]].
  apply (seq_sor_row_gstep A omega b z i d t E Ht).
Qed.

Lemma seq_fwd_gpass x : seq_sor_fwd F zero one add mul sub div A b omega x = gpass F zero (hseq A omega b) (seq 0 n) x.
Proof.
  unfold seq_sor_fwd. rewrite (fold_is_gpass F zero (hseq A omega b) _ fst).
  - unfold indexed. rewrite indexed_from_map_fst. rewrite Hlen. reflexivity.
  - intros r z Hr. apply seq_row_step. exact Hr.
Qed.

Lemma seq_bwd_gpass x : seq_sor_bwd F zero one add mul sub div A b omega x = gpass F zero (hseq A omega b) (rev (seq 0 n)) x.
Proof.
  unfold seq_sor_bwd. rewrite (fold_is_gpass F zero (hseq A omega b) _ fst).
  - rewrite map_rev. unfold indexed. rewrite indexed_from_map_fst. rewrite Hlen. reflexivity.
  - intros r z Hr. apply seq_row_step. apply in_rev. exact Hr.
Qed.

Lemma diag_first_stored : diag_stored A n.
Proof.
  intros i Hi. destruct (Hdf i Hi) as [d [t [E [Ht Hd]]]]. exists d. split; [|exact Hd].
  apply (diag_first_filter A i d t E Ht).
Qed.

Hypothesis Hwf : wf_cols A n.

Lemma hseq_hsor x0 i X : i < n -> hseq A omega b i X = hsor A (blocks_from 0 [n]) omega b x0 i X.
Proof.
  intros Hi. unfold hseq, hsor. destruct (diag_first_stored i Hi) as [d [Hd1 Hd2]].
  rewrite (coef_diag_unique A i d Hd1).
  rewrite (esum_ext (fun c => if same_blk (blocks_from 0 [n]) i c then X c else xat x0 c) X).
  - unfold Relax.relax_val. field. exact Hd2.
  - intros p Hp. apply filter_In in Hp. destruct Hp as [Hp _].
    pose proof (Hwf i p Hi Hp) as Hlt.
    simpl. unfold same_blk. simpl.
    replace (in_blk 0 n i) with true by (symmetry; apply in_blk_spec; lia).
    replace (in_blk 0 n (fst p)) with true by (symmetry; apply in_blk_spec; lia). reflexivity.
Qed.

(* the hybrid sweep on one rank is the sequential sweep *)
Theorem seq_fwd_is_dist x0 y :
  seq_sor_fwd F zero one add mul sub div A b omega y
  = dist_fwd_pass F zero one add mul sub div (prepare F A [n]) b omega x0 y.
Proof.
  rewrite seq_fwd_gpass.
  rewrite (dist_fwd_gpass A [n] n omega b (list_sum_single n) x0 y (diag_stored_unique A n diag_first_stored)).
  apply gpass_ext. intros i X Hi. apply in_seq in Hi. apply hseq_hsor. lia.
Qed.

Theorem seq_bwd_is_dist x0 y :
  seq_sor_bwd F zero one add mul sub div A b omega y
  = dist_bwd_pass F zero one add mul sub div (prepare F A [n]) b omega x0 y.
Proof.
  rewrite seq_bwd_gpass.
  rewrite (dist_bwd_gpass A [n] n omega b (list_sum_single n) x0 y (diag_stored_unique A n diag_first_stored)).
  unfold bwd_order. simpl. rewrite app_nil_r.
  apply gpass_ext. intros i X Hi. apply in_rev in Hi. apply in_seq in Hi. apply hseq_hsor. lia.
Qed.

End SeqSor.


(* ------------------------------------------------------------------ *)
(* relax.cpp jacobi *)
Section JacScan.
Variables (i : nat) (tmp : list F).
Let jstep := fun (st : F * F) (p : nat * F) =>
  if i =? fst p then (snd p, snd st) else (fst st, snd st + snd p * xat tmp (fst p)).

Lemma jscan_snd r st : snd (fold_left jstep r st) = snd st + esum (xat tmp) (filter (neq_col i) r).
Proof.
  revert st; induction r as [|p r IH]; intros st.
  - simpl. unfold esum; simpl. ring.
  - cbn [fold_left]. rewrite IH. cbn [filter]. unfold jstep. unfold neq_col at 2.
    rewrite (Nat.eqb_sym (fst p) i).
    destruct (i =? fst p); cbn [negb snd fst]; unfold esum; simpl; ring.
Qed.

Lemma jscan_fst_none r st : filter (eq_col i) r = [] -> fst (fold_left jstep r st) = fst st.
Proof.
  revert st; induction r as [|p r IH]; intros st H; simpl; [reflexivity|].
  simpl in H. unfold eq_col at 1 in H. destruct (fst p =? i) eqn:E; [discriminate|].
  rewrite IH by exact H. unfold jstep. rewrite Nat.eqb_sym, E. reflexivity.
Qed.

Lemma jscan_fst_one r st d : filter (eq_col i) r = [(i, d)] -> fst (fold_left jstep r st) = d.
Proof.
  revert st; induction r as [|p r IH]; intros st H; simpl; [discriminate|].
  simpl in H. unfold eq_col at 1 in H. destruct (fst p =? i) eqn:E.
  - inversion H as [[Hp Hr]]. rewrite jscan_fst_none by exact Hr.
    unfold jstep. simpl. rewrite Nat.eqb_refl. reflexivity.
  - rewrite IH by exact H. reflexivity.
Qed.

Lemma jac_scan_unique r d : filter (eq_col i) r = [(i, d)] ->
  jac_scan F zero add mul i tmp r = (d, 0 + esum (xat tmp) (filter (neq_col i) r)).
Proof.
  intros H. unfold jac_scan. change (fold_left _ r (0, 0)) with (fold_left jstep r (0, 0)).
  rewrite (surjective_pairing (fold_left jstep r (0, 0))).
  rewrite (jscan_fst_one r (0, 0) d H), jscan_snd. reflexivity.
Qed.
End JacScan.

Lemma seq_jacobi_row_cases (A : list row) omega b tmp x i d :
  filter (eq_col i) (arow F A i) = [(i, d)] ->
  seq_jacobi_row F zero one add mul sub div tiny omega b tmp x (i, arow F A i)
  = if tiny d then x else gstep F zero (hjac A omega b tmp) x i.
Proof.
  intros Hd. unfold seq_jacobi_row. cbn [fst snd].
  rewrite (jac_scan_unique i tmp (arow F A i) d Hd). cbn [fst snd].
  destruct (arow F A i) as [|p r] eqn:E; [simpl in Hd; discriminate|].
  destruct (tiny d); [reflexivity|].
  unfold gstep. f_equal. unfold hjac. rewrite (coef_diag_unique A i d) by (rewrite E; exact Hd).
  rewrite E. unfold Relax.relax_val. f_equal. f_equal. f_equal. ring.
Qed.

Section SeqJac.
Variables (A : list row) (n : nat) (omega : F) (b : list F).
Hypothesis Hlen : length A = n.

Lemma seq_jac_gpass x :
  diag_not_tiny A n ->
  seq_jacobi_sweep F zero one add mul sub div tiny A b omega x = gpass F zero (hjac A omega b x) (seq 0 n) x.
Proof.
  intros Hd. unfold seq_jacobi_sweep. rewrite (fold_is_gpass F zero (hjac A omega b x) _ fst).
  - unfold indexed. rewrite indexed_from_map_fst. rewrite Hlen. reflexivity.
  - intros ir z Hin. destruct (indexed_row A n Hlen ir Hin) as [H1 H2]. destruct ir as [i a]. cbn [fst snd] in *. subst a.
    destruct (Hd i H1) as [d [Hd1 [_ Hd3]]].
    rewrite (seq_jacobi_row_cases A omega b x z i d Hd1). rewrite Hd3. reflexivity.
Qed.

Theorem seq_jac_is_dist x :
  diag_not_tiny A n ->
  seq_jacobi_sweep F zero one add mul sub div tiny A b omega x
  = dist_jac_pass F zero one add mul sub div tiny (prepare F A [n]) b omega x.
Proof.
  intros Hd. rewrite (seq_jac_gpass x Hd).
  rewrite (dist_jac_gpass A [n] n omega b (list_sum_single n) x); [reflexivity|].
  intros i Hi. destruct (Hd i Hi) as [d [H1 [_ H3]]]. exists d. split; assumption.
Qed.

Theorem seq_jac_fixed x :
  wf_cols A n -> diag_stored A n -> solves A n x b ->
  seq_jacobi_sweep F zero one add mul sub div tiny A b omega x = x.
Proof.
  intros Hwf Hd Hs. unfold seq_jacobi_sweep. apply fold_left_fixed.
  intros ir Hin. destruct (indexed_row A n Hlen ir Hin) as [H1 H2]. destruct ir as [i a]. cbn [fst snd] in *. subst a.
  destruct (Hd i H1) as [d [Hd1 Hd2]].
  rewrite (seq_jacobi_row_cases A omega b x x i d Hd1).
  destruct (tiny d); [reflexivity|].
  unfold gstep. rewrite (hjac_fixed A n omega b Hwf x i Hd Hs H1). apply upd_same.
Qed.

End SeqJac.

(* lengths *)
Lemma dist_fwd_length A parts n omega b x0 y :
  list_sum parts = n -> diag_stored A n ->
  length (dist_fwd_pass F zero one add mul sub div (prepare F A parts) b omega x0 y) = length y.
Proof.
  intros Hs Hd. rewrite (dist_fwd_gpass A parts n omega b Hs x0 y (diag_stored_unique A n Hd)). apply gpass_length.
Qed.

Lemma dist_bwd_length A parts n omega b x0 y :
  list_sum parts = n -> diag_stored A n ->
  length (dist_bwd_pass F zero one add mul sub div (prepare F A parts) b omega x0 y) = length y.
Proof.
  intros Hs Hd. rewrite (dist_bwd_gpass A parts n omega b Hs x0 y (diag_stored_unique A n Hd)). apply gpass_length.
Qed.

Lemma iter_fixed {T} (f : T -> T) (x : T) k : f x = x -> Nat.iter k f x = x.
Proof. intros H. induction k as [|k IH]; simpl; [reflexivity|]. rewrite IH. exact H. Qed.


Lemma iter_ext {T} (f g : T -> T) (x : T) k : (forall y, f y = g y) -> Nat.iter k f x = Nat.iter k g x.
Proof. intros H. induction k as [|k IH]; simpl; [reflexivity|]. rewrite IH. apply H. Qed.

Notation seq_fwd_spec := (seq_fwd_spec F zero one add mul sub div).
Notation seq_bwd_spec := (seq_bwd_spec F zero one add mul sub div).

(* with a single block nothing is frozen *)
Lemma fwd_spec_single A n omega b x0 y z :
  fwd_spec A [n] n omega b x0 y z -> seq_fwd_spec A n omega b y z.
Proof.
  intros H i Hi. rewrite (H O n i (or_introl eq_refl)) by lia. f_equal.
  apply offdot_ext. intros j Hj _.
  replace (in_blk O n j) with true by (symmetry; apply in_blk_spec; lia). reflexivity.
Qed.

Lemma bwd_spec_single A n omega b x0 y z :
  bwd_spec A [n] n omega b x0 y z -> seq_bwd_spec A n omega b y z.
Proof.
  intros H i Hi. rewrite (H O n i (or_introl eq_refl)) by lia. f_equal.
  apply offdot_ext. intros j Hj _.
  replace (in_blk O n j) with true by (symmetry; apply in_blk_spec; lia). reflexivity.
Qed.

End RelaxProofs.
