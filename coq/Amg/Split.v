(* Executable model of raptor's sequential C/F splittings
   (raptor/ruge_stuben/cf_splitting.cpp: transpose, rs_first_pass, rs_second_pass, split_rs,
    select_independent_set, update_weights, update_states, cljp_main_loop, pmis_main_loop,
    split_cljp, split_pmis) and the verified checker split_ok.

   The strength matrix S is a CSR *pattern*: list of rows of column indices in storage order
   (values play no role).  Every entry point first calls move_diag (first diagonal entry of a row goes
   to the front, the entries before it shift right) and then every loop over a row skips the first
   entry when it equals the row number (`if (S->idx2[start] == i) start++`).
   Labels are the constants of raptor/core/types.hpp.  *)
From Coq Require Import List Arith Lia Bool.
Import ListNotations.

Inductive label : Type :=
| LU   (* Unassigned     -1 *)
| LN   (* NoNeighbors    -2 *)
| LC   (* Selected        1 *)
| LF   (* Unselected      0 *)
| LNC  (* NewSelection    3 *)
| LNF. (* NewUnselection  2 *)

Definition label_eqb (a b : label) : bool :=
  match a, b with
  | LU, LU | LN, LN | LC, LC | LF, LF | LNC, LNC | LNF, LNF => true
  | _, _ => false
  end.

Definition graph := list (list nat).

(* ---------- arrays as lists ---------- *)
Fixpoint upd {A} (l : list A) (i : nat) (x : A) : list A :=
  match l, i with
  | [], _ => []
  | _ :: t, 0 => x :: t
  | h :: t, S j => h :: upd t j x
  end.

Definition indexed {A} (l : list A) : list (nat * A) := combine (seq 0 (length l)) l.

(* ---------- move_diag and the diagonal skip ---------- *)
Fixpoint remove_first (i : nat) (r : list nat) : list nat :=
  match r with
  | [] => []
  | c :: t => if c =? i then t else c :: remove_first i t
  end.
Definition move_diag_row (i : nat) (r : list nat) : list nat :=
  if existsb (Nat.eqb i) r then i :: remove_first i r else r.
Definition offd (i : nat) (r : list nat) : list nat :=
  match r with
  | c :: t => if c =? i then t else r
  | [] => []
  end.
(* rows as stored after move_diag (rs_second_pass walks these, diagonal included) *)
Definition full_rows (S : graph) : list (list nat) :=
  map (fun ir => move_diag_row (fst ir) (snd ir)) (indexed S).
(* rows as every other loop sees them *)
Definition off_rows (S : graph) : list (list nat) :=
  map (fun ir => offd (fst ir) (move_diag_row (fst ir) (snd ir))) (indexed S).

(* ---------- counting sort into m buckets, arrival order kept inside a bucket:
   what  ptr[key] + ctr[key]++  writes ---------- *)
Definition app_at (acc : list (list nat)) (k v : nat) : list (list nat) :=
  upd acc k (nth k acc [] ++ [v]).
Definition group_by (m : nat) (pairs : list (nat * nat)) : list (list nat) :=
  fold_left (fun acc p => app_at acc (fst p) (snd p)) pairs (repeat [] m).

(* transpose(S, col_ptr, col_indices): column c lists the rows i (ascending) with c in off-row i *)
Definition row_pairs (R : list (list nat)) : list (nat * nat) :=
  flat_map (fun ir => map (fun c => (c, fst ir)) (snd ir)) (indexed R).
Definition col_lists (R : list (list nat)) : list (list nat) := group_by (length R) (row_pairs R).

(* ---------- Ruge-Stuben, first pass ---------- *)
Record rs_st := mkRs {
  rw : list nat;       (* weights *)
  rst : list label;    (* states *)
  rptr : list nat;     (* weight_ptr, n+1 entries *)
  rsz : list nat;      (* weight_sizes *)
  ri2c : list nat;     (* weight_idx_to_col *)
  rc2i : list nat      (* col_to_weight_idx *)
}.

Fixpoint prefix_sums (acc : nat) (l : list nat) : list nat :=
  match l with
  | [] => [acc]
  | x :: t => acc :: prefix_sums (acc + x) t
  end.

(* the three initialisation loops of rs_first_pass *)
Definition rs_init (n : nat) (w : list nat) (st : list label) : rs_st :=
  let buckets := group_by n (map (fun c => (nth c w 0, c)) (seq 0 n)) in
  let i2c := concat buckets in
  let c2i := fold_left (fun acc pc => upd acc (snd pc) (fst pc)) (indexed i2c) (repeat 0 n) in
  mkRs w st (prefix_sums 0 (map (@length nat) buckets)) (map (@length nat) buckets) i2c c2i.

Definition swap_pos (s : rs_st) (old_pos new_pos : nat) : list nat * list nat :=
  let co := nth old_pos (ri2c s) 0 in
  let cn := nth new_pos (ri2c s) 0 in
  (upd (upd (ri2c s) old_pos cn) new_pos co, upd (upd (rc2i s) co new_pos) cn old_pos).

(* "Increment weight" of idx_k = k *)
Definition fp_inc (n : nat) (s : rs_st) (k : nat) : rs_st :=
  let wk := nth k (rw s) 0 in
  if n - 1 <=? wk then s else
  let old_pos := nth k (rc2i s) 0 in
  let new_pos := nth wk (rptr s) 0 + nth wk (rsz s) 0 - 1 in
  let '(i2c, c2i) := swap_pos s old_pos new_pos in
  let sz1 := upd (rsz s) wk (nth wk (rsz s) 0 - 1) in
  let sz2 := upd sz1 (wk + 1) (nth (wk + 1) sz1 0 + 1) in
  mkRs (upd (rw s) k (wk + 1)) (rst s) (upd (rptr s) (wk + 1) new_pos) sz2 i2c c2i.

(* "Move idx to beginning of interval (decremented weight)" *)
Definition fp_dec (s : rs_st) (k : nat) : rs_st :=
  let wk := nth k (rw s) 0 in
  if wk =? 0 then s else
  let old_pos := nth k (rc2i s) 0 in
  let new_pos := nth wk (rptr s) 0 in
  let '(i2c, c2i) := swap_pos s old_pos new_pos in
  let sz1 := upd (rsz s) wk (nth wk (rsz s) 0 - 1) in
  let sz2 := upd sz1 (wk - 1) (nth (wk - 1) sz1 0 + 1) in
  let ptr1 := upd (rptr s) wk (nth wk (rptr s) 0 + 1) in
  let ptr2 := upd ptr1 (wk - 1) (nth wk ptr1 0 - nth (wk - 1) sz2 0) in
  mkRs (upd (rw s) k (wk - 1)) (rst s) ptr2 sz2 i2c c2i.

Definition set_st (s : rs_st) (v : nat) (l : label) : rs_st :=
  mkRs (rw s) (upd (rst s) v l) (rptr s) (rsz s) (ri2c s) (rc2i s).

Section RSPass.
Variable n : nat.
Variable R : list (list nat).     (* off-diagonal rows *)
Variable CL : list (list nat).    (* column lists *)

Definition fp_mark_dep (s : rs_st) (idx : nat) : rs_st :=
  if label_eqb (nth idx (rst s) LU) LU then
    fold_left (fun s k => if label_eqb (nth k (rst s) LU) LU then fp_inc n s k else s)
              (nth idx R []) (set_st s idx LF)
  else s.

Definition fp_step (s : rs_st) (i : nat) : rs_st :=
  let col := nth i (ri2c s) 0 in
  let wc := nth col (rw s) 0 in
  let s := mkRs (rw s) (rst s) (rptr s) (upd (rsz s) wc (nth wc (rsz s) 0 - 1)) (ri2c s) (rc2i s) in
  if label_eqb (nth col (rst s) LU) LU then
    let s := set_st s col LC in
    let s := fold_left fp_mark_dep (nth col CL []) s in
    fold_left (fun s idx => if label_eqb (nth idx (rst s) LU) LU then fp_dec s idx else s) (nth col R []) s
  else s.

Definition rs_first_pass (w : list nat) (st : list label) : rs_st :=
  fold_left fp_step (rev (seq 0 n)) (rs_init n w st).
End RSPass.

(* ---------- Ruge-Stuben, second pass (walks the stored rows, diagonal included) ---------- *)
Definition opt_is (o : option nat) (i : nat) : bool :=
  match o with Some j => j =? i | None => false end.

Section RSSecond.
Variable FR : list (list nat).    (* rows as stored after move_diag *)

Definition sp_check (i : nat) (p : list (option nat) * list label) (col : nat) :=
  let '(rc, st) := p in
  if label_eqb (nth col st LU) LF then
    let rowc := nth col FR [] in
    match rowc with
    | [] => p
    | _ => if existsb (fun ck => opt_is (nth ck rc None) i) rowc then p
           else (upd rc col (Some i), upd st col LC)
    end
  else p.

Definition sp_row (p : list (option nat) * list label) (i : nat) :=
  let '(rc, st) := p in
  if label_eqb (nth i st LU) LC then p else
  let row := nth i FR [] in
  let rc1 := fold_left (fun rc col => if label_eqb (nth col st LU) LC then upd rc col (Some i) else rc) row rc in
  fold_left (sp_check i) row (rc1, st).

Definition rs_second_pass (st : list label) : list label :=
  snd (fold_left sp_row (seq 0 (length FR)) (repeat None (length FR), st)).
End RSSecond.

(* split_rs(S, states, has_states, second_pass); `init = None` is has_states = false *)
Definition split_rs_gen (S : graph) (init : option (list label)) (second : bool) : list label :=
  let n := length S in
  let R := off_rows S in
  let CL := col_lists R in
  let st0 := match init with Some st => st | None => repeat LU n end in
  let w0 := map (@length nat) CL in
  let st1 := rst (rs_first_pass n R CL w0 st0) in
  if second then rs_second_pass (full_rows S) st1 else st1.
Definition split_rs (S : graph) : list label := split_rs_gen S None true.

(* ---------- CLJP / PMIS over an abstract ordered carrier for the weights ---------- *)
Section MIS.
Variable F : Type.
Variables (zero one : F) (add sub : F -> F -> F).
Variable ltb : F -> F -> bool.

Variable R : list (list nat).     (* off-diagonal rows *)
Variable CL : list (list nat).    (* column lists *)

(* weights[idx] += 1 for every stored off-diagonal entry *)
Definition init_weights (keys : list F) : list F :=
  fold_left (fun w row => fold_left (fun w idx => upd w idx (add (nth idx w zero) one)) row w) R keys.

(* select_independent_set: returns the new states and new_coarse_list *)
Definition sel_ok (w : list F) (u : nat) : bool :=
  let wu := nth u w zero in
  negb (existsb (fun idx => ltb wu (nth idx w zero)) (nth u R [])) &&
  negb (existsb (fun idx => ltb wu (nth idx w zero)) (nth u CL [])).
Definition select_independent_set (unassigned : list nat) (st : list label) (w : list F)
  : list label * list nat :=
  fold_left (fun p u => if sel_ok w u then (upd (fst p) u LNC, snd p ++ [u]) else p) unassigned (st, []).

(* update_states *)
Definition update_states (unassigned : list nat) (st : list label) (w : list F)
  : list nat * list label * list F :=
  fold_left (fun q u =>
    let '(un, st, w) := q in
    if label_eqb (nth u st LU) LNC then (un, upd st u LC, upd w u zero)
    else if ltb (nth u w zero) one then (un, upd st u LF, upd w u zero)
    else (un ++ [u], st, w)) unassigned ([], st, w).

(* update_weights (CLJP): edge marks are kept per row, aligned with the off-diagonal row *)
Fixpoint mark_row (p : nat -> bool) (row : list nat) (em : list bool) (w : list F) : list bool * list F :=
  match row, em with
  | idx :: row', m :: em' =>
    if p idx && m then
      let '(em2, w2) := mark_row p row' em' (upd w idx (sub (nth idx w zero) one)) in (false :: em2, w2)
    else let '(em2, w2) := mark_row p row' em' w in (m :: em2, w2)
  | _, _ => (em, w)
  end.

Definition uw_direct (st : list label) (p : list (list bool) * list F) (c : nat) :=
  let '(em, w) := p in
  let '(emr, w2) := mark_row (fun idx => label_eqb (nth idx st LU) LU) (nth c R []) (nth c em []) w in
  (upd em c emr, w2).

Definition uw_dist2 (st : list label) (q : list (list bool) * list (option nat) * list F) (c : nat) :=
  let '(em, cache, w) := q in
  let col := nth c CL [] in
  let cache1 := fold_left (fun cache idx => if label_eqb (nth idx st LU) LU then upd cache idx (Some c) else cache) col cache in
  let '(em2, w2) := fold_left (fun p idx =>
      if label_eqb (nth idx st LU) LC then p else
      let '(em, w) := p in
      let '(emr, w2) := mark_row (fun k => label_eqb (nth k st LU) LU && opt_is (nth k cache1 None) c)
                                 (nth idx R []) (nth idx em []) w in
      (upd em idx emr, w2)) col (em, w) in
  (em2, cache1, w2).

Definition update_weights (st : list label) (ncl : list nat) (em : list (list bool)) (cache : list (option nat)) (w : list F) :=
  let '(em1, w1) := fold_left (uw_direct st) ncl (em, w) in
  fold_left (uw_dist2 st) ncl (em1, cache, w1).

Record cljp_state := mkCljp {
  c_un : list nat; c_st : list label; c_w : list F; c_em : list (list bool); c_cache : list (option nat) }.

Definition cljp_round (s : cljp_state) : cljp_state :=
  let '(st1, ncl) := select_independent_set (c_un s) (c_st s) (c_w s) in
  let '(em, cache, w) := update_weights st1 ncl (c_em s) (c_cache s) (c_w s) in
  let '(un, st2, w2) := update_states (c_un s) st1 w in
  mkCljp un st2 w2 em cache.

Fixpoint cljp_loop (fuel : nat) (s : cljp_state) : option cljp_state :=
  match c_un s with
  | [] => Some s
  | _ => match fuel with
         | 0 => None
         | S f => cljp_loop f (cljp_round s)
         end
  end.

Definition cljp_main (fuel : nat) (keys : list F) : option (list label) :=
  let n := length R in
  let s0 := mkCljp (seq 0 n) (repeat LU n) (init_weights keys)
                   (map (fun row => map (fun _ => true) row) R)
                   (repeat None n)       (* c_dep_cache.resize(n, -1) *) in
  match cljp_loop fuel s0 with Some s => Some (c_st s) | None => None end.

(* PMIS *)
Definition pmis_mark (p : list label * list F) (idx : nat) :=
  fold_left (fun p row => if label_eqb (nth row (fst p) LU) LU then (upd (fst p) row LF, upd (snd p) row zero) else p)
            (nth idx CL []) p.

Definition pmis_round (q : list nat * list label * list F) :=
  let '(un, st, w) := q in
  let '(st1, ncl) := select_independent_set un st w in
  let '(st2, w2) := fold_left pmis_mark ncl (st1, w) in
  update_states un st2 w2.

Fixpoint pmis_loop (fuel : nat) (q : list nat * list label * list F) : option (list nat * list label * list F) :=
  match fst (fst q) with
  | [] => Some q
  | _ => match fuel with
         | 0 => None
         | S f => pmis_loop f (pmis_round q)
         end
  end.

Definition pmis_init (keys : list F) : list nat * list label * list F :=
  let n := length R in
  let w := init_weights keys in
  fold_left (fun q i => let '(un, st, w) := q in
                        if ltb (nth i w zero) one then (un, upd st i LF, w) else (un ++ [i], st, w))
            (seq 0 n) ([], repeat LU n, w).

Definition pmis_main (fuel : nat) (keys : list F) : option (list label) :=
  match pmis_loop fuel (pmis_init keys) with Some q => Some (snd (fst q)) | None => None end.
End MIS.

Definition split_cljp {F} (zero one : F) add sub ltb (S : graph) (keys : list F) (fuel : nat) : option (list label) :=
  let R := off_rows S in cljp_main F zero one add sub ltb R (col_lists R) fuel keys.
Definition split_pmis {F} (zero one : F) add ltb (S : graph) (keys : list F) (fuel : nat) : option (list label) :=
  let R := off_rows S in pmis_main F zero one add ltb R (col_lists R) fuel keys.

(* ---------- the verified checker (oracle run on the implementation's gathered labels) ---------- *)
Definition graph_wfb (S : graph) : bool :=
  forallb (fun r => forallb (fun c => c <? length S) r) S.

(* every point is coarse, fine, or labelled isolated and then really has no strong dependency *)
Definition total_okb (R : list (list nat)) (st : list label) : bool :=
  (length st =? length R) &&
  forallb (fun ir => match nth (fst ir) st LU with
                     | LC | LF => true
                     | LN => match snd ir with [] => true | _ => false end
                     | _ => false end) (indexed R).
(* every fine point with a strong connection has a strong coarse neighbour *)
Definition f_has_c_okb (R : list (list nat)) (st : list label) : bool :=
  forallb (fun ir => match nth (fst ir) st LU with
                     | LF => match snd ir with
                             | [] => true
                             | row => existsb (fun c => label_eqb (nth c st LU) LC) row end
                     | _ => true end) (indexed R).
(* an edge whose target has a strong dependency of its own *)
Definition has_dep_edge (R : list (list nat)) : bool :=
  existsb (fun row => existsb (fun t => match nth t R [] with [] => false | _ => true end) row) R.
Definition c_and_f_okb (R : list (list nat)) (st : list label) : bool :=
  negb (has_dep_edge R) ||
  (existsb (fun l => label_eqb l LC) st && existsb (fun l => label_eqb l LF) st).

Definition split_ok (rs : bool) (S : graph) (st : list label) : bool :=
  let R := off_rows S in
  total_okb R st && (negb rs || (f_has_c_okb R st && c_and_f_okb R st)).
