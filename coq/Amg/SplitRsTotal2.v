(* Totality of the first pass of Ruge-Stuben, list level: the bucket invariant BI holds initially
   (counting sort of rs_init), is preserved by the pop at the cursor, by fp_inc and by fp_dec, and at
   cursor 0 says that every vertex is assigned. *)
From Coq Require Import List Arith Lia Bool.
Import ListNotations.
From Raptor Require Import Amg.Split Amg.SplitProofs Amg.SplitMisProofs Amg.SplitRsProofs Amg.SplitRsTotal.

Definition fI (s : rs_st) : nat -> nat := fun p => nth p (ri2c s) 0.
Definition fC (s : rs_st) : nat -> nat := fun c => nth c (rc2i s) 0.
Definition fW (s : rs_st) : nat -> nat := fun c => nth c (rw s) 0.
Definition fPT (s : rs_st) : nat -> nat := fun x => nth x (rptr s) 0.
Definition fSZ (s : rs_st) : nat -> nat := fun x => nth x (rsz s) 0.

Record BI (n top : nat) (s : rs_st) : Prop := mkBI {
  bi_lw : length (rw s) = n;
  bi_lst : length (rst s) = n;
  bi_lsz : length (rsz s) = n;
  bi_li : length (ri2c s) = n;
  bi_lc : length (rc2i s) = n;
  bi_lp : length (rptr s) = S n;
  bi_top : top <= n;
  bi_p1 : forall p, p < n -> fI s p < n /\ fC s (fI s p) = p;
  bi_p2 : forall c, c < n -> fC s c < n /\ fI s (fC s c) = c;
  bi_wb : forall c, c < n -> fW s c < n;
  bi_v : forall p, top <= p -> p < n -> nth (fI s p) (rst s) LU <> LU;
  bi_B : Bp top (fI s) (fW s) (fPT s) (fSZ s);
  bi_E : Ep n top (fI s) (fW s) (fPT s) (fSZ s);
  bi_D : Dp n (fPT s) (fSZ s)
}.

Lemma BI_Wn n top s : BI n top s -> Wn n top (fI s) (fW s).
Proof. intros H p Hp. apply (bi_wb _ _ _ H). apply (bi_p1 _ _ _ H). pose proof (bi_top _ _ _ H). lia. Qed.
Lemma BI_Inj n top s : BI n top s -> Inj top (fI s).
Proof.
  intros H p q Hp Hq E. pose proof (bi_top _ _ _ H).
  destruct (bi_p1 _ _ _ H p) as [_ A]; [lia|]. destruct (bi_p1 _ _ _ H q) as [_ B]; [lia|]. congruence.
Qed.

Lemma nth_upd2 {A} (l : list A) a x b y p d :
  nth p (upd (upd l a x) b y) d =
  if (p =? b) && (b <? length l) then y else if (p =? a) && (a <? length l) then x else nth p l d.
Proof. rewrite !nth_upd, upd_length. rewrite (Nat.eqb_sym b p), (Nat.eqb_sym a p). reflexivity. Qed.

Lemma nth_upd1 {A} (l : list A) a x p d :
  nth p (upd l a x) d = if (p =? a) && (a <? length l) then x else nth p l d.
Proof. rewrite nth_upd, (Nat.eqb_sym a p). reflexivity. Qed.

(* an unassigned vertex sits below the cursor *)
Lemma unassigned_below n top s k : BI n top s -> k < n -> nth k (rst s) LU = LU -> fC s k < top.
Proof.
  intros H Hk HU. destruct (bi_p2 _ _ _ H k Hk) as [A B].
  destruct (Nat.lt_ge_cases (fC s k) top) as [L|L]; [exact L|].
  exfalso. apply (bi_v _ _ _ H (fC s k) L A). rewrite B. exact HU.
Qed.

(* the swap keeps the two maps inverse permutations *)
Lemma swap_perm n (I C : nat -> nat) k old new cn (I' C' : nat -> nat) :
  (forall p, p < n -> I p < n /\ C (I p) = p) ->
  (forall c, c < n -> C c < n /\ I (C c) = c) ->
  old < n -> new < n -> I old = k -> cn = I new ->
  (forall p, I' p = if p =? new then k else if p =? old then cn else I p) ->
  (forall c, C' c = if c =? cn then old else if c =? k then new else C c) ->
  (forall p, p < n -> I' p < n /\ C' (I' p) = p) /\ (forall c, c < n -> C' c < n /\ I' (C' c) = c).
Proof.
  intros P1 P2 Ho Hn HIo Hcn HI' HC'.
  assert (Kn : k < n) by (rewrite <- HIo; apply P1; exact Ho).
  assert (Cn : cn < n) by (rewrite Hcn; apply P1; exact Hn).
  assert (Ck : C k = old) by (rewrite <- HIo; apply P1; exact Ho).
  assert (Ccn : C cn = new) by (rewrite Hcn; apply P1; exact Hn).
  split.
  - intros p Hp. rewrite HC', HI'. destruct (Nat.eqb_spec p new) as [E|E].
    + subst p. split; [exact Kn|]. destruct (Nat.eqb_spec k cn) as [E2|E2].
      * congruence.
      * rewrite Nat.eqb_refl. reflexivity.
    + destruct (Nat.eqb_spec p old) as [E2|E2].
      * subst p. split; [exact Cn|]. rewrite Nat.eqb_refl. reflexivity.
      * destruct (P1 p Hp) as [A B]. split; [exact A|].
        destruct (Nat.eqb_spec (I p) cn) as [E3|E3]; [exfalso; apply E; congruence|].
        destruct (Nat.eqb_spec (I p) k) as [E4|E4]; [exfalso; apply E2; congruence|exact B].
  - intros c Hc. rewrite HI', HC'. destruct (Nat.eqb_spec c cn) as [E|E].
    + subst c. split; [exact Ho|]. destruct (Nat.eqb_spec old new) as [E2|E2].
      * subst old. congruence.
      * rewrite Nat.eqb_refl. reflexivity.
    + destruct (Nat.eqb_spec c k) as [E2|E2].
      * subst c. split; [exact Hn|]. rewrite Nat.eqb_refl. reflexivity.
      * destruct (P2 c Hc) as [A B]. split; [exact A|].
        destruct (Nat.eqb_spec (C c) new) as [E3|E3]; [exfalso; apply E; congruence|].
        destruct (Nat.eqb_spec (C c) old) as [E4|E4]; [exfalso; apply E2; congruence|exact B].
Qed.

Lemma swap_pos_read s old new n :
  length (ri2c s) = n -> length (rc2i s) = n -> old < n -> new < n ->
  fI s old < n -> fI s new < n ->
  let i2c := fst (swap_pos s old new) in let c2i := snd (swap_pos s old new) in
  length i2c = n /\ length c2i = n /\
  (forall p, nth p i2c 0 = if p =? new then fI s old else if p =? old then fI s new else fI s p) /\
  (forall c, nth c c2i 0 = if c =? fI s new then old else if c =? fI s old then new else fC s c).
Proof.
  intros Li Lc Ho Hn Hio Hin. unfold swap_pos. cbn [fst snd]. fold (fI s old). fold (fI s new).
  split; [rewrite !upd_length; exact Li|]. split; [rewrite !upd_length; exact Lc|]. split.
  - intros p. rewrite nth_upd2, Li.
    apply Nat.ltb_lt in Ho. apply Nat.ltb_lt in Hn. rewrite Ho, Hn, !andb_true_r. reflexivity.
  - intros c. rewrite nth_upd2, Lc.
    apply Nat.ltb_lt in Hio. apply Nat.ltb_lt in Hin. rewrite Hio, Hin, !andb_true_r. reflexivity.
Qed.

(* ---------- fp_inc preserves the invariant ---------- *)
Lemma fp_inc_BI n top s k : BI n top s -> k < n -> nth k (rst s) LU = LU -> BI n top (fp_inc n s k).
Proof.
  intros H Hk HU. unfold fp_inc. fold (fW s k). set (wk := fW s k).
  destruct (n - 1 <=? wk) eqn:Eg; [exact H|]. apply Nat.leb_gt in Eg.
  assert (Hwk1 : wk + 1 < n) by lia.
  fold (fC s k) (fPT s wk) (fSZ s wk). set (old := fC s k). set (new := fPT s wk + fSZ s wk - 1).
  pose proof (unassigned_below n top s k H Hk HU) as Hold. fold old in Hold.
  destruct (bi_p2 _ _ _ H k Hk) as [Hold_n HIold]. fold old in Hold_n, HIold.
  pose proof (bi_top _ _ _ H) as Htop.
  pose proof (BI_Wn _ _ _ H) as HWn. pose proof (BI_Inj _ _ _ H) as HInj.
  destruct (inc_facts n top (fI s) (fW s) (fPT s) (fSZ s) (bi_B _ _ _ H) (bi_E _ _ _ H) k wk old new (fI s new) Hold HIold eq_refl Hwk1 eq_refl eq_refl)
    as [[F1 F2] [F3 [F4 F5]]].
  assert (Hnew_n : new < n) by lia.
  destruct (swap_pos_read s old new n (bi_li _ _ _ H) (bi_lc _ _ _ H) Hold_n Hnew_n) as [Li' [Lc' [RI RC]]].
  { apply (bi_p1 _ _ _ H). exact Hold_n. } { apply (bi_p1 _ _ _ H). exact Hnew_n. }
  destruct (swap_pos s old new) as [i2c' c2i'] eqn:Esw. cbn [fst snd] in *.
  set (cn := fI s new) in *. rewrite HIold in RI, RC.
  set (sz1 := upd (rsz s) wk (nth wk (rsz s) 0 - 1)).
  set (s' := mkRs (upd (rw s) k (wk + 1)) (rst s) (upd (rptr s) (wk + 1) new)
                  (upd sz1 (wk + 1) (nth (wk + 1) sz1 0 + 1)) i2c' c2i').
  change (BI n top s').
  assert (EI : forall p, fI s' p = if p =? new then k else if p =? old then cn else fI s p) by exact RI.
  assert (EC : forall c, fC s' c = if c =? cn then old else if c =? k then new else fC s c) by exact RC.
  assert (EW : forall c, fW s' c = if c =? k then wk + 1 else fW s c).
  { intros c. unfold fW, s'. cbn [rw]. rewrite nth_upd1, (bi_lw _ _ _ H).
    apply Nat.ltb_lt in Hk. rewrite Hk, andb_true_r. reflexivity. }
  assert (EPT : forall x, fPT s' x = if x =? wk + 1 then new else fPT s x).
  { intros x. unfold fPT, s'. cbn [rptr]. rewrite nth_upd1, (bi_lp _ _ _ H).
    assert (L : wk + 1 <? S n = true) by (apply Nat.ltb_lt; lia). rewrite L, andb_true_r. reflexivity. }
  assert (ESZ : forall x, fSZ s' x = if x =? wk + 1 then fSZ s (wk + 1) + 1 else if x =? wk then fSZ s wk - 1 else fSZ s x).
  { intros x. unfold fSZ, s', sz1. cbn [rsz]. rewrite nth_upd2, (bi_lsz _ _ _ H).
    assert (L1 : wk + 1 <? n = true) by (apply Nat.ltb_lt; lia).
    assert (L2 : wk <? n = true) by (apply Nat.ltb_lt; lia). rewrite L1, L2, !andb_true_r.
    rewrite nth_upd1, (bi_lsz _ _ _ H), L2, andb_true_r.
    destruct (Nat.eqb_spec (wk + 1) wk); [lia|]. reflexivity. }
  destruct (swap_perm n (fI s) (fC s) k old new cn (fI s') (fC s') (bi_p1 _ _ _ H) (bi_p2 _ _ _ H)
              Hold_n Hnew_n HIold eq_refl EI EC) as [P1' P2'].
  constructor.
  - unfold s'. cbn [rw]. rewrite upd_length. apply (bi_lw _ _ _ H).
  - apply (bi_lst _ _ _ H).
  - unfold s', sz1. cbn [rsz]. rewrite !upd_length. apply (bi_lsz _ _ _ H).
  - exact Li'.
  - exact Lc'.
  - unfold s'. cbn [rptr]. rewrite upd_length. apply (bi_lp _ _ _ H).
  - exact Htop.
  - exact P1'.
  - exact P2'.
  - intros c Hc. rewrite EW. destruct (c =? k); [lia|apply (bi_wb _ _ _ H); exact Hc].
  - intros p Hp1 Hp2. rewrite EI. destruct (Nat.eqb_spec p new); [lia|]. destruct (Nat.eqb_spec p old); [lia|].
    apply (bi_v _ _ _ H); assumption.
  - exact (inc_B n top (fI s) (fW s) (fPT s) (fSZ s) (bi_B _ _ _ H) (bi_E _ _ _ H) (bi_D _ _ _ H) HWn HInj
             k wk old new cn Hold HIold eq_refl Hwk1 eq_refl eq_refl (fI s') (fW s') (fPT s') (fSZ s') EI EW EPT ESZ).
  - exact (inc_E n top (fI s) (fW s) (fPT s) (fSZ s) (bi_B _ _ _ H) (bi_E _ _ _ H) (bi_D _ _ _ H) HWn HInj
             k wk old new cn Hold HIold eq_refl Hwk1 eq_refl eq_refl (fI s') (fW s') (fPT s') (fSZ s') EI EW EPT ESZ).
  - exact (inc_D n top (fI s) (fW s) (fPT s) (fSZ s) (bi_B _ _ _ H) (bi_E _ _ _ H) (bi_D _ _ _ H) HWn
             k wk old new cn Hold HIold eq_refl Hwk1 eq_refl eq_refl (fPT s') (fSZ s') EPT ESZ).
Qed.

(* ---------- fp_dec preserves the invariant ---------- *)
Lemma fp_dec_BI n top s k : BI n top s -> k < n -> nth k (rst s) LU = LU -> BI n top (fp_dec s k).
Proof.
  intros H Hk HU. unfold fp_dec. fold (fW s k). set (wk := fW s k).
  destruct (wk =? 0) eqn:Eg; [exact H|]. apply Nat.eqb_neq in Eg.
  assert (Hwk0 : 0 < wk) by lia.
  fold (fC s k) (fPT s wk). set (old := fC s k). set (new := fPT s wk).
  pose proof (unassigned_below n top s k H Hk HU) as Hold. fold old in Hold.
  destruct (bi_p2 _ _ _ H k Hk) as [Hold_n HIold]. fold old in Hold_n, HIold.
  pose proof (bi_top _ _ _ H) as Htop.
  pose proof (BI_Wn _ _ _ H) as HWn. pose proof (BI_Inj _ _ _ H) as HInj.
  destruct (dec_facts n top (fI s) (fW s) (fPT s) (fSZ s) (bi_B _ _ _ H) (bi_E _ _ _ H) HWn k wk old new (fI s new)
              Hold HIold eq_refl Hwk0 eq_refl eq_refl) as [F0 [[F1 F2] [F3 [F4 F5]]]].
  assert (Hnew_n : new < n) by lia.
  destruct (swap_pos_read s old new n (bi_li _ _ _ H) (bi_lc _ _ _ H) Hold_n Hnew_n) as [Li' [Lc' [RI RC]]].
  { apply (bi_p1 _ _ _ H). exact Hold_n. } { apply (bi_p1 _ _ _ H). exact Hnew_n. }
  destruct (swap_pos s old new) as [i2c' c2i'] eqn:Esw. cbn [fst snd] in *.
  set (cn := fI s new) in *. rewrite HIold in RI, RC.
  set (sz1 := upd (rsz s) wk (nth wk (rsz s) 0 - 1)).
  set (sz2 := upd sz1 (wk - 1) (nth (wk - 1) sz1 0 + 1)).
  set (ptr1 := upd (rptr s) wk (nth wk (rptr s) 0 + 1)).
  set (s' := mkRs (upd (rw s) k (wk - 1)) (rst s) (upd ptr1 (wk - 1) (nth wk ptr1 0 - nth (wk - 1) sz2 0)) sz2 i2c' c2i').
  change (BI n top s').
  assert (L1 : wk - 1 <? n = true) by (apply Nat.ltb_lt; lia).
  assert (L2 : wk <? n = true) by (apply Nat.ltb_lt; lia).
  assert (L3 : wk - 1 <? S n = true) by (apply Nat.ltb_lt; lia).
  assert (L4 : wk <? S n = true) by (apply Nat.ltb_lt; lia).
  assert (EI : forall p, fI s' p = if p =? new then k else if p =? old then cn else fI s p) by exact RI.
  assert (EC : forall c, fC s' c = if c =? cn then old else if c =? k then new else fC s c) by exact RC.
  assert (EW : forall c, fW s' c = if c =? k then wk - 1 else fW s c).
  { intros c. unfold fW, s'. cbn [rw]. rewrite nth_upd1, (bi_lw _ _ _ H).
    apply Nat.ltb_lt in Hk. rewrite Hk, andb_true_r. reflexivity. }
  assert (ESZ : forall x, fSZ s' x = if x =? wk - 1 then fSZ s (wk - 1) + 1 else if x =? wk then fSZ s wk - 1 else fSZ s x).
  { intros x. unfold fSZ, s', sz2, sz1. cbn [rsz]. rewrite nth_upd2, (bi_lsz _ _ _ H), L1, L2, !andb_true_r.
    rewrite nth_upd1, (bi_lsz _ _ _ H), L2, andb_true_r.
    destruct (Nat.eqb_spec (wk - 1) wk); [lia|]. reflexivity. }
  assert (EPT : forall x, fPT s' x = if x =? wk - 1 then fPT s wk + 1 - (fSZ s (wk - 1) + 1)
                                     else if x =? wk then fPT s wk + 1 else fPT s x).
  { intros x. unfold fPT at 1. unfold s'. cbn [rptr]. unfold ptr1 at 1. rewrite nth_upd2, (bi_lp _ _ _ H), L3, L4, !andb_true_r.
    assert (A : nth wk ptr1 0 = fPT s wk + 1).
    { unfold ptr1. rewrite nth_upd_same by (rewrite (bi_lp _ _ _ H); lia). reflexivity. }
    assert (B : nth (wk - 1) sz2 0 = fSZ s (wk - 1) + 1).
    { pose proof (ESZ (wk - 1)) as E. unfold fSZ at 1 in E. unfold s' in E. cbn [rsz] in E. rewrite E, Nat.eqb_refl. reflexivity. }
    rewrite A, B. reflexivity. }
  destruct (swap_perm n (fI s) (fC s) k old new cn (fI s') (fC s') (bi_p1 _ _ _ H) (bi_p2 _ _ _ H)
              Hold_n Hnew_n HIold eq_refl EI EC) as [P1' P2'].
  constructor.
  - unfold s'. cbn [rw]. rewrite upd_length. apply (bi_lw _ _ _ H).
  - apply (bi_lst _ _ _ H).
  - unfold s', sz2, sz1. cbn [rsz]. rewrite !upd_length. apply (bi_lsz _ _ _ H).
  - exact Li'.
  - exact Lc'.
  - unfold s', ptr1. cbn [rptr]. rewrite !upd_length. apply (bi_lp _ _ _ H).
  - exact Htop.
  - exact P1'.
  - exact P2'.
  - intros c Hc. rewrite EW. destruct (c =? k); [lia|apply (bi_wb _ _ _ H); exact Hc].
  - intros p Hp1 Hp2. rewrite EI. destruct (Nat.eqb_spec p new); [lia|]. destruct (Nat.eqb_spec p old); [lia|].
    apply (bi_v _ _ _ H); assumption.
  - exact (dec_B n top (fI s) (fW s) (fPT s) (fSZ s) (bi_B _ _ _ H) (bi_E _ _ _ H) (bi_D _ _ _ H) HWn HInj
             k wk old new cn Hold HIold eq_refl Hwk0 eq_refl eq_refl (fI s') (fW s') (fPT s') (fSZ s') EI EW ESZ EPT).
  - exact (dec_E n top (fI s) (fW s) (fPT s) (fSZ s) (bi_B _ _ _ H) (bi_E _ _ _ H) (bi_D _ _ _ H) HWn HInj
             k wk old new cn Hold HIold eq_refl Hwk0 eq_refl eq_refl (fI s') (fW s') (fPT s') (fSZ s') EI EW ESZ EPT).
  - exact (dec_D n top (fI s) (fW s) (fPT s) (fSZ s) (bi_B _ _ _ H) (bi_E _ _ _ H) (bi_D _ _ _ H) HWn
             k wk old new cn Hold HIold eq_refl Hwk0 eq_refl eq_refl (fPT s') (fSZ s') ESZ EPT).
Qed.

(* ---------- the pop at the cursor ---------- *)
Lemma pop_abs n t (I Wt PT SZ SZ' : nat -> nat) :
  Bp (S t) I Wt PT SZ -> Ep n (S t) I Wt PT SZ -> Dp n PT SZ -> Wn n (S t) I Wt ->
  (forall x, SZ' x = if x =? Wt (I t) then SZ (Wt (I t)) - 1 else SZ x) ->
  Bp t I Wt PT SZ' /\ Ep n t I Wt PT SZ' /\ Dp n PT SZ'.
Proof.
  intros HB HE HD HW HS. set (wc := Wt (I t)) in *.
  assert (Wc : wc < n) by (apply HW; lia).
  pose proof (HB t (Nat.lt_succ_diag_r t)) as Bt. fold wc in Bt.
  destruct (HE wc (PT wc + SZ wc - 1) Wc) as [T _]; [lia|].
  assert (Eq : PT wc + SZ wc = S t) by lia.
  split; [|split].
  - intros p Hp. pose proof (HB p (Nat.lt_lt_succ_r _ _ Hp)) as Bp0. rewrite HS.
    destruct (Nat.eqb_spec (Wt (I p)) wc) as [E|E]; [rewrite E in *; lia|lia].
  - intros ww p Hww Hp. rewrite HS in Hp. destruct (Nat.eqb_spec ww wc) as [E|E].
    + subst ww. destruct (HE wc p Wc) as [T2 W2]; [lia|]. split; [lia|exact W2].
    + destruct (HE ww p Hww Hp) as [T2 W2]. split; [|exact W2].
      destruct (Nat.eq_dec p t) as [E2|E2]; [subst p; unfold wc in E; congruence|lia].
  - intros a b Hab Hb Sa Sb. rewrite HS in Sa, Sb. rewrite HS.
    assert (Sa0 : 0 < SZ a) by (destruct (Nat.eqb_spec a wc) as [Ea|Ea]; [rewrite Ea; lia|lia]).
    assert (Sb0 : 0 < SZ b) by (destruct (Nat.eqb_spec b wc) as [Eb|Eb]; [rewrite Eb; lia|lia]).
    pose proof (HD a b Hab Hb Sa0 Sb0). destruct (Nat.eqb_spec a wc) as [Ea|Ea]; [rewrite Ea in *; lia|lia].
Qed.

Lemma pop_BI n t s st' :
  BI n (S t) s -> length st' = n ->
  (forall v, nth v (rst s) LU <> LU -> nth v st' LU <> LU) ->
  nth (fI s t) st' LU <> LU ->
  let wc := fW s (fI s t) in
  BI n t (mkRs (rw s) st' (rptr s) (upd (rsz s) wc (nth wc (rsz s) 0 - 1)) (ri2c s) (rc2i s)).
Proof.
  intros H HL Hmono Hcol wc.
  pose proof (bi_top _ _ _ H) as Htop. pose proof (BI_Wn _ _ _ H) as HWn.
  assert (Wc : wc < n) by (apply HWn; lia).
  set (s' := mkRs (rw s) st' (rptr s) (upd (rsz s) wc (nth wc (rsz s) 0 - 1)) (ri2c s) (rc2i s)).
  assert (ESZ : forall x, fSZ s' x = if x =? fW s (fI s t) then fSZ s (fW s (fI s t)) - 1 else fSZ s x).
  { intros x. unfold fSZ, s'. cbn [rsz]. rewrite nth_upd1, (bi_lsz _ _ _ H).
    fold wc. apply Nat.ltb_lt in Wc. rewrite Wc, andb_true_r. reflexivity. }
  destruct (pop_abs n t (fI s) (fW s) (fPT s) (fSZ s) (fSZ s') (bi_B _ _ _ H) (bi_E _ _ _ H) (bi_D _ _ _ H) HWn ESZ)
    as [B' [E' D']].
  constructor; try (apply H); try exact B'; try exact E'; try exact D'.
  - exact HL.
  - unfold s'. cbn [rsz]. rewrite upd_length. apply (bi_lsz _ _ _ H).
  - lia.
  - intros p Hp1 Hp2. change (nth (fI s p) st' LU <> LU).
    destruct (Nat.eq_dec p t) as [E|E]; [subst p; exact Hcol|].
    apply Hmono. apply (bi_v _ _ _ H); lia.
Qed.

Lemma set_st_BI n top s v l : BI n top s -> l <> LU -> BI n top (set_st s v l).
Proof.
  intros H Hl. constructor; try (apply H).
  - unfold set_st. cbn [rst]. rewrite upd_length. apply H.
  - intros p Hp1 Hp2. assert (E : fI (set_st s v l) p = fI s p) by reflexivity. rewrite E.
    unfold set_st. cbn [rst]. rewrite nth_upd. destruct ((v =? fI s p) && (v <? length (rst s))); [exact Hl|].
    apply (bi_v _ _ _ H); assumption.
Qed.

(* ---------- one step, the whole pass ---------- *)
Section Pass.
Variable n : nat.
Variables R CL : list (list nat).
Hypothesis wfR : forall i c, In c (nth i R []) -> c < n.
Hypothesis wfCL : forall c i, In i (nth c CL []) -> i < n.

Lemma fp_mark_dep_BI top s idx : BI n top s -> idx < n -> BI n top (fp_mark_dep n R s idx).
Proof.
  intros H Hi. unfold fp_mark_dep. destruct (label_eqb (nth idx (rst s) LU) LU); [|exact H].
  apply (fold_left_inv (BI n top)).
  - apply set_st_BI; [exact H|discriminate].
  - intros a k Hk Ha. destruct (label_eqb (nth k (rst a) LU) LU) eqn:E; [|exact Ha].
    apply fp_inc_BI; [exact Ha|eapply wfR; exact Hk|apply label_eqb_eq; exact E].
Qed.

Lemma fp_step_BI t s : BI n (S t) s -> BI n t (fp_step n R CL s t).
Proof.
  intros H. unfold fp_step. fold (fI s t). set (col := fI s t). fold (fW s col).
  cbn [rst rw rptr rsz ri2c rc2i].
  pose proof (bi_top _ _ _ H) as Htop.
  assert (Hcol : col < n) by (apply (bi_p1 _ _ _ H); lia).
  destruct (label_eqb (nth col (rst s) LU) LU) eqn:E.
  - (* becomes coarse *)
    apply label_eqb_eq in E.
    assert (H1 : BI n t (set_st (mkRs (rw s) (rst s) (rptr s)
                           (upd (rsz s) (fW s col) (nth (fW s col) (rsz s) 0 - 1)) (ri2c s) (rc2i s)) col LC)).
    { unfold set_st. cbn [rw rst rptr rsz ri2c rc2i].
      apply (pop_BI n t s (upd (rst s) col LC) H).
      - rewrite upd_length. apply H.
      - intros v Hv. rewrite nth_upd. destruct ((col =? v) && (col <? length (rst s))); [discriminate|exact Hv].
      - fold col. rewrite nth_upd_same by (rewrite (bi_lst _ _ _ H); exact Hcol). discriminate. }
    apply (fold_left_inv (BI n t)).
    + apply (fold_left_inv (BI n t)); [exact H1|].
      intros a idx Hidx Ha. apply fp_mark_dep_BI; [exact Ha|eapply wfCL; exact Hidx].
    + intros a idx Hidx Ha. destruct (label_eqb (nth idx (rst a) LU) LU) eqn:E2; [|exact Ha].
      apply fp_dec_BI; [exact Ha|eapply wfR; exact Hidx|apply label_eqb_eq; exact E2].
  - apply label_eqb_neq in E. apply (pop_BI n t s (rst s) H); [apply H|auto|exact E].
Qed.

Lemma first_pass_from_BI t : forall s, BI n t s -> BI n 0 (fold_left (fp_step n R CL) (rev (seq 0 t)) s).
Proof.
  induction t as [|t IH]; intros s H; [exact H|].
  rewrite rev_seq_S. cbn [fold_left]. apply IH. apply fp_step_BI. exact H.
Qed.

Lemma BI_0_total s : BI n 0 s -> forall c, c < n -> nth c (rst s) LU <> LU.
Proof.
  intros H c Hc. destruct (bi_p2 _ _ _ H c Hc) as [A B]. rewrite <- B. apply (bi_v _ _ _ H); [lia|exact A].
Qed.
End Pass.

(* ---------- the initial buckets (counting sort) satisfy the invariant ---------- *)
Definition off (bs : list (list nat)) (x : nat) : nat := length (concat (firstn x bs)).

Lemma prefix_sums_length a l : length (prefix_sums a l) = S (length l).
Proof. revert a; induction l as [|x l IH]; intros a; simpl; [reflexivity|rewrite IH; reflexivity]. Qed.

Lemma ps_nth bs : forall a x, x <= length bs -> nth x (prefix_sums a (map (@length nat) bs)) 0 = a + off bs x.
Proof.
  induction bs as [|b bs IH]; intros a x Hx.
  - simpl in Hx. replace x with 0 by lia. unfold off. simpl. lia.
  - destruct x as [|x]; [unfold off; simpl; lia|]. cbn [map prefix_sums nth].
    rewrite IH by (simpl in Hx; lia). unfold off. cbn [firstn concat]. rewrite app_length. lia.
Qed.

Lemma off_cons b bs y : off (b :: bs) (S y) = length b + off bs y.
Proof. unfold off. cbn [firstn concat]. apply app_length. Qed.

Lemma off_S bs : forall x, x < length bs -> off bs (S x) = off bs x + length (nth x bs []).
Proof.
  induction bs as [|b bs IH]; intros x Hx; [simpl in Hx; lia|].
  destruct x as [|x].
  - rewrite off_cons. unfold off. simpl. lia.
  - rewrite !off_cons. cbn [nth]. rewrite IH by (simpl in Hx; lia). lia.
Qed.

Lemma off_mono bs a b : a <= b -> b <= length bs -> off bs a <= off bs b.
Proof.
  intros Hab Hb. induction b as [|b IH]; [replace a with 0 by lia; lia|].
  destruct (Nat.eq_dec a (S b)) as [E|E]; [subst; lia|].
  rewrite off_S by lia. specialize (IH ltac:(lia) ltac:(lia)). lia.
Qed.

Lemma off_all bs : off bs (length bs) = length (concat bs).
Proof. unfold off. rewrite firstn_all. reflexivity. Qed.

Lemma concat_nth bs d : forall x q, x < length bs -> q < length (nth x bs []) ->
  nth (off bs x + q) (concat bs) d = nth q (nth x bs []) d.
Proof.
  induction bs as [|b bs IH]; intros x q Hx Hq; [simpl in Hx; lia|].
  destruct x as [|x].
  - unfold off. simpl in *. apply app_nth1. exact Hq.
  - unfold off. cbn [firstn concat nth]. rewrite app_length. rewrite <- Nat.add_assoc.
    rewrite app_nth2_plus. apply IH; [simpl in Hx; lia|exact Hq].
Qed.

Lemma concat_cover bs : forall p, p < length (concat bs) ->
  exists x q, x < length bs /\ q < length (nth x bs []) /\ p = off bs x + q.
Proof.
  induction bs as [|b bs IH]; intros p Hp; [simpl in Hp; lia|].
  simpl in Hp. rewrite app_length in Hp. destruct (Nat.lt_ge_cases p (length b)) as [L|L].
  - exists 0, p. simpl. unfold off. simpl. repeat split; [lia|exact L].
  - destruct (IH (p - length b)) as [x [q [H1 [H2 H3]]]]; [lia|].
    exists (S x), q. simpl. split; [lia|]. split; [exact H2|].
    unfold off in *. cbn [firstn concat]. rewrite app_length. lia.
Qed.

Lemma NoDup_app_intro {A} (a b : list A) :
  NoDup a -> NoDup b -> (forall x, In x a -> ~ In x b) -> NoDup (a ++ b).
Proof.
  induction a as [|x a IH]; intros Ha Hb Hd; simpl; [exact Hb|].
  inversion Ha; subst. constructor.
  - intros H. apply in_app_or in H. destruct H as [H|H]; [contradiction|]. apply (Hd x); [left; reflexivity|exact H].
  - apply IH; auto. intros y Hy. apply Hd. right; exact Hy.
Qed.

Lemma In_wbucket f n ww c : In c (wbucket f n ww) <-> c < n /\ f c = ww.
Proof.
  unfold wbucket. rewrite filter_In, in_seq, Nat.eqb_eq. split; intros [H1 H2]; split; auto; lia.
Qed.

Lemma NoDup_buckets f n m : NoDup (concat (map (wbucket f n) (seq 0 m))).
Proof.
  induction m as [|m IH]; [constructor|].
  rewrite seq_S, map_app, concat_app. simpl. rewrite app_nil_r. apply NoDup_app_intro.
  - exact IH.
  - unfold wbucket. apply NoDup_filter, seq_NoDup.
  - intros x Hx Hx2. apply in_concat in Hx. destruct Hx as [l [Hl Hxl]].
    apply in_map_iff in Hl. destruct Hl as [k [Ek Hk]]. subst l. apply in_seq in Hk.
    apply In_wbucket in Hxl. apply In_wbucket in Hx2. lia.
Qed.

Lemma buckets_total_length f n : (forall c, c < n -> f c < n) ->
  length (concat (map (wbucket f n) (seq 0 n))) = n.
Proof.
  intros Hf. unfold wbucket. rewrite concat_buckets_length. rewrite filter_all; [apply seq_length|].
  intros x Hx. apply in_seq in Hx. apply Nat.ltb_lt. apply Hf. lia.
Qed.

(* col_to_weight_idx: the fold writes position p at index l[p] *)
Lemma c2i_fold_frame l : forall s acc c, ~ In c l ->
  nth c (fold_left (fun acc pc => upd acc (snd pc) (fst pc)) (combine (seq s (length l)) l) acc) 0 = nth c acc 0.
Proof.
  induction l as [|x l IH]; intros s acc c Hc; [reflexivity|]. cbn [length seq combine fold_left fst snd].
  rewrite IH by (intros H; apply Hc; right; exact H).
  apply nth_upd_other. intros ->. apply Hc. left; reflexivity.
Qed.

Lemma c2i_fold_length l : forall s acc,
  length (fold_left (fun acc pc => upd acc (snd pc) (fst pc)) (combine (seq s (length l)) l) acc) = length acc.
Proof.
  induction l as [|x l IH]; intros s acc; [reflexivity|]. cbn [length seq combine fold_left fst snd].
  rewrite IH. apply upd_length.
Qed.

Lemma c2i_fold_nth l : forall s acc p, NoDup l -> (forall x, In x l -> x < length acc) -> p < length l ->
  nth (nth p l 0) (fold_left (fun acc pc => upd acc (snd pc) (fst pc)) (combine (seq s (length l)) l) acc) 0 = s + p.
Proof.
  induction l as [|x l IH]; intros s acc p Hnd Hlt Hp; [simpl in Hp; lia|].
  inversion Hnd; subst. cbn [length seq combine fold_left fst snd].
  destruct p as [|p].
  - cbn [nth]. rewrite c2i_fold_frame by assumption. rewrite nth_upd_same by (apply Hlt; left; reflexivity). lia.
  - cbn [nth]. rewrite IH; try assumption; try (simpl in Hp; lia).
    intros y Hy. rewrite upd_length. apply Hlt. right; exact Hy.
Qed.

Lemma rs_init_BI n w st :
  length w = n -> length st = n -> (forall c, c < n -> nth c w 0 < n) -> BI n n (rs_init n w st).
Proof.
  intros Lw Lst Hf. set (f := fun c => nth c w 0).
  unfold rs_init.
  assert (Eb : group_by n (map (fun c => (nth c w 0, c)) (seq 0 n)) = map (wbucket f n) (seq 0 n))
    by (apply (buckets_eq f n)).
  rewrite Eb. clear Eb.
  set (bs := map (wbucket f n) (seq 0 n)).
  assert (Lbs : length bs = n) by (unfold bs; rewrite map_length, seq_length; reflexivity).
  assert (Lcat : length (concat bs) = n) by (apply buckets_total_length; exact Hf).
  assert (Hnb : forall x, x < n -> nth x bs [] = wbucket f n x).
  { intros x Hx. unfold bs. rewrite (nth_indep _ [] (wbucket f n 0)) by (rewrite map_length, seq_length; exact Hx).
    rewrite map_nth, seq_nth by exact Hx. reflexivity. }
  set (i2c := concat bs).
  set (c2i := fold_left (fun acc pc => upd acc (snd pc) (fst pc)) (indexed i2c) (repeat 0 n)).
  set (s0 := mkRs w st (prefix_sums 0 (map (@length nat) bs)) (map (@length nat) bs) i2c c2i).
  assert (EPT : forall x, x <= n -> fPT s0 x = off bs x).
  { intros x Hx. unfold fPT, s0. cbn [rptr]. rewrite ps_nth by lia. reflexivity. }
  assert (ESZ : forall x, x < n -> fSZ s0 x = length (wbucket f n x)).
  { intros x Hx. unfold fSZ, s0. cbn [rsz]. change 0 with (length (@nil nat)). rewrite map_nth. rewrite Hnb by exact Hx. reflexivity. }
  assert (Hpos : forall x q, x < n -> q < length (wbucket f n x) ->
             fI s0 (off bs x + q) < n /\ f (fI s0 (off bs x + q)) = x).
  { intros x q Hx Hq. unfold fI, s0. cbn [ri2c]. unfold i2c.
    rewrite concat_nth by (rewrite ?Lbs, ?Hnb; assumption). rewrite Hnb by exact Hx.
    apply In_wbucket. apply nth_In. exact Hq. }
  assert (Hcov : forall p, p < n -> exists x q, x < n /\ q < length (wbucket f n x) /\ p = off bs x + q).
  { intros p Hp. destruct (concat_cover bs p) as [x [q [H1 [H2 H3]]]]; [rewrite Lcat; exact Hp|].
    rewrite Lbs in H1. rewrite Hnb in H2 by exact H1. exists x, q. auto. }
  assert (Hend : forall x, x < n -> off bs x + length (wbucket f n x) <= n).
  { intros x Hx. rewrite <- (Hnb x Hx), <- off_S by lia. rewrite <- Lcat, <- off_all. apply off_mono; lia. }
  assert (NDi : NoDup i2c) by (unfold i2c, bs; apply NoDup_buckets).
  assert (Hin : forall p, p < n -> fI s0 p < n).
  { intros p Hp. destruct (Hcov p Hp) as [x [q [H1 [H2 H3]]]]. subst p. apply Hpos; assumption. }
  assert (P1 : forall p, p < n -> fI s0 p < n /\ fC s0 (fI s0 p) = p).
  { intros p Hp. split; [apply Hin; exact Hp|]. unfold fC, fI, s0. cbn [rc2i ri2c]. unfold c2i, indexed.
    rewrite c2i_fold_nth; [lia|exact NDi| |fold i2c in Lcat; lia].
    intros x Hx. rewrite repeat_length. apply (In_nth _ _ 0) in Hx. destruct Hx as [p' [Hp' E]]. subst x.
    apply (Hin p'). fold i2c in Lcat. lia. }
  assert (Lc2i : length c2i = n) by (unfold c2i, indexed; rewrite c2i_fold_length; apply repeat_length).
  assert (P2 : forall c, c < n -> fC s0 c < n /\ fI s0 (fC s0 c) = c).
  { intros c Hc. assert (Hinc : In c i2c).
    { apply (NoDup_length_incl NDi (l' := seq 0 n)); [rewrite seq_length; fold i2c in Lcat; lia| |apply in_seq; lia].
      intros x Hx. apply (In_nth _ _ 0) in Hx. destruct Hx as [p' [Hp' E]]. subst x. apply in_seq.
      split; [lia|]. apply (Hin p'). fold i2c in Lcat. lia. }
    apply (In_nth _ _ 0) in Hinc. destruct Hinc as [p [Hp E]]. fold i2c in Lcat. rewrite Lcat in Hp.
    change (nth p i2c 0) with (fI s0 p) in E. destruct (P1 p Hp) as [A B]. rewrite <- E, B. auto. }
  constructor; try assumption; try reflexivity.
  - unfold s0. cbn [rsz]. rewrite map_length. exact Lbs.
  - unfold s0. cbn [rptr]. rewrite prefix_sums_length, map_length, Lbs. reflexivity.
  - intros p Hp1 Hp2. lia.
  - (* B *) intros p Hp. destruct (Hcov p Hp) as [x [q [H1 [H2 H3]]]]. subst p.
    destruct (Hpos x q H1 H2) as [_ E]. change (fW s0 (fI s0 (off bs x + q))) with (f (fI s0 (off bs x + q))).
    rewrite E, EPT, ESZ by lia. lia.
  - (* E *) intros ww p Hww Hp. rewrite EPT, ESZ in Hp by lia.
    pose proof (Hend ww Hww). split; [lia|].
    destruct (Hpos ww (p - off bs ww) Hww) as [_ E]; [lia|].
    replace (off bs ww + (p - off bs ww)) with p in E by lia. exact E.
  - (* D *) intros a b Hab Hb Sa Sb. rewrite !EPT, ESZ by lia.
    rewrite <- (Hnb a) by lia. rewrite <- off_S by lia. apply off_mono; lia.
Qed.

(* ---------- totality of the first pass ---------- *)
Theorem rs_first_pass_total n R CL w st :
  (forall i c, In c (nth i R []) -> c < n) -> (forall c i, In i (nth c CL []) -> i < n) ->
  length w = n -> length st = n -> (forall c, c < n -> nth c w 0 < n) ->
  forall c, c < n -> nth c (rst (rs_first_pass n R CL w st)) LU <> LU.
Proof.
  intros wfR wfCL Lw Lst Hw. unfold rs_first_pass.
  apply (BI_0_total n). apply (first_pass_from_BI n R CL wfR wfCL). apply rs_init_BI; assumption.
Qed.

(* ---------- what the first pass does to each label ---------- *)
Definition rel1 (st st' : list label) : Prop :=
  length st' = length st /\
  forall v, nth v st' LU = nth v st LU \/ (nth v st LU = LU /\ (nth v st' LU = LC \/ nth v st' LU = LF)).

Lemma rel1_refl st : rel1 st st.
Proof. split; auto. Qed.
Lemma rel1_trans a b c : rel1 a b -> rel1 b c -> rel1 a c.
Proof.
  intros [L1 H1] [L2 H2]. split; [congruence|]. intros v.
  destruct (H1 v) as [A|[A1 A2]]; destruct (H2 v) as [B|[B1 B2]].
  - left; congruence.
  - right. split; [congruence|exact B2].
  - right. split; [exact A1|]. rewrite B. exact A2.
  - destruct A2; congruence.
Qed.
Lemma rel1_upd st v l : nth v st LU = LU -> l = LC \/ l = LF -> rel1 st (upd st v l).
Proof.
  intros HU Hl. split; [apply upd_length|]. intros u. rewrite nth_upd.
  destruct ((v =? u) && (v <? length st)) eqn:E; [|auto].
  apply andb_true_iff in E. destruct E as [E _]. apply Nat.eqb_eq in E. subst u. right. split; [exact HU|].
  destruct Hl; subst; auto.
Qed.
Lemma fold_rel1 {A B} (f : A -> B -> A) (g : A -> list label) l a :
  (forall a x, rel1 (g a) (g (f a x))) -> rel1 (g a) (g (fold_left f l a)).
Proof.
  intros H. revert a. induction l as [|x l IH]; intros a; simpl; [apply rel1_refl|].
  eapply rel1_trans; [apply H|apply IH].
Qed.

Lemma fp_step_rel1 n R CL s i : rel1 (rst s) (rst (fp_step n R CL s i)).
Proof.
  unfold fp_step. cbn [rst rw rptr rsz ri2c rc2i].
  set (col := nth i (ri2c s) 0).
  destruct (label_eqb (nth col (rst s) LU) LU) eqn:E; [|apply rel1_refl].
  rewrite fold_dec_rst.
  eapply rel1_trans; [|apply (fold_rel1 (fp_mark_dep n R) rst)].
  - cbn [set_st rst]. apply rel1_upd; [apply label_eqb_eq; exact E|auto].
  - intros a x. rewrite fp_mark_dep_rst. destruct (label_eqb (nth x (rst a) LU) LU) eqn:E2; [|apply rel1_refl].
    apply rel1_upd; [apply label_eqb_eq; exact E2|auto].
Qed.

Lemma first_pass_rel1 n R CL w st : rel1 st (rst (rs_first_pass n R CL w st)).
Proof.
  unfold rs_first_pass.
  change st with (rst (rs_init n w st)) at 1. apply (fold_rel1 (fp_step n R CL) rst). intros a x. apply fp_step_rel1.
Qed.

(* Ruge-Stuben, sequential entry point or with caller-supplied states: every point that enters unassigned
   leaves coarse or fine, every other point keeps its label (a fine one may be promoted by the second pass) *)
Theorem rs_total (G : graph) (init : option (list label)) (second : bool) :
  graph_wfb G = true ->
  (forall c, c < length G -> length (nth c (col_lists (off_rows G)) []) < length G) ->
  (match init with Some st0 => length st0 = length G | None => True end) ->
  let st0 := match init with Some s => s | None => repeat LU (length G) end in
  let st := split_rs_gen G init second in
  length st = length G /\
  forall v, v < length G ->
    (nth v st0 LU = LU -> nth v st LU = LC \/ nth v st LU = LF) /\
    (nth v st0 LU <> LU -> nth v st LU = nth v st0 LU \/ (nth v st0 LU = LF /\ nth v st LU = LC)).
Proof.
  intros Hwf Hdeg Hlen st0 st.
  set (R := off_rows G). set (CL := col_lists R). set (n := length G).
  assert (L0 : length st0 = n).
  { unfold st0. destruct init; [exact Hlen|apply repeat_length]. }
  set (w0 := map (@length nat) CL).
  set (st1 := rst (rs_first_pass n R CL w0 st0)).
  assert (LR : length R = n) by (unfold R; apply off_rows_length).
  assert (T1 : forall c, c < n -> nth c st1 LU <> LU).
  { apply rs_first_pass_total; try assumption.
    - intros i c Hc. rewrite <- LR. apply (off_rows_wf G Hwf i c Hc).
    - intros c i Hi. rewrite <- LR. apply (col_lists_wf R c i Hi).
    - unfold w0. rewrite map_length. unfold CL. rewrite col_lists_length. exact LR.
    - intros c Hc. unfold w0. change 0 with (length (@nil nat)). rewrite map_nth. apply Hdeg. exact Hc. }
  destruct (first_pass_rel1 n R CL w0 st0) as [L1 V1]. fold st1 in L1, V1.
  assert (Est : st = if second then rs_second_pass (full_rows G) st1 else st1) by reflexivity.
  assert (Key : forall v, v < n ->
            (nth v st0 LU = LU -> nth v st1 LU = LC \/ nth v st1 LU = LF) /\
            (nth v st0 LU <> LU -> nth v st1 LU = nth v st0 LU)).
  { intros v Hv. destruct (V1 v) as [A|[A1 A2]].
    - split; [intros HU; exfalso; apply (T1 v Hv); congruence|auto].
    - split; [auto|intros; contradiction]. }
  rewrite Est. destruct second.
  - destruct (second_pass_rel2 (full_rows G) st1) as [L2 V2]. split; [congruence|].
    intros v Hv. destruct (Key v Hv) as [K1 K2]. split.
    + intros HU. destruct (K1 HU) as [K|K]; destruct (V2 v) as [B|[B1 B2]]; try (left; congruence); try (right; congruence).
    + intros HnU. specialize (K2 HnU). destruct (V2 v) as [B|[B1 B2]]; [left; congruence|right; split; congruence].
  - split; [congruence|]. intros v Hv. destruct (Key v Hv) as [K1 K2]. split; [exact K1|]. intros H; left; auto.
Qed.

(* sequential entry point: every point coarse or fine, and (given an edge) at least one of each *)
Theorem rs_seq_total_and_usable (G : graph) :
  graph_wfb G = true ->
  (forall c, c < length G -> length (nth c (col_lists (off_rows G)) []) < length G) ->
  (length (split_rs G) = length G /\
   forall v, v < length G -> nth v (split_rs G) LU = LC \/ nth v (split_rs G) LU = LF) /\
  ((forall i, ~ In i (nth i (off_rows G) [])) -> (exists u t, In t (nth u (off_rows G) [])) ->
   (exists c, c < length G /\ nth c (split_rs G) LU = LC) /\ (exists f, f < length G /\ nth f (split_rs G) LU = LF)).
Proof.
  intros Hwf Hdeg.
  destruct (rs_total G None true Hwf Hdeg I) as [L T]. split.
  - split; [exact L|]. intros v Hv. destruct (T v Hv) as [T1 _]. apply T1. apply nth_repeat.
  - intros Hself Hedge. destruct (rs_coarse_and_fine G Hwf Hdeg Hself Hedge) as [C F]. split; [exact C|].
    apply F. intros v Hv. destruct (rs_total G None false Hwf Hdeg I) as [_ T0].
    destruct (T0 v Hv) as [T1 _]. destruct T1 as [H|H]; [apply nth_repeat|rewrite H; discriminate|rewrite H; discriminate].
Qed.

(* ---------- the two side conditions follow from "no duplicate entry in a stored row" ---------- *)
Lemma remove_first_notin i r : NoDup r -> ~ In i (remove_first i r).
Proof.
  induction 1 as [|x r Hx Hr IH]; simpl; [tauto|].
  destruct (Nat.eqb_spec x i) as [E|E]; [subst; exact Hx|]. intros [H|H]; [congruence|contradiction].
Qed.
Lemma remove_first_NoDup i r : NoDup r -> NoDup (remove_first i r).
Proof.
  induction 1 as [|x r Hx Hr IH]; simpl; [constructor|].
  destruct (x =? i); [exact Hr|]. constructor; [|exact IH]. intros H. apply In_remove_first in H. contradiction.
Qed.
Lemma offd_move_diag_notin i r : NoDup r -> ~ In i (offd i (move_diag_row i r)).
Proof.
  intros H. unfold move_diag_row. destruct (existsb (Nat.eqb i) r) eqn:E.
  - simpl. rewrite Nat.eqb_refl. apply remove_first_notin. exact H.
  - intros Hin. apply In_offd in Hin. assert (existsb (Nat.eqb i) r = true); [|congruence].
    apply existsb_exists. exists i. split; [exact Hin|apply Nat.eqb_refl].
Qed.
Lemma offd_move_diag_NoDup i r : NoDup r -> NoDup (offd i (move_diag_row i r)).
Proof.
  intros H. unfold move_diag_row. destruct (existsb (Nat.eqb i) r) eqn:E.
  - simpl. rewrite Nat.eqb_refl. apply remove_first_NoDup. exact H.
  - destruct r as [|x r]; [constructor|]. simpl. destruct (x =? i); [inversion H; assumption|exact H].
Qed.

Definition rows_nodup (G : graph) : Prop := forall i, NoDup (nth i G []).

Lemma off_rows_noself G : rows_nodup G -> forall i, ~ In i (nth i (off_rows G) []).
Proof.
  intros H i. destruct (Nat.lt_ge_cases i (length G)) as [L|L].
  - rewrite nth_off_rows by exact L. apply offd_move_diag_notin. apply H.
  - rewrite nth_overflow by (rewrite off_rows_length; exact L). tauto.
Qed.
Lemma off_rows_nodup G : rows_nodup G -> forall i, NoDup (nth i (off_rows G) []).
Proof.
  intros H i. destruct (Nat.lt_ge_cases i (length G)) as [L|L].
  - rewrite nth_off_rows by exact L. apply offd_move_diag_NoDup. apply H.
  - rewrite nth_overflow by (rewrite off_rows_length; exact L). constructor.
Qed.

Lemma col_of_row_nodup c i r : NoDup r ->
  NoDup (map snd (filter (fun p : nat * nat => fst p =? c) (map (fun c' => (c', i)) r))).
Proof.
  induction 1 as [|x r Hx Hr IH]; simpl; [constructor|].
  destruct (Nat.eqb_spec x c) as [E|E]; [|exact IH]. subst x. simpl. constructor; [|exact IH].
  intros H. apply in_map_iff in H. destruct H as [[a b] [_ H]]. apply filter_In in H. destruct H as [H1 H2].
  apply in_map_iff in H1. destruct H1 as [c' [E1 H1]]. inversion E1; subst. simpl in H2. apply Nat.eqb_eq in H2. subst. contradiction.
Qed.

Lemma col_list_nodup_gen c (L : list (nat * list nat)) :
  NoDup (map fst L) -> (forall ir, In ir L -> NoDup (snd ir)) ->
  NoDup (map snd (filter (fun p : nat * nat => fst p =? c)
                         (flat_map (fun ir => map (fun c' => (c', fst ir)) (snd ir)) L))).
Proof.
  induction L as [|[i r] L IH]; intros Hnd Hr; simpl; [constructor|].
  inversion Hnd as [|x0 l0 Hni Hnd']; subst. simpl in Hni. rewrite filter_app, map_app. apply NoDup_app_intro.
  - apply col_of_row_nodup. apply (Hr (i, r)). left; reflexivity.
  - apply IH; [exact Hnd'|]. intros ir Hir. apply Hr. right; exact Hir.
  - intros x Hx Hx2.
    apply in_map_iff in Hx. destruct Hx as [[a b] [E H]]. apply filter_In in H. destruct H as [H _].
    apply in_map_iff in H. destruct H as [c' [E1 _]]. inversion E1; subst. simpl in *.
    apply in_map_iff in Hx2. destruct Hx2 as [[a2 b2] [E2 H2]]. apply filter_In in H2. destruct H2 as [H2 _].
    apply in_flat_map in H2. destruct H2 as [[j r2] [Hj H3]]. apply in_map_iff in H3. destruct H3 as [c2 [E3 _]].
    inversion E3; subst. simpl in *. apply Hni.
    apply in_map_iff. exists (b2, r2). auto.
Qed.

Lemma map_fst_indexed {A} (l : list A) : map fst (indexed l) = seq 0 (length l).
Proof.
  unfold indexed. generalize 0. induction l as [|x l IH]; intros s; simpl; [reflexivity|]. rewrite IH. reflexivity.
Qed.

Lemma in_degree_bound G : graph_wfb G = true -> rows_nodup G ->
  forall c, c < length G -> length (nth c (col_lists (off_rows G)) []) < length G.
Proof.
  intros Hwf Hnd c Hc. set (R := off_rows G).
  assert (LR : length R = length G) by apply off_rows_length.
  assert (ND : NoDup (nth c (col_lists R) [])).
  { unfold col_lists. rewrite group_by_nth by (rewrite LR; exact Hc). unfold row_pairs.
    apply col_list_nodup_gen.
    - rewrite map_fst_indexed. apply seq_NoDup.
    - intros [i r] Hir. apply (In_indexed R i r []) in Hir. destruct Hir as [_ E]. subst r. simpl.
      apply off_rows_nodup. exact Hnd. }
  assert (Hnc : ~ In c (nth c (col_lists R) [])).
  { intros H. apply In_col_lists in H. destruct H as [_ [_ H]]. apply (off_rows_noself G Hnd c H). }
  assert (Hincl : incl (c :: nth c (col_lists R) []) (seq 0 (length G))).
  { intros x [E|H]; apply in_seq; [subst; lia|]. apply In_col_lists in H. rewrite LR in H. lia. }
  pose proof (NoDup_incl_length (NoDup_cons c Hnc ND) Hincl) as HL. rewrite seq_length in HL. simpl in HL. lia.
Qed.

(* ---------- distributed Ruge-Stuben: sequential RS on each rank's diagonal block ---------- *)
From Raptor Require Import Amg.SplitPar.

Lemma NoDup_map_sub lo l : NoDup l -> (forall c, In c l -> lo <= c) -> NoDup (map (fun c => c - lo) l).
Proof.
  induction 1 as [|x l Hx Hl IH]; intros Hge; simpl; [constructor|]. constructor.
  - intros H. apply in_map_iff in H. destruct H as [y [E Hy]].
    assert (lo <= x) by (apply Hge; left; reflexivity). assert (lo <= y) by (apply Hge; right; exact Hy).
    assert (y = x) by lia. subst y. contradiction.
  - apply IH. intros c Hc. apply Hge. right; exact Hc.
Qed.

Lemma nth_firstn' {A} (l : list A) : forall k i d, i < k -> nth i (firstn k l) d = nth i l d.
Proof.
  induction l as [|x l IH]; intros k i d H; [destruct k, i; reflexivity|].
  destruct k as [|k]; [lia|]. destruct i as [|i]; simpl; [reflexivity|]. apply IH. lia.
Qed.
Lemma nth_skipn' {A} (l : list A) : forall k i d, nth i (skipn k l) d = nth (k + i) l d.
Proof.
  induction l as [|x l IH]; intros k i d; [destruct k, i; reflexivity|].
  destruct k as [|k]; simpl; [reflexivity|]. apply IH.
Qed.

Lemma local_graph_props S b :
  rows_nodup S -> fst b + snd b <= length S ->
  length (local_graph S b) = snd b /\ graph_wfb (local_graph S b) = true /\ rows_nodup (local_graph S b).
Proof.
  intros Hnd Hr. unfold local_graph.
  assert (L : length (firstn (snd b) (skipn (fst b) S)) = snd b).
  { rewrite firstn_length, skipn_length. lia. }
  split; [rewrite map_length; exact L|]. split.
  - apply graph_wfb_spec. intros i c Hc. rewrite map_length, L.
    destruct (Nat.lt_ge_cases i (snd b)) as [Hi|Hi].
    + rewrite (nth_indep _ [] (map (fun c => c - fst b) (filter (in_block b) []))) in Hc by (rewrite map_length, L; exact Hi).
      rewrite (map_nth (fun row => map (fun c => c - fst b) (filter (in_block b) row))) in Hc.
      apply in_map_iff in Hc. destruct Hc as [c0 [E Hc0]]. apply filter_In in Hc0. destruct Hc0 as [_ Hin].
      unfold in_block in Hin. apply andb_true_iff in Hin. destruct Hin as [H1 H2].
      apply Nat.leb_le in H1. apply Nat.ltb_lt in H2. lia.
    + rewrite nth_overflow in Hc by (rewrite map_length, L; exact Hi). destruct Hc.
  - intros i. destruct (Nat.lt_ge_cases i (snd b)) as [Hi|Hi].
    + rewrite (nth_indep _ [] (map (fun c => c - fst b) (filter (in_block b) []))) by (rewrite map_length, L; exact Hi).
      rewrite (map_nth (fun row => map (fun c => c - fst b) (filter (in_block b) row))).
      apply NoDup_map_sub.
      * apply NoDup_filter. rewrite nth_firstn' by exact Hi. rewrite nth_skipn'. apply Hnd.
      * intros c Hc. apply filter_In in Hc. destruct Hc as [_ Hin]. unfold in_block in Hin.
        apply andb_true_iff in Hin. destruct Hin as [H1 _]. apply Nat.leb_le in H1. exact H1.
    + rewrite nth_overflow by (rewrite map_length, L; exact Hi). constructor.
Qed.

(* on every rank: points that set_initial_states left unassigned end coarse or fine, NoNeighbors points keep
   their label, and a fine point has a coarse neighbour inside the diagonal block *)
Theorem par_rs_block (S : graph) (b : nat * nat) (st0 : list label) (second : bool) :
  rows_nodup S -> fst b + snd b <= length S -> length st0 = length S ->
  (forall v, nth v st0 LU = LU \/ nth v st0 LU = LN) ->
  let G := local_graph S b in
  let init := firstn (snd b) (skipn (fst b) st0) in
  let st := split_rs_gen G (Some init) second in
  length st = snd b /\
  forall i, i < snd b ->
    (nth i init LU = LU -> nth i st LU = LC \/ nth i st LU = LF) /\
    (nth i init LU = LN -> nth i st LU = LN) /\
    (nth i st LU = LF -> exists c, In c (nth i (off_rows G) []) /\ nth c st LU = LC).
Proof.
  intros Hnd Hr L0 HT G init st.
  destruct (local_graph_props S b Hnd Hr) as [LG [Hwf HndG]]. fold G in LG, Hwf, HndG.
  assert (Li : length init = length G).
  { unfold init. rewrite firstn_length, skipn_length. lia. }
  destruct (rs_total G (Some init) second Hwf (in_degree_bound G Hwf HndG) Li) as [L T]. fold st in L, T.
  split; [congruence|]. intros i Hi. rewrite <- LG in Hi. destruct (T i Hi) as [T1 T2]. split; [exact T1|]. split.
  - intros HN. destruct T2 as [H|[H _]]; [rewrite HN; discriminate|congruence|congruence].
  - intros HF. destruct (rs_fine_has_coarse G (Some init) second i Li HF) as [H|H]; [|exact H].
    exfalso. unfold init in H. rewrite nth_firstn' in H by lia. rewrite nth_skipn' in H.
    destruct (HT (fst b + i)) as [E|E]; congruence.
Qed.
