(* Totality of the first pass of Ruge-Stuben (Amg/Split.v: rs_first_pass with the weight buckets):
   every vertex is visited, hence assigned.  The proof is the bucket invariant:
     - weight_idx_to_col / col_to_weight_idx are inverse permutations,
     - every position below the cursor lies inside the interval [ptr w, ptr w + size w) of its weight class,
       every position of such an interval holds a vertex of that weight, the intervals of non-empty classes
       are ordered by weight,
     - positions at or above the cursor hold only assigned vertices.
   This file: the interval part, stated on functions nat -> nat (pure arithmetic). *)
From Coq Require Import List Arith Lia Bool.
Import ListNotations.

Section Abs.
Variables n top : nat.

Definition Bp (I Wt PT SZ : nat -> nat) : Prop :=
  forall p, p < top -> PT (Wt (I p)) <= p < PT (Wt (I p)) + SZ (Wt (I p)).
Definition Ep (I Wt PT SZ : nat -> nat) : Prop :=
  forall ww p, ww < n -> PT ww <= p < PT ww + SZ ww -> p < top /\ Wt (I p) = ww.
Definition Dp (PT SZ : nat -> nat) : Prop :=
  forall a b, a < b -> b < n -> 0 < SZ a -> 0 < SZ b -> PT a + SZ a <= PT b.
Definition Wn (I Wt : nat -> nat) : Prop := forall p, p < top -> Wt (I p) < n.
Definition Inj (I : nat -> nat) : Prop := forall p q, p < top -> q < top -> I p = I q -> p = q.

Variables I Wt PT SZ : nat -> nat.
Hypothesis HB : Bp I Wt PT SZ.
Hypothesis HE : Ep I Wt PT SZ.
Hypothesis HD : Dp PT SZ.
Hypothesis HW : Wn I Wt.
Hypothesis HI : Inj I.

(* non-empty neighbouring classes touch *)
Lemma adjacent_up wk : wk + 1 < n -> 0 < SZ wk -> 0 < SZ (wk + 1) -> PT (wk + 1) = PT wk + SZ wk.
Proof.
  intros Hn H1 H2.
  assert (D1 : PT wk + SZ wk <= PT (wk + 1)) by (apply HD; lia).
  destruct (Nat.eq_dec (PT (wk + 1)) (PT wk + SZ wk)) as [E|E]; [exact E|exfalso].
  set (q := PT wk + SZ wk).
  destruct (HE (wk + 1) (PT (wk + 1))) as [T _]; [lia|lia|].
  assert (Hq : q < top) by (unfold q; lia).
  pose proof (HB q Hq) as Bq. pose proof (HW q Hq) as Wq.
  set (w2 := Wt (I q)) in *.
  destruct (lt_eq_lt_dec w2 wk) as [[L|L]|L].
  - assert (PT w2 + SZ w2 <= PT wk) by (apply HD; lia). unfold q in *. lia.
  - rewrite L in Bq. unfold q in *. lia.
  - destruct (Nat.eq_dec w2 (wk + 1)) as [E2|E2].
    + rewrite E2 in Bq. unfold q in *. lia.
    + assert (PT (wk + 1) + SZ (wk + 1) <= PT w2) by (apply HD; lia). unfold q in *. lia.
Qed.

Lemma adjacent_down wi : 0 < wi -> wi < n -> 0 < SZ wi -> 0 < SZ (wi - 1) -> PT (wi - 1) + SZ (wi - 1) = PT wi.
Proof.
  intros H0 Hn H1 H2.
  replace wi with ((wi - 1) + 1) at 3 by lia. symmetry. apply adjacent_up; try lia.
  replace (wi - 1 + 1) with wi by lia. exact H1.
Qed.

(* ---------- increment: vertex k (at position old, weight wk) moves to the end of its class, which becomes
   the first position of class wk+1 ---------- *)
Section Inc.
Variables k wk old new cn : nat.
Hypothesis Hold : old < top.
Hypothesis HIold : I old = k.
Hypothesis Hwk : Wt k = wk.
Hypothesis Hwk1 : wk + 1 < n.
Hypothesis Hnew : new = PT wk + SZ wk - 1.
Hypothesis Hcn : cn = I new.
Variables I' Wt' PT' SZ' : nat -> nat.
Hypothesis HI' : forall p, I' p = if p =? new then k else if p =? old then cn else I p.
Hypothesis HW' : forall c, Wt' c = if c =? k then wk + 1 else Wt c.
Hypothesis HPT' : forall x, PT' x = if x =? wk + 1 then new else PT x.
Hypothesis HSZ' : forall x, SZ' x = if x =? wk + 1 then SZ (wk + 1) + 1 else if x =? wk then SZ wk - 1 else SZ x.

Lemma inc_facts : PT wk <= old <= new /\ new < top /\ 0 < SZ wk /\ Wt (I new) = wk.
Proof.
  pose proof (HB old Hold) as B. rewrite HIold, Hwk in B.
  assert (S0 : 0 < SZ wk) by lia.
  destruct (HE wk new) as [T W]; [lia|lia|]. repeat split; auto; lia.
Qed.

Lemma inc_W' p : p < top -> Wt' (I' p) = if p =? new then wk + 1 else Wt (I p).
Proof.
  intros Hp. destruct inc_facts as [[F1 F2] [F3 [F4 F5]]].
  rewrite HW', HI'. destruct (Nat.eqb_spec p new) as [E|E].
  - rewrite Nat.eqb_refl. reflexivity.
  - destruct (Nat.eqb_spec p old) as [E2|E2].
    + subst p. destruct (Nat.eqb_spec cn k) as [E3|E3].
      * exfalso. apply E. apply HI; auto. rewrite HIold, <- Hcn. auto.
      * rewrite Hcn, F5, HIold, Hwk. reflexivity.
    + destruct (Nat.eqb_spec (I p) k) as [E3|E3]; [|reflexivity].
      exfalso. apply E2. apply HI; auto. congruence.
Qed.

Lemma inc_adj : 0 < SZ (wk + 1) -> PT (wk + 1) = new + 1.
Proof.
  intros H. destruct inc_facts as [_ [_ [F4 _]]]. rewrite (adjacent_up wk Hwk1 F4 H). lia.
Qed.

Lemma inc_B : Bp I' Wt' PT' SZ'.
Proof.
  intros p Hp. destruct inc_facts as [[F1 F2] [F3 [F4 F5]]].
  rewrite (inc_W' p Hp). destruct (Nat.eqb_spec p new) as [E|E].
  - subst p. rewrite HPT', HSZ', Nat.eqb_refl. lia.
  - pose proof (HB p Hp) as B. pose proof (HW p Hp) as Wp. set (ww := Wt (I p)) in *.
    rewrite HPT', HSZ'. destruct (Nat.eqb_spec ww (wk + 1)) as [E1|E1].
    + rewrite E1 in B. assert (S1 : 0 < SZ (wk + 1)) by lia. pose proof (inc_adj S1). lia.
    + destruct (Nat.eqb_spec ww wk) as [E2|E2]; [rewrite E2 in B |- *; lia|lia].
Qed.

Lemma inc_E : Ep I' Wt' PT' SZ'.
Proof.
  intros ww p Hww Hp. destruct inc_facts as [[F1 F2] [F3 [F4 F5]]].
  rewrite HPT', HSZ' in Hp. destruct (Nat.eqb_spec ww (wk + 1)) as [E1|E1].
  - subst ww. destruct (Nat.eq_dec p new) as [E|E].
    + subst p. split; [exact F3|]. rewrite inc_W' by exact F3. rewrite Nat.eqb_refl. reflexivity.
    + assert (S1 : 0 < SZ (wk + 1)) by lia. pose proof (inc_adj S1) as A.
      destruct (HE (wk + 1) p) as [T W]; [lia|lia|]. split; [exact T|].
      rewrite inc_W' by exact T. destruct (Nat.eqb_spec p new); [contradiction|exact W].
  - destruct (Nat.eqb_spec ww wk) as [E2|E2].
    + subst ww. destruct (HE wk p) as [T W]; [lia|lia|]. split; [exact T|].
      rewrite inc_W' by exact T. destruct (Nat.eqb_spec p new); [lia|exact W].
    + destruct (HE ww p) as [T W]; [lia|lia|]. split; [exact T|].
      rewrite inc_W' by exact T. destruct (Nat.eqb_spec p new) as [E|E]; [|exact W].
      subst p. congruence.
Qed.

Lemma inc_D : Dp PT' SZ'.
Proof.
  intros a b Hab Hb Sa Sb. destruct inc_facts as [[F1 F2] [F3 [F4 F5]]].
  rewrite HSZ' in Sa, Sb. rewrite !HPT', !HSZ'.
  destruct (Nat.eqb_spec a (wk + 1)) as [A1|A1]; destruct (Nat.eqb_spec b (wk + 1)) as [B1|B1]; try lia.
  - (* a = wk+1 < b *)
    destruct (Nat.eqb_spec b wk); [lia|].
    destruct (Nat.eq_dec (SZ (wk + 1)) 0) as [Z|Z].
    + assert (PT wk + SZ wk <= PT b) by (apply HD; lia). lia.
    + assert (S1 : 0 < SZ (wk + 1)) by lia. pose proof (inc_adj S1).
      assert (PT (wk + 1) + SZ (wk + 1) <= PT b) by (apply HD; lia). lia.
  - (* b = wk+1 *)
    destruct (Nat.eqb_spec a wk) as [A2|A2]; [subst a; lia|].
    assert (PT a + SZ a <= PT wk) by (apply HD; lia). lia.
  - destruct (Nat.eqb_spec a wk) as [A2|A2]; destruct (Nat.eqb_spec b wk) as [B2|B2]; try lia.
    + subst a. assert (PT wk + SZ wk <= PT b) by (apply HD; lia). lia.
    + subst b. assert (PT a + SZ a <= PT wk) by (apply HD; lia). lia.
    + apply HD; lia.
Qed.

Lemma inc_Wn : Wn I' Wt'.
Proof.
  intros p Hp. rewrite inc_W' by exact Hp. destruct (p =? new); [lia|apply HW; exact Hp].
Qed.
End Inc.

(* ---------- decrement: vertex idx (at position old, weight wi > 0) moves to the start of its class, which
   becomes the last position of class wi-1 ---------- *)
Section Dec.
Variables k wi old new cn : nat.
Hypothesis Hold : old < top.
Hypothesis HIold : I old = k.
Hypothesis Hwi : Wt k = wi.
Hypothesis Hwi0 : 0 < wi.
Hypothesis Hnew : new = PT wi.
Hypothesis Hcn : cn = I new.
Variables I' Wt' PT' SZ' : nat -> nat.
Hypothesis HI' : forall p, I' p = if p =? new then k else if p =? old then cn else I p.
Hypothesis HW' : forall c, Wt' c = if c =? k then wi - 1 else Wt c.
Hypothesis HSZ' : forall x, SZ' x = if x =? wi - 1 then SZ (wi - 1) + 1 else if x =? wi then SZ wi - 1 else SZ x.
Hypothesis HPT' : forall x, PT' x = if x =? wi - 1 then PT wi + 1 - (SZ (wi - 1) + 1)
                                   else if x =? wi then PT wi + 1 else PT x.

Lemma dec_facts : wi < n /\ new <= old < PT wi + SZ wi /\ new < top /\ 0 < SZ wi /\ Wt (I new) = wi.
Proof.
  pose proof (HB old Hold) as B. pose proof (HW old Hold) as Wo. rewrite HIold, Hwi in B, Wo.
  assert (S0 : 0 < SZ wi) by lia.
  destruct (HE wi new) as [T W]; [lia|lia|]. repeat split; auto; lia.
Qed.

Lemma dec_W' p : p < top -> Wt' (I' p) = if p =? new then wi - 1 else Wt (I p).
Proof.
  intros Hp. destruct dec_facts as [F0 [[F1 F2] [F3 [F4 F5]]]].
  rewrite HW', HI'. destruct (Nat.eqb_spec p new) as [E|E].
  - rewrite Nat.eqb_refl. reflexivity.
  - destruct (Nat.eqb_spec p old) as [E2|E2].
    + subst p. destruct (Nat.eqb_spec cn k) as [E3|E3].
      * exfalso. apply E. apply HI; auto. rewrite HIold, <- Hcn. auto.
      * rewrite Hcn, F5, HIold, Hwi. reflexivity.
    + destruct (Nat.eqb_spec (I p) k) as [E3|E3]; [|reflexivity].
      exfalso. apply E2. apply HI; auto. congruence.
Qed.

Lemma dec_adj : 0 < SZ (wi - 1) -> PT (wi - 1) + SZ (wi - 1) = PT wi.
Proof. intros H. destruct dec_facts as [F0 [_ [_ [F4 _]]]]. apply adjacent_down; auto. Qed.

Lemma dec_B : Bp I' Wt' PT' SZ'.
Proof.
  intros p Hp. destruct dec_facts as [F0 [[F1 F2] [F3 [F4 F5]]]].
  rewrite (dec_W' p Hp). destruct (Nat.eqb_spec p new) as [E|E].
  - subst p. rewrite HPT', HSZ', Nat.eqb_refl.
    destruct (Nat.eq_dec (SZ (wi - 1)) 0) as [Z|Z]; [lia|]. assert (S1 : 0 < SZ (wi - 1)) by lia.
    pose proof (dec_adj S1). lia.
  - pose proof (HB p Hp) as B. pose proof (HW p Hp) as Wp. set (ww := Wt (I p)) in *.
    rewrite HPT', HSZ'. destruct (Nat.eqb_spec ww (wi - 1)) as [E1|E1].
    + rewrite E1 in B. assert (S1 : 0 < SZ (wi - 1)) by lia. pose proof (dec_adj S1). lia.
    + destruct (Nat.eqb_spec ww wi) as [E2|E2]; [rewrite E2 in B; lia|lia].
Qed.

Lemma dec_E : Ep I' Wt' PT' SZ'.
Proof.
  intros ww p Hww Hp. destruct dec_facts as [F0 [[F1 F2] [F3 [F4 F5]]]].
  rewrite HPT', HSZ' in Hp. destruct (Nat.eqb_spec ww (wi - 1)) as [E1|E1].
  - subst ww. destruct (Nat.eq_dec p new) as [E|E].
    + subst p. split; [exact F3|]. rewrite dec_W' by exact F3. rewrite Nat.eqb_refl. reflexivity.
    + destruct (Nat.eq_dec (SZ (wi - 1)) 0) as [Z|Z]; [lia|]. assert (S1 : 0 < SZ (wi - 1)) by lia.
      pose proof (dec_adj S1) as A.
      destruct (HE (wi - 1) p) as [T W]; [lia|lia|]. split; [exact T|].
      rewrite dec_W' by exact T. destruct (Nat.eqb_spec p new); [contradiction|exact W].
  - destruct (Nat.eqb_spec ww wi) as [E2|E2].
    + subst ww. destruct (HE wi p) as [T W]; [lia|lia|]. split; [exact T|].
      rewrite dec_W' by exact T. destruct (Nat.eqb_spec p new); [lia|exact W].
    + destruct (HE ww p) as [T W]; [lia|lia|]. split; [exact T|].
      rewrite dec_W' by exact T. destruct (Nat.eqb_spec p new) as [E|E]; [|exact W].
      subst p. congruence.
Qed.

Lemma dec_D : Dp PT' SZ'.
Proof.
  intros a b Hab Hb Sa Sb. destruct dec_facts as [F0 [[F1 F2] [F3 [F4 F5]]]].
  rewrite HSZ' in Sa, Sb. rewrite !HPT', !HSZ'.
  assert (Adj : SZ (wi - 1) = 0 \/ (0 < SZ (wi - 1) /\ PT (wi - 1) + SZ (wi - 1) = PT wi)).
  { destruct (Nat.eq_dec (SZ (wi - 1)) 0); [left; assumption|right; split; [lia|apply dec_adj; lia]]. }
  destruct (Nat.eqb_spec a (wi - 1)) as [A1|A1]; destruct (Nat.eqb_spec b (wi - 1)) as [B1|B1]; try lia.
  - (* a = wi-1 < b *)
    destruct (Nat.eqb_spec b wi) as [B2|B2]; [lia|].
    assert (PT wi + SZ wi <= PT b) by (apply HD; lia). lia.
  - (* b = wi-1, a < wi-1 *)
    destruct (Nat.eqb_spec a wi) as [A2|A2]; [lia|].
    destruct Adj as [Z|[Z0 Z]].
    + assert (PT a + SZ a <= PT wi) by (apply HD; lia). lia.
    + assert (PT a + SZ a <= PT (wi - 1)) by (apply HD; lia). lia.
  - destruct (Nat.eqb_spec a wi) as [A2|A2]; destruct (Nat.eqb_spec b wi) as [B2|B2]; try lia.
    + subst a. assert (PT wi + SZ wi <= PT b) by (apply HD; lia). lia.
    + subst b. assert (PT a + SZ a <= PT wi) by (apply HD; lia). lia.
    + apply HD; lia.
Qed.

Lemma dec_Wn : Wn I' Wt'.
Proof.
  intros p Hp. destruct dec_facts as [F0 _]. rewrite dec_W' by exact Hp.
  destruct (p =? new); [lia|apply HW; exact Hp].
Qed.
End Dec.
End Abs.
