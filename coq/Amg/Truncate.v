(* filter_interp of par_interpolation.cpp (truncation of interpolation weights, used by the distributed extended
   interpolation with filter_threshold, 0.3 by default in ParRugeStubenSolver): per row,
     row_max = max |w|;  kept = entries with |w| >= threshold * row_max (in order);
     if |kept sum| > zero_tol and |row sum - kept sum| > zero_tol the kept weights are multiplied by row sum / kept sum.
   The on-process and off-process parts of a row are two lists scanned one after the other: a row here is their
   concatenation. *)
From Raptor Require Import Base.Sums.

Section Truncate.
Variable F : Type.
Variables (zero : F) (add mul sub div : F -> F -> F).
Variable absf : F -> F.
Variable ltb : F -> F -> bool.        (* a < b *)
Variable big : F -> bool.             (* |a| > zero_tol *)

Notation row := (list (nat * F)).
Notation sumF := (sumf F zero add).

Definition row_max (r : row) : F :=
  fold_left (fun m p => if ltb m (absf (snd p)) then absf (snd p) else m) r zero.

Definition kept_of (thr : F) (r : row) : row :=
  let m := mul (row_max r) thr in filter (fun p => negb (ltb (absf (snd p)) m)) r.

Definition filter_row (thr : F) (r : row) : row :=
  let kept := kept_of thr r in
  let rs := sumF (map snd r) in
  let ks := sumF (map snd kept) in
  if big ks && big (sub rs ks) then map (fun p => (fst p, mul (snd p) (div rs ks))) kept else kept.

Definition filter_interp (thr : F) (P : list row) : list row := map (filter_row thr) P.
End Truncate.

Arguments row_max {F}. Arguments kept_of {F}. Arguments filter_row {F}. Arguments filter_interp {F}.
