(* Proofs about the cycle model (Amg/Cycle.v).
   Part A: vector algebra on lists.  Part B: the abstract cycle (any number of levels, induction over the
   hierarchy): history-freedom, right-hand side unchanged, linearity, consistency, histories.
   Part C: the dense concrete kernels satisfy the abstract interface (hybrid Jacobi/SOR/SSOR for every
   partition, weight and number of sweeps; residual; guarded restriction; prolongation; LAPACK solve). *)
From Raptor Require Import Base.Sums Amg.Cycle.

Section Proofs.
Variable F : Type.
Variables (zero one : F) (add mul sub : F -> F -> F) (opp : F -> F).
Variable Fth : ring_theory zero one add mul sub opp (@eq F).
Add Ring FringC : Fth.

Notation "0" := zero.
Notation "1" := one.
Infix "+" := add.
Infix "*" := mul.
Infix "-" := sub.
Notation vec := (list F).
Notation mat := (list (list F)).
Notation sumF := (sumf F zero add).
Notation zeros := (zeros F zero).
Notation zero_like := (zero_like F zero).
Notation xat := (xat F zero).
Notation lc := (lc F add mul).
Notation vadd := (vadd F add).
Notation vsub := (vsub F sub).
Notation dot := (dot F zero add mul).
Notation level := (level F).
Notation scratch := (scratch F).

Definition len (n : nat) (v : vec) : Prop := length v = n.

(* ============================== Part A: vectors ============================== *)
Lemma vzip_length {A B C} (f : A -> B -> C) u v : length u = length v -> length (vzip f u v) = length u.
Proof. revert v; induction u as [|a u IH]; intros [|b v] H; simpl in *; try discriminate; auto. Qed.

Lemma xat_vzip (f : F -> F -> F) u v i :
  length u = length v -> f 0 0 = 0 -> xat (vzip f u v) i = f (xat u i) (xat v i).
Proof.
  unfold Cycle.xat. revert v i; induction u as [|a u IH]; intros [|b v] i H H0; simpl in *; try discriminate.
  - destruct i; symmetry; exact H0.
  - destruct i; [reflexivity|]. apply IH; [congruence|exact H0].
Qed.

Lemma vec_ext (u v : vec) : length u = length v -> (forall i, i < length u -> xat u i = xat v i) -> u = v.
Proof. intros H1 H2. apply (nth_ext u v 0 0 H1 H2). Qed.

Lemma zeros_length n : length (zeros n) = n. Proof. apply repeat_length. Qed.
Lemma xat_zeros n i : xat (zeros n) i = 0.
Proof. unfold Cycle.xat, Cycle.zeros. revert i; induction n; intros [|i]; simpl; auto. Qed.
Lemma zero_like_zeros v : zero_like v = zeros (length v).
Proof. unfold Cycle.zero_like, Cycle.zeros. induction v; simpl; congruence. Qed.

Lemma lc_length a u c v : length u = length v -> length (lc a u c v) = length u.
Proof. apply vzip_length. Qed.
Lemma xat_lc a u c v i : length u = length v -> xat (lc a u c v) i = a * xat u i + c * xat v i.
Proof. intros H. unfold Cycle.lc. rewrite xat_vzip; [reflexivity|exact H|ring]. Qed.
Lemma len_lc n a u c v : len n u -> len n v -> len n (lc a u c v).
Proof. unfold len; intros H1 H2. rewrite lc_length; congruence. Qed.

Lemma lc_0_0 n u v : len n u -> len n v -> lc 0 u 0 v = zeros n.
Proof.
  unfold len; intros H1 H2. apply vec_ext.
  - rewrite lc_length, zeros_length; congruence.
  - intros i _. rewrite xat_lc, xat_zeros by congruence. ring.
Qed.
Lemma lc_zeros n a c : lc a (zeros n) c (zeros n) = zeros n.
Proof.
  apply vec_ext.
  - rewrite lc_length; reflexivity.
  - intros i _. rewrite xat_lc, xat_zeros by reflexivity. ring.
Qed.
Lemma lc_1_0 u v : length u = length v -> lc 1 u 0 v = u.
Proof.
  intros H. apply vec_ext; [apply lc_length; exact H|].
  intros i _. rewrite xat_lc by exact H. ring.
Qed.

Lemma vadd_length u v : length u = length v -> length (vadd u v) = length u.
Proof. apply vzip_length. Qed.
Lemma vsub_length u v : length u = length v -> length (vsub u v) = length u.
Proof. apply vzip_length. Qed.
Lemma xat_vadd u v i : length u = length v -> xat (vadd u v) i = xat u i + xat v i.
Proof. intros H. unfold Cycle.vadd. rewrite xat_vzip; [reflexivity|exact H|ring]. Qed.
Lemma xat_vsub u v i : length u = length v -> xat (vsub u v) i = xat u i - xat v i.
Proof. intros H. unfold Cycle.vsub. rewrite xat_vzip; [reflexivity|exact H|ring]. Qed.

Lemma vadd_lc a c u1 u2 v1 v2 :
  length u1 = length u2 -> length v1 = length v2 -> length u1 = length v1 ->
  vadd (lc a u1 c u2) (lc a v1 c v2) = lc a (vadd u1 v1) c (vadd u2 v2).
Proof.
  intros H1 H2 H3. apply vec_ext.
  - rewrite vadd_length, !lc_length, vadd_length; rewrite ?lc_length, ?vadd_length; congruence.
  - intros i _. rewrite xat_vadd, !xat_lc, !xat_vadd by (rewrite ?lc_length, ?vadd_length; congruence). ring.
Qed.
Lemma vsub_lc a c u1 u2 v1 v2 :
  length u1 = length u2 -> length v1 = length v2 -> length u1 = length v1 ->
  vsub (lc a u1 c u2) (lc a v1 c v2) = lc a (vsub u1 v1) c (vsub u2 v2).
Proof.
  intros H1 H2 H3. apply vec_ext.
  - rewrite vsub_length, !lc_length, vsub_length; rewrite ?lc_length, ?vsub_length; congruence.
  - intros i _. rewrite xat_vsub, !xat_lc, !xat_vsub by (rewrite ?lc_length, ?vsub_length; congruence). ring.
Qed.
Lemma vadd_zeros_l n v : len n v -> vadd (zeros n) v = v.
Proof.
  unfold len; intros H. apply vec_ext.
  - rewrite vadd_length; rewrite zeros_length; congruence.
  - intros i _. rewrite xat_vadd, xat_zeros by (rewrite zeros_length; congruence). ring.
Qed.
Lemma vadd_zeros_r n v : len n v -> vadd v (zeros n) = v.
Proof.
  unfold len; intros H. apply vec_ext.
  - rewrite vadd_length; rewrite ?zeros_length; congruence.
  - intros i _. rewrite xat_vadd, xat_zeros by (rewrite zeros_length; congruence). ring.
Qed.
(* b - y = 0 entrywise means b = y *)
Lemma vsub_zeros_eq n b y : len n b -> len n y -> vsub b y = zeros n -> b = y.
Proof.
  unfold len; intros H1 H2 H. apply vec_ext; [congruence|].
  intros i _. assert (E : xat (vsub b y) i = 0) by (rewrite H; apply xat_zeros).
  rewrite xat_vsub in E by congruence.
  replace (xat b i) with ((xat b i - xat y i) + xat y i) by ring. rewrite E. ring.
Qed.

Lemma upd_length (l : vec) i v : length (upd l i v) = length l.
Proof. revert i; induction l as [|x l IH]; intros [|i]; simpl; auto. Qed.
Lemma upd_same (l : vec) i : upd l i (xat l i) = l.
Proof. unfold Cycle.xat. revert i; induction l as [|x l IH]; intros [|i]; simpl; auto. rewrite IH. reflexivity. Qed.
Lemma upd_lc a c u v i p q : length u = length v ->
  upd (lc a u c v) i (a * p + c * q) = lc a (upd u i p) c (upd v i q).
Proof.
  unfold Cycle.lc. revert v i; induction u as [|x u IH]; intros [|y v] [|i] H; simpl in *; try discriminate; auto.
  rewrite IH by congruence. reflexivity.
Qed.

(* dot products and dense mat-vec *)
Lemma dot_nil_l x : dot [] x = 0. Proof. reflexivity. Qed.
Lemma dot_cons a r x0 x : dot (a :: r) (x0 :: x) = a * x0 + dot r x. Proof. reflexivity. Qed.
Lemma dot_lin r a c x1 x2 : length x1 = length x2 ->
  dot r (lc a x1 c x2) = a * dot r x1 + c * dot r x2.
Proof.
  revert x1 x2; induction r as [|p r IH]; intros x1 x2 H.
  - rewrite !dot_nil_l. ring.
  - destruct x1 as [|u x1], x2 as [|w x2]; simpl in H; try discriminate.
    + unfold Cycle.dot, Cycle.lc; simpl. ring.
    + change (lc a (u :: x1) c (w :: x2)) with ((a * u + c * w) :: lc a x1 c x2).
      rewrite !dot_cons, IH by congruence. ring.
Qed.
Lemma dot_zeros r n : dot r (zeros n) = 0.
Proof.
  revert n; induction r as [|p r IH]; intros n; [reflexivity|].
  destruct n; [reflexivity|]. change (zeros (S n)) with (0 :: zeros n). rewrite dot_cons, IH. ring.
Qed.

Notation mulmat := (mulmat F zero add mul).
Lemma mulmat_length A x : length (mulmat A x) = length A.
Proof. apply map_length. Qed.
Lemma xat_mulmat A x i : xat (mulmat A x) i = dot (nth i A []) x.
Proof.
  unfold Cycle.xat, Cycle.mulmat.
  rewrite <- (map_nth (fun r => dot r x) A [] i). reflexivity.
Qed.
Lemma mulmat_lin A a c x1 x2 : length x1 = length x2 ->
  mulmat A (lc a x1 c x2) = lc a (mulmat A x1) c (mulmat A x2).
Proof.
  intros H. apply vec_ext.
  - rewrite lc_length, !mulmat_length by (rewrite !mulmat_length; reflexivity). reflexivity.
  - intros i _. rewrite xat_lc, !xat_mulmat by (rewrite !mulmat_length; reflexivity). apply dot_lin; exact H.
Qed.
Lemma mulmat_zeros A n : mulmat A (zeros n) = zeros (length A).
Proof.
  apply vec_ext; [rewrite mulmat_length, zeros_length; reflexivity|].
  intros i _. rewrite xat_mulmat, xat_zeros. apply dot_zeros.
Qed.

(* ============================== Part B: the abstract cycle ============================== *)
Definition rx (L : level) x b t : vec := fst (fst (lv_relax L x b t)).
Definition rb (L : level) x b t : vec := snd (fst (lv_relax L x b t)).
Definition rt (L : level) x b t : vec := snd (lv_relax L x b t).

(* what the theorems need of one level (n = lv_n L rows, m = lv_nc L coarse unknowns) *)
Record level_ok (L : level) : Prop := mkLevelOk {
  rlx_len : forall x b t, len (lv_n L) x -> len (lv_n L) b -> len (lv_n L) t ->
            len (lv_n L) (rx L x b t) /\ len (lv_n L) (rt L x b t);
  rlx_b   : forall x b t, len (lv_n L) x -> len (lv_n L) b -> len (lv_n L) t -> rb L x b t = b;
  rlx_scr : forall x b t t', len (lv_n L) x -> len (lv_n L) b -> len (lv_n L) t -> len (lv_n L) t' ->
            rx L x b t = rx L x b t';
  rlx_lin : forall a c x1 x2 b1 b2 t, len (lv_n L) x1 -> len (lv_n L) x2 -> len (lv_n L) b1 -> len (lv_n L) b2 ->
            len (lv_n L) t ->
            rx L (lc a x1 c x2) (lc a b1 c b2) t = lc a (rx L x1 b1 t) c (rx L x2 b2 t);
  rlx_fix : forall x b t, len (lv_n L) x -> len (lv_n L) b -> len (lv_n L) t ->
            lv_resid L x b = zeros (lv_n L) -> rx L x b t = x;
  res_len : forall x b, len (lv_n L) x -> len (lv_n L) b -> len (lv_n L) (lv_resid L x b);
  res_lin : forall a c x1 x2 b1 b2, len (lv_n L) x1 -> len (lv_n L) x2 -> len (lv_n L) b1 -> len (lv_n L) b2 ->
            lv_resid L (lc a x1 c x2) (lc a b1 c b2) = lc a (lv_resid L x1 b1) c (lv_resid L x2 b2);
  rst_len : forall r bo, len (lv_n L) r -> len (lv_nc L) bo -> len (lv_nc L) (lv_restrict L r bo);
  rst_scr : forall r bo bo', len (lv_n L) r -> len (lv_nc L) bo -> len (lv_nc L) bo' ->
            lv_restrict L r bo = lv_restrict L r bo';
  rst_lin : forall a c r1 r2 bo, len (lv_n L) r1 -> len (lv_n L) r2 -> len (lv_nc L) bo ->
            lv_restrict L (lc a r1 c r2) bo = lc a (lv_restrict L r1 bo) c (lv_restrict L r2 bo);
  prl_len : forall xc x, len (lv_nc L) xc -> len (lv_n L) x -> len (lv_n L) (lv_prolong L xc x);
  prl_lin : forall a c xc1 xc2 x1 x2, len (lv_nc L) xc1 -> len (lv_nc L) xc2 -> len (lv_n L) x1 -> len (lv_n L) x2 ->
            lv_prolong L (lc a xc1 c xc2) (lc a x1 c x2) = lc a (lv_prolong L xc1 x1) c (lv_prolong L xc2 x2);
  prl_zero : forall x, len (lv_n L) x -> lv_prolong L (zeros (lv_nc L)) x = x
}.

(* what they need of the coarsest level: csolve x b overwrites x with the solution of `cres . b = 0` *)
Record coarse_ok (n : nat) (csolve cres : vec -> vec -> vec) : Prop := mkCoarseOk {
  cs_len : forall x b, len n x -> len n b -> len n (csolve x b);
  cs_scr : forall x x' b, len n x -> len n x' -> len n b -> csolve x b = csolve x' b;
  cs_lin : forall a c x b1 b2, len n x -> len n b1 -> len n b2 ->
           csolve x (lc a b1 c b2) = lc a (csolve x b1) c (csolve x b2);
  cs_fix : forall x x' b, len n x -> len n x' -> len n b -> cres x b = zeros n -> csolve x' b = x;
  cs_res0 : cres (zeros n) (zeros n) = zeros n
}.

Section Hier.
Variables csolve cres : vec -> vec -> vec.

Fixpoint hier_ok (ls : list level) (n : nat) : Prop :=
  match ls with
  | [] => coarse_ok n csolve cres
  | L :: ls' => lv_n L = n /\ level_ok L /\ hier_ok ls' (lv_nc L)
  end.
Fixpoint scr_ok (ls : list level) (ss : list scratch) : Prop :=
  match ls with
  | [] => True
  | L :: ls' => match ss with
                | [] => False
                | s :: ss' => len (lv_n L) (s_tmp s) /\ len (lv_nc L) (s_xc s) /\ len (lv_nc L) (s_bc s) /\
                              scr_ok ls' ss'
                end
  end.
(* "x solves the system of the top level" *)
Definition h_resid (ls : list level) (x b : vec) : vec :=
  match ls with [] => cres x b | L :: _ => lv_resid L x b end.

Notation cycx := (cyc_x zero csolve).
Notation cycb := (cyc_b zero csolve).
Notation cycs := (cyc_s zero csolve).

(* unfolding equations in terms of the projections *)
Lemma cycx_nil ss x b : cycx [] ss x b = csolve x b. Proof. reflexivity. Qed.
Lemma cycb_nil ss x b : cycb [] ss x b = b. Proof. reflexivity. Qed.
Lemma cycs_nil ss x b : cycs [] ss x b = ss. Proof. reflexivity. Qed.

Definition pre_x L (s : scratch) x b := rx L x b (s_tmp s).
Definition pre_b L (s : scratch) x b := rb L x b (s_tmp s).
Definition mid_t L s x b := lv_resid L (pre_x L s x b) (pre_b L s x b).
Definition mid_bc L s x b := lv_restrict L (mid_t L s x b) (s_bc s).

Lemma cycx_cons L ls s ss x b :
  cycx (L :: ls) (s :: ss) x b =
  rx L (lv_prolong L (cycx ls ss (zero_like (s_xc s)) (mid_bc L s x b)) (pre_x L s x b))
       (pre_b L s x b) (mid_t L s x b).
Proof.
  unfold Cycle.cyc_x, mid_bc, mid_t, pre_x, pre_b, rx, rb. simpl.
  destruct (lv_relax L x b (s_tmp s)) as [[x1 b1] t1]. simpl.
  destruct (cycle zero csolve ls ss (zero_like (s_xc s)) (lv_restrict L (lv_resid L x1 b1) (s_bc s)))
    as [[xc' bc'] ss'']. simpl.
  destruct (lv_relax L (lv_prolong L xc' x1) b1 (lv_resid L x1 b1)) as [[x3 b3] t3]. reflexivity.
Qed.
Lemma cycb_cons L ls s ss x b :
  cycb (L :: ls) (s :: ss) x b =
  rb L (lv_prolong L (cycx ls ss (zero_like (s_xc s)) (mid_bc L s x b)) (pre_x L s x b))
       (pre_b L s x b) (mid_t L s x b).
Proof.
  unfold Cycle.cyc_b, Cycle.cyc_x, mid_bc, mid_t, pre_x, pre_b, rx, rb. simpl.
  destruct (lv_relax L x b (s_tmp s)) as [[x1 b1] t1]. simpl.
  destruct (cycle zero csolve ls ss (zero_like (s_xc s)) (lv_restrict L (lv_resid L x1 b1) (s_bc s)))
    as [[xc' bc'] ss'']. simpl.
  destruct (lv_relax L (lv_prolong L xc' x1) b1 (lv_resid L x1 b1)) as [[x3 b3] t3]. reflexivity.
Qed.
Lemma cycs_cons L ls s ss x b :
  cycs (L :: ls) (s :: ss) x b =
  mkScr (rt L (lv_prolong L (cycx ls ss (zero_like (s_xc s)) (mid_bc L s x b)) (pre_x L s x b))
              (pre_b L s x b) (mid_t L s x b))
        (cycx ls ss (zero_like (s_xc s)) (mid_bc L s x b))
        (cycb ls ss (zero_like (s_xc s)) (mid_bc L s x b))
  :: cycs ls ss (zero_like (s_xc s)) (mid_bc L s x b).
Proof.
  unfold Cycle.cyc_s, Cycle.cyc_b, Cycle.cyc_x, mid_bc, mid_t, pre_x, pre_b, rx, rb, rt. simpl.
  destruct (lv_relax L x b (s_tmp s)) as [[x1 b1] t1]. simpl.
  destruct (cycle zero csolve ls ss (zero_like (s_xc s)) (lv_restrict L (lv_resid L x1 b1) (s_bc s)))
    as [[xc' bc'] ss'']. simpl.
  destruct (lv_relax L (lv_prolong L xc' x1) b1 (lv_resid L x1 b1)) as [[x3 b3] t3]. reflexivity.
Qed.

Lemma zero_like_len n v : len n v -> zero_like v = zeros n.
Proof. unfold len; intros <-. apply zero_like_zeros. Qed.

(* the invariant: sizes, b untouched, scratch stays well-sized, and the result does not depend on the scratch *)
Lemma cycle_inv ls : forall n ss x b, hier_ok ls n -> scr_ok ls ss -> len n x -> len n b ->
  len n (cycx ls ss x b) /\ cycb ls ss x b = b /\ scr_ok ls (cycs ls ss x b) /\
  (forall ss', scr_ok ls ss' -> cycx ls ss' x b = cycx ls ss x b).
Proof.
  induction ls as [|L ls IH]; intros n ss x b Hh Hs Hx Hb.
  - simpl in Hh. repeat split.
    + rewrite cycx_nil. apply (cs_len _ _ _ Hh); assumption.
  - destruct Hh as [Hn [HL Hh]]. subst n.
    destruct ss as [|s ss]; [contradiction|]. destruct Hs as [Ht [Hxc [Hbc Hs]]].
    assert (P1 := rlx_len L HL x b (s_tmp s) Hx Hb Ht). destruct P1 as [Px1 Pt1].
    assert (Pb1 : pre_b L s x b = b) by (apply (rlx_b L HL); assumption).
    assert (Pt2 : len (lv_n L) (mid_t L s x b)).
    { unfold mid_t. rewrite Pb1. apply (res_len L HL); assumption. }
    assert (Pbc : len (lv_nc L) (mid_bc L s x b)) by (apply (rst_len L HL); assumption).
    assert (Pz : len (lv_nc L) (zero_like (s_xc s))).
    { rewrite (zero_like_len _ _ Hxc). apply zeros_length. }
    destruct (IH (lv_nc L) ss (zero_like (s_xc s)) (mid_bc L s x b) Hh Hs Pz Pbc) as [Q1 [Q2 [Q3 Q4]]].
    assert (Px2 : len (lv_n L) (lv_prolong L (cycx ls ss (zero_like (s_xc s)) (mid_bc L s x b)) (pre_x L s x b))).
    { apply (prl_len L HL); assumption. }
    repeat split.
    + rewrite cycx_cons. rewrite Pb1. apply (rlx_len L HL); assumption.
    + rewrite cycb_cons. rewrite Pb1. apply (rlx_b L HL); assumption.
    + rewrite cycs_cons. simpl. rewrite Pb1 at 1. repeat split; try assumption.
      * apply (rlx_len L HL); assumption.
      * rewrite Q2. exact Pbc.
    + intros [|s' ss'] Hs'; [contradiction|]. destruct Hs' as [Ht' [Hxc' [Hbc' Hs']]].
      rewrite !cycx_cons.
      assert (E1 : pre_x L s' x b = pre_x L s x b) by (apply (rlx_scr L HL); assumption).
      assert (E2 : pre_b L s' x b = b) by (apply (rlx_b L HL); assumption).
      assert (E3 : mid_t L s' x b = mid_t L s x b) by (unfold mid_t; rewrite E1, E2, Pb1; reflexivity).
      assert (E4 : mid_bc L s' x b = mid_bc L s x b).
      { unfold mid_bc. rewrite E3. apply (rst_scr L HL); assumption. }
      rewrite E1, E2, E3, E4, Pb1. rewrite (zero_like_len _ _ Hxc'), <- (zero_like_len _ _ Hxc).
      rewrite (Q4 ss' Hs'). reflexivity.
Qed.

Theorem cycle_history_free ls n ss ss' x b :
  hier_ok ls n -> scr_ok ls ss -> scr_ok ls ss' -> len n x -> len n b ->
  cycx ls ss x b = cycx ls ss' x b.
Proof. intros Hh Hs Hs' Hx Hb. symmetry. apply (cycle_inv ls n ss x b Hh Hs Hx Hb). exact Hs'. Qed.

Theorem cycle_rhs_unchanged ls n ss x b :
  hier_ok ls n -> scr_ok ls ss -> len n x -> len n b -> cycb ls ss x b = b.
Proof. intros Hh Hs Hx Hb. apply (cycle_inv ls n ss x b Hh Hs Hx Hb). Qed.

Lemma cycle_len ls n ss x b :
  hier_ok ls n -> scr_ok ls ss -> len n x -> len n b -> len n (cycx ls ss x b).
Proof. intros Hh Hs Hx Hb. apply (cycle_inv ls n ss x b Hh Hs Hx Hb). Qed.
Lemma cycle_scr_ok ls n ss x b :
  hier_ok ls n -> scr_ok ls ss -> len n x -> len n b -> scr_ok ls (cycs ls ss x b).
Proof. intros Hh Hs Hx Hb. apply (cycle_inv ls n ss x b Hh Hs Hx Hb). Qed.

(* linearity, first with one scratch state for the three runs *)
Lemma cycle_linear_same ls : forall n ss a c x1 x2 b1 b2,
  hier_ok ls n -> scr_ok ls ss -> len n x1 -> len n x2 -> len n b1 -> len n b2 ->
  cycx ls ss (lc a x1 c x2) (lc a b1 c b2) = lc a (cycx ls ss x1 b1) c (cycx ls ss x2 b2).
Proof.
  induction ls as [|L ls IH]; intros n ss a c x1 x2 b1 b2 Hh Hs Hx1 Hx2 Hb1 Hb2.
  - simpl in Hh. rewrite !cycx_nil.
    rewrite (cs_lin _ _ _ Hh) by (try apply len_lc; assumption).
    rewrite (cs_scr _ _ _ Hh (lc a x1 c x2) x1 b1), (cs_scr _ _ _ Hh (lc a x1 c x2) x2 b2)
      by (try apply len_lc; assumption).
    reflexivity.
  - destruct Hh as [Hn [HL Hh]]. subst n.
    destruct ss as [|s ss]; [contradiction|]. destruct Hs as [Ht [Hxc [Hbc Hs]]].
    assert (Hx : len (lv_n L) (lc a x1 c x2)) by (apply len_lc; assumption).
    assert (Hb : len (lv_n L) (lc a b1 c b2)) by (apply len_lc; assumption).
    rewrite !cycx_cons.
    assert (B0 : pre_b L s (lc a x1 c x2) (lc a b1 c b2) = lc a b1 c b2) by (apply (rlx_b L HL); assumption).
    assert (B1 : pre_b L s x1 b1 = b1) by (apply (rlx_b L HL); assumption).
    assert (B2 : pre_b L s x2 b2 = b2) by (apply (rlx_b L HL); assumption).
    assert (X0 : pre_x L s (lc a x1 c x2) (lc a b1 c b2) = lc a (pre_x L s x1 b1) c (pre_x L s x2 b2))
      by (apply (rlx_lin L HL); assumption).
    assert (LX1 : len (lv_n L) (pre_x L s x1 b1)) by (apply (rlx_len L HL); assumption).
    assert (LX2 : len (lv_n L) (pre_x L s x2 b2)) by (apply (rlx_len L HL); assumption).
    assert (T0 : mid_t L s (lc a x1 c x2) (lc a b1 c b2) = lc a (mid_t L s x1 b1) c (mid_t L s x2 b2)).
    { unfold mid_t. rewrite X0, B0, B1, B2. apply (res_lin L HL); assumption. }
    assert (LT1 : len (lv_n L) (mid_t L s x1 b1)) by (unfold mid_t; rewrite B1; apply (res_len L HL); assumption).
    assert (LT2 : len (lv_n L) (mid_t L s x2 b2)) by (unfold mid_t; rewrite B2; apply (res_len L HL); assumption).
    assert (C0 : mid_bc L s (lc a x1 c x2) (lc a b1 c b2) = lc a (mid_bc L s x1 b1) c (mid_bc L s x2 b2)).
    { unfold mid_bc. rewrite T0. apply (rst_lin L HL); assumption. }
    assert (LC1 : len (lv_nc L) (mid_bc L s x1 b1)) by (apply (rst_len L HL); assumption).
    assert (LC2 : len (lv_nc L) (mid_bc L s x2 b2)) by (apply (rst_len L HL); assumption).
    assert (Z : zero_like (s_xc s) = zeros (lv_nc L)) by (apply zero_like_len; exact Hxc).
    assert (LZ : len (lv_nc L) (zeros (lv_nc L))) by apply zeros_length.
    rewrite X0, B0, B1, B2, T0, C0, Z.
    rewrite <- (lc_zeros (lv_nc L) a c) at 1.
    rewrite (IH (lv_nc L) ss a c _ _ _ _ Hh Hs LZ LZ LC1 LC2).
    assert (LY1 := cycle_len ls _ ss _ _ Hh Hs LZ LC1). assert (LY2 := cycle_len ls _ ss _ _ Hh Hs LZ LC2).
    rewrite (prl_lin L HL) by assumption.
    assert (LP1 := prl_len L HL _ _ LY1 LX1). assert (LP2 := prl_len L HL _ _ LY2 LX2).
    rewrite (rlx_lin L HL) by (try apply len_lc; assumption).
    rewrite (rlx_scr L HL _ b1 (lc a (mid_t L s x1 b1) c (mid_t L s x2 b2)) (mid_t L s x1 b1))
      by (try apply len_lc; assumption).
    rewrite (rlx_scr L HL _ b2 (lc a (mid_t L s x1 b1) c (mid_t L s x2 b2)) (mid_t L s x2 b2))
      by (try apply len_lc; assumption).
    reflexivity.
Qed.

Theorem cycle_linear ls n ss ss1 ss2 a c x1 x2 b1 b2 :
  hier_ok ls n -> scr_ok ls ss -> scr_ok ls ss1 -> scr_ok ls ss2 ->
  len n x1 -> len n x2 -> len n b1 -> len n b2 ->
  cycx ls ss (lc a x1 c x2) (lc a b1 c b2) = lc a (cycx ls ss1 x1 b1) c (cycx ls ss2 x2 b2).
Proof.
  intros Hh Hs Hs1 Hs2 Hx1 Hx2 Hb1 Hb2.
  rewrite (cycle_history_free ls n ss1 ss x1 b1), (cycle_history_free ls n ss2 ss x2 b2) by assumption.
  apply (cycle_linear_same ls n); assumption.
Qed.

(* residual of (0, 0) is 0 on every level *)
Lemma h_resid_zero ls n : hier_ok ls n -> h_resid ls (zeros n) (zeros n) = zeros n.
Proof.
  destruct ls as [|L ls]; simpl; intros Hh.
  - apply (cs_res0 _ _ _ Hh).
  - destruct Hh as [Hn [HL _]]. subst n.
    assert (LZ : len (lv_n L) (zeros (lv_n L))) by apply zeros_length.
    rewrite <- (lc_0_0 (lv_n L) (zeros (lv_n L)) (zeros (lv_n L)) LZ LZ) at 1 2.
    rewrite (res_lin L HL) by assumption.
    apply lc_0_0; apply (res_len L HL); assumption.
Qed.

(* consistency: a solution of the top-level system is a fixed point *)
Theorem cycle_fixed_point ls : forall n ss x b,
  hier_ok ls n -> scr_ok ls ss -> len n x -> len n b ->
  h_resid ls x b = zeros n -> cycx ls ss x b = x.
Proof.
  induction ls as [|L ls IH]; intros n ss x b Hh Hs Hx Hb Hr.
  - simpl in *. rewrite cycx_nil. apply (cs_fix _ _ _ Hh x x b); assumption.
  - destruct Hh as [Hn [HL Hh]]. subst n. simpl in Hr.
    destruct ss as [|s ss]; [contradiction|]. destruct Hs as [Ht [Hxc [Hbc Hs]]].
    rewrite cycx_cons.
    assert (B0 : pre_b L s x b = b) by (apply (rlx_b L HL); assumption).
    assert (X0 : pre_x L s x b = x) by (apply (rlx_fix L HL); assumption).
    assert (T0 : mid_t L s x b = zeros (lv_n L)) by (unfold mid_t; rewrite X0, B0; exact Hr).
    assert (LZn : len (lv_n L) (zeros (lv_n L))) by apply zeros_length.
    assert (LZ : len (lv_nc L) (zeros (lv_nc L))) by apply zeros_length.
    assert (C0 : mid_bc L s x b = zeros (lv_nc L)).
    { unfold mid_bc. rewrite T0.
      rewrite <- (lc_0_0 (lv_n L) (zeros (lv_n L)) (zeros (lv_n L)) LZn LZn) at 1.
      rewrite (rst_lin L HL) by assumption.
      apply lc_0_0; apply (rst_len L HL); assumption. }
    rewrite X0, B0, T0, C0, (zero_like_len _ _ Hxc).
    rewrite (IH (lv_nc L) ss _ _ Hh Hs LZ LZ (h_resid_zero ls _ Hh)).
    rewrite (prl_zero L HL) by assumption.
    apply (rlx_fix L HL); assumption.
Qed.

(* histories: whatever was solved before, each call returns what a fresh hierarchy would return *)
Theorem run_history_pure ls n ss0 : hier_ok ls n -> scr_ok ls ss0 ->
  forall calls ss, scr_ok ls ss -> Forall (fun xb => len n (fst xb) /\ len n (snd xb)) calls ->
  run_history zero csolve ls ss calls = map (fun xb => cycx ls ss0 (fst xb) (snd xb)) calls.
Proof.
  intros Hh Hs0. induction calls as [|[x b] calls IH]; intros ss Hs Hf; [reflexivity|].
  inversion Hf as [|? ? [Hx Hb] Hf']; subst. simpl in Hx, Hb.
  simpl.
  assert (E : cycle zero csolve ls ss x b = (cycx ls ss x b, cycb ls ss x b, cycs ls ss x b)).
  { unfold Cycle.cyc_x, Cycle.cyc_b, Cycle.cyc_s. destruct (cycle zero csolve ls ss x b) as [[? ?] ?]. reflexivity. }
  rewrite E. f_equal.
  - apply (cycle_history_free ls n); assumption.
  - apply IH; [|exact Hf']. apply (cycle_scr_ok ls n); assumption.
Qed.

End Hier.

(* ============================== Part C: the dense concrete kernels ============================== *)
Variable inv : F -> F.
Variable tiny : F -> bool.
Variable eqb0 : F -> bool.
Variable lapack_solve : mat -> vec -> vec.
Hypothesis inv_ok : forall d, d <> 0 -> d * inv d = 1.

Notation c_resid := (c_resid F zero add mul sub).
Notation c_prolong := (c_prolong F zero add mul).
Notation mulmatT := (mulmatT F zero add mul).
Notation c_restrict := (c_restrict F zero add mul).
Notation c_restrict_old := (c_restrict_old F zero add mul).
Notation offsum := (offsum F zero add mul).
Notation row_update := (row_update F zero one add mul sub inv).
Notation sweep := (sweep F zero one add mul sub inv tiny).
Notation one_sweep := (one_sweep F zero one add mul sub inv tiny).
Notation c_relax := (c_relax F zero one add mul sub inv tiny).
Notation guard_base := (guard_base zero).

Let s_mul_l := fun A => @sumf_map_mul_l F zero one add mul sub opp Fth A.
Let s_add := fun A => @sumf_map_add F zero one add mul sub opp Fth A.

(* an n x m dense matrix *)
Definition mat_dims (n m : nat) (A : mat) : Prop := length A = n /\ forall r, In r A -> length r = m.
Lemma mat_dims_row n m A i : mat_dims n m A -> i < n -> length (nth i A []) = m.
Proof. intros [H1 H2] Hi. apply H2. apply nth_In. lia. Qed.

(* ---- residual ---- *)
Lemma c_resid_len n A x b : length A = n -> len n b -> len n (c_resid A x b).
Proof. unfold len, Cycle.c_resid; intros HA Hb. rewrite vsub_length; rewrite ?mulmat_length; congruence. Qed.
Lemma c_resid_lin n A a c x1 x2 b1 b2 : length A = n ->
  length x1 = length x2 -> len n b1 -> len n b2 ->
  c_resid A (lc a x1 c x2) (lc a b1 c b2) = lc a (c_resid A x1 b1) c (c_resid A x2 b2).
Proof.
  unfold len, Cycle.c_resid; intros HA Hx Hb1 Hb2. rewrite mulmat_lin by exact Hx.
  apply vsub_lc; rewrite ?mulmat_length; congruence.
Qed.
Lemma c_resid_rows n A x b : length A = n -> len n b -> c_resid A x b = zeros n ->
  forall i, i < n -> xat b i = dot (nth i A []) x.
Proof.
  unfold len; intros HA Hb H i Hi.
  assert (E : b = mulmat A x).
  { apply (vsub_zeros_eq n); unfold len; rewrite ?mulmat_length; try congruence. exact H. }
  rewrite E at 1. apply xat_mulmat.
Qed.

(* ---- prolongation ---- *)
Lemma c_prolong_len n P xc x : length P = n -> len n x -> len n (c_prolong P xc x).
Proof. unfold len, Cycle.c_prolong; intros HP Hx. rewrite vadd_length; rewrite ?mulmat_length; congruence. Qed.
Lemma c_prolong_lin n P a c xc1 xc2 x1 x2 : length P = n -> length xc1 = length xc2 -> len n x1 -> len n x2 ->
  c_prolong P (lc a xc1 c xc2) (lc a x1 c x2) = lc a (c_prolong P xc1 x1) c (c_prolong P xc2 x2).
Proof.
  unfold len, Cycle.c_prolong; intros HP Hc H1 H2. rewrite mulmat_lin by exact Hc.
  apply vadd_lc; rewrite ?mulmat_length; congruence.
Qed.
Lemma c_prolong_zero n m P x : length P = n -> len n x -> c_prolong P (zeros m) x = x.
Proof. unfold Cycle.c_prolong; intros HP Hx. rewrite mulmat_zeros, HP. apply vadd_zeros_r; exact Hx. Qed.

(* ---- restriction ---- *)
Lemma mulmatT_len P r m : length (mulmatT P r m) = m.
Proof. unfold Cycle.mulmatT. rewrite map_length, seq_length. reflexivity. Qed.
Lemma colsum_lin P j a c : forall r1 r2, length r1 = length r2 ->
  sumF (vzip (fun row ri => xat row j * ri) P (lc a r1 c r2)) =
  a * sumF (vzip (fun row ri => xat row j * ri) P r1) + c * sumF (vzip (fun row ri => xat row j * ri) P r2).
Proof.
  induction P as [|row P IH]; intros r1 r2 H; simpl; [ring|].
  destruct r1 as [|u r1], r2 as [|w r2]; simpl in *; try discriminate; [ring|].
  change (vzip (fun p q : F => a * p + c * q) r1 r2) with (lc a r1 c r2).
  rewrite IH by congruence. ring.
Qed.
Lemma mulmatT_lin P m a c r1 r2 : length r1 = length r2 ->
  mulmatT P (lc a r1 c r2) m = lc a (mulmatT P r1 m) c (mulmatT P r2 m).
Proof.
  intros H. apply vec_ext.
  - rewrite lc_length, !mulmatT_len by (rewrite !mulmatT_len; reflexivity). reflexivity.
  - intros i Hi. rewrite mulmatT_len in Hi.
    rewrite xat_lc by (rewrite !mulmatT_len; reflexivity).
    unfold Cycle.xat at 1 2 3. unfold Cycle.mulmatT.
    rewrite !(nth_map_seq _ m i 0 Hi). apply colsum_lin; exact H.
Qed.

(* the partition invariant of a hierarchy: a rank without fine rows owns no coarse unknowns *)
Definition guard_ok (fparts cparts : list nat) : Prop := Forall2 (fun f c => f = O -> c = O) fparts cparts.
Fixpoint sumn (l : list nat) : nat := match l with [] => O | a :: l' => (a + sumn l')%nat end.

Lemma guard_base_zeros fparts cparts : guard_ok fparts cparts ->
  forall bo, length bo = sumn cparts -> guard_base fparts cparts bo = zeros (sumn cparts).
Proof.
  induction 1 as [|f c fs cs Hfc H IH]; intros bo Hb; [reflexivity|].
  simpl in *. rewrite IH by (rewrite skipn_length; lia).
  destruct (f =? O) eqn:E.
  - apply Nat.eqb_eq in E. rewrite (Hfc E). reflexivity.
  - rewrite zero_like_zeros, firstn_length, Nat.min_l by lia.
    unfold Cycle.zeros. rewrite <- repeat_app. reflexivity.
Qed.
Lemma c_restrict_clean P m r bo : len m bo -> c_restrict P m r bo = mulmatT P r m.
Proof.
  unfold Cycle.c_restrict; intros Hb. rewrite (zero_like_len m bo Hb).
  apply vadd_zeros_l. apply mulmatT_len.
Qed.
(* the code before the fix computed the same on every layout that satisfies the partition invariant *)
Lemma c_restrict_old_clean P fparts cparts m r bo :
  guard_ok fparts cparts -> sumn cparts = m -> len m bo ->
  c_restrict_old P fparts cparts m r bo = c_restrict P m r bo.
Proof.
  intros Hg Hm Hb. rewrite (c_restrict_clean P m r bo Hb).
  unfold len, Cycle.c_restrict_old in *. rewrite guard_base_zeros by (try exact Hg; congruence).
  rewrite Hm. apply vadd_zeros_l. apply mulmatT_len.
Qed.

(* ---- relaxation ---- *)
Lemma offsum_lin row i blk a c xc1 xc2 xo1 xo2 : length xc1 = length xc2 -> length xo1 = length xo2 ->
  offsum row i blk (lc a xc1 c xc2) (lc a xo1 c xo2) =
  a * offsum row i blk xc1 xo1 + c * offsum row i blk xc2 xo2.
Proof.
  intros H1 H2. unfold Cycle.offsum. rewrite <- !s_mul_l, <- s_add.
  apply sumf_map_ext. intros ja _.
  destruct (fst ja =? i); [ring|]. destruct (in_block blk (fst ja)); rewrite xat_lc by assumption; ring.
Qed.
Lemma row_update_lin omega row i blk a c xc1 xc2 xo1 xo2 b1 b2 :
  length xc1 = length xc2 -> length xo1 = length xo2 -> length b1 = length b2 ->
  row_update omega row i blk (lc a xc1 c xc2) (lc a xo1 c xo2) (lc a b1 c b2) =
  a * row_update omega row i blk xc1 xo1 b1 + c * row_update omega row i blk xc2 xo2 b2.
Proof.
  intros H1 H2 H3. unfold Cycle.row_update. rewrite offsum_lin, !xat_lc by assumption. ring.
Qed.

Lemma sweep_length A omega blkf skip order xo b : forall xc, length (sweep A omega blkf skip order xo b xc) = length xc.
Proof.
  unfold Cycle.sweep. induction order as [|i order IH]; intros xc; simpl; [reflexivity|].
  rewrite IH. destruct (skip && tiny _); [reflexivity|apply upd_length].
Qed.
Lemma sweep_lin A omega blkf skip order a c xo1 xo2 b1 b2 :
  length xo1 = length xo2 -> length b1 = length b2 -> forall xc1 xc2, length xc1 = length xc2 ->
  sweep A omega blkf skip order (lc a xo1 c xo2) (lc a b1 c b2) (lc a xc1 c xc2) =
  lc a (sweep A omega blkf skip order xo1 b1 xc1) c (sweep A omega blkf skip order xo2 b2 xc2).
Proof.
  intros Ho Hb. unfold Cycle.sweep. induction order as [|i order IH]; intros xc1 xc2 Hc; simpl; [reflexivity|].
  destruct (skip && tiny _).
  - apply IH; exact Hc.
  - rewrite row_update_lin, upd_lc by assumption. apply IH. rewrite !upd_length. exact Hc.
Qed.

Lemma one_sweep_length k A omega parts b x : length (one_sweep k A omega parts b x) = length x.
Proof. destruct k; simpl; rewrite ?sweep_length; reflexivity. Qed.
Lemma one_sweep_lin k A omega parts a c x1 x2 b1 b2 : length x1 = length x2 -> length b1 = length b2 ->
  one_sweep k A omega parts (lc a b1 c b2) (lc a x1 c x2) =
  lc a (one_sweep k A omega parts b1 x1) c (one_sweep k A omega parts b2 x2).
Proof.
  intros Hx Hb. destruct k; simpl; rewrite ?sweep_lin; rewrite ?sweep_length; auto.
Qed.

(* splitting a row sum at the diagonal *)
Lemma masked_sum_before (g : nat * F -> F) i : forall row s, i < s ->
  sumF (map (fun ja => if fst ja =? i then 0 else g ja) (indexed_from s row)) = sumF (map g (indexed_from s row)).
Proof.
  induction row as [|a row IH]; intros s Hs; simpl; [reflexivity|].
  rewrite IH by lia. replace (s =? i) with false by (symmetry; apply Nat.eqb_neq; lia). reflexivity.
Qed.
Lemma masked_sum_split (g : nat * F -> F) i : forall row s, s <= i < s + length row ->
  sumF (map g (indexed_from s row)) =
  g (i, nth (i - s) row 0) + sumF (map (fun ja => if fst ja =? i then 0 else g ja) (indexed_from s row)).
Proof.
  induction row as [|a row IH]; intros s Hs; simpl in *; [lia|].
  destruct (Nat.eq_dec s i) as [->|Hne].
  - rewrite Nat.sub_diag, Nat.eqb_refl. simpl. rewrite masked_sum_before by lia. ring.
  - replace (s =? i) with false by (symmetry; apply Nat.eqb_neq; lia).
    rewrite (IH (S s)) by lia. replace (i - s)%nat with (S (i - S s)) by lia. simpl. ring.
Qed.
Lemma dot_indexed : forall row s x, (s + length row <= length x)%nat ->
  sumF (vzip mul row (skipn s x)) = sumF (map (fun ja => snd ja * xat x (fst ja)) (indexed_from s row)).
Proof.
  induction row as [|a row IH]; intros s x H; simpl in *; [reflexivity|].
  assert (E : skipn s x = xat x s :: skipn (S s) x).
  { unfold Cycle.xat. clear IH. revert s H; induction x as [|y x IHx]; intros s H; simpl in *; [lia|].
    destruct s; [reflexivity|]. apply IHx. lia. }
  rewrite E. cbn [vzip sumf fold_right]. f_equal. apply IH. lia.
Qed.
Lemma dot_split row i blk x : i < length row -> length row <= length x ->
  dot row x = xat row i * xat x i + offsum row i blk x x.
Proof.
  intros Hi Hl. unfold Cycle.dot, Cycle.offsum.
  assert (E := dot_indexed row O x). simpl in E. rewrite E by lia. clear E.
  unfold indexed. rewrite (masked_sum_split _ i row O) by lia. rewrite Nat.sub_0_r. simpl. f_equal.
  apply sumf_map_ext. intros ja _. destruct (fst ja =? i); [reflexivity|].
  destruct (in_block blk (fst ja)); reflexivity.
Qed.
Lemma row_update_fix omega row i blk x b : i < length row -> length row <= length x ->
  xat row i <> 0 -> xat b i = dot row x -> row_update omega row i blk x x b = xat x i.
Proof.
  intros Hi Hl Hd Hb. unfold Cycle.row_update. rewrite Hb, (dot_split row i blk x Hi Hl).
  replace (xat row i * xat x i + offsum row i blk x x - offsum row i blk x x) with (xat x i * xat row i) by ring.
  rewrite <- (Fth.(Rmul_assoc)), (inv_ok _ Hd). ring.
Qed.

Definition diag_nz (n : nat) (A : mat) : Prop := forall i, i < n -> xat (nth i A []) i <> 0.

Lemma sweep_fix n A omega blkf skip x b : mat_dims n n A -> diag_nz n A -> len n x ->
  (forall i, i < n -> xat b i = dot (nth i A []) x) ->
  forall order, (forall i, In i order -> i < n) -> sweep A omega blkf skip order x b x = x.
Proof.
  intros HA Hd Hx Hr. unfold Cycle.sweep. induction order as [|i order IH]; intros Ho; simpl; [reflexivity|].
  assert (Hi : i < n) by (apply Ho; left; reflexivity).
  destruct (skip && tiny _).
  - apply IH. intros j Hj; apply Ho; right; exact Hj.
  - rewrite row_update_fix.
    + rewrite upd_same. apply IH. intros j Hj; apply Ho; right; exact Hj.
    + rewrite (mat_dims_row n n A i HA Hi). exact Hi.
    + rewrite (mat_dims_row n n A i HA Hi). unfold len in Hx. lia.
    + apply Hd; exact Hi.
    + apply Hr; exact Hi.
Qed.
Lemma one_sweep_fix n k A omega parts x b : mat_dims n n A -> diag_nz n A -> len n x -> len n b ->
  c_resid A x b = zeros n -> one_sweep k A omega parts b x = x.
Proof.
  intros HA Hd Hx Hb Hr. assert (Hrows := c_resid_rows n A x b (proj1 HA) Hb Hr).
  assert (Hs : forall i, In i (seq O (length A)) -> i < n) by (intros i Hi; apply in_seq in Hi; destruct HA; lia).
  assert (Hs' : forall i, In i (rev (seq O (length A))) -> i < n) by (intros i Hi; apply Hs, in_rev; exact Hi).
  destruct k; simpl; rewrite ?(sweep_fix n A omega _ _ x b HA Hd Hx Hrows) by assumption; reflexivity.
Qed.

Lemma c_relax_b k A omega parts sweeps : forall x b t, snd (fst (c_relax k A omega parts sweeps x b t)) = b.
Proof. induction sweeps as [|s IH]; intros; simpl; [reflexivity|apply IH]. Qed.
Lemma c_relax_scr k A omega parts sweeps : forall x b t t',
  fst (fst (c_relax k A omega parts sweeps x b t)) = fst (fst (c_relax k A omega parts sweeps x b t')).
Proof. induction sweeps as [|s IH]; intros; simpl; [reflexivity|apply IH]. Qed.
Lemma c_relax_len n k A omega parts sweeps : forall x b t, len n x -> len n t ->
  len n (fst (fst (c_relax k A omega parts sweeps x b t))) /\ len n (snd (c_relax k A omega parts sweeps x b t)).
Proof.
  unfold len. induction sweeps as [|s IH]; intros x b t Hx Ht; simpl; [split; assumption|].
  apply IH; [rewrite one_sweep_length; exact Hx|destruct k; assumption].
Qed.
Lemma c_relax_lin k A omega parts sweeps a c : forall x1 x2 b1 b2 t t1 t2,
  length x1 = length x2 -> length b1 = length b2 ->
  fst (fst (c_relax k A omega parts sweeps (lc a x1 c x2) (lc a b1 c b2) t)) =
  lc a (fst (fst (c_relax k A omega parts sweeps x1 b1 t1))) c (fst (fst (c_relax k A omega parts sweeps x2 b2 t2))).
Proof.
  induction sweeps as [|s IH]; intros x1 x2 b1 b2 t t1 t2 Hx Hb; simpl; [reflexivity|].
  rewrite one_sweep_lin by assumption. apply IH; [rewrite !one_sweep_length; exact Hx|exact Hb].
Qed.
Lemma c_relax_fix n k A omega parts sweeps x b : mat_dims n n A -> diag_nz n A -> len n x -> len n b ->
  c_resid A x b = zeros n -> forall t, fst (fst (c_relax k A omega parts sweeps x b t)) = x.
Proof.
  intros HA Hd Hx Hb Hr. induction sweeps as [|s IH]; intros t; simpl; [reflexivity|].
  rewrite (one_sweep_fix n k A omega parts x b HA Hd Hx Hb Hr). apply IH.
Qed.

(* ---- a concrete level satisfies the abstract interface ---- *)
Definition clevel_wf (n m : nat) (A P : mat) : Prop :=
  mat_dims n n A /\ diag_nz n A /\ mat_dims n m P.

Lemma concrete_level_ok k omega sweeps n m A P parts :
  clevel_wf n m A P ->
  level_ok (mkLevel n m (c_relax k A omega parts sweeps) (c_resid A) (c_restrict P m) (c_prolong P)).
Proof.
  intros [HA [Hd HP]]. destruct HA as [HAn HAr]. destruct HP as [HPn HPr].
  assert (HA : mat_dims n n A) by (split; assumption).
  constructor; simpl; unfold rx, rb, rt; simpl.
  - intros x b t Hx Hb Ht. apply c_relax_len; assumption.
  - intros x b t _ _ _. apply c_relax_b.
  - intros x b t t' _ _ _ _. apply c_relax_scr.
  - intros a c x1 x2 b1 b2 t Hx1 Hx2 Hb1 Hb2 Ht. apply c_relax_lin; unfold len in *; congruence.
  - intros x b t Hx Hb Ht Hr. apply (c_relax_fix n); assumption.
  - intros x b Hx Hb. apply c_resid_len; assumption.
  - intros a c x1 x2 b1 b2 Hx1 Hx2 Hb1 Hb2. apply (c_resid_lin n); unfold len in *; congruence.
  - intros r bo Hr Hbo. rewrite c_restrict_clean by assumption. apply mulmatT_len.
  - intros r bo bo' Hr Hbo Hbo'. rewrite !c_restrict_clean by assumption. reflexivity.
  - intros a c r1 r2 bo Hr1 Hr2 Hbo. rewrite !c_restrict_clean by assumption.
    apply mulmatT_lin. unfold len in *; congruence.
  - intros xc x Hxc Hx. apply c_prolong_len; assumption.
  - intros a c xc1 xc2 x1 x2 H1 H2 H3 H4. apply (c_prolong_lin n); unfold len in *; congruence.
  - intros x Hx. apply (c_prolong_zero n); assumption.
Qed.

(* ---- the coarsest level ---- *)
Notation coarse_buf := (coarse_buf F).
Notation getrs_mat := (getrs_mat F zero).
Notation c_coarse := (c_coarse F zero lapack_solve).

Lemma nth_concat_rows n : forall (M : mat) i j, (forall r, In r M -> length r = n) -> i < length M -> j < n ->
  nth (i * n + j) (concat M) 0 = nth j (nth i M []) 0.
Proof.
  induction M as [|r M IH]; intros i j Hr Hi Hj; simpl in *; [lia|].
  assert (Hlr : length r = n) by (apply Hr; left; reflexivity).
  destruct i as [|i]; simpl.
  - apply app_nth1. lia.
  - rewrite app_nth2 by lia. replace (n + i * n + j - length r)%nat with (i * n + j)%nat by lia.
    apply IH; [intros r' Hr'; apply Hr; right; exact Hr'|lia|exact Hj].
Qed.
(* row-major fill + column-major reading + trans = 'T'  =  the matrix itself *)
Lemma getrs_mat_T n M : mat_dims n n M -> getrs_mat true n (coarse_buf M) = M.
Proof.
  intros [Hn Hr]. unfold Cycle.getrs_mat, Cycle.coarse_buf.
  apply (nth_ext _ _ [] []); [rewrite map_length, seq_length; congruence|].
  intros i Hi. rewrite map_length, seq_length in Hi.
  rewrite (nth_map_seq _ n i [] Hi).
  apply (nth_ext _ _ 0 0).
  - rewrite map_length, seq_length. symmetry. apply Hr. apply nth_In. lia.
  - intros j Hj. rewrite map_length, seq_length in Hj. rewrite (nth_map_seq _ n j 0 Hj).
    unfold Cycle.xat. apply nth_concat_rows; [exact Hr|lia|exact Hj].
Qed.
(* ... and with trans = 'N' (the code before the fix) the transposed matrix *)
Lemma getrs_mat_N_entry n M i j : mat_dims n n M -> i < n -> j < n ->
  xat (nth i (getrs_mat false n (coarse_buf M)) []) j = xat (nth j M []) i.
Proof.
  intros [Hn Hr] Hi Hj. unfold Cycle.getrs_mat, Cycle.coarse_buf.
  rewrite (nth_map_seq _ n i [] Hi). unfold Cycle.xat at 1. rewrite (nth_map_seq _ n j 0 Hj).
  unfold Cycle.xat. apply nth_concat_rows; [exact Hr|lia|exact Hi].
Qed.

(* what is assumed of LAPACK for the coarsest matrix M: it is nonsingular (injective on R^n) and
   dgetrf/dgetrs return a solution *)
Definition nonsing (n : nat) (M : mat) : Prop :=
  forall u v, len n u -> len n v -> mulmat M u = mulmat M v -> u = v.
Definition lapack_ok (n : nat) (M : mat) : Prop :=
  nonsing n M /\ forall b, len n b -> len n (lapack_solve M b) /\ mulmat M (lapack_solve M b) = b.

Lemma c_coarse_T n M x b : mat_dims n n M -> c_coarse true M x b = lapack_solve M b.
Proof. intros HM. unfold Cycle.c_coarse, Cycle.getrs. rewrite (proj1 HM), (getrs_mat_T n M HM). reflexivity. Qed.

Lemma concrete_coarse_ok n M : mat_dims n n M -> lapack_ok n M ->
  coarse_ok n (c_coarse true M) (c_resid M).
Proof.
  intros HM [Hns Hsol]. constructor.
  - intros x b _ Hb. rewrite (c_coarse_T n) by exact HM. apply Hsol; exact Hb.
  - intros x x' b _ _ _. rewrite !(c_coarse_T n) by exact HM. reflexivity.
  - intros a c x b1 b2 _ Hb1 Hb2. rewrite !(c_coarse_T n) by exact HM.
    destruct (Hsol b1 Hb1) as [L1 S1]. destruct (Hsol b2 Hb2) as [L2 S2].
    destruct (Hsol (lc a b1 c b2) (len_lc n a b1 c b2 Hb1 Hb2)) as [L3 S3].
    apply Hns; [exact L3|apply len_lc; assumption|].
    rewrite S3, mulmat_lin by (unfold len in *; congruence). rewrite S1, S2. reflexivity.
  - intros x x' b Hx _ Hb Hr. rewrite (c_coarse_T n) by exact HM.
    destruct (Hsol b Hb) as [L1 S1]. apply Hns; [exact L1|exact Hx|].
    rewrite S1. apply (vsub_zeros_eq n); [exact Hb|unfold len; rewrite mulmat_length; apply HM|exact Hr].
  - unfold Cycle.c_resid. rewrite mulmat_zeros, (proj1 HM).
    apply vec_ext; [rewrite vsub_length, !zeros_length; reflexivity|].
    intros i _. rewrite xat_vsub, xat_zeros by reflexivity. ring.
Qed.

(* ---- the concrete hierarchy ---- *)
Notation chier := (chier F).
Notation clevel := (clevel F).
Notation mk_levels := (mk_levels F zero one add mul sub inv tiny).
Notation h_cycle := (h_cycle F zero one add mul sub inv tiny lapack_solve).

Fixpoint levels_wf (cs : list clevel) (Mc : mat) (lastp : list nat) (n : nat) : Prop :=
  match cs with
  | [] => mat_dims n n Mc
  | c :: rest => clevel_wf n (next_n rest Mc) (cl_A c) (cl_P c) /\
                 levels_wf rest Mc lastp (next_n rest Mc)
  end.
(* well-formed hierarchy with n fine unknowns, as the code has it now (trans = 'T') *)
Definition chier_wf (H : chier) (n : nat) : Prop :=
  levels_wf (ch_levels H) (ch_coarse H) (ch_cparts H) n /\ ch_trans H = true /\
  lapack_ok (length (ch_coarse H)) (ch_coarse H).

Lemma levels_wf_top cs Mc lastp n : levels_wf cs Mc lastp n -> next_n cs Mc = n.
Proof. destruct cs as [|c rest]; simpl; [intros [H _]; exact H|intros [[[H _] _] _]; exact H]. Qed.

Lemma concrete_hier_ok (H : chier) : ch_trans H = true -> lapack_ok (length (ch_coarse H)) (ch_coarse H) ->
  forall cs n, levels_wf cs (ch_coarse H) (ch_cparts H) n ->
  hier_ok (c_coarse (ch_trans H) (ch_coarse H)) (c_resid (ch_coarse H)) (mk_levels H cs) n.
Proof.
  intros Ht Hl. induction cs as [|c rest IH]; intros n Hw; simpl in *.
  - rewrite Ht. assert (E : length (ch_coarse H) = n) by apply Hw. rewrite E in Hl.
    apply concrete_coarse_ok; assumption.
  - destruct Hw as [Hc Hrest]. split; [apply Hc|]. split.
    + unfold Cycle.mk_level. assert (E : length (cl_A c) = n) by apply Hc. rewrite E.
      apply concrete_level_ok. exact Hc.
    + apply IH. exact Hrest.
Qed.

(* ---- the theorems on the model of the code ---- *)
Definition h_out (H : chier) ss x b : vec := fst (fst (h_cycle H ss x b)).      (* x after cycle() *)
Definition h_rhs (H : chier) ss x b : vec := snd (fst (h_cycle H ss x b)).      (* b after cycle() *)
Definition h_scr (H : chier) ss x b : list scratch := snd (h_cycle H ss x b).    (* scratch after cycle() *)
Definition scratch_ok (H : chier) (ss : list scratch) : Prop := scr_ok (mk_levels H (ch_levels H)) ss.
Definition h_solves (H : chier) (x b : vec) : Prop :=
  c_resid (match ch_levels H with [] => ch_coarse H | c :: _ => cl_A c end) x b =
  zeros (next_n (ch_levels H) (ch_coarse H)).

Lemma poison_scratch_ok (H : chier) p : forall cs,
  scr_ok (mk_levels H cs) (poison_scratch F p cs (ch_coarse H)).
Proof.
  induction cs as [|c rest IH]; simpl; [exact I|].
  unfold len. rewrite !repeat_length. repeat split; try reflexivity. exact IH.
Qed.
Lemma fresh_scratch_ok (H : chier) : forall cs,
  scr_ok (mk_levels H cs) (fresh_scratch F zero cs (ch_coarse H)).
Proof.
  induction cs as [|c rest IH]; simpl; [exact I|].
  unfold len. rewrite !zeros_length. repeat split; try reflexivity. exact IH.
Qed.

Lemma model_hier_ok (H : chier) n : chier_wf H n ->
  hier_ok (c_coarse (ch_trans H) (ch_coarse H)) (c_resid (ch_coarse H)) (mk_levels H (ch_levels H)) n.
Proof. intros [Hw [Ht Hl]]. apply concrete_hier_ok; assumption. Qed.

Lemma model_history_free H n ss ss' x b :
  chier_wf H n -> scratch_ok H ss -> scratch_ok H ss' -> len n x -> len n b ->
  h_out H ss x b = h_out H ss' x b.
Proof. intros Hw Hs Hs' Hx Hb. exact (cycle_history_free _ _ _ n ss ss' x b (model_hier_ok H n Hw) Hs Hs' Hx Hb). Qed.
Lemma model_rhs_unchanged H n ss x b :
  chier_wf H n -> scratch_ok H ss -> len n x -> len n b -> h_rhs H ss x b = b.
Proof. intros Hw Hs Hx Hb. exact (cycle_rhs_unchanged _ _ _ n ss x b (model_hier_ok H n Hw) Hs Hx Hb). Qed.
Lemma model_scratch_ok H n ss x b :
  chier_wf H n -> scratch_ok H ss -> len n x -> len n b -> scratch_ok H (h_scr H ss x b).
Proof. intros Hw Hs Hx Hb. exact (cycle_scr_ok _ _ _ n ss x b (model_hier_ok H n Hw) Hs Hx Hb). Qed.
Lemma model_out_len H n ss x b :
  chier_wf H n -> scratch_ok H ss -> len n x -> len n b -> len n (h_out H ss x b).
Proof. intros Hw Hs Hx Hb. exact (cycle_len _ _ _ n ss x b (model_hier_ok H n Hw) Hs Hx Hb). Qed.
Lemma model_linear H n ss ss1 ss2 a c x1 x2 b1 b2 :
  chier_wf H n -> scratch_ok H ss -> scratch_ok H ss1 -> scratch_ok H ss2 ->
  len n x1 -> len n x2 -> len n b1 -> len n b2 ->
  h_out H ss (lc a x1 c x2) (lc a b1 c b2) = lc a (h_out H ss1 x1 b1) c (h_out H ss2 x2 b2).
Proof.
  intros Hw Hs Hs1 Hs2 Hx1 Hx2 Hb1 Hb2.
  exact (cycle_linear _ _ _ n ss ss1 ss2 a c x1 x2 b1 b2 (model_hier_ok H n Hw) Hs Hs1 Hs2 Hx1 Hx2 Hb1 Hb2).
Qed.
Lemma model_fixed_point H n ss x b :
  chier_wf H n -> scratch_ok H ss -> len n x -> len n b -> h_solves H x b -> h_out H ss x b = x.
Proof.
  intros Hw Hs Hx Hb Hr.
  refine (cycle_fixed_point _ _ _ n ss x b (model_hier_ok H n Hw) Hs Hx Hb _).
  unfold h_solves in Hr. destruct Hw as [Hw _]. rewrite (levels_wf_top _ _ _ _ Hw) in Hr.
  destruct (ch_levels H) as [|c rest]; exact Hr.
Qed.
Lemma model_histories H n ss0 ss calls :
  chier_wf H n -> scratch_ok H ss0 -> scratch_ok H ss ->
  Forall (fun xb => len n (fst xb) /\ len n (snd xb)) calls ->
  run_history zero (c_coarse (ch_trans H) (ch_coarse H)) (mk_levels H (ch_levels H)) ss calls =
  map (fun xb => h_out H ss0 (fst xb) (snd xb)) calls.
Proof. intros Hw Hs0 Hs Hf. exact (run_history_pure _ _ _ n ss0 (model_hier_ok H n Hw) Hs0 calls ss Hs Hf). Qed.
(* a hierarchy of a single level is an exact solve, for every nonsingular A *)
Lemma model_single_level H n ss x b :
  chier_wf H n -> ch_levels H = [] -> len n b ->
  mulmat (ch_coarse H) (h_out H ss x b) = b /\
  (forall y, len n y -> mulmat (ch_coarse H) y = b -> h_out H ss x b = y).
Proof.
  intros [Hw [Ht [Hns Hsol]]] Hl Hb. unfold h_out, Cycle.h_cycle. rewrite Hl in *. simpl in *.
  rewrite Ht, (c_coarse_T n) by exact Hw. rewrite (proj1 Hw) in *.
  destruct (Hsol b Hb) as [L1 S1]. split; [exact S1|].
  intros y Hy Sy. apply Hns; [exact L1|exact Hy|congruence].
Qed.

End Proofs.
