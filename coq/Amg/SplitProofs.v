(* Proofs about the sequential C/F splitting model (Amg/Split.v). *)
From Coq Require Import List Arith Lia Bool.
Import ListNotations.
From Raptor Require Import Amg.Split.

(* ---------- arrays ---------- *)
Lemma upd_length {A} (l : list A) i x : length (upd l i x) = length l.
Proof. revert i; induction l as [|h t IH]; intros [|i]; simpl; auto. Qed.

Lemma nth_upd {A} (l : list A) i j x d :
  nth j (upd l i x) d = if (i =? j) && (i <? length l) then x else nth j l d.
Proof.
  revert i j; induction l as [|h t IH]; intros i j.
  - assert (E : upd (@nil A) i x = []) by (destruct i; reflexivity). rewrite E.
    replace (i <? length (@nil A)) with false by (destruct i; reflexivity).
    rewrite andb_false_r. reflexivity.
  - destruct i as [|i]; destruct j as [|j]; simpl; try reflexivity.
    rewrite IH. reflexivity.
Qed.

Lemma nth_upd_same {A} (l : list A) i x d : i < length l -> nth i (upd l i x) d = x.
Proof. intros H. rewrite nth_upd, Nat.eqb_refl. apply Nat.ltb_lt in H. rewrite H. reflexivity. Qed.

Lemma nth_upd_other {A} (l : list A) i j x d : i <> j -> nth j (upd l i x) d = nth j l d.
Proof. intros H. rewrite nth_upd. apply Nat.eqb_neq in H. rewrite H. reflexivity. Qed.

Lemma upd_out {A} (l : list A) i x : length l <= i -> upd l i x = l.
Proof. revert i; induction l as [|h t IH]; intros [|i] H; simpl in *; auto; try lia. f_equal. apply IH. lia. Qed.

Lemma label_eqb_eq a b : label_eqb a b = true <-> a = b.
Proof. destruct a, b; simpl; split; intros H; try reflexivity; try discriminate. Qed.
Lemma label_eqb_refl a : label_eqb a a = true.
Proof. destruct a; reflexivity. Qed.
Lemma label_eqb_neq a b : label_eqb a b = false <-> a <> b.
Proof. destruct a, b; simpl; split; intros H; try reflexivity; try discriminate; try congruence. Qed.

Lemma indexed_length {A} (l : list A) : length (indexed l) = length l.
Proof. unfold indexed. rewrite combine_length, seq_length. lia. Qed.

Lemma In_indexed {A} (l : list A) i x d :
  In (i, x) (indexed l) <-> i < length l /\ nth i l d = x.
Proof.
  unfold indexed.
  assert (G : forall s, In (i, x) (combine (seq s (length l)) l) <-> s <= i < s + length l /\ nth (i - s) l d = x).
  { induction l as [|h t IH]; intros s.
    - simpl. split; [tauto|lia].
    - cbn [length seq combine In]. rewrite IH. split.
      + intros [E|[H1 H2]].
        * inversion E; subst. rewrite Nat.sub_diag. split; [lia|reflexivity].
        * split; [lia|]. replace (i - s) with (S (i - S s)) by lia. exact H2.
      + intros [H1 H2]. destruct (Nat.eq_dec s i) as [E|E].
        * subst s. rewrite Nat.sub_diag in H2. left. simpl in H2. congruence.
        * right. split; [lia|]. replace (i - s) with (S (i - S s)) in H2 by lia. exact H2. }
  rewrite G. rewrite Nat.sub_0_r. split; intros [H1 H2]; split; auto; lia.
Qed.

Lemma nth_indexed {A} (l : list A) i d : i < length l -> nth i (indexed l) (0, d) = (i, nth i l d).
Proof.
  intros H. unfold indexed. rewrite combine_nth by (rewrite seq_length; reflexivity).
  rewrite seq_nth by exact H. reflexivity.
Qed.

Lemma fold_left_inv {A B} (P : A -> Prop) (f : A -> B -> A) l a :
  P a -> (forall a x, In x l -> P a -> P (f a x)) -> P (fold_left f l a).
Proof.
  revert a; induction l as [|x l IH]; intros a Ha Hs; simpl; auto.
  apply IH. { apply Hs; [left; reflexivity|exact Ha]. }
  intros a' y Hy. apply Hs. right; exact Hy.
Qed.

(* ---------- rows ---------- *)
Lemma full_rows_length S : length (full_rows S) = length S.
Proof. unfold full_rows. rewrite map_length, indexed_length. reflexivity. Qed.
Lemma off_rows_length S : length (off_rows S) = length S.
Proof. unfold off_rows. rewrite map_length, indexed_length. reflexivity. Qed.

Lemma nth_map_indexed {A B} (f : nat * A -> B) (l : list A) i d d' :
  i < length l -> nth i (map f (indexed l)) d = f (i, nth i l d').
Proof.
  intros H. rewrite (nth_indep _ d (f (0, d'))) by (rewrite map_length, indexed_length; exact H).
  rewrite (map_nth f). rewrite nth_indexed by exact H. reflexivity.
Qed.

Lemma nth_off_rows S i : i < length S ->
  nth i (off_rows S) [] = offd i (move_diag_row i (nth i S [])).
Proof. intros H. unfold off_rows. rewrite (nth_map_indexed _ S i [] []) by exact H. reflexivity. Qed.
Lemma nth_full_rows S i : i < length S ->
  nth i (full_rows S) [] = move_diag_row i (nth i S []).
Proof. intros H. unfold full_rows. rewrite (nth_map_indexed _ S i [] []) by exact H. reflexivity. Qed.

(* ---------- counting sort ---------- *)
Lemma app_at_length acc k v : length (app_at acc k v) = length acc.
Proof. unfold app_at. apply upd_length. Qed.

Lemma group_fold_length pairs acc :
  length (fold_left (fun acc p => app_at acc (fst p) (snd p)) pairs acc) = length acc.
Proof. revert acc; induction pairs as [|p l IH]; intros acc; simpl; auto. rewrite IH. apply app_at_length. Qed.

Lemma group_fold_nth pairs acc k : k < length acc ->
  nth k (fold_left (fun acc p => app_at acc (fst p) (snd p)) pairs acc) [] =
  nth k acc [] ++ map snd (filter (fun p => fst p =? k) pairs).
Proof.
  revert acc; induction pairs as [|p l IH]; intros acc Hk; simpl.
  - rewrite app_nil_r. reflexivity.
  - rewrite IH by (rewrite app_at_length; exact Hk).
    unfold app_at. rewrite nth_upd.
    destruct (fst p =? k) eqn:E.
    + apply Nat.eqb_eq in E. subst k. apply Nat.ltb_lt in Hk. rewrite Hk. simpl. rewrite <- app_assoc. reflexivity.
    + simpl. reflexivity.
Qed.

Lemma group_by_length m pairs : length (group_by m pairs) = m.
Proof. unfold group_by. rewrite group_fold_length. apply repeat_length. Qed.

Lemma group_by_nth m pairs k : k < m ->
  nth k (group_by m pairs) [] = map snd (filter (fun p => fst p =? k) pairs).
Proof.
  intros H. unfold group_by. rewrite group_fold_nth by (rewrite repeat_length; exact H).
  replace (nth k (repeat [] m) []) with (@nil nat); [reflexivity|].
  symmetry. apply nth_repeat.
Qed.

Lemma In_row_pairs R c i : In (c, i) (row_pairs R) <-> i < length R /\ In c (nth i R []).
Proof.
  unfold row_pairs. rewrite in_flat_map. split.
  - intros [[j r] [H1 H2]]. simpl in H2. apply in_map_iff in H2. destruct H2 as [c' [E Hc]].
    inversion E; subst. apply (In_indexed R i r []) in H1. destruct H1 as [H1 H3]. subst r. split; assumption.
  - intros [H1 H2]. exists (i, nth i R []). split.
    + apply (In_indexed R i _ []). split; [exact H1|reflexivity].
    + simpl. apply in_map_iff. exists c. split; [reflexivity|exact H2].
Qed.

Lemma col_lists_length R : length (col_lists R) = length R.
Proof. unfold col_lists. apply group_by_length. Qed.

Lemma In_col_lists R c i : In i (nth c (col_lists R) []) <-> c < length R /\ i < length R /\ In c (nth i R []).
Proof.
  destruct (Nat.lt_ge_cases c (length R)) as [Hc|Hc].
  - unfold col_lists. rewrite group_by_nth by exact Hc. rewrite in_map_iff. split.
    + intros [[c' i'] [E H]]. simpl in E. subst i'. apply filter_In in H. destruct H as [H1 H2]. simpl in H2.
      apply Nat.eqb_eq in H2. subst c'. apply In_row_pairs in H1. tauto.
    + intros [_ [H1 H2]]. exists (c, i). split; [reflexivity|]. apply filter_In. split.
      * apply In_row_pairs. tauto.
      * simpl. apply Nat.eqb_refl.
  - rewrite nth_overflow by (rewrite col_lists_length; exact Hc). simpl. split; [tauto|lia].
Qed.

(* ---------- the checker is sound ---------- *)
Lemma total_okb_sound R st : total_okb R st = true ->
  length st = length R /\
  forall v, v < length R ->
    nth v st LU = LC \/ nth v st LU = LF \/ (nth v st LU = LN /\ nth v R [] = []).
Proof.
  unfold total_okb. rewrite andb_true_iff, Nat.eqb_eq, forallb_forall. intros [HL H]. split; [exact HL|].
  intros v Hv. specialize (H (v, nth v R [])).
  assert (Hin : In (v, nth v R []) (indexed R)) by (apply (In_indexed R v _ []); split; [exact Hv|reflexivity]).
  specialize (H Hin). simpl in H. destruct (nth v st LU); try discriminate; auto.
  right; right. split; [reflexivity|]. destruct (nth v R []); [reflexivity|discriminate].
Qed.

Lemma f_has_c_okb_sound R st : f_has_c_okb R st = true ->
  forall v, v < length R -> nth v st LU = LF -> nth v R [] <> [] ->
    exists c, In c (nth v R []) /\ nth c st LU = LC.
Proof.
  unfold f_has_c_okb. rewrite forallb_forall. intros H v Hv HF Hne.
  specialize (H (v, nth v R [])).
  assert (Hin : In (v, nth v R []) (indexed R)) by (apply (In_indexed R v _ []); split; [exact Hv|reflexivity]).
  specialize (H Hin). cbn [fst snd] in H. rewrite HF in H.
  destruct (nth v R []) as [|a r] eqn:E; [congruence|]. cbv beta iota in H.
  apply existsb_exists in H. destruct H as [c [H1 H2]]. exists c. split; [exact H1|].
  apply label_eqb_eq. exact H2.
Qed.

Lemma has_dep_edge_complete R :
  (exists u t, In t (nth u R []) /\ nth t R [] <> []) -> has_dep_edge R = true.
Proof.
  intros [u [t [H1 H2]]]. unfold has_dep_edge. apply existsb_exists.
  exists (nth u R []). split.
  - apply nth_In. destruct (Nat.lt_ge_cases u (length R)) as [H|H]; [exact H|].
    rewrite nth_overflow in H1 by exact H. destruct H1.
  - apply existsb_exists. exists t. split; [exact H1|]. destruct (nth t R []); [congruence|reflexivity].
Qed.

Lemma c_and_f_okb_sound R st : c_and_f_okb R st = true ->
  (exists u t, In t (nth u R []) /\ nth t R [] <> []) ->
  (exists c, c < length st /\ nth c st LU = LC) /\ (exists f, f < length st /\ nth f st LU = LF).
Proof.
  unfold c_and_f_okb. intros H He. apply has_dep_edge_complete in He. rewrite He in H. simpl in H.
  apply andb_true_iff in H. destruct H as [H1 H2].
  apply existsb_exists in H1. apply existsb_exists in H2.
  destruct H1 as [l1 [I1 E1]]. destruct H2 as [l2 [I2 E2]].
  apply label_eqb_eq in E1. apply label_eqb_eq in E2. subst.
  apply (In_nth _ _ LU) in I1. apply (In_nth _ _ LU) in I2.
  destruct I1 as [c [Hc1 Hc2]]. destruct I2 as [f [Hf1 Hf2]]. split; [exists c|exists f]; auto.
Qed.

Theorem split_ok_sound rs S st : split_ok rs S st = true ->
  let R := off_rows S in
  length st = length S /\
  (forall v, v < length S ->
     nth v st LU = LC \/ nth v st LU = LF \/ (nth v st LU = LN /\ nth v R [] = [])) /\
  (rs = true ->
     (forall v, v < length S -> nth v st LU = LF -> nth v R [] <> [] ->
        exists c, In c (nth v R []) /\ nth c st LU = LC) /\
     ((exists u t, In t (nth u R []) /\ nth t R [] <> []) ->
        (exists c, c < length S /\ nth c st LU = LC) /\ (exists f, f < length S /\ nth f st LU = LF))).
Proof.
  unfold split_ok. intros H. cbv zeta in *. set (R := off_rows S) in *.
  apply andb_true_iff in H. destruct H as [HT HR].
  apply total_okb_sound in HT. destruct HT as [HL HT]. unfold R in HL. rewrite off_rows_length in HL.
  split; [exact HL|]. split.
  - intros v Hv. apply HT. unfold R. rewrite off_rows_length. exact Hv.
  - intros Hrs. subst rs. simpl in HR. apply andb_true_iff in HR. destruct HR as [H1 H2]. split.
    + intros v Hv. apply (f_has_c_okb_sound _ _ H1). unfold R. rewrite off_rows_length. exact Hv.
    + intros He. rewrite <- HL. apply (c_and_f_okb_sound _ _ H2 He).
Qed.

(* ---------- Ruge-Stuben: every fine point has a strong coarse neighbour ---------- *)
Section RSInv.
Variable R : list (list nat).
Variable init : list label.

(* a point is fine only if it was fine on entry or it depends on a coarse point *)
Definition fhc (st : list label) : Prop :=
  forall v, nth v st LU = LF -> nth v init LU = LF \/ exists c, In c (nth v R []) /\ nth c st LU = LC.

Lemma fhc_upd_C st col : fhc st -> fhc (upd st col LC).
Proof.
  intros H v Hv. rewrite nth_upd in Hv.
  destruct ((col =? v) && (col <? length st)) eqn:E; [discriminate|].
  destruct (H v Hv) as [Hi|[c [Hc1 Hc2]]]; [left; exact Hi|right].
  exists c. split; [exact Hc1|]. rewrite nth_upd.
  destruct ((col =? c) && (col <? length st)); [reflexivity|exact Hc2].
Qed.

Lemma fhc_set_F st idx col :
  fhc st -> nth idx st LU = LU -> In col (nth idx R []) -> nth col st LU = LC -> fhc (upd st idx LF).
Proof.
  intros H HU Hin HC v Hv.
  assert (Hne : forall c, nth c st LU = LC -> nth c (upd st idx LF) LU = LC).
  { intros c Hc. rewrite nth_upd. destruct (idx =? c) eqn:E; simpl; [|exact Hc].
    apply Nat.eqb_eq in E. subst c. congruence. }
  rewrite nth_upd in Hv. destruct ((idx =? v) && (idx <? length st)) eqn:E.
  - apply andb_true_iff in E. destruct E as [E _]. apply Nat.eqb_eq in E. subst v.
    right. exists col. split; [exact Hin|apply Hne; exact HC].
  - destruct (H v Hv) as [Hi|[c [Hc1 Hc2]]]; [left; exact Hi|right].
    exists c. split; [exact Hc1|apply Hne; exact Hc2].
Qed.

Lemma fp_inc_rst n s k : rst (fp_inc n s k) = rst s.
Proof. unfold fp_inc. destruct (n - 1 <=? nth k (rw s) 0); reflexivity. Qed.
Lemma fp_dec_rst s k : rst (fp_dec s k) = rst s.
Proof. unfold fp_dec. destruct (nth k (rw s) 0 =? 0); reflexivity. Qed.

Lemma fp_mark_dep_rst n s idx :
  rst (fp_mark_dep n R s idx) = if label_eqb (nth idx (rst s) LU) LU then upd (rst s) idx LF else rst s.
Proof.
  unfold fp_mark_dep. destruct (label_eqb (nth idx (rst s) LU) LU); [|reflexivity].
  apply (fold_left_inv (fun s' => rst s' = upd (rst s) idx LF)).
  - reflexivity.
  - intros a x _ Ha. destruct (label_eqb (nth x (rst a) LU) LU); [rewrite fp_inc_rst|]; exact Ha.
Qed.

Lemma fold_dec_rst l s :
  rst (fold_left (fun s idx => if label_eqb (nth idx (rst s) LU) LU then fp_dec s idx else s) l s) = rst s.
Proof.
  apply (fold_left_inv (fun s' => rst s' = rst s)); [reflexivity|].
  intros a x _ Ha. destruct (label_eqb (nth x (rst a) LU) LU); [rewrite fp_dec_rst|]; exact Ha.
Qed.

Lemma fold_mark_fhc n m l s col :
  (forall idx, In idx l -> In col (nth idx R [])) ->
  length (rst s) = m -> fhc (rst s) -> nth col (rst s) LU = LC ->
  let s' := fold_left (fp_mark_dep n R) l s in
  length (rst s') = m /\ fhc (rst s') /\ nth col (rst s') LU = LC.
Proof.
  intros Hl HL H HC.
  apply (fold_left_inv (fun s' => length (rst s') = m /\ fhc (rst s') /\ nth col (rst s') LU = LC)).
  - auto.
  - intros a x Hx [Ha1 [Ha2 Ha3]]. rewrite fp_mark_dep_rst.
    destruct (label_eqb (nth x (rst a) LU) LU) eqn:E; [|auto].
    apply label_eqb_eq in E. split; [rewrite upd_length; exact Ha1|]. split.
    + apply (fhc_set_F _ _ col); auto.
    + rewrite nth_upd_other; [exact Ha3|]. intros ->. congruence.
Qed.

Variable CL : list (list nat).
Hypothesis HCL : forall c i, In i (nth c CL []) -> c < length R /\ In c (nth i R []).

Lemma fp_step_fhc n s i :
  length (rst s) = length R -> fhc (rst s) ->
  length (rst (fp_step n R CL s i)) = length R /\ fhc (rst (fp_step n R CL s i)).
Proof.
  intros HL H. unfold fp_step. cbn [rst rw rptr rsz ri2c rc2i].
  set (col := nth i (ri2c s) 0).
  destruct (label_eqb (nth col (rst s) LU) LU) eqn:E; [|auto].
  rewrite fold_dec_rst.
  match goal with |- context [fold_left (fp_mark_dep n R) _ ?s0] => set (s1 := s0) end.
  assert (H1 : rst s1 = upd (rst s) col LC) by reflexivity.
  destruct (Nat.lt_ge_cases col (length (rst s))) as [Hc|Hc].
  - destruct (fold_mark_fhc n (length R) (nth col CL []) s1 col) as [A [B _]].
    + intros idx Hi. apply HCL. exact Hi.
    + rewrite H1, upd_length. exact HL.
    + rewrite H1. apply fhc_upd_C. exact H.
    + rewrite H1. apply nth_upd_same. exact Hc.
    + split; assumption.
  - destruct (nth col CL []) as [|x l] eqn:EC.
    + cbn [fold_left]. rewrite H1, upd_length. split; [exact HL|apply fhc_upd_C; exact H].
    + exfalso. destruct (HCL col x) as [Hlt _]; [rewrite EC; left; reflexivity|]. lia.
Qed.

Lemma rs_first_pass_fhc n w st :
  length st = length R -> fhc st ->
  length (rst (rs_first_pass n R CL w st)) = length R /\ fhc (rst (rs_first_pass n R CL w st)).
Proof.
  intros HL H. unfold rs_first_pass.
  apply (fold_left_inv (fun s => length (rst s) = length R /\ fhc (rst s))).
  - unfold rs_init. cbn [rst]. auto.
  - intros a x _ [A B]. apply fp_step_fhc; assumption.
Qed.

(* second pass: only fine -> coarse *)
Lemma sp_check_fhc FR i p col : fhc (snd p) -> fhc (snd (sp_check FR i p col)).
Proof.
  destruct p as [rc st]. unfold sp_check. cbn [snd]. intros H.
  destruct (label_eqb (nth col st LU) LF); [|exact H].
  destruct (nth col FR []); [exact H|].
  destruct (existsb _ _); [exact H|]. cbn [snd]. apply fhc_upd_C. exact H.
Qed.

Lemma sp_row_fhc FR p i : fhc (snd p) -> fhc (snd (sp_row FR p i)).
Proof.
  destruct p as [rc st]. unfold sp_row. intros H.
  destruct (label_eqb (nth i st LU) LC); [exact H|].
  apply (fold_left_inv (fun p => fhc (snd p))); [exact H|].
  intros a x _ Ha. apply sp_check_fhc. exact Ha.
Qed.

Lemma rs_second_pass_fhc FR st : fhc st -> fhc (rs_second_pass FR st).
Proof.
  intros H. unfold rs_second_pass.
  apply (fold_left_inv (fun p => fhc (snd p))); [exact H|].
  intros a x _ Ha. apply sp_row_fhc. exact Ha.
Qed.
End RSInv.

Theorem rs_fine_has_coarse S init second v :
  (match init with Some st0 => length st0 = length S | None => True end) ->
  let st := split_rs_gen S init second in
  nth v st LU = LF ->
  (match init with Some st0 => nth v st0 LU = LF | None => False end) \/
  exists c, In c (nth v (off_rows S) []) /\ nth c st LU = LC.
Proof.
  intros Hlen st Hv.
  set (R := off_rows S). set (st0 := match init with Some s => s | None => repeat LU (length S) end).
  assert (HL0 : length st0 = length R).
  { unfold R. rewrite off_rows_length. unfold st0. destruct init; [exact Hlen|apply repeat_length]. }
  assert (H0 : fhc R st0 st0) by (intros u Hu; left; exact Hu).
  assert (HCL : forall c i, In i (nth c (col_lists R) []) -> c < length R /\ In c (nth i R [])).
  { intros c i Hi. apply In_col_lists in Hi. tauto. }
  destruct (rs_first_pass_fhc R st0 (col_lists R) HCL (length S) (map (@length nat) (col_lists R)) st0 HL0 H0) as [_ H1].
  assert (H2 : fhc R st0 st).
  { unfold st, split_rs_gen. fold R. fold st0. destruct second; [apply rs_second_pass_fhc|]; exact H1. }
  destruct (H2 v Hv) as [Hi|Hc]; [|right; exact Hc].
  left. unfold st0 in Hi. destruct init; [exact Hi|].
  rewrite nth_repeat in Hi. discriminate.
Qed.
