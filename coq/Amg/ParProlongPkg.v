(* One distributed smoothing step of par_prolongation.cpp, P <- P - (scaled_A)->mult(P), with the product computed
   THROUGH A COMMUNICATION PACKAGE (Dist/ParSpgemm.v par_mult fed by Dist/ParSpgemmPkg.v fetch_pkg) instead of being
   handed the global rows of P (the simplification of Amg/Prolong.v par_jacobi_step).  For every package accepted by
   the id check of C03 (fwd_ok) the represented operator is the sequential step's, up to the drops of the two
   accumulators and of remove_duplicates; on data where no partial sum is small but non-zero it is exactly
   P - sA P. *)
From Raptor Require Import Base.Sums Sparse.Defs Sparse.ConvertProofs Sparse.SortProofs Sparse.Spgemm Sparse.SpgemmProofs.
From Raptor Require Import Dist.Comm Dist.ParSpgemm Dist.ParSpgemmProofs Dist.ParSpgemmPkg Dist.ParConvProofs.
From Raptor Require Import Amg.ProlongProofs.
From Coq Require Import Lia.

Section ParProlongPkg.
Variable F : Type.
Variables (zero one : F) (add mul sub : F -> F -> F) (opp : F -> F).
Variable Fth : ring_theory zero one add mul sub opp (@eq F).
Variable smallm : F -> bool.     (* |v| <= zero_tol : the SpGEMM accumulators *)
Variable small : F -> bool.      (* |v| <  zero_tol : remove_duplicates *)

Notation sumF := (sumf F zero add).
Notation denCsr := (den_csr F zero add).
Notation dropM := (dropm F zero smallm).
Notation dropD := (drop F zero small).

(* sA: n x n, rows and columns partitioned by pa;  P: n x nc, rows by pa, columns by pc *)
Definition par_smooth_step_pkg (w : world) (ids colmaps : list (list nat)) (sA P : csr F) (pa pc : list nat) : csr F :=
  csr_subtract F add opp small P
    (par_mult F zero add mul smallm small (fetch_pkg F w ids colmaps P pa pc) sA P pa pa pc).

Lemma par_mult_rows_length fetch (A B : csr F) pa pk pc :
  length (csr_rows (par_mult F zero add mul smallm small fetch A B pa pk pc)) = csr_nr A.
Proof. unfold par_mult. cbn [csr_rows]. rewrite map_length, seq_length. reflexivity. Qed.

Theorem par_smooth_step_pkg_den (w : world) (ids colmaps : list (list nat)) (big : nat)
        (sA P : csr F) (pa pc : list nat) i j :
  csr_wf sA -> csr_wf P -> csr_nc sA = csr_nr P -> csr_nr sA = csr_nr P -> psum pa = csr_nr sA ->
  fwd_ok w ids colmaps big = true -> length (csr_rows P) <= big ->
  (forall r k, needs F sA pa pa r k = true -> r < length w /\ In k (nth r colmaps [])) ->
  i < csr_nr sA ->
  denCsr (par_smooth_step_pkg w ids colmaps sA P pa pc) i j =
  dropD (sub (denCsr P i j)
     (dropD (add
       (dropM (sumF (map (fun k => if inblk pa (owner pa i) k then mul (denCsr sA i k) (denCsr P k j) else zero)
                         (seq 0 (csr_nc sA)))))
       (dropM (sumF (map (fun k => if negb (inblk pa (owner pa i) k) then mul (denCsr sA i k) (denCsr P k j) else zero)
                         (seq 0 (csr_nc sA)))))))).
Proof.
  intros HA HP Hc Hn Hp Hok Hbig Hneed Hi. unfold par_smooth_step_pkg.
  rewrite (den_csr_subtract F zero one add mul sub opp Fth small).
  2:{ rewrite par_mult_rows_length. destruct HP as [HP _]. rewrite HP, Hn. lia. }
  f_equal. f_equal.
  apply (den_par_mult F zero one add mul sub opp Fth); try assumption.
  intros r k Hnk. destruct (Hneed r k Hnk) as [Hr Hk].
  apply (fetch_pkg_delivers F w ids colmaps big P pa pc r k Hok Hbig Hr Hk).
Qed.

(* exact data (integers, or any class closed under + and * on which "small" means zero): one step of I - sA *)
Theorem par_smooth_step_pkg_exact (isint : F -> Prop) (w : world) (ids colmaps : list (list nat)) (big : nat)
        (sA P : csr F) (pa pc : list nat) i j :
  isint zero -> (forall x y, isint x -> isint y -> isint (add x y)) ->
  (forall x y, isint x -> isint y -> isint (mul x y)) -> (forall x, isint x -> isint (opp x)) ->
  (forall x, isint x -> smallm x = true -> x = zero) -> (forall x, isint x -> small x = true -> x = zero) ->
  csr_wf sA -> csr_wf P -> csr_nc sA = csr_nr P -> csr_nr sA = csr_nr P -> psum pa = csr_nr sA ->
  fwd_ok w ids colmaps big = true -> length (csr_rows P) <= big ->
  (forall r k, needs F sA pa pa r k = true -> r < length w /\ In k (nth r colmaps [])) ->
  (forall i k, isint (denCsr sA i k)) -> (forall k j, isint (denCsr P k j)) -> i < csr_nr sA ->
  denCsr (par_smooth_step_pkg w ids colmaps sA P pa pc) i j =
  sub (denCsr P i j) (sumF (map (fun k => mul (denCsr sA i k) (denCsr P k j)) (seq 0 (csr_nc sA)))).
Proof.
  intros I0 Ia Im Io Is1 Is2 HA HP Hc Hn Hp Hok Hbig Hneed IA IP Hi. unfold par_smooth_step_pkg.
  rewrite (den_csr_subtract F zero one add mul sub opp Fth small).
  2:{ rewrite par_mult_rows_length. destruct HP as [HP _]. rewrite HP, Hn. lia. }
  assert (E : denCsr (par_mult F zero add mul smallm small (fetch_pkg F w ids colmaps P pa pc) sA P pa pa pc) i j =
              prod_entry F zero add mul sA P i j).
  { apply (par_mult_exact_on_integers F zero one add mul sub opp Fth smallm small isint); try assumption.
    intros r k Hnk. destruct (Hneed r k Hnk) as [Hr Hk].
    apply (fetch_pkg_delivers F w ids colmaps big P pa pc r k Hok Hbig Hr Hk). }
  rewrite E. unfold prod_entry.
  set (s := sumF _).
  assert (Isum : isint s).
  { unfold s. clear -I0 Ia Im IA IP. induction (seq 0 (csr_nc sA)) as [|k l IH]; simpl; [exact I0|].
    apply Ia; [apply Im; [apply IA|apply IP]|exact IH]. }
  assert (Isub : isint (sub (denCsr P i j) s)).
  { rewrite (Rsub_def Fth). apply Ia; [apply IP|apply Io; exact Isum]. }
  unfold drop. destruct (small (sub (denCsr P i j) s)) eqn:E2; [symmetry; apply Is2; assumption|reflexivity].
Qed.

(* ---------- k steps: the loop of par_prolongation.cpp, every product through the package ---------- *)
Fixpoint par_smooth_iter_pkg (w : world) (ids colmaps : list (list nat)) (k : nat) (sA P : csr F) (pa pc : list nat)
  : csr F :=
  match k with
  | O => P
  | S k' => par_smooth_iter_pkg w ids colmaps k' sA (par_smooth_step_pkg w ids colmaps sA P pa pc) pa pc
  end.

Lemma zip_rows_In (ra rb : list (list (nat * F))) r :
  In r (zip_rows F ra rb) -> exists a b, r = a ++ b /\ In a ra /\ (In b rb \/ b = []).
Proof.
  revert rb; induction ra as [|a ra IH]; intros rb H; [destruct H|].
  destruct rb as [|b rb]; simpl in H; destruct H as [<-|H].
  - exists a, []. rewrite app_nil_r. split; [reflexivity|split; [left; reflexivity|right; reflexivity]].
  - destruct (IH [] H) as [a' [b' [E [Ha Hb]]]]. exists a', b'. split; [exact E|split; [right; exact Ha|]].
    destruct Hb as [[]|Hb]. right; exact Hb.
  - exists a, b. split; [reflexivity|split; [left; reflexivity|left; left; reflexivity]].
  - destruct (IH rb H) as [a' [b' [E [Ha Hb]]]]. exists a', b'. split; [exact E|split; [right; exact Ha|]].
    destruct Hb as [Hb|Hb]; [left; right; exact Hb|right; exact Hb].
Qed.

Lemma csr_subtract_wf (A B : csr F) : csr_wf A -> csr_wf B -> csr_nc B = csr_nc A ->
  csr_wf (csr_subtract F add opp small A B).
Proof.
  intros [HA1 HA2] [HB1 HB2] Hc. split.
  - unfold csr_subtract, csr_remove_duplicates. cbn [csr_rows csr_nr]. rewrite map_length, zip_rows_length. exact HA1.
  - unfold csr_subtract, csr_remove_duplicates. cbn [csr_rows csr_nc]. intros r Hr p Hp.
    apply in_map_iff in Hr. destruct Hr as [r0 [<- Hr0]].
    apply (dedup_row_sub F zero) in Hp. apply in_map_iff in Hp. destruct Hp as [q [Eq Hq]]. rewrite <- Eq.
    apply zip_rows_In in Hr0. destruct Hr0 as [a [b [-> [Ha Hb]]]].
    apply in_app_or in Hq. destruct Hq as [Hq|Hq]; [exact (HA2 a Ha q Hq)|].
    destruct Hb as [Hb|Hb]; [|subst b; destruct Hq].
    apply in_map_iff in Hb. destruct Hb as [b0 [<- Hb0]].
    unfold neg_line in Hq. apply in_map_iff in Hq. destruct Hq as [q0 [<- Hq0]]. cbn [fst].
    rewrite <- Hc. exact (HB2 b0 Hb0 q0 Hq0).
Qed.

Lemma smooth_exact_ext_lt n sa k : forall t t',
  (forall i j, i < n -> t i j = t' i j) ->
  forall i j, i < n -> smooth_exact F zero add mul sub n sa t k i j = smooth_exact F zero add mul sub n sa t' k i j.
Proof.
  induction k as [|k IH]; intros t t' H i j Hi; cbn [smooth_exact]; [apply H; exact Hi|].
  apply IH; [|exact Hi]. intros i' j' Hi'. rewrite (H i' j' Hi'). f_equal.
  apply sumf_map_ext. intros l Hl. apply in_seq in Hl. rewrite H by lia. reflexivity.
Qed.

Lemma den_csr_overflow (M : csr F) i j : length (csr_rows M) <= i -> denCsr M i j = zero.
Proof. intros H. unfold den_csr. rewrite nth_overflow by exact H. reflexivity. Qed.

Section Exact.
Variable isint : F -> Prop.
Hypothesis I0 : isint zero.
Hypothesis Ia : forall x y, isint x -> isint y -> isint (add x y).
Hypothesis Im : forall x y, isint x -> isint y -> isint (mul x y).
Hypothesis Io : forall x, isint x -> isint (opp x).
Hypothesis Is1 : forall x, isint x -> smallm x = true -> x = zero.
Hypothesis Is2 : forall x, isint x -> small x = true -> x = zero.
Variables (w : world) (ids colmaps : list (list nat)) (big : nat) (sA : csr F) (pa pc : list nat).
Hypothesis HA : csr_wf sA.
Hypothesis Hsq : csr_nc sA = csr_nr sA.
Hypothesis Hp : psum pa = csr_nr sA.
Hypothesis Hok : fwd_ok w ids colmaps big = true.
Hypothesis Hbig : csr_nr sA <= big.
Hypothesis Hneed : forall r k, needs F sA pa pa r k = true -> r < length w /\ In k (nth r colmaps []).
Hypothesis IA : forall i k, isint (denCsr sA i k).

Definition P_ok (P : csr F) : Prop :=
  csr_wf P /\ csr_nr P = csr_nr sA /\ (forall k j, isint (denCsr P k j)).

Lemma step_den P i j : P_ok P -> i < csr_nr sA ->
  denCsr (par_smooth_step_pkg w ids colmaps sA P pa pc) i j =
  sub (denCsr P i j) (sumF (map (fun k => mul (denCsr sA i k) (denCsr P k j)) (seq 0 (csr_nr sA)))).
Proof.
  intros [HP [Hn IP]] Hi. rewrite <- Hsq.
  apply (par_smooth_step_pkg_exact isint w ids colmaps big sA P pa pc i j); try assumption.
  - rewrite Hsq, Hn. reflexivity.
  - symmetry; exact Hn.
  - destruct HP as [HP _]. rewrite HP, Hn. exact Hbig.
Qed.

Lemma step_ok P : P_ok P -> P_ok (par_smooth_step_pkg w ids colmaps sA P pa pc).
Proof.
  intros HPok. pose proof HPok as [HP [Hn IP]]. split; [|split].
  - unfold par_smooth_step_pkg. apply csr_subtract_wf; [exact HP| |reflexivity].
    apply (par_mult_wf F zero one add mul sub opp Fth); try assumption;
      try (rewrite Hsq, Hn; reflexivity).
    intros r k0 Hnk. destruct (Hneed r k0 Hnk) as [Hr Hk0].
    apply (fetch_pkg_delivers F w ids colmaps big P pa pc r k0 Hok); [|exact Hr|exact Hk0].
    destruct HP as [HP1 _]. rewrite HP1, Hn. exact Hbig.
  - exact Hn.
  - intros k j. destruct (Nat.lt_ge_cases k (csr_nr sA)) as [Hk|Hk].
    + rewrite step_den by assumption. rewrite (Rsub_def Fth). apply Ia; [apply IP|apply Io].
      induction (seq 0 (csr_nr sA)) as [|l ls IH]; simpl; [exact I0|]. apply Ia; [apply Im; [apply IA|apply IP]|exact IH].
    + rewrite den_csr_overflow; [exact I0|].
      unfold par_smooth_step_pkg, csr_subtract, csr_remove_duplicates. cbn [csr_rows].
      rewrite map_length, zip_rows_length. destruct HP as [HP _]. rewrite HP, Hn. exact Hk.
Qed.

(* every package accepted by the id check, every partition, every k: the gathered result is (I - sA)^k P *)
Theorem par_smooth_iter_pkg_exact k : forall P, P_ok P -> forall i j, i < csr_nr sA ->
  denCsr (par_smooth_iter_pkg w ids colmaps k sA P pa pc) i j =
  smooth_exact F zero add mul sub (csr_nr sA) (denCsr sA) (denCsr P) k i j.
Proof.
  induction k as [|k IH]; intros P HP i j Hi; cbn [par_smooth_iter_pkg smooth_exact]; [reflexivity|].
  rewrite IH by (try apply step_ok; assumption).
  apply smooth_exact_ext_lt; [|exact Hi]. intros i' j' Hi'. apply step_den; assumption.
Qed.
End Exact.

(* on an exact class the "no underflow" hypothesis of the sequential statement (ProlongProofs.no_underflow) holds *)
Lemma no_underflow_exact (isint : F -> Prop) n sa k :
  isint zero -> (forall x y, isint x -> isint y -> isint (add x y)) ->
  (forall x y, isint x -> isint y -> isint (mul x y)) -> (forall x, isint x -> isint (opp x)) ->
  (forall x, isint x -> smallm x = true -> x = zero) -> (forall x, isint x -> small x = true -> x = zero) ->
  (forall i l, isint (sa i l)) ->
  forall t, (forall i j, isint (t i j)) -> no_underflow F zero add mul sub small smallm n sa t k.
Proof.
  intros I0 Ia Im Io Is1 Is2 Isa. induction k as [|k IH]; intros t It; cbn [no_underflow]; [exact I|].
  assert (Isum : forall i j, isint (sumF (map (fun l => mul (sa i l) (t l j)) (seq 0 n)))).
  { intros i j. induction (seq 0 n) as [|l ls IHl]; simpl; [exact I0|]. apply Ia; [apply Im; [apply Isa|apply It]|exact IHl]. }
  assert (Isub : forall i j, isint (sub (t i j) (sumF (map (fun l => mul (sa i l) (t l j)) (seq 0 n))))).
  { intros i j. rewrite (Rsub_def Fth). apply Ia; [apply It|apply Io, Isum]. }
  split.
  - intros i j. cbv zeta. split; [apply Is1, Isum|apply Is2, Isub].
  - apply IH. exact Isub.
Qed.

End ParProlongPkg.
