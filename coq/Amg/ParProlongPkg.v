(* One distributed smoothing step of par_prolongation.cpp, P <- P - (scaled_A)->mult(P), with the product computed
   THROUGH A COMMUNICATION PACKAGE (Dist/ParSpgemm.v par_mult fed by Dist/ParSpgemmPkg.v fetch_pkg) instead of being
   handed the global rows of P (the simplification of Amg/Prolong.v par_jacobi_step).  For every package accepted by
   the id check of C03 (fwd_ok) the represented operator is the sequential step's, up to the drops of the two
   accumulators and of remove_duplicates; on data where no partial sum is small but non-zero it is exactly
   P - sA P. *)
From Raptor Require Import Base.Sums Sparse.Defs Sparse.ConvertProofs Sparse.SortProofs Sparse.Spgemm Sparse.SpgemmProofs.
From Raptor Require Import Dist.Comm Dist.ParSpgemm Dist.ParSpgemmProofs Dist.ParSpgemmPkg.
From Coq Require Import Lia.

Section ParProlongPkg.
Variable F : Type.
Variables (zero one : F) (add mul sub : F -> F -> F) (opp : F -> F).
Variable Fth : ring_theory zero one add mul sub opp (@eq F).
Variable smallm : F -> bool.     (* |v| <= zero_tol : the SpGEMM accumulators *)
Variable small : F -> bool.      (* |v| <  zero_tol : remove_duplicates *)

Notation sumF := (sumf F zero add).
Notation denCsr := (den_csr F zero add).
Notation dropM := (dropm F zero smallm).
Notation dropD := (drop F zero small).

(* sA: n x n, rows and columns partitioned by pa;  P: n x nc, rows by pa, columns by pc *)
Definition par_smooth_step_pkg (w : world) (ids colmaps : list (list nat)) (sA P : csr F) (pa pc : list nat) : csr F :=
  csr_subtract F add opp small P
    (par_mult F zero add mul smallm small (fetch_pkg F w ids colmaps P pa pc) sA P pa pa pc).

Lemma par_mult_rows_length fetch (A B : csr F) pa pk pc :
  length (csr_rows (par_mult F zero add mul smallm small fetch A B pa pk pc)) = csr_nr A.
Proof. unfold par_mult. cbn [csr_rows]. rewrite map_length, seq_length. reflexivity. Qed.

Theorem par_smooth_step_pkg_den (w : world) (ids colmaps : list (list nat)) (big : nat)
        (sA P : csr F) (pa pc : list nat) i j :
  csr_wf sA -> csr_wf P -> csr_nc sA = csr_nr P -> csr_nr sA = csr_nr P -> psum pa = csr_nr sA ->
  fwd_ok w ids colmaps big = true -> length (csr_rows P) <= big ->
  (forall r k, needs F sA pa pa r k = true -> r < length w /\ In k (nth r colmaps [])) ->
  i < csr_nr sA ->
  denCsr (par_smooth_step_pkg w ids colmaps sA P pa pc) i j =
  dropD (sub (denCsr P i j)
     (dropD (add
       (dropM (sumF (map (fun k => if inblk pa (owner pa i) k then mul (denCsr sA i k) (denCsr P k j) else zero)
                         (seq 0 (csr_nc sA)))))
       (dropM (sumF (map (fun k => if negb (inblk pa (owner pa i) k) then mul (denCsr sA i k) (denCsr P k j) else zero)
                         (seq 0 (csr_nc sA)))))))).
Proof.
  intros HA HP Hc Hn Hp Hok Hbig Hneed Hi. unfold par_smooth_step_pkg.
  rewrite (den_csr_subtract F zero one add mul sub opp Fth small).
  2:{ rewrite par_mult_rows_length. destruct HP as [HP _]. rewrite HP, Hn. lia. }
  f_equal. f_equal.
  apply (den_par_mult F zero one add mul sub opp Fth); try assumption.
  intros r k Hnk. destruct (Hneed r k Hnk) as [Hr Hk].
  apply (fetch_pkg_delivers F w ids colmaps big P pa pc r k Hok Hbig Hr Hk).
Qed.

(* exact data (integers, or any class closed under + and * on which "small" means zero): one step of I - sA *)
Theorem par_smooth_step_pkg_exact (isint : F -> Prop) (w : world) (ids colmaps : list (list nat)) (big : nat)
        (sA P : csr F) (pa pc : list nat) i j :
  isint zero -> (forall x y, isint x -> isint y -> isint (add x y)) ->
  (forall x y, isint x -> isint y -> isint (mul x y)) -> (forall x, isint x -> isint (opp x)) ->
  (forall x, isint x -> smallm x = true -> x = zero) -> (forall x, isint x -> small x = true -> x = zero) ->
  csr_wf sA -> csr_wf P -> csr_nc sA = csr_nr P -> csr_nr sA = csr_nr P -> psum pa = csr_nr sA ->
  fwd_ok w ids colmaps big = true -> length (csr_rows P) <= big ->
  (forall r k, needs F sA pa pa r k = true -> r < length w /\ In k (nth r colmaps [])) ->
  (forall i k, isint (denCsr sA i k)) -> (forall k j, isint (denCsr P k j)) -> i < csr_nr sA ->
  denCsr (par_smooth_step_pkg w ids colmaps sA P pa pc) i j =
  sub (denCsr P i j) (sumF (map (fun k => mul (denCsr sA i k) (denCsr P k j)) (seq 0 (csr_nc sA)))).
Proof.
  intros I0 Ia Im Io Is1 Is2 HA HP Hc Hn Hp Hok Hbig Hneed IA IP Hi. unfold par_smooth_step_pkg.
  rewrite (den_csr_subtract F zero one add mul sub opp Fth small).
  2:{ rewrite par_mult_rows_length. destruct HP as [HP _]. rewrite HP, Hn. lia. }
  assert (E : denCsr (par_mult F zero add mul smallm small (fetch_pkg F w ids colmaps P pa pc) sA P pa pa pc) i j =
              prod_entry F zero add mul sA P i j).
  { apply (par_mult_exact_on_integers F zero one add mul sub opp Fth smallm small isint); try assumption.
    intros r k Hnk. destruct (Hneed r k Hnk) as [Hr Hk].
    apply (fetch_pkg_delivers F w ids colmaps big P pa pc r k Hok Hbig Hr Hk). }
  rewrite E. unfold prod_entry.
  set (s := sumF _).
  assert (Isum : isint s).
  { unfold s. clear -I0 Ia Im IA IP. induction (seq 0 (csr_nc sA)) as [|k l IH]; simpl; [exact I0|].
    apply Ia; [apply Im; [apply IA|apply IP]|exact IH]. }
  assert (Isub : isint (sub (denCsr P i j) s)).
  { rewrite (Rsub_def Fth). apply Ia; [apply IP|apply Io; exact Isum]. }
  unfold drop. destruct (small (sub (denCsr P i j) s)) eqn:E2; [symmetry; apply Is2; assumption|reflexivity].
Qed.

End ParProlongPkg.
