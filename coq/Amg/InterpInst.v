(* C12: the executed instance (Qc) satisfies the hypotheses of the interpolation theorems. *)
From Coq Require Import QArith Qcanon Qcabs Field.
From Raptor Require Import Base.Sums Sparse.Defs Amg.Strength Amg.StrengthProofs Amg.StrengthInst Amg.Interp
     Extract.Inst Extract.Inst_interp.

Lemma Qc_eqb_eq a b : Qc_eqb a b = true <-> a = b.
Proof.
  unfold Qc_eqb. split.
  - intros H. destruct (a ?= b)%Qc eqn:E; try discriminate. apply Qceq_alt in E. exact E.
  - intros ->. assert (E : (b ?= b)%Qc = Eq) by (apply Qceq_alt; reflexivity). rewrite E. reflexivity.
Qed.

Lemma Qc_ltb_irrefl a : Qc_ltb a a = false.
Proof. apply Qc_ltb_nlt. unfold Qclt. apply Qlt_irrefl. Qed.

Lemma Qc_neg_add a b : Qc_ltb a 0%Qc = true -> Qc_ltb b 0%Qc = true -> Qc_ltb (a + b)%Qc 0%Qc = true.
Proof.
  rewrite !Qc_ltb_lt. intros Ha Hb.
  apply Qcle_lt_trans with (a + 0)%Qc; [apply Qcplus_le_compat; [apply Qcle_refl|apply Qclt_le_weak; exact Hb]|].
  rewrite Qcplus_0_r. exact Ha.
Qed.

Lemma Qc_small_zero : Qc_small 0%Qc = true.
Proof. reflexivity. Qed.
