(* Executable model of the multigrid cycle of raptor:
     raptor/multilevel/multilevel.hpp      Multilevel::cycle      (sequential classes)
     raptor/multilevel/par_multilevel.hpp  ParMultilevel::cycle   (distributed classes, tap on/off)
   and of the kernels it calls
     raptor/util/linalg/relax.cpp, par_relax.cpp   jacobi / sor / ssor   (hybrid: off-process values frozen)
     raptor/util/linalg/par_spmv.cpp               residual, mult_T (every rank zeroes its part of the result), mult_append
     form_dense_coarse / duplicate_coarse + dgetrs_ with trans = 'T'.

   THE SCRATCH STATE IS EXPLICIT.  Every vector that persists between two calls of cycle() is an input and an
   output of the model: levels[l]->tmp, levels[l+1]->x, levels[l+1]->b.  The relaxation returns the triple
   (x, b, tmp) because the C++ receives all three by non-const reference.

   Part 1 (Section Abstract): the cycle over an abstract interface -- a level is a record of functions
   (relax, residual, restrict, prolong); the theorems of CycleProofs.v hold for every level that satisfies
   `level_ok` (affine-linear relaxation that fixes solutions and does not read its scratch, ...).
   Part 2 (Section Concrete): the interface instantiated with dense list models, sequential semantics; a
   distributed operator is a function of the GLOBAL data plus the partition (list of block sizes, zeros
   allowed), which matters only for hybrid relaxation.
   Arithmetic over an abstract field; executed at Qc (Extract/Inst_cycle.v).  Floats are not modelled. *)
From Raptor Require Import Base.Sums.

Section Vectors.
Variable F : Type.
Variables (zero one : F) (add mul sub : F -> F -> F) (opp : F -> F).

Notation "0" := zero.
Notation "1" := one.
Infix "+" := add.
Infix "*" := mul.
Infix "-" := sub.
Notation vec := (list F).
Notation sumF := (sumf F zero add).

Fixpoint vzip {A B C} (f : A -> B -> C) (u : list A) (v : list B) : list C :=
  match u, v with
  | a :: u', b :: v' => f a b :: vzip f u' v'
  | _, _ => []
  end.

Definition zeros (n : nat) : vec := repeat 0 n.
Definition zero_like (v : vec) : vec := map (fun _ => 0) v.          (* Vector::set_const_value(0.0) *)
Definition xat (x : vec) (i : nat) : F := nth i x 0.
Fixpoint upd (l : vec) (i : nat) (v : F) : vec :=
  match l, i with
  | [], _ => []
  | _ :: l', O => v :: l'
  | x :: l', S i' => x :: upd l' i' v
  end.
(* a*u + c*v, entrywise *)
Definition lc (a : F) (u : vec) (c : F) (v : vec) : vec := vzip (fun p q => a * p + c * q) u v.
Definition vadd (u v : vec) : vec := vzip add u v.
Definition vsub (u v : vec) : vec := vzip sub u v.
Definition dot (r x : vec) : F := sumF (vzip mul r x).

(* ------------------------------------------------------------------------------------------------ *)
(*  Part 1: the cycle over an abstract interface                                                     *)
(* ------------------------------------------------------------------------------------------------ *)
Record level := mkLevel {
  lv_n  : nat;                                      (* rows of A_l *)
  lv_nc : nat;                                      (* columns of P_l = rows of A_{l+1} *)
  lv_relax    : vec -> vec -> vec -> vec * vec * vec; (* relax(A, x, b, tmp, sweeps, omega): new (x, b, tmp) *)
  lv_resid    : vec -> vec -> vec;                   (* A->residual(x, b, tmp): tmp := b - A x (all of tmp is written) *)
  lv_restrict : vec -> vec -> vec;                   (* P->mult_T(tmp, levels[l+1]->b): old coarse b -> new coarse b *)
  lv_prolong  : vec -> vec -> vec                    (* P->mult_append(levels[l+1]->x, x): new x *)
}.

(* what persists between calls for one non-coarsest level l *)
Record scratch := mkScr { s_tmp : vec;     (* levels[l]->tmp   *)
                          s_xc : vec;      (* levels[l+1]->x   *)
                          s_bc : vec }.    (* levels[l+1]->b   *)
Definition scr0 : scratch := mkScr [] [] [].

(* cycle(x, b, level); `ls` = the levels from `level` down to the last-but-one, `csolve` = the coarsest
   level (gather + dgetrs; it overwrites every entry of x, x is passed because the C++ does).
   Returns the vectors the C++ leaves behind: x, b and all scratch. *)
Fixpoint cycle (csolve : vec -> vec -> vec) (ls : list level) (ss : list scratch) (x b : vec)
  : vec * vec * list scratch :=
  match ls with
  | [] => (csolve x b, b, ss)
  | L :: ls' =>
    let s := hd scr0 ss in
    let xc0 := zero_like (s_xc s) in                         (* levels[level+1]->x.set_const_value(0.0) *)
    let '(x1, b1, t1) := lv_relax L x b (s_tmp s) in         (* pre-relaxation *)
    let t2 := lv_resid L x1 b1 in                            (* A->residual(x, b, tmp) *)
    let bc := lv_restrict L t2 (s_bc s) in                   (* P->mult_T(tmp, levels[level+1]->b) *)
    let '(xc', bc', ss') := cycle csolve ls' (tl ss) xc0 bc in
    let x2 := lv_prolong L xc' x1 in                         (* P->mult_append(levels[level+1]->x, x) *)
    let '(x3, b3, t3) := lv_relax L x2 b1 t2 in              (* post-relaxation *)
    (x3, b3, mkScr t3 xc' bc' :: ss')
  end.

Definition cyc_x csolve ls ss x b : vec := fst (fst (cycle csolve ls ss x b)).
Definition cyc_b csolve ls ss x b : vec := snd (fst (cycle csolve ls ss x b)).
Definition cyc_s csolve ls ss x b : list scratch := snd (cycle csolve ls ss x b).

(* a history: calls of cycle() on one hierarchy, the scratch threaded from call to call *)
Fixpoint run_history csolve ls (ss : list scratch) (calls : list (vec * vec)) : list vec :=
  match calls with
  | [] => []
  | (x, b) :: rest => let '(x', _, ss') := cycle csolve ls ss x b in x' :: run_history csolve ls ss' rest
  end.

(* the relaxation called with the parameter order the sequential relax.hpp had before the fix
   (A, b, x, tmp): the right-hand side is relaxed and overwritten.  Kept as documentation. *)
Definition swap_relax (L : level) : level :=
  mkLevel (lv_n L) (lv_nc L)
    (fun x b t => let '(b', x', t') := lv_relax L b x t in (x', b', t'))
    (lv_resid L) (lv_restrict L) (lv_prolong L).

(* ------------------------------------------------------------------------------------------------ *)
(*  Part 2: dense concrete kernels                                                                    *)
(* ------------------------------------------------------------------------------------------------ *)
Variable inv : F -> F.               (* 1/d; d * inv d = 1 for d <> 0 is a hypothesis of the proofs *)
Variable tiny : F -> bool.           (* !(fabs(d) > zero_tol) *)
Variable eqb0 : F -> bool.           (* d == 0 (pivot search of the executed dense solver only) *)

Notation mat := (list (list F)).     (* dense, list of rows *)

Definition mulmat (A : mat) (x : vec) : vec := map (fun r => dot r x) A.
(* spmv_residual / ParMatrix::residual:  r = b - A x *)
Definition c_resid (A : mat) (x b : vec) : vec := vsub b (mulmat A x).
(* ParMatrix::mult_append:  x += P xc *)
Definition c_prolong (P : mat) (xc x : vec) : vec := vadd x (mulmat P xc).
(* (P^T r)_j = sum_i P_ij r_i,  j < m *)
Definition mulmatT (P : mat) (r : vec) (m : nat) : vec :=
  map (fun j => sumF (vzip (fun row ri => xat row j * ri) P r)) (seq O m).

(* ParMatrix::mult_T / tap_mult_T.  NOW: `if (local_num_rows) on_proc->mult_T(x.local, b.local); else
   b.local.set_const_value(0.0);` -- every rank zeroes its block of b (Matrix::mult_T sets b[0..n_cols) = 0
   first), then complete_comm_T ADDS the received products:  b := 0 + P^T r. *)
Definition c_restrict (P : mat) (m : nat) (r bo : vec) : vec := vadd (zero_like bo) (mulmatT P r m).

(* BEFORE the fix (c46a987) there was no else-branch: a rank that owns coarse columns but no fine rows kept the
   old content of its block of b.  fparts / cparts = rows of P per rank / columns of P per rank.  Kept as
   documentation (C09_history_free_old_mult_T_refuted); on hierarchies built by the library such a rank does
   not exist (coarse unknowns are a subset of / aggregates of the rank's own fine unknowns). *)
Fixpoint guard_base (fparts cparts : list nat) (bo : vec) : vec :=
  match fparts, cparts with
  | f :: fs, c :: cs =>
      (if f =? O then firstn c bo else zero_like (firstn c bo)) ++ guard_base fs cs (skipn c bo)
  | _, _ => []
  end.
Definition c_restrict_old (P : mat) (fparts cparts : list nat) (m : nat) (r bo : vec) : vec :=
  vadd (guard_base fparts cparts bo) (mulmatT P r m).

(* ---- relaxation ---- *)
Inductive rkind := RJacobi | RSOR | RSSOR.

(* block (start, size) of the partition that contains row i *)
Fixpoint block_of (parts : list nat) (i start : nat) : nat * nat :=
  match parts with
  | [] => (start, O)
  | p :: ps => if i <? start + p then (start, p) else block_of ps i (start + p)
  end.
Definition in_block (blk : nat * nat) (j : nat) : bool := (fst blk <=? j) && (j <? fst blk + snd blk).

(* row_sum: the off-diagonal part of row i; columns of the row's own block are read from the vector being
   updated (xc), all other columns from the values communicated before the sweep (xo = dist_x / tmp) *)
Definition offsum (row : vec) (i : nat) (blk : nat * nat) (xc xo : vec) : F :=
  sumF (map (fun ja => if fst ja =? i then 0
                       else snd ja * (if in_block blk (fst ja) then xat xc (fst ja) else xat xo (fst ja)))
            (indexed row)).
(* x[i] = (1 - omega) x[i] + omega (b[i] - row_sum) / diag *)
Definition row_update (omega : F) (row : vec) (i : nat) (blk : nat * nat) (xc xo b : vec) : F :=
  (1 - omega) * xat xc i + omega * ((xat b i - offsum row i blk xc xo) * inv (xat row i)).

Definition sweep (A : mat) (omega : F) (blkf : nat -> nat * nat) (skip_tiny : bool)
                 (order : list nat) (xo b xc : vec) : vec :=
  fold_left (fun xc i =>
               let row := nth i A [] in
               if skip_tiny && tiny (xat row i) then xc
               else upd xc i (row_update omega row i (blkf i) xc xo b))
            order xc.

(* one sweep.  Jacobi reads only old values: every row is its own block and `fabs(diag) > zero_tol` guards
   the update.  SOR: forward over the rows, own block current.  SSOR: forward then backward with the SAME
   communicated values (ssor_helper communicates once per sweep). *)
Definition one_sweep (k : rkind) (A : mat) (omega : F) (parts : list nat) (b x : vec) : vec :=
  let n := length A in
  match k with
  | RJacobi => sweep A omega (fun i => (i, 1%nat)) true (seq O n) x b x
  | RSOR => sweep A omega (fun i => block_of parts i O) false (seq O n) x b x
  | RSSOR => sweep A omega (fun i => block_of parts i O) false (rev (seq O n)) x b
               (sweep A omega (fun i => block_of parts i O) false (seq O n) x b x)
  end.

(* num_sweeps sweeps; jacobi copies x into tmp at the start of every sweep, sor/ssor never touch tmp *)
Fixpoint c_relax (k : rkind) (A : mat) (omega : F) (parts : list nat) (sweeps : nat) (x b tmp : vec)
  : vec * vec * vec :=
  match sweeps with
  | O => (x, b, tmp)
  | S s' => c_relax k A omega parts s' (one_sweep k A omega parts b x) b
                    (match k with RJacobi => x | _ => tmp end)
  end.

(* ---- coarsest level: dense buffer + LAPACK ---- *)
Variable lapack_solve : mat -> vec -> vec.   (* an exact solver of K y = b for the dense matrix K given by rows *)

(* form_dense_coarse / duplicate_coarse write  A_coarse[i*n + j] = a_ij  (row-major) *)
Definition coarse_buf (M : mat) : vec := concat M.
(* dgetrs_(trans, n, 1, buf, n, ...) reads buf column-major: L_ij = buf[j*n + i]; it solves L y = b for
   trans = 'N' and L^T y = b for trans = 'T'.  The matrix of the system that is solved, by rows: *)
Definition getrs_mat (trans : bool) (n : nat) (buf : vec) : mat :=
  map (fun i => map (fun j => if trans then xat buf (i * n + j) else xat buf (j * n + i)) (seq O n)) (seq O n).
Definition getrs (trans : bool) (n : nat) (buf b : vec) : vec := lapack_solve (getrs_mat trans n buf) b.
(* the coarsest branch of cycle(): x := solution, every entry of x overwritten (trans = 'T' after the fix) *)
Definition c_coarse (trans : bool) (M : mat) (x b : vec) : vec := getrs trans (length M) (coarse_buf M) b.

(* ---- concrete hierarchy ---- *)
Record clevel := mkCL { cl_A : mat; cl_P : mat; cl_parts : list nat }.   (* parts = row partition of level l *)
Record chier := mkCH {
  ch_levels : list clevel;          (* the levels that have a P *)
  ch_coarse : mat;                  (* A of the coarsest level *)
  ch_cparts : list nat;             (* row partition of the coarsest level (not read by any kernel) *)
  ch_kind : rkind; ch_omega : F; ch_sweeps : nat;
  ch_trans : bool                   (* 'T' (true) in the current code *)
}.

Definition next_parts (rest : list clevel) (last : list nat) : list nat :=
  match rest with [] => last | c :: _ => cl_parts c end.
Definition next_n (rest : list clevel) (Mc : mat) : nat :=
  match rest with [] => length Mc | c :: _ => length (cl_A c) end.

Definition mk_level (H : chier) (c : clevel) (nc : nat) : level :=
  mkLevel (length (cl_A c)) nc
    (c_relax (ch_kind H) (cl_A c) (ch_omega H) (cl_parts c) (ch_sweeps H))
    (c_resid (cl_A c))
    (c_restrict (cl_P c) nc)
    (c_prolong (cl_P c)).

Fixpoint mk_levels (H : chier) (cs : list clevel) : list level :=
  match cs with
  | [] => []
  | c :: rest => mk_level H c (next_n rest (ch_coarse H)) :: mk_levels H rest
  end.

Definition h_cycle (H : chier) (ss : list scratch) (x b : vec) : vec * vec * list scratch :=
  cycle (c_coarse (ch_trans H) (ch_coarse H)) (mk_levels H (ch_levels H)) ss x b.

(* the scratch a freshly set-up hierarchy has (vectors resized, value-initialised) *)
Fixpoint fresh_scratch (cs : list clevel) (Mc : mat) : list scratch :=
  match cs with
  | [] => []
  | c :: rest => mkScr (zeros (length (cl_A c))) (zeros (next_n rest Mc)) (zeros (next_n rest Mc))
                 :: fresh_scratch rest Mc
  end.
(* every scratch entry replaced by a sentinel (the harness poisons levels[l]->x/b/tmp like this) *)
Fixpoint poison_scratch (p : F) (cs : list clevel) (Mc : mat) : list scratch :=
  match cs with
  | [] => []
  | c :: rest => mkScr (repeat p (length (cl_A c))) (repeat p (next_n rest Mc)) (repeat p (next_n rest Mc))
                 :: poison_scratch p rest Mc
  end.

(* ---- the executed dense solver: Gauss-Jordan elimination with first-nonzero pivoting ---- *)
Fixpoint find_pivot (k : nat) (rows : list vec) : option (vec * list vec) :=
  match rows with
  | [] => None
  | r :: rs => if eqb0 (xat r k)
               then match find_pivot k rs with Some (p, rest) => Some (p, r :: rest) | None => None end
               else Some (r, rs)
  end.
Fixpoint gauss_jordan (cols : list nat) (done todo : list vec) : option (list vec) :=
  match cols with
  | [] => Some done
  | k :: ks =>
    match find_pivot k todo with
    | None => None
    | Some (p, rest) =>
      let p' := map (mul (inv (xat p k))) p in
      let elim := fun r => vzip (fun a q => a - xat r k * q) r p' in
      gauss_jordan ks (map elim done ++ [p']) (map elim rest)
    end
  end.
(* Some x with M x = b, or None when a pivot column is zero (singular M) *)
Definition ge_solve (M : mat) (b : vec) : option vec :=
  let n := length M in
  match gauss_jordan (seq O n) [] (vzip (fun r bi => r ++ [bi]) M b) with
  | Some rows => Some (map (fun r => xat r n) rows)
  | None => None
  end.

End Vectors.

Arguments mkLevel {F}. Arguments lv_n {F}. Arguments lv_nc {F}. Arguments lv_relax {F}.
Arguments lv_resid {F}. Arguments lv_restrict {F}. Arguments lv_prolong {F}.
Arguments mkScr {F}. Arguments s_tmp {F}. Arguments s_xc {F}. Arguments s_bc {F}.
Arguments scr0 {F}.
Arguments mkCL {F}. Arguments cl_A {F}. Arguments cl_P {F}. Arguments cl_parts {F}.
Arguments mkCH {F}. Arguments ch_levels {F}. Arguments ch_coarse {F}. Arguments ch_cparts {F}.
Arguments ch_kind {F}. Arguments ch_omega {F}. Arguments ch_sweeps {F}. Arguments ch_trans {F}.
Arguments cycle {F}. Arguments cyc_x {F}. Arguments cyc_b {F}. Arguments cyc_s {F}.
Arguments run_history {F}. Arguments swap_relax {F}.
Arguments upd {F}. Arguments guard_base {F}. Arguments next_parts {F}. Arguments next_n {F}.
