(* The executed instance (keys and values in Qc) satisfies the order hypotheses of the C15 theorems. *)
From Coq Require Import QArith Qcanon Qcabs ZArith List Lia.
From Raptor Require Import Extract.Inst Amg.Mis2 Amg.Aggregate Extract.Inst_agg.

Local Open Scope Qc_scope.

Lemma Qc_ltb_lt a b : Qc_ltb a b = true <-> a < b.
Proof.
  unfold Qc_ltb. rewrite Qclt_alt. destruct (a ?= b); split; intros; congruence.
Qed.

Lemma Qc_gtb_irrefl a : Qc_gtb a a = false.
Proof.
  unfold Qc_gtb. destruct (Qc_ltb a a) eqn:E; auto. apply Qc_ltb_lt in E. exfalso. exact (Qclt_not_eq _ _ E eq_refl).
Qed.

Lemma Qc_gtb_trans a b c : Qc_gtb a b = true -> Qc_gtb b c = true -> Qc_gtb a c = true.
Proof.
  unfold Qc_gtb. rewrite !Qc_ltb_lt. intros H1 H2. exact (Qclt_trans _ _ _ H2 H1).
Qed.

Lemma Qc_gtb_total a b : a <> b -> Qc_gtb a b = true \/ Qc_gtb b a = true.
Proof.
  intros N. unfold Qc_gtb. rewrite !Qc_ltb_lt. destruct (Qc_dec a b) as [[H|H]|H]; auto. contradiction.
Qed.

(* |a| + r > 0 for a stored nonzero value and a non-negative key *)
Lemma Qc_weight_pos (a k : Qc) : a <> 0 -> 0 <= k -> Qc_ltb 0 (Qcabs a + k) = true.
Proof.
  intros Na Hk. apply Qc_ltb_lt.
  assert (P : 0 < Qcabs a).
  { destruct (Qcle_lt_or_eq _ _ (Qcabs_nonneg a)) as [H|H]; auto. exfalso. apply Na. apply Qcabs_null. symmetry. exact H. }
  apply (Qclt_le_trans _ (Qcabs a + 0)).
  - rewrite Qcplus_0_r. exact P.
  - apply Qcplus_le_compat; [apply Qcle_refl|exact Hk].
Qed.
