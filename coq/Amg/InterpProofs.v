(* C12: proofs about the interpolation model (Amg/Interp.v). *)
From Coq Require Import Field.
From Raptor Require Import Base.Sums Sparse.Defs Amg.Strength Amg.StrengthProofs Amg.Interp.

(* ---------- coarse numbering ---------- *)
Section Rank.
Lemma rankC_S states c :
  rankC states (S c) = rankC states c + (if isC states c then 1 else 0).
Proof.
  unfold rankC, isC. revert c. induction states as [|s states IH]; intros c.
  - destruct c; reflexivity.
  - destruct c as [|c].
    + cbn [firstn filter nth length]. destruct (s =? 1); reflexivity.
    + change (firstn (S (S c)) (s :: states)) with (s :: firstn (S c) states).
      change (firstn (S c) (s :: states)) with (s :: firstn c states).
      change (nth (S c) (s :: states) 0) with (nth c states 0).
      specialize (IH c). cbn [filter]. destruct (s =? 1); cbn [length]; lia.
Qed.

Lemma rankC_mono states a b : a <= b -> rankC states a <= rankC states b.
Proof. induction 1; [lia|]. rewrite rankC_S. lia. Qed.

(* strictly increasing along the C points: the column of a C point is its rank among the C points *)
Lemma rankC_strict states a b : a < b -> isC states a = true -> rankC states a < rankC states b.
Proof.
  intros Hab Ha. assert (H := rankC_mono states (S a) b Hab). rewrite rankC_S, Ha in H. lia.
Qed.

Lemma rankC_inj states a b : isC states a = true -> isC states b = true -> rankC states a = rankC states b -> a = b.
Proof.
  intros Ha Hb E. destruct (Nat.lt_trichotomy a b) as [H|[H|H]]; [|exact H|].
  - assert (G := rankC_strict states a b H Ha). lia.
  - assert (G := rankC_strict states b a H Hb). lia.
Qed.

Lemma rankC_bound states a : isC states a = true ->
  rankC states a < length (filter (fun s => s =? 1) states).
Proof.
  intros Ha. assert (a < length states).
  { destruct (Nat.lt_ge_cases a (length states)) as [H|H]; [exact H|].
    unfold isC in Ha. rewrite nth_overflow in Ha by exact H. discriminate. }
  assert (G := rankC_strict states a (length states) H Ha).
  unfold rankC in G at 2. rewrite firstn_all in G. exact G.
Qed.
End Rank.

Section InterpProofs.
Variable F : Type.
Variables (zero one : F) (add mul sub : F -> F -> F) (opp : F -> F) (div : F -> F -> F) (inv : F -> F).
Variable Fth : field_theory zero one add mul sub opp div inv (@eq F).
Add Field Ffield : Fth.
Variable ltb : F -> F -> bool.
Variable eqb : F -> F -> bool.
Variable small : F -> bool.
Hypothesis eqb_eq : forall a b, eqb a b = true <-> a = b.

Notation row := (list (nat * F)).
Notation sumF := (sumf F zero add).
Notation Rth := (F_R Fth).
Notation isneg := (isneg F zero ltb).
Notation negs := (negs F zero ltb).
Notation nonnegs := (nonnegs F zero ltb).
Notation direct_coeffs := (direct_coeffs F zero add opp div ltb eqb).
Notation direct_weight := (direct_weight F zero mul ltb).
Notation direct_frow := (direct_frow F zero add mul opp div ltb eqb).
Notation direct_row := (direct_row F zero one add mul opp div ltb eqb).
Notation direct_interpolation := (direct_interpolation F zero one add mul opp div ltb eqb).
Notation val_at := (val_at F zero).
Notation prep := (prep_row F).

Local Infix "+" := add.
Local Infix "*" := mul.
Local Notation "0" := zero.
Local Notation "1" := one.

Lemma sumF_app l1 l2 : sumF (l1 ++ l2) = sumF l1 + sumF l2.
Proof. apply (sumf_app F zero one add mul sub opp Rth). Qed.

Lemma sumF_perm l1 l2 : Permutation l1 l2 -> sumF l1 = sumF l2.
Proof. apply (sumf_perm F zero one add mul sub opp Rth). Qed.

Lemma sumF_split (p : F -> bool) l : sumF l = sumF (filter p l) + sumF (filter (fun a => negb (p a)) l).
Proof.
  assert (H := sumf_filter_split F zero one add mul sub opp Rth p (fun x => x) l).
  rewrite !map_id in H. exact H.
Qed.

Lemma sum_negs_nonnegs l : sumF l = sumF (negs l) + sumF (nonnegs l).
Proof. apply sumF_split. Qed.

(* ---------- direct interpolation: the alpha / beta algebra ---------- *)
Lemma sum_direct_weights nc pc (sc : row) :
  sumF (map snd (map (direct_weight nc pc) sc)) =
  nc * sumF (negs (map snd sc)) + pc * sumF (nonnegs (map snd sc)).
Proof.
  induction sc as [|[c v] sc IH]; simpl; [ring|].
  unfold Interp.isneg in *. destruct (ltb v 0); simpl; rewrite IH; ring.
Qed.

(* the effective diagonal: diag += sum_all_pos when there is no strong positive coarse value *)
Definition eff_diag (sv av : list F) (d : F) : F :=
  if eqb (sumF (nonnegs sv)) 0 then d + sumF (nonnegs av) else d.

Lemma direct_coeffs_rowsum (sv av : list F) (d : F) :
  d + sumF av = 0 -> sumF (negs sv) <> 0 -> eff_diag sv av d <> 0 ->
  fst (direct_coeffs sv av d) * sumF (negs sv) + snd (direct_coeffs sv av d) * sumF (nonnegs sv) = 1.
Proof.
  intros H0 Hn Hd. unfold Interp.direct_coeffs, eff_diag in *.
  rewrite (sum_negs_nonnegs av) in H0.
  set (ssn := sumF (negs sv)) in *. set (ssp := sumF (nonnegs sv)) in *.
  set (san := sumF (negs av)) in *. set (sap := sumF (nonnegs av)) in *.
  destruct (eqb ssp 0) eqn:E; cbn [fst snd].
  - apply eqb_eq in E. rewrite E.
    assert (Hs : san = opp (d + sap)) by (rewrite <- (Radd_0_l Rth (opp (d + sap))), <- H0; ring).
    rewrite Hs. field. split; assumption.
  - assert (Hp : ssp <> 0) by (intros Hp; apply eqb_eq in Hp; congruence).
    assert (Hs : san = opp (d + sap)) by (rewrite <- (Radd_0_l Rth (opp (d + sap))), <- H0; ring).
    rewrite Hs. field. repeat split; assumption.
Qed.

(* strong coarse neighbours of row i with A's values (the array sa[] restricted to Selected columns) *)
Definition dsc (states : list nat) (i : nat) (ar sr : row) : row :=
  map (fun p => (fst p, val_at (fst p) (prep i ar)))
      (filter (fun p => isC states (fst p)) (drop_diag F i (prep i sr))).

Lemma direct_frow_eq states i (ar sr : row) :
  direct_frow states i ar sr =
  map (direct_weight (fst (direct_coeffs (map snd (dsc states i ar sr)) (map snd (tl (prep i ar))) (head_val F zero (prep i ar))))
                     (snd (direct_coeffs (map snd (dsc states i ar sr)) (map snd (tl (prep i ar))) (head_val F zero (prep i ar)))))
      (dsc states i ar sr).
Proof. reflexivity. Qed.

Lemma head_tl_sum (r : row) : r <> [] -> head_val F zero r + sumF (map snd (tl r)) = sumF (map snd r).
Proof. destruct r as [|p r]; [contradiction|]. intros _. reflexivity. Qed.

Lemma prep_nonempty i (r : row) : r <> [] -> prep i r <> [].
Proof. intros H E. apply H. apply (prep_row_nil F i r E). Qed.

Lemma prep_sum i (r : row) : sumF (map snd (prep i r)) = sumF (map snd r).
Proof. apply sumF_perm. apply Permutation_map. apply prep_row_perm. Qed.

(* row sum = 1: zero matrix row sum, the strong negative coarse sum and the effective diagonal are non-zero *)
Theorem direct_frow_rowsum states i (ar sr : row) :
  ar <> [] -> sumF (map snd ar) = 0 ->
  sumF (negs (map snd (dsc states i ar sr))) <> 0 ->
  eff_diag (map snd (dsc states i ar sr)) (map snd (tl (prep i ar))) (head_val F zero (prep i ar)) <> 0 ->
  sumF (map snd (direct_frow states i ar sr)) = 1.
Proof.
  intros Hne H0 Hn Hd. rewrite direct_frow_eq, sum_direct_weights.
  apply direct_coeffs_rowsum; [|exact Hn|exact Hd].
  rewrite head_tl_sum by (apply prep_nonempty; exact Hne). rewrite prep_sum. exact H0.
Qed.

(* ---------- direct: support ---------- *)
Lemma drop_diag_incl i (r : row) p : In p (drop_diag F i r) -> In p r.
Proof. destruct r as [|q r]; simpl; [tauto|]. destruct (fst q =? i); simpl; tauto. Qed.

Lemma dsc_support states i (ar sr : row) c v :
  In (c, v) (dsc states i ar sr) -> isC states c = true /\ In c (map fst sr).
Proof.
  unfold dsc. intros H. apply in_map_iff in H. destruct H as [p [E Hp]]. inversion E; subst.
  apply filter_In in Hp. destruct Hp as [Hp Hc]. split; [exact Hc|].
  apply drop_diag_incl in Hp. apply (Permutation_in _ (prep_row_perm F i sr)) in Hp. apply in_map. exact Hp.
Qed.

Lemma direct_frow_support states i (ar sr : row) c w :
  In (c, w) (direct_frow states i ar sr) -> isC states c = true /\ In c (map fst sr).
Proof.
  rewrite direct_frow_eq. intros H. apply in_map_iff in H. destruct H as [[c' v] [E Hp]].
  unfold Interp.direct_weight in E. cbn [fst snd] in E. inversion E; subst.
  apply (dsc_support states i ar sr c v Hp).
Qed.

(* ---------- distributed direct interpolation = sequential, row level ---------- *)
Notation offd := (offd F).
Notation on_part := (on_part F).
Notation off_part := (off_part F).
Notation par_direct_frow := (par_direct_frow F zero add mul opp div ltb eqb).

Lemma val_at_in c v (r : row) : NoDup (map fst r) -> In (c, v) r -> val_at c r = v.
Proof.
  unfold Interp.val_at. induction r as [|[c' v'] r IH]; simpl; intros Hn Hin; [contradiction|].
  inversion Hn as [|? ? Hx Hn']; subst. destruct (c' =? c) eqn:E.
  - apply Nat.eqb_eq in E. subst c'. destruct Hin as [Hin|Hin]; [inversion Hin; reflexivity|].
    exfalso. apply Hx. change c with (fst (c, v)). apply in_map. exact Hin.
  - destruct Hin as [Hin|Hin]; [inversion Hin; subst; rewrite Nat.eqb_refl in E; discriminate|].
    apply IH; assumption.
Qed.

Lemma val_at_notin c (r : row) : (forall q, In q r -> fst q <> c) -> val_at c r = 0.
Proof.
  unfold Interp.val_at. induction r as [|[c' v'] r IH]; simpl; intros H; [reflexivity|].
  destruct (c' =? c) eqn:E; [apply Nat.eqb_eq in E; exfalso; apply (H (c', v')); [left; reflexivity|exact E]|].
  apply IH. intros q Hq. apply H. right. exact Hq.
Qed.

Lemma col_dec c (r : row) : (exists v, In (c, v) r) \/ (forall q, In q r -> fst q <> c).
Proof.
  induction r as [|[c' v'] r IH]; [right; intros q []|].
  destruct (Nat.eq_dec c' c) as [->|Hne]; [left; exists v'; left; reflexivity|].
  destruct IH as [[v Hv]|Hno]; [left; exists v; right; exact Hv|].
  right. intros q [<-|Hq]; [exact Hne|apply Hno; exact Hq].
Qed.

Lemma val_at_perm c (r r' : row) : NoDup (map fst r) -> Permutation r r' -> val_at c r = val_at c r'.
Proof.
  intros Hn Hp.
  assert (Hn' : NoDup (map fst r')) by (eapply Permutation_NoDup; [apply Permutation_map; exact Hp|exact Hn]).
  destruct (col_dec c r) as [[v Hv]|Hno].
  - rewrite (val_at_in c v r Hn Hv). symmetry. apply val_at_in; [exact Hn'|]. eapply Permutation_in; eassumption.
  - rewrite (val_at_notin c r Hno). symmetry. apply val_at_notin.
    intros q Hq. apply Hno. eapply Permutation_in; [apply Permutation_sym; exact Hp|exact Hq].
Qed.

Lemma val_at_filter c (q : nat * F -> bool) (r : row) :
  (forall p, fst p = c -> q p = true) -> val_at c (filter q r) = val_at c r.
Proof.
  intros H. unfold Interp.val_at. induction r as [|p r IH]; simpl; [reflexivity|].
  destruct (fst p =? c) eqn:E.
  - apply Nat.eqb_eq in E. rewrite (H p E). simpl. rewrite (proj2 (Nat.eqb_eq _ _) E). reflexivity.
  - destruct (q p); simpl; [rewrite E|]; exact IH.
Qed.

Lemma direct_coeffs_perm sv sv' av av' d :
  Permutation sv sv' -> Permutation av av' -> direct_coeffs sv av d = direct_coeffs sv' av' d.
Proof.
  intros Hs Ha. unfold Interp.direct_coeffs, Interp.negs, Interp.nonnegs.
  rewrite (sumF_perm _ _ (Permutation_filter isneg _ _ Hs)).
  rewrite (sumF_perm _ _ (Permutation_filter (fun v => negb (isneg v)) _ _ Hs)).
  rewrite (sumF_perm _ _ (Permutation_filter isneg _ _ Ha)).
  rewrite (sumF_perm _ _ (Permutation_filter (fun v => negb (isneg v)) _ _ Ha)).
  reflexivity.
Qed.

Lemma drop_diag_prep_perm g (X : row) :
  NoDup (map fst X) -> Permutation (drop_diag F g (prep g X)) (offd g X).
Proof.
  intros Hn. destruct (prep_row_shape F g X Hn) as [[d [rest [Hp [Hin [Hperm Hrest]]]]]|[Hperm Hno]].
  - rewrite Hp. cbn [Interp.drop_diag fst]. rewrite Nat.eqb_refl. exact Hperm.
  - rewrite (offd_nodiag F g X Hno).
    destruct (prep g X) as [|p r'] eqn:E; [exact Hperm|].
    cbn [Interp.drop_diag].
    assert (Hp : fst p <> g) by (apply Hno; eapply Permutation_in; [exact Hperm|left; reflexivity]).
    apply Nat.eqb_neq in Hp. rewrite Hp. exact Hperm.
Qed.

Lemma Permutation_map_ext {A B} (f1 f2 : A -> B) l l' :
  Permutation l l' -> (forall x, In x l -> f1 x = f2 x) -> Permutation (map f1 l) (map f2 l').
Proof.
  intros Hp He. rewrite (map_ext_in f1 f2 l He). apply Permutation_map. exact Hp.
Qed.

Lemma prep_diag_first g d (X : row) :
  NoDup (map fst X) -> In (g, d) X ->
  exists rest, prep g X = (g, d) :: rest /\ Permutation rest (offd g X).
Proof.
  intros Hn Hin. destruct (prep_row_shape F g X Hn) as [[d' [rest [Hp [Hin' [Hperm _]]]]]|[_ Hno]].
  - assert (E := nodup_fst_unique F X _ _ Hn Hin' Hin eq_refl). inversion E; subst. exists rest. split; assumption.
  - exfalso. apply (Hno _ Hin). reflexivity.
Qed.

Theorem par_direct_frow_perm states lo n g (ar sr : row) :
  lo <= g < lo + n -> NoDup (map fst ar) -> NoDup (map fst sr) -> (exists d, In (g, d) ar) ->
  Permutation (par_direct_frow states lo n g ar sr) (direct_frow states g ar sr).
Proof.
  intros Hg Hna Hns [d Hd].
  set (f := fun p : nat * F => (fst p, val_at (fst p) ar)).
  set (isc := fun p : nat * F => isC states (fst p)).
  assert (Hnon : NoDup (map fst (on_part lo n ar))) by (apply (NoDup_map_filter F zero mul); exact Hna).
  assert (Hnoff : NoDup (map fst (off_part lo n ar))) by (apply (NoDup_map_filter F zero mul); exact Hna).
  assert (Hnson : NoDup (map fst (on_part lo n sr))) by (apply (NoDup_map_filter F zero mul); exact Hns).
  (* the sequential strong-coarse list *)
  assert (Hseq : Permutation (dsc states g ar sr) (map f (filter isc (offd g sr)))).
  { unfold dsc. apply Permutation_map_ext.
    - apply Permutation_filter. apply drop_diag_prep_perm. exact Hns.
    - intros p _. unfold f. f_equal. symmetry. apply val_at_perm; [exact Hna|apply Permutation_sym; apply prep_row_perm]. }
  (* the two distributed lists *)
  set (aon := prep g (on_part lo n ar)). set (aoff := sort_line (off_part lo n ar)).
  assert (Hon : Permutation
            (map (fun p => (fst p, val_at (fst p) aon)) (filter isc (drop_diag F g (prep g (on_part lo n sr)))))
            (map f (filter isc (offd g (on_part lo n sr))))).
  { apply Permutation_map_ext.
    - apply Permutation_filter. apply drop_diag_prep_perm. exact Hnson.
    - intros p Hp. unfold f. f_equal. apply filter_In in Hp. destruct Hp as [Hp _].
      apply drop_diag_incl in Hp. apply (Permutation_in _ (prep_row_perm F g _)) in Hp.
      apply (on_part_in F zero mul) in Hp. destruct Hp as [_ Hr].
      unfold aon. rewrite <- (val_at_perm (fst p) _ _ Hnon (Permutation_sym (prep_row_perm F g _))).
      unfold Strength.on_part. apply val_at_filter. intros q Hq. rewrite Hq. apply (in_range_spec F zero mul). exact Hr. }
  assert (Hoff : Permutation
            (map (fun p => (fst p, val_at (fst p) aoff)) (filter isc (sort_line (off_part lo n sr))))
            (map f (filter isc (off_part lo n sr)))).
  { apply Permutation_map_ext.
    - apply Permutation_filter. apply sort_line_perm.
    - intros p Hp. unfold f. f_equal. apply filter_In in Hp. destruct Hp as [Hp _].
      apply (Permutation_in _ (sort_line_perm F _)) in Hp. apply (off_part_in F zero mul) in Hp. destruct Hp as [_ Hr].
      unfold aoff. rewrite <- (val_at_perm (fst p) _ _ Hnoff (Permutation_sym (sort_line_perm F _))).
      unfold Strength.off_part. apply val_at_filter. intros q Hq. rewrite Hq.
      apply Bool.negb_true_iff. apply Bool.not_true_iff_false. intros Hin. apply (in_range_spec F zero mul) in Hin. exact (Hr Hin). }
  assert (Hsc : Permutation
            (map (fun p => (fst p, val_at (fst p) aon)) (filter isc (drop_diag F g (prep g (on_part lo n sr)))) ++
             map (fun p => (fst p, val_at (fst p) aoff)) (filter isc (sort_line (off_part lo n sr))))
            (dsc states g ar sr)).
  { eapply Permutation_trans; [apply Permutation_app; [exact Hon|exact Hoff]|].
    eapply Permutation_trans; [|apply Permutation_sym; exact Hseq].
    rewrite <- map_app, <- filter_app. apply Permutation_map. apply Permutation_filter.
    rewrite (offd_on_part F g lo n sr), (off_part_offd F zero mul g lo n sr Hg). apply on_off_perm. }
  (* diagonal and off-diagonal values *)
  assert (Hdon : In (g, d) (on_part lo n ar)) by (apply (on_part_in F zero mul); simpl; tauto).
  destruct (prep_diag_first g d (on_part lo n ar) Hnon Hdon) as [rest_on [Eon Pon]].
  destruct (prep_diag_first g d ar Hna Hd) as [rest [Ea Pa]].
  assert (Hall : Permutation (map snd (tl aon) ++ map snd aoff) (map snd (tl (prep g ar)))).
  { unfold aon. rewrite Eon, Ea. cbn [tl]. rewrite <- map_app. apply Permutation_map.
    eapply Permutation_trans; [apply Permutation_app; [exact Pon|apply sort_line_perm]|].
    eapply Permutation_trans; [|apply Permutation_sym; exact Pa].
    rewrite (offd_on_part F g lo n ar), (off_part_offd F zero mul g lo n ar Hg). apply on_off_perm. }
  unfold Interp.par_direct_frow. fold aon aoff isc.
  rewrite direct_frow_eq. rewrite <- map_app.
  rewrite <- (map_app snd).
  rewrite (direct_coeffs_perm _ _ _ _ (head_val F zero aon) (Permutation_map snd Hsc) Hall).
  replace (head_val F zero aon) with (head_val F zero (prep g ar)) by (unfold aon; rewrite Eon, Ea; reflexivity).
  apply Permutation_map. exact Hsc.
Qed.

(* ---------- distributed direct interpolation = sequential, all partitions ---------- *)
Notation par_direct_blocks := (par_direct_blocks F zero one add mul opp div ltb eqb).
Notation par_direct_interpolation := (par_direct_interpolation F zero one add mul opp div ltb eqb).
Notation renumber := (renumber F).

(* what the rows must satisfy: no repeated column, diagonal stored *)
Definition rows_wf (AS : list (row * row)) (lo : nat) : Prop :=
  forall g ar sr, In (g, (ar, sr)) (indexed_from lo AS) ->
    NoDup (map fst ar) /\ NoDup (map fst sr) /\ exists d, In (g, d) ar.

Lemma Forall2_map_same {A B C} (R : B -> C -> Prop) (f1 : A -> B) (f2 : A -> C) l :
  (forall x, In x l -> R (f1 x) (f2 x)) -> Forall2 R (map f1 l) (map f2 l).
Proof.
  induction l as [|x l IH]; intros H; simpl; [constructor|].
  constructor; [apply H; left; reflexivity|apply IH; intros y Hy; apply H; right; exact Hy].
Qed.

Lemma par_direct_blocks_perm states part : forall lo AS,
  rows_wf AS lo -> list_sum part = length AS ->
  Forall2 (fun p q => Permutation (renumber states p) q)
    (par_direct_blocks states lo part AS)
    (map (fun t => direct_row states (fst t) (fst (snd t)) (snd (snd t))) (indexed_from lo AS)).
Proof.
  induction part as [|n part IH]; intros lo AS Hwf Hsum; simpl in Hsum |- *.
  - destruct AS; [constructor|simpl in Hsum; lia].
  - assert (Hlen : length (firstn n AS) = n) by (apply firstn_length_le; lia).
    rewrite <- (firstn_skipn n AS) at 3. rewrite indexed_from_app, map_app, Hlen.
    apply Forall2_app.
    + apply Forall2_map_same. intros [g [ar sr]] Hin. cbn [fst snd].
      assert (Hg : lo <= g < lo + n).
      { apply indexed_from_in in Hin. rewrite Hlen in Hin. tauto. }
      assert (Hin' : In (g, (ar, sr)) (indexed_from lo AS)).
      { rewrite <- (firstn_skipn n AS), indexed_from_app. apply in_or_app. left. exact Hin. }
      destruct (Hwf g ar sr Hin') as [Hna [Hns Hd]].
      unfold Interp.par_direct_row, Interp.direct_row. destruct (isC states g).
      * apply Permutation_refl.
      * apply Permutation_map. apply par_direct_frow_perm; assumption.
    + apply IH.
      * intros g ar sr Hin. apply Hwf. rewrite <- (firstn_skipn n AS), indexed_from_app, Hlen.
        apply in_or_app. right. exact Hin.
      * rewrite skipn_length. lia.
Qed.

Theorem par_direct_interpolation_perm (A S : list row) states part :
  rows_wf (combine A S) 0 -> list_sum part = length (combine A S) ->
  Forall2 (fun p q => Permutation (renumber states p) q)
    (par_direct_interpolation A S states part) (direct_interpolation A S states).
Proof. intros Hwf Hs. apply par_direct_blocks_perm; assumption. Qed.

(* ---------- modified classical interpolation ---------- *)
Hypothesis small_zero : small 0 = true.

Notation mc_split := (mc_split F).
Notation empty_split := (empty_split F zero).
Notation mc_contrib := (mc_contrib F zero ltb).
Notation mc_frow := (mc_frow F zero add mul opp div ltb small).
Notation mc_split_row := (mc_split_row F zero add ltb).
Notation walk := (walk F).

Lemma walk_in (ar sr : row) b a : In (b, a) (walk ar sr) -> In a ar /\ (b = true -> In (fst a) (map fst sr)).
Proof.
  revert sr; induction ar as [|x ar IH]; intros sr H; simpl in H; [contradiction|].
  destruct sr as [|s sr'].
  - destruct H as [H|H]; [inversion H; subst; split; [left; reflexivity|discriminate]|].
    apply IH in H. destruct H as [H1 H2]. split; [right; exact H1|exact H2].
  - destruct (fst s =? fst x) eqn:E.
    + destruct H as [H|H].
      * inversion H; subst. split; [left; reflexivity|]. intros _. left. apply Nat.eqb_eq in E. exact E.
      * apply IH in H. destruct H as [H1 H2]. split; [right; exact H1|]. intros Hb. right. apply H2. exact Hb.
    + destruct H as [H|H]; [inversion H; subst; split; [left; reflexivity|discriminate]|].
      apply IH in H. destruct H as [H1 H2]. split; [right; exact H1|exact H2].
Qed.

Lemma tl_incl {X} (l : list X) x : In x (tl l) -> In x l.
Proof. destruct l; simpl; tauto. Qed.

(* the strong Selected entries of row i are entries of A whose column is a strong neighbour and a C point *)
Lemma mc_split_SS_spec states nv vars i (ar sr : row) p :
  In p (sp_SS F (mc_split_row states nv vars i ar sr)) ->
  isC states (fst p) = true /\ In p ar /\ In (fst p) (map fst sr).
Proof.
  unfold Interp.mc_split_row. cbn [sp_SS]. intros H. apply filter_In in H. destruct H as [H Hc].
  split; [exact Hc|]. apply in_map_iff in H. destruct H as [[b a] [E H]]. cbn [snd] in E. subst a.
  apply filter_In in H. destruct H as [H Hb]. cbn [fst] in Hb. subst b.
  apply walk_in in H. destruct H as [H1 H2]. split.
  - apply tl_incl in H1. eapply Permutation_in; [apply prep_row_perm|exact H1].
  - specialize (H2 eq_refl). apply in_map_iff in H2. destruct H2 as [q [Eq Hq]].
    apply tl_incl in Hq. apply (Permutation_in _ (prep_row_perm F i sr)) in Hq.
    rewrite <- Eq. apply in_map. exact Hq.
Qed.

Lemma mc_frow_cols splits i c w :
  In (c, w) (mc_frow splits i) -> In c (map fst (sp_SS F (nth i splits empty_split))).
Proof.
  unfold Interp.mc_frow. intros H. apply in_map_iff in H. destruct H as [p [E Hp]].
  inversion E; subst. apply in_map. exact Hp.
Qed.

(* per strong F neighbour k of row i: (a_ik, coarse_sum, contributing entries of row k) *)
Definition mc_fs (splits : list mc_split) (i : nat) : list (F * F * row) :=
  let si := nth i splits empty_split in
  map (fun p => let ck := mc_contrib (map fst (sp_SS F si)) (sp_neg F si) (nth (fst p) splits empty_split) in
                (snd p, sumF (map snd ck), ck)) (sp_SU F si).
(* the denominator (before the sign change): weak_sum after lumping *)
Definition mc_W (splits : list mc_split) (i : nat) : F :=
  sp_weak F (nth i splits empty_split) +
  sumF (map (fun t => fst (fst t)) (filter (fun t => small (snd (fst t))) (mc_fs splits i))).

Lemma sum_indicator (ci : list nat) c v :
  NoDup ci -> In c ci -> sumF (map (fun c' => if c =? c' then v else 0) ci) = v.
Proof.
  induction ci as [|x ci IH]; simpl; intros Hn Hin; [contradiction|].
  inversion Hn as [|? ? Hx Hn']; subst. destruct Hin as [->|Hin].
  - rewrite Nat.eqb_refl. rewrite (sumf_map_ext F zero add _ (fun _ => 0)).
    + rewrite (sumf_map_zero F zero one add mul sub opp Rth). ring.
    + intros a Ha. destruct (c =? a) eqn:E; [apply Nat.eqb_eq in E; subst; contradiction|reflexivity].
  - destruct (c =? x) eqn:E; [apply Nat.eqb_eq in E; subst; contradiction|].
    rewrite IH by assumption. ring.
Qed.

Lemma double_count (ci : list nat) (ck : row) :
  NoDup ci -> (forall q, In q ck -> In (fst q) ci) ->
  sumF (map (fun c => sumF (map snd (filter (fun q => fst q =? c) ck))) ci) = sumF (map snd ck).
Proof.
  intros Hn. induction ck as [|q ck IH]; intros Hin.
  - simpl. apply (sumf_map_zero F zero one add mul sub opp Rth).
  - rewrite (sumf_map_ext F zero add _
       (fun c => (if fst q =? c then snd q else 0) + sumF (map snd (filter (fun q' => fst q' =? c) ck)))).
    + rewrite (sumf_map_add F zero one add mul sub opp Rth).
      rewrite sum_indicator by (try exact Hn; apply Hin; left; reflexivity).
      rewrite IH by (intros q' Hq'; apply Hin; right; exact Hq'). reflexivity.
    + intros c _. simpl. destruct (fst q =? c); simpl; ring.
Qed.

Lemma div_def a b : div a b = a * inv b.
Proof. apply (Fdiv_def Fth). Qed.

Theorem mc_frow_rowsum splits i :
  let si := nth i splits empty_split in
  NoDup (map fst (sp_SS F si)) ->
  mc_W splits i <> 0 ->
  sp_weak F si + sumF (map snd (sp_SS F si)) + sumF (map snd (sp_SU F si)) = 0 ->
  sumF (map snd (mc_frow splits i)) = 1.
Proof.
  intros si Hn HW H0.
  set (ci := map fst (sp_SS F si)) in *.
  set (fs := mc_fs splits i). set (W := mc_W splits i) in *.
  set (distr := filter (fun t : F * F * row => negb (small (snd (fst t)))) fs).
  set (lumped := filter (fun t : F * F * row => small (snd (fst t))) fs).
  set (extra := fun p : nat * F =>
         sumF (map (fun t : F * F * row => div (fst (fst t)) (snd (fst t)) *
                      sumF (map snd (filter (fun q => fst q =? fst p) (snd t)))) distr)).
  assert (Heq : mc_frow splits i = map (fun p => (fst p, div (snd p + extra p) (opp W))) (sp_SS F si)) by reflexivity.
  rewrite Heq, map_map. cbn [snd].
  rewrite (sumf_map_ext F zero add _ (fun p => (snd p + extra p) * inv (opp W))) by (intros; apply div_def).
  rewrite (sumf_map_mul_r F zero one add mul sub opp Rth).
  rewrite (sumf_map_add F zero one add mul sub opp Rth).
  (* the distributed part: every strong F neighbour hands its whole a_ik over *)
  assert (Hex : sumF (map extra (sp_SS F si)) = sumF (map (fun t => fst (fst t)) distr)).
  { unfold extra. rewrite (sumf_swap F zero one add mul sub opp Rth).
    apply (sumf_map_ext F zero add). intros t Ht.
    rewrite (sumf_map_mul_l F zero one add mul sub opp Rth).
    apply filter_In in Ht. destruct Ht as [Ht Hs]. unfold fs, mc_fs in Ht. apply in_map_iff in Ht.
    destruct Ht as [p [E Hp]]. cbv zeta in E. subst t. cbn [fst snd] in *.
    set (ck := mc_contrib (map fst (sp_SS F (nth i splits empty_split))) (sp_neg F (nth i splits empty_split))
                          (nth (fst p) splits empty_split)) in *.
    rewrite <- (map_map fst (fun c => sumF (map snd (filter (fun q => fst q =? c) ck)))).
    fold si ci. rewrite double_count.
    - assert (Hnz : sumF (map snd ck) <> 0).
      { intros Hz. rewrite Hz, small_zero in Hs. discriminate. }
      field. exact Hnz.
    - exact Hn.
    - intros q Hq. unfold ck, Interp.mc_contrib in Hq. apply filter_In in Hq. destruct Hq as [_ Hq].
      apply Bool.andb_true_iff in Hq. destruct Hq as [Hq _]. apply existsb_exists in Hq.
      destruct Hq as [c [Hc Ec]]. apply Nat.eqb_eq in Ec. fold si ci in Hc. rewrite Ec. exact Hc. }
  rewrite Hex.
  (* all strong F values = lumped + distributed *)
  assert (Hsu : sumF (map snd (sp_SU F si)) =
                sumF (map (fun t => fst (fst t)) lumped) + sumF (map (fun t => fst (fst t)) distr)).
  { transitivity (sumF (map (fun t : F * F * row => fst (fst t)) fs)).
    - unfold fs, mc_fs. rewrite map_map. reflexivity.
    - apply (sumf_filter_split F zero one add mul sub opp Rth). }
  assert (HWd : W = sp_weak F si + sumF (map (fun t => fst (fst t)) lumped)) by reflexivity.
  rewrite Hsu in H0.
  set (sl := sumF (map (fun t : F * F * row => fst (fst t)) lumped)) in *.
  set (sd := sumF (map (fun t : F * F * row => fst (fst t)) distr)) in *.
  set (ss := sumF (map snd (sp_SS F si))) in *.
  assert (Hs : ss + sd = opp W).
  { rewrite HWd. rewrite <- (Radd_0_l Rth (opp (sp_weak F si + sl))), <- H0. ring. }
  rewrite Hs. field. intros Hz. apply HW.
  assert (HWW : W = opp (opp W)) by ring. rewrite HWW, Hz. ring.
Qed.

(* ---------- extended interpolation: the pattern ---------- *)
Notation ext_pattern := (ext_pattern F).

Lemma add_new_in c x l : In x (add_new c l) <-> x = c \/ In x l.
Proof.
  unfold add_new. destruct (existsb (Nat.eqb c) l) eqn:E.
  - split; [intros H; right; exact H|]. intros [->|H]; [|exact H].
    apply existsb_exists in E. destruct E as [y [Hy Ey]]. apply Nat.eqb_eq in Ey. subst. exact Hy.
  - rewrite in_app_iff. simpl. intuition.
Qed.

Lemma add_new_nodup c l : NoDup l -> NoDup (add_new c l).
Proof.
  unfold add_new. intros Hn. destruct (existsb (Nat.eqb c) l) eqn:E; [exact Hn|].
  assert (Hc : ~ In c l).
  { intros Hin. apply Bool.not_true_iff_false in E. apply E. apply existsb_exists. exists c. split; [exact Hin|apply Nat.eqb_refl]. }
  apply (Permutation_NoDup (l := c :: l)); [|constructor; assumption].
  apply Permutation_cons_append.
Qed.

Lemma fold_left_inv {A B} (f : A -> B -> A) (P : A -> Prop) l a :
  P a -> (forall a b, In b l -> P a -> P (f a b)) -> P (fold_left f l a).
Proof.
  revert a; induction l as [|b l IH]; intros a Ha Hf; simpl; [exact Ha|].
  apply IH; [apply Hf; [left; reflexivity|exact Ha]|]. intros a' b' Hb'. apply Hf. right. exact Hb'.
Qed.

Lemma fold_left_reaches {A B} (f : A -> B -> A) (Q : A -> Prop) l a b0 :
  In b0 l -> (forall a, Q (f a b0)) -> (forall a b, Q a -> Q (f a b)) -> Q (fold_left f l a).
Proof.
  revert a; induction l as [|b l IH]; intros a Hin H0 Hk; [contradiction|]. simpl.
  destruct Hin as [->|Hin].
  - apply fold_left_inv; [apply H0|]. intros a' b' _ Ha'. apply Hk. exact Ha'.
  - apply IH; assumption.
Qed.

Definition inner_step (states : list nat) (acc : list nat) (q : nat * F) : list nat :=
  if isC states (fst q) then add_new (fst q) acc else acc.
Definition outer_step (Soff : list row) (states : list nat) (acc : list nat) (p : nat * F) : list nat :=
  if isC states (fst p) then add_new (fst p) acc
  else if isU states (fst p) then fold_left (inner_step states) (nth (fst p) Soff []) acc
  else acc.

Lemma ext_pattern_eq Soff states i :
  ext_pattern Soff states i = fold_left (outer_step Soff states) (nth i Soff []) [].
Proof. reflexivity. Qed.

(* every pattern column is a C point at strong distance one or two (through an Unselected strong neighbour) *)
Definition near (Soff : list row) (states : list nat) (i c : nat) : Prop :=
  isC states c = true /\
  (In c (map fst (nth i Soff [])) \/
   exists k, In k (map fst (nth i Soff [])) /\ isU states k = true /\ In c (map fst (nth k Soff []))).

Lemma ext_pattern_near Soff states i c : In c (ext_pattern Soff states i) -> near Soff states i c.
Proof.
  rewrite ext_pattern_eq. revert c.
  apply (fold_left_inv (outer_step Soff states) (fun acc => forall c, In c acc -> near Soff states i c)).
  - intros c [].
  - intros acc p Hp Hacc c Hc. unfold outer_step in Hc.
    destruct (isC states (fst p)) eqn:EC.
    + apply add_new_in in Hc. destruct Hc as [->|Hc]; [|apply Hacc; exact Hc].
      split; [exact EC|]. left. apply in_map. exact Hp.
    + destruct (isU states (fst p)) eqn:EU; [|apply Hacc; exact Hc].
      revert c Hc.
      apply (fold_left_inv (inner_step states) (fun acc' => forall c, In c acc' -> near Soff states i c)).
      * exact Hacc.
      * intros acc' q Hq Hacc' c Hc. unfold inner_step in Hc.
        destruct (isC states (fst q)) eqn:EQ; [|apply Hacc'; exact Hc].
        apply add_new_in in Hc. destruct Hc as [->|Hc]; [|apply Hacc'; exact Hc].
        split; [exact EQ|]. right. exists (fst p). split; [apply in_map; exact Hp|]. split; [exact EU|apply in_map; exact Hq].
Qed.

Lemma ext_pattern_nodup Soff states i : NoDup (ext_pattern Soff states i).
Proof.
  rewrite ext_pattern_eq. apply (fold_left_inv (outer_step Soff states) (@NoDup nat)); [constructor|].
  intros acc p _ Hacc. unfold outer_step. destruct (isC states (fst p)); [apply add_new_nodup; exact Hacc|].
  destruct (isU states (fst p)); [|exact Hacc].
  apply (fold_left_inv (inner_step states) (@NoDup nat)); [exact Hacc|].
  intros acc' q _ Hacc'. unfold inner_step. destruct (isC states (fst q)); [apply add_new_nodup|]; exact Hacc'.
Qed.

Lemma outer_step_grows Soff states acc p x : In x acc -> In x (outer_step Soff states acc p).
Proof.
  intros Hx. unfold outer_step. destruct (isC states (fst p)); [apply add_new_in; right; exact Hx|].
  destruct (isU states (fst p)); [|exact Hx].
  apply (fold_left_inv (inner_step states) (fun acc' => In x acc')); [exact Hx|].
  intros acc' q _ H. unfold inner_step. destruct (isC states (fst q)); [apply add_new_in; right|]; exact H.
Qed.

(* every strong C neighbour is in the pattern *)
Lemma ext_pattern_strongC Soff states i p :
  In p (nth i Soff []) -> isC states (fst p) = true -> In (fst p) (ext_pattern Soff states i).
Proof.
  intros Hp Hc. rewrite ext_pattern_eq.
  apply (fold_left_reaches (outer_step Soff states) (fun acc => In (fst p) acc) _ [] p Hp).
  - intros a. unfold outer_step. rewrite Hc. apply add_new_in. left. reflexivity.
  - intros a b Ha. apply outer_step_grows. exact Ha.
Qed.

Notation ext_frow := (ext_frow F zero add mul opp div ltb small).

Lemma ext_frow_cols Ap Sp Soff states nv vars i c w :
  In (c, w) (ext_frow Ap Sp Soff states nv vars i) -> In c (ext_pattern Soff states i).
Proof.
  unfold Interp.ext_frow. intros H. apply in_map_iff in H. destruct H as [c' [E Hc]]. inversion E; subst. exact Hc.
Qed.

(* ---------- extended interpolation: row sums ---------- *)
Notation opp_sign := (opp_sign F zero ltb).
Notation has_col := (has_col F).

Definition e_inhat (Soff : list row) (states : list nat) (i c : nat) : bool :=
  existsb (Nat.eqb c) (ext_pattern Soff states i).
Definition e_weak (Ap Soff : list row) (i : nat) : row :=
  map snd (filter (fun t => negb (fst t)) (walk (tl (nth i Ap [])) (nth i Soff []))).
(* weak entries that go to the diagonal / into the weight of a pattern point *)
Definition e_weak_diag (Ap Soff : list row) states nv vars i : row :=
  filter (fun p => (isU states (fst p) || negb (e_inhat Soff states i (fst p))) && same_var' nv vars i (fst p))
         (e_weak Ap Soff i).
Definition e_weak_hat (Ap Soff : list row) states i : row :=
  filter (fun p => negb (isU states (fst p) || negb (e_inhat Soff states i (fst p)))) (e_weak Ap Soff i).
(* per strong Unselected neighbour j: (S value, coefficient, (small?, (sign of a_jj, row j of A))) *)
Definition e_cs (Ap Sp Soff : list row) states i (j : nat) : F :=
  sumF (map snd (filter (fun q => (e_inhat Soff states i (fst q) || (fst q =? i))
                                  && opp_sign (ltb (head_val F zero (nth j Sp [])) 0) (snd q)) (nth j Ap []))).
Definition e_fs (Ap Sp Soff : list row) states i : list (F * F * (bool * (bool * row))) :=
  map (fun p => let j := fst p in let cs := e_cs Ap Sp Soff states i j in
                (snd p, (if small cs then cs else div (snd p) cs),
                 (small cs, (ltb (head_val F zero (nth j Sp [])) 0, nth j Ap []))))
      (filter (fun p => isU states (fst p)) (nth i Soff [])).
Definition e_back (states : list nat) (i : nat) (t : F * F * (bool * (bool * row))) : F :=
  sumF (map snd (filter (fun q => negb (isC states (fst q)) && (fst q =? i)) (tl (snd (snd (snd t)))))).
Definition e_W (Ap Sp Soff : list row) states nv vars i : F :=
  head_val F zero (nth i Ap []) + sumF (map snd (e_weak_diag Ap Soff states nv vars i))
  + sumF (map (fun t => fst (fst t)) (filter (fun t => fst (snd t)) (e_fs Ap Sp Soff states i)))
  + sumF (map (fun t => snd (fst t) * e_back states i t) (e_fs Ap Sp Soff states i)).

Lemma filter_col_unique (r : row) c v :
  NoDup (map fst r) -> In (c, v) r -> filter (fun q => fst q =? c) r = [(c, v)].
Proof.
  induction r as [|[c' v'] r IH]; simpl; intros Hn Hin; [contradiction|].
  inversion Hn as [|? ? Hx Hn']; subst. destruct (c' =? c) eqn:E.
  - apply Nat.eqb_eq in E. subst c'. destruct Hin as [Hin|Hin].
    + inversion Hin; subst. f_equal. apply filter_nothing. intros q Hq.
      apply Nat.eqb_neq. intros Heq. apply Hx. rewrite <- Heq. apply in_map. exact Hq.
    + exfalso. apply Hx. change c with (fst (c, v)). apply in_map. exact Hin.
  - destruct Hin as [Hin|Hin]; [inversion Hin; subst; rewrite Nat.eqb_refl in E; discriminate|].
    apply IH; assumption.
Qed.

Lemma sum_filter_or {A} (P1 P2 : A -> bool) (f : A -> F) l :
  (forall q, In q l -> P1 q && P2 q = false) ->
  sumF (map f (filter (fun q => P1 q || P2 q) l)) = sumF (map f (filter P1 l)) + sumF (map f (filter P2 l)).
Proof.
  induction l as [|q l IH]; intros H; [simpl; ring|].
  assert (Hq := H q (or_introl eq_refl)).
  assert (IH' := IH (fun q' Hq' => H q' (or_intror Hq'))).
  cbn [filter]. destruct (P1 q); destruct (P2 q); cbn [orb andb] in *; try discriminate; cbn [map sumf fold_right]; rewrite ?IH'; try ring.
  - change (fold_right add 0 (map f (filter (fun q0 => P1 q0 || P2 q0) l))) with (sumF (map f (filter (fun q0 => P1 q0 || P2 q0) l))).
    rewrite IH'. unfold sumf. ring.
  - change (fold_right add 0 (map f (filter (fun q0 => P1 q0 || P2 q0) l))) with (sumF (map f (filter (fun q0 => P1 q0 || P2 q0) l))).
    rewrite IH'. unfold sumf. ring.
Qed.

Lemma sum_if_filter {A} (b : A -> bool) (f : A -> F) l :
  sumF (map (fun t => if b t then 0 else f t) l) = sumF (map f (filter (fun t => negb (b t)) l)).
Proof. induction l as [|t l IH]; simpl; [reflexivity|]. destruct (b t); simpl; rewrite IH; ring. Qed.

Lemma e_inhat_in Soff states i c : e_inhat Soff states i c = true <-> In c (ext_pattern Soff states i).
Proof.
  unfold e_inhat. rewrite existsb_exists. split.
  - intros [x [Hx E]]. apply Nat.eqb_eq in E. subst. exact Hx.
  - intros H. exists c. split; [exact H|apply Nat.eqb_refl].
Qed.

Theorem ext_frow_rowsum Ap Sp Soff states nv vars i :
  let si := nth i Soff [] in
  NoDup (map fst si) -> isC states i = false ->
  e_W Ap Sp Soff states nv vars i <> 0 ->
  (* the accounted row sum is zero *)
  head_val F zero (nth i Ap []) + sumF (map snd (e_weak_diag Ap Soff states nv vars i))
    + sumF (map snd (e_weak_hat Ap Soff states i))
    + sumF (map snd (filter (fun p => isC states (fst p)) si))
    + sumF (map snd (filter (fun p => isU states (fst p)) si)) = 0 ->
  (* per strong Unselected neighbour j *)
  (forall p, In p si -> isU states (fst p) = true ->
     let j := fst p in
     (small (e_cs Ap Sp Soff states i j) = true -> e_cs Ap Sp Soff states i j = 0) /\
     (forall q, hd_error (nth j Ap []) = Some q -> fst q = j /\ j <> i) /\
     (forall q, In q (tl (nth j Ap [])) -> fst q = i ->
                opp_sign (ltb (head_val F zero (nth j Sp [])) 0) (snd q) = true)) ->
  sumF (map snd (ext_frow Ap Sp Soff states nv vars i)) = 1.
Proof.
  intros si Hnd HiF HW H0 Hnb.
  set (chat := ext_pattern Soff states i).
  set (fs := e_fs Ap Sp Soff states i).
  set (W := e_W Ap Sp Soff states nv vars i) in *.
  set (init := fun c : nat =>
         (if isC states c && has_col c si then val_at c si else 0)
         + sumF (map snd (filter (fun p => fst p =? c) (e_weak_hat Ap Soff states i)))).
  set (E := fun (t : F * F * (bool * (bool * row))) (c : nat) =>
         sumF (map snd (filter (fun q => isC states (fst q) && (fst q =? c) && opp_sign (fst (snd (snd t))) (snd q))
                               (tl (snd (snd (snd t))))))).
  set (extra := fun c : nat => sumF (map (fun t => snd (fst t) * E t c) fs)).
  assert (Heq : ext_frow Ap Sp Soff states nv vars i = map (fun c => (c, div (init c + extra c) (opp W))) chat)
    by reflexivity.
  rewrite Heq, map_map. cbn [snd].
  rewrite (sumf_map_ext F zero add _ (fun c => (init c + extra c) * inv (opp W))) by (intros; apply div_def).
  rewrite (sumf_map_mul_r F zero one add mul sub opp Rth).
  rewrite (sumf_map_add F zero one add mul sub opp Rth).
  assert (Hchat_nd : NoDup chat) by apply ext_pattern_nodup.
  assert (HchatC : forall c, In c chat -> isC states c = true).
  { intros c Hc. apply ext_pattern_near in Hc. destruct Hc as [Hc _]. exact Hc. }
  (* strong coarse values and weak values of pattern points *)
  assert (Hinit : sumF (map init chat) =
                  sumF (map snd (filter (fun p => isC states (fst p)) si)) + sumF (map snd (e_weak_hat Ap Soff states i))).
  { unfold init. rewrite (sumf_map_add F zero one add mul sub opp Rth). f_equal.
    - rewrite <- (double_count chat (filter (fun p => isC states (fst p)) si) Hchat_nd).
      + apply (sumf_map_ext F zero add). intros c Hc.
        rewrite filter_filter.
        rewrite (filter_ext (fun a : nat * F => isC states (fst a) && (fst a =? c))
                            (fun a => (fst a =? c) && isC states (fst a))) by (intros; apply Bool.andb_comm).
        rewrite <- filter_filter.
        destruct (col_dec c si) as [[v Hv]|Hno].
        * rewrite (filter_col_unique si c v Hnd Hv). cbn [filter fst].
          replace (has_col c si) with true
            by (symmetry; apply existsb_exists; exists (c, v); split; [exact Hv|apply Nat.eqb_refl]).
          rewrite (val_at_in c v si Hnd Hv). rewrite Bool.andb_true_r.
          destruct (isC states c); simpl; ring.
        * rewrite (filter_nothing (fun q : nat * F => fst q =? c) si)
            by (intros q Hq; apply Nat.eqb_neq; apply Hno; exact Hq).
          replace (has_col c si) with false.
          2:{ symmetry. apply Bool.not_true_iff_false. intros Hh. apply existsb_exists in Hh.
              destruct Hh as [q [Hq Eq]]. apply Nat.eqb_eq in Eq. exact (Hno q Hq Eq). }
          rewrite Bool.andb_false_r. reflexivity.
      + intros q Hq. apply filter_In in Hq. destruct Hq as [Hq Hc]. apply ext_pattern_strongC; assumption.
    - apply double_count; [exact Hchat_nd|].
      intros q Hq. unfold e_weak_hat in Hq. apply filter_In in Hq. destruct Hq as [_ Hq].
      apply Bool.negb_true_iff, Bool.orb_false_iff in Hq. destruct Hq as [_ Hq].
      apply Bool.negb_false_iff in Hq. apply e_inhat_in. exact Hq. }
  (* distributed values *)
  set (Et := fun t : F * F * (bool * (bool * row)) =>
         sumF (map snd (filter (fun q => isC states (fst q) && e_inhat Soff states i (fst q)
                                         && opp_sign (fst (snd (snd t))) (snd q)) (tl (snd (snd (snd t))))))).
  assert (Hextra : sumF (map extra chat) = sumF (map (fun t => snd (fst t) * Et t) fs)).
  { unfold extra. rewrite (sumf_swap F zero one add mul sub opp Rth).
    apply (sumf_map_ext F zero add). intros t _.
    rewrite (sumf_map_mul_l F zero one add mul sub opp Rth). f_equal. unfold E, Et.
    rewrite <- (double_count chat _ Hchat_nd).
    - apply (sumf_map_ext F zero add). intros c Hc. f_equal. f_equal.
      rewrite filter_filter. apply filter_ext_in. intros q _.
      destruct (fst q =? c) eqn:Eq.
      + apply Nat.eqb_eq in Eq. rewrite Eq.
        replace (e_inhat Soff states i c) with true by (symmetry; apply e_inhat_in; exact Hc).
        destruct (isC states c); destruct (opp_sign (fst (snd (snd t))) (snd q)); reflexivity.
      + rewrite Bool.andb_false_r. simpl. rewrite Bool.andb_false_r. reflexivity.
    - intros q Hq. apply filter_In in Hq. destruct Hq as [_ Hq].
      apply Bool.andb_true_iff in Hq. destruct Hq as [Hq _]. apply Bool.andb_true_iff in Hq. destruct Hq as [_ Hq].
      apply e_inhat_in. exact Hq. }
  rewrite Hinit, Hextra.
  (* each strong Unselected neighbour hands over exactly its S value, or is lumped *)
  assert (Ht : forall t, In t fs ->
            snd (fst t) * Et t + snd (fst t) * e_back states i t = if fst (snd t) then 0 else fst (fst t)).
  { intros t Hin. unfold fs, e_fs in Hin. apply in_map_iff in Hin. destruct Hin as [p [Ep Hp]].
    apply filter_In in Hp. destruct Hp as [Hp HU]. destruct (Hnb p Hp HU) as [Hsm [Hhd Hsg]]. cbv zeta in Hsm, Hhd, Hsg.
    cbv zeta in Ep. subst t. cbn [fst snd]. unfold Et, e_back. cbn [fst snd].
    set (j := fst p) in *. set (cs := e_cs Ap Sp Soff states i j) in *.
    set (negj := ltb (head_val F zero (nth j Sp [])) 0) in *. set (aj := nth j Ap []) in *.
    (* the coarse sum splits into the pattern part and the "+i" part *)
    assert (Hcs : cs =
              sumF (map snd (filter (fun q => isC states (fst q) && e_inhat Soff states i (fst q) && opp_sign negj (snd q)) (tl aj)))
              + sumF (map snd (filter (fun q => negb (isC states (fst q)) && (fst q =? i)) (tl aj)))).
    { unfold cs, e_cs. fold j negj aj.
      rewrite <- sum_filter_or.
      - destruct aj as [|q0 aj'] eqn:Eaj; [reflexivity|]. cbn [tl].
        destruct (Hhd q0 eq_refl) as [Hq0 Hji].
        cbn [filter].
        assert (Hex0 : (e_inhat Soff states i (fst q0) || (fst q0 =? i)) = false).
        { rewrite Hq0. apply Bool.orb_false_iff. split; [|apply Nat.eqb_neq; exact Hji].
          apply Bool.not_true_iff_false. intros Hh. apply e_inhat_in in Hh. apply HchatC in Hh.
          unfold isU, isC in *. apply Nat.eqb_eq in HU. fold j in HU. rewrite HU in Hh. discriminate. }
        rewrite Hex0. cbn [andb]. f_equal. f_equal. apply filter_ext_in. intros q Hq.
        destruct (isC states (fst q)) eqn:EC; cbn [negb andb orb].
        + replace (fst q =? i) with false.
          2:{ symmetry. apply Nat.eqb_neq. intros Hqi. rewrite Hqi, HiF in EC. discriminate. }
          rewrite Bool.orb_false_r, Bool.orb_false_r. reflexivity.
        + replace (e_inhat Soff states i (fst q)) with false.
          2:{ symmetry. apply Bool.not_true_iff_false. intros Hh. apply e_inhat_in in Hh. apply HchatC in Hh. congruence. }
          cbn [orb]. destruct (fst q =? i) eqn:Ei; [|reflexivity].
          apply Nat.eqb_eq in Ei. rewrite (Hsg q); [reflexivity| |exact Ei]. exact Hq.
      - intros q _. destruct (isC states (fst q)); simpl; [rewrite Bool.andb_false_r|]; reflexivity. }
    match goal with |- ?c * ?x + ?c * ?y = _ => replace (c * x + c * y) with (c * (x + y)) by ring end.
    rewrite <- Hcs.
    destruct (small cs) eqn:Es.
    - rewrite (Hsm eq_refl). ring.
    - assert (Hnz : cs <> 0) by (intros Hz; rewrite Hz, small_zero in Es; discriminate).
      field. exact Hnz. }
  assert (Hsum_t : sumF (map (fun t => snd (fst t) * Et t) fs) + sumF (map (fun t => snd (fst t) * e_back states i t) fs)
                   = sumF (map (fun t => fst (fst t)) (filter (fun t => negb (fst (snd t))) fs))).
  { rewrite <- (sumf_map_add F zero one add mul sub opp Rth).
    rewrite (sumf_map_ext F zero add _ (fun t : F * F * (bool * (bool * row)) => if fst (snd t) then 0 else fst (fst t))) by exact Ht.
    apply sum_if_filter. }
  assert (Hsu : sumF (map snd (filter (fun p => isU states (fst p)) si)) =
                sumF (map (fun t => fst (fst t)) (filter (fun t => fst (snd t)) fs))
                + sumF (map (fun t => fst (fst t)) (filter (fun t => negb (fst (snd t))) fs))).
  { transitivity (sumF (map (fun t : F * F * (bool * (bool * row)) => fst (fst t)) fs)).
    - unfold fs, e_fs. rewrite map_map. reflexivity.
    - apply (sumf_filter_split F zero one add mul sub opp Rth). }
  rewrite Hsu in H0.
  assert (HWd : W = head_val F zero (nth i Ap []) + sumF (map snd (e_weak_diag Ap Soff states nv vars i))
                    + sumF (map (fun t => fst (fst t)) (filter (fun t => fst (snd t)) fs))
                    + sumF (map (fun t => snd (fst t) * e_back states i t) fs)) by reflexivity.
  set (hd := head_val F zero (nth i Ap [])) in *.
  set (wd := sumF (map snd (e_weak_diag Ap Soff states nv vars i))) in *.
  set (wh := sumF (map snd (e_weak_hat Ap Soff states i))) in *.
  set (sc := sumF (map snd (filter (fun p => isC states (fst p)) si))) in *.
  set (sl := sumF (map (fun t => fst (fst t)) (filter (fun t => fst (snd t)) fs))) in *.
  set (sok := sumF (map (fun t => fst (fst t)) (filter (fun t => negb (fst (snd t))) fs))) in *.
  set (sE := sumF (map (fun t => snd (fst t) * Et t) fs)) in *.
  set (sB := sumF (map (fun t => snd (fst t) * e_back states i t) fs)) in *.
  assert (Hnum : sc + wh + sE = opp W).
  { rewrite HWd. rewrite <- (Radd_0_l Rth (opp (hd + wd + sl + sB))), <- H0, <- Hsum_t. ring. }
  rewrite Hnum. field. intros Hz. apply HW.
  assert (HWW : W = opp (opp W)) by ring. rewrite HWW, Hz. ring.
Qed.

(* ---------- matrix level: rows of the three operators ---------- *)
Notation mod_classical_interpolation := (mod_classical_interpolation F zero one add mul opp div ltb small).
Notation extended_interpolation := (extended_interpolation F zero one add mul opp div ltb small).
Notation mc_splits := (mc_splits F zero add ltb).

Lemma zip_rows_nth {G : Type} (g : nat * (row * row) -> G) (A S : list row) i d :
  length A = length S -> i < length A ->
  nth i (map g (zip_rows F A S)) d = g (i, (nth i A [], nth i S [])).
Proof.
  intros Hl Hi. unfold zip_rows.
  rewrite (nth_map_indexed' g (combine A S) i ([], []) d) by (rewrite combine_length; lia).
  rewrite combine_nth by exact Hl. reflexivity.
Qed.

Lemma direct_interpolation_nth (A S : list row) states i :
  length A = length S -> i < length A ->
  nth i (direct_interpolation A S states) [] = direct_row states i (nth i A []) (nth i S []).
Proof. intros Hl Hi. unfold Interp.direct_interpolation. rewrite zip_rows_nth by assumption. reflexivity. Qed.

Lemma mc_splits_nth (A S : list row) states nv vars i :
  length A = length S -> i < length A ->
  nth i (mc_splits A S states nv vars) empty_split = mc_split_row states nv vars i (nth i A []) (nth i S []).
Proof. intros Hl Hi. unfold Interp.mc_splits. rewrite zip_rows_nth by assumption. reflexivity. Qed.

Lemma mod_classical_nth (A S : list row) states nv vars i :
  length A = length S -> i < length A ->
  nth i (mod_classical_interpolation A S states nv vars) [] =
  if isC states i then [(rankC states i, 1)] else renumber states (mc_frow (mc_splits A S states nv vars) i).
Proof. intros Hl Hi. unfold Interp.mod_classical_interpolation. cbv zeta. rewrite zip_rows_nth by assumption. reflexivity. Qed.

Definition prepped (M : list row) : list row := map (fun ir => prep (fst ir) (snd ir)) (indexed M).
Definition offdiag (M : list row) : list row := map (fun r => tl r) (prepped M).

Lemma prepped_nth (M : list row) i : nth i (prepped M) [] = prep i (nth i M []).
Proof.
  destruct (Nat.lt_ge_cases i (length M)) as [Hi|Hi].
  - unfold prepped. apply (nth_map_indexed' (fun ir : nat * row => prep (fst ir) (snd ir)) M i [] [] Hi).
  - rewrite nth_overflow by (unfold prepped, indexed; rewrite map_length, indexed_from_length; exact Hi).
    rewrite (nth_overflow M) by exact Hi. reflexivity.
Qed.

Lemma offdiag_nth (M : list row) i : nth i (offdiag M) [] = tl (prep i (nth i M [])).
Proof.
  unfold offdiag. change (@nil (nat * F)) with (tl (@nil (nat * F))) at 1.
  rewrite map_nth. rewrite prepped_nth. reflexivity.
Qed.

Lemma extended_nth (A S : list row) states nv vars i :
  i < length A ->
  nth i (extended_interpolation A S states nv vars) [] =
  if isC states i then [(rankC states i, 1)]
  else renumber states (ext_frow (prepped A) (prepped S) (offdiag S) states nv vars i).
Proof.
  intros Hi. unfold Interp.extended_interpolation. cbv zeta.
  match goal with |- nth i (map ?g (indexed A)) [] = _ => exact (nth_map_indexed' g A i [] [] Hi) end.
Qed.

(* ---------- support, in the vocabulary of the checker ---------- *)
Notation strong_nb := (strong_nb F).
Notation reach := (reach F).

Lemma has_col_in c (r : row) : has_col c r = true <-> In c (map fst r).
Proof.
  unfold Interp.has_col. rewrite existsb_exists. split.
  - intros [p [Hp E]]. apply Nat.eqb_eq in E. subst. apply in_map. exact Hp.
  - intros H. apply in_map_iff in H. destruct H as [p [E Hp]]. exists p. split; [exact Hp|apply Nat.eqb_eq; exact E].
Qed.

Lemma strong_nb_intro (S : list row) states i j :
  isC states i = false -> isC states j = true -> In j (map fst (nth i S [])) -> strong_nb S i j = true.
Proof.
  intros Hi Hj Hin. unfold Interp.strong_nb. apply Bool.andb_true_iff. split; [|apply has_col_in; exact Hin].
  apply Bool.negb_true_iff. apply Nat.eqb_neq. intros ->. congruence.
Qed.

Lemma renumber_in states (r : row) c w :
  In (c, w) (renumber states r) -> exists j, c = rankC states j /\ In (j, w) r.
Proof.
  unfold Interp.renumber. intros H. apply in_map_iff in H. destruct H as [[j w'] [E Hp]].
  cbn [fst snd] in E. inversion E; subst. exists j. split; [reflexivity|exact Hp].
Qed.

Theorem direct_support (A S : list row) states i c w :
  length A = length S -> i < length A -> isC states i = false ->
  In (c, w) (nth i (direct_interpolation A S states) []) ->
  exists j, c = rankC states j /\ isC states j = true /\ reach 1 S i j = true.
Proof.
  intros Hl Hi HF Hin. rewrite direct_interpolation_nth in Hin by assumption.
  unfold Interp.direct_row in Hin. rewrite HF in Hin. apply renumber_in in Hin. destruct Hin as [j [-> Hj]].
  apply direct_frow_support in Hj. destruct Hj as [HC Hs]. exists j. split; [reflexivity|]. split; [exact HC|].
  unfold Interp.reach. rewrite (strong_nb_intro S states i j HF HC Hs). reflexivity.
Qed.

Theorem mod_classical_support (A S : list row) states nv vars i c w :
  length A = length S -> i < length A -> isC states i = false ->
  In (c, w) (nth i (mod_classical_interpolation A S states nv vars) []) ->
  exists j, c = rankC states j /\ isC states j = true /\ reach 1 S i j = true.
Proof.
  intros Hl Hi HF Hin. rewrite mod_classical_nth in Hin by assumption. rewrite HF in Hin.
  apply renumber_in in Hin. destruct Hin as [j [-> Hj]].
  apply mc_frow_cols in Hj. rewrite mc_splits_nth in Hj by assumption.
  apply in_map_iff in Hj. destruct Hj as [p [E Hp]]. apply mc_split_SS_spec in Hp. destruct Hp as [HC [_ Hs]].
  rewrite E in *. exists j. split; [reflexivity|]. split; [exact HC|].
  unfold Interp.reach. rewrite (strong_nb_intro S states i j HF HC Hs). reflexivity.
Qed.

Lemma tl_prep_cols i (r : row) c :
  NoDup (map fst r) -> In c (map fst (tl (prep i r))) -> In c (map fst r) /\ c <> i.
Proof.
  intros Hn Hin. destruct (prep_row_shape F i r Hn) as [[d [rest [Hp [_ [Hperm Hrest]]]]]|[Hperm Hno]].
  - rewrite Hp in Hin. cbn [tl] in Hin. apply in_map_iff in Hin. destruct Hin as [q [E Hq]]. subst c. split.
    + apply (Permutation_in _ Hperm) in Hq. apply filter_In in Hq. apply in_map. tauto.
    + apply Hrest. exact Hq.
  - apply in_map_iff in Hin. destruct Hin as [q [E Hq]]. subst c. apply tl_incl in Hq.
    apply (Permutation_in _ Hperm) in Hq. split; [apply in_map; exact Hq|apply Hno; exact Hq].
Qed.

Theorem extended_support (A S : list row) states nv vars i c w :
  i < length A -> isC states i = false -> (forall k, NoDup (map fst (nth k S []))) ->
  In (c, w) (nth i (extended_interpolation A S states nv vars) []) ->
  exists j, c = rankC states j /\ isC states j = true /\ reach 2 S i j = true.
Proof.
  intros Hi HF Hnd Hin. rewrite extended_nth in Hin by assumption. rewrite HF in Hin.
  apply renumber_in in Hin. destruct Hin as [j [-> Hj]].
  apply ext_frow_cols in Hj. apply ext_pattern_near in Hj. destruct Hj as [HC Hnear].
  exists j. split; [reflexivity|]. split; [exact HC|]. unfold Interp.reach.
  destruct Hnear as [H1|[k [Hk [HU Hkj]]]].
  - rewrite offdiag_nth in H1. apply (tl_prep_cols i _ j (Hnd i)) in H1. destruct H1 as [H1 _].
    rewrite (strong_nb_intro S states i j HF HC H1). reflexivity.
  - rewrite offdiag_nth in Hk, Hkj.
    apply (tl_prep_cols i _ k (Hnd i)) in Hk. destruct Hk as [Hk Hki].
    apply (tl_prep_cols k _ j (Hnd k)) in Hkj. destruct Hkj as [Hkj _].
    apply Bool.orb_true_iff. right. cbn [Nat.leb andb].
    apply existsb_exists. apply in_map_iff in Hk. destruct Hk as [p [Ep Hp]]. exists p. split; [exact Hp|].
    rewrite Ep. apply Bool.andb_true_iff. split; [apply Bool.negb_true_iff; apply Nat.eqb_neq; exact Hki|].
    apply (strong_nb_intro S states k j); [|exact HC|exact Hkj].
    unfold isU, isC in *. apply Nat.eqb_eq in HU. rewrite HU. reflexivity.
Qed.

(* ---------- injection ---------- *)
Theorem injection_all (A S : list row) states nv vars i :
  length A = length S -> i < length A -> isC states i = true ->
  nth i (direct_interpolation A S states) [] = [(rankC states i, 1)] /\
  nth i (mod_classical_interpolation A S states nv vars) [] = [(rankC states i, 1)] /\
  nth i (extended_interpolation A S states nv vars) [] = [(rankC states i, 1)].
Proof.
  intros Hl Hi HC. rewrite direct_interpolation_nth, mod_classical_nth, extended_nth by assumption.
  unfold Interp.direct_row. rewrite HC. repeat split.
Qed.

(* ---------- the verified checker ---------- *)
Variable close1 : F -> bool.
Notation interp_ok := (interp_ok F zero one add ltb eqb close1).
Notation row_ok := (row_ok F zero one add ltb eqb close1).
Notation has_neg_C := (has_neg_C F zero ltb).
Notation acc_row_sum := (acc_row_sum F zero add).

(* the clauses of the property, as a proposition about (A, S, states, P) *)
Definition interp_spec (dist nv : nat) (vars : list nat) (A S : list row) (states : list nat) (P : list row) : Prop :=
  length P = length A /\
  forall i, i < length P ->
    let pr := nth i P [] in
    (isC states i = true -> pr = [(rankC states i, 1)]) /\
    (isC states i = false ->
       (forall c w, In (c, w) pr ->
          exists j, j < length states /\ isC states j = true /\ rankC states j = c /\ reach dist S i j = true) /\
       (acc_row_sum nv vars i (nth i A []) = 0 -> has_neg_C S states i = true ->
          close1 (sumF (map snd pr)) = true)).

Lemma indexed_nth_in {X} (l : list X) i d : i < length l -> In (i, nth i l d) (indexed l).
Proof.
  intros H. unfold indexed. rewrite (indexed_from_seq 0 l d). apply in_map_iff. exists i.
  split; [rewrite Nat.sub_0_r; reflexivity|apply in_seq; lia].
Qed.

Theorem interp_ok_sound dist nv vars (A S : list row) states (P : list row) :
  interp_ok dist nv vars A S states P = true -> interp_spec dist nv vars A S states P.
Proof.
  unfold Interp.interp_ok. intros H. apply Bool.andb_true_iff in H. destruct H as [Hl Hall].
  apply Nat.eqb_eq in Hl. split; [exact Hl|]. intros i Hi pr.
  rewrite forallb_forall in Hall. specialize (Hall (i, nth i P []) (indexed_nth_in P i [] Hi)).
  cbn [fst snd] in Hall. fold pr in Hall. unfold Interp.row_ok in Hall. split.
  - intros HC. rewrite HC in Hall. destruct pr as [|p [|p' pr']]; try discriminate.
    apply Bool.andb_true_iff in Hall. destruct Hall as [H1 H2]. apply Nat.eqb_eq in H1. apply eqb_eq in H2.
    destruct p as [c w]. cbn [fst snd] in *. subst. reflexivity.
  - intros HF. rewrite HF in Hall. apply Bool.andb_true_iff in Hall. destruct Hall as [H1 H2]. split.
    + intros c w Hin. rewrite forallb_forall in H1. specialize (H1 (c, w) Hin). cbn [fst] in H1.
      apply existsb_exists in H1. destruct H1 as [j [Hj Hb]]. apply in_seq in Hj.
      apply Bool.andb_true_iff in Hb. destruct Hb as [Hb Hr]. apply Bool.andb_true_iff in Hb. destruct Hb as [Hc Hk].
      apply Nat.eqb_eq in Hk. exists j. repeat split; try assumption. lia.
    + intros Hz Hn. apply Bool.orb_true_iff in H2. destruct H2 as [H2|H2]; [|exact H2].
      apply Bool.negb_true_iff in H2. apply Bool.andb_false_iff in H2. destruct H2 as [H2|H2].
      * apply (proj2 (eqb_eq _ _)) in Hz. congruence.
      * congruence.
Qed.

End InterpProofs.

(* ---------- no division by zero in direct interpolation on M-matrix-like rows ---------- *)
Section DirectDefined.
Variable F : Type.
Variables (zero one : F) (add mul sub : F -> F -> F) (opp : F -> F) (div : F -> F -> F) (inv : F -> F).
Variable Fth : field_theory zero one add mul sub opp div inv (@eq F).
Add Field Ffield2 : Fth.
Variable ltb : F -> F -> bool.
Variable eqb : F -> F -> bool.
Hypothesis eqb_eq : forall a b, eqb a b = true <-> a = b.
Hypothesis ltb_irrefl : forall a, ltb a a = false.
Hypothesis ltb_total : forall a b, ltb a b = false -> ltb b a = false -> a = b.
Hypothesis neg_add : forall a b, ltb a zero = true -> ltb b zero = true -> ltb (add a b) zero = true.

Notation sumF := (sumf F zero add).
Notation negs := (negs F zero ltb).
Notation nonnegs := (nonnegs F zero ltb).

Lemma sum_negs_negative (l : list F) : negs l <> [] -> ltb (sumF (negs l)) zero = true.
Proof.
  unfold Interp.negs. induction l as [|v l IH]; simpl; [intros H; contradiction|].
  change (isneg F zero ltb v) with (ltb v zero). destruct (ltb v zero) eqn:E; [|exact IH].
  intros _. simpl. destruct (filter (isneg F zero ltb) l) as [|w l'] eqn:El.
  - simpl. replace (add v zero) with v by ring. exact E.
  - apply neg_add; [exact E|]. apply IH. discriminate.
Qed.

(* a strong negative coarse value makes the denominator of alpha non-zero *)
Lemma strong_neg_nonzero (sv : list F) v : In v sv -> ltb v zero = true -> sumF (negs sv) <> zero.
Proof.
  intros Hin Hv Hz. assert (Hne : negs sv <> []).
  { intros E. assert (H : In v (negs sv)) by (unfold Interp.negs; apply filter_In; split; assumption).
    rewrite E in H. contradiction. }
  apply sum_negs_negative in Hne. rewrite Hz, ltb_irrefl in Hne. discriminate.
Qed.

(* non-positive off-diagonals: the non-negative ones are zeros, so the effective diagonal is the diagonal *)
Lemma nonnegs_zero (l : list F) : (forall v, In v l -> ltb zero v = false) -> sumF (nonnegs l) = zero.
Proof.
  unfold Interp.nonnegs. induction l as [|v l IH]; intros H; simpl; [reflexivity|].
  change (isneg F zero ltb v) with (ltb v zero). destruct (ltb v zero) eqn:E; simpl.
  - apply IH. intros w Hw. apply H. right. exact Hw.
  - assert (v = zero) by (apply ltb_total; [exact E|apply H; left; reflexivity]). subst v.
    rewrite IH by (intros w Hw; apply H; right; exact Hw). ring.
Qed.

Lemma mmatrix_eff_diag (sv av : list F) (d : F) :
  ltb zero d = true -> (forall v, In v av -> ltb zero v = false) ->
  eff_diag F zero add ltb eqb sv av d <> zero.
Proof.
  intros Hd Hav. unfold eff_diag. rewrite (nonnegs_zero av Hav).
  assert (Hdz : d <> zero) by (intros ->; rewrite ltb_irrefl in Hd; discriminate).
  destruct (eqb _ zero); [replace (add d zero) with d by ring|]; exact Hdz.
Qed.

End DirectDefined.
