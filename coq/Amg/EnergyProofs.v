(* Proofs for family `energy` (property C10): the V-cycle of Energy.v does not increase the
   A-energy of the error.  Everything is stated over an abstract ordered field. *)
From Coq Require Import Field.
From Raptor Require Import Base.Sums Amg.Energy.

Section EnergyProofs.
Variable F : Type.
Variables (zero one : F) (add mul sub : F -> F -> F) (opp : F -> F) (div : F -> F -> F) (inv : F -> F).
Variable Fth : field_theory zero one add mul sub opp div inv (@eq F).
Add Field Ffield : Fth.
Let Rth := F_R Fth.

(* the order: reflexive, transitive, compatible with +; squares and products of nonnegatives are
   nonnegative (no totality, no antisymmetry needed) *)
Variable le : F -> F -> Prop.
Hypothesis le_refl : forall a, le a a.
Hypothesis le_trans : forall a b c, le a b -> le b c -> le a c.
Hypothesis le_add_l : forall a b c, le a b -> le (add c a) (add c b).
Hypothesis sq_nonneg : forall a, le zero (mul a a).
Hypothesis mul_nonneg : forall a b, le zero a -> le zero b -> le zero (mul a b).

Notation "0" := zero.
Notation "1" := one.
Infix "+" := add.
Infix "*" := mul.
Infix "-" := sub.
Infix "/" := div.
Infix "<==" := le (at level 70).

Notation vget := (vget F zero).
Notation vset := (vset F).
Notation vzeros := (vzeros F zero).
Notation sumn := (sumn F zero add).
Notation sumF := (sumf F zero add).
Notation den_row := (den_row F zero add).
Notation den := (den F zero add).
Notation vec := (list F).
Notation srow := (list (nat * F)).
Notation smat := (list (list (nat * F))).

(* ------------------------------------------------------------------ *)
(* order facts                                                          *)
(* ------------------------------------------------------------------ *)
Lemma le_sub_nonneg a c : 0 <== c -> a - c <== a.
Proof.
  intros H. apply (le_add_l _ _ (a - c)) in H.
  replace (a - c + 0) with (a - c) in H by ring.
  replace (a - c + c) with a in H by ring. exact H.
Qed.

Lemma le_of_eq_plus a b c : a + c = b -> 0 <== c -> a <== b.
Proof.
  intros E H. subst b. apply (le_add_l _ _ a) in H.
  replace (a + 0) with a in H by ring. exact H.
Qed.

(* ------------------------------------------------------------------ *)
(* finite sums 0 .. n-1                                                 *)
(* ------------------------------------------------------------------ *)
Lemma sumn_ext n f g : (forall i, i < n -> f i = g i) -> sumn n f = sumn n g.
Proof. intros H. apply sumf_map_ext. intros i Hi. apply in_seq in Hi. apply H. lia. Qed.

Lemma sumn_add n f g : sumn n (fun i => f i + g i) = sumn n f + sumn n g.
Proof. apply (sumf_map_add F 0 1 add mul sub opp Rth). Qed.

Lemma sumn_opp n f : sumn n (fun i => opp (f i)) = opp (sumn n f).
Proof. apply (sumf_map_opp F 0 1 add mul sub opp Rth). Qed.

Lemma sumn_sub n f g : sumn n (fun i => f i - g i) = sumn n f - sumn n g.
Proof.
  rewrite (sumn_ext n _ (fun i => f i + opp (g i))) by (intros; ring).
  rewrite sumn_add, sumn_opp. ring.
Qed.

Lemma sumn_mul_l n c f : sumn n (fun i => c * f i) = c * sumn n f.
Proof. apply (sumf_map_mul_l F 0 1 add mul sub opp Rth). Qed.

Lemma sumn_mul_r n c f : sumn n (fun i => f i * c) = sumn n f * c.
Proof. apply (sumf_map_mul_r F 0 1 add mul sub opp Rth). Qed.

Lemma sumn_zero n : sumn n (fun _ => 0) = 0.
Proof. apply (sumf_map_zero F 0 1 add mul sub opp Rth). Qed.

Lemma sumn_swap n m (f : nat -> nat -> F) :
  sumn n (fun i => sumn m (fun j => f i j)) = sumn m (fun j => sumn n (fun i => f i j)).
Proof. apply (sumf_swap F 0 1 add mul sub opp Rth). Qed.

Lemma sumn_single n k f : k < n -> (forall i, i < n -> i <> k -> f i = 0) -> sumn n f = f k.
Proof. apply (sumf_single F 0 1 add mul sub opp Rth). Qed.

(* Kronecker delta *)
Definition delta (i j : nat) : F := if j =? i then 1 else 0.

Lemma sumn_delta_l n i f : i < n -> sumn n (fun j => delta i j * f j) = f i.
Proof.
  intros Hi. rewrite (sumn_single n i).
  - unfold delta. rewrite Nat.eqb_refl. ring.
  - exact Hi.
  - intros j _ Hj. unfold delta. destruct (j =? i) eqn:E; [apply Nat.eqb_eq in E; lia|ring].
Qed.

(* ------------------------------------------------------------------ *)
(* forms on functions nat -> F (vectors restricted to 0 .. n-1)         *)
(* ------------------------------------------------------------------ *)
Definition mvf (M : nat -> nat -> F) (m : nat) (f : nat -> F) : nat -> F :=
  fun i => sumn m (fun j => M i j * f j).
Definition mvtf (M : nat -> nat -> F) (n : nat) (g : nat -> F) : nat -> F :=
  fun k => sumn n (fun i => M i k * g i).
Definition dotf (n : nat) (f g : nat -> F) : F := sumn n (fun i => f i * g i).
(* a(f, g) = <M f, g> *)
Definition bilf (M : nat -> nat -> F) (n : nat) (f g : nat -> F) : F := dotf n (mvf M n f) g.

Definition symf (M : nat -> nat -> F) (n : nat) : Prop := forall i j, i < n -> j < n -> M i j = M j i.
Definition psdf (M : nat -> nat -> F) (n : nat) : Prop := forall f, 0 <== bilf M n f f.

Lemma dotf_ext n f f' g g' :
  (forall i, i < n -> f i = f' i) -> (forall i, i < n -> g i = g' i) -> dotf n f g = dotf n f' g'.
Proof. intros H1 H2. apply sumn_ext. intros i Hi. rewrite H1, H2 by exact Hi. reflexivity. Qed.

Lemma mvf_ext M M' m f f' i :
  (forall j, j < m -> M i j = M' i j) -> (forall j, j < m -> f j = f' j) -> mvf M m f i = mvf M' m f' i.
Proof. intros H1 H2. apply sumn_ext. intros j Hj. rewrite H1, H2 by exact Hj. reflexivity. Qed.

Lemma bilf_ext M n f f' g g' :
  (forall i, i < n -> f i = f' i) -> (forall i, i < n -> g i = g' i) -> bilf M n f g = bilf M n f' g'.
Proof.
  intros H1 H2. apply dotf_ext; [|exact H2]. intros i Hi. apply mvf_ext; [reflexivity|exact H1].
Qed.

Lemma dotf_comm n f g : dotf n f g = dotf n g f.
Proof. apply sumn_ext. intros; ring. Qed.

Lemma dotf_sub_l n f g h : dotf n (fun i => f i - g i) h = dotf n f h - dotf n g h.
Proof. unfold dotf. rewrite <- sumn_sub. apply sumn_ext. intros; ring. Qed.

Lemma dotf_sub_r n f g h : dotf n h (fun i => f i - g i) = dotf n h f - dotf n h g.
Proof. rewrite dotf_comm, dotf_sub_l, (dotf_comm n f), (dotf_comm n g). reflexivity. Qed.

Lemma mvf_sub M m f g i : mvf M m (fun j => f j - g j) i = mvf M m f i - mvf M m g i.
Proof. unfold mvf. rewrite <- sumn_sub. apply sumn_ext. intros; ring. Qed.

Lemma dotf_zero_l n f g : (forall i, i < n -> f i = 0) -> dotf n f g = 0.
Proof.
  intros H. unfold dotf. rewrite (sumn_ext n _ (fun _ => 0)) by (intros i Hi; rewrite H by exact Hi; ring).
  apply sumn_zero.
Qed.

(* <M u, g> = <u, M^T g> *)
Lemma dotf_mvf_adjoint M n m u g : dotf n (mvf M m u) g = dotf m u (mvtf M n g).
Proof.
  unfold dotf, mvf, mvtf.
  rewrite (sumn_ext n _ (fun i => sumn m (fun j => M i j * u j * g i))) by (intros; rewrite sumn_mul_r; reflexivity).
  rewrite sumn_swap. apply sumn_ext. intros j Hj.
  rewrite <- sumn_mul_l. apply sumn_ext. intros; ring.
Qed.

Lemma bilf_sym M n f g : symf M n -> bilf M n f g = bilf M n g f.
Proof.
  intros S. unfold bilf. rewrite dotf_mvf_adjoint, dotf_comm. apply dotf_ext; [|reflexivity].
  intros i Hi. unfold mvtf, mvf. apply sumn_ext. intros j Hj. rewrite (S j i) by assumption. reflexivity.
Qed.

Lemma bilf_sub_sub M n f g :
  bilf M n (fun i => f i - g i) (fun i => f i - g i) =
  bilf M n f f - bilf M n f g - bilf M n g f + bilf M n g g.
Proof.
  unfold bilf. rewrite dotf_sub_r.
  rewrite (dotf_ext n (mvf M n (fun i => f i - g i)) (fun i => mvf M n f i - mvf M n g i) f f)
    by (intros; try apply mvf_sub; reflexivity).
  rewrite (dotf_ext n (mvf M n (fun i => f i - g i)) (fun i => mvf M n f i - mvf M n g i) g g)
    by (intros; try apply mvf_sub; reflexivity).
  rewrite !dotf_sub_l. ring.
Qed.

(* rank-one update of the argument: the one-coordinate step of coordinate descent *)
Lemma mvf_delta M n i k : i < n -> mvf M n (delta i) k = M k i.
Proof.
  intros Hi. unfold mvf.
  rewrite (sumn_ext n _ (fun j => delta i j * M k j)) by (intros; ring).
  apply sumn_delta_l. exact Hi.
Qed.

Lemma bilf_delta_r M n f i : i < n -> bilf M n f (delta i) = mvf M n f i.
Proof.
  intros Hi. unfold bilf, dotf.
  rewrite (sumn_ext n _ (fun j => delta i j * mvf M n f j)) by (intros; ring).
  apply sumn_delta_l. exact Hi.
Qed.

Lemma bilf_scal M n c f g :
  bilf M n (fun j => c * f j) g = c * bilf M n f g /\ bilf M n g (fun j => c * f j) = c * bilf M n g f.
Proof.
  split; unfold bilf, dotf.
  - rewrite <- sumn_mul_l. apply sumn_ext. intros i Hi. unfold mvf.
    rewrite (sumn_ext n _ (fun j => c * (M i j * f j))) by (intros; ring).
    rewrite sumn_mul_l. ring.
  - rewrite <- sumn_mul_l. apply sumn_ext. intros; ring.
Qed.

(* a(f - c u_i, f - c u_i) = a(f,f) - 2 c (M f)_i + c^2 M_ii   for symmetric M *)
Lemma bilf_coordinate_step M n f i c :
  symf M n -> i < n ->
  bilf M n (fun j => f j - c * delta i j) (fun j => f j - c * delta i j) =
  bilf M n f f - c * mvf M n f i - c * mvf M n f i + c * c * M i i.
Proof.
  intros S Hi. rewrite (bilf_sub_sub M n f (fun j => c * delta i j)).
  destruct (bilf_scal M n c (delta i) f) as [E1 E2]. rewrite E1, E2.
  destruct (bilf_scal M n c (delta i) (fun j => c * delta i j)) as [E3 _]. rewrite E3.
  destruct (bilf_scal M n c (delta i) (delta i)) as [_ E4]. rewrite E4.
  rewrite (bilf_sym M n (delta i) f S).
  rewrite !bilf_delta_r by exact Hi. rewrite mvf_delta by exact Hi. ring.
Qed.

(* ------------------------------------------------------------------ *)
(* vectors as lists                                                     *)
(* ------------------------------------------------------------------ *)
Lemma vset_length (x : vec) i v : length (vset x i v) = length x.
Proof. revert i; induction x as [|a x IH]; intros [|i]; simpl; try reflexivity. rewrite IH. reflexivity. Qed.

Lemma vget_vset_eq (x : vec) i v : i < length x -> vget (vset x i v) i = v.
Proof.
  revert i; induction x as [|a x IH]; intros [|i] H; simpl in *; try lia; try reflexivity.
  apply IH. lia.
Qed.

Lemma vget_vset_neq (x : vec) i j v : i <> j -> vget (vset x i v) j = vget x j.
Proof.
  revert i j; induction x as [|a x IH]; intros [|i] [|j] H; simpl; try reflexivity; try lia.
  apply IH. lia.
Qed.

Lemma vset_vset (x : vec) i a b : vset (vset x i a) i b = vset x i b.
Proof. revert i; induction x as [|c x IH]; intros [|i]; simpl; try reflexivity. rewrite IH. reflexivity. Qed.

Lemma vset_same (x : vec) i : vset x i (vget x i) = x.
Proof.
  revert i; induction x as [|c x IH]; intros [|i]; simpl; try reflexivity.
  unfold Energy.vget in *. simpl. rewrite IH. reflexivity.
Qed.

Lemma vzeros_length n : length (vzeros n) = n.
Proof. apply repeat_length. Qed.

Lemma vget_vzeros n i : vget (vzeros n) i = 0.
Proof.
  unfold Energy.vget, Energy.vzeros. revert i. induction n as [|n IH]; intros [|i]; simpl; try reflexivity. apply IH.
Qed.

Lemma vget_map_seq (g : nat -> F) n i : i < n -> vget (map g (seq 0 n)) i = g i.
Proof. intros H. unfold Energy.vget. apply nth_map_seq. exact H. Qed.

(* ------------------------------------------------------------------ *)
(* stored rows and the dense operator                                   *)
(* ------------------------------------------------------------------ *)
Definition sdot (r : srow) (f : nat -> F) : F := sumF (map (fun p => snd p * f (fst p)) r).

Lemma fold_sub_sdot (r : srow) f a :
  fold_left (fun acc p => acc - snd p * f (fst p)) r a = a - sdot r f.
Proof.
  revert a; induction r as [|p r IH]; intros a; unfold sdot in *; simpl; [ring|]. rewrite IH. ring.
Qed.

Lemma fold_add_sdot (r : srow) f a :
  fold_left (fun acc p => acc + snd p * f (fst p)) r a = a + sdot r f.
Proof.
  revert a; induction r as [|p r IH]; intros a; unfold sdot in *; simpl; [ring|]. rewrite IH. ring.
Qed.

Lemma sdot_ext (r : srow) f g : (forall p, In p r -> f (fst p) = g (fst p)) -> sdot r f = sdot r g.
Proof. intros H. apply sumf_map_ext. intros p Hp. rewrite (H p Hp). reflexivity. Qed.

Lemma den_row_cons p (r : srow) j :
  den_row (p :: r) j = (if fst p =? j then snd p else 0) + den_row r j.
Proof. unfold Energy.den_row. simpl. destruct (fst p =? j); simpl; ring. Qed.

Lemma den_row_notin (r : srow) j : (forall p, In p r -> fst p <> j) -> den_row r j = 0.
Proof.
  induction r as [|p r IH]; intros H; [reflexivity|].
  rewrite den_row_cons, IH by (intros q Hq; apply H; right; exact Hq).
  destruct (fst p =? j) eqn:E; [apply Nat.eqb_eq in E; exfalso; apply (H p); [left; reflexivity|exact E]|ring].
Qed.

Lemma den_eq (A : smat) i j (r : srow) : nth i A [] = r -> den A i j = den_row r j.
Proof. intros <-. reflexivity. Qed.

(* the row loop over the stored entries is the dense row sum *)
Lemma sdot_den n (r : srow) f :
  (forall p, In p r -> fst p < n) -> sdot r f = sumn n (fun j => den_row r j * f j).
Proof.
  induction r as [|p r IH]; intros H.
  - unfold sdot; simpl. symmetry.
    rewrite (sumn_ext n _ (fun _ => 0)) by (intros; unfold Energy.den_row; simpl; ring). apply sumn_zero.
  - rewrite (sumn_ext n _ (fun j => delta (fst p) j * (snd p * f j) + den_row r j * f j)).
    2:{ intros j Hj. rewrite den_row_cons. unfold delta. rewrite (Nat.eqb_sym j (fst p)).
        destruct (fst p =? j); ring. }
    rewrite sumn_add, sumn_delta_l by (apply H; left; reflexivity).
    rewrite <- IH by (intros q Hq; apply H; right; exact Hq).
    unfold sdot; simpl. reflexivity.
Qed.

(* ------------------------------------------------------------------ *)
(* well-formedness needed by the sweeps, energy, "x* solves A x = b"    *)
(* ------------------------------------------------------------------ *)
(* row i = (i, d) :: rest, no other stored entry on the diagonal, columns in range: what sort();
   move_diag() (and remove_duplicates in the Galerkin product) establish in the code *)
Definition row_ok (n i : nat) (r : srow) : Prop :=
  exists d rest, r = (i, d) :: rest /\ forall p, In p rest -> fst p <> i /\ fst p < n.
Definition sweep_wf (A : smat) : Prop := forall i, i < length A -> row_ok (length A) i (nth i A []).
Definition posdiag (A : smat) : Prop := forall i, i < length A -> 0 <== den A i i /\ den A i i <> 0.
Definition cols_lt (m : nat) (P : smat) : Prop := forall i p, In p (nth i P []) -> fst p < m.

Definition errf (xs x : vec) : nat -> F := fun j => vget xs j - vget x j.
(* ||x* - x||_A^2 *)
Definition energy (A : smat) (xs x : vec) : F := bilf (den A) (length A) (errf xs x) (errf xs x).
Definition solves (A : smat) (xs b : vec) : Prop :=
  forall i, i < length A -> mvf (den A) (length A) (vget xs) i = vget b i.

Lemma row_ok_den n i d rest : (forall p, In p rest -> fst p <> i /\ fst p < n) ->
  den_row ((i, d) :: rest) i = d.
Proof.
  intros H. rewrite den_row_cons. simpl. rewrite Nat.eqb_refl.
  rewrite den_row_notin by (intros p Hp; apply H; exact Hp). ring.
Qed.

Lemma row_ok_mvf (A : smat) i d rest f : i < length A -> nth i A [] = (i, d) :: rest ->
  (forall p, In p rest -> fst p <> i /\ fst p < length A) ->
  mvf (den A) (length A) f i = d * f i + sdot rest f.
Proof.
  intros Hi E H. unfold mvf.
  rewrite (sumn_ext (length A) _ (fun j => den_row ((i, d) :: rest) j * f j))
    by (intros j _; rewrite (den_eq A i j _ E); reflexivity).
  rewrite <- (sdot_den (length A) ((i, d) :: rest) f).
  - unfold sdot. simpl. reflexivity.
  - intros p [Hp|Hp]; [subst p; exact Hi|apply H; exact Hp].
Qed.

(* ------------------------------------------------------------------ *)
(* (1) Gauss-Seidel sweeps: coordinate descent on the energy            *)
(* ------------------------------------------------------------------ *)
Notation seq_sor_row := (seq_sor_row F zero one add mul sub div).
Notation par_sor_row := (par_sor_row F zero one add mul sub div).
Notation row_upd := (row_upd F zero one add mul sub div).
Notation sweep := (sweep F zero one add mul sub div).
Notation relax := (relax F zero one add mul sub div).

(* the value a Gauss-Seidel update writes into x_i *)
Definition gs_val (A : smat) (b x : vec) (i : nat) : F :=
  match nth i A [] with
  | [] => 0
  | d :: rest => (vget b i - sdot rest (vget x)) / snd d
  end.

Lemma inplace_fold i (rest : srow) (y : vec) :
  (forall p, In p rest -> fst p <> i) -> i < length y ->
  fold_left (fun y p => vset y i (vget y i - snd p * vget y (fst p))) rest y =
  vset y i (vget y i - sdot rest (vget y)).
Proof.
  revert y; induction rest as [|p rest IH]; intros y H Hi.
  - simpl. unfold sdot; simpl. replace (vget y i - 0) with (vget y i) by ring. symmetry. apply vset_same.
  - simpl. rewrite IH; [|intros q Hq; apply H; right; exact Hq|rewrite vset_length; exact Hi].
    rewrite vset_vset, vget_vset_eq by exact Hi. f_equal.
    rewrite (sdot_ext rest (vget (vset y i (vget y i - snd p * vget y (fst p)))) (vget y)).
    + unfold sdot; simpl. ring.
    + intros q Hq. apply vget_vset_neq. intro E. apply (H q); [right; exact Hq|symmetry; exact E].
Qed.

(* with weight 1 both row updates are the Gauss-Seidel update (the sequential and the
   single-process parallel routine agree on well-formed rows) *)
Lemma row_upd_gs v (A : smat) (b x : vec) i :
  i < length A -> row_ok (length A) i (nth i A []) -> den A i i <> 0 -> i < length x ->
  row_upd v 1 A b x i = vset x i (gs_val A b x i).
Proof.
  intros Hi (d & rest & E & H) Hd Hx.
  assert (Dd : den A i i = d) by (rewrite (den_eq A i i _ E); apply (row_ok_den (length A)); exact H).
  rewrite Dd in Hd.
  unfold gs_val. rewrite E. simpl snd.
  destruct v; unfold Energy.row_upd.
  - unfold Energy.seq_sor_row. rewrite E. simpl snd.
    rewrite inplace_fold; [|intros p Hp; apply H; exact Hp|rewrite vset_length; exact Hx].
    rewrite !vset_vset, !vget_vset_eq by (try rewrite vset_length; exact Hx).
    f_equal.
    rewrite (sdot_ext rest (vget (vset x i (vget b i))) (vget x)).
    + field. exact Hd.
    + intros q Hq. apply vget_vset_neq. intro E'. apply (H q Hq). symmetry; exact E'.
  - unfold Energy.par_sor_row. rewrite E. simpl fst. simpl snd. rewrite Nat.eqb_refl.
    f_equal. rewrite fold_add_sdot. field. exact Hd.
Qed.

Lemma errf_vset xs (x : vec) i v j : i < length x ->
  errf xs (vset x i v) j = errf xs x j - (v - vget x i) * delta i j.
Proof.
  intros Hx. unfold errf, delta. destruct (j =? i) eqn:E.
  - apply Nat.eqb_eq in E. subst j. rewrite vget_vset_eq by exact Hx. ring.
  - apply Nat.eqb_neq in E. rewrite vget_vset_neq by (intro; apply E; symmetry; assumption). ring.
Qed.

(* one coordinate: the exact line minimiser lowers the energy of the error by a_ii * delta^2 *)
Lemma gs_step_energy (A : smat) (b xs x : vec) i :
  symf (den A) (length A) -> i < length A -> row_ok (length A) i (nth i A []) -> den A i i <> 0 ->
  length x = length A -> solves A xs b ->
  let dlt := gs_val A b x i - vget x i in
  energy A xs (vset x i (gs_val A b x i)) + den A i i * (dlt * dlt) = energy A xs x.
Proof.
  intros S Hi Hr Hd Hx Hs dlt.
  destruct Hr as (d & rest & E & H).
  assert (Dd : den A i i = d) by (rewrite (den_eq A i i _ E); apply (row_ok_den (length A)); exact H).
  unfold energy.
  rewrite (bilf_ext (den A) (length A) (errf xs (vset x i (gs_val A b x i)))
             (fun j => errf xs x j - dlt * delta i j) (errf xs (vset x i (gs_val A b x i)))
             (fun j => errf xs x j - dlt * delta i j))
    by (intros j _; apply errf_vset; rewrite Hx; exact Hi).
  rewrite bilf_coordinate_step by assumption.
  (* (A e)_i = dlt * d *)
  assert (R : mvf (den A) (length A) (errf xs x) i = dlt * d).
  { unfold errf. rewrite mvf_sub. rewrite (Hs i Hi).
    rewrite (row_ok_mvf A i d rest (vget x) Hi E H).
    unfold dlt, gs_val. rewrite E. simpl snd. rewrite Dd in Hd. field. exact Hd. }
  rewrite R, Dd. ring.
Qed.

Lemma inplace_fold_length i (rest : srow) (y : vec) :
  length (fold_left (fun y p => vset y i (vget y i - snd p * vget y (fst p))) rest y) = length y.
Proof. revert y; induction rest as [|p rest IH]; intros y; simpl; [reflexivity|]. rewrite IH. apply vset_length. Qed.

Lemma sweep_length v (A : smat) (b : vec) rows (x : vec) : length (sweep v 1 A b rows x) = length x.
Proof.
  unfold Energy.sweep. revert x; induction rows as [|i rows IH]; intros x; simpl; [reflexivity|].
  rewrite IH. destruct v; unfold Energy.row_upd, Energy.seq_sor_row, Energy.par_sor_row.
  - destruct (nth i A []); rewrite !vset_length; [reflexivity|]. rewrite inplace_fold_length. apply vset_length.
  - destruct (nth i A []) as [|d rest]; [reflexivity|]. destruct (fst d =? i); [apply vset_length|reflexivity].
Qed.

Section Sweeps.
Variable A : smat.
Variables b xs : vec.
Hypothesis A_sym : symf (den A) (length A).
Hypothesis A_wf : sweep_wf A.
Hypothesis A_pos : posdiag A.
Hypothesis xs_solves : solves A xs b.

Lemma sweep_other v rows (x : vec) j :
  (forall i, In i rows -> i < length A) -> length x = length A -> ~ In j rows ->
  vget (sweep v 1 A b rows x) j = vget x j.
Proof.
  unfold Energy.sweep. revert x; induction rows as [|i rows IH]; intros x Hr Hx Hj; simpl; [reflexivity|].
  assert (Hi : i < length A) by (apply Hr; left; reflexivity).
  rewrite row_upd_gs; [|exact Hi|apply A_wf; exact Hi|apply A_pos; exact Hi|rewrite Hx; exact Hi].
  rewrite IH.
  - apply vget_vset_neq. intro E. apply Hj. left. exact E.
  - intros k Hk. apply Hr. right. exact Hk.
  - rewrite vset_length. exact Hx.
  - intro Hin. apply Hj. right. exact Hin.
Qed.

(* energy identity for one pass over distinct rows (forward, backward, any order):
   a(e',e') + sum_i a_ii (x'_i - x_i)^2 = a(e,e) *)
Lemma sweep_energy_identity v rows : forall x : vec,
  NoDup rows -> (forall i, In i rows -> i < length A) -> length x = length A ->
  energy A xs (sweep v 1 A b rows x) +
    sumF (map (fun i => den A i i * ((vget (sweep v 1 A b rows x) i - vget x i) *
                                      (vget (sweep v 1 A b rows x) i - vget x i))) rows)
  = energy A xs x.
Proof.
  induction rows as [|i rows IH]; intros x ND Hr Hx.
  - unfold Energy.sweep; simpl. ring.
  - assert (Hi : i < length A) by (apply Hr; left; reflexivity).
    inversion ND as [|? ? Hni ND']; subst.
    assert (Hr' : forall k, In k rows -> k < length A) by (intros k Hk; apply Hr; right; exact Hk).
    assert (U : row_upd v 1 A b x i = vset x i (gs_val A b x i)).
    { apply row_upd_gs; [exact Hi|apply A_wf; exact Hi|apply A_pos; exact Hi|rewrite Hx; exact Hi]. }
    assert (Hx1 : length (vset x i (gs_val A b x i)) = length A) by (rewrite vset_length; exact Hx).
    assert (Sw : sweep v 1 A b (i :: rows) x = sweep v 1 A b rows (vset x i (gs_val A b x i))).
    { unfold Energy.sweep. simpl. rewrite U. reflexivity. }
    rewrite Sw. simpl map. simpl sumf.
    specialize (IH (vset x i (gs_val A b x i)) ND' Hr' Hx1).
    rewrite (sweep_other v rows _ i Hr' Hx1 Hni).
    rewrite vget_vset_eq by (rewrite Hx; exact Hi).
    rewrite (sumf_map_ext F 0 add _
       (fun k => den A k k * ((vget (sweep v 1 A b rows (vset x i (gs_val A b x i))) k -
                                vget (vset x i (gs_val A b x i)) k) *
                               (vget (sweep v 1 A b rows (vset x i (gs_val A b x i))) k -
                                vget (vset x i (gs_val A b x i)) k))) rows).
    2:{ intros k Hk. rewrite (vget_vset_neq x i k) by (intro; subst k; apply Hni; exact Hk). reflexivity. }
    pose proof (gs_step_energy A b xs x i A_sym Hi (A_wf i Hi) (proj2 (A_pos i Hi)) Hx xs_solves) as G.
    cbv zeta in G. rewrite <- G. rewrite <- IH. ring.
Qed.

Lemma sumF_nonneg {X} (g : X -> F) l : (forall a, In a l -> 0 <== g a) -> 0 <== sumF (map g l).
Proof.
  induction l as [|a l IH]; intros H; simpl; [apply le_refl|].
  apply le_trans with (g a + 0).
  - replace (g a + 0) with (g a) by ring. apply H. left. reflexivity.
  - apply le_add_l. apply IH. intros c Hc. apply H. right. exact Hc.
Qed.

Lemma sweep_energy_le v rows (x : vec) :
  NoDup rows -> (forall i, In i rows -> i < length A) -> length x = length A ->
  energy A xs (sweep v 1 A b rows x) <== energy A xs x.
Proof.
  intros ND Hr Hx. eapply le_of_eq_plus; [apply (sweep_energy_identity v rows x ND Hr Hx)|].
  apply sumF_nonneg. intros i Hi. apply mul_nonneg; [apply A_pos; apply Hr; exact Hi|apply sq_nonneg].
Qed.

Lemma fwd_rows_ok : NoDup (fwd_rows F A) /\ forall i, In i (fwd_rows F A) -> i < length A.
Proof. unfold fwd_rows. split; [apply seq_NoDup|intros i Hi; apply in_seq in Hi; lia]. Qed.

Lemma bwd_rows_ok : NoDup (bwd_rows F A) /\ forall i, In i (bwd_rows F A) -> i < length A.
Proof.
  unfold bwd_rows. split.
  - apply NoDup_rev. apply seq_NoDup.
  - intros i Hi. apply in_rev in Hi. apply in_seq in Hi. lia.
Qed.

(* sor()/ssor() with any number of sweeps, weight 1 *)
Lemma relax_energy_le v k s (x : vec) : length x = length A ->
  energy A xs (relax v k 1 s A b x) <== energy A xs x /\ length (relax v k 1 s A b x) = length A.
Proof.
  intros Hx. unfold Energy.relax. induction s as [|s [IH1 IH2]]; simpl; [split; [apply le_refl|exact Hx]|].
  destruct fwd_rows_ok as [F1 F2]. destruct bwd_rows_ok as [B1 B2].
  destruct k.
  - split; [|rewrite sweep_length; exact IH2].
    eapply le_trans; [apply sweep_energy_le; assumption|exact IH1].
  - split; [|rewrite !sweep_length; exact IH2].
    eapply le_trans; [apply sweep_energy_le; try assumption; rewrite sweep_length; exact IH2|].
    eapply le_trans; [apply sweep_energy_le; assumption|exact IH1].
Qed.

End Sweeps.

(* ------------------------------------------------------------------ *)
(* residual, restriction, interpolation as dense sums                   *)
(* ------------------------------------------------------------------ *)
Notation residual := (residual F zero mul sub).
Notation scatter_row := (scatter_row F zero add mul).
Notation mult_T := (mult_T F zero add mul).
Notation mult_append := (mult_append F zero add mul).

Lemma residual_length (A : smat) (x b : vec) : length (residual A x b) = length A.
Proof. unfold Energy.residual. rewrite map_length, seq_length. reflexivity. Qed.

Lemma vget_residual (A : smat) (x b : vec) i : i < length A ->
  vget (residual A x b) i = vget b i - sdot (nth i A []) (vget x).
Proof. intros Hi. unfold Energy.residual. rewrite vget_map_seq by exact Hi. apply fold_sub_sdot. Qed.

Lemma mult_append_length (P : smat) (xc x : vec) : length (mult_append P xc x) = length P.
Proof. unfold Energy.mult_append. rewrite map_length, seq_length. reflexivity. Qed.

Lemma vget_mult_append (P : smat) (xc x : vec) i : i < length P ->
  vget (mult_append P xc x) i = vget x i + sdot (nth i P []) (vget xc).
Proof.
  intros Hi. unfold Energy.mult_append. rewrite vget_map_seq by exact Hi.
  rewrite fold_add_sdot. ring.
Qed.

Lemma scatter_row_spec (r : srow) xi (acc : vec) :
  (forall p, In p r -> fst p < length acc) ->
  length (scatter_row r xi acc) = length acc /\
  forall k, vget (scatter_row r xi acc) k = vget acc k + den_row r k * xi.
Proof.
  unfold Energy.scatter_row. revert acc; induction r as [|p r IH]; intros acc H; simpl.
  - split; [reflexivity|]. intros k. unfold Energy.den_row; simpl. ring.
  - destruct (IH (vset acc (fst p) (vget acc (fst p) + snd p * xi))) as [L V].
    { intros q Hq. rewrite vset_length. apply H. right. exact Hq. }
    split; [rewrite L; apply vset_length|].
    intros k. rewrite V, den_row_cons. destruct (fst p =? k) eqn:E.
    + apply Nat.eqb_eq in E. subst k. rewrite vget_vset_eq by (apply H; left; reflexivity). ring.
    + apply Nat.eqb_neq in E. rewrite vget_vset_neq by exact E. ring.
Qed.

Lemma mult_T_spec nc (P : smat) (r : vec) : cols_lt nc P ->
  length (mult_T nc P r) = nc /\
  forall k, vget (mult_T nc P r) k = sumn (length P) (fun i => den P i k * vget r i).
Proof.
  intros HP. unfold Energy.mult_T, Energy.sumn.
  assert (G : forall rows (acc : vec), length acc = nc ->
     length (fold_left (fun acc i => scatter_row (nth i P []) (vget r i) acc) rows acc) = nc /\
     forall k, vget (fold_left (fun acc i => scatter_row (nth i P []) (vget r i) acc) rows acc) k =
               vget acc k + sumF (map (fun i => den P i k * vget r i) rows)).
  { induction rows as [|i rows IH]; intros acc Hacc; simpl.
    - split; [exact Hacc|intros; ring].
    - destruct (scatter_row_spec (nth i P []) (vget r i) acc) as [L V].
      { intros p Hp. rewrite Hacc. apply (HP i p Hp). }
      destruct (IH (scatter_row (nth i P []) (vget r i) acc)) as [L' V']; [rewrite L; exact Hacc|].
      split; [exact L'|]. intros k. rewrite V', V. unfold Energy.den. ring. }
  destruct (G (seq 0 (length P)) (vzeros nc) (vzeros_length nc)) as [L V].
  split; [exact L|]. intros k. rewrite V, vget_vzeros. ring.
Qed.

(* ------------------------------------------------------------------ *)
(* (2) coarse-grid correction with a Galerkin coarse operator           *)
(* ------------------------------------------------------------------ *)
(* A' = P^T (A P)  entrywise (property C08) *)
Definition galerkin (A P A' : smat) : Prop :=
  forall k m, k < length A' -> m < length A' ->
    den A' k m = sumn (length A) (fun i => den P i k * sumn (length A) (fun j => den A i j * den P j m)).

(* (A (B u))_i = ((A B) u)_i *)
Lemma mvf_mvf (MA MB : nat -> nat -> F) n m u i :
  mvf MA n (mvf MB m u) i = mvf (fun i k => sumn n (fun j => MA i j * MB j k)) m u i.
Proof.
  unfold mvf.
  rewrite (sumn_ext n _ (fun j => sumn m (fun k => MA i j * MB j k * u k))).
  2:{ intros j _. rewrite <- sumn_mul_l. apply sumn_ext. intros; ring. }
  rewrite sumn_swap. apply sumn_ext. intros k _. rewrite <- sumn_mul_r. reflexivity.
Qed.

Section Galerkin.
Variables A P A' : smat.
Hypothesis G : galerkin A P A'.
Notation n := (length A).
Notation nc := (length A').
Let Pf (u : nat -> F) : nat -> F := mvf (den P) nc u.

(* a(P u, P v) = a_c(u, v) *)
Lemma galerkin_form u v : bilf (den A) n (Pf u) (Pf v) = bilf (den A') nc u v.
Proof.
  unfold bilf. unfold Pf at 2. rewrite dotf_comm, dotf_mvf_adjoint, dotf_comm.
  apply dotf_ext; [|reflexivity]. intros k Hk.
  change (mvtf (den P) n (mvf (den A) n (Pf u)) k) with
         (mvf (fun k i => den P i k) n (mvf (den A) n (Pf u)) k).
  unfold Pf.
  rewrite (mvf_ext (fun k i => den P i k) (fun k i => den P i k) n
             (mvf (den A) n (mvf (den P) nc u))
             (mvf (fun i m => sumn n (fun j => den A i j * den P j m)) nc u) k)
    by (intros; try apply mvf_mvf; reflexivity).
  rewrite mvf_mvf. apply mvf_ext; [|reflexivity].
  intros m Hm. symmetry. apply G; assumption.
Qed.

Lemma galerkin_sym : symf (den A) n -> symf (den A') nc.
Proof.
  intros S k m Hk Hm. rewrite (G k m Hk Hm), (G m k Hm Hk).
  rewrite (sumn_ext n _ (fun i => sumn n (fun j => den P i k * den A i j * den P j m)))
    by (intros; rewrite <- sumn_mul_l; apply sumn_ext; intros; ring).
  rewrite sumn_swap.
  apply sumn_ext. intros i Hi. rewrite <- sumn_mul_l. apply sumn_ext. intros j Hj.
  rewrite (S i j Hi Hj). ring.
Qed.

Lemma galerkin_psd : psdf (den A) n -> psdf (den A') nc.
Proof. intros H u. rewrite <- galerkin_form. apply H. Qed.

(* The correction step of cycle(): x2 = x1 + P xc, where the coarse right-hand side is
   P^T (b - A x1) and xc is ANY approximation of the exact coarse solution w that is no worse
   than the zero vector in the coarse energy norm (the exact solve: xc = w). *)
Lemma correction_energy_le (b xs x1 xc w : vec) :
  symf (den A) n -> sweep_wf A -> length P = n -> cols_lt nc P ->
  solves A xs b ->
  solves A' w (mult_T nc P (residual A x1 b)) ->
  energy A' w xc <== energy A' w (vzeros nc) ->
  energy A xs (mult_append P xc x1) <== energy A xs x1.
Proof.
  intros S WF LP CP Hs Hw Hc.
  pose (e := errf xs x1). pose (z := vget xc). pose (wf := vget w).
  (* the new error is e - P z *)
  assert (E2 : forall j, j < n -> errf xs (mult_append P xc x1) j = e j - Pf z j).
  { intros j Hj. unfold errf, e, errf, Pf, mvf, z. rewrite vget_mult_append by (rewrite LP; exact Hj).
    rewrite (sdot_den nc) by (intros p Hp; apply (CP j p Hp)).
    unfold Energy.den. ring. }
  unfold energy at 1.
  rewrite (bilf_ext (den A) n _ (fun j => e j - Pf z j) _ (fun j => e j - Pf z j)) by assumption.
  rewrite bilf_sub_sub.
  rewrite (bilf_sym (den A) n (Pf z) e S).
  rewrite galerkin_form.
  (* a(e, P z) = a_c(w, z) *)
  assert (X : bilf (den A) n e (Pf z) = bilf (den A') nc wf z).
  { unfold bilf. unfold Pf. rewrite dotf_comm, dotf_mvf_adjoint, dotf_comm.
    apply dotf_ext; [|reflexivity]. intros k Hk.
    transitivity (vget (mult_T nc P (residual A x1 b)) k); [|symmetry; apply (Hw k Hk)].
    destruct (mult_T_spec nc P (residual A x1 b) CP) as [_ V]. rewrite V, LP. unfold mvtf.
    apply sumn_ext. intros i Hi. f_equal.
    rewrite vget_residual by exact Hi. unfold e, errf. rewrite mvf_sub, (Hs i Hi).
    destruct (WF i Hi) as (d & rest & Er & Hr).
    rewrite (row_ok_mvf A i d rest (vget x1) Hi Er Hr). rewrite Er. unfold sdot. simpl. ring. }
  rewrite X.
  (* the hypothesis on the coarse solver, expanded *)
  unfold energy in Hc.
  rewrite (bilf_ext (den A') nc (errf w xc) (fun k => wf k - z k) (errf w xc) (fun k => wf k - z k)) in Hc
    by (intros; reflexivity).
  rewrite (bilf_ext (den A') nc (errf w (vzeros nc)) wf (errf w (vzeros nc)) wf) in Hc
    by (intros; unfold errf, wf; rewrite vget_vzeros; ring).
  rewrite bilf_sub_sub in Hc.
  rewrite (bilf_sym (den A') nc z wf (galerkin_sym S)) in Hc.
  apply (le_add_l _ _ (bilf (den A) n e e - bilf (den A') nc wf wf)) in Hc.
  match goal with |- ?l <== ?r =>
    match type of Hc with ?l' <== ?r' => replace l with l' by ring; replace r with r' by (unfold energy, e; ring) end end.
  exact Hc.
Qed.

End Galerkin.


Lemma energy_self_zero (A : smat) (w : vec) : energy A w w = 0.
Proof.
  unfold energy, bilf. apply dotf_zero_l. intros i _. unfold mvf.
  rewrite (sumn_ext (length A) _ (fun _ => 0)) by (intros; unfold errf; ring). apply sumn_zero.
Qed.

(* special case: the coarse problem is solved exactly (two-grid correction) *)
Lemma correction_exact_energy_le (A P A' : smat) (b xs x1 w : vec) :
  galerkin A P A' ->
  symf (den A) (length A) -> psdf (den A) (length A) -> sweep_wf A -> length P = length A ->
  cols_lt (length A') P -> solves A xs b ->
  solves A' w (mult_T (length A') P (residual A x1 b)) ->
  energy A xs (mult_append P w x1) <== energy A xs x1.
Proof.
  intros G S PSD WF LP CP Hs Hw.
  apply (correction_energy_le A P A' G b xs x1 w w S WF LP CP Hs Hw).
  rewrite energy_self_zero. apply (galerkin_psd A P A' G PSD).
Qed.

(* ------------------------------------------------------------------ *)
(* (3) the V-cycle, by induction over the levels                        *)
(* ------------------------------------------------------------------ *)
Section VCycle.
Variable coarse_solve : smat -> vec -> vec.
Variables (v : variant) (k : relax_kind) (sweeps : nat).
Notation cycle := (cycle F zero one add mul sub div coarse_solve v k 1 sweeps).
Notation iterate := (iterate F zero one add mul sub div coarse_solve v k 1 sweeps).

Definition next_A (lv : list (level F)) (Ac : smat) : smat :=
  match lv with [] => Ac | L :: _ => lvA L end.

(* the linear system of a level has a solution for every right-hand side (A_l nonsingular) *)
Definition solvable (A : smat) : Prop :=
  forall rhs : vec, length rhs = length A -> exists w : vec, length w = length A /\ solves A w rhs.

(* what the other properties provide about a hierarchy: rows of every relaxed level start with a
   positive diagonal (sort/move_diag; SPD), P_l is n_l x n_{l+1}, A_{l+1} = P_l^T A_l P_l (C08),
   every coarse operator is nonsingular *)
Fixpoint hier_ok (lv : list (level F)) (Ac : smat) : Prop :=
  match lv with
  | [] => True
  | L :: lv' =>
    sweep_wf (lvA L) /\ posdiag (lvA L) /\ length (lvP L) = length (lvA L) /\
    cols_lt (lvNc L) (lvP L) /\ length (next_A lv' Ac) = lvNc L /\
    galerkin (lvA L) (lvP L) (next_A lv' Ac) /\ solvable (next_A lv' Ac) /\ hier_ok lv' Ac
  end.

(* the coarsest solve is exact (C09; LAPACK LU of a nonsingular matrix) *)
Definition exact_coarse (Ac : smat) : Prop :=
  forall b : vec, length b = length Ac ->
    length (coarse_solve Ac b) = length Ac /\ solves Ac (coarse_solve Ac b) b.

Lemma energy_of_two_solutions (A : smat) (xs w b : vec) : solves A xs b -> solves A w b -> energy A xs w = 0.
Proof.
  intros H1 H2. unfold energy, bilf. apply dotf_zero_l. intros i Hi.
  unfold errf. rewrite mvf_sub, (H1 i Hi), (H2 i Hi). ring.
Qed.

Theorem vcycle_energy_le : forall lv Ac,
  hier_ok lv Ac -> exact_coarse Ac ->
  symf (den (next_A lv Ac)) (length (next_A lv Ac)) ->
  psdf (den (next_A lv Ac)) (length (next_A lv Ac)) ->
  forall x b xs : vec, length x = length (next_A lv Ac) -> length b = length (next_A lv Ac) ->
  solves (next_A lv Ac) xs b ->
  energy (next_A lv Ac) xs (cycle lv Ac x b) <== energy (next_A lv Ac) xs x /\
  length (cycle lv Ac x b) = length (next_A lv Ac).
Proof.
  induction lv as [|L lv IH]; intros Ac HO EC S PSD x b xs Hx Hb Hs.
  - simpl in *. destruct (EC b Hb) as [L1 L2]. split; [|exact L1].
    rewrite (energy_of_two_solutions Ac xs (coarse_solve Ac b) b Hs L2). apply PSD.
  - simpl next_A in *. simpl in HO. destruct HO as (WF & PD & LP & CP & LA' & GA & SOL & HO').
    set (A := lvA L) in *. set (P := lvP L) in *. set (A' := next_A lv Ac) in *.
    simpl Energy.cycle. fold A P.
    set (x1 := relax v k 1 sweeps A b x).
    destruct (relax_energy_le A b xs S WF PD Hs v k sweeps x Hx) as [E1 L1]. fold x1 in E1, L1.
    set (bc := mult_T (lvNc L) P (residual A x1 b)).
    destruct (mult_T_spec (lvNc L) P (residual A x1 b) CP) as [Lbc _]. fold bc in Lbc.
    destruct (SOL bc) as (w & Lw & Hw); [rewrite Lbc; symmetry; exact LA'|].
    set (xc := cycle lv Ac (vzeros (lvNc L)) bc).
    assert (S' : symf (den A') (length A')) by (apply (galerkin_sym A P A' GA S)).
    assert (PSD' : psdf (den A') (length A')) by (apply (galerkin_psd A P A' GA PSD)).
    destruct (IH Ac HO' EC S' PSD' (vzeros (lvNc L)) bc w) as [Ec Lc];
      [rewrite vzeros_length; symmetry; exact LA'|rewrite Lbc; symmetry; exact LA'|exact Hw|].
    fold xc in Ec, Lc.
    set (x2 := mult_append P xc x1).
    assert (E2 : energy A xs x2 <== energy A xs x1).
    { apply (correction_energy_le A P A' GA b xs x1 xc w S WF LP); try assumption.
      - rewrite LA'. exact CP.
      - rewrite LA'. exact Hw.
      - rewrite LA'. exact Ec. }
    assert (L2 : length x2 = length A) by (unfold x2; rewrite mult_append_length; exact LP).
    destruct (relax_energy_le A b xs S WF PD Hs v k sweeps x2 L2) as [E3 L3].
    split; [|exact L3].
    eapply le_trans; [exact E3|]. eapply le_trans; [exact E2|exact E1].
Qed.

(* iterates of cycle(x, b, 0) *)
Theorem iterates_energy_monotone lv Ac (x0 b xs : vec) :
  hier_ok lv Ac -> exact_coarse Ac ->
  symf (den (next_A lv Ac)) (length (next_A lv Ac)) ->
  psdf (den (next_A lv Ac)) (length (next_A lv Ac)) ->
  length x0 = length (next_A lv Ac) -> length b = length (next_A lv Ac) ->
  solves (next_A lv Ac) xs b ->
  forall m,
    energy (next_A lv Ac) xs (iterate lv Ac b (S m) x0) <== energy (next_A lv Ac) xs (iterate lv Ac b m x0) /\
    energy (next_A lv Ac) xs (iterate lv Ac b m x0) <== energy (next_A lv Ac) xs x0 /\
    length (iterate lv Ac b m x0) = length (next_A lv Ac).
Proof.
  intros HO EC S PSD Hx Hb Hs m. unfold Energy.iterate.
  assert (G : energy (next_A lv Ac) xs (Nat.iter m (fun x => cycle lv Ac x b) x0) <== energy (next_A lv Ac) xs x0 /\
              length (Nat.iter m (fun x => cycle lv Ac x b) x0) = length (next_A lv Ac)).
  { induction m as [|m [I1 I2]]; simpl; [split; [apply le_refl|exact Hx]|].
    destruct (vcycle_energy_le lv Ac HO EC S PSD _ b xs I2 Hb Hs) as [E L].
    split; [eapply le_trans; [exact E|exact I1]|exact L]. }
  destruct G as [G1 G2]. split; [|split; assumption].
  simpl. apply (vcycle_energy_le lv Ac HO EC S PSD _ b xs G2 Hb Hs).
Qed.

End VCycle.

(* ------------------------------------------------------------------ *)
(* the executable checks used by the harness are sound                  *)
(* ------------------------------------------------------------------ *)
Lemma sweep_wfb_sound (A : smat) : sweep_wfb F A = true -> sweep_wf A.
Proof.
  unfold sweep_wfb. intros H i Hi. rewrite forallb_forall in H.
  specialize (H i). rewrite in_seq in H. specialize (H ltac:(lia)).
  unfold row_okb in H. destruct (nth i A []) as [|d rest] eqn:E; [discriminate|].
  apply andb_true_iff in H. destruct H as [H1 H2]. apply Nat.eqb_eq in H1.
  exists (snd d), rest. split; [destruct d; simpl in *; subst; reflexivity|].
  intros p Hp. rewrite forallb_forall in H2. specialize (H2 p Hp).
  apply andb_true_iff in H2. destruct H2 as [H2 H3].
  apply negb_true_iff in H2. apply Nat.eqb_neq in H2. apply Nat.ltb_lt in H3. split; assumption.
Qed.

(* a solve checked through the row loop (smv A w = b, as the OCaml glue does for the coarsest
   level) is a solution in the sense of `solves` *)
Lemma smv_solves (A : smat) (w b : vec) :
  (forall i p, In p (nth i A []) -> fst p < length A) ->
  smv F zero add mul A w = b -> solves A w b.
Proof.
  intros HC E i Hi. rewrite <- E. unfold Energy.smv. rewrite vget_map_seq by exact Hi.
  rewrite fold_add_sdot. rewrite (sdot_den (length A)) by (intros p Hp; apply (HC i p Hp)).
  unfold mvf. replace (0 + sumn (length A) (fun j => den_row (nth i A []) j * vget w j))
    with (sumn (length A) (fun j => den_row (nth i A []) j * vget w j)) by ring.
  reflexivity.
Qed.

End EnergyProofs.
