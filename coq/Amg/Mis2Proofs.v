(* Proofs about Amg/Mis2.v: the checker `mis_ok` decides the property's clauses; the model of mis2
   terminates within n rounds and its result is a distance-two maximal independent set. *)
From Coq Require Import List Arith Bool ZArith Lia.
From Raptor Require Import Amg.Mis2.
Import ListNotations.

(* ---------------- basics ---------------- *)
Lemma memb_In x l : memb x l = true <-> In x l.
Proof.
  unfold memb. rewrite existsb_exists. split.
  - intros [y [Hy E]]. apply Nat.eqb_eq in E. subst. exact Hy.
  - intros H. exists x. split; [exact H|apply Nat.eqb_refl].
Qed.

Lemma memb_false x l : memb x l = false <-> ~ In x l.
Proof. rewrite <- memb_In. destruct (memb x l); split; intros; congruence. Qed.

Lemma upd_length {A} (l : list A) i x : length (upd l i x) = length l.
Proof. revert i. induction l as [|h t IH]; intros [|i]; simpl; auto. Qed.

Lemma nth_upd_eq {A} (l : list A) i x d : i < length l -> nth i (upd l i x) d = x.
Proof. revert i. induction l as [|h t IH]; intros [|i] H; simpl in *; try lia; auto. apply IH. lia. Qed.

Lemma nth_upd_neq {A} (l : list A) i j x d : i <> j -> nth j (upd l i x) d = nth j l d.
Proof.
  revert i j. induction l as [|h t IH]; intros [|i] [|j] H; simpl; auto; try congruence.
Qed.

Lemma forallb_seq (f : nat -> bool) n :
  forallb f (seq 0 n) = true <-> forall v, v < n -> f v = true.
Proof.
  rewrite forallb_forall. split.
  - intros H v Hv. apply H. apply in_seq. lia.
  - intros H v Hv. apply in_seq in Hv. apply H. lia.
Qed.

Lemma existsb_seq (f : nat -> bool) n :
  existsb f (seq 0 n) = true <-> exists v, v < n /\ f v = true.
Proof.
  rewrite existsb_exists. split.
  - intros [v [Hv E]]. apply in_seq in Hv. exists v. split; [lia|exact E].
  - intros [v [Hv E]]. exists v. split; [apply in_seq; lia|exact E].
Qed.

(* ---------------- graph predicates ---------------- *)
Definition graph_wf (G : graph) : Prop :=
  forall v w, In w (row G v) -> w < length G.
Definition symmetric (G : graph) : Prop :=
  forall v w, In w (row G v) -> In v (row G w).
Definition reflexive (G : graph) : Prop :=
  forall v, v < length G -> In v (row G v).

Lemma row_oob G v : length G <= v -> row G v = [].
Proof. intros H. unfold row. apply nth_overflow. exact H. Qed.

Lemma graph_wfb_spec G : graph_wfb G = true <-> graph_wf G.
Proof.
  unfold graph_wfb, graph_wf. rewrite forallb_forall. split.
  - intros H v w Hw. destruct (Nat.lt_ge_cases v (length G)) as [Hv|Hv].
    + assert (Hr : In (row G v) G) by (apply nth_In; exact Hv).
      specialize (H _ Hr). rewrite forallb_forall in H. apply Nat.ltb_lt. apply H. exact Hw.
    + rewrite row_oob in Hw by exact Hv. destruct Hw.
  - intros H r Hr. apply forallb_forall. intros c Hc.
    destruct (In_nth _ _ [] Hr) as [v [Hv E]]. apply Nat.ltb_lt. apply (H v). unfold row. rewrite E. exact Hc.
Qed.

Lemma symmetricb_spec G : graph_wf G -> (symmetricb G = true <-> symmetric G).
Proof.
  intros WF. unfold symmetricb, symmetric. rewrite forallb_seq. split.
  - intros H v w Hw. destruct (Nat.lt_ge_cases v (length G)) as [Hv|Hv].
    + specialize (H v Hv). rewrite forallb_forall in H. apply memb_In. apply H. exact Hw.
    + rewrite row_oob in Hw by exact Hv. destruct Hw.
  - intros H v Hv. apply forallb_forall. intros w Hw. apply memb_In. apply H. exact Hw.
Qed.

Lemma reflexiveb_spec G : reflexiveb G = true <-> reflexive G.
Proof.
  unfold reflexiveb, reflexive. rewrite forallb_seq. split; intros H v Hv.
  - specialize (H v Hv). apply memb_In in H. exact H.
  - apply memb_In. apply H. exact Hv.
Qed.

(* ---------------- the checker decides the clauses ---------------- *)
Lemma within2b_spec G v s : within2b G v s = true <-> within2 G v s.
Proof.
  unfold within2b, within2. rewrite !orb_true_iff, Nat.eqb_eq, memb_In, existsb_exists.
  split.
  - intros [[H|H]|[w [Hw H]]]; auto. right. right. exists w. split; [exact Hw|apply memb_In; exact H].
  - intros [H|[H|[w [Hw H]]]]; auto. right. exists w. split; [exact Hw|apply memb_In; exact H].
Qed.

Lemma decidedb_spec G states : decidedb G states = true <-> decided G states.
Proof.
  unfold decidedb, decided. rewrite andb_true_iff, Nat.eqb_eq, forallb_forall.
  split; intros [H1 H2]; split; auto; intros z Hz; specialize (H2 z Hz).
  - apply orb_true_iff in H2. destruct H2 as [E|E]; apply Z.eqb_eq in E; auto.
  - apply orb_true_iff. destruct H2 as [E|E]; subst; auto.
Qed.

Lemma indep2b_spec G states : indep2b G states = true <-> indep2 G states.
Proof.
  unfold indep2b, indep2. rewrite forallb_seq. split.
  - intros H u v Hu Hv Ru Rv Ne. specialize (H u Hu). rewrite Ru in H. simpl in H.
    rewrite forallb_seq in H. specialize (H v Hv). rewrite Rv in H. simpl in H.
    apply orb_true_iff in H. destruct H as [H|H]; [apply Nat.eqb_eq in H; contradiction|].
    apply andb_true_iff in H. destruct H as [H1 H2].
    apply negb_true_iff in H1, H2. split.
    + apply memb_false. exact H1.
    + intros [w [Hw1 Hw2]]. assert (E : existsb (fun w => memb w (row G v)) (row G u) = true).
      { apply existsb_exists. exists w. split; [exact Hw1|apply memb_In; exact Hw2]. }
      congruence.
  - intros H u Hu. destruct (is_root states u) eqn:Ru; simpl; auto.
    apply forallb_seq. intros v Hv. destruct (is_root states v) eqn:Rv; simpl; auto.
    destruct (Nat.eqb u v) eqn:E; simpl; auto. apply Nat.eqb_neq in E.
    destruct (H u v Hu Hv Ru Rv E) as [H1 H2]. apply andb_true_iff. split; apply negb_true_iff.
    + apply memb_false. exact H1.
    + destruct (existsb (fun w => memb w (row G v)) (row G u)) eqn:X; auto. exfalso. apply H2.
      apply existsb_exists in X. destruct X as [w [Hw1 Hw2]]. exists w. split; [exact Hw1|apply memb_In; exact Hw2].
Qed.

Lemma maximal2b_spec G states : maximal2b G states = true <-> maximal2 G states.
Proof.
  unfold maximal2b, maximal2. rewrite forallb_seq. split.
  - intros H v Hv. specialize (H v Hv). apply existsb_seq in H. destruct H as [s [Hs E]].
    apply andb_true_iff in E. destruct E as [E1 E2]. exists s. repeat split; auto. apply within2b_spec. exact E2.
  - intros H v Hv. destruct (H v Hv) as [s [Hs [R W]]]. apply existsb_seq. exists s. split; [exact Hs|].
    rewrite R. simpl. apply within2b_spec. exact W.
Qed.

Lemma mis_ok_spec G states :
  mis_ok G states = true <-> decided G states /\ indep2 G states /\ maximal2 G states.
Proof.
  unfold mis_ok. rewrite !andb_true_iff, decidedb_spec, indep2b_spec, maximal2b_spec. tauto.
Qed.

(* ---------------- state lists ---------------- *)
Lemma getS_upd_eq s v x : v < length s -> getS (upd s v x) v = x.
Proof. intros H. unfold getS. apply nth_upd_eq. exact H. Qed.
Lemma getS_upd_neq s v w x : v <> w -> getS (upd s v x) w = getS s w.
Proof. intros H. unfold getS. apply nth_upd_neq. exact H. Qed.
Lemma getS_oob s v : length s <= v -> getS s v = Unassigned.
Proof. intros H. unfold getS. apply nth_overflow. exact H. Qed.

Lemma memb_cons x v V : memb x (v :: V) = Nat.eqb x v || memb x V.
Proof. reflexivity. Qed.

Lemma existsb_ext_in {A} (f g : A -> bool) l :
  (forall x, In x l -> f x = g x) -> existsb f l = existsb g l.
Proof.
  induction l as [|h t IH]; intros H; simpl; auto.
  rewrite (H h) by (left; reflexivity). rewrite IH; auto. intros x Hx. apply H. right. exact Hx.
Qed.

Section Mis2Correct.
Variable K : Type.
Variable gtb : K -> K -> bool.
Variable kd : K.
Variable G : graph.
Variable r : list K.

Notation n := (length G).
Notation keyv := (key K kd r).
Notation hasact := (has_active K gtb kd G r).
Notation confl := (conflict K gtb kd G r).
Notation ph1 := (phase1 K gtb kd G r).
Notation ph2 := (phase2 K gtb kd G r).

(* ---------- phase 1: the in-place loop computes the parallel update ---------- *)
Lemma hasact_ext s s' v :
  (forall w, active (getS s w) = active (getS s' w)) -> hasact s v = hasact s' v.
Proof. intros H. unfold has_active. apply existsb_ext_in. intros w _. apply H. Qed.

Lemma phase1_gen s0 V : forall s,
  (forall v, In v V -> v < length s0 /\ active (getS s0 v) = true) ->
  length s = length s0 ->
  (forall w, active (getS s w) = active (getS s0 w)) ->
  length (ph1 s V) = length s0 /\
  forall x, getS (ph1 s V) x =
            if memb x V && negb (hasact s0 x) then TmpSelection else getS s x.
Proof.
  induction V as [|v V IH]; intros s HV Hl Ha.
  - simpl. split; [exact Hl|reflexivity].
  - unfold phase1. cbn [fold_left]. fold (ph1 (if hasact s v then s else upd s v TmpSelection) V).
    destruct (HV v (or_introl eq_refl)) as [Hv Av].
    rewrite (hasact_ext s s0 v Ha).
    set (s1 := if hasact s0 v then s else upd s v TmpSelection).
    assert (Hl1 : length s1 = length s0).
    { unfold s1. destruct (hasact s0 v); [exact Hl|rewrite upd_length; exact Hl]. }
    assert (Ha1 : forall w, active (getS s1 w) = active (getS s0 w)).
    { intros w. unfold s1. destruct (hasact s0 v); [apply Ha|].
      destruct (Nat.eq_dec v w) as [E|E].
      - subst w. rewrite getS_upd_eq by lia. rewrite Av. reflexivity.
      - rewrite getS_upd_neq by exact E. apply Ha. }
    destruct (IH s1 (fun u Hu => HV u (or_intror Hu)) Hl1 Ha1) as [L X].
    split; [exact L|]. intros x. rewrite X. rewrite memb_cons.
    destruct (Nat.eqb x v) eqn:E.
    + apply Nat.eqb_eq in E. subst x. simpl. unfold s1.
      destruct (hasact s0 v) eqn:Hh; simpl.
      * rewrite andb_false_r. reflexivity.
      * rewrite andb_true_r. destruct (memb v V); [reflexivity|]. apply getS_upd_eq. lia.
    + simpl. destruct (memb x V && negb (hasact s0 x)); [reflexivity|].
      unfold s1. destruct (hasact s0 v); [reflexivity|]. apply getS_upd_neq.
      apply Nat.eqb_neq in E. auto.
Qed.

Lemma phase1_spec s0 V :
  (forall v, In v V -> v < length s0 /\ active (getS s0 v) = true) ->
  length (ph1 s0 V) = length s0 /\
  forall x, getS (ph1 s0 V) x =
            if memb x V && negb (hasact s0 x) then TmpSelection else getS s0 x.
Proof. intros H. apply phase1_gen; auto. Qed.

(* ---------- phase 2 ---------- *)
Lemma confl_ext s s' v :
  (forall w, gt_selected (getS s w) = gt_selected (getS s' w)) -> confl s v = confl s' v.
Proof.
  intros H. unfold conflict. apply existsb_ext_in. intros w _. apply existsb_ext_in. intros u _.
  rewrite H. reflexivity.
Qed.

Lemma phase2_gen s1 V : forall s,
  NoDup V -> (forall v, In v V -> v < length s1) ->
  length s = length s1 ->
  (forall w, gt_selected (getS s w) = gt_selected (getS s1 w)) ->
  (forall x, In x V -> getS s x = getS s1 x) ->
  length (ph2 s V) = length s1 /\
  forall x, getS (ph2 s V) x =
            if memb x V && is_tmp (getS s1 x) && negb (confl s1 x) then NewSelection else getS s x.
Proof.
  induction V as [|v V IH]; intros s ND HV Hl Hg Hu.
  - simpl. split; [exact Hl|reflexivity].
  - unfold phase2. cbn [fold_left].
    fold (ph2 (if is_tmp (getS s v) then if confl s v then s else upd s v NewSelection else s) V).
    inversion ND as [|? ? NI ND']; subst.
    assert (Hv : v < length s1) by (apply HV; left; reflexivity).
    rewrite (Hu v (or_introl eq_refl)). rewrite (confl_ext s s1 v Hg).
    set (s' := if is_tmp (getS s1 v) then if confl s1 v then s else upd s v NewSelection else s).
    assert (Hl' : length s' = length s1).
    { unfold s'. destruct (is_tmp (getS s1 v)); [|exact Hl]. destruct (confl s1 v); [exact Hl|].
      rewrite upd_length. exact Hl. }
    assert (Hg' : forall w, gt_selected (getS s' w) = gt_selected (getS s1 w)).
    { intros w. unfold s'. destruct (is_tmp (getS s1 v)) eqn:T; [|apply Hg]. destruct (confl s1 v); [apply Hg|].
      destruct (Nat.eq_dec v w) as [E|E].
      - subst w. rewrite getS_upd_eq by lia. destruct (getS s1 v); simpl in T; try discriminate. reflexivity.
      - rewrite getS_upd_neq by exact E. apply Hg. }
    assert (Hu' : forall x, In x V -> getS s' x = getS s1 x).
    { intros x Hx. assert (v <> x) by (intros ->; contradiction).
      unfold s'. destruct (is_tmp (getS s1 v)); [|apply Hu; right; exact Hx].
      destruct (confl s1 v); [apply Hu; right; exact Hx|]. rewrite getS_upd_neq by assumption. apply Hu. right. exact Hx. }
    destruct (IH s' ND' (fun u Hu0 => HV u (or_intror Hu0)) Hl' Hg' Hu') as [L X].
    split; [exact L|]. intros x. rewrite X. rewrite memb_cons.
    destruct (Nat.eqb x v) eqn:E.
    + apply Nat.eqb_eq in E. subst x.
      assert (Mv : memb v V = false) by (apply memb_false; exact NI). rewrite Mv. simpl.
      unfold s'. destruct (is_tmp (getS s1 v)); simpl; [|reflexivity].
      destruct (confl s1 v); simpl; [reflexivity|]. apply getS_upd_eq. lia.
    + simpl. destruct (memb x V && is_tmp (getS s1 x) && negb (confl s1 x)); [reflexivity|].
      apply Nat.eqb_neq in E.
      unfold s'. destruct (is_tmp (getS s1 v)); [|reflexivity]. destruct (confl s1 v); [reflexivity|].
      apply getS_upd_neq. auto.
Qed.

Lemma phase2_spec s1 V :
  NoDup V -> (forall v, In v V -> v < length s1) ->
  length (ph2 s1 V) = length s1 /\
  forall x, getS (ph2 s1 V) x =
            if memb x V && is_tmp (getS s1 x) && negb (confl s1 x) then NewSelection else getS s1 x.
Proof. intros ND H. apply phase2_gen; auto. Qed.

(* ---------- phase 3 ---------- *)
Lemma near_ext s s' C v :
  (forall w, is_newsel (getS s w) = is_newsel (getS s' w)) -> near_new G s C v = near_new G s' C v.
Proof. intros H. unfold near_new. apply existsb_ext_in. intros w _. rewrite H. reflexivity. Qed.

Lemma phase3_gen s2 C V : forall s,
  (forall v, In v V -> v < length s2) ->
  length s = length s2 ->
  (forall w, is_newsel (getS s w) = is_newsel (getS s2 w)) ->
  length (phase3 G s C V) = length s2 /\
  forall x, getS (phase3 G s C V) x =
            if memb x V && negb (is_newsel (getS s2 x)) && near_new G s2 C x then NewUnselection else getS s x.
Proof.
  induction V as [|v V IH]; intros s HV Hl Hn.
  - simpl. split; [exact Hl|reflexivity].
  - unfold phase3. cbn [fold_left].
    fold (phase3 G (if is_newsel (getS s v) then s else if near_new G s C v then upd s v NewUnselection else s) C V).
    assert (Hv : v < length s2) by (apply HV; left; reflexivity).
    rewrite (Hn v). rewrite (near_ext s s2 C v Hn).
    set (s' := if is_newsel (getS s2 v) then s else if near_new G s2 C v then upd s v NewUnselection else s).
    assert (Hl' : length s' = length s2).
    { unfold s'. destruct (is_newsel (getS s2 v)); [exact Hl|]. destruct (near_new G s2 C v); [|exact Hl].
      rewrite upd_length. exact Hl. }
    assert (Hn' : forall w, is_newsel (getS s' w) = is_newsel (getS s2 w)).
    { intros w. unfold s'. destruct (is_newsel (getS s2 v)) eqn:T; [apply Hn|]. destruct (near_new G s2 C v); [|apply Hn].
      destruct (Nat.eq_dec v w) as [E|E].
      - subst w. rewrite getS_upd_eq by lia. rewrite T. reflexivity.
      - rewrite getS_upd_neq by exact E. apply Hn. }
    destruct (IH s' (fun u Hu0 => HV u (or_intror Hu0)) Hl' Hn') as [L X].
    split; [exact L|]. intros x. rewrite X. rewrite memb_cons.
    destruct (Nat.eqb x v) eqn:E.
    + apply Nat.eqb_eq in E. subst x. simpl.
      unfold s'. destruct (is_newsel (getS s2 v)); simpl.
      * rewrite andb_false_r. reflexivity.
      * rewrite andb_true_r. destruct (near_new G s2 C v); simpl.
        -- rewrite andb_true_r. destruct (memb v V); [reflexivity|]. apply getS_upd_eq. lia.
        -- rewrite andb_false_r. reflexivity.
    + simpl. destruct (memb x V && negb (is_newsel (getS s2 x)) && near_new G s2 C x); [reflexivity|].
      apply Nat.eqb_neq in E.
      unfold s'. destruct (is_newsel (getS s2 v)); [reflexivity|]. destruct (near_new G s2 C v); [|reflexivity].
      apply getS_upd_neq. auto.
Qed.

Lemma phase3_spec s2 C V :
  (forall v, In v V -> v < length s2) ->
  length (phase3 G s2 C V) = length s2 /\
  forall x, getS (phase3 G s2 C V) x =
            if memb x V && negb (is_newsel (getS s2 x)) && near_new G s2 C x then NewUnselection else getS s2 x.
Proof. intros H. apply phase3_gen; auto. Qed.

(* ---------- phase 3a: C ---------- *)
Lemma colrows_spec w v : In w (colrows G v) <-> w < n /\ In v (row G w).
Proof.
  unfold colrows. rewrite in_flat_map. split.
  - intros [u [Hu Hw]]. apply in_seq in Hu. apply in_map_iff in Hw. destruct Hw as [x [E Hx]]. subst u.
    apply filter_In in Hx. destruct Hx as [Hx E]. apply Nat.eqb_eq in E. subst x. split; [lia|exact Hx].
  - intros [Hw Hv]. exists w. split; [apply in_seq; lia|]. apply in_map_iff. exists v. split; [reflexivity|].
    apply filter_In. split; [exact Hv|apply Nat.eqb_refl].
Qed.

Lemma mark_list l : forall (C : list bool) w,
  nth w (fold_left (fun C w => upd C w true) l C) false = true <->
  (In w l /\ w < length C) \/ nth w C false = true.
Proof.
  induction l as [|h t IH]; intros C w; simpl.
  - tauto.
  - rewrite IH. rewrite upd_length. destruct (Nat.eq_dec h w) as [E|E].
    + subst h. split.
      * intros [[H1 H2]|H]; [left; auto|]. destruct (Nat.lt_ge_cases w (length C)) as [L|L]; [left; auto|].
        right. rewrite nth_overflow in H by (rewrite upd_length; exact L). discriminate.
      * intros [[H1 H2]|H].
        -- right. apply nth_upd_eq. exact H2.
        -- right. destruct (Nat.lt_ge_cases w (length C)) as [L|L]; [apply nth_upd_eq; exact L|].
           rewrite nth_overflow in H by exact L. discriminate.
    + rewrite nth_upd_neq by exact E. split.
      * intros [[H1 H2]|H]; [left; auto|right; exact H].
      * intros [[[H1|H1] H2]|H]; [contradiction|left; auto|right; exact H].
Qed.

Lemma markC_gen s V : forall (C : list bool) w, length C = n ->
  nth w (fold_left (fun C v => if is_newsel (getS s v)
                               then fold_left (fun C w => upd C w true) (colrows G v) C else C) V C) false = true <->
  (exists v, In v V /\ is_newsel (getS s v) = true /\ In w (colrows G v)) \/ nth w C false = true.
Proof.
  induction V as [|v V IH]; intros C w HC; simpl.
  - split; [auto|]. intros [[v [[] _]]|H]; exact H.
  - destruct (is_newsel (getS s v)) eqn:E.
    + rewrite IH.
      2:{ clear IH. generalize (colrows G v). intros l. revert C HC. induction l as [|h t IHl]; intros C HC; simpl; auto.
          apply IHl. rewrite upd_length. exact HC. }
      rewrite mark_list. split.
      * intros [[u [Hu [Eu Hw]]]|[[H1 H2]|H]].
        -- left. exists u. auto.
        -- left. exists v. auto.
        -- right. exact H.
      * intros [[u [[Hu|Hu] [Eu Hw]]]|H].
        -- subst u. right. left. split; [exact Hw|]. apply colrows_spec in Hw. lia.
        -- left. exists u. auto.
        -- right. right. exact H.
    + rewrite IH by exact HC. split.
      * intros [[u [Hu [Eu Hw]]]|H]; [left; exists u; auto|right; exact H].
      * intros [[u [[Hu|Hu] [Eu Hw]]]|H]; [subst u; congruence|left; exists u; auto|right; exact H].
Qed.

Lemma markC_spec s V w :
  nth w (markC G s V) false = true <->
  w < n /\ exists v, In v V /\ is_newsel (getS s v) = true /\ In v (row G w).
Proof.
  unfold markC. rewrite markC_gen by apply repeat_length. split.
  - intros [[v [Hv [E Hw]]]|H].
    + apply colrows_spec in Hw. destruct Hw as [Hw Hr]. split; [exact Hw|]. exists v. auto.
    + exfalso. destruct (Nat.lt_ge_cases w n) as [L|L].
      * rewrite nth_repeat in H. discriminate.
      * rewrite nth_overflow in H by (rewrite repeat_length; exact L). discriminate.
  - intros [Hw [v [Hv [E Hr]]]]. left. exists v. repeat split; auto. apply colrows_spec. auto.
Qed.

(* ---------- phase 4 ---------- *)
Definition fin_st (x : st) : st :=
  match x with NewSelection => Selected | NewUnselection => Unselected | o => o end.
Definition stays (x : st) : bool :=
  match x with NewSelection | NewUnselection => false | _ => true end.

Lemma finalize_gen V : forall s acc, NoDup V -> (forall v, In v V -> v < length s) ->
  let p := fold_left (fun (p : list st * list nat) v =>
               match getS (fst p) v with
               | NewSelection => (upd (fst p) v Selected, snd p)
               | NewUnselection => (upd (fst p) v Unselected, snd p)
               | _ => (fst p, snd p ++ [v])
               end) V (s, acc) in
  length (fst p) = length s /\
  (forall x, getS (fst p) x = if memb x V then fin_st (getS s x) else getS s x) /\
  snd p = acc ++ filter (fun v => stays (getS s v)) V.
Proof.
  induction V as [|v V IH]; intros s acc ND HV; cbn [fold_left].
  - simpl. rewrite app_nil_r. auto.
  - inversion ND as [|? ? NI ND']; subst.
    assert (Hv : v < length s) by (apply HV; left; reflexivity).
    assert (Mv : memb v V = false) by (apply memb_false; exact NI).
    cbn [fst snd].
    set (q := match getS s v with
              | NewSelection => (upd s v Selected, acc)
              | NewUnselection => (upd s v Unselected, acc)
              | _ => (s, acc ++ [v]) end).
    assert (Hq1 : length (fst q) = length s).
    { unfold q. destruct (getS s v); simpl; auto; apply upd_length. }
    assert (Hq2 : forall x, getS (fst q) x = if Nat.eqb x v then fin_st (getS s x) else getS s x).
    { intros x. unfold q. destruct (Nat.eqb x v) eqn:E.
      - apply Nat.eqb_eq in E. subst x. destruct (getS s v) eqn:S; simpl; auto; try (rewrite S; reflexivity);
        apply getS_upd_eq; exact Hv.
      - apply Nat.eqb_neq in E. destruct (getS s v); simpl; auto; apply getS_upd_neq; auto. }
    assert (Hq3 : snd q = acc ++ (if stays (getS s v) then [v] else [])).
    { unfold q. destruct (getS s v); simpl; auto; rewrite app_nil_r; reflexivity. }
    destruct q as [s' acc']. cbn [fst snd] in *.
    destruct (IH s' acc' ND') as [L [X Y]].
    { intros u Hu. rewrite Hq1. apply HV. right. exact Hu. }
    split; [rewrite L; exact Hq1|]. split.
    + intros x. rewrite X. rewrite memb_cons. rewrite !Hq2. destruct (Nat.eqb x v) eqn:E; simpl.
      * apply Nat.eqb_eq in E. subst x. rewrite Mv. reflexivity.
      * reflexivity.
    + rewrite Y. rewrite Hq3. rewrite <- app_assoc. f_equal. cbn [filter].
      assert (F : filter (fun v0 => stays (getS s' v0)) V = filter (fun v0 => stays (getS s v0)) V).
      { apply filter_ext_in. intros x Hx. rewrite Hq2. destruct (Nat.eqb x v) eqn:E; [|reflexivity].
        apply Nat.eqb_eq in E. subst x. contradiction. }
      rewrite F. destruct (stays (getS s v)); reflexivity.
Qed.

Lemma finalize_spec s V : NoDup V -> (forall v, In v V -> v < length s) ->
  length (fst (finalize s V)) = length s /\
  (forall x, getS (fst (finalize s V)) x = if memb x V then fin_st (getS s x) else getS s x) /\
  snd (finalize s V) = filter (fun v => stays (getS s v)) V.
Proof. intros ND HV. exact (finalize_gen V s [] ND HV). Qed.

(* ---------- one round on a state satisfying the loop invariant ---------- *)
Definition four (x : st) : Prop :=
  x = Unassigned \/ x = TmpSelection \/ x = Selected \/ x = Unselected.

Lemma extremal (R : nat -> nat -> bool) (l : list nat) :
  (forall a, R a a = false) ->
  (forall a b c, R a b = true -> R b c = true -> R a c = true) ->
  l <> [] -> exists m, In m l /\ forall x, In x l -> R m x = false.
Proof.
  intros I T. induction l as [|h t IH]; intros NE; [congruence|].
  destruct t as [|h' t'].
  - exists h. split; [left; reflexivity|]. intros x [<-|[]]. apply I.
  - destruct IH as [m [Hm Hmin]]; [discriminate|].
    destruct (R m h) eqn:E.
    + exists h. split; [left; reflexivity|]. intros x [<-|Hx]; [apply I|].
      destruct (R h x) eqn:E2; auto. pose proof (T _ _ _ E E2) as E3. rewrite (Hmin x Hx) in E3. discriminate.
    + exists m. split; [right; exact Hm|]. intros x [<-|Hx]; [exact E|apply Hmin; exact Hx].
Qed.

Lemma filter_len_le {A} (f : A -> bool) l : length (filter f l) <= length l.
Proof. induction l as [|h t IH]; simpl; auto. destruct (f h); simpl; lia. Qed.

Lemma filter_length_lt {A} (f : A -> bool) l x :
  In x l -> f x = false -> length (filter f l) < length l.
Proof.
  induction l as [|h t IH]; intros Hx Hf; [destruct Hx|]. simpl.
  destruct Hx as [<-|Hx].
  - rewrite Hf. pose proof (filter_len_le f t). lia.
  - specialize (IH Hx Hf). destruct (f h); simpl; lia.
Qed.

Definition reach2 (u v : nat) : Prop := exists w, In w (row G u) /\ In v (row G w).

Hypothesis WF : graph_wf G.

Record Inv1 (s : list st) (V : list nat) : Prop := {
  inv_len : length s = n;
  inv_nodup : NoDup V;
  inv_V : forall v, In v V <-> v < n /\ active (getS s v) = true;
  inv_four : forall v, four (getS s v);
  inv_cover : forall v, v < n -> getS s v = Unselected ->
              exists x, x < n /\ getS s x = Selected /\ within2 G v x }.

Record Inv2 (s : list st) : Prop := {
  inv_ind : forall u v, getS s u = Selected -> getS s v = Selected -> u <> v -> ~ reach2 u v;
  inv_excl : forall x v, getS s x = Selected -> reach2 v x -> active (getS s v) = false }.

Section Round.
Variable s0 : list st.
Variable V : list nat.
Hypothesis I1 : Inv1 s0 V.

Notation s1 := (ph1 s0 V).
Notation s2 := (ph2 s1 V).
Notation C := (markC G s2 V).
Notation s3 := (phase3 G s2 C V).
Notation s4 := (fst (finalize s3 V)).
Notation V' := (snd (finalize s3 V)).
Definition NSb (x : nat) : bool := memb x V && is_tmp (getS s1 x) && negb (confl s1 x).
Definition nearb (x : nat) : bool := near_new G s2 C x.

Lemma round_unfold : round K gtb kd G r s0 V = finalize s3 V.
Proof. reflexivity. Qed.

Lemma V_lt v : In v V -> v < length s0 /\ active (getS s0 v) = true.
Proof. intros H. apply (inv_V _ _ I1) in H. rewrite (inv_len _ _ I1). exact H. Qed.

Lemma V_two v : In v V -> getS s0 v = Unassigned \/ getS s0 v = TmpSelection.
Proof.
  intros H. destruct (V_lt v H) as [_ A]. destruct (inv_four _ _ I1 v) as [E|[E|[E|E]]]; auto;
  rewrite E in A; discriminate.
Qed.

Lemma s1_len : length s1 = n.
Proof. rewrite <- (inv_len _ _ I1). apply (phase1_spec s0 V V_lt). Qed.
Lemma s1_get x : getS s1 x = if memb x V && negb (hasact s0 x) then TmpSelection else getS s0 x.
Proof. apply (phase1_spec s0 V V_lt). Qed.

Lemma s1_four x : four (getS s1 x).
Proof. rewrite s1_get. destruct (memb x V && negb (hasact s0 x)); [right; left; reflexivity|apply (inv_four _ _ I1)]. Qed.
Lemma s1_in x : In x V -> getS s1 x = Unassigned \/ getS s1 x = TmpSelection.
Proof. intros H. rewrite s1_get. destruct (memb x V && negb (hasact s0 x)); [right; reflexivity|apply V_two; exact H]. Qed.
Lemma s1_out x : ~ In x V -> getS s1 x = getS s0 x.
Proof. intros H. rewrite s1_get. apply memb_false in H. rewrite H. reflexivity. Qed.

Lemma V_lt1 v : In v V -> v < length s1.
Proof. intros H. rewrite s1_len. apply (inv_V _ _ I1). exact H. Qed.

Lemma s2_len : length s2 = n.
Proof. rewrite <- s1_len. apply (phase2_spec s1 V (inv_nodup _ _ I1) V_lt1). Qed.
Lemma s2_get x : getS s2 x = if NSb x then NewSelection else getS s1 x.
Proof. apply (phase2_spec s1 V (inv_nodup _ _ I1) V_lt1). Qed.
Lemma s2_newsel x : is_newsel (getS s2 x) = NSb x.
Proof.
  rewrite s2_get. destruct (NSb x); [reflexivity|].
  destruct (s1_four x) as [E|[E|[E|E]]]; rewrite E; reflexivity.
Qed.

Lemma V_lt2 v : In v V -> v < length s2.
Proof. intros H. rewrite s2_len. apply (inv_V _ _ I1). exact H. Qed.

Lemma s3_len : length s3 = n.
Proof. rewrite <- s2_len. apply (phase3_spec s2 C V V_lt2). Qed.
Lemma s3_get x : getS s3 x = if memb x V && negb (NSb x) && nearb x then NewUnselection else getS s2 x.
Proof. rewrite <- s2_newsel. apply (phase3_spec s2 C V V_lt2). Qed.

Lemma V_lt3 v : In v V -> v < length s3.
Proof. intros H. rewrite s3_len. apply (inv_V _ _ I1). exact H. Qed.

Lemma s4_len : length s4 = n.
Proof. rewrite <- s3_len. apply (finalize_spec s3 V (inv_nodup _ _ I1) V_lt3). Qed.

Lemma NSb_in x : NSb x = true -> In x V.
Proof. unfold NSb. intros H. apply andb_true_iff in H. destruct H as [H _]. apply andb_true_iff in H. destruct H as [H _]. apply memb_In. exact H. Qed.

(* the state after the round *)
Lemma s4_get x :
  getS s4 x = if memb x V then (if NSb x then Selected else if nearb x then Unselected else getS s1 x)
              else getS s0 x.
Proof.
  destruct (finalize_spec s3 V (inv_nodup _ _ I1) V_lt3) as [_ [X _]]. rewrite X. clear X.
  rewrite s3_get, s2_get. destruct (memb x V) eqn:M; simpl.
  - destruct (NSb x) eqn:N; simpl; [reflexivity|]. destruct (nearb x); simpl; [reflexivity|].
    apply memb_In in M. destruct (s1_in x M) as [E|E]; rewrite E; reflexivity.
  - assert (N : NSb x = false).
    { destruct (NSb x) eqn:N; auto. apply NSb_in in N. apply memb_In in N. congruence. }
    rewrite N. apply s1_out. apply memb_false. exact M.
Qed.

Lemma V'_eq : V' = filter (fun x => negb (NSb x) && negb (nearb x)) V.
Proof.
  destruct (finalize_spec s3 V (inv_nodup _ _ I1) V_lt3) as [_ [_ Y]]. rewrite Y.
  apply filter_ext_in. intros x Hx. rewrite s3_get, s2_get.
  assert (M : memb x V = true) by (apply memb_In; exact Hx). rewrite M. simpl.
  destruct (NSb x); simpl; [reflexivity|]. destruct (nearb x); simpl; [reflexivity|].
  destruct (s1_in x Hx) as [E|E]; rewrite E; reflexivity.
Qed.

Lemma nearb_spec x : nearb x = true <->
  exists w, In w (row G x) /\ (NSb w = true \/ exists y, NSb y = true /\ In y (row G w)).
Proof.
  unfold nearb, near_new. rewrite existsb_exists. split.
  - intros [w [Hw H]]. exists w. split; [exact Hw|]. apply orb_true_iff in H. destruct H as [H|H].
    + left. rewrite <- s2_newsel. exact H.
    + right. apply markC_spec in H. destruct H as [_ [y [Hy [E Hr]]]]. exists y. rewrite <- s2_newsel. auto.
  - intros [w [Hw H]]. exists w. split; [exact Hw|]. apply orb_true_iff. destruct H as [H|[y [Ny Hr]]].
    + left. rewrite s2_newsel. exact H.
    + right. apply markC_spec. split; [apply (WF x); exact Hw|]. exists y. rewrite s2_newsel.
      split; [apply NSb_in; exact Ny|auto].
Qed.

Lemma s4_selected x : getS s4 x = Selected <-> NSb x = true \/ (~ In x V /\ getS s0 x = Selected).
Proof.
  rewrite s4_get. destruct (memb x V) eqn:M.
  - apply memb_In in M. destruct (NSb x); [tauto|]. split.
    + intros H. exfalso. destruct (nearb x); [discriminate|]. destruct (s1_in x M) as [E|E]; rewrite E in H; discriminate.
    + intros [H|[H _]]; [discriminate|contradiction].
  - apply memb_false in M. split; [auto|]. intros [H|[_ H]]; [apply NSb_in in H; contradiction|exact H].
Qed.

Lemma round_inv1 : Inv1 s4 V'.
Proof.
  constructor.
  - exact s4_len.
  - rewrite V'_eq. apply NoDup_filter. exact (inv_nodup _ _ I1).
  - intros v. rewrite V'_eq, filter_In, s4_get. split.
    + intros [Hv H]. apply andb_true_iff in H. destruct H as [H1 H2]. apply negb_true_iff in H1, H2.
      assert (M : memb v V = true) by (apply memb_In; exact Hv). rewrite M, H1, H2.
      split; [apply (inv_V _ _ I1); exact Hv|]. destruct (s1_in v Hv) as [E|E]; rewrite E; reflexivity.
    + intros [Hv A]. destruct (memb v V) eqn:M.
      * split; [apply memb_In; exact M|]. destruct (NSb v); [discriminate|]. destruct (nearb v); [discriminate|]. reflexivity.
      * exfalso. apply memb_false in M. apply M. apply (inv_V _ _ I1). auto.
  - intros v. rewrite s4_get. destruct (memb v V); [|apply (inv_four _ _ I1)].
    destruct (NSb v); [right; right; left; reflexivity|]. destruct (nearb v); [right; right; right; reflexivity|apply s1_four].
  - intros v Hv U. rewrite s4_get in U. destruct (memb v V) eqn:M.
    + apply memb_In in M. destruct (NSb v) eqn:N; [discriminate|]. destruct (nearb v) eqn:Ne.
      * apply nearb_spec in Ne. destruct Ne as [w [Hw [H|[y [Ny Hr]]]]].
        -- exists w. split; [apply (WF v); exact Hw|]. split; [apply s4_selected; left; exact H|].
           right. left. exact Hw.
        -- exists y. split; [apply (WF w); exact Hr|]. split; [apply s4_selected; left; exact Ny|].
           right. right. exists w. auto.
      * exfalso. destruct (s1_in v M) as [E|E]; rewrite E in U; discriminate.
    + apply memb_false in M. destruct (inv_cover _ _ I1 v Hv U) as [x [Hx [Sx W]]].
      exists x. split; [exact Hx|]. split; [|exact W]. apply s4_selected. right. split; [|exact Sx].
      intros Hin. apply (inv_V _ _ I1) in Hin. rewrite Sx in Hin. destruct Hin; discriminate.
Qed.

(* progress: some vertex of a non-empty work list is selected *)
Hypothesis gtb_irrefl : forall a, gtb a a = false.
Hypothesis gtb_trans : forall a b c, gtb a b = true -> gtb b c = true -> gtb a c = true.

Lemma s1_tmp_in u : getS s1 u = TmpSelection -> In u V.
Proof.
  intros H. rewrite s1_get in H. destruct (memb u V) eqn:M; [apply memb_In; exact M|]. simpl in H.
  apply (inv_V _ _ I1). destruct (Nat.lt_ge_cases u n) as [L|L].
  - split; [exact L|]. rewrite H. reflexivity.
  - rewrite getS_oob in H by (rewrite (inv_len _ _ I1); exact L). discriminate.
Qed.

Lemma round_selects : V <> [] -> exists x, In x V /\ NSb x = true.
Proof.
  intros NE.
  destruct (extremal (fun a b => gtb (keyv a) (keyv b)) V) as [m [Hm Hmin]]; auto.
  { intros a b c. apply gtb_trans. }
  assert (Tm : getS s1 m = TmpSelection).
  { rewrite s1_get. assert (M : memb m V = true) by (apply memb_In; exact Hm). rewrite M. simpl.
    assert (Hh : hasact s0 m = false).
    { unfold has_active. destruct (existsb (fun w => active (getS s0 w)) (Drow K gtb kd G r m)) eqn:E; auto.
      exfalso. apply existsb_exists in E. destruct E as [w [Hw A]]. unfold Drow in Hw. apply filter_In in Hw.
      destruct Hw as [Hw Gt]. assert (Hin : In w V) by (apply (inv_V _ _ I1); split; [apply (WF m); exact Hw|exact A]).
      rewrite (Hmin w Hin) in Gt. discriminate. }
    rewrite Hh. reflexivity. }
  set (T := filter (fun x => is_tmp (getS s1 x)) V).
  assert (NT : T <> []).
  { intros E. assert (In m T) by (apply filter_In; split; [exact Hm|rewrite Tm; reflexivity]). rewrite E in H. destruct H. }
  destruct (extremal (fun a b => gtb (keyv b) (keyv a)) T) as [M [HM Hmax]]; auto.
  { intros a b c H1 H2. apply (gtb_trans _ _ _ H2 H1). }
  apply filter_In in HM. destruct HM as [HMV HMT].
  exists M. split; [exact HMV|]. unfold NSb. rewrite HMT. assert (MM : memb M V = true) by (apply memb_In; exact HMV).
  rewrite MM. simpl. apply negb_true_iff. unfold conflict.
  destruct (existsb (fun w => existsb (fun u => gt_selected (getS s1 u) && gtb (keyv u) (keyv M)) (row G w)) (row G M)) eqn:E; auto.
  exfalso. apply existsb_exists in E. destruct E as [w [Hw E]]. apply existsb_exists in E. destruct E as [u [Hu E]].
  apply andb_true_iff in E. destruct E as [E1 E2].
  assert (Tu : getS s1 u = TmpSelection).
  { destruct (s1_four u) as [X|[X|[X|X]]]; rewrite X in E1; try discriminate. exact X. }
  assert (In u T) by (apply filter_In; split; [apply s1_tmp_in; exact Tu|rewrite Tu; reflexivity]).
  rewrite (Hmax u H) in E2. discriminate.
Qed.

Lemma round_progress : V <> [] -> length V' < length V.
Proof.
  intros NE. destruct (round_selects NE) as [x [Hx N]]. rewrite V'_eq.
  apply (filter_length_lt _ V x Hx). rewrite N. reflexivity.
Qed.

(* independence is preserved: symmetric pattern, distinct keys *)
Hypothesis SYM : symmetric G.
Hypothesis Hlen : length r = n.
Hypothesis KD : NoDup r.
Hypothesis gtb_total : forall a b, a <> b -> gtb a b = true \/ gtb b a = true.
Hypothesis I2 : Inv2 s0.

Lemma reach2_sym u v : reach2 u v -> reach2 v u.
Proof. intros [w [H1 H2]]. exists w. split; apply SYM; assumption. Qed.

Lemma NSb_noconf u v : NSb u = true -> NSb v = true -> reach2 u v -> gtb (keyv v) (keyv u) = false.
Proof.
  intros Nu Nv [w [H1 H2]]. unfold NSb in Nu, Nv.
  apply andb_true_iff in Nu. destruct Nu as [_ Cu]. apply negb_true_iff in Cu.
  apply andb_true_iff in Nv. destruct Nv as [Nv _]. apply andb_true_iff in Nv. destruct Nv as [_ Tv].
  destruct (gtb (keyv v) (keyv u)) eqn:E; auto. exfalso.
  assert (X : confl s1 u = true).
  { unfold conflict. apply existsb_exists. exists w. split; [exact H1|]. apply existsb_exists. exists v.
    split; [exact H2|]. rewrite E. destruct (getS s1 v); simpl in Tv; try discriminate. reflexivity. }
  congruence.
Qed.

Lemma round_inv2 : Inv2 s4.
Proof.
  constructor.
  - intros u v Su Sv Ne R. apply s4_selected in Su. apply s4_selected in Sv.
    destruct Su as [Nu|[Ou Su]]; destruct Sv as [Nv|[Ov Sv]].
    + pose proof (NSb_noconf u v Nu Nv R) as E1.
      pose proof (NSb_noconf v u Nv Nu (reach2_sym _ _ R)) as E2.
      assert (Lu : u < n) by (apply (inv_V _ _ I1); apply NSb_in; exact Nu).
      assert (Lv : v < n) by (apply (inv_V _ _ I1); apply NSb_in; exact Nv).
      assert (D : keyv u <> keyv v).
      { unfold key. intros E. apply Ne. apply (proj1 (NoDup_nth r kd) KD); try lia. exact E. }
      destruct (gtb_total _ _ D); congruence.
    + apply NSb_in in Nu. destruct (V_lt u Nu) as [_ A]. rewrite (inv_excl _ I2 v u Sv R) in A. discriminate.
    + apply NSb_in in Nv. destruct (V_lt v Nv) as [_ A].
      rewrite (inv_excl _ I2 u v Su (reach2_sym _ _ R)) in A. discriminate.
    + exact (inv_ind _ I2 u v Su Sv Ne R).
  - intros x v Sx R. apply s4_selected in Sx. rewrite s4_get.
    destruct (memb v V) eqn:M.
    + destruct (NSb v) eqn:N; [reflexivity|].
      destruct Sx as [Nx|[Ox Sx]].
      * assert (Ne : nearb v = true).
        { apply nearb_spec. destruct R as [w [H1 H2]]. exists w. split; [exact H1|]. right. exists x. auto. }
        rewrite Ne. reflexivity.
      * apply memb_In in M. destruct (V_lt v M) as [_ A]. rewrite (inv_excl _ I2 x v Sx R) in A. discriminate.
    + apply memb_false in M. destruct Sx as [Nx|[Ox Sx]].
      * destruct R as [w [H1 H2]]. assert (Lv : v < n).
        { destruct (Nat.lt_ge_cases v n) as [L|L]; auto. rewrite row_oob in H1 by exact L. destruct H1. }
        destruct (active (getS s0 v)) eqn:A; auto. exfalso. apply M. apply (inv_V _ _ I1). auto.
      * exact (inv_excl _ I2 x v Sx R).
Qed.

End Round.

(* ---------- the loop ---------- *)
Hypothesis gtb_irrefl : forall a, gtb a a = false.
Hypothesis gtb_trans : forall a b c, gtb a b = true -> gtb b c = true -> gtb a c = true.

Lemma loop_inv1 fuel : forall s V, Inv1 s V -> length V <= fuel ->
  exists s', mis2_loop K gtb kd G r fuel s V = Some s' /\ Inv1 s' [].
Proof.
  induction fuel as [|f IH]; intros s V I L.
  - destruct V; [|simpl in L; lia]. exists s. split; [reflexivity|exact I].
  - destruct V as [|v V]; [exists s; split; [reflexivity|exact I]|].
    cbn [mis2_loop]. rewrite round_unfold.
    apply IH.
    + apply round_inv1. exact I.
    + assert (P := round_progress s (v :: V) I gtb_irrefl gtb_trans).
      assert (NE : v :: V <> []) by discriminate. specialize (P NE).
      remember (length (snd (finalize (phase3 G (ph2 (ph1 s (v :: V)) (v :: V)) (markC G (ph2 (ph1 s (v :: V)) (v :: V)) (v :: V)) (v :: V)) (v :: V)))) as k.
      change (length (v :: V)) with (S (length V)) in *. lia.
Qed.

Lemma init_inv1 : Inv1 (repeat Unassigned n) (seq 0 n).
Proof.
  assert (X : forall v, getS (repeat Unassigned n) v = Unassigned).
  { intros v. unfold getS. destruct (Nat.lt_ge_cases v n) as [L|L].
    - apply nth_repeat.
    - apply nth_overflow. rewrite repeat_length. exact L. }
  constructor.
  - apply repeat_length.
  - apply seq_NoDup.
  - intros v. rewrite in_seq, X. simpl. split; intros; [split; [lia|reflexivity]|lia].
  - intros v. rewrite X. left. reflexivity.
  - intros v _ H. rewrite X in H. discriminate.
Qed.

Lemma init_inv2 : Inv2 (repeat Unassigned n).
Proof.
  assert (X : forall v, getS (repeat Unassigned n) v = Unassigned).
  { intros v. unfold getS. destruct (Nat.lt_ge_cases v n) as [L|L].
    - apply nth_repeat.
    - apply nth_overflow. rewrite repeat_length. exact L. }
  constructor; intros; rewrite X in *; discriminate.
Qed.

Hypothesis Hlen : length r = n.

Lemma mis2_unfold fuel :
  mis2_fuel K gtb kd G r fuel = mis2_loop K gtb kd G r fuel (repeat Unassigned n) (seq 0 n).
Proof.
  unfold mis2_fuel. rewrite (proj2 (graph_wfb_spec G) WF). rewrite Hlen, Nat.eqb_refl. reflexivity.
Qed.

(* a finished state: nothing left in the work list *)
Lemma final_decided s v : Inv1 s [] -> v < n -> getS s v = Selected \/ getS s v = Unselected.
Proof.
  intros I L. destruct (inv_four _ _ I v) as [E|[E|[E|E]]]; auto; exfalso;
  apply (proj2 (inv_V _ _ I v)); (split; [exact L|rewrite E; reflexivity]).
Qed.

Lemma is_root_code s v : length s = n -> (is_root (map st_code s) v = true <-> v < n /\ getS s v = Selected).
Proof.
  intros Ls. unfold is_root. destruct (Nat.lt_ge_cases v n) as [L|L].
  - change 0%Z with (st_code Unselected). rewrite map_nth. unfold getS.
    rewrite (nth_indep s Unselected Unassigned) by lia.
    destruct (nth v s Unassigned); simpl; split; intros H; try discriminate; auto; destruct H; auto; discriminate.
  - rewrite nth_overflow by (rewrite map_length; lia). simpl. split; [discriminate|lia].
Qed.

Lemma final_mis_decided s : Inv1 s [] -> decided G (map st_code s).
Proof.
  intros I. split; [rewrite map_length; exact (inv_len _ _ I)|].
  intros z Hz. apply in_map_iff in Hz. destruct Hz as [x [E Hx]]. destruct (In_nth _ _ Unassigned Hx) as [v [Lv Ev]].
  rewrite (inv_len _ _ I) in Lv. destruct (final_decided s v I Lv) as [F|F]; unfold getS in F; rewrite Ev in F; subst x z; rewrite F; simpl; auto.
Qed.

Lemma final_maximal s : Inv1 s [] -> maximal2 G (map st_code s).
Proof.
  intros I v Lv. destruct (final_decided s v I Lv) as [F|F].
  - exists v. split; [exact Lv|]. split; [apply is_root_code; [exact (inv_len _ _ I)|auto]|left; reflexivity].
  - destruct (inv_cover _ _ I v Lv F) as [x [Lx [Sx W]]]. exists x. split; [exact Lx|].
    split; [apply is_root_code; [exact (inv_len _ _ I)|auto]|exact W].
Qed.

Lemma final_indep s : Inv1 s [] -> Inv2 s -> symmetric G -> reflexive G -> indep2 G (map st_code s).
Proof.
  intros I J SY RF u v Lu Lv Ru Rv Ne.
  apply (is_root_code s u (inv_len _ _ I)) in Ru. apply (is_root_code s v (inv_len _ _ I)) in Rv.
  destruct Ru as [_ Su]. destruct Rv as [_ Sv]. split.
  - intros H. apply (inv_ind _ J u v Su Sv Ne). exists u. split; [apply RF; exact Lu|exact H].
  - intros [w [H1 H2]]. apply (inv_ind _ J u v Su Sv Ne). exists w. split; [exact H1|apply SY; exact H2].
Qed.

Theorem mis2_terminates_maximal :
  exists s, mis2 K gtb kd G r = Some s /\ length s = n /\
            decided G (map st_code s) /\ maximal2 G (map st_code s).
Proof.
  unfold mis2. rewrite mis2_unfold.
  destruct (loop_inv1 n _ _ init_inv1) as [s [E I]]; [rewrite seq_length; lia|].
  exists s. split; [exact E|]. split; [exact (inv_len _ _ I)|]. split; [apply final_mis_decided; exact I|apply final_maximal; exact I].
Qed.

(* independence *)
Hypothesis SYM : symmetric G.
Hypothesis REFL : reflexive G.
Hypothesis KD : NoDup r.
Hypothesis gtb_total : forall a b, a <> b -> gtb a b = true \/ gtb b a = true.

Lemma loop_inv2 fuel : forall s V, Inv1 s V -> Inv2 s -> forall s',
  mis2_loop K gtb kd G r fuel s V = Some s' -> Inv2 s'.
Proof.
  induction fuel as [|f IH]; intros s V I J s' E.
  - destruct V; simpl in E; [inversion E; subst; exact J|discriminate].
  - destruct V as [|v V]; [simpl in E; inversion E; subst; exact J|].
    cbn [mis2_loop] in E. rewrite round_unfold in E.
    apply (IH _ _ (round_inv1 s (v :: V) I)) in E; [exact E|].
    apply (round_inv2 s (v :: V) I SYM Hlen KD gtb_total J).
Qed.

Theorem mis2_correct :
  exists s, mis2 K gtb kd G r = Some s /\ mis_ok G (map st_code s) = true.
Proof.
  unfold mis2. rewrite mis2_unfold.
  destruct (loop_inv1 n _ _ init_inv1) as [s [E I]]; [rewrite seq_length; lia|].
  exists s. split; [exact E|]. apply mis_ok_spec.
  pose proof (loop_inv2 n _ _ init_inv1 init_inv2 s E) as J.
  split; [apply final_mis_decided; exact I|]. split; [apply final_indep; auto|apply final_maximal; exact I].
Qed.

End Mis2Correct.
