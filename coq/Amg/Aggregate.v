(* Executable model of raptor/aggregation/aggregate.cpp
     int aggregate(CSRMatrix* A, CSRMatrix* S, states, aggregates, double* rand_vals)
   and the verified checkers `agg_ok` (sequential labelling: aggregate id = rank of its root among the
   roots) and `agg_ok_glob` (distributed labelling of par_aggregate.cpp: aggregate id = global index of
   its root, -1 = not aggregated), property C15.

   S is the strength pattern (list of rows of column indices, storage order), A the matrix with values
   (row = list of (col, value)).  Values and keys live in an abstract type with `add`, `abs`, and
   `ltb a b` for the C++ `b > a`.  Labels are C ints, here Z, because the code uses temporary negative
   labels:  -1 = not yet aggregated, pass 2 writes -(max_agg+1) so that its own results are not read as
   aggregated by the following rows, the last loop decodes them with -(a+1).  (When pass 2 finds no
   aggregated neighbour it writes -((-1)+1) = 0, which IS read as aggregate 0 afterwards; the model keeps
   that.)  `while (A->idx2[ctr] != col) ctr++` is `seek` on the remainder of A's row; the C++ would run
   past the row end when the column is missing, the model returns None. *)
From Coq Require Import List Arith Bool ZArith Lia.
From Raptor Require Import Amg.Mis2.
Import ListNotations.

Definition getA (ag : list Z) (v : nat) : Z := nth v ag (-1)%Z.
(* states[i] > 0 *)
Definition pos_state (states : list Z) (v : nat) : bool := (0 <? nth v states 0)%Z.

Section Agg.
Variable F : Type.
Variable zero : F.
Variable add : F -> F -> F.
Variable abs : F -> F.
Variable ltb : F -> F -> bool.         (* ltb a b  <->  b > a *)

Fixpoint seek (col : nat) (arow : list (nat * F)) : option (list (nat * F)) :=
  match arow with
  | [] => None
  | p :: t => if fst p =? col then Some arow else seek col t
  end.

Section Run.
Variable A : list (list (nat * F)).
Variable S : graph.
Variable states : list Z.
Variable r : list F.                   (* the vector r: rand_vals, or zeros when rand_vals == NULL *)
Definition rkey (v : nat) : F := nth v r zero.

(* "Label aggregates as 0 - n_aggs" *)
Definition label_roots (n : nat) : list Z * nat :=
  fold_left (fun (p : list Z * nat) i =>
               if pos_state states i then (upd (fst p) i (Z.of_nat (snd p)), Datatypes.S (snd p)) else p)
            (seq 0 n) (repeat (-1)%Z n, 0).

(* Pass 1 *)
Definition pass1 (ag : list Z) (n : nat) : list Z :=
  fold_left (fun ag i =>
               if pos_state states i then ag
               else match find (fun col => pos_state states col) (row S i) with
                    | Some col => upd ag i (getA ag col)
                    | None => ag
                    end)
            (seq 0 n) ag.

(* inner loop of pass 2 over row i: returns max_agg *)
Fixpoint scan (ag : list Z) (srow : list nat) (arow : list (nat * F)) (max_val : F) (max_agg : Z)
  : option Z :=
  match srow with
  | [] => Some max_agg
  | col :: t =>
    match seek col arow with
    | Some ((c, a) :: rest) =>
      let val := add (abs a) (rkey col) in
      if ltb max_val val && (0 <=? getA ag col)%Z
      then scan ag t ((c, a) :: rest) val (getA ag col)
      else scan ag t ((c, a) :: rest) max_val max_agg
    | _ => None
    end
  end.

Definition pass2 (ag : list Z) (n : nat) : option (list Z) :=
  fold_left (fun (o : option (list Z)) i =>
               match o with
               | None => None
               | Some ag =>
                 if (0 <=? getA ag i)%Z then Some ag
                 else match scan ag (row S i) (nth i A []) zero (-1)%Z with
                      | None => None
                      | Some ma => Some (upd ag i (- (ma + 1))%Z)
                      end
               end)
            (seq 0 n) (Some ag).

Definition decode (ag : list Z) : list Z :=
  map (fun a => if (a <? 0)%Z then (- (a + 1))%Z else a) ag.

Definition agg_wfb : bool :=
  (length A =? length S) && (length states =? length S) && (length r =? length S) && graph_wfb S.

Definition aggregate : option (list Z * nat) :=
  match length S with
  | 0 => Some ([], 0)                         (* if (A->n_rows == 0) return 0; *)
  | n =>
    if agg_wfb then
      let p := label_roots n in
      match pass2 (pass1 (fst p) n) n with
      | Some ag => Some (decode ag, snd p)
      | None => None
      end
    else None
  end.
End Run.
End Agg.

(* ---------------------------------------------------------------------------------------------- *)
(* The property's clauses on an aggregation, through `aroot v` = the root that identifies v's
   aggregate (None = v is in no aggregate), and their checker.                                     *)

Definition isolatedb (G : graph) (v : nat) : bool := forallb (Nat.eqb v) (row G v).
Definition isolated (G : graph) (v : nat) : Prop := forall w, In w (row G v) -> w = v.

Definition opt_is (o : option nat) (v : nat) : bool :=
  match o with Some s => Nat.eqb s v | None => false end.

(* every non-isolated vertex is in an aggregate whose root is a root within two edges *)
Definition agg_valid (G : graph) (states : list Z) (aroot : nat -> option nat) : Prop :=
  forall v, v < length G -> ~ isolated G v ->
    exists s, aroot v = Some s /\ s < length G /\ is_root states s = true /\ within2 G v s.
(* every root is in its own aggregate (strict = false: isolated roots are exempt, as in par_aggregate.cpp) *)
Definition agg_roots_own (G : graph) (states : list Z) (aroot : nat -> option nat) (strict : bool) : Prop :=
  forall s, s < length G -> is_root states s = true -> (strict = true \/ ~ isolated G s) -> aroot s = Some s.
(* aggregates are identified by roots that head them, and the reported count is their number *)
Definition agg_heads (G : graph) (states : list Z) (aroot : nat -> option nat) (n_aggs : nat) : Prop :=
  (forall v, v < length G -> aroot v = Some v -> is_root states v = true) /\
  (forall v s, v < length G -> aroot v = Some s -> s < length G /\ aroot s = Some s) /\
  n_aggs = length (filter (fun v => opt_is (aroot v) v) (seq 0 (length G))).

Definition agg_core (G : graph) (states : list Z) (aroot : nat -> option nat) (strict : bool) (n_aggs : nat) : bool :=
  forallb (fun v =>
      (isolatedb G v ||
         match aroot v with
         | Some s => (s <? length G) && is_root states s && within2b G v s
         | None => false
         end) &&
      (negb (is_root states v) || (negb strict && isolatedb G v) || opt_is (aroot v) v) &&
      (negb (opt_is (aroot v) v) || is_root states v) &&
      match aroot v with Some s => (s <? length G) && opt_is (aroot s) s | None => true end)
    (seq 0 (length G)) &&
  (n_aggs =? length (filter (fun v => opt_is (aroot v) v) (seq 0 (length G)))).

(* sequential labelling: id k = the k-th root in index order *)
Definition root_list (n : nat) (states : list Z) : list nat := filter (is_root states) (seq 0 n).
Definition aroot_seq (n : nat) (states aggs : list Z) (v : nat) : option nat :=
  let a := nth v aggs (-1)%Z in
  if (0 <=? a)%Z then nth_error (root_list n states) (Z.to_nat a) else None.
(* distributed labelling: id = global index of the root; anything outside [0,n) = no aggregate *)
Definition aroot_glob (n : nat) (aggs : list Z) (v : nat) : option nat :=
  let a := nth v aggs (-1)%Z in
  if (0 <=? a)%Z && (a <? Z.of_nat n)%Z then Some (Z.to_nat a) else None.

Definition agg_ok (G : graph) (states aggs : list Z) (n_aggs : nat) : bool :=
  (length aggs =? length G) && agg_core G states (aroot_seq (length G) states aggs) true n_aggs.
Definition agg_ok_glob (G : graph) (states aggs : list Z) (n_aggs : nat) : bool :=
  (length aggs =? length G) && agg_core G states (aroot_glob (length G) aggs) false n_aggs.
