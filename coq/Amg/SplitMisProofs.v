(* Sequential CLJP and PMIS (Amg/Split.v): every round assigns at least the maximal unassigned vertex, so
   fuel n suffices and the result labels every point coarse or fine.  *)
From Coq Require Import List Arith Lia Bool.
Import ListNotations.
From Raptor Require Import Amg.Split Amg.SplitProofs.

Lemma filter_length_le {A} (f : A -> bool) l : length (filter f l) <= length l.
Proof. induction l as [|x l IH]; simpl; [lia|]. destruct (f x); simpl; lia. Qed.

Lemma filter_length_lt {A} (f : A -> bool) l x : In x l -> f x = false -> length (filter f l) < length l.
Proof.
  induction l as [|y l IH]; simpl; [tauto|]. intros [E|H] Hf.
  - subst y. rewrite Hf. pose proof (filter_length_le f l). lia.
  - specialize (IH H Hf). destruct (f y); simpl; lia.
Qed.

Lemma NoDup_filter {A} (f : A -> bool) l : NoDup l -> NoDup (filter f l).
Proof.
  induction 1 as [|x l Hx Hl IH]; simpl; [constructor|].
  destruct (f x); [constructor; [|exact IH]|exact IH].
  intros H. apply filter_In in H. tauto.
Qed.

Section MISProofs.
Variable F : Type.
Variables (zero one : F) (add sub : F -> F -> F).
Variable ltb : F -> F -> bool.
Hypothesis ltb_trans : forall a b c, ltb a b = true -> ltb b c = true -> ltb a c = true.
Hypothesis ltb_irrefl : forall a, ltb a a = false.
Hypothesis lt01 : ltb zero one = true.

Variable R : list (list nat).
Variable CL : list (list nat).
Notation n := (length R).
Hypothesis wfR : forall i c, In c (nth i R []) -> c < n.
Hypothesis wfCL : forall c i, In i (nth c CL []) -> i < n.

Notation sel_ok := (sel_ok F zero ltb R CL).
Notation select := (select_independent_set F zero ltb R CL).
Notation upd_states := (update_states F zero one ltb).

(* a maximal element of a non-empty list *)
Lemma max_exists (w : list F) (l : list nat) : l <> [] ->
  exists m, In m l /\ forall u, In u l -> ltb (nth m w zero) (nth u w zero) = false.
Proof.
  induction l as [|x l IH]; [congruence|]. intros _.
  destruct l as [|y l'].
  - exists x. split; [left; reflexivity|]. intros u [E|[]]. subst. apply ltb_irrefl.
  - destruct IH as [m [Hm Hmax]]; [congruence|].
    destruct (ltb (nth m w zero) (nth x w zero)) eqn:E.
    + exists x. split; [left; reflexivity|]. intros u [Eu|Hu]; [subst; apply ltb_irrefl|].
      destruct (ltb (nth x w zero) (nth u w zero)) eqn:E2; [|reflexivity].
      pose proof (Hmax u Hu) as Hc. rewrite (ltb_trans _ _ _ E E2) in Hc. discriminate.
    + exists m. split; [right; exact Hm|]. intros u [Eu|Hu]; [subst; exact E|apply Hmax; exact Hu].
Qed.

(* ----- select_independent_set ----- *)
Definition sel_step (w : list F) (p : list label * list nat) (u : nat) :=
  if sel_ok w u then (upd (fst p) u LNC, snd p ++ [u]) else p.

Lemma select_unfold un st w : select un st w = fold_left (sel_step w) un (st, []).
Proof. reflexivity. Qed.

Lemma sel_fold_props w un p :
  let q := fold_left (sel_step w) un p in
  length (fst q) = length (fst p) /\
  (forall v, nth v (fst q) LU = nth v (fst p) LU \/ (nth v (fst q) LU = LNC /\ In v un)) /\
  (forall v, nth v (fst p) LU = LNC -> nth v (fst q) LU = LNC).
Proof.
  revert p; induction un as [|x l IH]; intros p; simpl.
  - repeat split; auto.
  - destruct (IH (sel_step w p x)) as [A [B C]]. clear IH.
    assert (Hs : length (fst (sel_step w p x)) = length (fst p) /\
                 (forall v, nth v (fst (sel_step w p x)) LU = nth v (fst p) LU \/
                            (nth v (fst (sel_step w p x)) LU = LNC /\ v = x))).
    { unfold sel_step. destruct (sel_ok w x); cbn [fst]; [|auto].
      split; [apply upd_length|]. intros v. rewrite nth_upd.
      destruct ((x =? v) && (x <? length (fst p))) eqn:E; [|auto].
      right. split; [reflexivity|]. apply andb_true_iff in E. destruct E as [E _]. apply Nat.eqb_eq in E. auto. }
    destruct Hs as [S1 S2]. split; [congruence|]. split.
    + intros v. destruct (B v) as [B1|[B1 B2]]; [|right; auto].
      destruct (S2 v) as [S3|[S3 S4]]; [left; congruence|].
      right. split; [|left; auto]. destruct (C v S3). reflexivity.
    + intros v Hv. apply C. destruct (S2 v) as [S3|[S3 _]]; congruence.
Qed.

Lemma sel_fold_complete w un p m :
  In m un -> sel_ok w m = true -> m < length (fst p) ->
  nth m (fst (fold_left (sel_step w) un p)) LU = LNC.
Proof.
  revert p; induction un as [|x l IH]; intros p Hin Hok Hm; [destruct Hin|]. simpl.
  destruct Hin as [E|Hin].
  - subst x. destruct (sel_fold_props w l (sel_step w p m)) as [_ [_ C]]. apply C.
    unfold sel_step. rewrite Hok. cbn [fst]. apply nth_upd_same. exact Hm.
  - apply IH; auto. destruct (sel_fold_props w [x] p) as [A _]. simpl in A. rewrite A. exact Hm.
Qed.

(* ----- update_states ----- *)
Definition us_step (q : list nat * list label * list F) (u : nat) :=
  let '(un, st, w) := q in
  if label_eqb (nth u st LU) LNC then (un, upd st u LC, upd w u zero)
  else if ltb (nth u w zero) one then (un, upd st u LF, upd w u zero)
  else (un ++ [u], st, w).
Definition keep (st : list label) (w : list F) (u : nat) : bool :=
  negb (label_eqb (nth u st LU) LNC) && negb (ltb (nth u w zero) one).

Lemma upd_states_unfold un st w : upd_states un st w = fold_left us_step un ([], st, w).
Proof. reflexivity. Qed.

Lemma us_fold un : forall acc st w,
  NoDup un -> (forall u, In u un -> u < length st) -> length st = length w ->
  exists st' w',
    fold_left us_step un (acc, st, w) = (acc ++ filter (keep st w) un, st', w') /\
    length st' = length st /\ length w' = length w /\
    (forall v, ~ In v un -> nth v st' LU = nth v st LU /\ nth v w' zero = nth v w zero) /\
    (forall u, In u un ->
       (nth u st LU = LNC -> nth u st' LU = LC /\ nth u w' zero = zero) /\
       (nth u st LU <> LNC -> ltb (nth u w zero) one = true -> nth u st' LU = LF /\ nth u w' zero = zero) /\
       (keep st w u = true -> nth u st' LU = nth u st LU /\ nth u w' zero = nth u w zero)).
Proof.
  induction un as [|x l IH]; intros acc st w Hnd Hlt Hlen.
  - exists st, w. simpl. rewrite app_nil_r. repeat split; auto; try tauto.
  - inversion Hnd as [|x' l' Hx Hl]; subst.
    assert (Hxl : x < length st) by (apply Hlt; left; reflexivity).
    assert (Hxw : x < length w) by lia.
    cbn [fold_left]. unfold us_step at 2.
    destruct (label_eqb (nth x st LU) LNC) eqn:E1; [|destruct (ltb (nth x w zero) one) eqn:E2].
    + (* new coarse *)
      destruct (IH acc (upd st x LC) (upd w x zero) Hl) as [st' [w' [Hf [L1 [L2 [Fr Pr]]]]]].
      { intros u Hu. rewrite upd_length. apply Hlt. right; exact Hu. }
      { rewrite !upd_length. exact Hlen. }
      exists st', w'. rewrite Hf. rewrite upd_length in L1. rewrite upd_length in L2.
      assert (Hk : keep st w x = false) by (unfold keep; rewrite E1; reflexivity).
      split; [|split; [exact L1|split; [exact L2|split]]].
      * cbn [filter]. rewrite Hk. do 3 f_equal. apply filter_ext_in. intros u Hu. unfold keep.
        rewrite !nth_upd_other by (intros ->; contradiction). reflexivity.
      * intros v Hv. destruct (Fr v) as [A B]; [intros H; apply Hv; right; exact H|].
        rewrite A, B, !nth_upd_other by (intros ->; apply Hv; left; reflexivity). auto.
      * intros u [Eu|Hu].
        { subst u. destruct (Fr x Hx) as [A B]. rewrite A, B, !nth_upd_same by assumption.
          apply label_eqb_eq in E1. repeat split; auto; try congruence. }
        { assert (Hne : x <> u) by (intros ->; contradiction).
          destruct (Pr u Hu) as [P1 [P2 P3]]. unfold keep in P1, P2, P3 |- *.
          rewrite ?(@nth_upd_other label), ?(@nth_upd_other F) in P1 by exact Hne.
          rewrite ?(@nth_upd_other label), ?(@nth_upd_other F) in P2 by exact Hne.
          rewrite ?(@nth_upd_other label), ?(@nth_upd_other F) in P3 by exact Hne.
          exact (conj P1 (conj P2 P3)). }
    + (* weight below one: fine *)
      destruct (IH acc (upd st x LF) (upd w x zero) Hl) as [st' [w' [Hf [L1 [L2 [Fr Pr]]]]]].
      { intros u Hu. rewrite upd_length. apply Hlt. right; exact Hu. }
      { rewrite !upd_length. exact Hlen. }
      exists st', w'. rewrite Hf. rewrite upd_length in L1. rewrite upd_length in L2.
      assert (Hk : keep st w x = false) by (unfold keep; rewrite E1, E2; reflexivity).
      split; [|split; [exact L1|split; [exact L2|split]]].
      * cbn [filter]. rewrite Hk. do 3 f_equal. apply filter_ext_in. intros u Hu. unfold keep.
        rewrite !nth_upd_other by (intros ->; contradiction). reflexivity.
      * intros v Hv. destruct (Fr v) as [A B]; [intros H; apply Hv; right; exact H|].
        rewrite A, B, !nth_upd_other by (intros ->; apply Hv; left; reflexivity). auto.
      * intros u [Eu|Hu].
        { subst u. destruct (Fr x Hx) as [A B]. rewrite A, B, !nth_upd_same by assumption.
          apply label_eqb_neq in E1. repeat split; auto; try congruence. }
        { assert (Hne : x <> u) by (intros ->; contradiction).
          destruct (Pr u Hu) as [P1 [P2 P3]]. unfold keep in P1, P2, P3 |- *.
          rewrite ?(@nth_upd_other label), ?(@nth_upd_other F) in P1 by exact Hne.
          rewrite ?(@nth_upd_other label), ?(@nth_upd_other F) in P2 by exact Hne.
          rewrite ?(@nth_upd_other label), ?(@nth_upd_other F) in P3 by exact Hne.
          exact (conj P1 (conj P2 P3)). }
    + (* stays unassigned *)
      destruct (IH (acc ++ [x]) st w Hl) as [st' [w' [Hf [L1 [L2 [Fr Pr]]]]]].
      { intros u Hu. apply Hlt. right; exact Hu. }
      { exact Hlen. }
      exists st', w'. rewrite Hf.
      assert (Hk : keep st w x = true) by (unfold keep; rewrite E1, E2; reflexivity).
      split; [|split; [exact L1|split; [exact L2|split]]].
      * cbn [filter]. rewrite Hk. rewrite <- app_assoc. reflexivity.
      * intros v Hv. apply Fr. intros H; apply Hv; right; exact H.
      * intros u [Eu|Hu]; [|apply Pr; exact Hu].
        subst u. destruct (Fr x Hx) as [A B]. rewrite A, B.
        apply label_eqb_neq in E1. repeat split; auto; try congruence.
Qed.

(* ----- the round invariant ----- *)
Definition Inv (un : list nat) (st : list label) (w : list F) : Prop :=
  length st = n /\ length w = n /\ NoDup un /\ (forall u, In u un -> u < n) /\
  (forall v, v < n -> (In v un <-> nth v st LU = LU)) /\
  (forall v, v < n -> nth v st LU = LU \/ nth v st LU = LC \/ nth v st LU = LF) /\
  (forall v, v < n -> nth v st LU <> LU -> ltb (nth v w zero) one = true) /\
  ((forall u, u < n -> nth u st LU = LU -> ltb (nth u w zero) one = false) \/
   (forall v, v < n -> nth v st LU = LU)).

Lemma inv_done st w : Inv [] st w -> length st = n /\ forall v, v < n -> nth v st LU = LC \/ nth v st LU = LF.
Proof.
  intros [L [_ [_ [_ [I3 [I4 _]]]]]]. split; [exact L|]. intros v Hv.
  destruct (I4 v Hv) as [H|H]; [|exact H]. apply (I3 v Hv) in H. destruct H.
Qed.

(* the maximal unassigned vertex is selected *)
Lemma select_max un st w : Inv un st w -> un <> [] ->
  exists m, In m un /\ nth m (fst (select un st w)) LU = LNC.
Proof.
  intros [L [LW [ND [Hlt [I3 [I4 [IA IU]]]]]]] Hne.
  destruct (max_exists w un Hne) as [m [Hm Hmax]]. exists m. split; [exact Hm|].
  rewrite select_unfold. apply sel_fold_complete; [exact Hm| |cbn [fst]; rewrite L; apply Hlt; exact Hm].
  assert (Hm_n : m < n) by (apply Hlt; exact Hm).
  assert (HmU : nth m st LU = LU) by (apply I3; assumption).
  assert (Key : forall idx, idx < n -> ltb (nth m w zero) (nth idx w zero) = false).
  { intros idx Hi. destruct (I4 idx Hi) as [HU|HA].
    - apply Hmax. apply I3; assumption.
    - assert (Hne' : nth idx st LU <> LU) by (destruct HA as [HA|HA]; rewrite HA; discriminate).
      destruct IU as [IU|IU]; [|rewrite (IU idx Hi) in Hne'; congruence].
      specialize (IA idx Hi Hne'). specialize (IU m Hm_n HmU).
      destruct (ltb (nth m w zero) (nth idx w zero)) eqn:E; [|reflexivity].
      rewrite (ltb_trans _ _ _ E IA) in IU. discriminate. }
  unfold Split.sel_ok. apply andb_true_iff. split; apply negb_true_iff.
  - destruct (existsb _ (nth m R [])) eqn:E; [|reflexivity].
    apply existsb_exists in E. destruct E as [idx [H1 H2]]. rewrite Key in H2; [discriminate|]. eapply wfR; exact H1.
  - destruct (existsb _ (nth m CL [])) eqn:E; [|reflexivity].
    apply existsb_exists in E. destruct E as [idx [H1 H2]]. rewrite Key in H2; [discriminate|]. eapply wfCL; exact H1.
Qed.

(* generic round: between select and update_states the routine may turn unassigned points fine (weight < 1)
   and must leave assigned points alone *)
Lemma round_inv un st w stX wX :
  Inv un st w -> un <> [] ->
  length stX = n -> length wX = n ->
  (forall v, v < n -> ~ In v un -> nth v stX LU = nth v st LU /\ nth v wX zero = nth v w zero) ->
  (forall u, In u un -> nth u stX LU = LU \/ nth u stX LU = LNC \/
                        (nth u stX LU = LF /\ ltb (nth u wX zero) one = true)) ->
  (exists m, In m un /\ nth m stX LU = LNC) ->
  exists un' st' w', upd_states un stX wX = (un', st', w') /\ Inv un' st' w' /\ length un' < length un.
Proof.
  intros [L [LW [ND [Hlt [I3 [I4 [IA IU]]]]]]] Hne LX LWX Frame HX [m [Hm HmC]].
  destruct (us_fold un [] stX wX ND) as [st' [w' [Hf [L1 [L2 [Fr Pr]]]]]].
  { intros u Hu. rewrite LX. apply Hlt; exact Hu. }
  { congruence. }
  exists (filter (keep stX wX) un), st', w'. rewrite upd_states_unfold. split; [exact Hf|]. split.
  - unfold Inv. split; [congruence|]. split; [congruence|]. split; [apply NoDup_filter; exact ND|].
    split; [intros u Hu; apply filter_In in Hu; apply Hlt; tauto|].
    assert (Cases : forall v, v < n ->
              (In v (filter (keep stX wX) un) /\ nth v st' LU = LU /\ ltb (nth v w' zero) one = false) \/
              (~ In v (filter (keep stX wX) un) /\ (nth v st' LU = LC \/ nth v st' LU = LF) /\ ltb (nth v w' zero) one = true)).
    { intros v Hv. destruct (in_dec Nat.eq_dec v un) as [Hin|Hnin].
      - destruct (Pr v Hin) as [P1 [P2 P3]].
        destruct (HX v Hin) as [HU|[HC|[HF HW]]].
        + destruct (ltb (nth v wX zero) one) eqn:E.
          * right. destruct P2 as [A B]; [rewrite HU; discriminate|reflexivity|].
            split; [|split; [right; exact A|rewrite B; exact lt01]].
            intros H. apply filter_In in H. destruct H as [_ H]. unfold keep in H. rewrite E in H.
            rewrite andb_false_r in H. discriminate.
          * left. assert (Hk : keep stX wX v = true) by (unfold keep; rewrite HU, E; reflexivity).
            destruct (P3 Hk) as [A B]. split; [apply filter_In; auto|]. split; [congruence|congruence].
        + right. destruct (P1 HC) as [A B]. split; [|split; [left; exact A|rewrite B; exact lt01]].
          intros H. apply filter_In in H. destruct H as [_ H]. unfold keep in H. rewrite HC in H. discriminate.
        + right. destruct P2 as [A B]; [rewrite HF; discriminate|exact HW|].
          split; [|split; [right; exact A|rewrite B; exact lt01]].
          intros H. apply filter_In in H. destruct H as [_ H]. unfold keep in H. rewrite HW in H.
          rewrite andb_false_r in H. discriminate.
      - right. destruct (Fr v Hnin) as [A B]. destruct (Frame v Hv Hnin) as [C D].
        assert (HnU : nth v st LU <> LU) by (intros H; apply Hnin; apply I3; assumption).
        split; [intros H; apply filter_In in H; tauto|]. split.
        + rewrite A, C. destruct (I4 v Hv) as [H|H]; [contradiction|exact H].
        + rewrite B, D. apply IA; assumption. }
    split; [|split; [|split]].
    + intros v Hv. destruct (Cases v Hv) as [[A [B C]]|[A [B C]]]; split; intros H; try assumption; try contradiction.
      destruct B as [B|B]; rewrite B in H; discriminate.
    + intros v Hv. destruct (Cases v Hv) as [[A [B C]]|[A [B C]]]; [left; exact B|right; exact B].
    + intros v Hv HnU. destruct (Cases v Hv) as [[A [B C]]|[A [B C]]]; [contradiction|exact C].
    + left. intros u Hu HU. destruct (Cases u Hu) as [[A [B C]]|[A [B C]]]; [exact C|].
      destruct B as [B|B]; rewrite B in HU; discriminate.
  - apply (filter_length_lt _ _ m Hm). unfold keep. rewrite HmC. reflexivity.
Qed.

(* ----- CLJP: update_weights leaves assigned points alone ----- *)
Notation mark_row := (mark_row F zero one sub).

Lemma mark_row_props p row : forall em w,
  length (snd (mark_row p row em w)) = length w /\
  forall v, p v = false -> nth v (snd (mark_row p row em w)) zero = nth v w zero.
Proof.
  induction row as [|idx row IH]; intros em w; [simpl; auto|].
  destruct em as [|m em]; [simpl; auto|]. cbn [Split.mark_row].
  destruct (p idx && m) eqn:E.
  - destruct (IH em (upd w idx (sub (nth idx w zero) one))) as [A B].
    destruct (mark_row p row em (upd w idx (sub (nth idx w zero) one))) as [em2 w2]. cbn [snd] in *.
    split; [rewrite A; apply upd_length|]. intros v Hv. rewrite (B v Hv). apply nth_upd_other.
    intros ->. apply andb_true_iff in E. destruct E as [E _]. congruence.
  - destruct (IH em w) as [A B]. destruct (mark_row p row em w) as [em2 w2]. cbn [snd] in *. auto.
Qed.

Lemma uw_direct_props st p c :
  length (snd (uw_direct F zero one sub R st p c)) = length (snd p) /\
  forall v, nth v st LU <> LU -> nth v (snd (uw_direct F zero one sub R st p c)) zero = nth v (snd p) zero.
Proof.
  destruct p as [em w]. unfold uw_direct.
  pose proof (mark_row_props (fun idx => label_eqb (nth idx st LU) LU) (nth c R []) (nth c em []) w) as [A B].
  destruct (mark_row _ (nth c R []) (nth c em []) w) as [emr w2]. cbn [snd] in *.
  split; [exact A|]. intros v Hv. apply B. apply label_eqb_neq. exact Hv.
Qed.

Lemma uw_dist2_props st q c :
  length (snd (uw_dist2 F zero one sub R CL st q c)) = length (snd q) /\
  forall v, nth v st LU <> LU -> nth v (snd (uw_dist2 F zero one sub R CL st q c)) zero = nth v (snd q) zero.
Proof.
  destruct q as [[em cache] w]. unfold uw_dist2.
  match goal with |- context [fold_left ?f (nth c CL []) (em, w)] => set (ff := f) end.
  assert (H : length (snd (fold_left ff (nth c CL []) (em, w))) = length w /\
              forall v, nth v st LU <> LU -> nth v (snd (fold_left ff (nth c CL []) (em, w))) zero = nth v w zero).
  { apply (fold_left_inv (fun p => length (snd p) = length w /\
                                   forall v, nth v st LU <> LU -> nth v (snd p) zero = nth v w zero)); [auto|].
    intros [em' w'] idx _ [A B]. unfold ff. destruct (label_eqb (nth idx st LU) LC); [auto|].
    match goal with |- context [mark_row ?p ?r ?e w'] =>
      pose proof (mark_row_props p r e w') as [A' B']; destruct (mark_row p r e w') as [emr w2] end.
    cbn [snd] in *. split; [congruence|]. intros v Hv. rewrite B'; [apply B; exact Hv|].
    apply andb_false_iff. left. apply label_eqb_neq. exact Hv. }
  destruct (fold_left ff (nth c CL []) (em, w)) as [em2 w2]. cbn [snd] in *. exact H.
Qed.

Lemma update_weights_props st ncl em cache w :
  length (snd (update_weights F zero one sub R CL st ncl em cache w)) = length w /\
  forall v, nth v st LU <> LU ->
    nth v (snd (update_weights F zero one sub R CL st ncl em cache w)) zero = nth v w zero.
Proof.
  unfold update_weights.
  assert (H1 : length (snd (fold_left (uw_direct F zero one sub R st) ncl (em, w))) = length w /\
               forall v, nth v st LU <> LU ->
                 nth v (snd (fold_left (uw_direct F zero one sub R st) ncl (em, w))) zero = nth v w zero).
  { apply (fold_left_inv (fun p => length (snd p) = length w /\
                                   forall v, nth v st LU <> LU -> nth v (snd p) zero = nth v w zero)); [auto|].
    intros p c _ [A B]. destruct (uw_direct_props st p c) as [A' B']. split; [congruence|].
    intros v Hv. rewrite B' by exact Hv. apply B; exact Hv. }
  destruct (fold_left (uw_direct F zero one sub R st) ncl (em, w)) as [em1 w1]. cbn [snd] in H1.
  destruct H1 as [A1 B1].
  apply (fold_left_inv (fun q => length (snd q) = length w /\
                                 forall v, nth v st LU <> LU -> nth v (snd q) zero = nth v w zero)).
  - cbn [snd]. auto.
  - intros q c _ [A B]. destruct (uw_dist2_props st q c) as [A' B']. split; [congruence|].
    intros v Hv. rewrite B' by exact Hv. apply B; exact Hv.
Qed.

Notation cljp_round := (cljp_round F zero one sub ltb R CL).
Notation cljp_loop := (cljp_loop F zero one sub ltb R CL).

Lemma select_frame un st w :
  length (fst (select un st w)) = length st /\
  forall v, nth v (fst (select un st w)) LU = nth v st LU \/ (nth v (fst (select un st w)) LU = LNC /\ In v un).
Proof. rewrite select_unfold. destruct (sel_fold_props w un (st, [])) as [A [B _]]. auto. Qed.

Lemma cljp_round_inv s :
  Inv (c_un F s) (c_st F s) (c_w F s) -> c_un F s <> [] ->
  Inv (c_un F (cljp_round s)) (c_st F (cljp_round s)) (c_w F (cljp_round s)) /\
  length (c_un F (cljp_round s)) < length (c_un F s).
Proof.
  intros HI Hne. unfold Split.cljp_round.
  destruct (select_max _ _ _ HI Hne) as [m [Hm HmC]].
  destruct (select_frame (c_un F s) (c_st F s) (c_w F s)) as [SL SF].
  destruct (select (c_un F s) (c_st F s) (c_w F s)) as [st1 ncl]. cbn [fst] in *.
  pose proof (update_weights_props st1 ncl (c_em F s) (c_cache F s) (c_w F s)) as [WL WF].
  destruct (update_weights F zero one sub R CL st1 ncl (c_em F s) (c_cache F s) (c_w F s)) as [[em cache] w1].
  cbn [snd] in *.
  pose proof HI as [L [LW [ND [Hlt [I3 [I4 [IA IU]]]]]]].
  destruct (round_inv (c_un F s) (c_st F s) (c_w F s) st1 w1 HI Hne) as [un' [st' [w' [E [HI' Hlen]]]]].
  - congruence.
  - congruence.
  - intros v Hv Hnin. destruct (SF v) as [A|[_ A]]; [|contradiction].
    split; [exact A|]. apply WF. rewrite A. intros HU. apply Hnin. apply I3; assumption.
  - intros u Hu. destruct (SF u) as [A|[A _]]; [left|right; left; exact A].
    rewrite A. apply I3; [apply Hlt; exact Hu|exact Hu].
  - exists m. auto.
  - rewrite E. cbn [c_un c_st c_w]. auto.
Qed.

Lemma cljp_loop_total fuel : forall s,
  Inv (c_un F s) (c_st F s) (c_w F s) -> length (c_un F s) <= fuel ->
  exists s', cljp_loop fuel s = Some s' /\ Inv [] (c_st F s') (c_w F s').
Proof.
  induction fuel as [|f IH]; intros s HI Hf.
  - destruct (c_un F s) eqn:E; [|simpl in Hf; lia]. exists s. simpl. rewrite E. rewrite ?E in HI. auto.
  - cbn [Split.cljp_loop]. destruct (c_un F s) as [|u l] eqn:E.
    + exists s. auto.
    + rewrite <- E in HI, Hf. destruct (cljp_round_inv s HI) as [HI' Hlt]; [rewrite E; discriminate|].
      apply IH; [exact HI'|]. lia.
Qed.

Lemma init_weights_length keys : length (init_weights F zero one add R keys) = length keys.
Proof.
  unfold init_weights. apply (fold_left_inv (fun w => length w = length keys)); [reflexivity|].
  intros w row _ Hw. apply (fold_left_inv (fun w => length w = length keys)); [exact Hw|].
  intros w' idx _ Hw'. rewrite upd_length. exact Hw'.
Qed.

Theorem cljp_total keys : length keys = n ->
  exists st, cljp_main F zero one add sub ltb R CL n keys = Some st /\
             length st = n /\ forall v, v < n -> nth v st LU = LC \/ nth v st LU = LF.
Proof.
  intros Hk. unfold cljp_main.
  match goal with |- context [cljp_loop n ?s] => set (s0 := s) end.
  assert (HI : Inv (c_un F s0) (c_st F s0) (c_w F s0)).
  { unfold s0. cbn [c_un c_st c_w]. unfold Inv.
    split; [apply repeat_length|]. split; [rewrite init_weights_length; exact Hk|].
    split; [apply seq_NoDup|]. split; [intros u Hu; apply in_seq in Hu; lia|].
    split; [intros v Hv; split; intros _; [apply nth_repeat|apply in_seq; lia]|].
    split; [intros v Hv; left; apply nth_repeat|].
    split; [intros v Hv H; rewrite nth_repeat in H; congruence|].
    right. intros v Hv. apply nth_repeat. }
  destruct (cljp_loop_total n s0 HI) as [s' [E HI']].
  { unfold s0. cbn [c_un]. rewrite seq_length. lia. }
  rewrite E. exists (c_st F s'). split; [reflexivity|]. apply (inv_done _ _ HI').
Qed.

(* ----- PMIS ----- *)
Notation pmis_mark := (pmis_mark F zero CL).
Notation pmis_round := (pmis_round F zero one ltb R CL).
Notation pmis_loop := (pmis_loop F zero one ltb R CL).

Lemma pmis_mark_fold ncl st1 w : length st1 = length w ->
  let r := fold_left pmis_mark ncl (st1, w) in
  length (fst r) = length st1 /\ length (snd r) = length w /\
  forall v, (nth v (fst r) LU = nth v st1 LU /\ nth v (snd r) zero = nth v w zero) \/
            (nth v st1 LU = LU /\ nth v (fst r) LU = LF /\ nth v (snd r) zero = zero).
Proof.
  intros HL.
  apply (fold_left_inv (fun r => length (fst r) = length st1 /\ length (snd r) = length w /\
     forall v, (nth v (fst r) LU = nth v st1 LU /\ nth v (snd r) zero = nth v w zero) \/
               (nth v st1 LU = LU /\ nth v (fst r) LU = LF /\ nth v (snd r) zero = zero))); [cbn; auto|].
  intros p idx _ HP. unfold Split.pmis_mark.
  apply (fold_left_inv (fun r => length (fst r) = length st1 /\ length (snd r) = length w /\
     forall v, (nth v (fst r) LU = nth v st1 LU /\ nth v (snd r) zero = nth v w zero) \/
               (nth v st1 LU = LU /\ nth v (fst r) LU = LF /\ nth v (snd r) zero = zero))); [exact HP|].
  intros [st' w'] row _ [A [B C]]. cbn [fst snd] in *.
  destruct (label_eqb (nth row st' LU) LU) eqn:E; [|auto]. apply label_eqb_eq in E. cbn [fst snd].
  split; [rewrite upd_length; exact A|]. split; [rewrite upd_length; exact B|].
  intros v. rewrite !nth_upd. replace (length w') with (length st') by congruence.
  destruct ((row =? v) && (row <? length st')) eqn:E2; [|apply C].
  apply andb_true_iff in E2. destruct E2 as [E2 _]. apply Nat.eqb_eq in E2. subst v.
  right. destruct (C row) as [[C1 _]|[_ [C1 _]]]; [|congruence]. split; [congruence|auto].
Qed.

Lemma pmis_round_inv un st w :
  Inv un st w -> un <> [] ->
  exists un' st' w', pmis_round (un, st, w) = (un', st', w') /\ Inv un' st' w' /\ length un' < length un.
Proof.
  intros HI Hne. unfold Split.pmis_round.
  destruct (select_max _ _ _ HI Hne) as [m [Hm HmC]].
  destruct (select_frame un st w) as [SL SF].
  destruct (select un st w) as [st1 ncl]. cbn [fst] in *.
  pose proof HI as [L [LW [ND [Hlt [I3 [I4 [IA IU]]]]]]].
  destruct (pmis_mark_fold ncl st1 w) as [ML [MW MF]]; [congruence|].
  destruct (fold_left pmis_mark ncl (st1, w)) as [st2 w2]. cbn [fst snd] in *.
  apply (round_inv un st w st2 w2 HI Hne).
  - congruence.
  - congruence.
  - intros v Hv Hnin. destruct (SF v) as [A|[_ A]]; [|contradiction].
    assert (HnU : nth v st1 LU <> LU) by (rewrite A; intros HU; apply Hnin; apply I3; assumption).
    destruct (MF v) as [[B C]|[B _]]; [|contradiction]. split; congruence.
  - intros u Hu.
    assert (HU : nth u st LU = LU) by (apply I3; [apply Hlt; exact Hu|exact Hu]).
    destruct (MF u) as [[B C]|[_ [B C]]].
    + destruct (SF u) as [A|[A _]]; [left; congruence|right; left; congruence].
    + right; right. split; [exact B|]. rewrite C. exact lt01.
  - exists m. split; [exact Hm|]. destruct (MF m) as [[B _]|[B _]]; congruence.
Qed.

Lemma pmis_loop_total fuel : forall un st w,
  Inv un st w -> length un <= fuel ->
  exists st' w', pmis_loop fuel (un, st, w) = Some ([], st', w') /\ Inv [] st' w'.
Proof.
  induction fuel as [|f IH]; intros un st w HI Hf.
  - destruct un; [|simpl in Hf; lia]. exists st, w. simpl. auto.
  - cbn [Split.pmis_loop fst]. destruct un as [|u l] eqn:E.
    + exists st, w. auto.
    + rewrite <- E in *. destruct (pmis_round_inv un st w HI) as [un' [st' [w' [Er [HI' Hlt]]]]]; [rewrite E; discriminate|].
      rewrite Er. apply IH; [exact HI'|]. lia.
Qed.

Lemma pmis_init_fold (w : list F) l : forall un st,
  NoDup l -> (forall i, In i l -> i < length st) ->
  exists st',
    fold_left (fun q i => let '(un, st, w) := q in
                          if ltb (nth i w zero) one then (un, upd st i LF, w) else (un ++ [i], st, w)) l (un, st, w)
    = (un ++ filter (fun i => negb (ltb (nth i w zero) one)) l, st', w) /\
    length st' = length st /\
    (forall v, ~ In v l -> nth v st' LU = nth v st LU) /\
    (forall i, In i l -> nth i st' LU = if ltb (nth i w zero) one then LF else nth i st LU).
Proof.
  induction l as [|x l IH]; intros un st ND Hlt.
  - exists st. simpl. rewrite app_nil_r. repeat split; auto; tauto.
  - inversion ND as [|x' l' Hx Hl]; subst. cbn [fold_left filter].
    destruct (ltb (nth x w zero) one) eqn:E; cbn [negb].
    + destruct (IH un (upd st x LF) Hl) as [st' [Hf [L1 [Fr Pr]]]].
      { intros i Hi. rewrite upd_length. apply Hlt. right; exact Hi. }
      exists st'. rewrite Hf. rewrite upd_length in L1. split; [reflexivity|]. split; [exact L1|]. split.
      * intros v Hv. rewrite Fr by (intros H; apply Hv; right; exact H).
        apply nth_upd_other. intros ->. apply Hv. left; reflexivity.
      * intros i [Ei|Hi].
        { subst i. rewrite E. rewrite Fr by exact Hx. apply nth_upd_same. apply Hlt. left; reflexivity. }
        { rewrite (Pr i Hi). rewrite nth_upd_other by (intros ->; contradiction). reflexivity. }
    + destruct (IH (un ++ [x]) st Hl) as [st' [Hf [L1 [Fr Pr]]]].
      { intros i Hi. apply Hlt. right; exact Hi. }
      exists st'. rewrite Hf. rewrite <- app_assoc. split; [reflexivity|]. split; [exact L1|]. split.
      * intros v Hv. apply Fr. intros H; apply Hv; right; exact H.
      * intros i [Ei|Hi]; [subst i; rewrite E; apply Fr; exact Hx|apply Pr; exact Hi].
Qed.

Theorem pmis_total keys : length keys = n ->
  exists st, pmis_main F zero one add ltb R CL n keys = Some st /\
             length st = n /\ forall v, v < n -> nth v st LU = LC \/ nth v st LU = LF.
Proof.
  intros Hk. unfold pmis_main, pmis_init.
  set (w := init_weights F zero one add R keys).
  assert (LW : length w = n) by (unfold w; rewrite init_weights_length; exact Hk).
  destruct (pmis_init_fold w (seq 0 n) [] (repeat LU n)) as [st0 [Hf [L0 [Fr Pr]]]].
  { apply seq_NoDup. }
  { intros i Hi. rewrite repeat_length. apply in_seq in Hi. lia. }
  rewrite Hf. cbn [app].
  set (un0 := filter (fun i => negb (ltb (nth i w zero) one)) (seq 0 n)).
  rewrite repeat_length in L0.
  assert (HI : Inv un0 st0 w).
  { unfold Inv. split; [exact L0|]. split; [exact LW|]. split; [apply NoDup_filter, seq_NoDup|].
    split; [intros u Hu; apply filter_In in Hu; destruct Hu as [Hu _]; apply in_seq in Hu; lia|].
    assert (Hst : forall v, v < n -> nth v st0 LU = if ltb (nth v w zero) one then LF else LU).
    { intros v Hv. rewrite Pr by (apply in_seq; lia). rewrite nth_repeat. reflexivity. }
    split; [|split; [|split]].
    - intros v Hv. rewrite (Hst v Hv). unfold un0. rewrite filter_In, in_seq.
      destruct (ltb (nth v w zero) one); simpl; split; intros H; try discriminate; try (split; [lia|reflexivity]); auto.
      destruct H; discriminate.
    - intros v Hv. rewrite (Hst v Hv). destruct (ltb (nth v w zero) one); auto.
    - intros v Hv. rewrite (Hst v Hv). destruct (ltb (nth v w zero) one); [reflexivity|congruence].
    - left. intros u Hu. rewrite (Hst u Hu). destruct (ltb (nth u w zero) one); [discriminate|reflexivity]. }
  destruct (pmis_loop_total n un0 st0 w HI) as [st' [w' [E HI']]].
  { unfold un0. pose proof (filter_length_le (fun i => negb (ltb (nth i w zero) one)) (seq 0 n)) as H.
    rewrite seq_length in H. exact H. }
  rewrite E. cbn [fst snd]. exists st'. split; [reflexivity|]. apply (inv_done _ _ HI').
Qed.
End MISProofs.

(* ----- entry points on a well-formed pattern ----- *)
Lemma In_remove_first i r c : In c (remove_first i r) -> In c r.
Proof.
  induction r as [|x r IH]; simpl; [tauto|]. destruct (x =? i); simpl; [tauto|]. intros [H|H]; auto.
Qed.
Lemma In_move_diag_row i r c : In c (move_diag_row i r) -> In c r.
Proof.
  unfold move_diag_row. destruct (existsb (Nat.eqb i) r) eqn:E; [|tauto].
  intros [H|H]; [|apply In_remove_first in H; exact H].
  subst c. apply existsb_exists in E. destruct E as [x [H1 H2]]. apply Nat.eqb_eq in H2. subst x. exact H1.
Qed.
Lemma In_offd i r c : In c (offd i r) -> In c r.
Proof. destruct r as [|x r]; simpl; [tauto|]. destruct (x =? i); simpl; tauto. Qed.

Lemma graph_wfb_spec S : graph_wfb S = true <-> forall i c, In c (nth i S []) -> c < length S.
Proof.
  unfold graph_wfb. rewrite forallb_forall. split.
  - intros H i c Hc. destruct (Nat.lt_ge_cases i (length S)) as [Hi|Hi].
    + specialize (H (nth i S []) (nth_In _ _ Hi)). rewrite forallb_forall in H. apply Nat.ltb_lt. apply H. exact Hc.
    + rewrite nth_overflow in Hc by exact Hi. destruct Hc.
  - intros H r Hr. apply forallb_forall. intros c Hc. apply Nat.ltb_lt.
    apply (In_nth _ _ []) in Hr. destruct Hr as [i [Hi E]]. apply (H i). rewrite E. exact Hc.
Qed.

Lemma off_rows_wf S : graph_wfb S = true ->
  forall i c, In c (nth i (off_rows S) []) -> c < length (off_rows S).
Proof.
  intros H i c Hc. rewrite off_rows_length. destruct (Nat.lt_ge_cases i (length S)) as [Hi|Hi].
  - rewrite nth_off_rows in Hc by exact Hi. apply In_offd, In_move_diag_row in Hc.
    apply (proj1 (graph_wfb_spec S) H i c Hc).
  - rewrite nth_overflow in Hc by (rewrite off_rows_length; exact Hi). destruct Hc.
Qed.

Lemma col_lists_wf R c i : In i (nth c (col_lists R) []) -> i < length R.
Proof. intros H. apply In_col_lists in H. tauto. Qed.

Section Entry.
Variable F : Type.
Variables (zero one : F) (add sub : F -> F -> F).
Variable ltb : F -> F -> bool.
Hypothesis ltb_trans : forall a b c, ltb a b = true -> ltb b c = true -> ltb a c = true.
Hypothesis ltb_irrefl : forall a, ltb a a = false.
Hypothesis lt01 : ltb zero one = true.

Theorem split_cljp_total S keys : graph_wfb S = true -> length keys = length S ->
  exists st, split_cljp zero one add sub ltb S keys (length S) = Some st /\
             length st = length S /\ forall v, v < length S -> nth v st LU = LC \/ nth v st LU = LF.
Proof.
  intros Hwf Hk. unfold split_cljp.
  pose proof (cljp_total F zero one add sub ltb ltb_trans ltb_irrefl lt01 (off_rows S) (col_lists (off_rows S))
                (off_rows_wf S Hwf) (col_lists_wf (off_rows S)) keys) as H.
  rewrite off_rows_length in H. apply H. exact Hk.
Qed.

Theorem split_pmis_total S keys : graph_wfb S = true -> length keys = length S ->
  exists st, split_pmis zero one add ltb S keys (length S) = Some st /\
             length st = length S /\ forall v, v < length S -> nth v st LU = LC \/ nth v st LU = LF.
Proof.
  intros Hwf Hk. unfold split_pmis.
  pose proof (pmis_total F zero one add add ltb ltb_trans ltb_irrefl lt01 (off_rows S) (col_lists (off_rows S))
                (off_rows_wf S Hwf) (col_lists_wf (off_rows S)) keys) as H.
  rewrite off_rows_length in H. apply H. exact Hk.
Qed.
End Entry.
