(* Proofs about the solve wrapper model (Amg/Solve.v): for EVERY cycle function (also ones that return NaN)
   - the residual history is the list of the measures of the iterates, one entry per iteration,
   - with the current norm (a NaN is not skipped) and the current test `!(r_norm <= tol)`:
     iter < max  ->  the returned vector is finite and its recomputed measure is <= tol. *)
From Raptor Require Import Base.Sums Amg.Solve.

Section SolveProofs.
Variable F : Type.
Variables (zero one : F) (add mul sub : F -> F -> F) (opp : F -> F) (inv : F -> F).
Variable leb : F -> F -> bool.
Variable eqb0 : F -> bool.
Variable tiny : F -> bool.

Notation "0" := zero.
Infix "+" := add.
Infix "*" := mul.
Infix "-" := sub.
Notation xval := (xval F).
Notation xvec := (list xval).
Notation smat := (list (list (nat * F))).
Notation xadd := (xadd F add).
Notation xsub := (xsub F sub).
Notation xmul := (xmul F mul).
Notation xdiv := (xdiv F mul inv eqb0).
Notation xleb := (xleb F leb).
Notation xgtb := (xgtb F leb).
Notation xrow_resid := (xrow_resid F mul sub).
Notation xresid := (xresid F mul sub).
Notation xnorm2 := (xnorm2 F zero add mul tiny).
Notation rel_norm2 := (rel_norm2 F mul inv leb eqb0).
Notation measure := (measure F zero add mul sub inv leb eqb0 tiny).
Notation converged := (converged F zero mul leb).
Notation solve_loop := (solve_loop F zero add mul sub inv leb eqb0 tiny).
Notation solve := (solve F zero add mul sub inv leb eqb0 tiny).
Notation iterate := (iterate F).
Notation stored_diag := (stored_diag F).
Notation fin_vals := (fin_vals zero).
Notation sumsq := (sumsq F zero add mul).

(* ---- NaN propagation ---- *)
Lemma xadd_fin a b : is_fin (xadd a b) = true -> is_fin a = true /\ is_fin b = true.
Proof. destruct a, b; simpl; auto. Qed.
Lemma xsub_fin a b : is_fin (xsub a b) = true -> is_fin a = true /\ is_fin b = true.
Proof. destruct a, b; simpl; auto. Qed.
Lemma xmul_fin a b : is_fin (xmul a b) = true -> is_fin a = true /\ is_fin b = true.
Proof. destruct a, b; simpl; auto. Qed.

(* a norm that does not skip NaN is finite only if every entry is finite *)
Lemma xnorm2_acc_fin m v : m <> NSkipNaN -> forall acc,
  is_fin (fold_left (fun acc x => if skipped F tiny m x then acc else xadd acc (xmul x x)) v acc) = true ->
  is_fin acc = true /\ all_fin v = true.
Proof.
  intros Hm. induction v as [|x v IH]; intros acc H; [split; [exact H|reflexivity]|].
  cbn [fold_left] in H. apply IH in H. destruct H as [H1 H2]. cbn [all_fin forallb]. fold (all_fin v). rewrite H2.
  destruct x as [q|].
  - destruct (skipped F tiny m (Fin q)); [split; [exact H1|reflexivity]|]. apply xadd_fin in H1. split; [apply H1|reflexivity].
  - assert (E : skipped F tiny m NaNv = false) by (destruct m; [congruence|reflexivity|reflexivity]).
    rewrite E in H1. apply xadd_fin in H1. destruct H1 as [_ H1]. discriminate.
Qed.
Lemma xnorm2_fin_all m v : m <> NSkipNaN -> is_fin (xnorm2 m v) = true -> all_fin v = true.
Proof. intros Hm H. apply (xnorm2_acc_fin m v Hm (Fin 0)). exact H. Qed.

(* the current norm of a finite vector is the plain sum of squares *)
Lemma xnorm2_plain_acc v : all_fin v = true -> forall a,
  fold_left (fun acc x => if skipped F tiny NPlain x then acc else xadd acc (xmul x x)) v (Fin a) =
  Fin (fold_left (fun acc q => acc + q * q) (fin_vals v) a).
Proof.
  induction v as [|x v IH]; intros H a; [reflexivity|].
  cbn [all_fin forallb] in H. apply andb_true_iff in H. destruct H as [H1 H2].
  destruct x as [q|]; [|discriminate]. cbn [fold_left fin_vals map skipped]. apply (IH H2).
Qed.
Lemma xnorm2_plain v : all_fin v = true -> xnorm2 NPlain v = Fin (sumsq (fin_vals v)).
Proof. intros H. apply (xnorm2_plain_acc v H 0). Qed.

(* a finite residual entry: every x the row reads is finite *)
Lemma xrow_resid_fin row x : forall bi, is_fin (xrow_resid row x bi) = true ->
  is_fin bi = true /\ forall j a, In (j, a) row -> is_fin (xat x j) = true.
Proof.
  unfold Solve.xrow_resid. induction row as [|[j a] row IH]; intros bi H.
  - split; [exact H|intros ? ? []].
  - cbn [fold_left fst snd] in H. apply IH in H. destruct H as [H1 H2]. apply xsub_fin in H1. destruct H1 as [H1 H3].
    apply xmul_fin in H3. split; [exact H1|].
    intros j' a' [E|Hin]; [inversion E; subst; apply H3|apply (H2 j' a' Hin)].
Qed.

Lemma forallb_map' {A B} (P : B -> bool) (g : A -> B) l : forallb P (map g l) = forallb (fun a => P (g a)) l.
Proof. induction l as [|a l IH]; simpl; [reflexivity|rewrite IH; reflexivity]. Qed.
Lemma forallb_map_indexed {A} (P : nat * A -> bool) : forall (l : list A) s,
  forallb P (indexed_from s l) = true -> forall k a, nth_error l k = Some a -> P ((s + k)%nat, a) = true.
Proof.
  induction l as [|y l IH]; intros s H k a Hk; [destruct k; discriminate|].
  simpl in H. apply andb_true_iff in H. destruct H as [H1 H2].
  destruct k as [|k]; simpl in Hk.
  - inversion Hk; subst. rewrite Nat.add_0_r. exact H1.
  - replace (s + S k)%nat with (S s + k)%nat by lia. apply (IH (S s) H2 k a Hk).
Qed.

Lemma xresid_fin_x A x b : stored_diag A -> all_fin (xresid A x b) = true ->
  forall i, i < length A -> is_fin (xat x i) = true.
Proof.
  intros Hd H i Hi. unfold Solve.xresid, all_fin in H. rewrite forallb_map' in H.
  destruct (nth_error A i) as [row|] eqn:E; [|apply nth_error_None in E; lia].
  assert (G := forallb_map_indexed _ A O H i row E). simpl in G.
  destruct (Hd i row E) as [a Ha].
  apply xrow_resid_fin in G. destruct G as [_ G]. apply (G i a Ha).
Qed.

Lemma all_fin_nth (x : xvec) : (forall i, i < length x -> is_fin (xat x i) = true) -> all_fin x = true.
Proof.
  induction x as [|a x IH]; intros H; [reflexivity|].
  assert (H0 := H O). simpl in H0. cbn [all_fin forallb]. unfold xat in H0. simpl in H0. rewrite H0 by lia. simpl.
  apply IH. intros i Hi. apply (H (S i)). simpl. lia.
Qed.

(* ---- what "converged" (current test) says about the measure ---- *)
Lemma converged_new tol rn2 : converged false tol rn2 = true ->
  leb 0 tol = true /\ exists q, rn2 = Fin q /\ leb q (tol * tol) = true.
Proof.
  unfold Solve.converged. intros H. apply andb_true_iff in H. destruct H as [H1 H2]. split; [exact H1|].
  destruct rn2 as [q|]; [|discriminate]. exists q. split; [reflexivity|exact H2].
Qed.

(* a finite measure: the (as written) norms of b - A x and of b are finite, and how they are related *)
Lemma measure_fin m ztol2 A b x q : measure m ztol2 A b x = Fin q ->
  exists rr, xnorm2 m (xresid A x b) = Fin rr /\
    ((exists bb, xnorm2 m b = Fin bb /\ leb bb ztol2 = false /\ eqb0 bb = false /\ q = rr * inv bb) \/
     (xgtb (xnorm2 m b) (Fin ztol2) = false /\ q = rr)).
Proof.
  unfold Solve.measure, Solve.rel_norm2. intros H.
  destruct (xgtb (xnorm2 m b) (Fin ztol2)) eqn:E.
  - destruct (xnorm2 m b) as [bb|]; [|discriminate]. simpl in E.
    destruct (xnorm2 m (xresid A x b)) as [rr|]; [|discriminate]. simpl in H.
    destruct (eqb0 bb) eqn:E0; [discriminate|]. inversion H. exists rr. split; [reflexivity|]. left.
    exists bb. repeat split; try reflexivity; try assumption. destruct (leb bb ztol2); [discriminate|reflexivity].
  - exists q. split; [exact H|]. right. split; reflexivity.
Qed.

(* ---- the loop ---- *)
Section LoopProofs.
Variable skip_nan : nmode.
Variable old_test : bool.
Variables (ztol2 tol : F).
Variable cyc : xvec -> xvec -> xvec.
Variables (A : smat) (b : xvec).

Notation meas := (measure skip_nan ztol2 A b).
Notation itr := (fun k x => iterate cyc b k x).
Notation loop := (solve_loop skip_nan old_test ztol2 tol cyc A b).

Lemma iterate_shift k : forall x, iterate cyc b k (cyc x b) = cyc (iterate cyc b k x) b.
Proof. induction k as [|k IH]; intros x; simpl; [reflexivity|rewrite IH; reflexivity]. Qed.

Lemma loop_spec rem : forall x rn2 iter res, rn2 = meas x ->
  let r := loop rem x rn2 iter res in
  iter <= r_iter r /\ r_iter r <= iter + rem /\
  (r_iter r < iter + rem -> converged old_test tol (meas (r_x r)) = true) /\
  r_x r = iterate cyc b (r_iter r - iter) x /\
  r_res r = res ++ map (fun k => meas (iterate cyc b k x)) (seq 1 (r_iter r - iter)).
Proof.
  induction rem as [|rem IH]; intros x rn2 iter res Hrn; simpl.
  - rewrite Nat.sub_diag. simpl. rewrite app_nil_r. repeat split; try lia.
  - destruct (converged old_test tol rn2) eqn:Ec; simpl.
    + rewrite Nat.sub_diag. simpl. rewrite app_nil_r. repeat split; try lia. intros _. rewrite <- Hrn. exact Ec.
    + specialize (IH (cyc x b) (meas (cyc x b)) (S iter) (res ++ [meas (cyc x b)]) eq_refl).
      simpl in IH. destruct IH as [I1 [I2 [I3 [I4 I5]]]].
      set (r := loop rem (cyc x b) (meas (cyc x b)) (S iter) (res ++ [meas (cyc x b)])) in *.
      repeat split; try lia.
      * intros Hlt. apply I3. lia.
      * rewrite I4, iterate_shift. replace (r_iter r - iter)%nat with (S (r_iter r - S iter)) by lia. reflexivity.
      * rewrite I5. replace (r_iter r - iter)%nat with (S (r_iter r - S iter)) by lia.
        rewrite <- app_assoc. f_equal. simpl. f_equal.
        rewrite <- (seq_shift (r_iter r - S iter) 1), map_map. apply map_ext. intros k. rewrite iterate_shift. reflexivity.
Qed.

(* the residual history: one entry per iteration, entry k is the measure of the k-th iterate; the returned
   vector is the last iterate; at most maxit iterations; fewer only if the test accepted the last measure *)
Lemma solve_spec x maxit :
  let r := solve skip_nan old_test ztol2 tol cyc A b x maxit in
  r_iter r <= maxit /\
  r_x r = iterate cyc b (r_iter r) x /\
  r_res r = map (fun k => meas (iterate cyc b k x)) (seq 0 (S (r_iter r))) /\
  (r_iter r < maxit -> converged old_test tol (meas (r_x r)) = true).
Proof.
  unfold Solve.solve.
  destruct (loop_spec maxit x (meas x) O [meas x] eq_refl) as [I1 [I2 [I3 [I4 I5]]]].
  simpl in *. rewrite Nat.sub_0_r in *. repeat split; try assumption.
Qed.
End LoopProofs.

(* ---- C01, current code: plain norm, test `!(r_norm <= tol)` ---- *)
Theorem solve_truth m ztol2 tol cyc A b x maxit : m <> NSkipNaN -> stored_diag A ->
  let r := solve m false ztol2 tol cyc A b x maxit in
  r_iter r < maxit ->
  (forall i, i < length A -> is_fin (xat (r_x r) i) = true) /\
  (length (r_x r) = length A -> all_fin (r_x r) = true) /\
  all_fin (xresid A (r_x r) b) = true /\
  leb 0 tol = true /\
  exists q, measure m ztol2 A b (r_x r) = Fin q /\ leb q (tol * tol) = true.
Proof.
  intros Hm Hd r Hlt.
  destruct (solve_spec m false ztol2 tol cyc A b x maxit) as [_ [_ [_ Hc]]]. fold r in Hc.
  specialize (Hc Hlt). apply converged_new in Hc. destruct Hc as [Ht [q [Hq Hle]]].
  destruct (measure_fin _ _ _ _ _ _ Hq) as [rr [Hr _]].
  assert (Hrf : all_fin (xresid A (r_x r) b) = true) by (apply (xnorm2_fin_all m _ Hm); rewrite Hr; reflexivity).
  assert (Hx : forall i, i < length A -> is_fin (xat (r_x r) i) = true) by (apply (xresid_fin_x A (r_x r) b Hd Hrf)).
  split; [exact Hx|]. split; [|split; [exact Hrf|]].
  - intros Hl. apply all_fin_nth. intros i Hi. apply Hx. lia.
  - split; [exact Ht|]. exists q. split; assumption.
Qed.

(* ---- the same in squares, with the plain sums of squares:
        ||b - A x||^2 <= tol^2 ||b||^2   when ||b||^2 > zero_tol^2,     ||b - A x||^2 <= tol^2   otherwise ---- *)
Section Squares.
Variable Fth : ring_theory zero one add mul sub opp (@eq F).
Add Ring FringS : Fth.
Hypothesis inv_ok : forall d, d <> 0 -> d * inv d = one.
Hypothesis eqb0_ok : forall d, eqb0 d = false -> d <> 0.
Hypothesis leb_total : forall a c, leb a c = false -> leb c a = true.
Hypothesis leb_trans : forall a c d, leb a c = true -> leb c d = true -> leb a d = true.
Hypothesis leb_mul_nonneg : forall a c d, leb a c = true -> leb 0 d = true -> leb (a * d) (c * d) = true.

(* ParVector::norm: every rank squares its local norm, the squares are summed by Allreduce: for every partition of
   the vector into contiguous blocks (empty ones allowed) this is the sum of squares of the whole vector *)
Lemma sumsq_acc l : forall a, fold_left (fun acc q => acc + q * q) l a = a + sumsq l.
Proof.
  unfold Solve.sumsq. induction l as [|q l IH]; intros a; simpl; [ring|].
  rewrite IH, (IH (0 + q * q)). ring.
Qed.
Lemma sumsq_app l1 l2 : sumsq (l1 ++ l2) = sumsq l1 + sumsq l2.
Proof. unfold Solve.sumsq at 1. rewrite fold_left_app. fold (sumsq l1). apply sumsq_acc. Qed.
Lemma sumsq_blocks (blocks : list (list F)) :
  sumsq (concat blocks) = fold_right add 0 (map sumsq blocks).
Proof. induction blocks as [|bl blocks IH]; simpl; [reflexivity|]. rewrite sumsq_app, IH. reflexivity. Qed.

Theorem solve_truth_squares ztol2 tol cyc A b x maxit : stored_diag A -> leb 0 ztol2 = true ->
  let r := solve NPlain false ztol2 tol cyc A b x maxit in
  r_iter r < maxit ->
  let rr := sumsq (fin_vals (xresid A (r_x r) b)) in      (* ||b - A x||^2 *)
  let bb := sumsq (fin_vals b) in                          (* ||b||^2 *)
  all_fin (xresid A (r_x r) b) = true /\
  ((all_fin b = true /\ leb bb ztol2 = false /\ leb rr (tol * tol * bb) = true) \/
   (xgtb (xnorm2 NPlain b) (Fin ztol2) = false /\ leb rr (tol * tol) = true)).
Proof.
  intros Hd Hz r Hlt rr bb.
  assert (Hm : NPlain <> NSkipNaN) by discriminate.
  destruct (solve_truth NPlain ztol2 tol cyc A b x maxit Hm Hd Hlt) as [_ [_ [Hrf [_ [q [Hq Hle]]]]]]. fold r in Hq, Hrf.
  split; [exact Hrf|].
  destruct (measure_fin _ _ _ _ _ _ Hq) as [rr' [Hr [[bb' [Hb [Hgt [Hne Hqq]]]]|[Hb Hqq]]]];
    rewrite (xnorm2_plain _ Hrf) in Hr; injection Hr as Hr; fold rr in Hr.
  - left. assert (Hbf : all_fin b = true) by (apply (xnorm2_fin_all NPlain _ Hm); rewrite Hb; reflexivity).
    rewrite (xnorm2_plain _ Hbf) in Hb. injection Hb as Hb. fold bb in Hb.
    rewrite <- Hb in Hgt, Hne, Hqq. rewrite <- Hr in Hqq.
    repeat split; try assumption.
    assert (Hbb : leb 0 bb = true) by (apply (leb_trans 0 ztol2 bb Hz); apply leb_total; exact Hgt).
    assert (E : rr = q * bb).
    { rewrite Hqq. replace (rr * inv bb * bb) with (rr * (bb * inv bb)) by ring.
      rewrite (inv_ok bb (eqb0_ok bb Hne)). ring. }
    rewrite E. apply leb_mul_nonneg; assumption.
  - right. split; [exact Hb|]. rewrite <- Hr in Hqq. rewrite <- Hqq. exact Hle.
Qed.
End Squares.

End SolveProofs.
