(* C16, tentative prolongator: proofs about the model in Amg/Candidates.v. *)
From Raptor Require Import Base.Sums Sparse.Defs Sparse.ConvertProofs Amg.Candidates.
From Coq Require Import Field.

(* ------------------------------------------------------------------ *)
(* generic list facts                                                   *)
(* ------------------------------------------------------------------ *)
Lemma indexed_from_map {A B} (g : A -> B) s (l : list A) :
  indexed_from s (map g l) = map (fun ia => (fst ia, g (snd ia))) (indexed_from s l).
Proof. revert s; induction l as [|x l IH]; intros s; simpl; [reflexivity|rewrite IH; reflexivity]. Qed.

Lemma indexed_seq {A} (l : list A) d :
  indexed l = map (fun i => (i, nth i l d)) (seq 0 (length l)).
Proof.
  unfold indexed. rewrite (indexed_from_seq 0 l d). apply map_ext. intros i.
  rewrite Nat.sub_0_r. reflexivity.
Qed.

Lemma flat_map_single {A B} (g : A -> B) (l : list A) : flat_map (fun a => [g a]) l = map g l.
Proof. induction l as [|x l IH]; simpl; [reflexivity|rewrite IH; reflexivity]. Qed.

Lemma filter_seq_In (p : nat -> bool) n i : In i (filter p (seq 0 n)) <-> i < n /\ p i = true.
Proof. rewrite filter_In, in_seq. split; intros [H1 H2]; split; try lia; assumption. Qed.

Lemma concat_split_by {X} (sizes : list nat) (l : list X) :
  fold_right Nat.add 0 sizes = length l -> concat (split_by sizes l) = l.
Proof.
  revert l; induction sizes as [|m s IH]; intros l H; simpl in *.
  - destruct l; [reflexivity|discriminate].
  - rewrite IH; [apply firstn_skipn|]. rewrite skipn_length. lia.
Qed.

Lemma split_by_length {X} (sizes : list nat) (l : list X) : length (split_by sizes l) = length sizes.
Proof. revert l; induction sizes as [|m s IH]; intros l; simpl; [reflexivity|rewrite IH; reflexivity]. Qed.

Section CandProofs.
Variable F : Type.
Variables (zero one : F) (add mul sub : F -> F -> F) (opp : F -> F) (div : F -> F -> F) (inv : F -> F).
Variable Fth : field_theory zero one add mul sub opp div inv (@eq F).
Let Rth := F_R Fth.
Add Field FfieldC : Fth.

(* a totally ordered field *)
Variable le : F -> F -> Prop.
Hypothesis le_refl : forall a, le a a.
Hypothesis le_antisym : forall a b, le a b -> le b a -> a = b.
Hypothesis le_trans : forall a b c, le a b -> le b c -> le a c.
Hypothesis le_total : forall a b, le a b \/ le b a.
Hypothesis le_add_r : forall a b c, le a b -> le (add a c) (add b c).
Hypothesis le_mul_nn : forall a b, le zero a -> le zero b -> le zero (mul a b).
Variable ltb : F -> F -> bool.
Hypothesis ltb_spec : forall a b, ltb a b = true <-> (le a b /\ a <> b).
Variable eqb : F -> F -> bool.
Hypothesis eqb_spec : forall a b, eqb a b = true <-> a = b.
Variable sqrt : F -> F.

Notation "0" := zero.
Notation "1" := one.
Infix "+" := add.
Infix "*" := mul.
Infix "-" := sub.
Infix "/" := div.
Infix "<=" := le.
Notation sumF := (sumf F zero add).
Notation denL := (den_line F zero add).
Notation denCsr := (den_csr F zero add).
Notation denCsc := (den_csc F zero add).
Notation fitc := (fit_candidates F zero one add mul div sqrt ltb).
Notation sumsqF := (sumsq F zero add mul).
Notation batF := (bat F zero).

(* ---------------- order facts ---------------- *)
Lemma eq_dec_F (a b : F) : a = b \/ a <> b.
Proof.
  destruct (eqb a b) eqn:E; [left; apply eqb_spec; exact E|right].
  intros H. apply eqb_spec in H. congruence.
Qed.

Lemma add_nonneg a b : 0 <= a -> 0 <= b -> 0 <= a + b.
Proof.
  intros Ha Hb. apply le_trans with (b := 0 + b).
  - replace (0 + b) with b by ring. exact Hb.
  - apply le_add_r. exact Ha.
Qed.

Lemma opp_nonneg a : a <= 0 -> 0 <= opp a.
Proof.
  intros H. apply (le_add_r _ _ (opp a)) in H.
  replace (a + opp a) with 0 in H by ring. replace (0 + opp a) with (opp a) in H by ring. exact H.
Qed.

Lemma sq_nonneg a : 0 <= a * a.
Proof.
  destruct (le_total 0 a) as [H|H]; [apply le_mul_nn; exact H|].
  replace (a * a) with (opp a * opp a) by ring. apply le_mul_nn; apply opp_nonneg; exact H.
Qed.

Lemma add_zero_nonneg a b : 0 <= a -> 0 <= b -> a + b = 0 -> a = 0 /\ b = 0.
Proof.
  intros Ha Hb H.
  assert (Ha0 : a <= 0).
  { rewrite <- H. replace a with (0 + a) at 1 by ring. replace (a + b) with (b + a) by ring.
    apply le_add_r. exact Hb. }
  assert (E : a = 0) by (apply le_antisym; assumption).
  split; [exact E|]. rewrite E in H. rewrite <- H. ring.
Qed.

Lemma mul_zero a b : a * b = 0 -> a = 0 \/ b = 0.
Proof.
  intros H. destruct (eq_dec_F a 0) as [E|E]; [left; exact E|right].
  transitivity ((1 / a) * (a * b)); [field; exact E|rewrite H; ring].
Qed.

Lemma sq_zero a : a * a = 0 -> a = 0.
Proof. intros H. destruct (mul_zero _ _ H); assumption. Qed.

(* ---------------- sums ---------------- *)
Lemma fold_left_add_sumf {X} (f : X -> F) l a :
  fold_left (fun acc x => acc + f x) l a = a + sumF (map f l).
Proof.
  revert a; induction l as [|x l IH]; intros a; simpl; [ring|]. rewrite IH. ring.
Qed.

Lemma sumsq_sumf col : sumsqF col = sumF (map (fun p => snd p * snd p) col).
Proof. unfold sumsq. rewrite fold_left_add_sumf. ring. Qed.

Lemma sumf_filter_ind {X} (p : X -> bool) (f : X -> F) l :
  sumF (map f (filter p l)) = sumF (map (fun x => if p x then f x else 0) l).
Proof.
  induction l as [|x l IH]; simpl; [reflexivity|].
  destruct (p x); simpl; rewrite IH; ring.
Qed.

Lemma sumf_seq_delta (h : nat -> F) j n :
  sumF (map (fun i => if i =? j then h i else 0) (seq 0 n)) = if j <? n then h j else 0.
Proof.
  destruct (j <? n) eqn:E.
  - apply Nat.ltb_lt in E.
    rewrite (sumf_single F zero one add mul sub opp Rth n j) by
      (try exact E; intros i Hi Hne; apply Nat.eqb_neq in Hne; rewrite Hne; reflexivity).
    rewrite Nat.eqb_refl. reflexivity.
  - apply Nat.ltb_ge in E.
    rewrite (sumf_map_ext F zero add _ (fun _ => 0)); [apply (sumf_map_zero F zero one add mul sub opp Rth)|].
    intros i Hi. apply in_seq in Hi.
    replace (i =? j) with false by (symmetry; apply Nat.eqb_neq; lia). reflexivity.
Qed.

Lemma sumf_nonneg {X} (f : X -> F) l : (forall x, In x l -> 0 <= f x) -> 0 <= sumF (map f l).
Proof.
  induction l as [|x l IH]; simpl; intros H; [apply le_refl|].
  apply add_nonneg; [apply H; left; reflexivity|apply IH; intros; apply H; right; assumption].
Qed.

Lemma sumf_zero_all {X} (f : X -> F) l :
  (forall x, In x l -> 0 <= f x) -> sumF (map f l) = 0 -> forall x, In x l -> f x = 0.
Proof.
  induction l as [|y l IH]; simpl; intros Hn Hs x Hx; [contradiction|].
  destruct (add_zero_nonneg (f y) (sumF (map f l))) as [E1 E2];
    [apply Hn; left; reflexivity|apply sumf_nonneg; intros; apply Hn; right; assumption|exact Hs|].
  destruct Hx as [<-|Hx]; [exact E1|]. apply IH; try assumption. intros; apply Hn; right; assumption.
Qed.

(* the operator of a line that lists (i, g i) for the i of a list *)
Lemma den_line_map_idx (g : nat -> F) l j :
  denL (map (fun i => (i, g i)) l) j = sumF (map (fun i => if i =? j then g i else 0) l).
Proof.
  unfold den_line. induction l as [|x l IH]; simpl; [reflexivity|].
  destruct (x =? j); simpl; rewrite IH; ring.
Qed.

Lemma den_line_filter_seq (g : nat -> F) (p : nat -> bool) n j :
  denL (map (fun i => (i, g i)) (filter p (seq 0 n))) j = if (j <? n) && p j then g j else 0.
Proof.
  rewrite den_line_map_idx, sumf_filter_ind.
  rewrite (sumf_map_ext F zero add _ (fun i => if i =? j then (if p j then g j else 0) else 0)).
  - rewrite sumf_seq_delta. destruct (j <? n); destruct (p j); reflexivity.
  - intros i _. destruct (i =? j) eqn:E; [apply Nat.eqb_eq in E; subst; reflexivity|destruct (p i); reflexivity].
Qed.

(* ---------------- structure of T_csc ---------------- *)
Definition members (a : nat) (aggs : list nat) : list nat :=
  filter (fun i => nth i aggs 0%nat =? a) (seq 0 (length aggs)).

Lemma aggop_coo na aggs :
  coo_ents (csr_to_coo (aggop F one na aggs)) = map (fun ia => (fst ia, snd ia, one)) (indexed aggs).
Proof.
  unfold csr_to_coo, aggop; simpl. unfold indexed. rewrite indexed_from_map.
  rewrite flat_map_concat_map, map_map. simpl. rewrite <- flat_map_concat_map.
  apply flat_map_single.
Qed.

Lemma tent_cols_eq na aggs B :
  tent_cols F zero one na aggs B =
  map (fun a => map (fun i => (i, batF B i)) (members a aggs)) (seq 0 na).
Proof.
  unfold tent_cols, csr_to_csc, coo_to_csc. cbn [csc_cols]. rewrite aggop_coo.
  change (coo_nc (csr_to_coo (aggop F one na aggs))) with na.
  unfold bucket. rewrite map_map.
  apply map_ext. intros a.
  rewrite filter_map_comm. rewrite !map_map. simpl.
  rewrite (indexed_seq aggs 0%nat). rewrite filter_map_comm, map_map. simpl.
  unfold members. reflexivity.
Qed.

Lemma members_In a aggs i : In i (members a aggs) <-> i < length aggs /\ nth i aggs 0%nat = a.
Proof. unfold members. rewrite filter_seq_In, Nat.eqb_eq. reflexivity. Qed.

(* ---------------- closed form ---------------- *)
(* squared norm of the restriction of B to aggregate a *)
Definition gsumsq (aggs : list nat) (B : list F) (a : nat) : F :=
  sumF (map (fun i => if nth i aggs 0%nat =? a then batF B i * batF B i else 0) (seq 0 (length aggs))).
Definition col_scale (tol s : F) : F := if ltb (sqrt s * tol) (sqrt s) then 1 / sqrt s else 0.
Definition col_R (tol s : F) : F := if ltb (sqrt s * tol) (sqrt s) then sqrt s else 0.

Lemma sumsq_members a aggs B :
  sumsqF (map (fun i => (i, batF B i)) (members a aggs)) = gsumsq aggs B a.
Proof.
  rewrite sumsq_sumf, map_map. simpl. unfold members, gsumsq. apply sumf_filter_ind.
Qed.

Lemma fit_col_eq tol col :
  fit_col F zero one add mul div sqrt ltb tol col =
  (map (fun p => (fst p, snd p * col_scale tol (sumsqF col))) col, col_R tol (sumsqF col)).
Proof. unfold fit_col, col_scale, col_R. destruct (ltb _ _); reflexivity. Qed.

Definition aggs_wf (na : nat) (aggs : list nat) : Prop := forall a, In a aggs -> a < na.

Lemma fit_R_length na aggs B tol : length (snd (fitc na aggs B tol)) = na.
Proof. unfold fit_candidates; simpl. rewrite !map_length. unfold tent_cols. rewrite map_length.
  unfold csr_to_csc, coo_to_csc; simpl. apply bucket_length. Qed.

Lemma fit_R_nth na aggs B tol a : a < na ->
  nth a (snd (fitc na aggs B tol)) 0 = col_R tol (gsumsq aggs B a).
Proof.
  intros Ha. unfold fit_candidates; simpl. rewrite tent_cols_eq, !map_map.
  rewrite nth_map_seq by exact Ha. rewrite fit_col_eq. simpl. rewrite sumsq_members. reflexivity.
Qed.

Lemma fit_cols_wf na aggs B tol :
  csc_wf (mkCsc (length aggs) na
            (map fst (map (fit_col F zero one add mul div sqrt ltb tol) (tent_cols F zero one na aggs B)))).
Proof.
  split; simpl.
  - rewrite !map_length, tent_cols_eq, map_length, seq_length. reflexivity.
  - intros c Hc p Hp. rewrite tent_cols_eq, !map_map in Hc. apply in_map_iff in Hc.
    destruct Hc as [a [<- _]]. rewrite fit_col_eq in Hp. simpl in Hp.
    rewrite map_map in Hp. apply in_map_iff in Hp. destruct Hp as [i [<- Hi]]. simpl.
    apply members_In in Hi. tauto.
Qed.

(* entries of the tentative prolongator *)
Lemma den_T_closed na aggs B tol i a :
  denCsr (fst (fitc na aggs B tol)) i a =
  if (i <? length aggs) && (a <? na) && (nth i aggs 0%nat =? a)
  then batF B i * col_scale tol (gsumsq aggs B a) else 0.
Proof.
  unfold fit_candidates; simpl.
  rewrite (den_csc_to_csr F zero add) by apply fit_cols_wf.
  unfold den_csc; simpl. rewrite tent_cols_eq, !map_map.
  destruct (a <? na) eqn:Ea.
  - apply Nat.ltb_lt in Ea. rewrite nth_map_seq by exact Ea. rewrite fit_col_eq. simpl.
    rewrite map_map. simpl. rewrite sumsq_members. unfold members.
    rewrite (den_line_filter_seq (fun i => batF B i * col_scale tol (gsumsq aggs B a))).
    rewrite andb_true_r. reflexivity.
  - apply Nat.ltb_ge in Ea. rewrite nth_overflow_map_seq by exact Ea.
    rewrite andb_false_r. reflexivity.
Qed.

(* ---------------- the threshold branch ---------------- *)
Definition good_sqrt (x : F) : Prop := 0 <= sqrt x /\ sqrt x * sqrt x = x.
Definition tol_ok (tol : F) : Prop := 0 <= tol /\ tol <= 1 /\ tol <> 1.

Lemma gsumsq_nonneg aggs B a : 0 <= gsumsq aggs B a.
Proof.
  unfold gsumsq. apply sumf_nonneg. intros i _. destruct (_ =? _); [apply sq_nonneg|apply le_refl].
Qed.

Lemma gsumsq_zero aggs B a i :
  gsumsq aggs B a = 0 -> i < length aggs -> nth i aggs 0%nat = a -> batF B i = 0.
Proof.
  intros Hs Hi Ha. unfold gsumsq in Hs.
  assert (H := sumf_zero_all (fun i => if nth i aggs 0%nat =? a then batF B i * batF B i else 0)
                 (seq 0 (length aggs))).
  simpl in H. specialize (H (fun i _ => match (nth i aggs 0%nat =? a) as b
       return 0 <= (if b then batF B i * batF B i else 0) with true => sq_nonneg _ | false => le_refl _ end) Hs i).
  rewrite Ha, Nat.eqb_refl in H. apply sq_zero. apply H. apply in_seq. lia.
Qed.

Lemma branch_nonzero tol s : tol_ok tol -> good_sqrt s -> s <> 0 ->
  sqrt s <> 0 /\ col_scale tol s = 1 / sqrt s /\ col_R tol s = sqrt s.
Proof.
  intros [Ht0 [Ht1 Htn]] [Hn Hsq] Hs.
  assert (Hn0 : sqrt s <> 0) by (intros E; apply Hs; rewrite <- Hsq, E; ring).
  assert (Hb : ltb (sqrt s * tol) (sqrt s) = true).
  { apply ltb_spec. split.
    - assert (H1 : 0 <= 1 - tol).
      { apply (le_add_r _ _ (opp tol)) in Ht1. replace (tol + opp tol) with 0 in Ht1 by ring.
        replace (1 + opp tol) with (1 - tol) in Ht1 by ring. exact Ht1. }
      assert (H2 := le_mul_nn _ _ Hn H1).
      apply (le_add_r _ _ (sqrt s * tol)) in H2.
      replace (0 + sqrt s * tol) with (sqrt s * tol) in H2 by ring.
      replace (sqrt s * (1 - tol) + sqrt s * tol) with (sqrt s) in H2 by ring. exact H2.
    - intros E. assert (E2 : sqrt s * (1 - tol) = 0) by (transitivity (sqrt s - sqrt s * tol); [ring|rewrite E; ring]).
      destruct (mul_zero _ _ E2) as [E3|E3]; [contradiction|].
      apply Htn. transitivity (1 - (1 - tol)); [ring|rewrite E3; ring]. }
  unfold col_scale, col_R. rewrite Hb. repeat split; try reflexivity. exact Hn0.
Qed.

Lemma branch_zero tol s : good_sqrt s -> s = 0 -> col_scale tol s = 0 /\ col_R tol s = 0.
Proof.
  intros [Hn Hsq] Hs.
  assert (E : sqrt s = 0) by (apply sq_zero; rewrite Hsq; exact Hs).
  assert (Hb : ltb (sqrt s * tol) (sqrt s) = false).
  { destruct (ltb _ _) eqn:Eb; [|reflexivity]. apply ltb_spec in Eb. destruct Eb as [_ Hne].
    exfalso. apply Hne. rewrite E. ring. }
  unfold col_scale, col_R. rewrite Hb. split; reflexivity.
Qed.

(* ---------------- property-level statements ---------------- *)
(* (a) support: column a of T lives on aggregate a *)
Lemma T_support na aggs B tol i a :
  nth i aggs 0%nat <> a \/ (length aggs <= i)%nat -> denCsr (fst (fitc na aggs B tol)) i a = 0.
Proof.
  intros H. rewrite den_T_closed.
  destruct (i <? length aggs) eqn:E1; [|reflexivity].
  destruct (a <? na); [|reflexivity].
  destruct (nth i aggs 0%nat =? a) eqn:E3; [|reflexivity].
  apply Nat.ltb_lt in E1; apply Nat.eqb_eq in E3. destruct H; [contradiction|lia].
Qed.

(* every row stores exactly one entry, in the column of its aggregate *)
Lemma T_rows_shape na aggs B tol :
  aggs_wf na aggs ->
  csr_nr (fst (fitc na aggs B tol)) = length aggs /\ csr_nc (fst (fitc na aggs B tol)) = na /\
  length (csr_rows (fst (fitc na aggs B tol))) = length aggs.
Proof.
  intros _. unfold fit_candidates, csc_to_csr, coo_to_csr; simpl. repeat split. apply bucket_length.
Qed.

(* (b) T R = B *)
Lemma T_R_eq_B na aggs B tol i :
  aggs_wf na aggs -> tol_ok tol -> (forall a, a < na -> good_sqrt (gsumsq aggs B a)) ->
  i < length aggs ->
  sumF (map (fun a => denCsr (fst (fitc na aggs B tol)) i a * nth a (snd (fitc na aggs B tol)) 0) (seq 0 na))
  = batF B i.
Proof.
  intros Hwf Htol Hsq Hi.
  assert (Ha : nth i aggs 0%nat < na) by (apply Hwf; apply nth_In; exact Hi).
  rewrite (sumf_single F zero one add mul sub opp Rth na (nth i aggs 0%nat)); [|exact Ha|].
  - rewrite den_T_closed, fit_R_nth by exact Ha.
    replace (i <? length aggs) with true by (symmetry; apply Nat.ltb_lt; exact Hi).
    replace (nth i aggs 0%nat <? na) with true by (symmetry; apply Nat.ltb_lt; exact Ha).
    rewrite Nat.eqb_refl. simpl.
    destruct (eq_dec_F (gsumsq aggs B (nth i aggs 0%nat)) 0) as [E|E].
    + destruct (branch_zero tol _ (Hsq _ Ha) E) as [-> ->].
      rewrite (gsumsq_zero aggs B _ i E Hi eq_refl). ring.
    + destruct (branch_nonzero tol _ Htol (Hsq _ Ha) E) as [Hn [-> ->]]. field. exact Hn.
  - intros a Ha' Hne. rewrite T_support by (left; congruence). ring.
Qed.

(* (c) orthonormal columns *)
Lemma T_gram na aggs B tol a b :
  aggs_wf na aggs -> tol_ok tol -> (forall a, a < na -> good_sqrt (gsumsq aggs B a)) ->
  a < na -> b < na ->
  sumF (map (fun i => denCsr (fst (fitc na aggs B tol)) i a * denCsr (fst (fitc na aggs B tol)) i b)
            (seq 0 (length aggs)))
  = if a =? b then (if eqb (gsumsq aggs B a) 0 then 0 else 1) else 0.
Proof.
  intros Hwf Htol Hsq Ha Hb.
  destruct (a =? b) eqn:Eab.
  - apply Nat.eqb_eq in Eab. subst b.
    rewrite (sumf_map_ext F zero add _
       (fun i => (if nth i aggs 0%nat =? a then batF B i * batF B i else 0)
                 * (col_scale tol (gsumsq aggs B a) * col_scale tol (gsumsq aggs B a)))).
    + rewrite (sumf_map_mul_r F zero one add mul sub opp Rth). fold (gsumsq aggs B a).
      destruct (eqb (gsumsq aggs B a) 0) eqn:E.
      * apply eqb_spec in E. destruct (branch_zero tol _ (Hsq _ Ha) E) as [-> _]. ring.
      * assert (E' : gsumsq aggs B a <> 0) by (intros H; apply eqb_spec in H; congruence).
        destruct (branch_nonzero tol _ Htol (Hsq _ Ha) E') as [Hn [-> _]].
        destruct (Hsq _ Ha) as [_ Hs]. rewrite <- Hs at 1. field. exact Hn.
    + intros i Hi. apply in_seq in Hi. rewrite den_T_closed.
      replace (i <? length aggs) with true by (symmetry; apply Nat.ltb_lt; lia).
      replace (a <? na) with true by (symmetry; apply Nat.ltb_lt; exact Ha). simpl.
      destruct (nth i aggs 0%nat =? a); ring.
  - apply Nat.eqb_neq in Eab.
    rewrite (sumf_map_ext F zero add _ (fun _ => 0)); [apply (sumf_map_zero F zero one add mul sub opp Rth)|].
    intros i _. destruct (Nat.eq_dec (nth i aggs 0%nat) a) as [E|E].
    + rewrite (T_support na aggs B tol i b) by (left; congruence). ring.
    + rewrite (T_support na aggs B tol i a) by (left; exact E). ring.
Qed.

(* (d) R holds the norms: non-negative, squares to the squared norm of the restriction, zero on the threshold branch *)
Lemma R_norm na aggs B tol a :
  tol_ok tol -> good_sqrt (gsumsq aggs B a) -> a < na ->
  let r := nth a (snd (fitc na aggs B tol)) 0 in
  0 <= r /\ r * r = gsumsq aggs B a /\ (gsumsq aggs B a = 0 -> r = 0) /\ (gsumsq aggs B a <> 0 -> r = sqrt (gsumsq aggs B a)).
Proof.
  intros Htol Hsq Ha r. subst r. rewrite fit_R_nth by exact Ha.
  destruct (eq_dec_F (gsumsq aggs B a) 0) as [E|E].
  - destruct (branch_zero tol _ Hsq E) as [_ ->]. repeat split; try (intros; congruence).
    + apply le_refl.
    + rewrite E. ring.
  - destruct (branch_nonzero tol _ Htol Hsq E) as [_ [_ ->]]. destruct Hsq as [H1 H2].
    repeat split; try assumption; try reflexivity. intros; contradiction.
Qed.

(* the threshold branch: a vanishing restriction gives a zero column and R = 0 *)
Lemma T_zero_branch na aggs B tol a :
  good_sqrt (gsumsq aggs B a) -> gsumsq aggs B a = 0 -> a < na ->
  nth a (snd (fitc na aggs B tol)) 0 = 0 /\ forall i, denCsr (fst (fitc na aggs B tol)) i a = 0.
Proof.
  intros Hg Hz Ha. destruct (branch_zero tol _ Hg Hz) as [E1 E2]. split.
  - rewrite fit_R_nth by exact Ha. exact E2.
  - intros i. rewrite den_T_closed, E1. destruct (_ && _); [ring|reflexivity].
Qed.

End CandProofs.
