(* Distributed PMIS (Amg/SplitPar.v): the agreement invariant.
   At every exchange each rank's view of an off-process column equals the owner's label (and weight), hence the
   conditional sends and receives select the same positions on both sides, every round assigns the globally
   maximal unassigned vertex, the loop ends within n rounds on every rank, every point ends coarse, fine or
   isolated, and the final views equal the owners' labels - for every contiguous partition. *)
From Coq Require Import List Arith Lia Bool.
Import ListNotations.
From Raptor Require Import Amg.Split Amg.SplitProofs Amg.SplitMisProofs Amg.SplitPar.

(* ---------- contiguous partitions ---------- *)
Lemma block_starts_cover part : forall acc v, acc <= v < acc + list_sum part ->
  exists b, In b (block_starts acc part) /\ in_block b v = true.
Proof.
  induction part as [|k part IH]; intros acc v Hv; simpl in *; [lia|].
  destruct (Nat.lt_ge_cases v (acc + k)) as [L|L].
  - exists (acc, k). split; [left; reflexivity|]. unfold in_block. simpl.
    apply andb_true_iff. split; [apply Nat.leb_le|apply Nat.ltb_lt]; lia.
  - destruct (IH (acc + k) v) as [b [H1 H2]]; [lia|]. exists b. split; [right; exact H1|exact H2].
Qed.

Lemma block_starts_range part : forall acc b, In b (block_starts acc part) ->
  acc <= fst b /\ fst b + snd b <= acc + list_sum part.
Proof.
  induction part as [|k part IH]; intros acc b Hb; simpl in *; [destruct Hb|].
  destruct Hb as [E|Hb]; [subst b; simpl; lia|]. specialize (IH _ _ Hb). lia.
Qed.

Lemma in_block_seq b v : in_block b v = true <-> In v (seq (fst b) (snd b)).
Proof.
  unfold in_block. rewrite andb_true_iff, Nat.leb_le, Nat.ltb_lt, in_seq. tauto.
Qed.

(* ---------- generic folds ---------- *)
Lemma fold_left_ext_in {A B} (f g : A -> B -> A) l a :
  (forall a x, In x l -> f a x = g a x) -> fold_left f l a = fold_left g l a.
Proof.
  revert a; induction l as [|x l IH]; intros a H; simpl; [reflexivity|].
  rewrite H by (left; reflexivity). apply IH. intros a' y Hy. apply H. right; exact Hy.
Qed.

(* marking: unassigned entries of the listed rows become NewUnselection *)
Lemma mark_rows_spec st rows :
  length (mark_rows st rows) = length st /\
  forall v, nth v (mark_rows st rows) LU =
            if label_eqb (nth v st LU) LU && existsb (Nat.eqb v) rows && (v <? length st) then LNF else nth v st LU.
Proof.
  unfold mark_rows. revert st. induction rows as [|r rows IH]; intros st; simpl.
  - split; [reflexivity|]. intros v. rewrite andb_false_r. reflexivity.
  - set (st1 := if is_U (nth r st LU) then upd st r LNF else st).
    assert (L1 : length st1 = length st) by (unfold st1; destruct (is_U (nth r st LU)); [apply upd_length|reflexivity]).
    destruct (IH st1) as [A B]. split; [congruence|]. intros v. rewrite B, L1.
    unfold st1, is_U. destruct (label_eqb (nth r st LU) LU) eqn:E.
    + rewrite nth_upd. rewrite (Nat.eqb_sym r v). destruct (Nat.eqb_spec v r) as [E2|E2].
      * subst v. simpl. destruct (r <? length st) eqn:E3; simpl.
        { rewrite E. simpl. reflexivity. }
        { rewrite E. rewrite !andb_false_r. reflexivity. }
      * simpl. reflexivity.
    + destruct (Nat.eqb_spec v r) as [E2|E2]; [|simpl; reflexivity].
      subst v. rewrite E. simpl. reflexivity.
Qed.

Lemma mark_rows_nth st rows v :
  nth v (mark_rows st rows) LU = nth v st LU \/ (nth v st LU = LU /\ nth v (mark_rows st rows) LU = LNF).
Proof.
  destruct (mark_rows_spec st rows) as [_ B]. rewrite B.
  destruct (label_eqb (nth v st LU) LU) eqn:E; simpl; [|auto].
  apply label_eqb_eq in E. destruct (existsb (Nat.eqb v) rows && (v <? length st)); auto.
Qed.

(* consecutive blocks *)
Fixpoint chain (lo : nat) (bs : list (nat * nat)) : Prop :=
  match bs with
  | [] => True
  | b :: t => fst b = lo /\ chain (lo + snd b) t
  end.
Lemma chain_block_starts part : forall acc, chain acc (block_starts acc part).
Proof. induction part as [|k part IH]; intros acc; simpl; [exact I|]. split; [reflexivity|apply IH]. Qed.
Lemma chain_later lo bs b v : chain lo bs -> In b bs -> in_block b v = true -> lo <= v.
Proof.
  revert lo; induction bs as [|b0 t IH]; intros lo Hc Hb Hv; [destruct Hb|].
  destruct Hc as [E Hc]. destruct Hb as [Eb|Hb].
  - subst b0. unfold in_block in Hv. apply andb_true_iff in Hv. destruct Hv as [Hv _]. apply Nat.leb_le in Hv. lia.
  - specialize (IH _ Hc Hb Hv). lia.
Qed.

(* find_off_proc_states: the receive loop over the off-process columns *)
Lemma recv_fold_spec first (st : list label) cm : forall view, NoDup cm ->
  let view' := fold_left (fun view g => if first || is_U (nth g view LU) then upd view g (nth g st LU) else view) cm view in
  length view' = length view /\
  forall g, nth g view' LU =
            if existsb (Nat.eqb g) cm && (first || is_U (nth g view LU)) && (g <? length view)
            then nth g st LU else nth g view LU.
Proof.
  induction cm as [|c cm IH]; intros view Hnd; simpl.
  - split; [reflexivity|]. intros g. reflexivity.
  - inversion Hnd as [|c' cm' Hc Hnd']; subst.
    set (v1 := if first || is_U (nth c view LU) then upd view c (nth c st LU) else view).
    assert (L1 : length v1 = length view) by (unfold v1; destruct (first || is_U (nth c view LU)); [apply upd_length|reflexivity]).
    destruct (IH v1 Hnd') as [A B]. split; [congruence|]. intros g. rewrite B, L1.
    destruct (Nat.eqb_spec g c) as [E|E].
    + subst g. assert (Hex : existsb (Nat.eqb c) cm = false).
      { destruct (existsb (Nat.eqb c) cm) eqn:Ex; [|reflexivity]. apply existsb_exists in Ex.
        destruct Ex as [x [H1 H2]]. apply Nat.eqb_eq in H2. subst x. contradiction. }
      rewrite Hex. simpl. unfold v1. destruct (first || is_U (nth c view LU)) eqn:Ec; simpl; [|reflexivity].
      rewrite nth_upd, Nat.eqb_refl. simpl. destruct (c <? length view); reflexivity.
    + simpl. assert (Hv1 : nth g v1 LU = nth g view LU).
      { unfold v1. destruct (first || is_U (nth c view LU)); [|reflexivity]. apply nth_upd_other. auto. }
      rewrite Hv1. reflexivity.
Qed.

(* ---------- off_proc_column_map ---------- *)
From Coq Require Import Sorting.Sorted.

Lemma In_insert_u x l y : In y (insert_u x l) <-> y = x \/ In y l.
Proof.
  induction l as [|z l IH]; simpl; [intuition|].
  destruct (x <? z) eqn:E1; simpl; [intuition|].
  destruct (Nat.eqb_spec x z) as [E2|E2]; simpl; [subst; intuition|]. rewrite IH. intuition.
Qed.

Lemma insert_u_sorted x l : StronglySorted lt l -> StronglySorted lt (insert_u x l).
Proof.
  induction 1 as [|z l Hs IH Hf]; simpl; [constructor; constructor|].
  destruct (Nat.ltb_spec x z) as [L|L].
  - constructor; [constructor; assumption|]. constructor; [exact L|].
    rewrite Forall_forall in *. intros y Hy. specialize (Hf y Hy). lia.
  - destruct (Nat.eqb_spec x z) as [E|E]; [constructor; assumption|].
    constructor; [exact IH|]. rewrite Forall_forall in *. intros y Hy. apply In_insert_u in Hy.
    destruct Hy as [Hy|Hy]; [subst; lia|apply Hf; exact Hy].
Qed.

Lemma sorted_NoDup l : StronglySorted lt l -> NoDup l.
Proof.
  induction 1 as [|z l Hs IH Hf]; constructor; [|exact IH].
  intros H. rewrite Forall_forall in Hf. specialize (Hf z H). lia.
Qed.

Lemma sort_u_props l : NoDup (sort_u l) /\ forall y, In y (sort_u l) <-> In y l.
Proof.
  unfold sort_u.
  assert (G : forall acc, StronglySorted lt acc ->
            StronglySorted lt (fold_left (fun acc x => insert_u x acc) l acc) /\
            forall y, In y (fold_left (fun acc x => insert_u x acc) l acc) <-> In y l \/ In y acc).
  { induction l as [|x l IH]; intros acc Ha; simpl; [split; [exact Ha|intuition]|].
    destruct (IH (insert_u x acc) (insert_u_sorted x acc Ha)) as [A B]. split; [exact A|].
    intros y. rewrite B, In_insert_u. intuition. }
  destruct (G [] (SSorted_nil lt)) as [A B]. split; [apply sorted_NoDup; exact A|].
  intros y. rewrite B. simpl. intuition.
Qed.

(* ---------- update_states (parallel version) ---------- *)
Section Upd.
Variable F : Type.
Variables (zero one : F).
Variable ltb : F -> F -> bool.

Definition pus_step (q : list nat * list label * list F) (u : nat) :=
  let '(un, st, w) := q in
  if label_eqb (nth u st LU) LNC then (un, upd st u LC, upd w u zero)
  else if ltb (nth u w zero) one || label_eqb (nth u st LU) LNF then (un, upd st u LF, upd w u zero)
  else (un ++ [u], st, w).
Definition keep2 (st : list label) (w : list F) (u : nat) : bool :=
  negb (label_eqb (nth u st LU) LNC) && negb (ltb (nth u w zero) one || label_eqb (nth u st LU) LNF).
(* the decision update_states takes for one entry *)
Definition us1 (l : label) (x : F) : label * F :=
  if label_eqb l LNC then (LC, zero) else if ltb x one || label_eqb l LNF then (LF, zero) else (l, x).

Lemma pus_unfold w st un : par_update_states F zero one ltb w st un = fold_left pus_step un ([], st, w).
Proof. reflexivity. Qed.

Lemma pus_fold un : forall acc st w,
  NoDup un -> (forall u, In u un -> u < length st) -> length st = length w ->
  exists st' w',
    fold_left pus_step un (acc, st, w) = (acc ++ filter (keep2 st w) un, st', w') /\
    length st' = length st /\ length w' = length w /\
    (forall v, ~ In v un -> nth v st' LU = nth v st LU /\ nth v w' zero = nth v w zero) /\
    (forall u, In u un -> (nth u st' LU, nth u w' zero) = us1 (nth u st LU) (nth u w zero)).
Proof.
  induction un as [|x l IH]; intros acc st w Hnd Hlt Hlen.
  - exists st, w. simpl. rewrite app_nil_r. repeat split; auto; tauto.
  - inversion Hnd as [|x' l' Hx Hl]; subst.
    assert (Hxl : x < length st) by (apply Hlt; left; reflexivity).
    assert (Hxw : x < length w) by lia.
    cbn [fold_left]. unfold pus_step at 2.
    assert (Frame : forall st1 w1, length st1 = length st -> length w1 = length w ->
              (forall u, u <> x -> nth u st1 LU = nth u st LU /\ nth u w1 zero = nth u w zero) ->
              filter (keep2 st1 w1) l = filter (keep2 st w) l).
    { intros st1 w1 _ _ H. apply filter_ext_in. intros u Hu. unfold keep2.
      destruct (H u) as [A B]; [intros ->; contradiction|]. rewrite A, B. reflexivity. }
    destruct (label_eqb (nth x st LU) LNC) eqn:E1; [|destruct (ltb (nth x w zero) one || label_eqb (nth x st LU) LNF) eqn:E2].
    + destruct (IH acc (upd st x LC) (upd w x zero) Hl) as [st' [w' [Hf [L1 [L2 [Fr Pr]]]]]].
      { intros u Hu. rewrite upd_length. apply Hlt. right; exact Hu. }
      { rewrite !upd_length. exact Hlen. }
      exists st', w'. rewrite Hf. rewrite upd_length in L1. rewrite upd_length in L2.
      assert (Hk : keep2 st w x = false) by (unfold keep2; rewrite E1; reflexivity).
      split; [|split; [exact L1|split; [exact L2|split]]].
      * cbn [filter]. rewrite Hk. do 3 f_equal. apply Frame; rewrite ?upd_length; auto.
        intros u Hu. rewrite !nth_upd_other by auto. auto.
      * intros v Hv. destruct (Fr v) as [A B]; [intros H; apply Hv; right; exact H|].
        rewrite A, B, !nth_upd_other by (intros ->; apply Hv; left; reflexivity). auto.
      * intros u [Eu|Hu].
        { subst u. destruct (Fr x Hx) as [A B]. rewrite A, B, !nth_upd_same by assumption.
          unfold us1. rewrite E1. reflexivity. }
        { rewrite (Pr u Hu). rewrite !nth_upd_other by (intros ->; contradiction). reflexivity. }
    + destruct (IH acc (upd st x LF) (upd w x zero) Hl) as [st' [w' [Hf [L1 [L2 [Fr Pr]]]]]].
      { intros u Hu. rewrite upd_length. apply Hlt. right; exact Hu. }
      { rewrite !upd_length. exact Hlen. }
      exists st', w'. rewrite Hf. rewrite upd_length in L1. rewrite upd_length in L2.
      assert (Hk : keep2 st w x = false) by (unfold keep2; rewrite E1, E2; reflexivity).
      split; [|split; [exact L1|split; [exact L2|split]]].
      * cbn [filter]. rewrite Hk. do 3 f_equal. apply Frame; rewrite ?upd_length; auto.
        intros u Hu. rewrite !nth_upd_other by auto. auto.
      * intros v Hv. destruct (Fr v) as [A B]; [intros H; apply Hv; right; exact H|].
        rewrite A, B, !nth_upd_other by (intros ->; apply Hv; left; reflexivity). auto.
      * intros u [Eu|Hu].
        { subst u. destruct (Fr x Hx) as [A B]. rewrite A, B, !nth_upd_same by assumption.
          unfold us1. rewrite E1, E2. reflexivity. }
        { rewrite (Pr u Hu). rewrite !nth_upd_other by (intros ->; contradiction). reflexivity. }
    + destruct (IH (acc ++ [x]) st w Hl) as [st' [w' [Hf [L1 [L2 [Fr Pr]]]]]].
      { intros u Hu. apply Hlt. right; exact Hu. }
      { exact Hlen. }
      exists st', w'. rewrite Hf.
      assert (Hk : keep2 st w x = true) by (unfold keep2; rewrite E1, E2; reflexivity).
      split; [|split; [exact L1|split; [exact L2|split]]].
      * cbn [filter]. rewrite Hk. rewrite <- app_assoc. reflexivity.
      * intros v Hv. apply Fr. intros H; apply Hv; right; exact H.
      * intros u [Eu|Hu]; [|apply Pr; exact Hu].
        subst u. destruct (Fr x Hx) as [A B]. rewrite A, B. unfold us1. rewrite E1, E2. reflexivity.
Qed.
End Upd.

(* ---------- the agreement invariant ---------- *)
Section Agreement.
Variable F : Type.
Variables (zero one : F) (add : F -> F -> F).
Variable ltb : F -> F -> bool.
Hypothesis ltb_trans : forall a b c, ltb a b = true -> ltb b c = true -> ltb a c = true.
Hypothesis ltb_irrefl : forall a, ltb a a = false.
Hypothesis lt01 : ltb zero one = true.

Variables R CL : list (list nat).
Notation n := (length R).
Hypothesis wfR : forall i c, In c (nth i R []) -> c < n.
Hypothesis HCL : forall c i, In i (nth c CL []) <-> c < n /\ i < n /\ In c (nth i R []).

Variable bs : list (nat * nat).
Hypothesis Hchain : chain 0 bs.
Hypothesis Hcover : forall v, v < n -> exists b, In b bs /\ in_block b v = true.
Hypothesis Hrange : forall b, In b bs -> fst b + snd b <= n.

Notation colmap := (colmap R).
Notation pdyn := (pdyn F).
Notation us1F := (us1 F zero one ltb).
Notation keep2F := (keep2 F zero one ltb).

Lemma in_block_lt b v : In b bs -> in_block b v = true -> v < n.
Proof.
  intros Hb Hv. specialize (Hrange b Hb). unfold in_block in Hv. apply andb_true_iff in Hv.
  destruct Hv as [_ Hv]. apply Nat.ltb_lt in Hv. lia.
Qed.

Lemma In_colmap b g :
  In g (colmap b) <-> in_block b g = false /\ exists u, in_block b u = true /\ In g (nth u R []).
Proof.
  unfold SplitPar.colmap. rewrite (proj2 (sort_u_props _)). rewrite in_flat_map. split.
  - intros [u [Hu Hg]]. apply filter_In in Hg. destruct Hg as [Hg1 Hg2]. apply negb_true_iff in Hg2.
    split; [exact Hg2|]. exists u. split; [apply in_block_seq; exact Hu|exact Hg1].
  - intros [Hg [u [Hu Hgu]]]. exists u. split; [apply in_block_seq; exact Hu|]. apply filter_In. split; [exact Hgu|].
    apply negb_true_iff. exact Hg.
Qed.
Lemma colmap_NoDup b : NoDup (colmap b).
Proof. unfold SplitPar.colmap. apply (proj1 (sort_u_props _)). Qed.
Lemma colmap_lt b g : In g (colmap b) -> g < n.
Proof. intros H. apply In_colmap in H. destruct H as [_ [u [_ H]]]. eapply wfR; exact H. Qed.

(* per-rank and global invariant *)
Definition RI (b : nat * nat) (dy : pdyn) (st : list label) (w : list F) : Prop :=
  length (d_view F dy) = n /\ length (d_offw F dy) = n /\
  NoDup (d_un F dy) /\ (forall v, In v (d_un F dy) <-> in_block b v = true /\ nth v st LU = LU) /\
  NoDup (d_unoff F dy) /\ (forall g, In g (d_unoff F dy) <-> In g (colmap b) /\ nth g st LU = LU) /\
  (forall g, In g (colmap b) -> nth g (d_view F dy) LU = nth g st LU /\ nth g (d_offw F dy) zero = nth g w zero) /\
  (d_active F dy = false -> d_un F dy = [] /\ d_unoff F dy = []).

Definition GI (dys : list pdyn) (st : list label) (w : list F) : Prop :=
  length st = n /\ length w = n /\ length dys = length bs /\
  (forall b dy, In (b, dy) (combine bs dys) -> RI b dy st w) /\
  (forall v, v < n -> nth v st LU = LU \/ nth v st LU = LC \/ nth v st LU = LF \/ nth v st LU = LN) /\
  (forall v, v < n -> nth v st LU <> LU -> ltb (nth v w zero) one = true) /\
  (forall u, u < n -> nth u st LU = LU -> ltb (nth u w zero) one = false).

Lemma combine_In_l (dys : list pdyn) b : length dys = length bs -> In b bs -> exists dy, In (b, dy) (combine bs dys).
Proof.
  intros HL Hb. apply (In_nth _ _ (0, 0)) in Hb. destruct Hb as [i [Hi E]].
  assert (Hd : i < length dys) by lia.
  exists (nth i dys (mkPdyn F [] [] [] [] false)). rewrite <- E.
  rewrite <- (combine_nth bs dys i (0, 0) (mkPdyn F [] [] [] [] false)) by (symmetry; exact HL).
  apply nth_In. rewrite combine_length. lia.
Qed.

(* an unassigned vertex keeps its owner inside the loop *)
Lemma owner_active_U (dys : list pdyn) st w g : GI dys st w -> g < n -> nth g st LU = LU ->
  owner_active F (combine bs dys) g = true.
Proof.
  intros [_ [_ [HL [HR _]]]] Hg HU. destruct (Hcover g Hg) as [b [Hb Hin]].
  destruct (combine_In_l dys b HL Hb) as [dy Hbd]. unfold owner_active. apply existsb_exists.
  exists (b, dy). split; [exact Hbd|]. cbn [fst snd]. rewrite Hin. simpl.
  destruct (HR b dy Hbd) as [_ [_ [_ [Hun [_ [_ [_ Hact]]]]]]].
  destruct (d_active F dy) eqn:E; [reflexivity|]. destruct (Hact eq_refl) as [E1 _].
  assert (Hi : In g (d_un F dy)) by (apply Hun; auto). rewrite E1 in Hi. destruct Hi.
Qed.

(* the agreement test: views equal the owners' labels up to a predicate that only separates "was unassigned" *)
Lemma agree_ok cmp first (dys dys' : list pdyn) st st' w :
  GI dys st w -> length dys' = length bs ->
  (forall b dy', In (b, dy') (combine bs dys') -> exists dy, In (b, dy) (combine bs dys) /\ d_active F dy' = d_active F dy /\
      forall g, In g (colmap b) -> cmp (nth g (d_view F dy') LU) = cmp (nth g st' LU)) ->
  (forall g, owner_active F (combine bs dys') g = owner_active F (combine bs dys) g) ->
  (forall g, g < n -> cmp (nth g st' LU) = true -> nth g st LU = LU) ->
  agree F R cmp first (combine bs dys') st' = true.
Proof.
  intros HG HL Hv Hoa Hc. unfold agree. destruct first; [reflexivity|]. simpl.
  apply forallb_forall. intros [b dy'] Hbd. cbn [fst snd]. apply forallb_forall. intros g Hg.
  destruct (Hv b dy' Hbd) as [dy [Hbd0 [Ea Hcm]]]. rewrite (Hcm g Hg), Hoa, Ea.
  destruct (cmp (nth g st' LU)) eqn:E; [|rewrite !andb_false_r; reflexivity]. rewrite !andb_true_r.
  assert (Hgn : g < n) by (apply (colmap_lt b); exact Hg).
  assert (HU : nth g st LU = LU) by (apply Hc; assumption).
  rewrite (owner_active_U dys st w g HG Hgn HU).
  destruct HG as [_ [_ [_ [HR _]]]]. destruct (HR b dy Hbd0) as [_ [_ [_ [_ [_ [Huo [_ Hact]]]]]]].
  destruct (d_active F dy) eqn:E2; [reflexivity|]. destruct (Hact eq_refl) as [_ E1].
  assert (Hi : In g (d_unoff F dy)) by (apply Huo; auto). rewrite E1 in Hi. destruct Hi.
Qed.

(* ----- find_max_off_weights never exceeds a global upper bound ----- *)
Lemma maxw_le x w l :
  ltb x zero = false -> (forall idx, ltb x (nth idx w zero) = false) -> ltb x (maxw F zero ltb w l) = false.
Proof.
  intros H0 H. unfold maxw. apply (fold_left_inv (fun m => ltb x m = false)); [exact H0|].
  intros m idx _ Hm. destruct (ltb m (nth idx w zero)); [apply H|exact Hm].
Qed.

Lemma nth_map_zero (w : list F) u : nth u (map (fun _ => zero) w) zero = zero.
Proof. revert u; induction w as [|a w IH]; intros [|u]; simpl; auto. Qed.

Lemma mw_le first (bds : list ((nat * nat) * pdyn)) w x :
  ltb x zero = false -> (forall idx, ltb x (nth idx w zero) = false) ->
  forall u, ltb x (nth u (max_off_weights F zero ltb R CL first bds w) zero) = false.
Proof.
  intros H0 H. unfold max_off_weights.
  apply (fold_left_inv (fun mw => forall u, ltb x (nth u mw zero) = false)).
  - intros u. rewrite nth_map_zero. exact H0.
  - intros mw bd _ Hmw. destruct (d_active F (snd bd)); [|exact Hmw].
    apply (fold_left_inv (fun mw => forall u, ltb x (nth u mw zero) = false)); [exact Hmw|].
    intros mw' g _ Hmw'. destruct (is_U (nth g (d_view F (snd bd)) LU) || first); [|exact Hmw'].
    intros u. rewrite nth_upd. destruct ((g =? u) && (g <? length mw')); [|apply Hmw'].
    unfold fmax. destruct (ltb (maxw F zero ltb w _) (nth g mw' zero)); [apply Hmw'|apply maxw_le; assumption].
Qed.

(* ----- select_independent_set on one rank, then on all ranks ----- *)
Definition psel_step (t : nat -> bool) (p : list label * list nat) (u : nat) :=
  if t u then (upd (fst p) u LNC, snd p ++ [u]) else p.

Lemma psel_props t un p :
  let q := fold_left (psel_step t) un p in
  length (fst q) = length (fst p) /\
  (forall v, nth v (fst q) LU = nth v (fst p) LU \/ (nth v (fst q) LU = LNC /\ In v un)) /\
  (forall v, nth v (fst p) LU = LNC -> nth v (fst q) LU = LNC).
Proof.
  revert p; induction un as [|x l IH]; intros p; simpl.
  - repeat split; auto.
  - destruct (IH (psel_step t p x)) as [A [B C]]. clear IH.
    assert (Hs : length (fst (psel_step t p x)) = length (fst p) /\
                 (forall v, nth v (fst (psel_step t p x)) LU = nth v (fst p) LU \/
                            (nth v (fst (psel_step t p x)) LU = LNC /\ v = x))).
    { unfold psel_step. destruct (t x); cbn [fst]; [|auto].
      split; [apply upd_length|]. intros v. rewrite nth_upd.
      destruct ((x =? v) && (x <? length (fst p))) eqn:E; [|auto].
      right. split; [reflexivity|]. apply andb_true_iff in E. destruct E as [E _]. apply Nat.eqb_eq in E. auto. }
    destruct Hs as [S1 S2]. split; [congruence|]. split.
    + intros v. destruct (B v) as [B1|[B1 B2]]; [|right; auto].
      destruct (S2 v) as [S3|[S3 S4]]; [left; congruence|].
      right. split; [|left; auto]. destruct (C v S3). reflexivity.
    + intros v Hv. apply C. destruct (S2 v) as [S3|[S3 _]]; congruence.
Qed.

Lemma psel_complete t un p m :
  In m un -> t m = true -> m < length (fst p) -> nth m (fst (fold_left (psel_step t) un p)) LU = LNC.
Proof.
  revert p; induction un as [|x l IH]; intros p Hin Hok Hm; [destruct Hin|]. simpl.
  destruct Hin as [E|Hin].
  - subst x. destruct (psel_props t l (psel_step t p m)) as [_ [_ C]]. apply C.
    unfold psel_step. rewrite Hok. cbn [fst]. apply nth_upd_same. exact Hm.
  - apply IH; auto. destruct (psel_props t [x] p) as [A _]. simpl in A. rewrite A. exact Hm.
Qed.

Notation sel_rank := (sel_rank F zero ltb R CL).

Lemma sel_rank_fst w mw a bd :
  fst (sel_rank w mw a bd) =
  if d_active F (snd bd)
  then fst (fold_left (psel_step (par_sel_ok F zero ltb R CL (fst bd) (snd bd) w mw)) (d_un F (snd bd)) (fst a, []))
  else fst a.
Proof.
  destruct a as [st ncls]. unfold SplitPar.sel_rank. cbn [fst]. destruct (d_active F (snd bd)); [|reflexivity].
  unfold par_select. change (fun p u => if par_sel_ok F zero ltb R CL (fst bd) (snd bd) w mw u
                                        then (upd (fst p) u LNC, snd p ++ [u]) else p)
    with (psel_step (par_sel_ok F zero ltb R CL (fst bd) (snd bd) w mw)).
  destruct (fold_left _ (d_un F (snd bd)) (st, [])). reflexivity.
Qed.

Lemma sel_rank_snd_length w mw a bd : length (snd (sel_rank w mw a bd)) = S (length (snd a)).
Proof.
  destruct a as [st ncls]. unfold SplitPar.sel_rank. destruct (d_active F (snd bd)).
  - destruct (par_select _ _ _ _ _ _ _ _ _ _). cbn [snd]. rewrite app_length. simpl. lia.
  - cbn [snd]. rewrite app_length. simpl. lia.
Qed.

Lemma sel_ranks_props w mw bds : forall a,
  let q := fold_left (sel_rank w mw) bds a in
  length (fst q) = length (fst a) /\ length (snd q) = length (snd a) + length bds /\
  (forall v, nth v (fst q) LU = nth v (fst a) LU \/
             (nth v (fst q) LU = LNC /\ exists bd, In bd bds /\ d_active F (snd bd) = true /\ In v (d_un F (snd bd)))) /\
  (forall v, nth v (fst a) LU = LNC -> nth v (fst q) LU = LNC).
Proof.
  induction bds as [|bd bds IH]; intros a; simpl.
  - repeat split; auto.
  - destruct (IH (sel_rank w mw a bd)) as [A [A2 [B C]]]. clear IH.
    assert (Hs : length (fst (sel_rank w mw a bd)) = length (fst a) /\
                 (forall v, nth v (fst (sel_rank w mw a bd)) LU = nth v (fst a) LU \/
                            (nth v (fst (sel_rank w mw a bd)) LU = LNC /\ d_active F (snd bd) = true /\ In v (d_un F (snd bd)))) /\
                 (forall v, nth v (fst a) LU = LNC -> nth v (fst (sel_rank w mw a bd)) LU = LNC)).
    { rewrite sel_rank_fst. destruct (d_active F (snd bd)); [|auto].
      destruct (psel_props (par_sel_ok F zero ltb R CL (fst bd) (snd bd) w mw) (d_un F (snd bd)) (fst a, [])) as [P1 [P2 P3]].
      cbn [fst] in *. split; [exact P1|]. split; [|exact P3].
      intros v. destruct (P2 v) as [H|[H1 H2]]; [left; exact H|right; auto]. }
    destruct Hs as [S1 [S2 S3]]. split; [congruence|]. split; [rewrite A2, sel_rank_snd_length; lia|]. split.
    + intros v. destruct (B v) as [B1|[B1 [bd' [I1 [I2 I3]]]]].
      * destruct (S2 v) as [S4|[S4 [S5 S6]]]; [left; congruence|].
        right. split; [rewrite B1; exact S4|]. exists bd. auto.
      * right. split; [exact B1|]. exists bd'. auto.
    + intros v Hv. apply C. apply S3. exact Hv.
Qed.

Lemma sel_ranks_complete w mw bds bd m : forall a,
  In bd bds -> d_active F (snd bd) = true -> In m (d_un F (snd bd)) ->
  par_sel_ok F zero ltb R CL (fst bd) (snd bd) w mw m = true -> m < length (fst a) ->
  nth m (fst (fold_left (sel_rank w mw) bds a)) LU = LNC.
Proof.
  intros a Hin Hact Hm Hok Hlen. apply in_split in Hin. destruct Hin as [l1 [l2 E]]. subst bds.
  rewrite fold_left_app. cbn [fold_left].
  destruct (sel_ranks_props w mw l1 a) as [L1 _].
  destruct (sel_ranks_props w mw l2 (sel_rank w mw (fold_left (sel_rank w mw) l1 a) bd)) as [_ [_ [_ C]]].
  apply C. rewrite sel_rank_fst, Hact. apply psel_complete; auto. cbn [fst]. rewrite L1. exact Hlen.
Qed.

(* ----- phases that only move unassigned labels ----- *)
Definition relX (X : label) (st st' : list label) : Prop :=
  length st' = length st /\ forall v, nth v st' LU = nth v st LU \/ (nth v st LU = LU /\ nth v st' LU = X).

Lemma relX_refl X st : relX X st st.
Proof. split; auto. Qed.
Lemma relX_trans X a b c : X <> LU -> relX X a b -> relX X b c -> relX X a c.
Proof.
  intros HX [L1 H1] [L2 H2]. split; [congruence|]. intros v.
  destruct (H1 v) as [A|[A1 A2]]; destruct (H2 v) as [B|[B1 B2]].
  - left; congruence.
  - right; split; congruence.
  - right; split; congruence.
  - congruence.
Qed.
Lemma mark_rows_relX st rows : relX LNF st (mark_rows st rows).
Proof. split; [apply mark_rows_spec|]. intros v. apply mark_rows_nth. Qed.

(* ----- update_states over all ranks ----- *)
Notation upd_rank := (upd_rank F zero one ltb).

Definition NewDy (st : list label) (w : list F) (bd : (nat * nat) * pdyn) (dy' : pdyn) : Prop :=
  let dy := snd bd in
  if d_active F dy then
    d_un F dy' = filter (keep2F st w) (d_un F dy) /\
    d_unoff F dy' = filter (keep2F (d_view F dy) (d_offw F dy)) (d_unoff F dy) /\
    length (d_view F dy') = length (d_view F dy) /\ length (d_offw F dy') = length (d_offw F dy) /\
    (forall g, ~ In g (d_unoff F dy) -> nth g (d_view F dy') LU = nth g (d_view F dy) LU /\
                                       nth g (d_offw F dy') zero = nth g (d_offw F dy) zero) /\
    (forall g, In g (d_unoff F dy) -> (nth g (d_view F dy') LU, nth g (d_offw F dy') zero) =
                                      us1F (nth g (d_view F dy) LU) (nth g (d_offw F dy) zero)) /\
    d_active F dy' = (match d_un F dy', d_unoff F dy' with [], [] => false | _, _ => true end)
  else dy' = dy.

Definition rank_ok (st : list label) (bd : (nat * nat) * pdyn) : Prop :=
  NoDup (d_un F (snd bd)) /\ (forall u, In u (d_un F (snd bd)) -> in_block (fst bd) u = true /\ u < length st) /\
  NoDup (d_unoff F (snd bd)) /\ (forall g, In g (d_unoff F (snd bd)) -> g < length (d_view F (snd bd))) /\
  length (d_view F (snd bd)) = length (d_offw F (snd bd)).

Lemma upd_ranks bds : forall lo accd st w,
  chain lo (map fst bds) -> (forall bd, In bd bds -> rank_ok st bd) -> length st = length w ->
  exists dl st3 w3,
    fold_left upd_rank bds (accd, st, w) = (accd ++ dl, st3, w3) /\
    Forall2 (NewDy st w) bds dl /\
    length st3 = length st /\ length w3 = length w /\
    (forall v, (exists bd, In bd bds /\ d_active F (snd bd) = true /\ In v (d_un F (snd bd))) ->
               (nth v st3 LU, nth v w3 zero) = us1F (nth v st LU) (nth v w zero)) /\
    (forall v, ~ (exists bd, In bd bds /\ d_active F (snd bd) = true /\ In v (d_un F (snd bd))) ->
               nth v st3 LU = nth v st LU /\ nth v w3 zero = nth v w zero).
Proof.
  induction bds as [|bd bds IH]; intros lo accd st w Hch Hok Hlen.
  - exists [], st, w. simpl. rewrite app_nil_r. repeat split; auto. intros v [bd [[] _]].
  - destruct Hch as [Elo Hch]. cbn [map] in *.
    assert (Hok0 : rank_ok st bd) by (apply Hok; left; reflexivity).
    destruct Hok0 as [ND [Hun [NDo [Huo Lvo]]]].
    (* vertices of later ranks lie beyond this block *)
    assert (Hlater : forall bd' u, In bd' bds -> In u (d_un F (snd bd')) -> ~ In u (d_un F (snd bd))).
    { intros bd' u Hbd' Hu Hu0.
      destruct (Hok bd' (or_intror Hbd')) as [_ [Hun' _]]. destruct (Hun' u Hu) as [Hb' _]. destruct (Hun u Hu0) as [Hb0 _].
      assert (lo + snd (fst bd) <= u).
      { apply (chain_later _ (map fst bds) (fst bd')); [exact Hch|apply in_map; exact Hbd'|exact Hb']. }
      unfold in_block in Hb0. apply andb_true_iff in Hb0. destruct Hb0 as [_ Hb0]. apply Nat.ltb_lt in Hb0. lia. }
    cbn [fold_left]. unfold SplitPar.upd_rank at 2. destruct (d_active F (snd bd)) eqn:Eact.
    + rewrite (pus_unfold F zero one ltb w st), (pus_unfold F zero one ltb (d_offw F (snd bd)) (d_view F (snd bd))).
      destruct (pus_fold F zero one ltb (d_un F (snd bd)) [] st w ND) as [st' [w' [Hf [L1 [L2 [Fr Pr]]]]]];
        [intros u Hu; apply Hun; exact Hu|exact Hlen|].
      destruct (pus_fold F zero one ltb (d_unoff F (snd bd)) [] (d_view F (snd bd)) (d_offw F (snd bd)) NDo)
        as [view' [offw' [Hfo [L1o [L2o [Fro Pro]]]]]]; [exact Huo|exact Lvo|].
      rewrite Hf, Hfo. cbn [app].
      set (dy' := mkPdyn F view' offw' (filter (keep2F st w) (d_un F (snd bd)))
                         (filter (keep2F (d_view F (snd bd)) (d_offw F (snd bd))) (d_unoff F (snd bd)))
                         (match filter (keep2F st w) (d_un F (snd bd)),
                                filter (keep2F (d_view F (snd bd)) (d_offw F (snd bd))) (d_unoff F (snd bd)) with
                          | [], [] => false | _, _ => true end)).
      destruct (IH (lo + snd (fst bd)) (accd ++ [dy']) st' w' Hch) as [dl [st3 [w3 [Hf3 [HF2 [L3 [L4 [P3 Q3]]]]]]]].
      { intros bd' Hbd'. destruct (Hok bd' (or_intror Hbd')) as [A [B C]]. split; [exact A|]. split; [|exact C].
        intros u Hu. destruct (B u Hu) as [B1 B2]. split; [exact B1|]. rewrite L1. exact B2. }
      { congruence. }
      exists (dy' :: dl), st3, w3. rewrite Hf3, <- app_assoc. split; [reflexivity|]. split.
      * constructor.
        { unfold NewDy. cbn zeta. rewrite Eact. unfold dy'. cbn [d_un d_unoff d_view d_offw d_active].
          split; [reflexivity|]. split; [reflexivity|]. split; [exact L1o|]. split; [exact L2o|]. split; [exact Fro|]. split; [exact Pro|reflexivity]. }
        { (* later ranks: their own entries were not touched by this rank *)
          clear - HF2 Hlater Fr. revert HF2. generalize dl. clear dl.
          assert (G : forall bd', In bd' bds -> forall dy2, NewDy st' w' bd' dy2 -> NewDy st w bd' dy2).
          { intros bd' Hbd' dy2. unfold NewDy. cbn zeta. destruct (d_active F (snd bd')); [|auto].
            intros [A B]. split; [|exact B]. rewrite A. apply filter_ext_in. intros u Hu. unfold keep2.
            destruct (Fr u (Hlater bd' u Hbd' Hu)) as [C D]. rewrite C, D. reflexivity. }
          induction bds as [|b0 bds' IHb]; intros dl HF2; inversion HF2; subst; constructor.
          - apply G; [left; reflexivity|assumption].
          - apply IHb; auto. intros bd' u Hb Hu. apply (Hlater bd' u (or_intror Hb) Hu).
            intros bd' Hb. apply G. right; exact Hb. }
      * split; [congruence|]. split; [congruence|]. split.
        { intros v [bd' [[E|Hbd'] [Ha Hv]]].
          - subst bd'. destruct (Q3 v) as [A B].
            { intros [bd2 [H2 [_ H3]]]. apply (Hlater bd2 v H2 H3 Hv). }
            rewrite A, B. apply Pr. exact Hv.
          - rewrite (P3 v) by (exists bd'; auto).
            destruct (Fr v (Hlater bd' v Hbd' Hv)) as [A B]. rewrite A, B. reflexivity. }
        { intros v Hn. destruct (Q3 v) as [A B].
          { intros [bd2 [H2 H3]]. apply Hn. exists bd2. split; [right; exact H2|exact H3]. }
          destruct (Fr v) as [C D]; [intros Hv; apply Hn; exists bd; split; [left; reflexivity|split; assumption]|]. split; congruence. }
    + destruct (IH (lo + snd (fst bd)) (accd ++ [snd bd]) st w Hch) as [dl [st3 [w3 [Hf3 [HF2 [L3 [L4 [P3 Q3]]]]]]]].
      { intros bd' Hbd'. apply Hok. right; exact Hbd'. } { exact Hlen. }
      exists (snd bd :: dl), st3, w3. rewrite Hf3, <- app_assoc. split; [reflexivity|]. split.
      * constructor; [unfold NewDy; cbn zeta; rewrite Eact; reflexivity|exact HF2].
      * split; [exact L3|]. split; [exact L4|]. split.
        { intros v [bd' [[E|Hbd'] [Ha Hv]]]; [subst bd'; congruence|]. apply P3. exists bd'. auto. }
        { intros v Hn. apply Q3. intros [bd2 [H2 H3]]. apply Hn. exists bd2. split; [right; exact H2|exact H3]. }
Qed.

(* ----- bookkeeping on the list of ranks ----- *)
Lemma combine_map_r {A B C} (l : list A) (g : A * B -> C) : forall (dys : list B), length dys = length l ->
  combine l (map g (combine l dys)) = map (fun bd => (fst bd, g bd)) (combine l dys).
Proof.
  induction l as [|a l IH]; intros [|d dys] H; simpl in *; try reflexivity; try discriminate.
  f_equal. apply IH. lia.
Qed.

Lemma map_fst_combine {A B} (l : list A) : forall (dys : list B), length dys = length l -> map fst (combine l dys) = l.
Proof. induction l as [|a l IH]; intros [|d dys] H; simpl in *; try reflexivity; try discriminate. f_equal. apply IH. lia. Qed.

Lemma Forall2_combine_In {A B C} (P : A * B -> C -> Prop) (l : list A) : forall (dys : list B) (dl : list C),
  Forall2 P (combine l dys) dl -> length dys = length l ->
  forall a c, In (a, c) (combine l dl) -> exists d, In (a, d) (combine l dys) /\ P (a, d) c.
Proof.
  induction l as [|x l IH]; intros dys dl HF HL a c Hin; [destruct Hin|].
  destruct dys as [|d dys]; [simpl in HL; discriminate|]. simpl in HF. inversion HF as [|p c0 l1 dl1 Hp HF1]; subst.
  simpl in Hin. destruct Hin as [E|Hin].
  - inversion E; subst. exists d. split; [left; reflexivity|exact Hp].
  - destruct (IH dys dl1 HF1 ltac:(simpl in HL; lia) a c Hin) as [d' [H1 H2]]. exists d'. split; [right; exact H1|exact H2].
Qed.

Lemma Forall2_length' {A B} (P : A -> B -> Prop) l l' : Forall2 P l l' -> length l = length l'.
Proof. induction 1; simpl; congruence. Qed.

(* what a rank holds between two phases of a round: everything as at the start of the round, except that the
   views now mirror the labels stX *)
Definition Acc (dys dysX : list pdyn) (stX : list label) : Prop :=
  length dysX = length bs /\
  forall b dyX, In (b, dyX) (combine bs dysX) ->
    exists dy, In (b, dy) (combine bs dys) /\
      d_active F dyX = d_active F dy /\ d_un F dyX = d_un F dy /\ d_unoff F dyX = d_unoff F dy /\
      d_offw F dyX = d_offw F dy /\ length (d_view F dyX) = n /\
      forall g, In g (colmap b) -> nth g (d_view F dyX) LU = nth g stX LU.

Lemma Acc_init dys st w : GI dys st w -> Acc dys dys st.
Proof.
  intros [_ [_ [HL [HR _]]]]. split; [exact HL|]. intros b dy Hbd. exists dy. split; [exact Hbd|].
  destruct (HR b dy Hbd) as [Lv [_ [_ [_ [_ [_ [Hacc _]]]]]]]. repeat split; auto. intros g Hg. apply Hacc. exact Hg.
Qed.

Lemma owner_active_map (dys : list pdyn) (g : (nat * nat) * pdyn -> pdyn) :
  length dys = length bs -> (forall bd, d_active F (g bd) = d_active F (snd bd)) ->
  forall v, owner_active F (combine bs (map g (combine bs dys))) v = owner_active F (combine bs dys) v.
Proof.
  intros HL Hg v. rewrite combine_map_r by exact HL. unfold owner_active.
  induction (combine bs dys) as [|bd l IH]; simpl; [reflexivity|]. rewrite Hg, IH. reflexivity.
Qed.

Lemma recv_rank_active first stB bd : d_active F (recv_rank F R first stB bd) = d_active F (snd bd).
Proof. unfold recv_rank. destruct (d_active F (snd bd)) eqn:E; [unfold set_view; cbn [d_active]; exact E|exact E]. Qed.

Lemma recv_Acc first dys st w dysA stA stB :
  GI dys st w -> Acc dys dysA stA -> length stB = n ->
  (forall v, nth v stB LU = nth v stA LU \/ nth v stA LU = LU) ->
  (forall v, nth v stA LU = LU -> nth v st LU = LU) ->
  Acc dys (map (recv_rank F R first stB) (combine bs dysA)) stB.
Proof.
  intros HG [HLA HA] LB Hrel Hback. split; [rewrite map_length, combine_length; lia|].
  intros b dyB Hin. rewrite combine_map_r in Hin by exact HLA. apply in_map_iff in Hin.
  destruct Hin as [[b' dyA] [E Hin]]. cbn [fst] in E. inversion E; subst b' dyB. clear E.
  destruct (HA b dyA Hin) as [dy [Hbd [Ea [Eun [Euo [Eow [Lv Hv]]]]]]].
  exists dy. split; [exact Hbd|]. unfold recv_rank. cbn [snd fst].
  destruct (d_active F dyA) eqn:Eact.
  - unfold set_view. cbn [d_active d_un d_unoff d_offw d_view].
    pose proof (recv_fold_spec first stB (colmap b) (d_view F dyA) (colmap_NoDup b)) as RS. cbv zeta in RS.
    destruct RS as [RL RV]. fold (recv_states F R first b dyA stB) in RL, RV.
    split; [rewrite Eact; exact Ea|]. split; [exact Eun|]. split; [exact Euo|]. split; [exact Eow|]. split; [rewrite RL; exact Lv|].
    intros g Hg. rewrite RV.
    assert (Hex : existsb (Nat.eqb g) (colmap b) = true) by (apply existsb_exists; exists g; split; [exact Hg|apply Nat.eqb_refl]).
    assert (Hlt : g <? length (d_view F dyA) = true) by (apply Nat.ltb_lt; rewrite Lv; apply (colmap_lt b); exact Hg).
    rewrite Hex, Hlt, andb_true_r. cbn [andb].
    destruct (first || is_U (nth g (d_view F dyA) LU)) eqn:Ec; [reflexivity|].
    apply orb_false_iff in Ec. destruct Ec as [_ Ec]. unfold is_U in Ec. apply label_eqb_neq in Ec.
    rewrite (Hv g Hg) in *. destruct (Hrel g) as [H|H]; [congruence|contradiction].
  - split; [rewrite Eact; exact Ea|]. split; [exact Eun|]. split; [exact Euo|]. split; [exact Eow|]. split; [exact Lv|].
    intros g Hg. rewrite (Hv g Hg).
    (* an inactive rank sees no unassigned column *)
    destruct HG as [_ [_ [_ [HR _]]]]. destruct (HR b dy Hbd) as [_ [_ [_ [_ [_ [Huo [_ Hact]]]]]]].
    destruct (Hact (eq_sym Ea)) as [_ E0].
    destruct (Hrel g) as [H|H]; [congruence|]. exfalso.
    assert (Hi : In g (d_unoff F dy)) by (apply Huo; split; [exact Hg|apply Hback; exact H]). rewrite E0 in Hi. destruct Hi.
Qed.

Lemma existsb_false {A} (f : A -> bool) l : (forall x, In x l -> f x = false) -> existsb f l = false.
Proof.
  intros H. destruct (existsb f l) eqn:E; [|reflexivity]. apply existsb_exists in E.
  destruct E as [x [H1 H2]]. rewrite (H x H1) in H2. discriminate.
Qed.

(* ----- phase: select ----- *)
Lemma sel_phase first (dys : list pdyn) st w :
  GI dys st w ->
  let mw := max_off_weights F zero ltb R CL first (combine bs dys) w in
  let q := fold_left (sel_rank w mw) (combine bs dys) (st, []) in
  relX LNC st (fst q) /\ length (snd q) = length bs /\
  ((exists v, v < n /\ nth v st LU = LU) -> exists m, m < n /\ nth m st LU = LU /\ nth m (fst q) LU = LNC).
Proof.
  intros HG mw q. pose proof HG as [L [LW [HL [HR [HT [HA HU]]]]]].
  destruct (sel_ranks_props w mw (combine bs dys) (st, [])) as [P1 [P2 [P3 _]]]. fold q in P1, P2, P3. cbn [fst snd] in *.
  split; [|split].
  - split; [exact P1|]. intros v. destruct (P3 v) as [H|[H [bd [Hbd [Hact Hv]]]]]; [left; exact H|right].
    split; [|exact H]. destruct bd as [b dy]. cbn [snd] in *.
    destruct (HR b dy Hbd) as [_ [_ [_ [Hun _]]]]. apply Hun in Hv. tauto.
  - rewrite P2, combine_length. simpl. lia.
  - intros [v0 [Hv0 HU0]].
    set (unall := filter (fun v => is_U (nth v st LU)) (seq 0 n)).
    assert (Hne : unall <> []).
    { intros E. assert (Hi : In v0 unall) by (apply filter_In; split; [apply in_seq; lia|unfold is_U; rewrite HU0; reflexivity]).
      rewrite E in Hi. destruct Hi. }
    destruct (max_exists F zero ltb ltb_trans ltb_irrefl w unall Hne) as [m [Hm Hmax]].
    apply filter_In in Hm. destruct Hm as [Hm1 Hm2]. apply in_seq in Hm1. unfold is_U in Hm2. apply label_eqb_eq in Hm2.
    assert (Hmn : m < n) by lia.
    assert (Hm1' : ltb (nth m w zero) one = false) by (apply HU; assumption).
    assert (H0 : ltb (nth m w zero) zero = false).
    { destruct (ltb (nth m w zero) zero) eqn:E; [|reflexivity]. rewrite (ltb_trans _ _ _ E lt01) in Hm1'. discriminate. }
    assert (Key : forall idx, ltb (nth m w zero) (nth idx w zero) = false).
    { intros idx. destruct (Nat.lt_ge_cases idx n) as [Hi|Hi].
      - destruct (label_eqb (nth idx st LU) LU) eqn:E.
        + apply Hmax. apply filter_In. split; [apply in_seq; lia|exact E].
        + apply label_eqb_neq in E. specialize (HA idx Hi E).
          destruct (ltb (nth m w zero) (nth idx w zero)) eqn:E2; [|reflexivity].
          rewrite (ltb_trans _ _ _ E2 HA) in Hm1'. discriminate.
      - rewrite (nth_overflow w zero (n:=idx)) by lia. exact H0. }
    exists m. split; [exact Hmn|]. split; [exact Hm2|].
    destruct (Hcover m Hmn) as [b [Hb Hin]]. destruct (combine_In_l dys b HL Hb) as [dy Hbd].
    destruct (HR b dy Hbd) as [_ [_ [_ [Hun [_ [_ [Hacc Hact]]]]]]].
    assert (Hmu : In m (d_un F dy)) by (apply Hun; auto).
    assert (Ha : d_active F dy = true).
    { destruct (d_active F dy) eqn:E; [reflexivity|]. destruct (Hact eq_refl) as [E1 _]. rewrite E1 in Hmu. destruct Hmu. }
    apply (sel_ranks_complete w mw (combine bs dys) (b, dy) m (st, []) Hbd Ha Hmu); [|cbn [fst]; lia].
    assert (Hmw : ltb (nth m w zero) (nth m mw zero) = false) by (unfold mw; apply mw_le; assumption).
    unfold par_sel_ok. cbn [fst snd]. rewrite Hmw. cbn [negb andb].
    rewrite !existsb_false; [reflexivity| | |]; intros x Hx; try apply Key.
    apply filter_In in Hx. destruct Hx as [Hx1 Hx2]. apply negb_true_iff in Hx2.
    assert (Hc : In x (colmap b)) by (apply In_colmap; split; [exact Hx2|exists m; auto]).
    rewrite (proj2 (Hacc x Hc)). apply Key.
Qed.

(* ----- phase: mark ----- *)
Lemma mark_phase (l : list ((nat * nat) * pdyn * list nat)) st1 :
  relX LNF st1 (fold_left (mark_rank F CL) l st1).
Proof.
  apply (fold_left_inv (fun s => relX LNF st1 s)); [apply relX_refl|].
  intros s [[b dy] ncl] _ Hs. unfold mark_rank. destruct (d_active F dy); [|exact Hs].
  apply (fold_left_inv (fun s => relX LNF st1 s)).
  - apply (fold_left_inv (fun s => relX LNF st1 s)); [exact Hs|].
    intros s' idx _ Hs'. eapply relX_trans; [discriminate|exact Hs'|apply mark_rows_relX].
  - intros s' g _ Hs'. destruct (label_eqb (nth g (d_view F dy) LU) LNC); [|exact Hs'].
    eapply relX_trans; [discriminate|exact Hs'|apply mark_rows_relX].
Qed.

(* ----- the decision of update_states on a label that was unassigned at the start of the round ----- *)
Lemma us1_cases l x : l = LU \/ l = LNC \/ l = LNF ->
  (l = LU /\ ltb x one = false /\ us1F l x = (LU, x)) \/
  ((fst (us1F l x) = LC \/ fst (us1F l x) = LF) /\ snd (us1F l x) = zero /\ ~ (l = LU /\ ltb x one = false)).
Proof.
  unfold us1. intros [H|[H|H]]; subst l; cbn [label_eqb].
  - destruct (ltb x one) eqn:E; cbn [orb].
    + right. cbn. split; [auto|]. split; [reflexivity|]. intros [_ H]. discriminate.
    + left. auto.
  - right. cbn. split; [auto|]. split; [reflexivity|]. intros [H _]. discriminate.
  - right. rewrite orb_true_r. cbn. split; [auto|]. split; [reflexivity|]. intros [H _]. discriminate.
Qed.

Lemma keep2_iff (st : list label) (w : list F) v : nth v st LU = LU \/ nth v st LU = LNC \/ nth v st LU = LNF ->
  keep2F st w v = true <-> (nth v st LU = LU /\ ltb (nth v w zero) one = false).
Proof.
  unfold keep2. intros [H|[H|H]]; rewrite H; cbn [label_eqb negb andb orb].
  - rewrite orb_false_r. rewrite negb_true_iff. tauto.
  - split; [discriminate|intros [E _]; discriminate].
  - rewrite orb_true_r. cbn. split; [discriminate|intros [E _]; discriminate].
Qed.

Lemma moving_1 st st1 v : relX LNC st st1 ->
  (nth v st LU = LU \/ nth v st LU = LC \/ nth v st LU = LF \/ nth v st LU = LN) ->
  is_moving (nth v st1 LU) = is_U (nth v st LU).
Proof.
  intros [_ H] HT. destruct (H v) as [A|[A B]].
  - rewrite A. destruct HT as [E|[E|[E|E]]]; rewrite E; reflexivity.
  - rewrite A, B. reflexivity.
Qed.
Lemma moving_2 st1 st2 v : relX LNF st1 st2 -> is_moving (nth v st2 LU) = is_moving (nth v st1 LU).
Proof. intros [_ H]. destruct (H v) as [A|[A B]]; [rewrite A; reflexivity|rewrite A, B; reflexivity]. Qed.

(* ----- one pass of the while loop keeps the invariant ----- *)
Lemma par_round_GI first (dys : list pdyn) st w : GI dys st w ->
  exists dys' st' w',
    par_round F zero one ltb R CL first bs (dys, st, w) = Some (dys', st', w') /\
    GI dys' st' w' /\
    (forall dy, In dy dys' -> d_active F dy = false -> d_un F dy = [] /\ d_unoff F dy = []) /\
    (forall dy, In dy dys' -> d_un F dy = [] -> d_unoff F dy = [] -> d_active F dy = false) /\
    (forall v, nth v st LU <> LU -> nth v st' LU = nth v st LU) /\
    ((exists v, v < n /\ nth v st LU = LU) -> exists m, m < n /\ nth m st LU = LU /\ nth m st' LU <> LU) /\
    (forall v, v < n -> nth v st LU = LU -> nth v st' LU = LU \/ nth v st' LU = LC \/ nth v st' LU = LF).
Proof.
  intros HG. pose proof HG as [L [LW [HL [HR [HT [HA HU]]]]]].
  unfold par_round.
  (* exchange 1 (weights of unassigned columns) *)
  assert (A0 : agree F R is_U first (combine bs dys) st = true).
  { apply (agree_ok is_U first dys dys st st w HG HL).
    - intros b dy Hbd. exists dy. split; [exact Hbd|]. split; [reflexivity|]. intros g Hg.
      destruct (HR b dy Hbd) as [_ [_ [_ [_ [_ [_ [Hacc _]]]]]]]. rewrite (proj1 (Hacc g Hg)). reflexivity.
    - reflexivity.
    - intros g _ H. apply label_eqb_eq. exact H. }
  rewrite A0. cbn [negb].
  set (mw := max_off_weights F zero ltb R CL first (combine bs dys) w).
  pose proof (sel_phase first dys st w HG) as SP. cbv zeta in SP. fold mw in SP.
  destruct (fold_left (sel_rank w mw) (combine bs dys) (st, [])) as [st1 ncls] eqn:Esel. cbn [fst snd] in SP.
  destruct SP as [R1 [LN1 PR1]]. pose proof R1 as [L1 V1].
  assert (M1 : forall v, v < n -> is_moving (nth v st1 LU) = is_U (nth v st LU)).
  { intros v Hv. apply moving_1; [exact R1|apply HT; exact Hv]. }
  (* exchange 2 (states after select) *)
  assert (A1 : agree F R is_moving first (combine bs dys) st1 = true).
  { apply (agree_ok is_moving first dys dys st st1 w HG HL).
    - intros b dy Hbd. exists dy. split; [exact Hbd|]. split; [reflexivity|]. intros g Hg.
      destruct (HR b dy Hbd) as [_ [_ [_ [_ [_ [_ [Hacc _]]]]]]]. rewrite (proj1 (Hacc g Hg)).
      rewrite M1 by (apply (colmap_lt b); exact Hg).
      destruct (HT g (colmap_lt b g Hg)) as [E|[E|[E|E]]]; rewrite E; reflexivity.
    - reflexivity.
    - intros g Hg H. rewrite M1 in H by exact Hg. apply label_eqb_eq. exact H. }
  rewrite A1. cbn [negb].
  set (dys1 := map (recv_rank F R first st1) (combine bs dys)).
  assert (Acc1 : Acc dys dys1 st1).
  { apply (recv_Acc first dys st w dys st st1 HG (Acc_init dys st w HG)); [congruence| |auto].
    intros v. destruct (V1 v) as [H|[H _]]; auto. }
  set (st2 := fold_left (mark_rank F CL) (combine (combine bs dys1) ncls) st1).
  pose proof (mark_phase (combine (combine bs dys1) ncls) st1) as R2. fold st2 in R2. pose proof R2 as [L2 V2].
  assert (M2 : forall v, v < n -> is_moving (nth v st2 LU) = is_U (nth v st LU)).
  { intros v Hv. rewrite (moving_2 st1 st2 v R2). apply M1. exact Hv. }
  assert (OA1 : forall g, owner_active F (combine bs dys1) g = owner_active F (combine bs dys) g).
  { intros g. unfold dys1. apply owner_active_map; [exact HL|]. intros bd. apply recv_rank_active. }
  (* exchange 3 (states after marking) *)
  assert (A2 : agree F R is_moving first (combine bs dys1) st2 = true).
  { apply (agree_ok is_moving first dys dys1 st st2 w HG (proj1 Acc1)).
    - intros b dy1 Hbd. destruct (proj2 Acc1 b dy1 Hbd) as [dy [Hbd0 [Ea [_ [_ [_ [_ Hv]]]]]]].
      exists dy. split; [exact Hbd0|]. split; [exact Ea|]. intros g Hg. rewrite (Hv g Hg).
      symmetry. apply moving_2. exact R2.
    - exact OA1.
    - intros g Hg H. rewrite M2 in H by exact Hg. apply label_eqb_eq. exact H. }
  rewrite A2. cbn [negb].
  set (dys2 := map (recv_rank F R first st2) (combine bs dys1)).
  assert (Acc2 : Acc dys dys2 st2).
  { apply (recv_Acc first dys st w dys1 st1 st2 HG Acc1); [congruence| |].
    - intros v. destruct (V2 v) as [H|[H _]]; auto.
    - intros v H. destruct (V1 v) as [H1|[H1 H2]]; [congruence|exact H1]. }
  destruct Acc2 as [HL2 HA2].
  (* update_states *)
  destruct (upd_ranks (combine bs dys2) 0 [] st2 w) as [dl [st3 [w3 [Hf [HF2 [L3 [L4 [P3 Q3]]]]]]]].
  { rewrite map_fst_combine by exact HL2. exact Hchain. }
  { intros [b dy2] Hbd. destruct (HA2 b dy2 Hbd) as [dy [Hbd0 [Ea [Eun [Euo [Eow [Lv Hv]]]]]]].
    destruct (HR b dy Hbd0) as [_ [Low [ND [Hun [NDo [Huo _]]]]]].
    unfold rank_ok. cbn [fst snd]. rewrite Eun, Euo, Eow. split; [exact ND|]. split; [|split; [exact NDo|split]].
    - intros u Hu. apply Hun in Hu. destruct Hu as [Hu _]. split; [exact Hu|].
      rewrite L2, L1, L. apply (in_block_lt b u); [|exact Hu]. apply in_combine_l in Hbd. exact Hbd.
    - intros g Hg. apply Huo in Hg. destruct Hg as [Hg _]. rewrite Lv. apply (colmap_lt b). exact Hg.
    - congruence. }
  { congruence. }
  cbn [app] in Hf. rewrite Hf. exists dl, st3, w3. split; [reflexivity|].
  (* pointwise description of the new labels and weights *)
  assert (F3 : forall v, nth v st LU <> LU -> nth v st2 LU = nth v st LU).
  { intros v Hv. destruct (V1 v) as [H1|[H1 _]]; [|contradiction]. destruct (V2 v) as [H2|[H2 _]]; congruence. }
  assert (F3' : forall v, nth v st LU = LU -> nth v st2 LU = LU \/ nth v st2 LU = LNC \/ nth v st2 LU = LNF).
  { intros v Hv. destruct (V1 v) as [H1|[_ H1]]; destruct (V2 v) as [H2|[H2 H2']]; try (left; congruence);
      try (right; left; congruence); try (right; right; congruence). }
  assert (F1 : forall v, v < n -> nth v st LU = LU -> (nth v st3 LU, nth v w3 zero) = us1F (nth v st2 LU) (nth v w zero)).
  { intros v Hv HUv. apply P3. destruct (Hcover v Hv) as [b [Hb Hin]].
    destruct (combine_In_l dys2 b HL2 Hb) as [dy2 Hbd]. exists (b, dy2). split; [exact Hbd|]. cbn [snd].
    destruct (HA2 b dy2 Hbd) as [dy [Hbd0 [Ea [Eun _]]]].
    destruct (HR b dy Hbd0) as [_ [_ [_ [Hun [_ [_ [_ Hact]]]]]]].
    assert (Hvu : In v (d_un F dy)) by (apply Hun; auto). rewrite Ea, Eun. split; [|exact Hvu].
    destruct (d_active F dy) eqn:E; [reflexivity|]. destruct (Hact eq_refl) as [E1 _]. rewrite E1 in Hvu. destruct Hvu. }
  assert (F2 : forall v, nth v st LU <> LU -> nth v st3 LU = nth v st LU /\ nth v w3 zero = nth v w zero).
  { intros v Hv. destruct (Q3 v) as [A B].
    - intros [[b dy2] [Hbd [_ Hvu]]]. cbn [snd] in Hvu. destruct (HA2 b dy2 Hbd) as [dy [Hbd0 [_ [Eun _]]]].
      destruct (HR b dy Hbd0) as [_ [_ [_ [Hun _]]]]. rewrite Eun in Hvu. apply Hun in Hvu. tauto.
    - split; [rewrite A; apply F3; exact Hv|exact B]. }
  assert (Hstay : forall v, nth v st LU <> LU -> nth v st3 LU = nth v st LU) by (intros v Hv; apply F2; exact Hv).
  (* a label is unassigned after the round iff update_states kept it *)
  assert (K3 : forall v, v < n -> (nth v st3 LU = LU <-> nth v st LU = LU /\ keep2F st2 w v = true)).
  { intros v Hv. destruct (label_eqb (nth v st LU) LU) eqn:E.
    - apply label_eqb_eq in E. pose proof (F1 v Hv E) as HF1. pose proof (F3' v E) as H3.
      rewrite (keep2_iff st2 w v H3). destruct (us1_cases (nth v st2 LU) (nth v w zero) H3) as [[C1 [C2 C3]]|[C1 [C2 C3]]].
      + rewrite C3 in HF1. inversion HF1. intuition congruence.
      + split; [intros H; exfalso|intros [_ H]; exfalso; apply C3; exact H].
        assert (E3 : fst (us1F (nth v st2 LU) (nth v w zero)) = LU) by (rewrite <- HF1; exact H).
        destruct C1 as [C1|C1]; congruence.
    - apply label_eqb_neq in E. rewrite (Hstay v E). tauto. }
  split; [|split; [|split; [|split; [|split]]]].
  - (* GI *)
    assert (LD : length dl = length bs).
    { apply Forall2_length' in HF2. rewrite combine_length in HF2. lia. }
    unfold GI. split; [congruence|]. split; [congruence|]. split; [exact LD|]. split; [|split; [|split]].
    + intros b dy' Hbd'.
      destruct (Forall2_combine_In (NewDy st2 w) bs dys2 dl HF2 HL2 b dy' Hbd') as [dy2 [Hbd2 HN]].
      destruct (HA2 b dy2 Hbd2) as [dy [Hbd0 [Ea [Eun [Euo [Eow [Lv Hv]]]]]]].
      destruct (HR b dy Hbd0) as [_ [Low [ND [Hun [NDo [Huo [Hacc Hact]]]]]]].
      assert (Hb : In b bs) by (apply in_combine_l in Hbd0; exact Hbd0).
      unfold NewDy in HN. cbn zeta in HN. cbn [snd] in HN. destruct (d_active F dy2) eqn:Eact2.
      * destruct HN as [N1 [N2 [N3 [N4 [N5 [N6 N7]]]]]]. rewrite Eun in N1. rewrite Euo, Eow in N2. rewrite Euo in N5, N6.
        (* view2 and offw agree with st2 and w on the off-process columns *)
        assert (KV : forall g, In g (colmap b) -> keep2F (d_view F dy2) (d_offw F dy) g = keep2F st2 w g).
        { intros g Hg. unfold keep2. rewrite (Hv g Hg), (proj2 (Hacc g Hg)). reflexivity. }
        unfold RI. split; [congruence|]. split; [congruence|]. split; [rewrite N1; apply NoDup_filter; exact ND|]. split.
        { intros v. rewrite N1, filter_In, Hun. split.
          - intros [[H1 H2] H3]. split; [exact H1|]. apply K3; [apply (in_block_lt b v Hb H1)|auto].
          - intros [H1 H2]. apply K3 in H2; [|apply (in_block_lt b v Hb H1)]. tauto. }
        split; [rewrite N2; apply NoDup_filter; exact NDo|]. split.
        { intros g. rewrite N2, filter_In, Huo. split.
          - intros [[H1 H2] H3]. split; [exact H1|]. rewrite KV in H3 by exact H1. apply K3; [apply (colmap_lt b g H1)|auto].
          - intros [H1 H2]. apply K3 in H2; [|apply (colmap_lt b g H1)]. rewrite KV by exact H1. tauto. }
        split.
        { intros g Hg. destruct (in_dec Nat.eq_dec g (d_unoff F dy)) as [Hi|Hi].
          - pose proof (N6 g Hi) as E6. rewrite Eow, (Hv g Hg), (proj2 (Hacc g Hg)) in E6.
            apply Huo in Hi. destruct Hi as [_ HUg]. rewrite <- (F1 g (colmap_lt b g Hg) HUg) in E6. inversion E6. auto.
          - destruct (N5 g Hi) as [E5 E5']. rewrite E5, E5', Eow, (Hv g Hg), (proj2 (Hacc g Hg)).
            assert (HnU : nth g st LU <> LU) by (intros H; apply Hi; apply Huo; auto).
            destruct (F2 g HnU) as [G1 G2]. rewrite G1, G2, (F3 g HnU). auto. }
        { intros Hf'. rewrite N7 in Hf'. destruct (d_un F dy') as [|? ?]; destruct (d_unoff F dy') as [|? ?]; try discriminate. auto. }
      * subst dy'. destruct (Hact (eq_sym Ea)) as [E1 E2].
        assert (NU : forall v, in_block b v = true -> nth v st LU <> LU).
        { intros v Hv' H. assert (Hi : In v (d_un F dy)) by (apply Hun; auto). rewrite E1 in Hi. destruct Hi. }
        assert (NUo : forall g, In g (colmap b) -> nth g st LU <> LU).
        { intros g Hg H. assert (Hi : In g (d_unoff F dy)) by (apply Huo; auto). rewrite E2 in Hi. destruct Hi. }
        unfold RI. rewrite Eun, Euo, Eow, E1, E2. split; [exact Lv|]. split; [exact Low|]. split; [constructor|]. split.
        { intros v. split; [intros []|]. intros [H1 H2]. rewrite (Hstay v (NU v H1)) in H2. exact (NU v H1 H2). }
        split; [constructor|]. split.
        { intros g. split; [intros []|]. intros [H1 H2]. rewrite (Hstay g (NUo g H1)) in H2. exact (NUo g H1 H2). }
        split; [|auto].
        intros g Hg. destruct (F2 g (NUo g Hg)) as [G1 G2]. rewrite (Hv g Hg), (F3 g (NUo g Hg)), G1, G2, (proj2 (Hacc g Hg)). auto.
    + intros v Hv. destruct (label_eqb (nth v st LU) LU) eqn:E.
      * apply label_eqb_eq in E. pose proof (F1 v Hv E) as HF1.
        destruct (us1_cases (nth v st2 LU) (nth v w zero) (F3' v E)) as [[C1 [C2 C3]]|[C1 _]].
        { rewrite C3 in HF1. left. congruence. }
        { assert (E3 : nth v st3 LU = fst (us1F (nth v st2 LU) (nth v w zero))) by (rewrite <- HF1; reflexivity).
          destruct C1 as [C1|C1]; rewrite C1 in E3; auto. }
      * apply label_eqb_neq in E. rewrite (Hstay v E). destruct (HT v Hv) as [H|H]; [contradiction|auto].
    + intros v Hv HnU. destruct (label_eqb (nth v st LU) LU) eqn:E.
      * apply label_eqb_eq in E. pose proof (F1 v Hv E) as HF1.
        destruct (us1_cases (nth v st2 LU) (nth v w zero) (F3' v E)) as [[C1 [C2 C3]]|[_ [C2 _]]].
        { rewrite C3 in HF1. inversion HF1. congruence. }
        { assert (E3 : nth v w3 zero = snd (us1F (nth v st2 LU) (nth v w zero))) by (rewrite <- HF1; reflexivity).
          rewrite E3, C2. exact lt01. }
      * apply label_eqb_neq in E. rewrite (proj2 (F2 v E)). apply HA; assumption.
    + intros u Hu HUu. apply K3 in HUu; [|exact Hu]. destruct HUu as [E Hk].
      apply (keep2_iff st2 w u (F3' u E)) in Hk. destruct Hk as [K1 K2].
      pose proof (F1 u Hu E) as HF1. unfold us1 in HF1. rewrite K1, K2 in HF1. cbn in HF1. inversion HF1 as [[H0' H1']]. rewrite H1'. exact K2.
  - (* inactive ranks have empty work lists *)
    intros dy' Hdy' Hf'. apply (In_nth _ _ (mkPdyn F [] [] [] [] false)) in Hdy'. destruct Hdy' as [i [Hi E]].
    assert (LD : length dl = length bs) by (apply Forall2_length' in HF2; rewrite combine_length in HF2; lia).
    assert (Hbd' : In (nth i bs (0, 0), dy') (combine bs dl)).
    { rewrite <- E. rewrite <- (combine_nth bs dl i (0, 0) (mkPdyn F [] [] [] [] false)) by (symmetry; exact LD).
      apply nth_In. rewrite combine_length. lia. }
    destruct (Forall2_combine_In (NewDy st2 w) bs dys2 dl HF2 HL2 _ dy' Hbd') as [dy2 [Hbd2 HN]].
    unfold NewDy in HN. cbn zeta in HN. cbn [snd] in HN. destruct (d_active F dy2) eqn:Eact2.
    + destruct HN as [_ [_ [_ [_ [_ [_ N7]]]]]]. rewrite N7 in Hf'.
      destruct (d_un F dy') as [|? ?]; destruct (d_unoff F dy') as [|? ?]; try discriminate. auto.
    + rewrite HN. destruct (HA2 _ dy2 Hbd2) as [dy [Hbd0 [Ea [Eun [Euo _]]]]].
      destruct (HR _ dy Hbd0) as [_ [_ [_ [_ [_ [_ [_ Hact]]]]]]]. rewrite Ea in Eact2. rewrite Eun, Euo. apply Hact. exact Eact2.
  - (* ranks with empty work lists leave the loop *)
    intros dy' Hdy' E1 E2. apply (In_nth _ _ (mkPdyn F [] [] [] [] false)) in Hdy'. destruct Hdy' as [i [Hi E]].
    assert (LD : length dl = length bs) by (apply Forall2_length' in HF2; rewrite combine_length in HF2; lia).
    assert (Hbd' : In (nth i bs (0, 0), dy') (combine bs dl)).
    { rewrite <- E. rewrite <- (combine_nth bs dl i (0, 0) (mkPdyn F [] [] [] [] false)) by (symmetry; exact LD).
      apply nth_In. rewrite combine_length. lia. }
    destruct (Forall2_combine_In (NewDy st2 w) bs dys2 dl HF2 HL2 _ dy' Hbd') as [dy2 [Hbd2 HN]].
    unfold NewDy in HN. cbn zeta in HN. cbn [snd] in HN. destruct (d_active F dy2) eqn:Eact2.
    + destruct HN as [_ [_ [_ [_ [_ [_ N7]]]]]]. rewrite N7, E1, E2. reflexivity.
    + rewrite HN. exact Eact2.
  - exact Hstay.
  - intros Hex. destruct (PR1 Hex) as [m [Hm [HmU HmC]]]. exists m. split; [exact Hm|]. split; [exact HmU|].
    assert (E2 : nth m st2 LU = LNC) by (destruct (V2 m) as [H|[H _]]; congruence).
    pose proof (F1 m Hm HmU) as HF1. rewrite E2 in HF1. unfold us1 in HF1. cbn in HF1. inversion HF1. congruence.
  - intros v Hv E. pose proof (F1 v Hv E) as HF1.
    destruct (us1_cases (nth v st2 LU) (nth v w zero) (F3' v E)) as [[C1 [C2 C3]]|[C1 _]].
    { rewrite C3 in HF1. left. congruence. }
    { assert (E3 : nth v st3 LU = fst (us1F (nth v st2 LU) (nth v w zero))) by (rewrite <- HF1; reflexivity).
      destruct C1 as [C1|C1]; rewrite C1 in E3; auto. }
Qed.

(* ----- the loop ----- *)
Definition cntU (st : list label) : nat := length (filter (fun v => is_U (nth v st LU)) (seq 0 n)).

Lemma filter_length_strict {A} (p p' : A -> bool) l :
  (forall x, In x l -> p' x = true -> p x = true) ->
  (exists x, In x l /\ p x = true /\ p' x = false) ->
  length (filter p' l) < length (filter p l).
Proof.
  induction l as [|a l IH]; intros Himp [x [Hx [Hp Hp']]]; [destruct Hx|].
  assert (Hle : length (filter p' l) <= length (filter p l)).
  { clear - Himp. assert (H : forall x, In x l -> p' x = true -> p x = true) by (intros x Hx; apply Himp; right; exact Hx).
    clear Himp. induction l as [|b l IHl]; simpl; [lia|].
    assert (IHl' : length (filter p' l) <= length (filter p l)) by (apply IHl; intros x Hx; apply H; right; exact Hx).
    destruct (p' b) eqn:E; [rewrite (H b (or_introl eq_refl) E); simpl; lia|destruct (p b); simpl; lia]. }
  simpl. destruct Hx as [E|Hx].
  - subst a. rewrite Hp, Hp'. simpl. lia.
  - assert (IH' : length (filter p' l) < length (filter p l)).
    { apply IH; [intros y Hy; apply Himp; right; exact Hy|exists x; auto]. }
    destruct (p' a) eqn:E; [rewrite (Himp a (or_introl eq_refl) E); simpl; lia|destruct (p a); simpl; lia].
Qed.

Lemma cntU_decrease st st' :
  (forall v, nth v st LU <> LU -> nth v st' LU = nth v st LU) ->
  (exists m, m < n /\ nth m st LU = LU /\ nth m st' LU <> LU) -> cntU st' < cntU st.
Proof.
  intros Hstay [m [Hm [HU HnU]]]. unfold cntU. apply filter_length_strict.
  - intros v _ H. unfold is_U in *. apply label_eqb_eq in H. apply label_eqb_eq.
    destruct (label_eqb (nth v st LU) LU) eqn:E; [apply label_eqb_eq; exact E|].
    apply label_eqb_neq in E. rewrite (Hstay v E) in H. contradiction.
  - exists m. split; [apply in_seq; lia|]. unfold is_U. split; [rewrite HU; reflexivity|].
    apply label_eqb_neq. exact HnU.
Qed.

Lemma cntU_pos st v : v < n -> nth v st LU = LU -> 0 < cntU st.
Proof.
  intros Hv HU. unfold cntU.
  assert (H : In v (filter (fun v => is_U (nth v st LU)) (seq 0 n))).
  { apply filter_In. split; [apply in_seq; lia|unfold is_U; rewrite HU; reflexivity]. }
  destruct (filter _ (seq 0 n)); [destruct H|simpl; lia].
Qed.

Definition flags_ok (dys : list pdyn) : Prop :=
  forall dy, In dy dys -> d_un F dy = [] -> d_unoff F dy = [] -> d_active F dy = false.

Lemma par_loop_total fuel : forall (dys : list pdyn) st w,
  GI dys st w -> flags_ok dys -> cntU st <= fuel ->
  exists dys' st' w',
    par_loop F zero one ltb R CL fuel bs (dys, st, w) = Some (dys', st', w') /\
    GI dys' st' w' /\ (forall v, v < n -> nth v st' LU <> LU) /\
    (forall v, nth v st LU <> LU -> nth v st' LU = nth v st LU) /\
    (forall v, v < n -> nth v st LU = LU -> nth v st' LU = LC \/ nth v st' LU = LF).
Proof.
  induction fuel as [|f IH]; intros dys st w HG HF Hc.
  - (* no unassigned vertex: nobody is active *)
    assert (Hno : forall v, v < n -> nth v st LU <> LU).
    { intros v Hv HU. pose proof (cntU_pos st v Hv HU). lia. }
    assert (Hex : existsb (d_active F) dys = false).
    { apply existsb_false. intros dy Hdy. apply HF; [exact Hdy| |].
      - destruct HG as [_ [_ [HL [HR _]]]]. apply (In_nth _ _ (mkPdyn F [] [] [] [] false)) in Hdy. destruct Hdy as [i [Hi E]].
        assert (Hbd : In (nth i bs (0, 0), dy) (combine bs dys)).
        { rewrite <- E. rewrite <- (combine_nth bs dys i (0, 0) (mkPdyn F [] [] [] [] false)) by (symmetry; exact HL).
          apply nth_In. rewrite combine_length. lia. }
        destruct (HR _ dy Hbd) as [_ [_ [_ [Hun _]]]].
        destruct (d_un F dy) as [|u l] eqn:Eu; [reflexivity|exfalso].
        destruct (proj1 (Hun u) (or_introl eq_refl)) as [H1 H2].
        apply (Hno u); [|exact H2]. apply (in_block_lt (nth i bs (0, 0)) u); [apply nth_In; lia|exact H1].
      - destruct HG as [_ [_ [HL [HR _]]]]. apply (In_nth _ _ (mkPdyn F [] [] [] [] false)) in Hdy. destruct Hdy as [i [Hi E]].
        assert (Hbd : In (nth i bs (0, 0), dy) (combine bs dys)).
        { rewrite <- E. rewrite <- (combine_nth bs dys i (0, 0) (mkPdyn F [] [] [] [] false)) by (symmetry; exact HL).
          apply nth_In. rewrite combine_length. lia. }
        destruct (HR _ dy Hbd) as [_ [_ [_ [_ [_ [Huo _]]]]]].
        destruct (d_unoff F dy) as [|u l] eqn:Eu; [reflexivity|exfalso].
        destruct (proj1 (Huo u) (or_introl eq_refl)) as [H1 H2].
        apply (Hno u); [|exact H2]. apply (colmap_lt _ u H1). }
    exists dys, st, w. simpl. rewrite Hex. split; [reflexivity|]. split; [exact HG|]. split; [exact Hno|]. split; [auto|].
    intros v Hv HU. exfalso. apply (Hno v Hv HU).
  - cbn [par_loop fst]. destruct (existsb (d_active F) dys) eqn:Hex.
    + destruct (par_round_GI false dys st w HG) as [dys' [st' [w' [Hr [HG' [_ [HF' [Hstay [Hprog Hlab]]]]]]]]].
      rewrite Hr.
      destruct (Nat.eq_dec (cntU st) 0) as [Z|Z].
      * (* nobody unassigned: the round changes nothing that matters; recurse with the same bound *)
        destruct (IH dys' st' w' HG' HF') as [d2 [s2 [w2 [E2 [G2 [T2 [S2 Lb2]]]]]]].
        { assert (cntU st' <= cntU st); [|lia]. unfold cntU.
          assert (Hle : forall (p p' : nat -> bool) l, (forall x, p' x = true -> p x = true) ->
                        length (filter p' l) <= length (filter p l)).
          { intros p p' l H. induction l as [|a l IHl]; simpl; [lia|].
            destruct (p' a) eqn:E; [rewrite (H a E); simpl; lia|destruct (p a); simpl; lia]. }
          apply Hle. intros v H. unfold is_U in *. apply label_eqb_eq in H.
          destruct (label_eqb (nth v st LU) LU) eqn:E; [reflexivity|].
          apply label_eqb_neq in E. rewrite (Hstay v E) in H. contradiction. }
        exists d2, s2, w2. split; [exact E2|]. split; [exact G2|]. split; [exact T2|]. split.
        { intros v Hv. rewrite S2; [apply Hstay; exact Hv|rewrite (Hstay v Hv); exact Hv]. }
        { intros v Hv HUv. destruct (Hlab v Hv HUv) as [H|H]; [apply Lb2; assumption|].
          assert (HnU : nth v st' LU <> LU) by (destruct H as [H|H]; rewrite H; discriminate).
          rewrite (S2 v HnU). exact H. }
      * assert (Hex2 : exists v, v < n /\ nth v st LU = LU).
        { unfold cntU in Z. destruct (filter (fun v => is_U (nth v st LU)) (seq 0 n)) as [|v l] eqn:E; [simpl in Z; lia|].
          assert (Hi : In v (filter (fun v => is_U (nth v st LU)) (seq 0 n))) by (rewrite E; left; reflexivity).
          apply filter_In in Hi. destruct Hi as [H1 H2]. apply in_seq in H1. exists v. split; [lia|].
          apply label_eqb_eq. exact H2. }
        pose proof (cntU_decrease st st' Hstay (Hprog Hex2)) as Hdec.
        destruct (IH dys' st' w' HG' HF') as [d2 [s2 [w2 [E2 [G2 [T2 [S2 Lb2]]]]]]]; [lia|].
        exists d2, s2, w2. split; [exact E2|]. split; [exact G2|]. split; [exact T2|]. split.
        { intros v Hv. rewrite S2; [apply Hstay; exact Hv|rewrite (Hstay v Hv); exact Hv]. }
        { intros v Hv HUv. destruct (Hlab v Hv HUv) as [H|H]; [apply Lb2; assumption|].
          assert (HnU : nth v st' LU <> LU) by (destruct H as [H|H]; rewrite H; discriminate).
          rewrite (S2 v HnU). exact H. }
    + assert (Hno : forall v, v < n -> nth v st LU <> LU).
      { intros v Hv HU. destruct HG as [_ [_ [HL [HR _]]]]. destruct (Hcover v Hv) as [b [Hb Hin]].
        destruct (combine_In_l dys b HL Hb) as [dy Hbd]. destruct (HR b dy Hbd) as [_ [_ [_ [Hun [_ [_ [_ Hact]]]]]]].
        assert (Ha : d_active F dy = false).
        { destruct (d_active F dy) eqn:E; [|reflexivity].
          assert (existsb (d_active F) dys = true); [|congruence]. apply existsb_exists. exists dy. split; [|exact E].
          apply in_combine_r in Hbd. exact Hbd. }
        destruct (Hact Ha) as [E1 _]. assert (Hi : In v (d_un F dy)) by (apply Hun; auto). rewrite E1 in Hi. destruct Hi. }
      exists dys, st, w. split; [reflexivity|]. split; [exact HG|]. split; [exact Hno|]. split; [auto|].
      intros v Hv HUv. exfalso. apply (Hno v Hv HUv).
Qed.

(* ----- the state on entry to the loop (pmis_main_loop before the while) ----- *)
Definition keepc (st : list label) (w : list F) (i : nat) : bool := is_U (nth i st LU) && negb (ltb (nth i w zero) one).
Definition stc (st : list label) (w : list F) (i : nat) : label :=
  if is_U (nth i st LU) && ltb (nth i w zero) one then LF else nth i st LU.
Definition wc (st : list label) (w : list F) (i : nat) : F := if keepc st w i then nth i w zero else zero.

Notation cls_step := (cls_step F zero one ltb).

Lemma cls_fold l : forall un st w,
  NoDup l -> (forall i, In i l -> i < length st) -> length st = length w ->
  exists st' w',
    fold_left cls_step l (un, st, w) = (un ++ filter (keepc st w) l, st', w') /\
    length st' = length st /\ length w' = length w /\
    (forall v, ~ In v l -> nth v st' LU = nth v st LU /\ nth v w' zero = nth v w zero) /\
    (forall i, In i l -> nth i st' LU = stc st w i /\ nth i w' zero = wc st w i).
Proof.
  induction l as [|x l IH]; intros un st w ND Hlt HL.
  - exists st, w. simpl. rewrite app_nil_r. repeat split; auto; tauto.
  - inversion ND as [|x' l' Hx Hl]; subst.
    assert (Hxs : x < length st) by (apply Hlt; left; reflexivity). assert (Hxw : x < length w) by lia.
    cbn [fold_left]. unfold SplitPar.cls_step at 2.
    assert (Frame : forall st1 w1, (forall u, u <> x -> nth u st1 LU = nth u st LU /\ nth u w1 zero = nth u w zero) ->
              filter (keepc st1 w1) l = filter (keepc st w) l /\
              forall i, In i l -> stc st1 w1 i = stc st w i /\ wc st1 w1 i = wc st w i).
    { intros st1 w1 H. split.
      - apply filter_ext_in. intros u Hu. unfold keepc. destruct (H u) as [A B]; [intros ->; contradiction|]. rewrite A, B. reflexivity.
      - intros i Hi. unfold stc, wc, keepc. destruct (H i) as [A B]; [intros ->; contradiction|]. rewrite A, B. auto. }
    destruct (is_U (nth x st LU) && ltb (nth x w zero) one) eqn:E1; [|destruct (is_U (nth x st LU)) eqn:E2].
    + destruct (IH un (upd st x LF) (upd w x zero) Hl) as [st' [w' [Hf [L1 [L2 [Fr Pr]]]]]].
      { intros i Hi. rewrite upd_length. apply Hlt. right; exact Hi. } { rewrite !upd_length. exact HL. }
      destruct (Frame (upd st x LF) (upd w x zero)) as [FF FP].
      { intros u Hu. rewrite !nth_upd_other by auto. auto. }
      exists st', w'. rewrite Hf. rewrite upd_length in L1. rewrite upd_length in L2.
      assert (Hk : keepc st w x = false).
      { unfold keepc. apply andb_true_iff in E1. destruct E1 as [A B]. rewrite A, B. reflexivity. }
      split; [cbn [filter]; rewrite Hk, FF; reflexivity|]. split; [exact L1|]. split; [exact L2|]. split.
      * intros v Hv. destruct (Fr v) as [A B]; [intros H; apply Hv; right; exact H|].
        rewrite A, B, !nth_upd_other by (intros ->; apply Hv; left; reflexivity). auto.
      * intros i [Ei|Hi].
        { subst i. destruct (Fr x Hx) as [A B]. rewrite A, B, !nth_upd_same by assumption.
          unfold stc, wc. rewrite E1, Hk. auto. }
        { destruct (Pr i Hi) as [A B]. destruct (FP i Hi) as [C D]. rewrite A, B, C, D. auto. }
    + destruct (IH (un ++ [x]) st w Hl) as [st' [w' [Hf [L1 [L2 [Fr Pr]]]]]].
      { intros i Hi. apply Hlt. right; exact Hi. } { exact HL. }
      exists st', w'. rewrite Hf.
      assert (Hk : keepc st w x = true).
      { unfold keepc. rewrite E2. simpl in E1. rewrite E1. reflexivity. }
      split; [cbn [filter]; rewrite Hk, <- app_assoc; reflexivity|]. split; [exact L1|]. split; [exact L2|]. split.
      * intros v Hv. apply Fr. intros H; apply Hv; right; exact H.
      * intros i [Ei|Hi]; [|apply Pr; exact Hi]. subst i. destruct (Fr x Hx) as [A B]. rewrite A, B.
        unfold stc, wc. rewrite E2, E1, Hk. auto.
    + destruct (IH un st (upd w x zero) Hl) as [st' [w' [Hf [L1 [L2 [Fr Pr]]]]]].
      { intros i Hi. apply Hlt. right; exact Hi. } { rewrite upd_length. exact HL. }
      destruct (Frame st (upd w x zero)) as [FF FP].
      { intros u Hu. rewrite !nth_upd_other by auto. auto. }
      exists st', w'. rewrite Hf. rewrite upd_length in L2.
      assert (Hk : keepc st w x = false) by (unfold keepc; rewrite E2; reflexivity).
      split; [cbn [filter]; rewrite Hk, FF; reflexivity|]. split; [exact L1|]. split; [exact L2|]. split.
      * intros v Hv. destruct (Fr v) as [A B]; [intros H; apply Hv; right; exact H|].
        rewrite A, B, !nth_upd_other by (intros ->; apply Hv; left; reflexivity). auto.
      * intros i [Ei|Hi].
        { subst i. destruct (Fr x Hx) as [A B]. rewrite A, B, nth_upd_same by assumption.
          unfold stc, wc. rewrite E2, Hk. auto. }
        { destruct (Pr i Hi) as [A B]. destruct (FP i Hi) as [C D]. rewrite A, B, C, D. auto. }
Qed.

Notation cls_rank := (cls_rank F zero one ltb).

Lemma cls_ranks bl : forall lo accu st w,
  chain lo bl -> (forall b, In b bl -> fst b + snd b <= length st) -> length st = length w ->
  exists st' w',
    fold_left cls_rank bl (accu, st, w) =
      (accu ++ map (fun b => filter (keepc st w) (seq (fst b) (snd b))) bl, st', w') /\
    length st' = length st /\ length w' = length w /\
    (forall v, (exists b, In b bl /\ in_block b v = true) -> nth v st' LU = stc st w v /\ nth v w' zero = wc st w v) /\
    (forall v, ~ (exists b, In b bl /\ in_block b v = true) -> nth v st' LU = nth v st LU /\ nth v w' zero = nth v w zero).
Proof.
  induction bl as [|b bl IH]; intros lo accu st w Hch Hr HL.
  - exists st, w. simpl. rewrite app_nil_r. split; [reflexivity|]. split; [reflexivity|]. split; [reflexivity|].
    split; [intros v [b [[] _]]|auto].
  - destruct Hch as [Elo Hch]. cbn [fold_left]. unfold SplitPar.cls_rank at 2.
    destruct (cls_fold (seq (fst b) (snd b)) [] st w (seq_NoDup _ _)) as [st1 [w1 [Hf [L1 [L2 [Fr Pr]]]]]].
    { intros i Hi. apply in_seq in Hi. specialize (Hr b (or_introl eq_refl)). lia. } { exact HL. }
    rewrite Hf. cbn [app].
    assert (Hlater : forall b' v, In b' bl -> in_block b' v = true -> ~ In v (seq (fst b) (snd b))).
    { intros b' v Hb' Hv Hin. apply in_seq in Hin. pose proof (chain_later _ bl b' v Hch Hb' Hv). lia. }
    destruct (IH (lo + snd b) (accu ++ [filter (keepc st w) (seq (fst b) (snd b))]) st1 w1 Hch) as [st' [w' [Hf2 [L3 [L4 [P Q]]]]]].
    { intros b' Hb'. rewrite L1. apply Hr. right; exact Hb'. } { congruence. }
    assert (Same : forall b' i, In b' bl -> In i (seq (fst b') (snd b')) ->
               nth i st1 LU = nth i st LU /\ nth i w1 zero = nth i w zero).
    { intros b' i Hb' Hi. apply Fr. apply (Hlater b' i Hb'). apply in_block_seq. exact Hi. }
    exists st', w'. rewrite Hf2, <- app_assoc. split.
    + cbn [map app]. do 4 f_equal. apply map_ext_in. intros b' Hb'. apply filter_ext_in. intros i Hi.
      unfold keepc. destruct (Same b' i Hb' Hi) as [A B]. rewrite A, B. reflexivity.
    + split; [congruence|]. split; [congruence|]. split.
      * intros v [b' [[E|Hb'] Hv]].
        { subst b'. destruct (Q v) as [A B].
          { intros [b2 [H2 H3]]. apply (Hlater b2 v H2 H3). apply in_block_seq. exact Hv. }
          rewrite A, B. apply Pr. apply in_block_seq. exact Hv. }
        { destruct (P v) as [A B]; [exists b'; auto|]. rewrite A, B.
          destruct (Same b' v Hb' (proj1 (in_block_seq b' v) Hv)) as [C D]. unfold stc, wc, keepc. rewrite C, D. auto. }
      * intros v Hn. destruct (Q v) as [A B].
        { intros [b2 [H2 H3]]. apply Hn. exists b2. split; [right; exact H2|exact H3]. }
        destruct (Fr v) as [C D].
        { intros Hin. apply Hn. exists b. split; [left; reflexivity|apply in_block_seq; exact Hin]. }
        split; congruence.
Qed.

Lemma set_fold_nth {A} (f : nat -> A) cm : forall (v0 : list A) g d,
  nth g (fold_left (fun v g => upd v g (f g)) cm v0) d =
  if existsb (Nat.eqb g) cm && (g <? length v0) then f g else nth g v0 d.
Proof.
  induction cm as [|c cm IH]; intros v0 g d; simpl; [reflexivity|].
  rewrite IH, upd_length, nth_upd. destruct (Nat.eqb_spec g c) as [E|E].
  - subst g. rewrite Nat.eqb_refl. simpl. destruct (c <? length v0); [|rewrite andb_false_r; reflexivity].
    rewrite andb_true_r. destruct (existsb (Nat.eqb c) cm); reflexivity.
  - simpl. destruct (Nat.eqb_spec c g); [congruence|]. reflexivity.
Qed.
Lemma set_fold_length {A} (f : nat -> A) cm : forall (v0 : list A),
  length (fold_left (fun v g => upd v g (f g)) cm v0) = length v0.
Proof. induction cm as [|c cm IH]; intros v0; simpl; [reflexivity|]. rewrite IH. apply upd_length. Qed.

Lemma combine_map_self {A B} (f : A -> B) l : combine l (map f l) = map (fun a => (a, f a)) l.
Proof. induction l as [|a l IH]; simpl; [reflexivity|]. rewrite IH. reflexivity. Qed.

Lemma initial_weights_length keys : length (initial_weights F zero one add R CL bs keys) = length keys.
Proof.
  unfold initial_weights.
  apply (fold_left_inv (fun w => length w = length keys)).
  - apply (fold_left_inv (fun w => length w = length keys)); [reflexivity|].
    intros w b _ Hw. apply (fold_left_inv (fun w => length w = length keys)); [exact Hw|].
    intros w1 u _ Hw1. apply (fold_left_inv (fun w => length w = length keys)); [exact Hw1|].
    intros w2 idx _ Hw2. rewrite upd_length. exact Hw2.
  - intros w b _ Hw. apply (fold_left_inv (fun w => length w = length keys)); [exact Hw|].
    intros w1 g _ Hw1. rewrite upd_length. exact Hw1.
Qed.

Lemma relX_upd X st v : nth v st LU = LU -> relX X st (upd st v X).
Proof.
  intros H. split; [apply upd_length|]. intros u. rewrite nth_upd.
  destruct ((v =? u) && (v <? length st)) eqn:E; [|auto].
  apply andb_true_iff in E. destruct E as [E _]. apply Nat.eqb_eq in E. subst u. auto.
Qed.

Lemma premark_rel st0 : relX LF st0 (premark CL bs st0).
Proof.
  unfold premark. apply (fold_left_inv (fun s => relX LF st0 s)); [apply relX_refl|].
  intros s b _ Hs. apply (fold_left_inv (fun s => relX LF st0 s)); [exact Hs|].
  intros s1 i _ Hs1. destruct (label_eqb (nth i s1 LU) LC); [|exact Hs1].
  apply (fold_left_inv (fun s => relX LF st0 s)); [exact Hs1|].
  intros s2 row _ Hs2. destruct (is_U (nth row s2 LU)) eqn:E; [|exact Hs2].
  eapply relX_trans; [discriminate|exact Hs2|]. apply relX_upd. apply label_eqb_eq. exact E.
Qed.

Lemma start_GI st0 keys :
  length st0 = n -> length keys = n ->
  (forall v, v < n -> nth v st0 LU = LU \/ nth v st0 LU = LC \/ nth v st0 LU = LF \/ nth v st0 LU = LN) ->
  exists dys st2 w2,
    par_pmis_start F zero one add ltb R CL bs st0 keys = (dys, st2, w2) /\ GI dys st2 w2 /\
    (forall v, nth v st0 LU <> LU -> nth v st2 LU = nth v st0 LU) /\
    (forall v, v < n -> nth v st0 LU = LU -> nth v st2 LU = LU \/ nth v st2 LU = LF).
Proof.
  intros L0 Lk HT0. unfold par_pmis_start.
  set (w0 := initial_weights F zero one add R CL bs keys).
  assert (LW0 : length w0 = n) by (unfold w0; rewrite initial_weights_length; exact Lk).
  set (st1 := premark CL bs st0). pose proof (premark_rel st0) as [L1 V1]. fold st1 in L1, V1.
  destruct (cls_ranks bs 0 [] st1 w0 Hchain) as [st2 [w2 [Hf [L2 [LW2 [P Q]]]]]].
  { intros b Hb. rewrite L1, L0. apply Hrange. exact Hb. } { congruence. }
  rewrite Hf. cbn [app].
  set (fu := fun b => filter (keepc st1 w0) (seq (fst b) (snd b))).
  set (G := fun b => start_dyn F zero R st2 w2 (b, fu b)).
  assert (Edys : map (start_dyn F zero R st2 w2) (combine bs (map fu bs)) = map G bs).
  { rewrite combine_map_self, map_map. reflexivity. }
  exists (map G bs), st2, w2. split; [rewrite Edys; reflexivity|].
  assert (Pv : forall v, v < n -> nth v st2 LU = stc st1 w0 v /\ nth v w2 zero = wc st1 w0 v).
  { intros v Hv. apply P. apply Hcover. exact Hv. }
  assert (T1 : forall v, v < n -> nth v st1 LU = LU \/ nth v st1 LU = LC \/ nth v st1 LU = LF \/ nth v st1 LU = LN).
  { intros v Hv. destruct (V1 v) as [H|[_ H]]; [rewrite H; apply HT0; exact Hv|auto]. }
  assert (KU : forall v, v < n -> (nth v st2 LU = LU <-> keepc st1 w0 v = true)).
  { intros v Hv. rewrite (proj1 (Pv v Hv)). unfold stc, keepc, is_U.
    destruct (label_eqb (nth v st1 LU) LU) eqn:E; cbn [andb].
    - apply label_eqb_eq in E. destruct (ltb (nth v w0 zero) one); cbn [negb]; [split; discriminate|rewrite E; tauto].
    - apply label_eqb_neq in E. split; [contradiction|discriminate]. }
  split; [|split].
  - unfold GI. split; [congruence|]. split; [congruence|]. split; [apply map_length|]. split; [|split; [|split]].
    + intros b dy Hbd. rewrite combine_map_self in Hbd. apply in_map_iff in Hbd. destruct Hbd as [b' [E Hb]].
      inversion E; subst b' dy. clear E. unfold G, start_dyn. cbn [fst snd].
      set (view := fold_left (fun v g => upd v g (nth g st2 LU)) (colmap b) (repeat LU n)).
      set (offw := fold_left (fun v g => upd v g (nth g w2 zero)) (colmap b) (repeat zero n)).
      assert (Lview : length view = n) by (unfold view; rewrite set_fold_length; apply repeat_length).
      assert (Loffw : length offw = n) by (unfold offw; rewrite set_fold_length; apply repeat_length).
      assert (Hview : forall g, In g (colmap b) -> nth g view LU = nth g st2 LU).
      { intros g Hg. unfold view. rewrite set_fold_nth, repeat_length.
        assert (E1 : existsb (Nat.eqb g) (colmap b) = true) by (apply existsb_exists; exists g; split; [exact Hg|apply Nat.eqb_refl]).
        assert (E2 : g <? n = true) by (apply Nat.ltb_lt; apply (colmap_lt b); exact Hg). rewrite E1, E2. reflexivity. }
      assert (Hoffw : forall g, In g (colmap b) -> nth g offw zero = nth g w2 zero).
      { intros g Hg. unfold offw. rewrite set_fold_nth, repeat_length.
        assert (E1 : existsb (Nat.eqb g) (colmap b) = true) by (apply existsb_exists; exists g; split; [exact Hg|apply Nat.eqb_refl]).
        assert (E2 : g <? n = true) by (apply Nat.ltb_lt; apply (colmap_lt b); exact Hg). rewrite E1, E2. reflexivity. }
      unfold RI. cbn [d_view d_offw d_un d_unoff d_active]. split; [exact Lview|]. split; [exact Loffw|].
      split; [unfold fu; apply NoDup_filter, seq_NoDup|]. split.
      { intros v. unfold fu. rewrite filter_In, <- in_block_seq. split.
        - intros [H1 H2]. split; [exact H1|]. apply KU; [apply (in_block_lt b v Hb H1)|exact H2].
        - intros [H1 H2]. split; [exact H1|]. apply KU; [apply (in_block_lt b v Hb H1)|exact H2]. }
      split; [apply NoDup_filter, colmap_NoDup|]. split.
      { intros g. rewrite filter_In. unfold is_U. split.
        - intros [H1 H2]. split; [exact H1|]. rewrite <- (Hview g H1). apply label_eqb_eq. exact H2.
        - intros [H1 H2]. split; [exact H1|]. rewrite (Hview g H1), H2. reflexivity. }
      split; [|discriminate]. intros g Hg. split; [apply Hview|apply Hoffw]; exact Hg.
    + intros v Hv. rewrite (proj1 (Pv v Hv)). unfold stc. destruct (is_U (nth v st1 LU) && ltb (nth v w0 zero) one); [auto|apply T1; exact Hv].
    + intros v Hv HnU. rewrite (proj2 (Pv v Hv)). unfold wc.
      destruct (keepc st1 w0 v) eqn:E; [|exact lt01]. exfalso. apply HnU. apply KU; assumption.
    + intros u Hu HUu. apply KU in HUu; [|exact Hu]. rewrite (proj2 (Pv u Hu)). unfold wc. rewrite HUu.
      unfold keepc in HUu. apply andb_true_iff in HUu. destruct HUu as [_ H]. apply negb_true_iff in H. exact H.
  - intros v Hv.
    assert (E1 : nth v st1 LU = nth v st0 LU) by (destruct (V1 v) as [H|[H _]]; [exact H|contradiction]).
    destruct (Nat.lt_ge_cases v n) as [Hlt|Hge].
    + rewrite (proj1 (Pv v Hlt)). unfold stc, is_U. rewrite E1.
      assert (E2 : label_eqb (nth v st0 LU) LU = false) by (apply label_eqb_neq; exact Hv). rewrite E2. reflexivity.
    + rewrite !nth_overflow in * by lia. congruence.
  - intros v Hv HUv. rewrite (proj1 (Pv v Hv)). unfold stc.
    destruct (is_U (nth v st1 LU) && ltb (nth v w0 zero) one); [auto|].
    destruct (V1 v) as [H|[_ H]]; [left; congruence|auto].
Qed.

Lemma map_combine_ext {A B C} (f : A * B -> C) (g : A -> C) (l : list A) : forall (dys : list B),
  length dys = length l -> (forall a d, In (a, d) (combine l dys) -> f (a, d) = g a) ->
  map f (combine l dys) = map g l.
Proof.
  induction l as [|a l IH]; intros [|d dys] HL H; simpl in *; try reflexivity; try discriminate.
  f_equal; [apply H; left; reflexivity|]. apply IH; [lia|]. intros a' d' Hin. apply H. right; exact Hin.
Qed.

(* Distributed PMIS on ANY contiguous partition: no exchange ever disagrees, the loop ends within n further
   passes on every rank, every point that entered unassigned is coarse or fine, every other point keeps its
   label, and every rank's final view of its off-process columns equals the owners' labels. *)
Theorem par_pmis_agreement st0 keys :
  length st0 = n -> length keys = n ->
  (forall v, v < n -> nth v st0 LU = LU \/ nth v st0 LU = LC \/ nth v st0 LU = LF \/ nth v st0 LU = LN) ->
  exists st,
    par_pmis_main F zero one add ltb R CL n bs st0 keys =
      Some (map (fun b => map (fun g => nth g st LU) (colmap b)) bs, st) /\
    length st = n /\
    (forall v, v < n -> nth v st0 LU = LU -> nth v st LU = LC \/ nth v st LU = LF) /\
    (forall v, nth v st0 LU <> LU -> nth v st LU = nth v st0 LU).
Proof.
  intros L0 Lk HT0.
  destruct (start_GI st0 keys L0 Lk HT0) as [dys [st2 [w2 [Es [HG [S0 Lb0]]]]]].
  destruct (par_round_GI true dys st2 w2 HG) as [dys1 [st3 [w3 [Er [HG1 [_ [HF1 [S1 [_ Lb1]]]]]]]]].
  destruct (par_loop_total n dys1 st3 w3 HG1 HF1) as [dys2 [st4 [w4 [El [HG2 [T2 [S2 Lb2]]]]]]].
  { unfold cntU. pose proof (filter_length_le (fun v => is_U (nth v st3 LU)) (seq 0 n)) as H. rewrite seq_length in H. exact H. }
  exists st4. unfold par_pmis_main. rewrite Es, Er, El.
  destruct HG2 as [L4 [_ [HL4 [HR4 _]]]]. split; [|split; [exact L4|split]].
  - f_equal. f_equal. apply map_combine_ext; [exact HL4|]. intros b dy Hbd. cbn [fst snd].
    destruct (HR4 b dy Hbd) as [_ [_ [_ [_ [_ [_ [Hacc _]]]]]]].
    apply map_ext_in. intros g Hg. apply Hacc. exact Hg.
  - intros v Hv HU0. destruct (Lb0 v Hv HU0) as [H2|H2].
    + destruct (Lb1 v Hv H2) as [H3|H3].
      * apply Lb2; assumption.
      * assert (HnU : nth v st3 LU <> LU) by (destruct H3 as [H3|H3]; rewrite H3; discriminate).
        rewrite (S2 v HnU). exact H3.
    + assert (HnU2 : nth v st2 LU <> LU) by (rewrite H2; discriminate).
      assert (E3 : nth v st3 LU = LF) by (rewrite (S1 v HnU2); exact H2).
      assert (HnU3 : nth v st3 LU <> LU) by (rewrite E3; discriminate).
      rewrite (S2 v HnU3). auto.
  - intros v Hv. assert (E2 : nth v st2 LU = nth v st0 LU) by (apply S0; exact Hv).
    assert (HnU2 : nth v st2 LU <> LU) by congruence.
    assert (E3 : nth v st3 LU = nth v st2 LU) by (apply S1; exact HnU2).
    assert (HnU3 : nth v st3 LU <> LU) by congruence.
    rewrite (S2 v HnU3). congruence.
Qed.
End Agreement.

(* ---------- the entry point on a strength pattern ---------- *)
Lemma initial_states_props S bs :
  length (initial_states S bs) = length S /\
  forall v, v < length S -> nth v (initial_states S bs) LU = LU \/ nth v (initial_states S bs) LU = LN.
Proof.
  unfold initial_states. split; [rewrite map_length, indexed_length; reflexivity|].
  intros v Hv. rewrite (nth_map_indexed _ S v LU []) by exact Hv.
  destruct ((1 <? _) || (0 <? _)); auto.
Qed.

Section EntryPar.
Variable F : Type.
Variables (zero one : F) (add : F -> F -> F).
Variable ltb : F -> F -> bool.
Hypothesis ltb_trans : forall a b c, ltb a b = true -> ltb b c = true -> ltb a c = true.
Hypothesis ltb_irrefl : forall a, ltb a a = false.
Hypothesis lt01 : ltb zero one = true.

Theorem par_split_pmis_agreement (S : graph) (part : list nat) (keys : list F) :
  graph_wfb S = true -> list_sum part = length S -> length keys = length S ->
  let bs := block_starts 0 part in
  let st0 := initial_states S bs in
  exists st,
    par_split_pmis zero one add ltb S part keys (length S) =
      Some (map (fun b => map (fun g => nth g st LU) (colmap (off_rows S) b)) bs, st) /\
    length st = length S /\
    forall v, v < length S ->
      (nth v st0 LU = LU /\ (nth v st LU = LC \/ nth v st LU = LF)) \/ (nth v st0 LU = LN /\ nth v st LU = LN).
Proof.
  intros Hwf Hsum Hk bs st0. unfold par_split_pmis. fold bs. fold st0.
  set (R := off_rows S). assert (LR : length R = length S) by apply off_rows_length.
  destruct (initial_states_props S bs) as [L0 T0]. fold st0 in L0, T0.
  destruct (par_pmis_agreement F zero one add ltb ltb_trans ltb_irrefl lt01 R (col_lists R)
              (off_rows_wf S Hwf) bs (chain_block_starts part 0)) with (st0 := st0) (keys := keys)
    as [st [E [L [A B]]]].
  - intros v Hv. apply block_starts_cover. simpl. rewrite Hsum, <- LR. lia.
  - intros b Hb. pose proof (block_starts_range part 0 b Hb). rewrite LR. simpl in *. lia.
  - congruence.
  - congruence.
  - intros v Hv. rewrite LR in Hv. destruct (T0 v Hv) as [H|H]; auto.
  - exists st. rewrite LR in *. split; [exact E|]. split; [exact L|]. intros v Hv.
    destruct (T0 v Hv) as [H|H].
    + left. split; [exact H|]. apply A; assumption.
    + right. split; [exact H|]. rewrite B; [exact H|]. rewrite H. discriminate.
Qed.
End EntryPar.
