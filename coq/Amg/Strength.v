(* Executable model of raptor/strength.cpp (classical_strength, symmetric_strength, CSRMatrix::strength)
   and raptor/par_strength.cpp (the ParCSRMatrix twins).

   A matrix is the list of its rows, a row the list of its (column, value) pairs in storage order.
   Both routines first call A->sort() and A->move_diag() themselves (strength.cpp tests the flags
   `sorted`/`diag_first`, par_strength.cpp calls A->sort(); A->on_proc->move_diag() unconditionally):
   `prep_row` is exactly that preamble.  The ordered field is abstract: `ltb a b` is  a < b,
   `big`/`nbig` are the sentinels RAND_MAX / -RAND_MAX the loops start from.

   The distributed routine is a function of the GLOBAL matrix and the partition (list of contiguous
   block sizes, empty blocks allowed): `mk_rank` builds what a rank holds (on_proc rows with local column
   indices, off_proc rows with indices into the sorted duplicate-free off_proc_column_map), the rank
   kernels work on that local data plus the halo arrays (`variables`, `neg_diags`, `row_scales` of the
   owners of the off-process columns, obtained by comm->communicate = the value the owner holds, C03),
   and `gather_row` maps the result back to global columns like the driver does through
   local_row_map / on_proc_column_map / off_proc_column_map. *)
From Raptor Require Import Base.Sums Sparse.Defs.

Section Strength.
Variable F : Type.
Variable zero : F.
Variable mul : F -> F -> F.
Variable ltb : F -> F -> bool.          (* ltb a b  <->  a < b *)
Variables big nbig : F.                 (* RAND_MAX and -RAND_MAX *)

Definition row := list (nat * F).

(* A->sort(); A->move_diag(); *)
Definition prep_row (i : nat) (r : row) : row := move_diag_line i (sort_line r).

(* if (A->idx2[start] == i) { diag = A->vals[start]; start++; } else diag = 0.0;
   result: (diagonal stored first?, diag, the entries from `start` on) *)
Definition split_diag (i : nat) (r : row) : bool * F * row :=
  match r with
  | p :: r' => if fst p =? i then (true, snd p, r') else (false, zero, r)
  | [] => (false, zero, [])
  end.

(* one step of the row_scale loops:  neg:  if (val > row_scale) row_scale = val
                                     else: if (val < row_scale) row_scale = val *)
Definition fstep (neg : bool) (acc v : F) : F :=
  if neg then (if ltb acc v then v else acc) else (if ltb v acc then v else acc).
Definition sentinel (neg : bool) : F := if neg then nbig else big.
Definition extreme_from (neg : bool) (init : F) (l : list F) : F := fold_left (fstep neg) l init.
(* values of the entries that pass the `variables[i] == variables[col]` filter *)
Definition kept_vals (keep : nat -> bool) (r : row) : list F :=
  map snd (filter (fun p => keep (fst p)) r).
(* neg: val > threshold        else: val < threshold      (strict, as written) *)
Definition passes (neg : bool) (thr v : F) : bool := if neg then ltb thr v else ltb v thr.
(* num_variables == 1  ||  variables[i] == variables[col] *)
Definition same_var (nv : nat) (vi : nat) (vars : list nat) (c : nat) : bool :=
  (nv =? 1) || (vi =? nth c vars 0).

(* ---------------- sequential: classical_strength ---------------- *)
Definition classical_row (theta : F) (nv : nat) (vars : list nat) (i : nat) (r : row) : row :=
  let r' := prep_row i r in
  match r' with
  | [] => []
  | _ :: _ =>
    let '(has, d, rest) := split_diag i r' in
    let neg := ltb d zero in
    let keep := same_var nv (nth i vars 0) vars in
    let thr := mul (extreme_from neg (sentinel neg) (kept_vals keep rest)) theta in
    (if has then [(i, d)] else []) ++
    filter (fun p => keep (fst p) && passes neg thr (snd p)) rest
  end.

Definition classical_strength (theta : F) (nv : nat) (vars : list nat) (rows : list row) : list row :=
  map (fun ir => classical_row theta nv vars (fst ir) (snd ir)) (indexed rows).

(* ---------------- sequential: symmetric_strength ---------------- *)
(* first loop: neg_diags[i], row_scales[i] (both value-initialised to 0 for rows without entries) *)
Definition sym_info (theta : F) (i : nat) (r : row) : bool * F :=
  let r' := prep_row i r in
  match r' with
  | [] => (false, zero)
  | _ :: _ =>
    let '(has, d, rest) := split_diag i r' in
    let neg := ltb d zero in
    (neg, mul (extreme_from neg (sentinel neg) (map snd rest)) theta)
  end.

Definition info_default : bool * F := (false, zero).
(* (neg_diag && val > threshold) || (!neg_diag && val < threshold)
   || (neg_diags[col] && val > row_scales[col]) || (!neg_diags[col] && val < row_scales[col]) *)
Definition sym_pass (me other : bool * F) (v : F) : bool :=
  passes (fst me) (snd me) v || passes (fst other) (snd other) v.

Definition symmetric_row (infos : list (bool * F)) (i : nat) (r : row) : row :=
  let r' := prep_row i r in
  match r' with
  | [] => []
  | _ :: _ =>
    let '(has, d, rest) := split_diag i r' in
    let me := nth i infos info_default in
    (if has then [(i, d)] else []) ++
    filter (fun p => sym_pass me (nth (fst p) infos info_default) (snd p)) rest
  end.

Definition sym_infos (theta : F) (rows : list row) : list (bool * F) :=
  map (fun ir => sym_info theta (fst ir) (snd ir)) (indexed rows).
Definition symmetric_strength (theta : F) (rows : list row) : list row :=
  let infos := sym_infos theta rows in
  map (fun ir => symmetric_row infos (fst ir) (snd ir)) (indexed rows).

(* CSRMatrix::strength: Classical -> classical, Symmetric and default -> symmetric *)
Definition strength_seq (symmetric : bool) (theta : F) (nv : nat) (vars : list nat) (rows : list row) :=
  if symmetric then symmetric_strength theta rows else classical_strength theta nv vars rows.

(* ---------------- distributed layout ---------------- *)
Record rank_in := mkRank {
  rk_lo : nat;                (* partition->first_local_row = first_local_col *)
  rk_n : nat;                 (* local_num_rows = on_proc_num_cols *)
  rk_on : list row;           (* on_proc,  column = global column - rk_lo *)
  rk_off : list row;          (* off_proc, column = index into rk_colmap *)
  rk_colmap : list nat }.     (* off_proc_column_map: sorted, duplicate free *)

Definition in_range (lo n c : nat) : bool := (lo <=? c) && (c <? lo + n).
Fixpoint index_of (c : nat) (l : list nat) : nat :=
  match l with [] => 0 | x :: l' => if x =? c then 0 else S (index_of c l') end.
Fixpoint insert_u (x : nat) (l : list nat) : list nat :=
  match l with
  | [] => [x]
  | y :: l' => if x <? y then x :: l else if x =? y then l else y :: insert_u x l'
  end.
Definition sort_uniq (l : list nat) : list nat := fold_right insert_u [] l.

Definition on_part (lo n : nat) (r : row) : row := filter (fun p => in_range lo n (fst p)) r.
Definition off_part (lo n : nat) (r : row) : row := filter (fun p => negb (in_range lo n (fst p))) r.

Definition mk_rank (lo n : nat) (blk : list row) : rank_in :=
  let cm := sort_uniq (flat_map (fun r => map fst (off_part lo n r)) blk) in
  mkRank lo n
    (map (fun r => map (fun p => (fst p - lo, snd p)) (on_part lo n r)) blk)
    (map (fun r => map (fun p => (index_of (fst p) cm, snd p)) (off_part lo n r)) blk)
    cm.

Fixpoint distribute (lo : nat) (part : list nat) (rows : list row) : list rank_in :=
  match part with
  | [] => []
  | n :: part' => mk_rank lo n (firstn n rows) :: distribute (lo + n) part' (skipn n rows)
  end.

(* what the driver prints: global triples through local_row_map / on_proc_column_map / off_proc_column_map *)
Definition gather_row (lo : nat) (cm : list nat) (o : row * row) : row :=
  map (fun p => (fst p + lo, snd p)) (fst o) ++ map (fun p => (nth (fst p) cm 0, snd p)) (snd o).

(* ---------------- distributed: classical_strength ---------------- *)
Definition par_classical_row (theta : F) (nv : nat) (vars_loc off_vars : list nat)
           (il : nat) (ron roff : row) : row * row :=
  let ron' := prep_row il ron in
  let roff' := sort_line roff in
  match ron', roff' with
  | [], [] => ([], [])
  | _, _ =>
    (* on an empty on_proc row the code reads the next row's first column; modelled as "no diagonal" *)
    let '(has, d, rest) := split_diag il ron' in
    let neg := ltb d zero in
    let keep_on := same_var nv (nth il vars_loc 0) vars_loc in
    let keep_off := same_var nv (nth il vars_loc 0) off_vars in
    let sc := extreme_from neg (extreme_from neg (sentinel neg) (kept_vals keep_on rest))
                           (kept_vals keep_off roff') in
    let thr := mul sc theta in
    (* "Always add diagonal": (i, diag) even when diag = 0.0 was not stored *)
    ((il, d) :: filter (fun p => keep_on (fst p) && passes neg thr (snd p)) rest,
     filter (fun p => keep_off (fst p) && passes neg thr (snd p)) roff')
  end.

Definition par_classical_rank (theta : F) (nv : nat) (vars : list nat) (rk : rank_in) : list row :=
  let vars_loc := firstn (rk_n rk) (skipn (rk_lo rk) vars) in               (* this rank's slice *)
  let off_vars := map (fun g => nth g vars 0) (rk_colmap rk) in               (* comm->communicate(variables) *)
  map (fun t => gather_row (rk_lo rk) (rk_colmap rk)
                  (par_classical_row theta nv vars_loc off_vars (fst t) (fst (snd t)) (snd (snd t))))
      (indexed (combine (rk_on rk) (rk_off rk))).

Definition par_classical_strength (theta : F) (nv : nat) (vars : list nat) (part : list nat)
           (rows : list row) : list row :=
  flat_map (par_classical_rank theta nv vars) (distribute 0 part rows).

(* ---------------- distributed: symmetric_strength ---------------- *)
Definition par_sym_info (theta : F) (il : nat) (ron roff : row) : bool * F :=
  let ron' := prep_row il ron in
  let roff' := sort_line roff in
  match ron', roff' with
  | [], [] => (false, zero)
  | _, _ =>
    let '(has, d, rest) := split_diag il ron' in
    let neg := ltb d zero in
    (neg, mul (extreme_from neg (extreme_from neg (sentinel neg) (map snd rest)) (map snd roff')) theta)
  end.

Definition par_sym_infos_rank (theta : F) (rk : rank_in) : list (bool * F) :=
  map (fun t => par_sym_info theta (fst t) (fst (snd t)) (snd (snd t)))
      (indexed (combine (rk_on rk) (rk_off rk))).

Definition par_symmetric_row (infos_loc off_infos : list (bool * F)) (il : nat) (ron roff : row)
  : row * row :=
  let ron' := prep_row il ron in
  let roff' := sort_line roff in
  match ron', roff' with
  | [], [] => ([], [])
  | _, _ =>
    let me := nth il infos_loc info_default in
    (* S diag = (i, A->on_proc->vals[row_start_on++]): the first on_proc entry, whatever its column
       (on an empty on_proc row this reads a neighbouring row's value; modelled as 0) *)
    (match ron' with
     | p :: rest => (il, snd p) :: filter (fun q => sym_pass me (nth (fst q) infos_loc info_default) (snd q)) rest
     | [] => [(il, zero)]
     end,
     filter (fun q => sym_pass me (nth (fst q) off_infos info_default) (snd q)) roff')
  end.

Definition par_symmetric_rank (all_infos : list (bool * F)) (infos_loc : list (bool * F)) (rk : rank_in)
  : list row :=
  let off_infos := map (fun g => nth g all_infos info_default) (rk_colmap rk) in   (* two communicate() calls *)
  map (fun t => gather_row (rk_lo rk) (rk_colmap rk)
                  (par_symmetric_row infos_loc off_infos (fst t) (fst (snd t)) (snd (snd t))))
      (indexed (combine (rk_on rk) (rk_off rk))).

Definition par_symmetric_strength (theta : F) (part : list nat) (rows : list row) : list row :=
  let ranks := distribute 0 part rows in
  let infos := map (par_sym_infos_rank theta) ranks in
  let all_infos := concat infos in         (* the value an owner holds for a global row = its slot in the concatenation *)
  flat_map (fun ri => par_symmetric_rank all_infos (snd ri) (fst ri)) (combine ranks infos).

(* ParCSRMatrix::strength *)
Definition strength_par (symmetric : bool) (theta : F) (nv : nat) (vars : list nat) (part : list nat)
           (rows : list row) : list row :=
  if symmetric then par_symmetric_strength theta part rows
  else par_classical_strength theta nv vars part rows.

End Strength.
