(* Executable model of raptor's prolongation smoothing
     raptor/aggregation/prolongation.cpp      jacobi_prolongation (sequential)
     raptor/aggregation/par_prolongation.cpp  jacobi_prolongation (distributed)
   Definitions only; proofs are in ProlongProofs.v.

   Code, as written:
     P = T->copy(); scaled_A = A->copy();
     for each row: row_sum = sum_j fabs(A->vals[j])   (ALL stored entries of the row, the diagonal included,
                                                       each entry counted separately)
                   if (row_sum) inv_sums[row] = (1.0 / fabs(row_sum)) * omega;   (else 0)
                   scaled_A->vals[j] *= inv_sums[row]
     num_smooth_steps times:  AP = scaled_A->mult(P);  P = P->subtract(AP)
   scaled_A->mult is the SpGEMM of util/linalg/matmult.cpp (linked-list accumulator: output columns in reverse
   order of first touch, sums with fabs <= zero_tol not stored); subtract = concatenate rows with the negated
   second operand, sort, remove_duplicates (sums with fabs < zero_tol not stored) -- csr_subtract of Sparse/Defs.v. *)
From Raptor Require Import Base.Sums Sparse.Defs Amg.Candidates.

Section Prolong.
Variable F : Type.
Variables (zero one : F) (add mul sub : F -> F -> F) (opp : F -> F) (div : F -> F -> F).
Variable ltb : F -> F -> bool.
Variable eqb : F -> F -> bool.
Variable small : F -> bool.      (* fabs(v) <  zero_tol : dropped by remove_duplicates *)
Variable small2 : F -> bool.     (* fabs(v) <= zero_tol : not emitted by the SpGEMM *)

Definition absF (x : F) : F := if ltb x zero then opp x else x.

(* ---- SpGEMM: row of C from a row of A and the rows of B ---- *)
(* every product val_A*val_B with its column, in the order the two nested loops visit them *)
Definition contribs (ra : list (nat * F)) (Brows : list (list (nat * F))) : list (nat * F) :=
  flat_map (fun p => map (fun q => (fst q, mul (snd p) (snd q))) (nth (fst p) Brows [])) ra.
(* the linked list: columns in reverse order of first touch *)
Definition touched (cs : list (nat * F)) : list nat := nodup Nat.eq_dec (rev (map fst cs)).
(* sums[col], accumulated left to right from 0 *)
Definition col_sum (cs : list (nat * F)) (c : nat) : F :=
  fold_left (fun acc q => add acc (snd q)) (filter (fun q => fst q =? c) cs) zero.
Definition spgemm_row (ra : list (nat * F)) (Brows : list (list (nat * F))) : list (nat * F) :=
  let cs := contribs ra Brows in
  flat_map (fun c => let s := col_sum cs c in if small2 s then [] else [(c, s)]) (touched cs).
Definition csr_spgemm (A B : csr F) : csr F :=
  mkCsr (csr_nr A) (csr_nc B) (map (fun ra => spgemm_row ra (csr_rows B)) (csr_rows A)).

(* ---- row scaling ---- *)
Definition row_abs_sum (r : list (nat * F)) : F :=
  fold_left (fun acc p => add acc (absF (snd p))) r zero.
Definition inv_sum (omega : F) (r : list (nat * F)) : F :=
  let rs := row_abs_sum r in
  if eqb rs zero then zero else mul (div one (absF rs)) omega.
Definition scale_row (omega : F) (r : list (nat * F)) : list (nat * F) :=
  let s := inv_sum omega r in map (fun p => (fst p, mul (snd p) s)) r.
Definition scale_rows (omega : F) (A : csr F) : csr F :=
  mkCsr (csr_nr A) (csr_nc A) (map (scale_row omega) (csr_rows A)).

(* ---- the smoothing loop ---- *)
Definition jacobi_step (sA P : csr F) : csr F :=
  csr_subtract F add opp small P (csr_spgemm sA P).
Fixpoint jacobi_iter (k : nat) (sA P : csr F) : csr F :=
  match k with O => P | S k' => jacobi_iter k' sA (jacobi_step sA P) end.
Definition jacobi_prolongation (A T : csr F) (omega : F) (k : nat) : csr F :=
  jacobi_iter k (scale_rows omega A) (csr_to_csr T).

(* ---- distributed: each rank owns a contiguous block of rows of A and of P; the rows of P it needs from
   other ranks are fetched (row exchange of ParCSRMatrix::mult, property C06/C03) -- the model hands every
   rank the global rows of P.  The row sums run over the on-process entries then the off-process entries of
   the row, i.e. over all stored entries of the global row.  Local results with global column indices. ---- *)
Definition par_jacobi_step (sizes : list nat) (sA P : csr F) : list (list (list (nat * F))) :=
  map (fun blk =>
         map (fun rp => dedup_line F add small
                          (sort_line (fst rp ++ neg_line F opp (spgemm_row (snd rp) (csr_rows P)))))
             blk)
      (split_by sizes (combine (csr_rows P) (csr_rows sA))).
Definition par_scale_rows (sizes : list nat) (omega : F) (A : csr F) : list (list (list (nat * F))) :=
  map (map (scale_row omega)) (split_by sizes (csr_rows A)).
Definition gather_csr (nr nc : nat) (blocks : list (list (list (nat * F)))) : csr F :=
  mkCsr nr nc (concat blocks).
Fixpoint par_jacobi_iter (sizes : list nat) (k : nat) (sA P : csr F) : csr F :=
  match k with
  | O => P
  | S k' => par_jacobi_iter sizes k' sA (gather_csr (csr_nr P) (csr_nc P) (par_jacobi_step sizes sA P))
  end.
Definition par_jacobi_prolongation (sizes : list nat) (A T : csr F) (omega : F) (k : nat) : csr F :=
  par_jacobi_iter sizes k (gather_csr (csr_nr A) (csr_nc A) (par_scale_rows sizes omega A)) (csr_to_csr T).

End Prolong.
