(* C14: proofs about the strength-of-connection model (Amg/Strength.v). *)
From Raptor Require Import Base.Sums Sparse.Defs Amg.Strength.

(* ---------- generic list facts ---------- *)
Section Generic.
Context {X : Type}.

Lemma insert_by_perm (le : X -> X -> bool) x l : Permutation (insert_by le x l) (x :: l).
Proof.
  induction l as [|y l IH]; simpl; [apply Permutation_refl|].
  destruct (le x y); [apply Permutation_refl|].
  eapply Permutation_trans; [apply perm_skip; exact IH|apply perm_swap].
Qed.

Lemma isort_by_perm (le : X -> X -> bool) l : Permutation (isort_by le l) l.
Proof.
  induction l as [|x l IH]; simpl; [constructor|].
  eapply Permutation_trans; [apply insert_by_perm|apply perm_skip; exact IH].
Qed.

Lemma extract_first_some (p : X -> bool) l d rest :
  extract_first p l = Some (d, rest) -> p d = true /\ Permutation l (d :: rest).
Proof.
  revert d rest; induction l as [|x l IH]; simpl; intros d rest H; [discriminate|].
  destruct (p x) eqn:E.
  - inversion H; subst. split; [exact E|apply Permutation_refl].
  - destruct (extract_first p l) as [[y r]|] eqn:E2; [|discriminate].
    inversion H; subst. destruct (IH _ _ eq_refl) as [H1 H2]. split; [exact H1|].
    eapply Permutation_trans; [apply perm_skip; exact H2|apply perm_swap].
Qed.

Lemma extract_first_none (p : X -> bool) l :
  extract_first p l = None -> forall x, In x l -> p x = false.
Proof.
  induction l as [|x l IH]; simpl; intros H y Hy; [contradiction|].
  destruct (p x) eqn:E; [discriminate|].
  destruct (extract_first p l) as [[z r]|] eqn:E2; [discriminate|].
  destruct Hy as [<-|Hy]; [exact E|apply IH; [reflexivity|exact Hy]].
Qed.

Lemma Permutation_filter (p : X -> bool) l1 l2 :
  Permutation l1 l2 -> Permutation (filter p l1) (filter p l2).
Proof.
  induction 1 as [|x l1 l2 H IH|x y l|l1 l2 l3 H1 IH1 H2 IH2]; simpl.
  - constructor.
  - destruct (p x); [constructor|]; assumption.
  - destruct (p x); destruct (p y); try apply Permutation_refl. apply perm_swap.
  - eapply Permutation_trans; eassumption.
Qed.

Lemma filter_all (p : X -> bool) l : (forall x, In x l -> p x = true) -> filter p l = l.
Proof.
  induction l as [|x l IH]; simpl; intros H; [reflexivity|].
  rewrite (H x) by (left; reflexivity). f_equal. apply IH. intros; apply H; right; assumption.
Qed.

Lemma filter_nothing (p : X -> bool) l : (forall x, In x l -> p x = false) -> filter p l = [].
Proof.
  induction l as [|x l IH]; simpl; intros H; [reflexivity|].
  rewrite (H x) by (left; reflexivity). apply IH. intros; apply H; right; assumption.
Qed.

Lemma filter_split_perm (p : X -> bool) l :
  Permutation (filter p l ++ filter (fun x => negb (p x)) l) l.
Proof.
  induction l as [|x l IH]; simpl; [constructor|].
  destruct (p x); simpl.
  - apply perm_skip. exact IH.
  - eapply Permutation_trans; [apply Permutation_sym; apply Permutation_middle|]. apply perm_skip. exact IH.
Qed.

End Generic.

Section RowFacts.
Variable F : Type.
Notation row := (list (nat * F)).

Lemma sort_line_perm (r : row) : Permutation (sort_line r) r.
Proof. apply isort_by_perm. Qed.

Lemma move_diag_line_perm i (r : row) : Permutation (move_diag_line i r) r.
Proof.
  unfold move_diag_line. destruct (extract_first _ r) as [[d rest]|] eqn:E; [|apply Permutation_refl].
  apply extract_first_some in E. apply Permutation_sym. tauto.
Qed.

Lemma prep_row_perm i (r : row) : Permutation (prep_row F i r) r.
Proof. unfold prep_row. eapply Permutation_trans; [apply move_diag_line_perm|apply sort_line_perm]. Qed.

(* uniqueness of the entry of a given column in a duplicate-free row *)
Lemma nodup_fst_unique (r : row) p q :
  NoDup (map fst r) -> In p r -> In q r -> fst p = fst q -> p = q.
Proof.
  induction r as [|x r IH]; simpl; intros Hn Hp Hq He; [contradiction|].
  inversion Hn as [|? ? Hx Hn']; subst.
  destruct Hp as [->|Hp]; destruct Hq as [->|Hq]; try reflexivity.
  - exfalso. apply Hx. rewrite He. apply in_map. exact Hq.
  - exfalso. apply Hx. rewrite <- He. apply in_map. exact Hp.
  - apply IH; assumption.
Qed.

(* shape of a prepared row: the diagonal entry first when one is stored, no diagonal at all otherwise *)
Lemma prep_row_shape i (r : row) :
  NoDup (map fst r) ->
  (exists d rest, prep_row F i r = (i, d) :: rest /\ In (i, d) r /\
                  Permutation rest (filter (fun q => negb (fst q =? i)) r) /\
                  (forall q, In q rest -> fst q <> i))
  \/ (Permutation (prep_row F i r) r /\ forall q, In q r -> fst q <> i).
Proof.
  intros Hn. unfold prep_row, move_diag_line.
  assert (Hs := sort_line_perm r).
  destruct (extract_first _ (sort_line r)) as [[d rest]|] eqn:E.
  - left. apply extract_first_some in E. destruct E as [Hd Hp]. simpl in Hd. apply Nat.eqb_eq in Hd.
    destruct d as [c v]. simpl in Hd. subst c.
    assert (Hp' : Permutation r ((i, v) :: rest)) by (eapply Permutation_trans; [apply Permutation_sym; exact Hs|exact Hp]).
    assert (Hn' : NoDup (map fst ((i, v) :: rest))) by (eapply Permutation_NoDup; [apply Permutation_map; exact Hp'|exact Hn]).
    simpl in Hn'. inversion Hn' as [|? ? Hx Hn'']; subst.
    assert (Hrest : forall q, In q rest -> fst q <> i).
    { intros q Hq Heq. apply Hx. rewrite <- Heq. apply in_map. exact Hq. }
    exists v, rest. split; [reflexivity|]. split.
    + eapply Permutation_in; [apply Permutation_sym; exact Hp'|left; reflexivity].
    + split; [|exact Hrest].
      eapply Permutation_trans; [|apply Permutation_filter; apply Permutation_sym; exact Hp'].
      simpl. rewrite Nat.eqb_refl. simpl. rewrite filter_all; [apply Permutation_refl|].
      intros q Hq. apply Hrest in Hq. apply Bool.negb_true_iff. apply Nat.eqb_neq. exact Hq.
  - right. split; [exact Hs|].
    intros q Hq. assert (H := extract_first_none _ _ E q).
    simpl in H. apply Nat.eqb_neq. apply H. eapply Permutation_in; [apply Permutation_sym; exact Hs|exact Hq].
Qed.

End RowFacts.


(* ---------- list slicing helpers (absent from the 8.16 standard library) ---------- *)
Section Slices.
Context {X : Type}.

Lemma nth_skipn' (l : list X) k i d : nth i (skipn k l) d = nth (k + i) l d.
Proof. revert l; induction k as [|k IH]; intros l; [reflexivity|]. destruct l; [destruct i; reflexivity|apply IH]. Qed.

Lemma nth_firstn' (l : list X) k i d : i < k -> nth i (firstn k l) d = nth i l d.
Proof.
  revert l i; induction k as [|k IH]; intros l i H; [lia|].
  destruct l; [destruct i; reflexivity|]. destruct i; [reflexivity|]. simpl. apply IH. lia.
Qed.

Lemma skipn_skipn' (l : list X) a b : skipn a (skipn b l) = skipn (b + a) l.
Proof. revert l; induction b as [|b IH]; intros l; [reflexivity|]. destruct l; [destruct a; reflexivity|apply IH]. Qed.

Lemma indexed_from_app (s : nat) (l1 l2 : list X) :
  indexed_from s (l1 ++ l2) = indexed_from s l1 ++ indexed_from (s + length l1) l2.
Proof.
  revert s; induction l1 as [|x l1 IH]; intros s; simpl; [rewrite Nat.add_0_r; reflexivity|].
  rewrite IH. replace (S s + length l1) with (s + S (length l1)) by lia. reflexivity.
Qed.

End Slices.

Lemma index_of_map (f : nat -> nat) c cm d : In c cm -> nth (index_of c cm) (map f cm) d = f c.
Proof.
  induction cm as [|x cm IH]; simpl; intros H; [contradiction|].
  destruct (x =? c) eqn:E; [apply Nat.eqb_eq in E; subst; reflexivity|].
  destruct H as [H|H]; [subst; rewrite Nat.eqb_refl in E; discriminate|]. apply IH. exact H.
Qed.

Lemma index_of_map' {Y} (f : nat -> Y) c cm d : In c cm -> nth (index_of c cm) (map f cm) d = f c.
Proof.
  induction cm as [|x cm IH]; simpl; intros H; [contradiction|].
  destruct (x =? c) eqn:E; [apply Nat.eqb_eq in E; subst; reflexivity|].
  destruct H as [H|H]; [subst; rewrite Nat.eqb_refl in E; discriminate|]. apply IH. exact H.
Qed.

Lemma index_of_nth c cm : In c cm -> nth (index_of c cm) cm 0 = c.
Proof. intros H. rewrite <- (map_id cm) at 2. apply (index_of_map' (fun x => x)). exact H. Qed.

Lemma insert_u_in x y l : In y (insert_u x l) <-> y = x \/ In y l.
Proof.
  induction l as [|z l IH]; simpl; [intuition|].
  destruct (x <? z); [simpl; intuition|].
  destruct (x =? z) eqn:E.
  - apply Nat.eqb_eq in E. subst. simpl. intuition.
  - simpl. rewrite IH. intuition.
Qed.

Lemma sort_uniq_in y l : In y (sort_uniq l) <-> In y l.
Proof.
  induction l as [|x l IH]; simpl; [tauto|]. rewrite insert_u_in, IH. intuition.
Qed.

(* ---------- the ordered field: only these three facts about  <  are used ---------- *)
Section Order.
Variable F : Type.
Variable zero : F.
Variable mul : F -> F -> F.
Variable ltb : F -> F -> bool.
Variables big nbig : F.
Hypothesis ltb_trans : forall a b c, ltb a b = true -> ltb b c = true -> ltb a c = true.
Hypothesis ltb_asym : forall a b, ltb a b = true -> ltb b a = false.
Hypothesis ltb_total : forall a b, ltb a b = false -> ltb b a = false -> a = b.

Notation row := (list (nat * F)).
Notation fstep := (fstep F ltb).
Notation extreme_from := (extreme_from F ltb).
Notation sentinel := (sentinel F big nbig).
Notation passes := (passes F ltb).
Notation kept_vals := (kept_vals F).
Notation prep_row := (prep_row F).
Notation split_diag := (split_diag F zero).
Notation classical_row := (classical_row F zero mul ltb big nbig).

Lemma ltb_irrefl a : ltb a a = false.
Proof. destruct (ltb a a) eqn:E; [|reflexivity]. rewrite (ltb_asym _ _ E) in E. discriminate. Qed.

Lemma ltb_negtrans a b c : ltb a b = false -> ltb b c = false -> ltb a c = false.
Proof.
  intros H1 H2. destruct (ltb a c) eqn:E; [|reflexivity]. exfalso.
  destruct (ltb b a) eqn:E2.
  - rewrite (ltb_trans _ _ _ E2 E) in H2. discriminate.
  - assert (a = b) by (apply ltb_total; assumption). subst. rewrite E in H2. discriminate.
Qed.

(* `m` is not beaten by `v`:  neg (maximum): not m < v;   otherwise (minimum): not v < m *)
Definition bound (neg : bool) (m v : F) : Prop := (if neg then ltb m v else ltb v m) = false.

Lemma bound_refl neg m : bound neg m m.
Proof. unfold bound. destruct neg; apply ltb_irrefl. Qed.

Lemma bound_trans neg a b c : bound neg a b -> bound neg b c -> bound neg a c.
Proof. unfold bound. destruct neg; intros; eapply ltb_negtrans; eassumption. Qed.

Lemma fstep_cases neg a v :
  (fstep neg a v = a \/ fstep neg a v = v) /\ bound neg (fstep neg a v) a /\ bound neg (fstep neg a v) v.
Proof.
  unfold Strength.fstep, bound. destruct neg.
  - destruct (ltb a v) eqn:E.
    + split; [right; reflexivity|]. split; [apply ltb_asym; exact E|apply ltb_irrefl].
    + split; [left; reflexivity|]. split; [apply ltb_irrefl|exact E].
  - destruct (ltb v a) eqn:E.
    + split; [right; reflexivity|]. split; [apply ltb_asym; exact E|apply ltb_irrefl].
    + split; [left; reflexivity|]. split; [apply ltb_irrefl|exact E].
Qed.

(* the fold computes an element of init :: l that no element of init :: l beats *)
Lemma extreme_from_spec neg a l :
  In (extreme_from neg a l) (a :: l) /\ forall v, In v (a :: l) -> bound neg (extreme_from neg a l) v.
Proof.
  revert a; induction l as [|x l IH]; intros a; unfold Strength.extreme_from in *; simpl.
  - split; [left; reflexivity|]. intros v [<-|[]]. apply bound_refl.
  - destruct (IH (fstep neg a x)) as [Hin Hb]. destruct (fstep_cases neg a x) as [Hc [Hba Hbx]].
    split.
    + simpl in Hin. destruct Hin as [Hin|Hin]; [|right; right; exact Hin].
      rewrite <- Hin. destruct Hc as [->| ->]; [left|right; left]; reflexivity.
    + assert (H0 := Hb _ (or_introl eq_refl)).
      intros v [<-|[<-|Hv]].
      * eapply bound_trans; eassumption.
      * eapply bound_trans; eassumption.
      * apply Hb. right. exact Hv.
Qed.

(* the property-level notion: m is THE extreme (max if neg, min otherwise) of the sentinel and the values *)
Definition is_extreme (neg : bool) (m : F) (l : list F) : Prop :=
  In m (sentinel neg :: l) /\ forall v, In v (sentinel neg :: l) -> bound neg m v.

Lemma is_extreme_unique neg m m' l : is_extreme neg m l -> is_extreme neg m' l -> m = m'.
Proof.
  intros [H1 H2] [H3 H4]. assert (A := H2 _ H3). assert (B := H4 _ H1). unfold bound in *.
  destruct neg; [apply ltb_total|symmetry; apply ltb_total]; assumption.
Qed.

Lemma extreme_is_extreme neg l : is_extreme neg (extreme_from neg (sentinel neg) l) l.
Proof. apply extreme_from_spec. Qed.

Lemma is_extreme_perm neg m l l' : Permutation l l' -> is_extreme neg m l -> is_extreme neg m l'.
Proof.
  intros Hp [H1 H2]. assert (Hp' : Permutation (sentinel neg :: l) (sentinel neg :: l')) by (apply perm_skip; exact Hp).
  split; [eapply Permutation_in; eassumption|].
  intros v Hv. apply H2. eapply Permutation_in; [apply Permutation_sym; exact Hp'|exact Hv].
Qed.

Lemma extreme_from_perm neg l l' :
  Permutation l l' -> extreme_from neg (sentinel neg) l = extreme_from neg (sentinel neg) l'.
Proof.
  intros Hp. apply (is_extreme_unique neg _ _ l').
  - eapply is_extreme_perm; [exact Hp|apply extreme_is_extreme].
  - apply extreme_is_extreme.
Qed.

Lemma extreme_from_app neg a l1 l2 :
  extreme_from neg (extreme_from neg a l1) l2 = extreme_from neg a (l1 ++ l2).
Proof. unfold Strength.extreme_from. rewrite fold_left_app. reflexivity. Qed.

Lemma kept_vals_perm keep (r r' : row) : Permutation r r' -> Permutation (kept_vals keep r) (kept_vals keep r').
Proof. intros H. unfold Strength.kept_vals. apply Permutation_map. apply Permutation_filter. exact H. Qed.

(* off-diagonal part of row i *)
Definition offd (i : nat) (r : row) : row := filter (fun q => negb (fst q =? i)) r.
(* the diagonal value the kernel works with: the stored one, 0.0 when none is stored *)
Definition diag_is (i : nat) (r : row) (d : F) : Prop :=
  In (i, d) r \/ ((forall q, In q r -> fst q <> i) /\ d = zero).

Lemma diag_is_unique i (r : row) d d' : NoDup (map fst r) -> diag_is i r d -> diag_is i r d' -> d = d'.
Proof.
  intros Hn [H1|[H1 ->]] [H2|[H2 ->]].
  - assert (E := nodup_fst_unique F r _ _ Hn H1 H2 eq_refl). congruence.
  - exfalso. apply (H2 _ H1). reflexivity.
  - exfalso. apply (H1 _ H2). reflexivity.
  - reflexivity.
Qed.

Lemma offd_nodiag i (r : row) : (forall q, In q r -> fst q <> i) -> offd i r = r.
Proof.
  intros H. unfold offd. apply filter_all. intros q Hq. apply Bool.negb_true_iff. apply Nat.eqb_neq. apply H. exact Hq.
Qed.

Lemma prep_row_nil i (r : row) : prep_row i r = [] -> r = [].
Proof. intros H. assert (P := prep_row_perm F i r). rewrite H in P. apply Permutation_nil in P. exact P. Qed.

(* canonical form of one row of classical_strength *)
Lemma classical_row_canon theta nv vars i (r : row) :
  NoDup (map fst r) -> r <> [] ->
  exists d rest,
    diag_is i r d /\ Permutation rest (offd i r) /\
    let neg := ltb d zero in
    let keep := same_var nv (nth i vars 0) vars in
    let thr := mul (extreme_from neg (sentinel neg) (kept_vals keep (offd i r))) theta in
    classical_row theta nv vars i r =
      (if existsb (fun q => fst q =? i) r then [(i, d)] else []) ++
      filter (fun p => keep (fst p) && passes neg thr (snd p)) rest.
Proof.
  intros Hn Hne. unfold Strength.classical_row.
  destruct (prep_row_shape F i r Hn) as [[d [rest [Hp [Hin [Hperm Hrest]]]]]|[Hperm Hno]].
  - exists d, rest. split; [left; exact Hin|]. split; [exact Hperm|].
    rewrite Hp. cbn [Strength.split_diag fst snd]. rewrite Nat.eqb_refl.
    replace (existsb (fun q => fst q =? i) r) with true
      by (symmetry; apply existsb_exists; exists (i, d); split; [exact Hin|apply Nat.eqb_refl]).
    cbv zeta. rewrite (extreme_from_perm _ _ _ (kept_vals_perm _ _ _ Hperm)). reflexivity.
  - exists zero, (prep_row i r). split; [right; split; [exact Hno|reflexivity]|].
    rewrite (offd_nodiag i r Hno). split; [exact Hperm|].
    replace (existsb (fun q => fst q =? i) r) with false.
    2:{ symmetry. apply Bool.not_true_is_false. intros H. apply existsb_exists in H. destruct H as [q [Hq He]].
        apply Nat.eqb_eq in He. exact (Hno q Hq He). }
    destruct (prep_row i r) as [|p r'] eqn:E; [apply prep_row_nil in E; contradiction|].
    assert (Hp : fst p <> i) by (apply Hno; eapply Permutation_in; [exact Hperm|left; reflexivity]).
    cbn [Strength.split_diag]. apply Nat.eqb_neq in Hp. rewrite Hp. cbv zeta.
    rewrite (extreme_from_perm _ _ _ (kept_vals_perm _ _ _ Hperm)). reflexivity.
Qed.

Lemma classical_row_nil theta nv vars i : classical_row theta nv vars i [] = [].
Proof. reflexivity. Qed.

(* ---------- classical: the three clauses of the property, row level ---------- *)
Lemma split_diag_shape i (r' : row) :
  match split_diag i r' with
  | (true, d, rest) => r' = (i, d) :: rest
  | (false, d, rest) => rest = r' /\ d = zero
  end.
Proof.
  destruct r' as [|[c v] r'']; simpl; [split; reflexivity|].
  destruct (c =? i) eqn:E; [apply Nat.eqb_eq in E; subst; reflexivity|split; reflexivity].
Qed.

Lemma classical_row_subset theta nv vars i (r : row) p :
  In p (classical_row theta nv vars i r) -> In p r.
Proof.
  unfold Strength.classical_row. intros H.
  apply (Permutation_in _ (prep_row_perm F i r)).
  destruct (prep_row i r) as [|q r'] eqn:E; [contradiction|].
  assert (S := split_diag_shape i (q :: r')).
  destruct (split_diag i (q :: r')) as [[has d] rest]. cbv zeta in H.
  apply in_app_or in H. destruct has.
  - rewrite S. destruct H as [[<-|[]]|H]; [left; reflexivity|right]. apply filter_In in H. tauto.
  - destruct S as [S _]. rewrite <- S. destruct H as [[]|H]. apply filter_In in H. tauto.
Qed.

Lemma existsb_diag_true i (r : row) d : In (i, d) r -> existsb (fun q => fst q =? i) r = true.
Proof. intros H. apply existsb_exists. exists (i, d). split; [exact H|apply Nat.eqb_refl]. Qed.

Lemma classical_row_diag theta nv vars i (r : row) d :
  NoDup (map fst r) -> In (i, d) r -> In (i, d) (classical_row theta nv vars i r).
Proof.
  intros Hn Hin. assert (Hne : r <> []) by (intros ->; contradiction).
  destruct (classical_row_canon theta nv vars i r Hn Hne) as [d' [rest [Hd [_ Heq]]]].
  cbv zeta in Heq. rewrite Heq. rewrite (existsb_diag_true i r d Hin).
  assert (d = d') by (eapply diag_is_unique; [exact Hn|left; exact Hin|exact Hd]). subst d'.
  left. reflexivity.
Qed.

(* THE documented test, classical measure.  Entry (j,v) of row i (j <> i) is strong iff it is of the same
   variable as i (always, when num_variables = 1) and lies strictly beyond theta times the extreme
   same-variable off-diagonal of the row: the MAXIMUM when the diagonal is negative (v > theta*max), the MINIMUM
   when the diagonal is >= 0 or absent (v < theta*min); the extreme of no candidate is the sentinel -+RAND_MAX. *)
Definition strong_classical (theta : F) (keep : nat -> bool) (i : nat) (r : row) (j : nat) (v : F) : Prop :=
  j <> i /\ In (j, v) r /\ keep j = true /\
  exists d m, diag_is i r d /\
              is_extreme (ltb d zero) m (kept_vals keep (offd i r)) /\
              passes (ltb d zero) (mul m theta) v = true.

Lemma classical_row_test theta nv vars i (r : row) j v :
  NoDup (map fst r) ->
  (In (j, v) (classical_row theta nv vars i r) /\ j <> i) <->
  strong_classical theta (same_var nv (nth i vars 0) vars) i r j v.
Proof.
  intros Hn. destruct r as [|p0 r0] eqn:Er.
  { rewrite classical_row_nil. split; [intros [[] _]|intros [_ [[] _]]]. }
  rewrite <- Er in *. assert (Hne : r <> []) by (rewrite Er; discriminate).
  destruct (classical_row_canon theta nv vars i r Hn Hne) as [d [rest [Hd [Hperm Heq]]]].
  cbv zeta in Heq. rewrite Heq. clear Heq. split.
  - intros [Hin Hji]. apply in_app_or in Hin. destruct Hin as [Hin|Hin].
    { destruct (existsb _ r); [destruct Hin as [E|[]]; inversion E; congruence|contradiction]. }
    apply filter_In in Hin. destruct Hin as [Hin Hc]. apply Bool.andb_true_iff in Hc. destruct Hc as [Hk Hp].
    simpl in Hk, Hp. split; [exact Hji|]. split.
    { apply (Permutation_in _ Hperm) in Hin. apply filter_In in Hin. tauto. }
    split; [exact Hk|]. exists d, (extreme_from (ltb d zero) (sentinel (ltb d zero))
                                     (kept_vals (same_var nv (nth i vars 0) vars) (offd i r))).
    split; [exact Hd|]. split; [apply extreme_is_extreme|exact Hp].
  - intros [Hji [Hin [Hk [d' [m [Hd' [Hm Hp]]]]]]].
    assert (d' = d) by (eapply diag_is_unique; eassumption). subst d'.
    assert (m = extreme_from (ltb d zero) (sentinel (ltb d zero))
                  (kept_vals (same_var nv (nth i vars 0) vars) (offd i r)))
      by (eapply is_extreme_unique; [exact Hm|apply extreme_is_extreme]). subst m.
    split; [|exact Hji]. apply in_or_app. right. apply filter_In. split.
    + apply (Permutation_in _ (Permutation_sym Hperm)). apply filter_In. split; [exact Hin|].
      simpl. apply Bool.negb_true_iff. apply Nat.eqb_neq. exact Hji.
    + simpl. rewrite Hk, Hp. reflexivity.
Qed.

Lemma NoDup_map_filter {A B} (f : A -> B) (p : A -> bool) l : NoDup (map f l) -> NoDup (map f (filter p l)).
Proof.
  induction l as [|x l IH]; simpl; intros H; [constructor|].
  inversion H as [|? ? Hx Hn]; subst. destruct (p x); simpl; [|apply IH; exact Hn].
  constructor; [|apply IH; exact Hn]. intros Hin. apply Hx. apply in_map_iff in Hin.
  destruct Hin as [y [Hy Hin]]. apply filter_In in Hin. rewrite <- Hy. apply in_map. tauto.
Qed.

Lemma classical_row_nodup theta nv vars i (r : row) :
  NoDup (map fst r) -> NoDup (map fst (classical_row theta nv vars i r)).
Proof.
  intros Hn. destruct r as [|p0 r0] eqn:Er; [rewrite classical_row_nil; constructor|].
  rewrite <- Er in *. assert (Hne : r <> []) by (rewrite Er; discriminate).
  destruct (classical_row_canon theta nv vars i r Hn Hne) as [d [rest [Hd [Hperm Heq]]]].
  cbv zeta in Heq. rewrite Heq. clear Heq.
  assert (Hnr : NoDup (map fst rest)).
  { eapply Permutation_NoDup; [apply Permutation_map; apply Permutation_sym; exact Hperm|].
    apply NoDup_map_filter. exact Hn. }
  destruct (existsb _ r); simpl; [|apply NoDup_map_filter; exact Hnr].
  constructor; [|apply NoDup_map_filter; exact Hnr].
  intros Hin. apply in_map_iff in Hin. destruct Hin as [q [Hq Hin]]. apply filter_In in Hin.
  destruct Hin as [Hin _]. apply (Permutation_in _ Hperm) in Hin. apply filter_In in Hin.
  destruct Hin as [_ Hc]. apply Bool.negb_true_iff in Hc. apply Nat.eqb_neq in Hc. exact (Hc Hq).
Qed.

(* ---------- matrix level ---------- *)
Lemma nth_map_indexed {A B} (f : nat -> A -> B) (l : list A) i dA dB :
  i < length l -> nth i (map (fun ir => f (fst ir) (snd ir)) (indexed l)) dB = f i (nth i l dA).
Proof.
  intros H. unfold indexed. rewrite (indexed_from_seq 0 l dA), map_map. cbn [fst snd].
  rewrite nth_map_seq by exact H. rewrite Nat.sub_0_r. reflexivity.
Qed.

Lemma nth_map_indexed' {A B} (g : nat * A -> B) (l : list A) i dA dB :
  i < length l -> nth i (map g (indexed l)) dB = g (i, nth i l dA).
Proof.
  intros H. unfold indexed. rewrite (indexed_from_seq 0 l dA), map_map.
  rewrite nth_map_seq by exact H. rewrite Nat.sub_0_r. reflexivity.
Qed.

Definition rows_nodup (rows : list row) : Prop := forall r, In r rows -> NoDup (map fst r).

Lemma rows_nodup_nth rows i : rows_nodup rows -> NoDup (map fst (nth i rows [])).
Proof.
  intros H. destruct (Nat.lt_ge_cases i (length rows)) as [Hi|Hi].
  - apply H. apply nth_In. exact Hi.
  - rewrite nth_overflow by exact Hi. constructor.
Qed.

Lemma classical_strength_length theta nv vars rows :
  length (classical_strength F zero mul ltb big nbig theta nv vars rows) = length rows.
Proof. unfold classical_strength, indexed. rewrite map_length, indexed_from_length. reflexivity. Qed.

Lemma classical_strength_nth theta nv vars rows i :
  nth i (classical_strength F zero mul ltb big nbig theta nv vars rows) [] =
  classical_row theta nv vars i (nth i rows []).
Proof.
  destruct (Nat.lt_ge_cases i (length rows)) as [Hi|Hi].
  - unfold classical_strength. apply (nth_map_indexed (fun i r => classical_row theta nv vars i r)). exact Hi.
  - rewrite nth_overflow by (rewrite classical_strength_length; exact Hi).
    rewrite (nth_overflow rows) by exact Hi. reflexivity.
Qed.

(* ---------- a generic row kernel: prepared row, diagonal split off, off-diagonals filtered by a test
   that may depend on the diagonal value and (up to permutation) on the off-diagonal part ---------- *)
Definition row_kernel (test : F -> row -> nat * F -> bool) (i : nat) (r : row) : row :=
  let r' := prep_row i r in
  match r' with
  | [] => []
  | _ :: _ => let '(has, d, rest) := split_diag i r' in
              (if has then [(i, d)] else []) ++ filter (test d rest) rest
  end.

Definition test_perm_inv (test : F -> row -> nat * F -> bool) : Prop :=
  forall d l l' p, Permutation l l' -> test d l p = test d l' p.

Lemma row_kernel_canon test i (r : row) :
  test_perm_inv test -> NoDup (map fst r) -> r <> [] ->
  exists d rest,
    diag_is i r d /\ Permutation rest (offd i r) /\
    row_kernel test i r =
      (if existsb (fun q => fst q =? i) r then [(i, d)] else []) ++ filter (test d (offd i r)) rest.
Proof.
  intros Ht Hn Hne. unfold row_kernel.
  destruct (prep_row_shape F i r Hn) as [[d [rest [Hp [Hin [Hperm Hrest]]]]]|[Hperm Hno]].
  - exists d, rest. split; [left; exact Hin|]. split; [exact Hperm|].
    rewrite Hp. cbn [Strength.split_diag fst snd]. rewrite Nat.eqb_refl.
    rewrite (existsb_diag_true i r d Hin). f_equal. apply filter_ext. intros p. apply Ht. exact Hperm.
  - exists zero, (prep_row i r). split; [right; split; [exact Hno|reflexivity]|].
    rewrite (offd_nodiag i r Hno). split; [exact Hperm|].
    replace (existsb (fun q => fst q =? i) r) with false.
    2:{ symmetry. apply Bool.not_true_is_false. intros H. apply existsb_exists in H. destruct H as [q [Hq He]].
        apply Nat.eqb_eq in He. exact (Hno q Hq He). }
    destruct (prep_row i r) as [|p r'] eqn:E; [apply prep_row_nil in E; contradiction|].
    assert (Hp : fst p <> i) by (apply Hno; eapply Permutation_in; [exact Hperm|left; reflexivity]).
    cbn [Strength.split_diag]. apply Nat.eqb_neq in Hp. rewrite Hp.
    f_equal. apply filter_ext. intros q. apply Ht. exact Hperm.
Qed.

Lemma row_kernel_subset test i (r : row) p : In p (row_kernel test i r) -> In p r.
Proof.
  unfold row_kernel. intros H.
  apply (Permutation_in _ (prep_row_perm F i r)).
  destruct (prep_row i r) as [|q r'] eqn:E; [contradiction|].
  assert (S := split_diag_shape i (q :: r')).
  destruct (split_diag i (q :: r')) as [[has d] rest].
  apply in_app_or in H. destruct has.
  - rewrite S. destruct H as [[<-|[]]|H]; [left; reflexivity|right]. apply filter_In in H. tauto.
  - destruct S as [S _]. rewrite <- S. destruct H as [[]|H]. apply filter_In in H. tauto.
Qed.

Lemma row_kernel_diag test i (r : row) d :
  test_perm_inv test -> NoDup (map fst r) -> In (i, d) r -> In (i, d) (row_kernel test i r).
Proof.
  intros Ht Hn Hin. assert (Hne : r <> []) by (intros ->; contradiction).
  destruct (row_kernel_canon test i r Ht Hn Hne) as [d' [rest [Hd [_ Heq]]]].
  rewrite Heq. rewrite (existsb_diag_true i r d Hin).
  assert (d = d') by (eapply diag_is_unique; [exact Hn|left; exact Hin|exact Hd]). subst d'.
  left. reflexivity.
Qed.

Lemma row_kernel_test test i (r : row) j v :
  test_perm_inv test -> NoDup (map fst r) -> j <> i ->
  (In (j, v) (row_kernel test i r) <->
   In (j, v) r /\ exists d, diag_is i r d /\ test d (offd i r) (j, v) = true).
Proof.
  intros Ht Hn Hji. destruct r as [|p0 r0] eqn:Er.
  { unfold row_kernel. simpl. split; [intros []|intros [[] _]]. }
  rewrite <- Er in *. assert (Hne : r <> []) by (rewrite Er; discriminate).
  destruct (row_kernel_canon test i r Ht Hn Hne) as [d [rest [Hd [Hperm Heq]]]].
  rewrite Heq. clear Heq. split.
  - intros Hin. apply in_app_or in Hin. destruct Hin as [Hin|Hin].
    { destruct (existsb _ r); [destruct Hin as [E|[]]; inversion E; congruence|contradiction]. }
    apply filter_In in Hin. destruct Hin as [Hin Hc]. split.
    { apply (Permutation_in _ Hperm) in Hin. apply filter_In in Hin. tauto. }
    exists d. split; assumption.
  - intros [Hin [d' [Hd' Hc]]].
    assert (d' = d) by (eapply diag_is_unique; eassumption). subst d'.
    apply in_or_app. right. apply filter_In. split; [|exact Hc].
    apply (Permutation_in _ (Permutation_sym Hperm)). apply filter_In. split; [exact Hin|].
    simpl. apply Bool.negb_true_iff. apply Nat.eqb_neq. exact Hji.
Qed.

Lemma row_kernel_nodup test i (r : row) :
  test_perm_inv test -> NoDup (map fst r) -> NoDup (map fst (row_kernel test i r)).
Proof.
  intros Ht Hn. destruct r as [|p0 r0] eqn:Er; [constructor|].
  rewrite <- Er in *. assert (Hne : r <> []) by (rewrite Er; discriminate).
  destruct (row_kernel_canon test i r Ht Hn Hne) as [d [rest [Hd [Hperm Heq]]]].
  rewrite Heq. clear Heq.
  assert (Hnr : NoDup (map fst rest)).
  { eapply Permutation_NoDup; [apply Permutation_map; apply Permutation_sym; exact Hperm|].
    apply NoDup_map_filter. exact Hn. }
  destruct (existsb _ r); simpl; [|apply NoDup_map_filter; exact Hnr].
  constructor; [|apply NoDup_map_filter; exact Hnr].
  intros Hin. apply in_map_iff in Hin. destruct Hin as [q [Hq Hin]]. apply filter_In in Hin.
  destruct Hin as [Hin _]. apply (Permutation_in _ Hperm) in Hin. apply filter_In in Hin.
  destruct Hin as [_ Hc]. apply Bool.negb_true_iff in Hc. apply Nat.eqb_neq in Hc. exact (Hc Hq).
Qed.

(* ---------- symmetric measure ---------- *)
Notation sym_info := (sym_info F zero mul ltb big nbig).
Notation symmetric_row := (symmetric_row F zero ltb).
Notation sym_pass := (sym_pass F ltb).
Notation info_default := (info_default F zero).

(* what the first loop stores for row i: (neg_diags[i], row_scales[i]) *)
Definition info_spec (theta : F) (i : nat) (r : row) (inf : bool * F) : Prop :=
  (r = [] /\ inf = (false, zero)) \/
  (r <> [] /\ exists d m, diag_is i r d /\ is_extreme (ltb d zero) m (map snd (offd i r)) /\
                          inf = (ltb d zero, mul m theta)).

Lemma map_snd_perm (l l' : row) : Permutation l l' -> Permutation (map snd l) (map snd l').
Proof. apply Permutation_map. Qed.

Lemma sym_info_spec theta i (r : row) : NoDup (map fst r) -> info_spec theta i r (sym_info theta i r).
Proof.
  intros Hn. destruct r as [|p0 r0] eqn:Er; [left; split; reflexivity|].
  rewrite <- Er in *. assert (Hne : r <> []) by (rewrite Er; discriminate).
  right. split; [exact Hne|]. unfold Strength.sym_info.
  destruct (prep_row_shape F i r Hn) as [[d [rest [Hp [Hin [Hperm Hrest]]]]]|[Hperm Hno]].
  - exists d, (extreme_from (ltb d zero) (sentinel (ltb d zero)) (map snd (offd i r))).
    split; [left; exact Hin|]. split; [apply extreme_is_extreme|].
    rewrite Hp. cbn [Strength.split_diag fst snd]. rewrite Nat.eqb_refl.
    rewrite (extreme_from_perm _ _ _ (map_snd_perm _ _ Hperm)). reflexivity.
  - exists zero, (extreme_from (ltb zero zero) (sentinel (ltb zero zero)) (map snd (offd i r))).
    split; [right; split; [exact Hno|reflexivity]|]. split; [apply extreme_is_extreme|].
    rewrite (offd_nodiag i r Hno).
    destruct (prep_row i r) as [|p r'] eqn:E; [apply prep_row_nil in E; contradiction|].
    assert (Hp : fst p <> i) by (apply Hno; eapply Permutation_in; [exact Hperm|left; reflexivity]).
    cbn [Strength.split_diag]. apply Nat.eqb_neq in Hp. rewrite Hp.
    rewrite (extreme_from_perm _ _ _ (map_snd_perm _ _ Hperm)). reflexivity.
Qed.

Lemma info_spec_unique theta i (r : row) a b :
  NoDup (map fst r) -> info_spec theta i r a -> info_spec theta i r b -> a = b.
Proof.
  intros Hn [[H1 ->]|[H1 [d [m [Hd [Hm ->]]]]]] [[H2 ->]|[H2 [d' [m' [Hd' [Hm' ->]]]]]]; try reflexivity; try contradiction.
  assert (d = d') by (eapply diag_is_unique; eassumption). subst d'.
  assert (m = m') by (eapply is_extreme_unique; eassumption). subst m'. reflexivity.
Qed.

Definition sym_test (infos : list (bool * F)) (i : nat) : F -> row -> nat * F -> bool :=
  fun _ _ p => sym_pass (nth i infos info_default) (nth (fst p) infos info_default) (snd p).

Lemma symmetric_row_kernel infos i (r : row) : symmetric_row infos i r = row_kernel (sym_test infos i) i r.
Proof.
  unfold Strength.symmetric_row, row_kernel. destruct (prep_row i r); [reflexivity|].
  destruct (split_diag i (p :: r0)) as [[has d] rest]. reflexivity.
Qed.

Lemma sym_test_perm_inv infos i : test_perm_inv (sym_test infos i).
Proof. intros d l l' p _. reflexivity. Qed.

Lemma sym_infos_length theta rows : length (sym_infos F zero mul ltb big nbig theta rows) = length rows.
Proof. unfold sym_infos, indexed. rewrite map_length, indexed_from_length. reflexivity. Qed.

Lemma sym_infos_nth theta rows j :
  nth j (sym_infos F zero mul ltb big nbig theta rows) info_default = sym_info theta j (nth j rows []).
Proof.
  destruct (Nat.lt_ge_cases j (length rows)) as [Hj|Hj].
  - unfold sym_infos. apply (nth_map_indexed (fun i r => sym_info theta i r)). exact Hj.
  - rewrite nth_overflow by (rewrite sym_infos_length; exact Hj).
    rewrite (nth_overflow rows) by exact Hj. reflexivity.
Qed.

Lemma symmetric_strength_length theta rows :
  length (symmetric_strength F zero mul ltb big nbig theta rows) = length rows.
Proof. unfold symmetric_strength, indexed. rewrite map_length, indexed_from_length. reflexivity. Qed.

Lemma symmetric_strength_nth theta rows i :
  nth i (symmetric_strength F zero mul ltb big nbig theta rows) [] =
  symmetric_row (sym_infos F zero mul ltb big nbig theta rows) i (nth i rows []).
Proof.
  destruct (Nat.lt_ge_cases i (length rows)) as [Hi|Hi].
  - unfold symmetric_strength.
    apply (nth_map_indexed (fun i r => symmetric_row (sym_infos F zero mul ltb big nbig theta rows) i r)). exact Hi.
  - rewrite nth_overflow by (rewrite symmetric_strength_length; exact Hi).
    rewrite (nth_overflow rows) by exact Hi. reflexivity.
Qed.

(* THE documented test, symmetric measure: (j,v) in row i is strong iff v passes the threshold test of row i
   or the threshold test of row j (the row of its column); a row's test is that of the classical measure without
   variable filter: v > theta*max when the row's diagonal is negative, v < theta*min otherwise; a row without
   entries has threshold 0 and counts as non-negative. *)
Definition strong_symmetric (theta : F) (rows : list row) (i j : nat) (v : F) : Prop :=
  j <> i /\ In (j, v) (nth i rows []) /\
  exists a b, info_spec theta i (nth i rows []) a /\ info_spec theta j (nth j rows []) b /\
              (passes (fst a) (snd a) v = true \/ passes (fst b) (snd b) v = true).

Lemma symmetric_strength_test theta rows i j v :
  rows_nodup rows -> j <> i ->
  (In (j, v) (nth i (symmetric_strength F zero mul ltb big nbig theta rows) []) <-> strong_symmetric theta rows i j v).
Proof.
  intros Hn Hji. rewrite symmetric_strength_nth, symmetric_row_kernel.
  assert (Hni := rows_nodup_nth rows i Hn). assert (Hnj := rows_nodup_nth rows j Hn).
  rewrite (row_kernel_test _ i _ j v (sym_test_perm_inv _ i) Hni Hji).
  unfold sym_test, Strength.sym_pass. cbn [fst snd]. rewrite !sym_infos_nth.
  split.
  - intros [Hin [d [Hd Hp]]]. split; [exact Hji|]. split; [exact Hin|].
    exists (sym_info theta i (nth i rows [])), (sym_info theta j (nth j rows [])).
    split; [apply sym_info_spec; exact Hni|]. split; [apply sym_info_spec; exact Hnj|].
    apply Bool.orb_true_iff in Hp. exact Hp.
  - intros [_ [Hin [a [b [Ha [Hb Hp]]]]]]. split; [exact Hin|].
    assert (a = sym_info theta i (nth i rows [])) by (eapply info_spec_unique; [exact Hni|exact Ha|apply sym_info_spec; exact Hni]).
    assert (b = sym_info theta j (nth j rows [])) by (eapply info_spec_unique; [exact Hnj|exact Hb|apply sym_info_spec; exact Hnj]).
    subst a b.
    assert (exists d, diag_is i (nth i rows []) d) as [d Hd].
    { destruct (prep_row_shape F i _ Hni) as [[d [rest [_ [Hd _]]]]|[_ Hno]].
      - exists d. left. exact Hd.
      - exists zero. right. split; [exact Hno|reflexivity]. }
    exists d. split; [exact Hd|]. apply Bool.orb_true_iff. exact Hp.
Qed.

(* ---------- distributed = sequential: row level ---------- *)
Notation par_classical_row := (par_classical_row F zero mul ltb big nbig).
Notation on_part := (on_part F).
Notation off_part := (off_part F).
Notation gather_row := (gather_row F).

Lemma par_classical_row_canon theta nv vl ov il (ron roff : row) d :
  NoDup (map fst ron) -> In (il, d) ron ->
  exists rest,
    Permutation rest (offd il ron) /\
    let neg := ltb d zero in
    let kon := same_var nv (nth il vl 0) vl in
    let koff := same_var nv (nth il vl 0) ov in
    let thr := mul (extreme_from neg (sentinel neg) (kept_vals kon (offd il ron) ++ kept_vals koff roff)) theta in
    par_classical_row theta nv vl ov il ron roff =
      ((il, d) :: filter (fun p => kon (fst p) && passes neg thr (snd p)) rest,
       filter (fun p => koff (fst p) && passes neg thr (snd p)) (sort_line roff)).
Proof.
  intros Hn Hin. unfold Strength.par_classical_row.
  destruct (prep_row_shape F il ron Hn) as [[d' [rest [Hp [Hin' [Hperm Hrest]]]]]|[_ Hno]].
  2:{ exfalso. apply (Hno _ Hin). reflexivity. }
  assert (d' = d) by (assert (E := nodup_fst_unique F ron _ _ Hn Hin' Hin eq_refl); congruence). subst d'.
  exists rest. split; [exact Hperm|]. rewrite Hp. cbn [Strength.split_diag fst snd]. rewrite Nat.eqb_refl.
  cbv zeta. rewrite extreme_from_app.
  rewrite (extreme_from_perm (ltb d zero) _ _
             (Permutation_app (kept_vals_perm (same_var nv (nth il vl 0) vl) _ _ Hperm)
                              (kept_vals_perm (same_var nv (nth il vl 0) ov) _ _ (sort_line_perm F roff)))).
  reflexivity.
Qed.

Lemma in_range_spec l m c : in_range l m c = true <-> l <= c < l + m.
Proof.
  unfold in_range. rewrite Bool.andb_true_iff, Nat.leb_le, Nat.ltb_lt. tauto.
Qed.

Lemma NoDup_map_inj_in {A B} (f : A -> B) (l : list A) :
  (forall x y, In x l -> In y l -> f x = f y -> x = y) -> NoDup l -> NoDup (map f l).
Proof.
  induction l as [|a l IH]; simpl; intros Hf Hn; [constructor|].
  inversion Hn as [|? ? Ha Hn']; subst. constructor.
  - intros Hin. apply in_map_iff in Hin. destruct Hin as [y [Hy Hin]].
    assert (y = a) by (apply Hf; [right; exact Hin|left; reflexivity|exact Hy]). subst. contradiction.
  - apply IH; [|exact Hn']. intros x y Hx Hy. apply Hf; right; assumption.
Qed.

Definition ren_on (lo : nat) (p : nat * F) : nat * F := (fst p - lo, snd p).
Definition ren_off (cm : list nat) (p : nat * F) : nat * F := (index_of (fst p) cm, snd p).

Lemma on_part_in lo n (R : row) p : In p (on_part lo n R) <-> In p R /\ lo <= fst p < lo + n.
Proof. unfold Strength.on_part. rewrite filter_In, in_range_spec. tauto. Qed.

Lemma off_part_in lo n (R : row) p : In p (off_part lo n R) <-> In p R /\ ~ (lo <= fst p < lo + n).
Proof.
  unfold Strength.off_part. rewrite filter_In, Bool.negb_true_iff.
  rewrite <- Bool.not_true_iff_false, in_range_spec. tauto.
Qed.

Lemma ron_nodup lo n (R : row) : NoDup (map fst R) -> NoDup (map fst (map (ren_on lo) (on_part lo n R))).
Proof.
  intros Hn. rewrite map_map. cbn [ren_on fst].
  assert (Hn' : NoDup (map fst (on_part lo n R))) by (apply NoDup_map_filter; exact Hn).
  rewrite <- (map_map fst (fun c => c - lo)). apply NoDup_map_inj_in; [|exact Hn'].
  intros x y Hx Hy E. apply in_map_iff in Hx. apply in_map_iff in Hy.
  destruct Hx as [p [<- Hp]]. destruct Hy as [q [<- Hq]]. apply on_part_in in Hp. apply on_part_in in Hq. lia.
Qed.

Lemma Permutation_filter_map {A B} (f : A -> B) (p : B -> bool) l l' :
  Permutation l (map f l') -> Permutation (filter p l) (map f (filter (fun a => p (f a)) l')).
Proof. intros H. rewrite <- filter_map_comm. apply Permutation_filter. exact H. Qed.

Lemma map_back {A B} (back : B -> A) (f : A -> B) (l : list A) :
  (forall a, In a l -> back (f a) = a) -> map back (map f l) = l.
Proof. intros H. rewrite map_map. rewrite <- (map_id l) at 2. apply map_ext_in. exact H. Qed.

Lemma offd_on_part g lo n (R : row) : offd g (on_part lo n R) = on_part lo n (offd g R).
Proof.
  unfold offd, Strength.on_part. rewrite !filter_filter. apply filter_ext. intros p. apply Bool.andb_comm.
Qed.

Lemma off_part_offd g lo n (R : row) : lo <= g < lo + n -> off_part lo n R = off_part lo n (offd g R).
Proof.
  intros Hg. unfold offd, Strength.off_part. rewrite filter_filter. apply filter_ext_in. intros p _.
  destruct (in_range lo n (fst p)) eqn:E; simpl; [rewrite Bool.andb_false_r; reflexivity|].
  rewrite Bool.andb_true_r. symmetry. apply Bool.negb_true_iff. apply Nat.eqb_neq. intros Heq. rewrite Heq in E.
  apply Bool.not_true_iff_false in E. apply E. apply in_range_spec. exact Hg.
Qed.

Lemma on_off_perm lo n (Y : row) : Permutation (on_part lo n Y ++ off_part lo n Y) Y.
Proof. apply (filter_split_perm (fun p : nat * F => in_range lo n (fst p))). Qed.

Lemma nth_vars_loc (vars : list nat) lo n c : c < n -> nth c (firstn n (skipn lo vars)) 0 = nth (lo + c) vars 0.
Proof. intros H. rewrite nth_firstn' by exact H. apply nth_skipn'. Qed.

(* the row computed by the owner of global row g = lo + il from its local data, mapped back to global columns,
   is a permutation of the sequential row *)
Lemma par_classical_row_eq theta nv vars lo n il (R : row) cm :
  il < n -> NoDup (map fst R) -> (R = [] \/ exists d, In (lo + il, d) R) ->
  (forall p, In p (off_part lo n R) -> In (fst p) cm) ->
  Permutation
    (gather_row lo cm
       (par_classical_row theta nv (firstn n (skipn lo vars)) (map (fun c => nth c vars 0) cm) il
          (map (ren_on lo) (on_part lo n R)) (map (ren_off cm) (off_part lo n R))))
    (classical_row theta nv vars (lo + il) R).
Proof.
  intros Hil Hn Hd Hcm. destruct Hd as [->|[d Hd]]; [apply Permutation_refl|].
  set (g := lo + il). fold g in Hd.
  assert (Hg : lo <= g < lo + n) by (unfold g; lia).
  assert (Hne : R <> []) by (intros ->; contradiction).
  assert (Hdon : In (il, d) (map (ren_on lo) (on_part lo n R))).
  { apply in_map_iff. exists (g, d). split; [unfold ren_on, g; simpl; f_equal; lia|]. apply on_part_in. simpl. tauto. }
  destruct (par_classical_row_canon theta nv (firstn n (skipn lo vars)) (map (fun c => nth c vars 0) cm) il
              _ (map (ren_off cm) (off_part lo n R)) d (ron_nodup lo n R Hn) Hdon) as [rest [Hperm Heq]].
  cbv zeta in Heq. rewrite Heq. clear Heq.
  destruct (classical_row_canon theta nv vars g R Hn Hne) as [d' [rest_s [Hd' [Hperm_s Heq]]]].
  cbv zeta in Heq. rewrite Heq. clear Heq.
  assert (d' = d) by (eapply diag_is_unique; [exact Hn|exact Hd'|left; exact Hd]). subst d'.
  rewrite (existsb_diag_true g R d Hd).
  (* renamings and the predicates they induce *)
  set (neg := ltb d zero).
  set (keep := same_var nv (nth g vars 0) vars).
  set (vi := nth il (firstn n (skipn lo vars)) 0).
  assert (Hvi : vi = nth g vars 0) by (unfold vi, g; apply nth_vars_loc; exact Hil).
  assert (Hkon : forall p, In p (on_part lo n R) ->
            same_var nv vi (firstn n (skipn lo vars)) (fst (ren_on lo p)) = keep (fst p)).
  { intros p Hp. apply on_part_in in Hp. unfold same_var, keep, ren_on. cbn [fst]. rewrite Hvi.
    rewrite nth_vars_loc by lia. replace (lo + (fst p - lo)) with (fst p) by lia. reflexivity. }
  assert (Hkoff : forall p, In p (off_part lo n R) ->
            same_var nv vi (map (fun c => nth c vars 0) cm) (fst (ren_off cm p)) = keep (fst p)).
  { intros p Hp. unfold same_var, keep, ren_off. cbn [fst]. rewrite Hvi.
    rewrite (index_of_map (fun c => nth c vars 0)) by (apply Hcm; exact Hp). reflexivity. }
  assert (Hoffd : offd il (map (ren_on lo) (on_part lo n R)) = map (ren_on lo) (on_part lo n (offd g R))).
  { rewrite <- offd_on_part. unfold offd. rewrite filter_map_comm. f_equal. apply filter_ext_in.
    intros p Hp. apply on_part_in in Hp. unfold ren_on. cbn [fst]. f_equal.
    destruct (fst p =? g) eqn:E.
    - apply Nat.eqb_eq in E. apply Nat.eqb_eq. unfold g in E. lia.
    - apply Nat.eqb_neq in E. apply Nat.eqb_neq. unfold g in E. lia. }
  assert (Hsub_on : forall p, In p (on_part lo n (offd g R)) -> In p (on_part lo n R)).
  { intros p Hp. apply on_part_in in Hp. apply on_part_in. destruct Hp as [Hp Hr]. apply filter_In in Hp. tauto. }
  (* the two thresholds coincide *)
  assert (Hthr : Permutation
            (kept_vals (same_var nv vi (firstn n (skipn lo vars))) (offd il (map (ren_on lo) (on_part lo n R))) ++
             kept_vals (same_var nv vi (map (fun c => nth c vars 0) cm)) (map (ren_off cm) (off_part lo n R)))
            (kept_vals keep (offd g R))).
  { rewrite Hoffd. unfold Strength.kept_vals. rewrite !filter_map_comm, !map_map.
    rewrite (filter_ext_in _ (fun p => keep (fst p)) (on_part lo n (offd g R)))
      by (intros p Hp; apply Hkon; apply Hsub_on; exact Hp).
    rewrite (filter_ext_in _ (fun p => keep (fst p)) (off_part lo n R)) by (intros p Hp; apply Hkoff; exact Hp).
    cbn [ren_on ren_off snd]. rewrite (off_part_offd g lo n R Hg).
    rewrite <- map_app, <- filter_app. apply Permutation_map. apply Permutation_filter. apply on_off_perm. }
  fold vi. rewrite (extreme_from_perm neg _ _ Hthr).
  set (thr := mul (extreme_from neg (sentinel neg) (kept_vals keep (offd g R))) theta).
  set (T := fun p : nat * F => keep (fst p) && passes neg thr (snd p)).
  unfold Strength.gather_row. cbn [fst snd map]. replace (il + lo) with g by (unfold g; lia).
  cbn [app]. apply perm_skip.
  (* on-process part *)
  assert (Hon : Permutation
            (map (fun p => (fst p + lo, snd p))
                 (filter (fun p => same_var nv vi (firstn n (skipn lo vars)) (fst p) && passes neg thr (snd p)) rest))
            (filter T (on_part lo n (offd g R)))).
  { rewrite Hoffd in Hperm.
    eapply Permutation_trans; [apply Permutation_map; apply (Permutation_filter_map (ren_on lo) _ _ _ Hperm)|].
    rewrite map_back.
    - rewrite (filter_ext_in _ T); [apply Permutation_refl|].
      intros p Hp. unfold T. rewrite Hkon by (apply Hsub_on; exact Hp). reflexivity.
    - intros p Hp. apply filter_In in Hp. destruct Hp as [Hp _]. apply on_part_in in Hp.
      unfold ren_on. cbn [fst snd]. destruct p as [c v]. cbn [fst snd] in *. f_equal. lia. }
  (* off-process part *)
  assert (Hoff : Permutation
            (map (fun p => (nth (fst p) cm 0, snd p))
                 (filter (fun p => same_var nv vi (map (fun c => nth c vars 0) cm) (fst p) && passes neg thr (snd p))
                         (sort_line (map (ren_off cm) (off_part lo n R)))))
            (filter T (off_part lo n (offd g R)))).
  { eapply Permutation_trans; [apply Permutation_map; apply (Permutation_filter_map (ren_off cm) _ _ _ (sort_line_perm F _))|].
    rewrite map_back.
    - rewrite <- (off_part_offd g lo n R Hg). rewrite (filter_ext_in _ T); [apply Permutation_refl|].
      intros p Hp. unfold T. rewrite Hkoff by exact Hp. reflexivity.
    - intros p Hp. apply filter_In in Hp. destruct Hp as [Hp _].
      unfold ren_off. cbn [fst snd]. destruct p as [c v]. cbn [fst snd] in *. f_equal.
      apply index_of_nth. apply (Hcm (c, v)). exact Hp. }
  eapply Permutation_trans; [apply Permutation_app; [exact Hon|exact Hoff]|].
  rewrite <- filter_app.
  eapply Permutation_trans; [apply Permutation_filter; apply on_off_perm|].
  apply Permutation_filter. apply Permutation_sym. exact Hperm_s.
Qed.

(* generic last step: filtering the renamed on/off parts and mapping back = filtering the global row *)
Lemma gather_filter_perm lo n cm (Y rest : row) (f1 f2 T : nat * F -> bool) :
  Permutation rest (map (ren_on lo) (on_part lo n Y)) ->
  (forall p, In p (off_part lo n Y) -> In (fst p) cm) ->
  (forall p, In p (on_part lo n Y) -> f1 (ren_on lo p) = T p) ->
  (forall p, In p (off_part lo n Y) -> f2 (ren_off cm p) = T p) ->
  Permutation
    (map (fun p => (fst p + lo, snd p)) (filter f1 rest) ++
     map (fun p => (nth (fst p) cm 0, snd p)) (filter f2 (sort_line (map (ren_off cm) (off_part lo n Y)))))
    (filter T Y).
Proof.
  intros Hperm Hcm H1 H2.
  assert (Hon : Permutation (map (fun p => (fst p + lo, snd p)) (filter f1 rest)) (filter T (on_part lo n Y))).
  { eapply Permutation_trans; [apply Permutation_map; apply (Permutation_filter_map (ren_on lo) _ _ _ Hperm)|].
    rewrite map_back.
    - rewrite (filter_ext_in _ T); [apply Permutation_refl|exact H1].
    - intros p Hp. apply filter_In in Hp. destruct Hp as [Hp _]. apply on_part_in in Hp.
      unfold ren_on. cbn [fst snd]. destruct p as [c v]. cbn [fst snd] in *. f_equal. lia. }
  assert (Hoff : Permutation
            (map (fun p => (nth (fst p) cm 0, snd p)) (filter f2 (sort_line (map (ren_off cm) (off_part lo n Y)))))
            (filter T (off_part lo n Y))).
  { eapply Permutation_trans;
      [apply Permutation_map; apply (Permutation_filter_map (ren_off cm) _ _ _ (sort_line_perm F _))|].
    rewrite map_back.
    - rewrite (filter_ext_in _ T); [apply Permutation_refl|exact H2].
    - intros p Hp. apply filter_In in Hp. destruct Hp as [Hp _].
      unfold ren_off. cbn [fst snd]. destruct p as [c v]. cbn [fst snd] in *. f_equal.
      apply index_of_nth. apply (Hcm (c, v)). exact Hp. }
  eapply Permutation_trans; [apply Permutation_app; [exact Hon|exact Hoff]|].
  rewrite <- filter_app. apply Permutation_filter. apply on_off_perm.
Qed.

(* ---------- symmetric measure, distributed ---------- *)
Notation par_sym_info := (par_sym_info F zero mul ltb big nbig).
Notation par_symmetric_row := (par_symmetric_row F zero ltb).

Lemma sym_info_diag theta g (R : row) d :
  NoDup (map fst R) -> In (g, d) R ->
  sym_info theta g R =
  (ltb d zero, mul (extreme_from (ltb d zero) (sentinel (ltb d zero)) (map snd (offd g R))) theta).
Proof.
  intros Hn Hd. apply (info_spec_unique theta g R); [exact Hn|apply sym_info_spec; exact Hn|].
  right. split; [intros ->; contradiction|]. exists d, (extreme_from (ltb d zero) (sentinel (ltb d zero)) (map snd (offd g R))).
  split; [left; exact Hd|]. split; [apply extreme_is_extreme|reflexivity].
Qed.

Lemma offd_ron g lo n il (R : row) : g = lo + il ->
  offd il (map (ren_on lo) (on_part lo n R)) = map (ren_on lo) (on_part lo n (offd g R)).
Proof.
  intros Eg. rewrite <- offd_on_part. unfold offd. rewrite filter_map_comm. f_equal. apply filter_ext_in.
  intros p Hp. apply on_part_in in Hp. unfold ren_on. cbn [fst]. f_equal.
  destruct (fst p =? g) eqn:E.
  - apply Nat.eqb_eq in E. apply Nat.eqb_eq. lia.
  - apply Nat.eqb_neq in E. apply Nat.eqb_neq. lia.
Qed.

Lemma par_sym_info_eq theta lo n il (R : row) cm :
  il < n -> NoDup (map fst R) -> (R = [] \/ exists d, In (lo + il, d) R) ->
  par_sym_info theta il (map (ren_on lo) (on_part lo n R)) (map (ren_off cm) (off_part lo n R)) =
  sym_info theta (lo + il) R.
Proof.
  intros Hil Hn Hd. destruct Hd as [->|[d Hd]]; [reflexivity|].
  set (g := lo + il). fold g in Hd.
  assert (Hg : lo <= g < lo + n) by (unfold g; lia).
  rewrite (sym_info_diag theta g R d Hn Hd).
  assert (Hdon : In (il, d) (map (ren_on lo) (on_part lo n R))).
  { apply in_map_iff. exists (g, d). split; [unfold ren_on, g; simpl; f_equal; lia|]. apply on_part_in. simpl. tauto. }
  unfold Strength.par_sym_info.
  destruct (prep_row_shape F il _ (ron_nodup lo n R Hn)) as [[d' [rest [Hp [Hin' [Hperm Hrest]]]]]|[_ Hno]].
  2:{ exfalso. apply (Hno _ Hdon). reflexivity. }
  assert (d' = d) by (assert (E := nodup_fst_unique F _ _ _ (ron_nodup lo n R Hn) Hin' Hdon eq_refl); congruence). subst d'.
  rewrite Hp. cbn [Strength.split_diag fst snd]. rewrite Nat.eqb_refl. f_equal. f_equal.
  rewrite extreme_from_app. apply extreme_from_perm.
  assert (Hperm' : Permutation rest (map (ren_on lo) (on_part lo n (offd g R))))
    by (rewrite <- (offd_ron g lo n il R eq_refl); exact Hperm).
  clear Hperm. rename Hperm' into Hperm.
  eapply Permutation_trans;
    [apply Permutation_app; [apply Permutation_map; exact Hperm|apply Permutation_map; apply sort_line_perm]|].
  rewrite !map_map. cbn [ren_on ren_off snd]. rewrite (off_part_offd g lo n R Hg).
  rewrite <- map_app. apply Permutation_map. apply on_off_perm.
Qed.

Lemma par_symmetric_row_eq infos infos_loc off_infos lo n il (R : row) cm :
  il < n -> NoDup (map fst R) -> (R = [] \/ exists d, In (lo + il, d) R) ->
  (forall p, In p (off_part lo n R) -> In (fst p) cm) ->
  nth il infos_loc info_default = nth (lo + il) infos info_default ->
  (forall p, In p (on_part lo n R) -> nth (fst p - lo) infos_loc info_default = nth (fst p) infos info_default) ->
  (forall p, In p (off_part lo n R) ->
             nth (index_of (fst p) cm) off_infos info_default = nth (fst p) infos info_default) ->
  Permutation
    (gather_row lo cm
       (par_symmetric_row infos_loc off_infos il
          (map (ren_on lo) (on_part lo n R)) (map (ren_off cm) (off_part lo n R))))
    (symmetric_row infos (lo + il) R).
Proof.
  intros Hil Hn Hd Hcm Hme Hon Hoff. destruct Hd as [->|[d Hd]]; [apply Permutation_refl|].
  set (g := lo + il). fold g in Hd, Hme.
  assert (Hg : lo <= g < lo + n) by (unfold g; lia).
  assert (Hne : R <> []) by (intros ->; contradiction).
  assert (Hdon : In (il, d) (map (ren_on lo) (on_part lo n R))).
  { apply in_map_iff. exists (g, d). split; [unfold ren_on, g; simpl; f_equal; lia|]. apply on_part_in. simpl. tauto. }
  rewrite symmetric_row_kernel.
  destruct (row_kernel_canon (sym_test infos g) g R (sym_test_perm_inv infos g) Hn Hne) as [d' [rest_s [Hd' [Hperm_s Heq]]]].
  rewrite Heq. clear Heq.
  assert (d' = d) by (eapply diag_is_unique; [exact Hn|exact Hd'|left; exact Hd]). subst d'.
  rewrite (existsb_diag_true g R d Hd).
  unfold Strength.par_symmetric_row.
  destruct (prep_row_shape F il _ (ron_nodup lo n R Hn)) as [[d' [rest [Hp [Hin' [Hperm Hrest]]]]]|[_ Hno]].
  2:{ exfalso. apply (Hno _ Hdon). reflexivity. }
  assert (d' = d) by (assert (E := nodup_fst_unique F _ _ _ (ron_nodup lo n R Hn) Hin' Hdon eq_refl); congruence). subst d'.
  rewrite Hp. cbn [fst snd]. unfold Strength.gather_row. cbn [fst snd map app].
  replace (il + lo) with g by (unfold g; lia). apply perm_skip.
  assert (Hperm' : Permutation rest (map (ren_on lo) (on_part lo n (offd g R))))
    by (rewrite <- (offd_ron g lo n il R eq_refl); exact Hperm).
  clear Hperm. rename Hperm' into Hperm.
  eapply Permutation_trans.
  - rewrite (off_part_offd g lo n R Hg).
    apply (gather_filter_perm lo n cm (offd g R) rest _ _ (sym_test infos g d (offd g R))).
    + exact Hperm.
    + intros p Hp'. apply Hcm. rewrite (off_part_offd g lo n R Hg). exact Hp'.
    + intros p Hp'. unfold sym_test, ren_on. cbn [fst snd]. rewrite Hme. rewrite Hon; [reflexivity|].
      apply on_part_in in Hp'. apply on_part_in. destruct Hp' as [Hp' Hr]. apply filter_In in Hp'. tauto.
    + intros p Hp'. unfold sym_test, ren_off. cbn [fst snd]. rewrite Hme. rewrite Hoff; [reflexivity|].
      rewrite (off_part_offd g lo n R Hg). exact Hp'.
  - apply Permutation_filter. apply Permutation_sym. exact Hperm_s.
Qed.

(* ---------- distributed = sequential: assembling ranks ---------- *)
(* every non-empty row stores its diagonal entry (the property's quantifier) *)
Definition rows_diag (rows : list row) : Prop :=
  forall i, nth i rows [] = [] \/ exists d, In (i, d) (nth i rows []).

Lemma indexed_combine_map {A B C} (f : A -> B) (h : A -> C) s (l : list A) :
  indexed_from s (combine (map f l) (map h l)) = map (fun ir => (fst ir, (f (snd ir), h (snd ir)))) (indexed_from s l).
Proof. revert s; induction l as [|x l IH]; intros s; simpl; [reflexivity|]. rewrite IH. reflexivity. Qed.

Lemma Forall2_indexed {A Y} (P : Y -> Y -> Prop) (g1 g2 : nat * A -> Y) lo s (l : list A) :
  (forall il r, In (il, r) (indexed_from s l) -> P (g1 (il, r)) (g2 (lo + il, r))) ->
  Forall2 P (map g1 (indexed_from s l)) (map g2 (indexed_from (lo + s) l)).
Proof.
  revert s; induction l as [|x l IH]; intros s H; simpl; [constructor|].
  constructor; [apply H; left; reflexivity|].
  replace (S (lo + s)) with (lo + S s) by lia. apply IH. intros il r Hin. apply H. right. exact Hin.
Qed.

Lemma Forall2_indexed0 {A Y} (P : Y -> Y -> Prop) (g1 g2 : nat * A -> Y) lo (l : list A) :
  (forall il r, In (il, r) (indexed_from 0 l) -> P (g1 (il, r)) (g2 (lo + il, r))) ->
  Forall2 P (map g1 (indexed_from 0 l)) (map g2 (indexed_from lo l)).
Proof. intros H. assert (G := Forall2_indexed P g1 g2 lo 0 l H). rewrite Nat.add_0_r in G. exact G. Qed.

Lemma assemble {Y} (P : Y -> Y -> Prop) (rankfn : rank_in F -> list Y) (f : nat -> row -> Y) (allrows : list row) :
  (forall lo n, lo + n <= length allrows ->
     Forall2 P (rankfn (mk_rank F lo n (firstn n (skipn lo allrows))))
               (map (fun ir => f (fst ir) (snd ir)) (indexed_from lo (firstn n (skipn lo allrows))))) ->
  forall part lo, lo + list_sum part = length allrows ->
    Forall2 P (flat_map rankfn (distribute F lo part (skipn lo allrows)))
              (map (fun ir => f (fst ir) (snd ir)) (indexed_from lo (skipn lo allrows))).
Proof.
  intros Hrank part. induction part as [|n part IH]; intros lo Hsum; simpl in *.
  - rewrite skipn_all2 by lia. constructor.
  - assert (E : indexed_from lo (skipn lo allrows) =
                indexed_from lo (firstn n (skipn lo allrows)) ++ indexed_from (lo + n) (skipn (lo + n) allrows)).
    { rewrite <- (firstn_skipn n (skipn lo allrows)) at 1.
      rewrite indexed_from_app. rewrite firstn_length_le by (rewrite skipn_length; lia).
      rewrite skipn_skipn'. reflexivity. }
    rewrite E, map_app, skipn_skipn'.
    apply Forall2_app; [apply Hrank; lia|apply IH; lia].
Qed.

Lemma Forall2_eq {Y} (l l' : list Y) : Forall2 eq l l' -> l = l'.
Proof. induction 1; congruence. Qed.

Lemma block_row lo n (allrows : list row) il r :
  In (il, r) (indexed_from 0 (firstn n (skipn lo allrows))) ->
  il < n /\ il < length (firstn n (skipn lo allrows)) /\ r = nth (lo + il) allrows [] /\ In r (firstn n (skipn lo allrows)).
Proof.
  intros H. apply indexed_from_in in H. destruct H as [[_ Hlt] Hnth]. rewrite Nat.sub_0_r in Hnth. simpl in Hlt.
  assert (Hn : il < n) by (rewrite firstn_length in Hlt; lia).
  split; [exact Hn|]. split; [exact Hlt|]. split.
  - apply nth_error_nth with (d := []) in Hnth. rewrite nth_firstn' in Hnth by exact Hn. rewrite nth_skipn' in Hnth. congruence.
  - eapply nth_error_In. exact Hnth.
Qed.

Lemma mk_rank_cm_covers lo n (blk : list row) r p :
  In r blk -> In p (off_part lo n r) -> In (fst p) (rk_colmap F (mk_rank F lo n blk)).
Proof.
  intros Hr Hp. simpl. apply sort_uniq_in. apply in_flat_map. exists r. split; [exact Hr|]. apply in_map. exact Hp.
Qed.

Notation par_classical_strength := (par_classical_strength F zero mul ltb big nbig).
Notation par_symmetric_strength := (par_symmetric_strength F zero mul ltb big nbig).

Theorem par_classical_strength_eq theta nv vars part (rows : list row) :
  rows_nodup rows -> rows_diag rows -> list_sum part = length rows ->
  Forall2 (@Permutation (nat * F))
    (par_classical_strength theta nv vars part rows)
    (classical_strength F zero mul ltb big nbig theta nv vars rows).
Proof.
  intros Hn Hd Hsum. unfold Strength.par_classical_strength, classical_strength, indexed.
  apply (assemble (@Permutation (nat * F)) _ (fun i r => classical_row theta nv vars i r) rows); [|exact Hsum].
  intros lo n Hle. set (blk := firstn n (skipn lo rows)).
  unfold Strength.par_classical_rank. cbn [rk_on rk_off rk_n rk_lo mk_rank].
  unfold indexed. rewrite indexed_combine_map, map_map. cbn [fst snd].
  apply Forall2_indexed0. intros il r Hin. cbn [fst snd].
  destruct (block_row lo n rows il r Hin) as [Hil [_ [Hr Hrin]]].
  apply (par_classical_row_eq theta nv vars lo n il r).
  - exact Hil.
  - rewrite Hr. apply rows_nodup_nth. exact Hn.
  - rewrite Hr. apply Hd.
  - intros p Hp. apply (mk_rank_cm_covers lo n blk r p Hrin Hp).
Qed.

Lemma par_sym_infos_eq theta part (rows : list row) :
  rows_nodup rows -> rows_diag rows -> list_sum part = length rows ->
  concat (map (par_sym_infos_rank F zero mul ltb big nbig theta) (distribute F 0 part rows)) =
  sym_infos F zero mul ltb big nbig theta rows.
Proof.
  intros Hn Hd Hsum. rewrite <- flat_map_concat_map. apply Forall2_eq. unfold sym_infos, indexed.
  apply (assemble eq _ (fun i r => sym_info theta i r) rows); [|exact Hsum].
  intros lo n Hle. unfold par_sym_infos_rank. cbn [rk_on rk_off mk_rank].
  unfold indexed. rewrite indexed_combine_map, map_map. cbn [fst snd].
  apply Forall2_indexed0. intros il r Hin. cbn [fst snd].
  destruct (block_row lo n rows il r Hin) as [Hil [_ [Hr Hrin]]].
  apply (par_sym_info_eq theta lo n il r).
  - exact Hil.
  - rewrite Hr. apply rows_nodup_nth. exact Hn.
  - rewrite Hr. apply Hd.
Qed.

Lemma combine_map_self {A B} (h : A -> B) (l : list A) : combine l (map h l) = map (fun x => (x, h x)) l.
Proof. induction l as [|x l IH]; simpl; [reflexivity|]. rewrite IH. reflexivity. Qed.

Lemma flat_map_map {A B C} (g : A -> B) (h : B -> list C) l : flat_map h (map g l) = flat_map (fun x => h (g x)) l.
Proof. induction l as [|x l IH]; simpl; [reflexivity|]. rewrite IH. reflexivity. Qed.

Theorem par_symmetric_strength_eq theta part (rows : list row) :
  rows_nodup rows -> rows_diag rows -> list_sum part = length rows ->
  Forall2 (@Permutation (nat * F))
    (par_symmetric_strength theta part rows)
    (symmetric_strength F zero mul ltb big nbig theta rows).
Proof.
  intros Hn Hd Hsum. unfold Strength.par_symmetric_strength. cbv zeta.
  rewrite (par_sym_infos_eq theta part rows Hn Hd Hsum).
  rewrite combine_map_self, flat_map_map. cbn [fst snd].
  unfold symmetric_strength, indexed. set (infos := sym_infos F zero mul ltb big nbig theta rows).
  apply (assemble (@Permutation (nat * F)) _ (fun i r => symmetric_row infos i r) rows); [|exact Hsum].
  intros lo n Hle. set (blk := firstn n (skipn lo rows)).
  assert (Hlen : length blk = n) by (unfold blk; rewrite firstn_length_le; [reflexivity|rewrite skipn_length; lia]).
  (* the local slice of the first loop's results *)
  assert (Hloc : forall c, c < n ->
            nth c (par_sym_infos_rank F zero mul ltb big nbig theta (mk_rank F lo n blk)) info_default =
            nth (lo + c) infos info_default).
  { intros c Hc. unfold par_sym_infos_rank. cbn [rk_on rk_off mk_rank].
    unfold indexed. rewrite indexed_combine_map, map_map. cbn [fst snd].
    fold (indexed blk). rewrite (nth_map_indexed' _ blk c [] info_default) by lia. cbn [fst snd].
    unfold infos. rewrite sym_infos_nth.
    assert (Hr : nth c blk [] = nth (lo + c) rows []) by (unfold blk; rewrite nth_firstn' by exact Hc; apply nth_skipn').
    rewrite Hr.
    apply (par_sym_info_eq theta lo n c (nth (lo + c) rows [])); [exact Hc|apply rows_nodup_nth; exact Hn|apply Hd]. }
  unfold Strength.par_symmetric_rank. cbn [rk_on rk_off rk_n rk_lo mk_rank].
  unfold indexed. rewrite indexed_combine_map, map_map. cbn [fst snd].
  apply Forall2_indexed0. intros il r Hin. cbn [fst snd].
  destruct (block_row lo n rows il r Hin) as [Hil [_ [Hr Hrin]]].
  apply (par_symmetric_row_eq infos _ _ lo n il r).
  - exact Hil.
  - rewrite Hr. apply rows_nodup_nth. exact Hn.
  - rewrite Hr. apply Hd.
  - intros p Hp. apply (mk_rank_cm_covers lo n blk r p Hrin Hp).
  - apply Hloc. exact Hil.
  - intros p Hp. apply on_part_in in Hp. destruct Hp as [_ Hp].
    rewrite Hloc by lia. f_equal. lia.
  - intros p Hp. apply (index_of_map' (fun g => nth g infos info_default)).
    apply (mk_rank_cm_covers lo n blk r p Hrin Hp).
Qed.

End Order.

(* ---------- the sentinel is unobservable in the classical measure ---------- *)
Section Sentinel.
Variable F : Type.
Variable zero : F.
Variable mul : F -> F -> F.
Variable ltb : F -> F -> bool.
Notation row := (list (nat * F)).

(* v lies strictly between the two sentinels *)
Definition inside (big nbig v : F) : Prop := ltb v big = true /\ ltb nbig v = true.

Lemma extreme_from_sentinel_indep big nbig big' nbig' neg (l : list F) :
  l <> [] -> (forall v, In v l -> inside big nbig v /\ inside big' nbig' v) ->
  extreme_from F ltb neg (sentinel F big nbig neg) l = extreme_from F ltb neg (sentinel F big' nbig' neg) l.
Proof.
  intros Hne H. destruct l as [|v l]; [contradiction|]. unfold extreme_from. simpl.
  destruct (H v (or_introl eq_refl)) as [[H1 H2] [H3 H4]].
  f_equal. unfold fstep, sentinel. destruct neg; [rewrite H2, H4|rewrite H1, H3]; reflexivity.
Qed.

Lemma classical_row_sentinel_indep big nbig big' nbig' theta nv vars i (r : row) :
  (forall p, In p r -> inside big nbig (snd p) /\ inside big' nbig' (snd p)) ->
  classical_row F zero mul ltb big nbig theta nv vars i r =
  classical_row F zero mul ltb big' nbig' theta nv vars i r.
Proof.
  intros H. unfold classical_row.
  assert (Hperm := prep_row_perm F i r).
  destruct (prep_row F i r) as [|q r'] eqn:E; [reflexivity|].
  assert (S := split_diag_shape F zero i (q :: r')).
  destruct (split_diag F zero i (q :: r')) as [[has d] rest]. cbv zeta. f_equal.
  assert (Hrest : forall p, In p rest -> In p r).
  { intros p Hp. apply (Permutation_in _ Hperm). destruct has; [rewrite S; right; exact Hp|destruct S as [S _]; rewrite <- S; exact Hp]. }
  set (keep := same_var nv (nth i vars 0) vars).
  destruct (kept_vals F keep rest) as [|v l] eqn:Ek.
  - (* no candidate: nothing passes the variable filter, the threshold is irrelevant *)
    apply filter_ext_in. intros p Hp.
    destruct (keep (fst p)) eqn:Ekp; [|reflexivity]. exfalso.
    assert (Hin : In (snd p) (kept_vals F keep rest)).
    { unfold kept_vals. apply in_map. apply filter_In. split; assumption. }
    rewrite Ek in Hin. contradiction.
  - rewrite <- Ek.
    rewrite (extreme_from_sentinel_indep big nbig big' nbig' (ltb d zero) (kept_vals F keep rest)); [reflexivity| |].
    + rewrite Ek. discriminate.
    + intros w Hw. unfold kept_vals in Hw. apply in_map_iff in Hw. destruct Hw as [p [<- Hp]].
      apply filter_In in Hp. apply H. apply Hrest. tauto.
Qed.

End Sentinel.

Lemma Forall2_nth_perm {X} (l l' : list (list X)) :
  Forall2 (@Permutation X) l l' -> forall i, Permutation (nth i l []) (nth i l' []).
Proof.
  induction 1 as [|x y l l' Hxy Hl IH]; intros i; [destruct i; constructor|].
  destruct i; [exact Hxy|apply IH].
Qed.

Lemma Forall2_length' {X Y} (P : X -> Y -> Prop) l l' : Forall2 P l l' -> length l = length l'.
Proof. induction 1; simpl; congruence. Qed.

Lemma indexed_in_rows {X} (l : list X) i r : In (i, r) (indexed l) -> In r l.
Proof. intros H. apply indexed_from_in in H. destruct H as [_ H]. eapply nth_error_In. exact H. Qed.
