(* C14: proofs about the strength-of-connection model (Amg/Strength.v). *)
From Raptor Require Import Base.Sums Sparse.Defs Amg.Strength.

(* ---------- generic list facts ---------- *)
Section Generic.
Context {X : Type}.

Lemma insert_by_perm (le : X -> X -> bool) x l : Permutation (insert_by le x l) (x :: l).
Proof.
  induction l as [|y l IH]; simpl; [apply Permutation_refl|].
  destruct (le x y); [apply Permutation_refl|].
  eapply Permutation_trans; [apply perm_skip; exact IH|apply perm_swap].
Qed.

Lemma isort_by_perm (le : X -> X -> bool) l : Permutation (isort_by le l) l.
Proof.
  induction l as [|x l IH]; simpl; [constructor|].
  eapply Permutation_trans; [apply insert_by_perm|apply perm_skip; exact IH].
Qed.

Lemma extract_first_some (p : X -> bool) l d rest :
  extract_first p l = Some (d, rest) -> p d = true /\ Permutation l (d :: rest).
Proof.
  revert d rest; induction l as [|x l IH]; simpl; intros d rest H; [discriminate|].
  destruct (p x) eqn:E.
  - inversion H; subst. split; [exact E|apply Permutation_refl].
  - destruct (extract_first p l) as [[y r]|] eqn:E2; [|discriminate].
    inversion H; subst. destruct (IH _ _ eq_refl) as [H1 H2]. split; [exact H1|].
    eapply Permutation_trans; [apply perm_skip; exact H2|apply perm_swap].
Qed.

Lemma extract_first_none (p : X -> bool) l :
  extract_first p l = None -> forall x, In x l -> p x = false.
Proof.
  induction l as [|x l IH]; simpl; intros H y Hy; [contradiction|].
  destruct (p x) eqn:E; [discriminate|].
  destruct (extract_first p l) as [[z r]|] eqn:E2; [discriminate|].
  destruct Hy as [<-|Hy]; [exact E|apply IH; [reflexivity|exact Hy]].
Qed.

Lemma Permutation_filter (p : X -> bool) l1 l2 :
  Permutation l1 l2 -> Permutation (filter p l1) (filter p l2).
Proof.
  induction 1 as [|x l1 l2 H IH|x y l|l1 l2 l3 H1 IH1 H2 IH2]; simpl.
  - constructor.
  - destruct (p x); [constructor|]; assumption.
  - destruct (p x); destruct (p y); try apply Permutation_refl. apply perm_swap.
  - eapply Permutation_trans; eassumption.
Qed.

Lemma filter_all (p : X -> bool) l : (forall x, In x l -> p x = true) -> filter p l = l.
Proof.
  induction l as [|x l IH]; simpl; intros H; [reflexivity|].
  rewrite (H x) by (left; reflexivity). f_equal. apply IH. intros; apply H; right; assumption.
Qed.

Lemma filter_nothing (p : X -> bool) l : (forall x, In x l -> p x = false) -> filter p l = [].
Proof.
  induction l as [|x l IH]; simpl; intros H; [reflexivity|].
  rewrite (H x) by (left; reflexivity). apply IH. intros; apply H; right; assumption.
Qed.

Lemma filter_split_perm (p : X -> bool) l :
  Permutation (filter p l ++ filter (fun x => negb (p x)) l) l.
Proof.
  induction l as [|x l IH]; simpl; [constructor|].
  destruct (p x); simpl.
  - apply perm_skip. exact IH.
  - eapply Permutation_trans; [apply Permutation_sym; apply Permutation_middle|]. apply perm_skip. exact IH.
Qed.

End Generic.

Section RowFacts.
Variable F : Type.
Notation row := (list (nat * F)).

Lemma sort_line_perm (r : row) : Permutation (sort_line r) r.
Proof. apply isort_by_perm. Qed.

Lemma move_diag_line_perm i (r : row) : Permutation (move_diag_line i r) r.
Proof.
  unfold move_diag_line. destruct (extract_first _ r) as [[d rest]|] eqn:E; [|apply Permutation_refl].
  apply extract_first_some in E. apply Permutation_sym. tauto.
Qed.

Lemma prep_row_perm i (r : row) : Permutation (prep_row F i r) r.
Proof. unfold prep_row. eapply Permutation_trans; [apply move_diag_line_perm|apply sort_line_perm]. Qed.

(* uniqueness of the entry of a given column in a duplicate-free row *)
Lemma nodup_fst_unique (r : row) p q :
  NoDup (map fst r) -> In p r -> In q r -> fst p = fst q -> p = q.
Proof.
  induction r as [|x r IH]; simpl; intros Hn Hp Hq He; [contradiction|].
  inversion Hn as [|? ? Hx Hn']; subst.
  destruct Hp as [->|Hp]; destruct Hq as [->|Hq]; try reflexivity.
  - exfalso. apply Hx. rewrite He. apply in_map. exact Hq.
  - exfalso. apply Hx. rewrite <- He. apply in_map. exact Hp.
  - apply IH; assumption.
Qed.

(* shape of a prepared row: the diagonal entry first when one is stored, no diagonal at all otherwise *)
Lemma prep_row_shape i (r : row) :
  NoDup (map fst r) ->
  (exists d rest, prep_row F i r = (i, d) :: rest /\ In (i, d) r /\
                  Permutation rest (filter (fun q => negb (fst q =? i)) r) /\
                  (forall q, In q rest -> fst q <> i))
  \/ (Permutation (prep_row F i r) r /\ forall q, In q r -> fst q <> i).
Proof.
  intros Hn. unfold prep_row, move_diag_line.
  assert (Hs := sort_line_perm r).
  destruct (extract_first _ (sort_line r)) as [[d rest]|] eqn:E.
  - left. apply extract_first_some in E. destruct E as [Hd Hp]. simpl in Hd. apply Nat.eqb_eq in Hd.
    destruct d as [c v]. simpl in Hd. subst c.
    assert (Hp' : Permutation r ((i, v) :: rest)) by (eapply Permutation_trans; [apply Permutation_sym; exact Hs|exact Hp]).
    assert (Hn' : NoDup (map fst ((i, v) :: rest))) by (eapply Permutation_NoDup; [apply Permutation_map; exact Hp'|exact Hn]).
    simpl in Hn'. inversion Hn' as [|? ? Hx Hn'']; subst.
    assert (Hrest : forall q, In q rest -> fst q <> i).
    { intros q Hq Heq. apply Hx. rewrite <- Heq. apply in_map. exact Hq. }
    exists v, rest. split; [reflexivity|]. split.
    + eapply Permutation_in; [apply Permutation_sym; exact Hp'|left; reflexivity].
    + split; [|exact Hrest].
      eapply Permutation_trans; [|apply Permutation_filter; apply Permutation_sym; exact Hp'].
      simpl. rewrite Nat.eqb_refl. simpl. rewrite filter_all; [apply Permutation_refl|].
      intros q Hq. apply Hrest in Hq. apply Bool.negb_true_iff. apply Nat.eqb_neq. exact Hq.
  - right. split; [exact Hs|].
    intros q Hq. assert (H := extract_first_none _ _ E q).
    simpl in H. apply Nat.eqb_neq. apply H. eapply Permutation_in; [apply Permutation_sym; exact Hs|exact Hq].
Qed.

End RowFacts.

(* ---------- the ordered field: only these three facts about  <  are used ---------- *)
Section Order.
Variable F : Type.
Variable zero : F.
Variable mul : F -> F -> F.
Variable ltb : F -> F -> bool.
Variables big nbig : F.
Hypothesis ltb_trans : forall a b c, ltb a b = true -> ltb b c = true -> ltb a c = true.
Hypothesis ltb_asym : forall a b, ltb a b = true -> ltb b a = false.
Hypothesis ltb_total : forall a b, ltb a b = false -> ltb b a = false -> a = b.

Notation row := (list (nat * F)).
Notation fstep := (fstep F ltb).
Notation extreme_from := (extreme_from F ltb).
Notation sentinel := (sentinel F big nbig).
Notation passes := (passes F ltb).
Notation kept_vals := (kept_vals F).
Notation prep_row := (prep_row F).
Notation split_diag := (split_diag F zero).
Notation classical_row := (classical_row F zero mul ltb big nbig).

Lemma ltb_irrefl a : ltb a a = false.
Proof. destruct (ltb a a) eqn:E; [|reflexivity]. rewrite (ltb_asym _ _ E) in E. discriminate. Qed.

Lemma ltb_negtrans a b c : ltb a b = false -> ltb b c = false -> ltb a c = false.
Proof.
  intros H1 H2. destruct (ltb a c) eqn:E; [|reflexivity]. exfalso.
  destruct (ltb b a) eqn:E2.
  - rewrite (ltb_trans _ _ _ E2 E) in H2. discriminate.
  - assert (a = b) by (apply ltb_total; assumption). subst. rewrite E in H2. discriminate.
Qed.

(* `m` is not beaten by `v`:  neg (maximum): not m < v;   otherwise (minimum): not v < m *)
Definition bound (neg : bool) (m v : F) : Prop := (if neg then ltb m v else ltb v m) = false.

Lemma bound_refl neg m : bound neg m m.
Proof. unfold bound. destruct neg; apply ltb_irrefl. Qed.

Lemma bound_trans neg a b c : bound neg a b -> bound neg b c -> bound neg a c.
Proof. unfold bound. destruct neg; intros; eapply ltb_negtrans; eassumption. Qed.

Lemma fstep_cases neg a v :
  (fstep neg a v = a \/ fstep neg a v = v) /\ bound neg (fstep neg a v) a /\ bound neg (fstep neg a v) v.
Proof.
  unfold Strength.fstep, bound. destruct neg.
  - destruct (ltb a v) eqn:E.
    + split; [right; reflexivity|]. split; [apply ltb_asym; exact E|apply ltb_irrefl].
    + split; [left; reflexivity|]. split; [apply ltb_irrefl|exact E].
  - destruct (ltb v a) eqn:E.
    + split; [right; reflexivity|]. split; [apply ltb_asym; exact E|apply ltb_irrefl].
    + split; [left; reflexivity|]. split; [apply ltb_irrefl|exact E].
Qed.

(* the fold computes an element of init :: l that no element of init :: l beats *)
Lemma extreme_from_spec neg a l :
  In (extreme_from neg a l) (a :: l) /\ forall v, In v (a :: l) -> bound neg (extreme_from neg a l) v.
Proof.
  revert a; induction l as [|x l IH]; intros a; unfold Strength.extreme_from in *; simpl.
  - split; [left; reflexivity|]. intros v [<-|[]]. apply bound_refl.
  - destruct (IH (fstep neg a x)) as [Hin Hb]. destruct (fstep_cases neg a x) as [Hc [Hba Hbx]].
    split.
    + simpl in Hin. destruct Hin as [Hin|Hin]; [|right; right; exact Hin].
      rewrite <- Hin. destruct Hc as [->| ->]; [left|right; left]; reflexivity.
    + assert (H0 := Hb _ (or_introl eq_refl)).
      intros v [<-|[<-|Hv]].
      * eapply bound_trans; eassumption.
      * eapply bound_trans; eassumption.
      * apply Hb. right. exact Hv.
Qed.

(* the property-level notion: m is THE extreme (max if neg, min otherwise) of the sentinel and the values *)
Definition is_extreme (neg : bool) (m : F) (l : list F) : Prop :=
  In m (sentinel neg :: l) /\ forall v, In v (sentinel neg :: l) -> bound neg m v.

Lemma is_extreme_unique neg m m' l : is_extreme neg m l -> is_extreme neg m' l -> m = m'.
Proof.
  intros [H1 H2] [H3 H4]. assert (A := H2 _ H3). assert (B := H4 _ H1). unfold bound in *.
  destruct neg; [apply ltb_total|symmetry; apply ltb_total]; assumption.
Qed.

Lemma extreme_is_extreme neg l : is_extreme neg (extreme_from neg (sentinel neg) l) l.
Proof. apply extreme_from_spec. Qed.

Lemma is_extreme_perm neg m l l' : Permutation l l' -> is_extreme neg m l -> is_extreme neg m l'.
Proof.
  intros Hp [H1 H2]. assert (Hp' : Permutation (sentinel neg :: l) (sentinel neg :: l')) by (apply perm_skip; exact Hp).
  split; [eapply Permutation_in; eassumption|].
  intros v Hv. apply H2. eapply Permutation_in; [apply Permutation_sym; exact Hp'|exact Hv].
Qed.

Lemma extreme_from_perm neg l l' :
  Permutation l l' -> extreme_from neg (sentinel neg) l = extreme_from neg (sentinel neg) l'.
Proof.
  intros Hp. apply (is_extreme_unique neg _ _ l').
  - eapply is_extreme_perm; [exact Hp|apply extreme_is_extreme].
  - apply extreme_is_extreme.
Qed.

Lemma extreme_from_app neg a l1 l2 :
  extreme_from neg (extreme_from neg a l1) l2 = extreme_from neg a (l1 ++ l2).
Proof. unfold Strength.extreme_from. rewrite fold_left_app. reflexivity. Qed.

Lemma kept_vals_perm keep (r r' : row) : Permutation r r' -> Permutation (kept_vals keep r) (kept_vals keep r').
Proof. intros H. unfold Strength.kept_vals. apply Permutation_map. apply Permutation_filter. exact H. Qed.

(* off-diagonal part of row i *)
Definition offd (i : nat) (r : row) : row := filter (fun q => negb (fst q =? i)) r.
(* the diagonal value the kernel works with: the stored one, 0.0 when none is stored *)
Definition diag_is (i : nat) (r : row) (d : F) : Prop :=
  In (i, d) r \/ ((forall q, In q r -> fst q <> i) /\ d = zero).

Lemma diag_is_unique i (r : row) d d' : NoDup (map fst r) -> diag_is i r d -> diag_is i r d' -> d = d'.
Proof.
  intros Hn [H1|[H1 ->]] [H2|[H2 ->]].
  - assert (E := nodup_fst_unique F r _ _ Hn H1 H2 eq_refl). congruence.
  - exfalso. apply (H2 _ H1). reflexivity.
  - exfalso. apply (H1 _ H2). reflexivity.
  - reflexivity.
Qed.

Lemma offd_nodiag i (r : row) : (forall q, In q r -> fst q <> i) -> offd i r = r.
Proof.
  intros H. unfold offd. apply filter_all. intros q Hq. apply Bool.negb_true_iff. apply Nat.eqb_neq. apply H. exact Hq.
Qed.

Lemma prep_row_nil i (r : row) : prep_row i r = [] -> r = [].
Proof. intros H. assert (P := prep_row_perm F i r). rewrite H in P. apply Permutation_nil in P. exact P. Qed.

(* canonical form of one row of classical_strength *)
Lemma classical_row_canon theta nv vars i (r : row) :
  NoDup (map fst r) -> r <> [] ->
  exists d rest,
    diag_is i r d /\ Permutation rest (offd i r) /\
    let neg := ltb d zero in
    let keep := same_var nv (nth i vars 0) vars in
    let thr := mul (extreme_from neg (sentinel neg) (kept_vals keep (offd i r))) theta in
    classical_row theta nv vars i r =
      (if existsb (fun q => fst q =? i) r then [(i, d)] else []) ++
      filter (fun p => keep (fst p) && passes neg thr (snd p)) rest.
Proof.
  intros Hn Hne. unfold Strength.classical_row.
  destruct (prep_row_shape F i r Hn) as [[d [rest [Hp [Hin [Hperm Hrest]]]]]|[Hperm Hno]].
  - exists d, rest. split; [left; exact Hin|]. split; [exact Hperm|].
    rewrite Hp. cbn [Strength.split_diag fst snd]. rewrite Nat.eqb_refl.
    replace (existsb (fun q => fst q =? i) r) with true
      by (symmetry; apply existsb_exists; exists (i, d); split; [exact Hin|apply Nat.eqb_refl]).
    cbv zeta. rewrite (extreme_from_perm _ _ _ (kept_vals_perm _ _ _ Hperm)). reflexivity.
  - exists zero, (prep_row i r). split; [right; split; [exact Hno|reflexivity]|].
    rewrite (offd_nodiag i r Hno). split; [exact Hperm|].
    replace (existsb (fun q => fst q =? i) r) with false.
    2:{ symmetry. apply Bool.not_true_is_false. intros H. apply existsb_exists in H. destruct H as [q [Hq He]].
        apply Nat.eqb_eq in He. exact (Hno q Hq He). }
    destruct (prep_row i r) as [|p r'] eqn:E; [apply prep_row_nil in E; contradiction|].
    assert (Hp : fst p <> i) by (apply Hno; eapply Permutation_in; [exact Hperm|left; reflexivity]).
    cbn [Strength.split_diag]. apply Nat.eqb_neq in Hp. rewrite Hp. cbv zeta.
    rewrite (extreme_from_perm _ _ _ (kept_vals_perm _ _ _ Hperm)). reflexivity.
Qed.

Lemma classical_row_nil theta nv vars i : classical_row theta nv vars i [] = [].
Proof. reflexivity. Qed.

(* ---------- classical: the three clauses of the property, row level ---------- *)
Lemma split_diag_shape i (r' : row) :
  match split_diag i r' with
  | (true, d, rest) => r' = (i, d) :: rest
  | (false, d, rest) => rest = r' /\ d = zero
  end.
Proof.
  destruct r' as [|[c v] r'']; simpl; [split; reflexivity|].
  destruct (c =? i) eqn:E; [apply Nat.eqb_eq in E; subst; reflexivity|split; reflexivity].
Qed.

Lemma classical_row_subset theta nv vars i (r : row) p :
  In p (classical_row theta nv vars i r) -> In p r.
Proof.
  unfold Strength.classical_row. intros H.
  apply (Permutation_in _ (prep_row_perm F i r)).
  destruct (prep_row i r) as [|q r'] eqn:E; [contradiction|].
  assert (S := split_diag_shape i (q :: r')).
  destruct (split_diag i (q :: r')) as [[has d] rest]. cbv zeta in H.
  apply in_app_or in H. destruct has.
  - rewrite S. destruct H as [[<-|[]]|H]; [left; reflexivity|right]. apply filter_In in H. tauto.
  - destruct S as [S _]. rewrite <- S. destruct H as [[]|H]. apply filter_In in H. tauto.
Qed.

Lemma existsb_diag_true i (r : row) d : In (i, d) r -> existsb (fun q => fst q =? i) r = true.
Proof. intros H. apply existsb_exists. exists (i, d). split; [exact H|apply Nat.eqb_refl]. Qed.

Lemma classical_row_diag theta nv vars i (r : row) d :
  NoDup (map fst r) -> In (i, d) r -> In (i, d) (classical_row theta nv vars i r).
Proof.
  intros Hn Hin. assert (Hne : r <> []) by (intros ->; contradiction).
  destruct (classical_row_canon theta nv vars i r Hn Hne) as [d' [rest [Hd [_ Heq]]]].
  cbv zeta in Heq. rewrite Heq. rewrite (existsb_diag_true i r d Hin).
  assert (d = d') by (eapply diag_is_unique; [exact Hn|left; exact Hin|exact Hd]). subst d'.
  left. reflexivity.
Qed.

(* THE documented test, classical measure.  Entry (j,v) of row i (j <> i) is strong iff it is of the same
   variable as i (always, when num_variables = 1) and lies strictly beyond theta times the extreme
   same-variable off-diagonal of the row: the MAXIMUM when the diagonal is negative (v > theta*max), the MINIMUM
   when the diagonal is >= 0 or absent (v < theta*min); the extreme of no candidate is the sentinel -+RAND_MAX. *)
Definition strong_classical (theta : F) (keep : nat -> bool) (i : nat) (r : row) (j : nat) (v : F) : Prop :=
  j <> i /\ In (j, v) r /\ keep j = true /\
  exists d m, diag_is i r d /\
              is_extreme (ltb d zero) m (kept_vals keep (offd i r)) /\
              passes (ltb d zero) (mul m theta) v = true.

Lemma classical_row_test theta nv vars i (r : row) j v :
  NoDup (map fst r) ->
  (In (j, v) (classical_row theta nv vars i r) /\ j <> i) <->
  strong_classical theta (same_var nv (nth i vars 0) vars) i r j v.
Proof.
  intros Hn. destruct r as [|p0 r0] eqn:Er.
  { rewrite classical_row_nil. split; [intros [[] _]|intros [_ [[] _]]]. }
  rewrite <- Er in *. assert (Hne : r <> []) by (rewrite Er; discriminate).
  destruct (classical_row_canon theta nv vars i r Hn Hne) as [d [rest [Hd [Hperm Heq]]]].
  cbv zeta in Heq. rewrite Heq. clear Heq. split.
  - intros [Hin Hji]. apply in_app_or in Hin. destruct Hin as [Hin|Hin].
    { destruct (existsb _ r); [destruct Hin as [E|[]]; inversion E; congruence|contradiction]. }
    apply filter_In in Hin. destruct Hin as [Hin Hc]. apply Bool.andb_true_iff in Hc. destruct Hc as [Hk Hp].
    simpl in Hk, Hp. split; [exact Hji|]. split.
    { apply (Permutation_in _ Hperm) in Hin. apply filter_In in Hin. tauto. }
    split; [exact Hk|]. exists d, (extreme_from (ltb d zero) (sentinel (ltb d zero))
                                     (kept_vals (same_var nv (nth i vars 0) vars) (offd i r))).
    split; [exact Hd|]. split; [apply extreme_is_extreme|exact Hp].
  - intros [Hji [Hin [Hk [d' [m [Hd' [Hm Hp]]]]]]].
    assert (d' = d) by (eapply diag_is_unique; eassumption). subst d'.
    assert (m = extreme_from (ltb d zero) (sentinel (ltb d zero))
                  (kept_vals (same_var nv (nth i vars 0) vars) (offd i r)))
      by (eapply is_extreme_unique; [exact Hm|apply extreme_is_extreme]). subst m.
    split; [|exact Hji]. apply in_or_app. right. apply filter_In. split.
    + apply (Permutation_in _ (Permutation_sym Hperm)). apply filter_In. split; [exact Hin|].
      simpl. apply Bool.negb_true_iff. apply Nat.eqb_neq. exact Hji.
    + simpl. rewrite Hk, Hp. reflexivity.
Qed.

Lemma NoDup_map_filter {A B} (f : A -> B) (p : A -> bool) l : NoDup (map f l) -> NoDup (map f (filter p l)).
Proof.
  induction l as [|x l IH]; simpl; intros H; [constructor|].
  inversion H as [|? ? Hx Hn]; subst. destruct (p x); simpl; [|apply IH; exact Hn].
  constructor; [|apply IH; exact Hn]. intros Hin. apply Hx. apply in_map_iff in Hin.
  destruct Hin as [y [Hy Hin]]. apply filter_In in Hin. rewrite <- Hy. apply in_map. tauto.
Qed.

Lemma classical_row_nodup theta nv vars i (r : row) :
  NoDup (map fst r) -> NoDup (map fst (classical_row theta nv vars i r)).
Proof.
  intros Hn. destruct r as [|p0 r0] eqn:Er; [rewrite classical_row_nil; constructor|].
  rewrite <- Er in *. assert (Hne : r <> []) by (rewrite Er; discriminate).
  destruct (classical_row_canon theta nv vars i r Hn Hne) as [d [rest [Hd [Hperm Heq]]]].
  cbv zeta in Heq. rewrite Heq. clear Heq.
  assert (Hnr : NoDup (map fst rest)).
  { eapply Permutation_NoDup; [apply Permutation_map; apply Permutation_sym; exact Hperm|].
    apply NoDup_map_filter. exact Hn. }
  destruct (existsb _ r); simpl; [|apply NoDup_map_filter; exact Hnr].
  constructor; [|apply NoDup_map_filter; exact Hnr].
  intros Hin. apply in_map_iff in Hin. destruct Hin as [q [Hq Hin]]. apply filter_In in Hin.
  destruct Hin as [Hin _]. apply (Permutation_in _ Hperm) in Hin. apply filter_In in Hin.
  destruct Hin as [_ Hc]. apply Bool.negb_true_iff in Hc. apply Nat.eqb_neq in Hc. exact (Hc Hq).
Qed.

(* ---------- matrix level ---------- *)
Lemma nth_map_indexed {A B} (f : nat -> A -> B) (l : list A) i dA dB :
  i < length l -> nth i (map (fun ir => f (fst ir) (snd ir)) (indexed l)) dB = f i (nth i l dA).
Proof.
  intros H. unfold indexed. rewrite (indexed_from_seq 0 l dA), map_map. cbn [fst snd].
  rewrite nth_map_seq by exact H. rewrite Nat.sub_0_r. reflexivity.
Qed.

Definition rows_nodup (rows : list row) : Prop := forall r, In r rows -> NoDup (map fst r).

Lemma rows_nodup_nth rows i : rows_nodup rows -> NoDup (map fst (nth i rows [])).
Proof.
  intros H. destruct (Nat.lt_ge_cases i (length rows)) as [Hi|Hi].
  - apply H. apply nth_In. exact Hi.
  - rewrite nth_overflow by exact Hi. constructor.
Qed.

Lemma classical_strength_length theta nv vars rows :
  length (classical_strength F zero mul ltb big nbig theta nv vars rows) = length rows.
Proof. unfold classical_strength, indexed. rewrite map_length, indexed_from_length. reflexivity. Qed.

Lemma classical_strength_nth theta nv vars rows i :
  nth i (classical_strength F zero mul ltb big nbig theta nv vars rows) [] =
  classical_row theta nv vars i (nth i rows []).
Proof.
  destruct (Nat.lt_ge_cases i (length rows)) as [Hi|Hi].
  - unfold classical_strength. apply (nth_map_indexed (fun i r => classical_row theta nv vars i r)). exact Hi.
  - rewrite nth_overflow by (rewrite classical_strength_length; exact Hi).
    rewrite (nth_overflow rows) by exact Hi. reflexivity.
Qed.

End Order.
