(* C16, prolongation smoothing: proofs about the model in Amg/Prolong.v (SpGEMM row model, subtract,
   row scaling, the smoothing loop, and the distributed row-block version). *)
From Raptor Require Import Base.Sums Sparse.Defs Sparse.ConvertProofs Amg.Candidates Amg.CandidatesProofs Amg.Prolong.
From Coq Require Import Field.

(* ---------- list facts ---------- *)
Lemma zip_rows_nth {T} (ra rb : list (list (nat * T))) i :
  length rb <= length ra ->
  nth i (zip_rows T ra rb) [] = nth i ra [] ++ nth i rb [].
Proof.
  revert rb i; induction ra as [|a ra IH]; intros rb i H.
  - destruct rb; [|simpl in H; lia]. destruct i; reflexivity.
  - destruct rb as [|b rb]; simpl.
    + destruct i; simpl; [rewrite app_nil_r; reflexivity|].
      rewrite (IH [] i) by (simpl; lia). destruct i; reflexivity.
    + destruct i; simpl; [reflexivity|]. apply IH. simpl in H. lia.
Qed.

Lemma zip_rows_length {T} (ra rb : list (list (nat * T))) : length (zip_rows T ra rb) = length ra.
Proof.
  revert rb; induction ra as [|a ra IH]; intros rb; [reflexivity|].
  destruct rb; simpl; rewrite IH; reflexivity.
Qed.

Lemma split_by_map {X Y} (g : X -> Y) sizes (l : list X) :
  split_by sizes (map g l) = map (map g) (split_by sizes l).
Proof.
  revert l; induction sizes as [|m s IH]; intros l; simpl; [reflexivity|].
  rewrite firstn_map, skipn_map, IH. reflexivity.
Qed.

Lemma concat_map_map {X Y} (g : X -> Y) (ll : list (list X)) :
  concat (map (map g) ll) = map g (concat ll).
Proof. rewrite concat_map. reflexivity. Qed.

Lemma nth_map' {X Y} (f : X -> Y) l i dx dy : f dx = dy -> nth i (map f l) dy = f (nth i l dx).
Proof. intros <-. apply map_nth. Qed.

(* insertion sort by column: permutation and sortedness *)
Section SortFacts.
Variable T : Type.
Fixpoint sorted_from (c : nat) (l : list (nat * T)) : Prop :=
  match l with [] => True | p :: l' => c <= fst p /\ sorted_from (fst p) l' end.

Lemma sorted_from_weaken c c' l : c' <= c -> sorted_from c l -> sorted_from c' l.
Proof. destruct l as [|p l]; simpl; [tauto|]. intros H [H1 H2]. split; [lia|exact H2]. Qed.

Lemma insert_sorted c x l :
  sorted_from c l -> c <= fst x -> sorted_from c (insert_by (@le_fst T) x l).
Proof.
  revert c; induction l as [|y l IH]; intros c Hs Hc; simpl.
  - split; [exact Hc|exact I].
  - destruct Hs as [H1 H2]. unfold le_fst at 1. destruct (fst x <=? fst y) eqn:E.
    + apply Nat.leb_le in E. simpl. repeat split; assumption.
    + apply Nat.leb_gt in E. simpl. split; [exact H1|]. apply IH; [exact H2|lia].
Qed.

Lemma isort_sorted l : sorted_from 0 (isort_by (@le_fst T) l).
Proof.
  induction l as [|x l IH]; simpl; [exact I|]. apply insert_sorted; [exact IH|lia].
Qed.

Lemma insert_perm (x : nat * T) l : Permutation (insert_by (@le_fst T) x l) (x :: l).
Proof.
  induction l as [|y l IH]; simpl; [apply Permutation_refl|].
  destruct (le_fst x y); [apply Permutation_refl|].
  eapply Permutation_trans; [apply perm_skip; exact IH|apply perm_swap].
Qed.

Lemma isort_perm (l : list (nat * T)) : Permutation (isort_by (@le_fst T) l) l.
Proof.
  induction l as [|x l IH]; simpl; [constructor|].
  eapply Permutation_trans; [apply insert_perm|apply perm_skip; exact IH].
Qed.
End SortFacts.

Section ProlongProofs.
Variable F : Type.
Variables (zero one : F) (add mul sub : F -> F -> F) (opp : F -> F) (div : F -> F -> F) (inv : F -> F).
Variable Fth : field_theory zero one add mul sub opp div inv (@eq F).
Let Rth := F_R Fth.
Add Field FfieldP : Fth.

Variable le : F -> F -> Prop.
Hypothesis le_refl : forall a, le a a.
Hypothesis le_antisym : forall a b, le a b -> le b a -> a = b.
Hypothesis le_trans : forall a b c, le a b -> le b c -> le a c.
Hypothesis le_total : forall a b, le a b \/ le b a.
Hypothesis le_add_r : forall a b c, le a b -> le (add a c) (add b c).
Variable ltb : F -> F -> bool.
Hypothesis ltb_spec : forall a b, ltb a b = true <-> (le a b /\ a <> b).
Variable eqb : F -> F -> bool.
Hypothesis eqb_spec : forall a b, eqb a b = true <-> a = b.
Variable small : F -> bool.
Variable small2 : F -> bool.
Hypothesis small_zero : small zero = true.
Hypothesis small2_zero : small2 zero = true.

Notation "0" := zero.
Notation "1" := one.
Infix "+" := add.
Infix "*" := mul.
Infix "-" := sub.
Infix "/" := div.
Infix "<=" := le.
Notation sumF := (sumf F zero add).
Notation denL := (den_line F zero add).
Notation denCsr := (den_csr F zero add).
Notation dropS := (drop F zero small).
Definition drop2 (x : F) : F := if small2 x then 0 else x.
Notation spgemmF := (csr_spgemm F zero add mul small2).
Notation spgemm_rowF := (spgemm_row F zero add mul small2).
Notation contribsF := (contribs F mul).
Notation subF := (csr_subtract F add opp small).
Notation absf := (absF F zero opp ltb).
Notation row_abs := (row_abs_sum F zero add opp ltb).
Notation inv_sumF := (inv_sum F zero one add mul opp div ltb eqb).
Notation scale_rowsF := (scale_rows F zero one add mul opp div ltb eqb).
Notation stepF := (jacobi_step F zero add mul opp small small2).
Notation iterF := (jacobi_iter F zero add mul opp small small2).

Lemma dropS_zero : dropS 0 = 0.
Proof. unfold drop. destruct (small 0); reflexivity. Qed.
Lemma drop2_zero : drop2 0 = 0.
Proof. unfold drop2. destruct (small2 0); reflexivity. Qed.

(* ---------- den_line algebra ---------- *)
Lemma den_line_cons p l j : denL (p :: l) j = (if fst p =? j then snd p else 0) + denL l j.
Proof. unfold den_line; simpl. destruct (fst p =? j); simpl; ring. Qed.

Lemma den_line_scale_l a r j : denL (map (fun q => (fst q, a * snd q)) r) j = a * denL r j.
Proof.
  induction r as [|q r IH]; [unfold den_line; simpl; ring|].
  simpl map. rewrite !den_line_cons, IH. simpl. destruct (fst q =? j); ring.
Qed.

Lemma den_line_scale_r a r j : denL (map (fun q => (fst q, snd q * a)) r) j = denL r j * a.
Proof.
  induction r as [|q r IH]; [unfold den_line; simpl; ring|].
  simpl map. rewrite !den_line_cons, IH. simpl. destruct (fst q =? j); ring.
Qed.

Lemma den_line_neg r j : denL (neg_line F opp r) j = opp (denL r j).
Proof.
  unfold neg_line. induction r as [|q r IH]; [unfold den_line; simpl; ring|].
  simpl map. rewrite !den_line_cons, IH. simpl. destruct (fst q =? j); ring.
Qed.

Lemma den_line_flat_map {X} (f : X -> list (nat * F)) l j :
  denL (flat_map f l) j = sumF (map (fun x => denL (f x) j) l).
Proof.
  induction l as [|x l IH]; simpl; [reflexivity|].
  rewrite (den_line_app F zero one add mul sub opp Rth), IH. reflexivity.
Qed.

Lemma den_line_no_col r j : (forall q, In q r -> fst q <> j) -> denL r j = 0.
Proof.
  induction r as [|q r IH]; intros H; [reflexivity|].
  rewrite den_line_cons, IH by (intros; apply H; right; assumption).
  replace (fst q =? j) with false by (symmetry; apply Nat.eqb_neq; apply H; left; reflexivity). ring.
Qed.

(* ---------- SpGEMM ---------- *)
Lemma den_contribs ra Brows j :
  denL (contribsF ra Brows) j = sumF (map (fun p => snd p * denL (nth (fst p) Brows []) j) ra).
Proof.
  unfold contribs. rewrite den_line_flat_map. apply sumf_map_ext. intros p _. apply den_line_scale_l.
Qed.

Lemma col_sum_den cs c : col_sum F zero add cs c = denL cs c.
Proof.
  unfold col_sum, den_line.
  rewrite (fold_left_add_sumf F zero one add mul sub opp div inv Fth). ring.
Qed.

Lemma den_spgemm_row ra Brows j :
  denL (spgemm_rowF ra Brows) j = drop2 (denL (contribsF ra Brows) j).
Proof.
  unfold spgemm_row. set (cs := contribsF ra Brows).
  rewrite den_line_flat_map.
  assert (Hterm : forall c, denL (if small2 (col_sum F zero add cs c) then [] else [(c, col_sum F zero add cs c)]) j
                       = if c =? j then drop2 (denL cs j) else 0).
  { intros c. rewrite col_sum_den. unfold drop2.
    destruct (c =? j) eqn:E.
    - apply Nat.eqb_eq in E. subst c. destruct (small2 (denL cs j)); [reflexivity|].
      rewrite den_line_cons. simpl. rewrite Nat.eqb_refl. unfold den_line; simpl. ring.
    - destruct (small2 (denL cs c)); [reflexivity|].
      rewrite den_line_cons. simpl. rewrite E. unfold den_line; simpl. ring. }
  rewrite (sumf_map_ext F zero add _ (fun c => if c =? j then drop2 (denL cs j) else 0)) by (intros; apply Hterm).
  unfold touched.
  destruct (in_dec Nat.eq_dec j (map fst cs)) as [Hin|Hnin].
  - assert (Hin' : In j (nodup Nat.eq_dec (rev (map fst cs)))) by (apply nodup_In, in_rev; rewrite rev_involutive; exact Hin).
    assert (Hnd := NoDup_nodup Nat.eq_dec (rev (map fst cs))).
    revert Hin' Hnd. generalize (nodup Nat.eq_dec (rev (map fst cs))). intros l.
    induction l as [|c l IH]; intros Hi Hnd; [contradiction|].
    simpl. inversion Hnd as [|? ? Hc Hnd']; subst.
    destruct (c =? j) eqn:E.
    + apply Nat.eqb_eq in E. subst c.
      rewrite (sumf_map_ext F zero add _ (fun _ => 0)).
      * rewrite (sumf_map_zero F zero one add mul sub opp Rth). ring.
      * intros c Hc'. replace (c =? j) with false; [reflexivity|].
        symmetry. apply Nat.eqb_neq. intros ->. contradiction.
    + destruct Hi as [Hi|Hi]; [apply Nat.eqb_neq in E; contradiction|].
      rewrite IH by assumption. ring.
  - rewrite (sumf_map_ext F zero add _ (fun _ => 0)).
    + rewrite (sumf_map_zero F zero one add mul sub opp Rth).
      rewrite (den_line_no_col cs j); [symmetry; apply drop2_zero|].
      intros q Hq E. apply Hnin. rewrite <- E. apply in_map. exact Hq.
    + intros c Hc. apply nodup_In in Hc. apply in_rev in Hc.
      replace (c =? j) with false; [reflexivity|]. symmetry. apply Nat.eqb_neq. intros ->. contradiction.
Qed.

(* regrouping a sum over stored entries into a sum over column indices *)
Lemma sum_regroup (ra : list (nat * F)) (f : nat -> F) m :
  (forall k, (m <= k)%nat -> f k = 0) ->
  sumF (map (fun p => snd p * f (fst p)) ra) = sumF (map (fun k => denL ra k * f k) (seq 0 m)).
Proof.
  intros Hf. induction ra as [|p ra IH]; simpl.
  - rewrite (sumf_map_ext F zero add _ (fun _ => 0)); [symmetry; apply (sumf_map_zero F zero one add mul sub opp Rth)|].
    intros k _. unfold den_line; simpl. ring.
  - rewrite IH.
    rewrite (sumf_map_ext F zero add (fun k => denL (p :: ra) k * f k)
               (fun k => (if k =? fst p then snd p * f k else 0) + denL ra k * f k)).
    + rewrite (sumf_map_add F zero one add mul sub opp Rth).
      rewrite (sumf_seq_delta F zero one add mul sub opp div inv Fth (fun k => snd p * f k)).
      destruct (fst p <? m) eqn:E; [reflexivity|].
      apply Nat.ltb_ge in E. rewrite (Hf _ E). ring.
    + intros k _. rewrite den_line_cons. rewrite (Nat.eqb_sym k (fst p)). destruct (fst p =? k); ring.
Qed.

Lemma nth_rows_overflow (rows : list (list (nat * F))) k j : (length rows <= k)%nat -> denL (nth k rows []) j = 0.
Proof. intros H. rewrite nth_overflow by exact H. reflexivity. Qed.

Theorem den_spgemm (A B : csr F) i j :
  denCsr (spgemmF A B) i j =
  drop2 (sumF (map (fun k => denCsr A i k * denCsr B k j) (seq 0 (length (csr_rows B))))).
Proof.
  unfold den_csr, csr_spgemm. cbn [csr_rows].
  rewrite (nth_map' (fun ra => spgemm_rowF ra (csr_rows B)) _ i [] []) by reflexivity.
  rewrite den_spgemm_row, den_contribs.
  f_equal. apply (sum_regroup (nth i (csr_rows A) []) (fun k => denL (nth k (csr_rows B) []) j)).
  intros k Hk. apply nth_rows_overflow. exact Hk.
Qed.

(* ---------- remove_duplicates after sort; subtract ---------- *)
Lemma den_sorted_below c l j : sorted_from F c l -> (j < c)%nat -> denL l j = 0.
Proof.
  revert c; induction l as [|p l IH]; intros c Hs Hj; [reflexivity|].
  destruct Hs as [H1 H2]. rewrite den_line_cons.
  replace (fst p =? j) with false by (symmetry; apply Nat.eqb_neq; lia).
  rewrite (IH (fst p)) by (try assumption; lia). ring.
Qed.

Lemma den_emit c acc j : denL (emit F small c acc) j = if c =? j then dropS acc else 0.
Proof.
  unfold emit, drop. destruct (small acc).
  - destruct (c =? j); reflexivity.
  - rewrite den_line_cons. simpl. unfold den_line; simpl. destruct (c =? j); ring.
Qed.

Lemma den_dedup_acc l : forall c acc j, sorted_from F c l ->
  denL (dedup_acc F add small c acc l) j =
  if c =? j then dropS (acc + denL l j) else dropS (denL l j).
Proof.
  induction l as [|p l IH]; intros c acc j Hs.
  - simpl. rewrite den_emit. destruct (c =? j).
    + f_equal. unfold den_line; simpl. ring.
    + symmetry. apply dropS_zero.
  - destruct Hs as [H1 H2]. simpl. destruct (fst p =? c) eqn:E.
    + apply Nat.eqb_eq in E. rewrite IH by (rewrite <- E; exact H2).
      rewrite den_line_cons. rewrite E. destruct (c =? j); f_equal; ring.
    + apply Nat.eqb_neq in E.
      rewrite (den_line_app F zero one add mul sub opp Rth), den_emit, IH by exact H2.
      rewrite den_line_cons. destruct (c =? j) eqn:Ec.
      * apply Nat.eqb_eq in Ec. subst j.
        replace (fst p =? c) with false by (symmetry; apply Nat.eqb_neq; exact E).
        rewrite (den_sorted_below (fst p) l c H2) by lia.
        rewrite dropS_zero. replace (acc + (0 + 0)) with acc by ring. ring.
      * destruct (fst p =? j); [ring|]. replace (0 + denL l j) with (denL l j) by ring. ring.
Qed.

Lemma den_dedup_sort r j : denL (dedup_line F add small (sort_line r)) j = dropS (denL r j).
Proof.
  rewrite <- (den_line_perm F zero one add mul sub opp Rth _ _ j (isort_perm F r)).
  unfold sort_line. assert (Hs := isort_sorted F r). destruct (isort_by le_fst r) as [|p l].
  - simpl. symmetry. apply dropS_zero.
  - simpl in Hs. destruct Hs as [_ Hs]. unfold dedup_line. rewrite den_dedup_acc by exact Hs.
    rewrite den_line_cons. destruct (fst p =? j); [reflexivity|]. f_equal. ring.
Qed.

Theorem den_subtract (A B : csr F) i j :
  (length (csr_rows B) <= length (csr_rows A))%nat ->
  denCsr (subF A B) i j = dropS (denCsr A i j - denCsr B i j).
Proof.
  intros H. unfold den_csr, csr_subtract, csr_remove_duplicates. cbn [csr_rows].
  rewrite (nth_map' (fun r => dedup_line F add small (sort_line r)) _ i [] []) by reflexivity.
  rewrite den_dedup_sort. f_equal.
  rewrite zip_rows_nth by (rewrite map_length; exact H).
  rewrite (den_line_app F zero one add mul sub opp Rth).
  rewrite (nth_map' (neg_line F opp) _ i [] []) by reflexivity. rewrite den_line_neg. ring.
Qed.

Lemma subtract_rows_length (A B : csr F) : length (csr_rows (subF A B)) = length (csr_rows A).
Proof. unfold csr_subtract, csr_remove_duplicates. cbn [csr_rows]. rewrite map_length, zip_rows_length. reflexivity. Qed.

(* ---------- row scaling ---------- *)
Lemma den_scale_rows omega (A : csr F) i k :
  denCsr (scale_rowsF omega A) i k = denCsr A i k * inv_sumF omega (nth i (csr_rows A) []).
Proof.
  unfold den_csr, scale_rows. cbn [csr_rows].
  rewrite (nth_map' (scale_row F zero one add mul opp div ltb eqb omega) _ i [] []) by reflexivity.
  unfold scale_row. apply den_line_scale_r.
Qed.

Lemma scale_rows_length omega (A : csr F) : length (csr_rows (scale_rowsF omega A)) = length (csr_rows A).
Proof. unfold scale_rows. cbn [csr_rows]. apply map_length. Qed.

(* the row sum is a sum of absolute values, hence non-negative and fabs(row_sum) = row_sum *)
Lemma abs_nonneg x : 0 <= absf x.
Proof.
  unfold absF. destruct (ltb x 0) eqn:E.
  - apply ltb_spec in E. destruct E as [E _]. apply (le_add_r _ _ (opp x)) in E.
    replace (x + opp x) with 0 in E by ring. replace (0 + opp x) with (opp x) in E by ring. exact E.
  - destruct (le_total 0 x) as [H|H]; [exact H|].
    destruct (eqb x 0) eqn:E0; [apply eqb_spec in E0; rewrite E0; apply le_refl|].
    exfalso. assert (ltb x 0 = true); [|congruence]. apply ltb_spec. split; [exact H|].
    intros Hx. apply eqb_spec in Hx. congruence.
Qed.

Lemma abs_of_nonneg x : 0 <= x -> absf x = x.
Proof.
  intros H. unfold absF. destruct (ltb x 0) eqn:E; [|reflexivity].
  apply ltb_spec in E. destruct E as [E Hne]. exfalso. apply Hne. apply le_antisym; assumption.
Qed.

Lemma row_abs_sumf r : row_abs r = sumF (map (fun p => absf (snd p)) r).
Proof. unfold row_abs_sum. rewrite (fold_left_add_sumf F zero one add mul sub opp div inv Fth). ring. Qed.

Lemma row_abs_nonneg r : 0 <= row_abs r.
Proof.
  rewrite row_abs_sumf. induction r as [|p r IH]; simpl; [apply le_refl|].
  apply le_trans with (b := 0 + sumF (map (fun p => absf (snd p)) r)).
  - replace (0 + sumF (map (fun p => absf (snd p)) r)) with (sumF (map (fun p => absf (snd p)) r)) by ring. exact IH.
  - apply le_add_r. apply abs_nonneg.
Qed.

(* omega * D^-1 with D the absolute row sum; rows with D = 0 are left unscaled by 0 *)
Lemma inv_sum_closed omega r :
  inv_sumF omega r = if eqb (row_abs r) 0 then 0 else omega / row_abs r.
Proof.
  unfold inv_sum. fold (row_abs r). destruct (eqb (row_abs r) 0) eqn:E; [reflexivity|].
  rewrite abs_of_nonneg by apply row_abs_nonneg.
  field. intros H. apply eqb_spec in H. congruence.
Qed.

(* ---------- one smoothing step and the loop ---------- *)
Theorem den_jacobi_step (sA P : csr F) i j :
  (length (csr_rows sA) <= length (csr_rows P))%nat ->
  denCsr (stepF sA P) i j =
  dropS (denCsr P i j - drop2 (sumF (map (fun k => denCsr sA i k * denCsr P k j) (seq 0 (length (csr_rows P)))))).
Proof.
  intros H. unfold jacobi_step. rewrite den_subtract.
  - rewrite den_spgemm. reflexivity.
  - unfold csr_spgemm. cbn [csr_rows]. rewrite map_length. exact H.
Qed.

Lemma jacobi_step_rows (sA P : csr F) : length (csr_rows (stepF sA P)) = length (csr_rows P).
Proof. unfold jacobi_step. apply subtract_rows_length. Qed.

(* the operator after k steps, drops included *)
Fixpoint smooth_den (n : nat) (sa : nat -> nat -> F) (t : nat -> nat -> F) (k : nat) : nat -> nat -> F :=
  match k with
  | O => t
  | S k' => smooth_den n sa
              (fun i j => dropS (t i j - drop2 (sumF (map (fun l => sa i l * t l j) (seq 0 n))))) k'
  end.

Lemma smooth_den_ext n sa t t' k :
  (forall i j, t i j = t' i j) -> forall i j, smooth_den n sa t k i j = smooth_den n sa t' k i j.
Proof.
  revert t t'; induction k as [|k IH]; intros t t' H i j; simpl; [apply H|].
  apply IH. intros i' j'. rewrite H. f_equal. f_equal. f_equal. apply sumf_map_ext. intros l _. rewrite H. reflexivity.
Qed.

Theorem den_jacobi_iter k : forall (sA P : csr F) i j,
  (length (csr_rows sA) <= length (csr_rows P))%nat ->
  denCsr (iterF k sA P) i j = smooth_den (length (csr_rows P)) (denCsr sA) (denCsr P) k i j.
Proof.
  induction k as [|k IH]; intros sA P i j H; simpl; [reflexivity|].
  rewrite IH by (rewrite jacobi_step_rows; exact H).
  rewrite jacobi_step_rows. apply smooth_den_ext. intros i' j'. apply den_jacobi_step. exact H.
Qed.

(* exact form: (I - S)^k T with S = omega D^-1 A, when no non-zero intermediate value is below the drop tolerances *)
Fixpoint smooth_exact (n : nat) (sa : nat -> nat -> F) (t : nat -> nat -> F) (k : nat) : nat -> nat -> F :=
  match k with
  | O => t
  | S k' => smooth_exact n sa (fun i j => t i j - sumF (map (fun l => sa i l * t l j) (seq 0 n))) k'
  end.

(* "no underflow": at every step, a product sum / difference that the drops would remove is exactly zero *)
Fixpoint no_underflow (n : nat) (sa : nat -> nat -> F) (t : nat -> nat -> F) (k : nat) : Prop :=
  match k with
  | O => True
  | S k' =>
    (forall i j, let v := sumF (map (fun l => sa i l * t l j) (seq 0 n)) in
                 (small2 v = true -> v = 0) /\ (small (t i j - v) = true -> t i j - v = 0)) /\
    no_underflow n sa (fun i j => t i j - sumF (map (fun l => sa i l * t l j) (seq 0 n))) k'
  end.

Lemma smooth_den_exact n sa k : forall t,
  no_underflow n sa t k -> forall i j, smooth_den n sa t k i j = smooth_exact n sa t k i j.
Proof.
  induction k as [|k IH]; intros t H i j; simpl; [reflexivity|].
  destruct H as [H1 H2]. rewrite <- IH by exact H2.
  apply smooth_den_ext. intros i' j'. destruct (H1 i' j') as [Ha Hb]. simpl in Ha, Hb.
  set (v := sumF (map (fun l => sa i' l * t l j') (seq 0 n))) in *.
  assert (E : drop2 v = v).
  { unfold drop2. destruct (small2 v) eqn:E; [symmetry; apply Ha; reflexivity|reflexivity]. }
  rewrite E. unfold drop. destruct (small (t i' j' - v)) eqn:E2; [symmetry; apply Hb; reflexivity|reflexivity].
Qed.

(* one exact step is multiplication by I - S *)
Lemma exact_step_matrix n sa (t : nat -> nat -> F) i j : (i < n)%nat ->
  t i j - sumF (map (fun l => sa i l * t l j) (seq 0 n)) =
  sumF (map (fun l => ((if i =? l then 1 else 0) - sa i l) * t l j) (seq 0 n)).
Proof.
  intros Hi.
  rewrite (sumf_map_ext F zero add (fun l => ((if i =? l then 1 else 0) - sa i l) * t l j)
             (fun l => (if l =? i then t l j else 0) + opp (sa i l * t l j))).
  - rewrite (sumf_map_add F zero one add mul sub opp Rth), (sumf_map_opp F zero one add mul sub opp Rth).
    rewrite (sumf_seq_delta F zero one add mul sub opp div inv Fth (fun l => t l j)).
    replace (i <? n) with true by (symmetry; apply Nat.ltb_lt; exact Hi). ring.
  - intros l _. rewrite (Nat.eqb_sym i l). destruct (l =? i); ring.
Qed.

(* ---------- distributed: row blocks ---------- *)
Notation par_stepF := (par_jacobi_step F zero add mul opp small small2).
Notation par_iterF := (par_jacobi_iter F zero add mul opp small small2).
Notation par_scaleF := (par_scale_rows F zero one add mul opp div ltb eqb).

Lemma zip_rows_combine (ra rb : list (list (nat * F))) :
  length ra = length rb ->
  zip_rows F ra rb = map (fun ab => fst ab ++ snd ab) (combine ra rb).
Proof.
  revert rb; induction ra as [|a ra IH]; intros rb H; destruct rb as [|b rb]; simpl in *; try discriminate; [reflexivity|].
  rewrite IH by lia. reflexivity.
Qed.

Lemma combine_map_r {X Y Z} (g : Y -> Z) (l1 : list X) (l2 : list Y) :
  combine l1 (map g l2) = map (fun xy => (fst xy, g (snd xy))) (combine l1 l2).
Proof.
  revert l2; induction l1 as [|x l1 IH]; intros l2; [reflexivity|].
  destruct l2 as [|y l2]; simpl; [reflexivity|rewrite IH; reflexivity].
Qed.

Theorem par_step_gather sizes (sA P : csr F) :
  fold_right Nat.add 0%nat sizes = length (csr_rows P) -> length (csr_rows sA) = length (csr_rows P) ->
  gather_csr F (csr_nr P) (csr_nc P) (par_stepF sizes sA P) = stepF sA P.
Proof.
  intros Hs Hl. unfold gather_csr, par_jacobi_step, jacobi_step, csr_subtract, csr_remove_duplicates, csr_spgemm.
  cbn [csr_rows csr_nr csr_nc]. f_equal.
  rewrite concat_map_map.
  rewrite concat_split_by by (rewrite combine_length, Hl, Nat.min_id; exact Hs).
  rewrite (map_map (fun ra => spgemm_rowF ra (csr_rows P)) (neg_line F opp)).
  rewrite zip_rows_combine by (rewrite map_length; symmetry; exact Hl).
  rewrite combine_map_r. rewrite !map_map. apply map_ext. intros [rp ra]. reflexivity.
Qed.

Theorem par_scale_gather sizes omega (A : csr F) :
  fold_right Nat.add 0%nat sizes = length (csr_rows A) ->
  gather_csr F (csr_nr A) (csr_nc A) (par_scaleF sizes omega A) = scale_rowsF omega A.
Proof.
  intros Hs. unfold gather_csr, par_scale_rows, scale_rows. f_equal.
  rewrite concat_map_map, concat_split_by by exact Hs. reflexivity.
Qed.

Theorem par_iter_eq sizes k : forall (sA P : csr F),
  fold_right Nat.add 0%nat sizes = length (csr_rows P) -> length (csr_rows sA) = length (csr_rows P) ->
  par_iterF sizes k sA P = iterF k sA P.
Proof.
  induction k as [|k IH]; intros sA P Hs Hl; simpl; [reflexivity|].
  rewrite par_step_gather by assumption.
  apply IH; rewrite jacobi_step_rows; assumption.
Qed.

(* ---------- the library routine ---------- *)
Notation jacobiF := (jacobi_prolongation F zero one add mul opp div ltb eqb small small2).
Notation par_jacobiF := (par_jacobi_prolongation F zero one add mul opp div ltb eqb small small2).

(* D_i : absolute row sum over the stored entries of row i (diagonal included);  omega D^-1 with 0 for D_i = 0 *)
Definition abs_row_sum (A : csr F) (i : nat) : F := sumF (map (fun p => absf (snd p)) (nth i (csr_rows A) [])).
Definition dinv (omega : F) (A : csr F) (i : nat) : F :=
  if eqb (abs_row_sum A i) 0 then 0 else omega / abs_row_sum A i.
Definition scaled (omega : F) (A : csr F) (i l : nat) : F := denCsr A i l * dinv omega A i.

Lemma den_scaled omega A i l : denCsr (scale_rowsF omega A) i l = scaled omega A i l.
Proof.
  rewrite den_scale_rows, inv_sum_closed. unfold scaled, dinv, abs_row_sum. rewrite row_abs_sumf. reflexivity.
Qed.

Lemma smooth_den_ext_sa n sa sa' k : (forall i l, sa i l = sa' i l) ->
  forall t i j, smooth_den n sa t k i j = smooth_den n sa' t k i j.
Proof.
  intros H. induction k as [|k IH]; intros t i j; simpl; [reflexivity|].
  rewrite IH. apply smooth_den_ext. intros i' j'. f_equal. f_equal. f_equal.
  apply sumf_map_ext. intros l _. rewrite H. reflexivity.
Qed.

Theorem den_jacobi_prolongation (A T : csr F) omega k i j :
  (length (csr_rows A) <= length (csr_rows T))%nat ->
  denCsr (jacobiF A T omega k) i j =
  smooth_den (length (csr_rows T)) (scaled omega A) (denCsr T) k i j.
Proof.
  intros H. unfold jacobi_prolongation.
  rewrite den_jacobi_iter by (rewrite scale_rows_length; exact H).
  apply smooth_den_ext_sa. intros; apply den_scaled.
Qed.

Theorem den_jacobi_prolongation_exact (A T : csr F) omega k i j :
  (length (csr_rows A) <= length (csr_rows T))%nat ->
  no_underflow (length (csr_rows T)) (scaled omega A) (denCsr T) k ->
  denCsr (jacobiF A T omega k) i j =
  smooth_exact (length (csr_rows T)) (scaled omega A) (denCsr T) k i j.
Proof. intros H Hn. rewrite den_jacobi_prolongation by exact H. apply smooth_den_exact. exact Hn. Qed.

(* (I - S)^k T as an explicit matrix recursion *)
Fixpoint mat_apply_k (n : nat) (M : nat -> nat -> F) (t : nat -> nat -> F) (k : nat) : nat -> nat -> F :=
  match k with
  | O => t
  | S k' => mat_apply_k n M (fun i j => sumF (map (fun l => M i l * t l j) (seq 0 n))) k'
  end.
Definition I_minus (sa : nat -> nat -> F) (i l : nat) : F := (if i =? l then 1 else 0) - sa i l.

Lemma smooth_exact_matrix n sa k : forall t t',
  (forall i j, (i < n)%nat -> t i j = t' i j) ->
  forall i j, (i < n)%nat -> smooth_exact n sa t k i j = mat_apply_k n (I_minus sa) t' k i j.
Proof.
  induction k as [|k IH]; intros t t' H i j Hi; simpl; [apply H; exact Hi|].
  apply IH; [|exact Hi]. intros i' j' Hi'. rewrite exact_step_matrix by exact Hi'.
  apply sumf_map_ext. intros l Hl. apply in_seq in Hl. unfold I_minus. rewrite H by lia. reflexivity.
Qed.

Theorem par_jacobi_eq sizes (A T : csr F) omega k :
  fold_right Nat.add 0%nat sizes = length (csr_rows A) -> length (csr_rows A) = length (csr_rows T) ->
  par_jacobiF sizes A T omega k = jacobiF A T omega k.
Proof.
  intros Hs Hl. unfold par_jacobi_prolongation, jacobi_prolongation.
  rewrite par_scale_gather by exact Hs.
  apply par_iter_eq.
  - unfold csr_to_csr. cbn [csr_rows]. rewrite <- Hl. exact Hs.
  - rewrite scale_rows_length. unfold csr_to_csr. cbn [csr_rows]. exact Hl.
Qed.

End ProlongProofs.
