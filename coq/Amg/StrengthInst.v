(* C14: the executed instance (Qc with Qc_ltb) satisfies the order hypotheses of the strength theorems;
   a small integer instance used for the non-vacuity examples. *)
From Coq Require Import QArith Qcanon ZArith.
From Raptor Require Import Base.Sums Sparse.Defs Amg.Strength Amg.StrengthProofs Extract.Inst Extract.Inst_interp.

Lemma Qc_ltb_lt a b : Qc_ltb a b = true <-> (a < b)%Qc.
Proof.
  unfold Qc_ltb. rewrite Qclt_alt. destruct (a ?= b)%Qc; split; intros H; try reflexivity; discriminate.
Qed.

Lemma Qc_ltb_nlt a b : Qc_ltb a b = false <-> ~ (a < b)%Qc.
Proof.
  rewrite <- Qc_ltb_lt. destruct (Qc_ltb a b); split; intros H.
  - discriminate.
  - exfalso. apply H. reflexivity.
  - intros H'. discriminate.
  - reflexivity.
Qed.

Lemma Qc_ltb_trans a b c : Qc_ltb a b = true -> Qc_ltb b c = true -> Qc_ltb a c = true.
Proof. rewrite !Qc_ltb_lt. apply Qclt_trans. Qed.

Lemma Qc_ltb_asym a b : Qc_ltb a b = true -> Qc_ltb b a = false.
Proof. rewrite Qc_ltb_lt, Qc_ltb_nlt. intros H. apply Qcle_not_lt. apply Qclt_le_weak. exact H. Qed.

Lemma Qc_ltb_total a b : Qc_ltb a b = false -> Qc_ltb b a = false -> a = b.
Proof. rewrite !Qc_ltb_nlt. intros H1 H2. apply Qcle_antisym; apply Qcnot_lt_le; assumption. Qed.

(* integers, for examples *)
Lemma Z_ltb_trans a b c : Z.ltb a b = true -> Z.ltb b c = true -> Z.ltb a c = true.
Proof. rewrite !Z.ltb_lt. lia. Qed.
Lemma Z_ltb_asym a b : Z.ltb a b = true -> Z.ltb b a = false.
Proof. rewrite Z.ltb_lt, Z.ltb_ge. lia. Qed.
Lemma Z_ltb_total a b : Z.ltb a b = false -> Z.ltb b a = false -> a = b.
Proof. rewrite !Z.ltb_ge. lia. Qed.
