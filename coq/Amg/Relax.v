(* Executable model of raptor's relaxation sweeps.
     sequential : raptor/util/linalg/relax.cpp      jacobi, sor, ssor          (CSRMatrix + Vector)
     distributed: raptor/util/linalg/par_relax.cpp  jacobi_helper, SOR_forward, SOR_backward,
                                                    sor_helper, ssor_helper   (ParCSRMatrix + ParVector)
   A matrix is the list of its rows, a row the list of its stored (column, value) pairs in
   storage order.  The distributed routines are functions of the GLOBAL matrix, a partition of
   the unknowns into contiguous blocks (list of block sizes, empty blocks allowed), and the
   global vectors: an entry whose column lies in the row's own block is an on_proc entry and
   reads the current, partly updated x; every other entry is an off_proc entry and reads the
   halo buffer, i.e. x as it was when the sweep's single exchange `comm->communicate(x)` ran.
   MPI is not modelled; `b` is not an output of any function here.
   Definitions only; proofs are in RelaxProofs.v. *)
From Raptor Require Import Base.Sums Sparse.Defs.

Section Relax.
Variable F : Type.
Variables (zero one : F) (add mul sub : F -> F -> F) (opp : F -> F) (div : F -> F -> F).
Variable tiny : F -> bool.             (* fabs(v) <= zero_tol, i.e. the negation of the guard `fabs(diag) > zero_tol` *)

Notation "0" := zero.
Notation "1" := one.
Infix "+" := add.
Infix "*" := mul.
Infix "-" := sub.
Infix "/" := div.
Notation row := (list (nat * F)).
Notation xat := (xat F zero).
Notation upd := (upd F).

(* row_sum += vals[j] * v[idx2[j]] over a run of stored entries *)
Definition row_acc (v : list F) (ents : row) (s0 : F) : F :=
  fold_left (fun s p => s + snd p * xat v (fst p)) ents s0.

(* ------------------------------------------------------------------ *)
(* relax.cpp : sequential                                               *)
(* ------------------------------------------------------------------ *)

(* jacobi, inner loop: the diagonal is looked for by column index (the last match wins),
   every other entry is accumulated against tmp *)
Definition jac_scan (i : nat) (tmp : list F) (r : row) : F * F :=      (* (diag, row_sum) *)
  fold_left (fun st p => if i =? fst p then (snd p, snd st)
                         else (fst st, snd st + snd p * xat tmp (fst p))) r (0, 0).

Definition seq_jacobi_row (omega : F) (b tmp x : list F) (ir : nat * row) : list F :=
  match snd ir with
  | [] => x                                            (* row_start == row_end: continue *)
  | _ => let ds := jac_scan (fst ir) tmp (snd ir) in
         if tiny (fst ds) then x
         else upd x (fst ir) ((1 - omega) * xat tmp (fst ir) + omega * ((xat b (fst ir) - snd ds) / fst ds))
  end.

(* one iteration of the outer loop: tmp = copy of x, then all rows *)
Definition seq_jacobi_sweep (A : list row) (b : list F) (omega : F) (x : list F) : list F :=
  fold_left (seq_jacobi_row omega b x) (indexed A) x.

(* sor / ssor row body.  x[i] = b[i] is written BEFORE the emptiness test; the first stored
   entry is taken as the diagonal without looking at its column; the remaining entries are
   subtracted reading the live vector (so an entry with column i would read the accumulator) *)
Definition seq_sor_row (omega : F) (b : list F) (x : list F) (ir : nat * row) : list F :=
  let i := fst ir in
  let orig := xat x i in
  let x1 := upd x i (xat b i) in
  match snd ir with
  | [] => x1
  | d :: t =>
      let diag_inv := omega / snd d in
      let x2 := fold_left (fun x p => upd x i (xat x i - snd p * xat x (fst p))) t x1 in
      upd x2 i (diag_inv * xat x2 i + (1 - omega) * orig)
  end.

Definition seq_sor_fwd (A : list row) (b : list F) (omega : F) (x : list F) : list F :=
  fold_left (seq_sor_row omega b) (indexed A) x.
Definition seq_sor_bwd (A : list row) (b : list F) (omega : F) (x : list F) : list F :=
  fold_left (seq_sor_row omega b) (rev (indexed A)) x.

Definition seq_jacobi (A : list row) (b : list F) (omega : F) (sweeps : nat) (x : list F) : list F :=
  Nat.iter sweeps (seq_jacobi_sweep A b omega) x.
Definition seq_sor (A : list row) (b : list F) (omega : F) (sweeps : nat) (x : list F) : list F :=
  Nat.iter sweeps (seq_sor_fwd A b omega) x.
Definition seq_ssor (A : list row) (b : list F) (omega : F) (sweeps : nat) (x : list F) : list F :=
  Nat.iter sweeps (fun x => seq_sor_bwd A b omega (seq_sor_fwd A b omega x)) x.

(* ------------------------------------------------------------------ *)
(* par_relax.cpp : distributed                                          *)
(* ------------------------------------------------------------------ *)

(* contiguous blocks (first index, size) of a partition given by its block sizes *)
Fixpoint blocks_from (lo : nat) (parts : list nat) : list (nat * nat) :=
  match parts with [] => [] | s :: ps => (lo, s) :: blocks_from (lo + s) ps end.

Definition in_blk (lo sz c : nat) : bool := (lo <=? c) && (c <? lo + sz).

(* ParCSRMatrix: the entries of a global row split by column ownership.  (Columns stay global
   here; the library stores c - first_local_col for on_proc and the rank of c among the sorted
   off-process columns for off_proc, both monotone in c, so sorting and the comparison
   idx2 == i are unaffected.) *)
Definition split_on (lo sz : nat) (r : row) : row := filter (fun p => in_blk lo sz (fst p)) r.
Definition split_off (lo sz : nat) (r : row) : row := filter (fun p => negb (in_blk lo sz (fst p))) r.

(* the preamble of every helper: on_proc->sort(); off_proc->sort(); on_proc->move_diag() *)
Record prow := mkProw { pr_i : nat; pr_on : row; pr_off : row }.
Definition prep_row (lo sz i : nat) (r : row) : prow :=
  mkProw i (move_diag_line i (sort_line (split_on lo sz r))) (sort_line (split_off lo sz r)).
Definition prep_block (A : list row) (lo sz : nat) : list prow :=
  map (fun i => prep_row lo sz i (nth i A [])) (seq lo sz).

(* what on_proc->idx2[idx1[i+1]] holds: the first stored on_proc entry of the following local rows
   (None = one past the end of the array).  SOR_forward / SOR_backward read it when they test
   `idx2[start] == i` on a row whose on_proc part is exhausted. *)
Definition first_on (rows : list prow) : option (nat * F) := hd_error (flat_map pr_on rows).
Fixpoint annot (rows : list prow) : list (prow * option (nat * F)) :=
  match rows with [] => [] | r :: rest => (r, first_on rest) :: annot rest end.

Definition relax_val (omega xi bi s d : F) : F := (1 - omega) * xi + omega * ((bi - s) / d).

(* jacobi_helper, one local row: tmp and dist_x both hold start-of-sweep values (x0);
   the FIRST on_proc entry is the diagonal (no column test); empty on_proc row: continue *)
Definition dist_jac_row (omega : F) (b x0 y : list F) (r : prow) : list F :=
  match pr_on r with
  | [] => y
  | d :: t =>
      let s := row_acc x0 (pr_off r) (row_acc x0 t 0) in
      if tiny (snd d) then y
      else upd y (pr_i r) (relax_val omega (xat x0 (pr_i r)) (xat b (pr_i r)) s (snd d))
  end.

(* SOR_forward, one local row.  State: the on_proc / off_proc entries lying between the running
   cursors start_on / start_off and the beginning of this row (non-empty only after a row was
   skipped by `else continue`, which leaves both cursors stale), and the vector. *)
Definition fwd_state := (row * row * list F)%type.
Definition sor_fwd_row (omega : F) (b x0 : list F) (st : fwd_state) (ra : prow * option (nat * F)) : fwd_state :=
  let '(pon, poff, y) := st in
  let r := fst ra in
  let i := pr_i r in
  let avail := pon ++ pr_on r in                   (* entries in [start_on, idx1[i+1]) *)
  let offs := poff ++ pr_off r in                  (* entries in [start_off, off idx1[i+1]) *)
  let look := match avail with
              | e :: t => Some (e, t)
              | [] => match snd ra with Some e => Some (e, []) | None => None end
              end in
  match look with
  | Some (e, body) =>
      if fst e =? i then
        let s := row_acc x0 offs (row_acc y body 0) in
        ([], [], upd y i (relax_val omega (xat y i) (xat b i) s (snd e)))
      else (avail, offs, y)
  | None => (avail, offs, y)                       (* read past the end of idx2: undefined in C++; modelled as `continue` *)
  end.

(* SOR_backward, one local row: cursors come from idx1, nothing is stale *)
Definition sor_bwd_row (omega : F) (b x0 : list F) (y : list F) (ra : prow * option (nat * F)) : list F :=
  let r := fst ra in
  let i := pr_i r in
  let look := match pr_on r with
              | e :: t => Some (e, t)
              | [] => match snd ra with Some e => Some (e, []) | None => None end
              end in
  match look with
  | Some (e, body) =>
      if fst e =? i then
        let s := row_acc x0 (pr_off r) (row_acc y body 0) in
        upd y i (relax_val omega (xat y i) (xat b i) s (snd e))
      else y
  | None => y
  end.

(* the prepared distributed matrix: one list of annotated rows per rank *)
Definition prepare (A : list row) (parts : list nat) : list (list (prow * option (nat * F))) :=
  map (fun bl => annot (prep_block A (fst bl) (snd bl))) (blocks_from 0 parts).

(* one pass over all ranks; x0 = the halo source (x at the time of the exchange), y = current x *)
Definition dist_jac_pass (P : list (list (prow * option (nat * F)))) (b : list F) (omega : F) (x0 : list F) : list F :=
  fold_left (fun y blk => fold_left (fun y ra => dist_jac_row omega b x0 y (fst ra)) blk y) P x0.
Definition dist_fwd_pass (P : list (list (prow * option (nat * F)))) (b : list F) (omega : F) (x0 y : list F) : list F :=
  fold_left (fun y blk => snd (fold_left (sor_fwd_row omega b x0) blk ([], [], y))) P y.
Definition dist_bwd_pass (P : list (list (prow * option (nat * F)))) (b : list F) (omega : F) (x0 y : list F) : list F :=
  fold_left (fun y blk => fold_left (sor_bwd_row omega b x0) (rev blk) y) P y.

(* jacobi_helper / sor_helper / ssor_helper: preamble once, then per sweep ONE exchange *)
Definition dist_jacobi (A : list row) (parts : list nat) (b : list F) (omega : F) (sweeps : nat) (x : list F) :=
  let P := prepare A parts in Nat.iter sweeps (fun x => dist_jac_pass P b omega x) x.
Definition dist_sor (A : list row) (parts : list nat) (b : list F) (omega : F) (sweeps : nat) (x : list F) :=
  let P := prepare A parts in Nat.iter sweeps (fun x => dist_fwd_pass P b omega x x) x.
Definition dist_ssor (A : list row) (parts : list nat) (b : list F) (omega : F) (sweeps : nat) (x : list F) :=
  let P := prepare A parts in
  Nat.iter sweeps (fun x => dist_bwd_pass P b omega x (dist_fwd_pass P b omega x x)) x.

(* ------------------------------------------------------------------ *)
(* textbook side (specification vocabulary; no code is modelled below)  *)
(* ------------------------------------------------------------------ *)
Notation sumF := (sumf F zero add).
Notation denL := (den_line F zero add).

Definition arow (A : list row) (i : nat) : row := nth i A [].
Definition coef (A : list row) (i j : nat) : F := denL (arow A i) j.          (* a_ij *)
(* sum_{j < n, j <> i} a_ij * X j *)
Definition offdot (A : list row) (n i : nat) (X : nat -> F) : F :=
  sumF (map (fun j => if j =? i then 0 else coef A i j * X j) (seq 0 n)).
(* (A x)_i = sum_{j < n} a_ij * x_j *)
Definition rowdot (A : list row) (n i : nat) (X : nat -> F) : F :=
  sumF (map (fun j => coef A i j * X j) (seq 0 n)).


(* domain of the property *)
Definition wf_cols (A : list row) (n : nat) : Prop :=
  forall i p, i < n -> In p (arow A i) -> fst p < n.
(* every row stores exactly one entry in its diagonal column, and it is nonzero *)
Definition diag_stored (A : list row) (n : nat) : Prop :=
  forall i, i < n -> exists d, filter (fun p => fst p =? i) (arow A i) = [(i, d)] /\ d <> 0.
(* ... and is not within the library's zero tolerance (what the Jacobi guard tests) *)
Definition diag_not_tiny (A : list row) (n : nat) : Prop :=
  forall i, i < n -> exists d, filter (fun p => fst p =? i) (arow A i) = [(i, d)] /\ d <> 0 /\ tiny d = false.
(* the layout relax.cpp's sor/ssor rely on: that entry is stored first *)
Definition diag_first (A : list row) (n : nat) : Prop :=
  forall i, i < n -> exists d t, arow A i = (i, d) :: t /\ filter (fun p => fst p =? i) t = [] /\ d <> 0.

(* A x = b *)
Definition solves (A : list row) (n : nat) (x b : list F) : Prop :=
  forall i, i < n -> rowdot A n i (xat x) = xat b i.

(* the textbook sweeps, row by row; relax_val w xi bi s d = (1-w) xi + w (bi - s)/d.
   x0 = values of the unknowns owned by other blocks (frozen at the start of the sweep),
   y = vector the pass starts from, z = its result. *)
Definition jac_spec (A : list row) (n : nat) (omega : F) (b x z : list F) : Prop :=
  forall i, i < n ->
    xat z i = relax_val omega (xat x i) (xat b i) (offdot A n i (xat x)) (coef A i i).
Definition fwd_spec (A : list row) (parts : list nat) (n : nat) (omega : F) (b x0 y z : list F) : Prop :=
  forall lo sz i, In (lo, sz) (blocks_from 0 parts) -> lo <= i < lo + sz ->
    xat z i = relax_val omega (xat y i) (xat b i)
      (offdot A n i (fun j => if in_blk lo sz j then (if j <? i then xat z j else xat y j) else xat x0 j))
      (coef A i i).
Definition bwd_spec (A : list row) (parts : list nat) (n : nat) (omega : F) (b x0 y z : list F) : Prop :=
  forall lo sz i, In (lo, sz) (blocks_from 0 parts) -> lo <= i < lo + sz ->
    xat z i = relax_val omega (xat y i) (xat b i)
      (offdot A n i (fun j => if in_blk lo sz j then (if i <? j then xat z j else xat y j) else xat x0 j))
      (coef A i i).
(* sequential Gauss-Seidel/SOR: no frozen unknowns *)
Definition seq_fwd_spec (A : list row) (n : nat) (omega : F) (b y z : list F) : Prop :=
  forall i, i < n ->
    xat z i = relax_val omega (xat y i) (xat b i)
      (offdot A n i (fun j => if j <? i then xat z j else xat y j)) (coef A i i).
Definition seq_bwd_spec (A : list row) (n : nat) (omega : F) (b y z : list F) : Prop :=
  forall i, i < n ->
    xat z i = relax_val omega (xat y i) (xat b i)
      (offdot A n i (fun j => if i <? j then xat z j else xat y j)) (coef A i i).

End Relax.
