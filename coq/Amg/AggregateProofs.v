(* Proofs about Amg/Aggregate.v: the checkers agg_ok / agg_ok_glob are sound for the property's
   clauses; the model of aggregate() returns a labelling accepted by agg_ok whenever the roots are
   maximal (every vertex within two edges of a root). *)
From Coq Require Import List Arith Bool ZArith Lia.
From Raptor Require Import Amg.Mis2 Amg.Mis2Proofs Amg.Aggregate.
Import ListNotations.

(* ---------------- the checker decides the clauses ---------------- *)
Lemma isolatedb_spec G v : isolatedb G v = true <-> isolated G v.
Proof.
  unfold isolatedb, isolated. rewrite forallb_forall. split; intros H w Hw.
  - symmetry. apply Nat.eqb_eq. apply H. exact Hw.
  - apply Nat.eqb_eq. symmetry. apply H. exact Hw.
Qed.

Lemma opt_is_spec o v : opt_is o v = true <-> o = Some v.
Proof.
  destruct o as [s|]; simpl; [|split; discriminate]. rewrite Nat.eqb_eq. split; [intros ->; reflexivity|intros E; inversion E; reflexivity].
Qed.

Theorem agg_core_sound G states aroot strict n_aggs :
  agg_core G states aroot strict n_aggs = true ->
  agg_valid G states aroot /\ agg_roots_own G states aroot strict /\ agg_heads G states aroot n_aggs.
Proof.
  unfold agg_core. intros H. apply andb_true_iff in H. destruct H as [H Hc]. rewrite forallb_seq in H.
  apply Nat.eqb_eq in Hc.
  assert (P : forall v, v < length G ->
     (isolated G v \/ exists s, aroot v = Some s /\ s < length G /\ is_root states s = true /\ within2 G v s) /\
     (is_root states v = true -> (strict = true \/ ~ isolated G v) -> aroot v = Some v) /\
     (aroot v = Some v -> is_root states v = true) /\
     (forall s, aroot v = Some s -> s < length G /\ aroot s = Some s)).
  { intros v Hv. specialize (H v Hv). apply andb_true_iff in H. destruct H as [H H4].
    apply andb_true_iff in H. destruct H as [H H3]. apply andb_true_iff in H. destruct H as [H1 H2].
    split; [|split; [|split]].
    - apply orb_true_iff in H1. destruct H1 as [H1|H1]; [left; apply isolatedb_spec; exact H1|right].
      destruct (aroot v) as [s|]; [|discriminate]. apply andb_true_iff in H1. destruct H1 as [H1 W].
      apply andb_true_iff in H1. destruct H1 as [L R]. exists s. split; [reflexivity|].
      split; [apply Nat.ltb_lt; exact L|]. split; [exact R|apply within2b_spec; exact W].
    - intros R Hs. rewrite R in H2. simpl in H2. apply orb_true_iff in H2. destruct H2 as [H2|H2].
      + apply andb_true_iff in H2. destruct H2 as [Hn Hi]. apply negb_true_iff in Hn. apply isolatedb_spec in Hi.
        destruct Hs as [Hs|Hs]; [congruence|contradiction].
      + apply opt_is_spec. exact H2.
    - intros E. apply (proj2 (opt_is_spec _ _)) in E. rewrite E in H3. simpl in H3. exact H3.
    - intros s E. rewrite E in H4. apply andb_true_iff in H4. destruct H4 as [L O].
      split; [apply Nat.ltb_lt; exact L|apply opt_is_spec; exact O]. }
  split; [|split; [|split; [|split]]].
  - intros v Hv NI. destruct (proj1 (P v Hv)) as [I|X]; [contradiction|exact X].
  - intros s Hs R C. exact (proj1 (proj2 (P s Hs)) R C).
  - intros v Hv E. exact (proj1 (proj2 (proj2 (P v Hv))) E).
  - intros v s Hv E. exact (proj2 (proj2 (proj2 (P v Hv))) s E).
  - exact Hc.
Qed.

Theorem agg_ok_sound G states aggs n_aggs :
  agg_ok G states aggs n_aggs = true ->
  length aggs = length G /\
  agg_valid G states (aroot_seq (length G) states aggs) /\
  agg_roots_own G states (aroot_seq (length G) states aggs) true /\
  agg_heads G states (aroot_seq (length G) states aggs) n_aggs.
Proof.
  unfold agg_ok. intros H. apply andb_true_iff in H. destruct H as [L H]. apply Nat.eqb_eq in L.
  split; [exact L|apply agg_core_sound; exact H].
Qed.

Theorem agg_ok_glob_sound G states aggs n_aggs :
  agg_ok_glob G states aggs n_aggs = true ->
  length aggs = length G /\
  agg_valid G states (aroot_glob (length G) aggs) /\
  agg_roots_own G states (aroot_glob (length G) aggs) false /\
  agg_heads G states (aroot_glob (length G) aggs) n_aggs.
Proof.
  unfold agg_ok_glob. intros H. apply andb_true_iff in H. destruct H as [L H]. apply Nat.eqb_eq in L.
  split; [exact L|apply agg_core_sound; exact H].
Qed.

(* ---------------- the model ---------------- *)
Lemma getA_upd_eq ag v x : v < length ag -> getA (upd ag v x) v = x.
Proof. intros H. unfold getA. apply nth_upd_eq. exact H. Qed.
Lemma getA_upd_neq ag v w x : v <> w -> getA (upd ag v x) w = getA ag w.
Proof. intros H. unfold getA. apply nth_upd_neq. exact H. Qed.
Lemma getA_oob ag v : length ag <= v -> getA ag v = (-1)%Z.
Proof. intros H. unfold getA. apply nth_overflow. exact H. Qed.

Section AggCorrect.
Variable F : Type.
Variable zero : F.
Variable add : F -> F -> F.
Variable abs : F -> F.
Variable ltb : F -> F -> bool.
Variable A : list (list (nat * F)).
Variable Sg : graph.
Variable states : list Z.
Variable r : list F.

Notation n := (length Sg).
Notation pos := (pos_state states).
Notation rk := (rkey F zero r).

Definition rank (v : nat) : nat := length (filter pos (seq 0 v)).

Definition lstep (p : list Z * nat) (i : nat) : list Z * nat :=
  if pos i then (upd (fst p) i (Z.of_nat (snd p)), Datatypes.S (snd p)) else p.

Lemma rank_S m : rank (Datatypes.S m) = if pos m then Datatypes.S (rank m) else rank m.
Proof.
  unfold rank. rewrite seq_S. simpl. rewrite filter_app, app_length. simpl.
  destruct (pos m); simpl; lia.
Qed.

Lemma label_gen N m : m <= N ->
  let p := fold_left lstep (seq 0 m) (repeat (-1)%Z N, 0) in
  length (fst p) = N /\ snd p = rank m /\
  forall v, getA (fst p) v = if (v <? m) && pos v then Z.of_nat (rank v) else (-1)%Z.
Proof.
  induction m as [|m IH]; intros L.
  - simpl. split; [apply repeat_length|]. split; [reflexivity|]. intros v.
    unfold getA. destruct (Nat.lt_ge_cases v N) as [H|H]; [apply nth_repeat|apply nth_overflow; rewrite repeat_length; exact H].
  - rewrite seq_S, fold_left_app. simpl. destruct IH as [L1 [L2 L3]]; [lia|].
    set (p := fold_left lstep (seq 0 m) (repeat (-1)%Z N, 0)) in *.
    unfold lstep. rewrite rank_S. destruct (pos m) eqn:Pm; cbn [fst snd].
    + split; [rewrite upd_length; exact L1|]. split; [rewrite L2; reflexivity|]. intros v.
      destruct (Nat.eq_dec m v) as [E|E].
      * subst v. rewrite getA_upd_eq by lia. rewrite L2, Pm. replace (m <? Datatypes.S m) with true by (symmetry; apply Nat.ltb_lt; lia). reflexivity.
      * rewrite getA_upd_neq by exact E. rewrite L3.
        replace (v <? Datatypes.S m) with (v <? m); [reflexivity|].
        destruct (v <? m) eqn:X; symmetry; [apply Nat.ltb_lt in X; apply Nat.ltb_lt; lia|apply Nat.ltb_ge in X; apply Nat.ltb_ge; lia].
    + split; [exact L1|]. split; [exact L2|]. intros v. rewrite L3.
      destruct (Nat.eq_dec m v) as [E|E].
      * subst v. rewrite Pm, !andb_false_r. reflexivity.
      * replace (v <? Datatypes.S m) with (v <? m); [reflexivity|].
        destruct (v <? m) eqn:X; symmetry; [apply Nat.ltb_lt in X; apply Nat.ltb_lt; lia|apply Nat.ltb_ge in X; apply Nat.ltb_ge; lia].
Qed.

Notation lab := (label_roots states n).

Lemma label_spec :
  length (fst lab) = n /\ snd lab = rank n /\
  forall v, getA (fst lab) v = if (v <? n) && pos v then Z.of_nat (rank v) else (-1)%Z.
Proof. exact (label_gen n n (le_n n)). Qed.

(* pass 1 *)
Definition p1step (ag : list Z) (i : nat) : list Z :=
  if pos i then ag
  else match find (fun col => pos col) (row Sg i) with
       | Some col => upd ag i (getA ag col)
       | None => ag
       end.
Definition p1val (ag0 : list Z) (v : nat) : Z :=
  if pos v then getA ag0 v
  else match find (fun col => pos col) (row Sg v) with
       | Some col => getA ag0 col
       | None => getA ag0 v
       end.

Lemma pass1_gen ag0 m : m <= length ag0 ->
  let ag := fold_left p1step (seq 0 m) ag0 in
  length ag = length ag0 /\
  forall v, getA ag v = if v <? m then p1val ag0 v else getA ag0 v.
Proof.
  induction m as [|m IH]; intros L.
  - simpl. split; reflexivity.
  - rewrite seq_S, fold_left_app. simpl. destruct IH as [L1 L2]; [lia|].
    set (ag := fold_left p1step (seq 0 m) ag0) in *.
    assert (Hm : getA ag m = getA ag0 m) by (rewrite L2, Nat.ltb_irrefl; reflexivity).
    assert (Hstep : length (p1step ag m) = length ag0 /\ getA (p1step ag m) m = p1val ag0 m /\
                    forall v, v <> m -> getA (p1step ag m) v = getA ag v).
    { unfold p1step, p1val. destruct (pos m) eqn:Pm; [auto|].
      destruct (find (fun col => pos col) (row Sg m)) as [col|] eqn:Fd; [|auto].
      split; [rewrite upd_length; exact L1|]. split.
      - rewrite getA_upd_eq by lia. rewrite L2. apply find_some in Fd. destruct Fd as [_ Pc].
        unfold p1val. rewrite Pc. destruct (col <? m); reflexivity.
      - intros v Hv. apply getA_upd_neq. auto. }
    destruct Hstep as [S1 [S2 S3]]. split; [exact S1|]. intros v.
    destruct (Nat.eq_dec v m) as [E|E].
    + subst v. rewrite S2. replace (m <? Datatypes.S m) with true by (symmetry; apply Nat.ltb_lt; lia). reflexivity.
    + rewrite S3 by exact E. rewrite L2.
      replace (v <? Datatypes.S m) with (v <? m); [reflexivity|].
      destruct (v <? m) eqn:X; symmetry; [apply Nat.ltb_lt in X; apply Nat.ltb_lt; lia|apply Nat.ltb_ge in X; apply Nat.ltb_ge; lia].
Qed.

Notation ag1 := (pass1 Sg states (fst lab) n).

Hypothesis WFS : graph_wf Sg.

Lemma ag1_len : length ag1 = n.
Proof.
  destruct label_spec as [L _]. unfold pass1. change (length (fold_left p1step (seq 0 n) (fst lab)) = n).
  rewrite <- L at 3. apply pass1_gen. lia.
Qed.

Lemma ag1_get v : getA ag1 v =
  if v <? n then
    (if pos v then Z.of_nat (rank v)
     else match find (fun col => pos col) (row Sg v) with
          | Some col => Z.of_nat (rank col)
          | None => (-1)%Z
          end)
  else (-1)%Z.
Proof.
  destruct label_spec as [L [_ X]]. unfold pass1. change (getA (fold_left p1step (seq 0 n) (fst lab)) v) with (getA (fold_left p1step (seq 0 n) (fst lab)) v).
  assert (P := pass1_gen (fst lab) n). cbv zeta in P. destruct P as [_ P]; [lia|].
  change (fold_left p1step (seq 0 n) (fst lab)) with ag1 in P. rewrite P. clear P.
  destruct (v <? n) eqn:Lv.
  - unfold p1val. destruct (pos v) eqn:Pv.
    + rewrite X, Lv, Pv. reflexivity.
    + destruct (find (fun col => pos col) (row Sg v)) as [col|] eqn:Fd.
      * apply find_some in Fd. destruct Fd as [Hc Pc]. rewrite X, Pc.
        replace (col <? n) with true by (symmetry; apply Nat.ltb_lt; apply (WFS v); exact Hc). reflexivity.
      * rewrite X, Pv, andb_false_r. reflexivity.
  - rewrite X, Lv. reflexivity.
Qed.

(* pass 2 *)
Fixpoint alignedb (srow : list nat) (arow : list (nat * F)) : bool :=
  match srow with
  | [] => true
  | col :: t => match seek F col arow with Some arow' => alignedb t arow' | None => false end
  end.

Lemma seek_some col arow l : seek F col arow = Some l ->
  exists a rest, l = (col, a) :: rest /\ forall p, In p l -> In p arow.
Proof.
  induction arow as [|p t IH]; simpl; [discriminate|].
  destruct (fst p =? col) eqn:E.
  - intros X. inversion X; subst. apply Nat.eqb_eq in E. destruct p as [c a]. simpl in E. subst c.
    exists a, t. split; [reflexivity|auto].
  - intros X. destruct (IH X) as [a [rest [E1 E2]]]. exists a, rest. split; [exact E1|]. intros q Hq. right. apply E2. exact Hq.
Qed.

Notation scn := (scan F zero add abs ltb r).

Lemma scan_ok ag : forall srow arow mv ma,
  alignedb srow arow = true ->
  (forall c a, In (c, a) arow -> ltb zero (add (abs a) (rk c)) = true) ->
  ((ma = (-1)%Z /\ mv = zero) \/ (0 <= ma)%Z) ->
  exists ma', scn ag srow arow mv ma = Some ma' /\
    (ma' = ma \/ exists w, In w srow /\ (0 <= getA ag w)%Z /\ ma' = getA ag w) /\
    ((0 <= ma)%Z -> (0 <= ma')%Z) /\
    ((exists w, In w srow /\ (0 <= getA ag w)%Z) -> (0 <= ma')%Z).
Proof.
  induction srow as [|col t IH]; intros arow mv ma AL POS PRE.
  - exists ma. simpl. split; [reflexivity|]. split; [left; reflexivity|]. split; [auto|]. intros [w [[] _]].
  - cbn [alignedb] in AL. cbn [scan]. destruct (seek F col arow) as [l|] eqn:Sk; [|discriminate].
    destruct (seek_some col arow l Sk) as [a [rest [El Sub]]]. subst l.
    assert (POS' : forall c a0, In (c, a0) ((col, a) :: rest) -> ltb zero (add (abs a0) (rk c)) = true).
    { intros c a0 H. apply POS. apply Sub. exact H. }
    destruct (ltb mv (add (abs a) (rk col)) && (0 <=? getA ag col)%Z) eqn:Cnd.
    + apply andb_true_iff in Cnd. destruct Cnd as [_ Nn]. apply Z.leb_le in Nn.
      destruct (IH ((col, a) :: rest) (add (abs a) (rk col)) (getA ag col) AL POS' (or_intror Nn)) as [ma' [E [D [M1 M2]]]].
      exists ma'. split; [exact E|]. split; [|split].
      * right. destruct D as [D|[w [Hw [Nw Ew]]]].
        -- exists col. split; [left; reflexivity|]. split; [exact Nn|exact D].
        -- exists w. split; [right; exact Hw|auto].
      * intros _. apply M1. exact Nn.
      * intros _. apply M1. exact Nn.
    + destruct (IH ((col, a) :: rest) mv ma AL POS' PRE) as [ma' [E [D [M1 M2]]]].
      exists ma'. split; [exact E|]. split; [|split].
      * destruct D as [D|[w [Hw [Nw Ew]]]]; [left; exact D|right; exists w; split; [right; exact Hw|auto]].
      * exact M1.
      * intros [w [[Hw|Hw] Nw]].
        -- subst w. apply andb_false_iff in Cnd. destruct Cnd as [Cnd|Cnd].
           ++ destruct PRE as [[_ Ez]|Pm]; [|apply M1; exact Pm]. subst mv.
              rewrite (POS' col a (or_introl eq_refl)) in Cnd. discriminate.
           ++ apply Z.leb_gt in Cnd. lia.
        -- apply M2. exists w. auto.
Qed.

Definition p2step (o : option (list Z)) (i : nat) : option (list Z) :=
  match o with
  | None => None
  | Some ag =>
    if (0 <=? getA ag i)%Z then Some ag
    else match scn ag (row Sg i) (nth i A []) zero (-1)%Z with
         | None => None
         | Some ma => Some (upd ag i (- (ma + 1))%Z)
         end
  end.

Hypothesis ALIGN : forall i, i < n -> alignedb (row Sg i) (nth i A []) = true.
Hypothesis POS : forall i c a, In (c, a) (nth i A []) -> ltb zero (add (abs a) (rk c)) = true.
Hypothesis CAND : forall v, v < n -> (getA ag1 v < 0)%Z -> exists w, In w (row Sg v) /\ (0 <= getA ag1 w)%Z.

Record Q (ag : list Z) (m : nat) : Prop := {
  q_len : length ag = n;
  q_rest : forall v, m <= v -> getA ag v = getA ag1 v;
  q_keep : forall v, (0 <= getA ag1 v)%Z -> getA ag v = getA ag1 v;
  q_done : forall v, v < m -> (getA ag1 v < 0)%Z ->
           exists w, In w (row Sg v) /\ (0 <= getA ag1 w)%Z /\ getA ag v = (- (getA ag1 w + 1))%Z }.

Lemma Q_nonneg ag m w : Q ag m -> (0 <= getA ag w)%Z -> getA ag w = getA ag1 w /\ (0 <= getA ag1 w)%Z.
Proof.
  intros q H. destruct (Z_lt_le_dec (getA ag1 w) 0) as [N|N].
  - exfalso. destruct (Nat.lt_ge_cases w m) as [L|L].
    + destruct (q_done _ _ q w L N) as [x [_ [Nx E]]]. lia.
    + rewrite (q_rest _ _ q w L) in H. lia.
  - split; [apply (q_keep _ _ q); exact N|exact N].
Qed.

Lemma pass2_gen m : m <= n -> exists ag, fold_left p2step (seq 0 m) (Some ag1) = Some ag /\ Q ag m.
Proof.
  induction m as [|m IH]; intros L.
  - exists ag1. split; [reflexivity|]. constructor; auto; [apply ag1_len|intros; lia].
  - destruct IH as [ag [E q]]; [lia|]. rewrite seq_S, fold_left_app, E. simpl.
    assert (Hm : getA ag m = getA ag1 m) by (apply (q_rest _ _ q); lia).
    destruct (0 <=? getA ag m)%Z eqn:Nn.
    + exists ag. split; [reflexivity|]. apply Z.leb_le in Nn. constructor.
      * exact (q_len _ _ q).
      * intros v Hv. apply (q_rest _ _ q). lia.
      * exact (q_keep _ _ q).
      * intros v Hv Ng. destruct (Nat.eq_dec v m) as [->|Ne]; [lia|]. apply (q_done _ _ q); [lia|exact Ng].
    + apply Z.leb_gt in Nn.
      destruct (scan_ok ag (row Sg m) (nth m A []) zero (-1)%Z (ALIGN m L) (POS m) (or_introl (conj eq_refl eq_refl)))
        as [ma [Es [D [_ M2]]]].
      rewrite Es. exists (upd ag m (- (ma + 1))%Z). split; [reflexivity|].
      destruct (CAND m L) as [w0 [Hw0 Nw0]]; [lia|].
      assert (Pma : (0 <= ma)%Z).
      { apply M2. exists w0. split; [exact Hw0|]. rewrite (q_keep _ _ q w0 Nw0). exact Nw0. }
      destruct D as [D|[w [Hw [Nw Ew]]]]; [lia|].
      destruct (Q_nonneg ag m w q Nw) as [Ew1 Nw1].
      constructor.
      * rewrite upd_length. exact (q_len _ _ q).
      * intros v Hv. rewrite getA_upd_neq by lia. apply (q_rest _ _ q). lia.
      * intros v Hv. destruct (Nat.eq_dec m v) as [<-|Ne]; [lia|]. rewrite getA_upd_neq by exact Ne. apply (q_keep _ _ q). exact Hv.
      * intros v Hv Ng. destruct (Nat.eq_dec m v) as [<-|Ne].
        -- exists w. split; [exact Hw|]. split; [exact Nw1|]. rewrite getA_upd_eq by (rewrite (q_len _ _ q); exact L).
           rewrite Ew, Ew1. reflexivity.
        -- rewrite getA_upd_neq by exact Ne. apply (q_done _ _ q); [lia|exact Ng].
Qed.

Lemma pass2_spec : exists ag, pass2 F zero add abs ltb A Sg r ag1 n = Some ag /\ Q ag n.
Proof. exact (pass2_gen n (le_n n)). Qed.

End AggCorrect.

(* ---------------- the result is accepted by agg_ok ---------------- *)
Lemma nth_error_filter_rank (f : nat -> bool) n s :
  s < n -> f s = true -> nth_error (filter f (seq 0 n)) (length (filter f (seq 0 s))) = Some s.
Proof.
  intros L Fs. replace n with (s + (n - s)) by lia. rewrite seq_app, filter_app. simpl.
  destruct (n - s) as [|k] eqn:E; [lia|]. simpl. rewrite Fs.
  rewrite nth_error_app2 by lia. rewrite Nat.sub_diag. reflexivity.
Qed.

Lemma getA_decode ag v : v < length ag ->
  getA (decode ag) v = (if (getA ag v <? 0)%Z then - (getA ag v + 1) else getA ag v)%Z.
Proof.
  unfold getA, decode. revert v. induction ag as [|h t IH]; intros [|v] L; simpl in *; try lia; auto.
  apply IH. lia.
Qed.

Section AggFinal.
Variable F : Type.
Variable zero : F.
Variable add : F -> F -> F.
Variable abs : F -> F.
Variable ltb : F -> F -> bool.
Variable A : list (list (nat * F)).
Variable Sg : graph.
Variable states : list Z.
Variable r : list F.

Notation n := (length Sg).
Notation pos := (pos_state states).
Notation rk := (rkey F zero r).
Notation rnk := (rank states).
Notation lab := (label_roots states n).
Notation ag1 := (pass1 Sg states (fst lab) n).

Hypothesis WFS : graph_wf Sg.
Hypothesis LA : length A = n.
Hypothesis LR : length r = n.
Hypothesis DEC : decided Sg states.
Hypothesis MAX : maximal2 Sg states.
Hypothesis ALIGN : forall i, i < n -> alignedb F (row Sg i) (nth i A []) = true.
Hypothesis POS : forall i c a, In (c, a) (nth i A []) -> ltb zero (add (abs a) (rk c)) = true.

Lemma pos_is_root v : v < n -> pos v = is_root states v.
Proof.
  intros L. destruct DEC as [Ls D]. unfold pos_state, is_root.
  assert (H : In (nth v states 0%Z) states) by (apply nth_In; lia).
  destruct (D _ H) as [E|E]; rewrite E; reflexivity.
Qed.

Lemma root_pos v : is_root states v = true -> pos v = true.
Proof. unfold is_root, pos_state. intros H. apply Z.eqb_eq in H. rewrite H. reflexivity. Qed.

(* a non-negative label after pass 1 is the rank of a root at distance <= 1 *)
Lemma ag1_nonneg v : v < n -> (0 <= getA ag1 v)%Z ->
  exists s, s < n /\ pos s = true /\ (s = v \/ In s (row Sg v)) /\ (pos v = true -> s = v) /\
            getA ag1 v = Z.of_nat (rnk s).
Proof.
  intros L. rewrite (ag1_get Sg states WFS v). replace (v <? n) with true by (symmetry; apply Nat.ltb_lt; exact L).
  destruct (pos v) eqn:Pv.
  - intros _. exists v. auto.
  - destruct (find (fun col => pos col) (row Sg v)) as [col|] eqn:Fd; [|lia].
    intros _. apply find_some in Fd. destruct Fd as [Hc Pc]. exists col.
    split; [apply (WFS v); exact Hc|]. split; [exact Pc|]. split; [right; exact Hc|]. split; [discriminate|reflexivity].
Qed.

Lemma cand v : v < n -> (getA ag1 v < 0)%Z -> exists w, In w (row Sg v) /\ (0 <= getA ag1 w)%Z.
Proof.
  intros L. rewrite (ag1_get Sg states WFS v). replace (v <? n) with true by (symmetry; apply Nat.ltb_lt; exact L).
  destruct (pos v) eqn:Pv; [lia|].
  destruct (find (fun col => pos col) (row Sg v)) as [col|] eqn:Fd; [lia|]. intros _.
  destruct (MAX v L) as [s [Ls [Rs W]]]. apply root_pos in Rs.
  destruct W as [E|[H|[w [Hw Hs]]]].
  - subst s. congruence.
  - rewrite (find_none _ _ Fd s H) in Rs. discriminate.
  - exists w. split; [exact Hw|]. assert (Lw : w < n) by (apply (WFS v); exact Hw).
    rewrite (ag1_get Sg states WFS w). replace (w <? n) with true by (symmetry; apply Nat.ltb_lt; exact Lw).
    destruct (pos w); [lia|].
    destruct (find (fun col => pos col) (row Sg w)) as [c|] eqn:Fw; [lia|].
    rewrite (find_none _ _ Fw s Hs) in Rs. discriminate.
Qed.

Lemma agg_wfb_true : agg_wfb F A Sg states r = true.
Proof.
  unfold agg_wfb. destruct DEC as [Ls _]. rewrite LA, Ls, LR, Nat.eqb_refl. simpl.
  apply graph_wfb_spec. exact WFS.
Qed.

Lemma aggregate_unfold : n <> 0 ->
  aggregate F zero add abs ltb A Sg states r =
  match pass2 F zero add abs ltb A Sg r ag1 n with
  | Some ag => Some (decode ag, snd lab)
  | None => None
  end.
Proof.
  intros NZ. unfold aggregate. rewrite agg_wfb_true. destruct n; [congruence|reflexivity].
Qed.

Lemma root_list_pos : root_list n states = filter pos (seq 0 n).
Proof.
  unfold root_list. apply filter_ext_in. intros v Hv. apply in_seq in Hv. symmetry. apply pos_is_root. lia.
Qed.

Theorem aggregate_correct :
  exists ag na, aggregate F zero add abs ltb A Sg states r = Some (ag, na) /\
                agg_ok Sg states ag na = true.
Proof.
  destruct (Nat.eq_dec n 0) as [Z|NZ].
  - exists [], 0. destruct Sg; [|discriminate]. split; reflexivity.
  - rewrite (aggregate_unfold NZ).
    destruct (pass2_spec F zero add abs ltb A Sg states r ALIGN POS cand) as [ag [E q]].
    rewrite E. exists (decode ag), (snd lab). split; [reflexivity|].
    destruct (label_spec Sg states) as [_ [Lb _]].
    pose proof (q_len _ _ _ _ q) as Lq.
    (* every vertex ends in the aggregate of a root within two edges *)
    assert (FIN : forall v, v < n -> exists s, s < n /\ pos s = true /\ within2 Sg v s /\
                   (pos v = true -> s = v) /\ getA (decode ag) v = Z.of_nat (rnk s)).
    { intros v L. rewrite getA_decode by lia.
      destruct (Z_lt_le_dec (getA ag1 v) 0) as [Ng|Nn].
      - destruct (q_done _ _ _ _ q v L Ng) as [w [Hw [Nw Ew]]].
        assert (Lw : w < n) by (apply (WFS v); exact Hw).
        destruct (ag1_nonneg w Lw Nw) as [s [Ls [Ps [Adj [_ Es]]]]].
        exists s. split; [exact Ls|]. split; [exact Ps|]. split; [|split].
        + destruct Adj as [->|Adj]; [right; left; exact Hw|right; right; exists w; auto].
        + intros Pv. exfalso. rewrite (ag1_get Sg states WFS v) in Ng.
          replace (v <? n) with true in Ng by (symmetry; apply Nat.ltb_lt; exact L). rewrite Pv in Ng. lia.
        + rewrite Ew. replace (- (getA ag1 w + 1) <? 0)%Z with true by (symmetry; apply Z.ltb_lt; lia).
          rewrite <- Es. lia.
      - rewrite (q_keep _ _ _ _ q v Nn).
        replace (getA ag1 v <? 0)%Z with false by (symmetry; apply Z.ltb_ge; lia).
        destruct (ag1_nonneg v L Nn) as [s [Ls [Ps [Adj [Own Es]]]]].
        exists s. split; [exact Ls|]. split; [exact Ps|]. split; [|split; [exact Own|exact Es]].
        destruct Adj as [->|Adj]; [left; reflexivity|right; left; exact Adj]. }
    assert (AR : forall v, v < n -> exists s, s < n /\ pos s = true /\ within2 Sg v s /\
                   (pos v = true -> s = v) /\ aroot_seq n states (decode ag) v = Some s).
    { intros v L. destruct (FIN v L) as [s [Ls [Ps [W [Own Es]]]]]. exists s. repeat (split; [assumption|]).
      unfold aroot_seq. fold (getA (decode ag) v). rewrite Es.
      replace (0 <=? Z.of_nat (rnk s))%Z with true by (symmetry; apply Z.leb_le; lia).
      rewrite Nat2Z.id, root_list_pos. apply nth_error_filter_rank; assumption. }
    assert (Ld : length (decode ag) = n) by (unfold decode; rewrite map_length; exact Lq).
    unfold agg_ok. rewrite Ld, Nat.eqb_refl. simpl. unfold agg_core. apply andb_true_iff. split.
    + apply forallb_seq. intros v L. destruct (AR v L) as [s [Ls [Ps [W [Own Ea]]]]]. rewrite Ea.
      assert (Rs : is_root states s = true) by (rewrite <- pos_is_root by exact Ls; exact Ps).
      destruct (AR s Ls) as [s' [_ [_ [_ [Own' Ea']]]]]. rewrite (Own' Ps) in Ea'.
      rewrite Ea'. simpl. rewrite Nat.eqb_refl, Rs.
      replace (s <? n) with true by (symmetry; apply Nat.ltb_lt; exact Ls).
      rewrite (proj2 (within2b_spec Sg v s) W). simpl. rewrite orb_true_r. simpl.
      rewrite <- (pos_is_root v L). destruct (pos v) eqn:Pv; simpl.
      * rewrite (Own eq_refl), Nat.eqb_refl. reflexivity.
      * destruct (s =? v) eqn:Esv; [|reflexivity]. apply Nat.eqb_eq in Esv. subst s. congruence.
    + apply Nat.eqb_eq. rewrite Lb. unfold rank. f_equal. apply filter_ext_in. intros v Hv. apply in_seq in Hv.
      assert (L : v < n) by lia. destruct (AR v L) as [s [Ls [Ps [W [Own Ea]]]]]. rewrite Ea. simpl.
      destruct (pos v) eqn:Pv.
      * rewrite (Own eq_refl). symmetry. apply Nat.eqb_refl.
      * symmetry. apply Nat.eqb_neq. intros ->. congruence.
Qed.

End AggFinal.
