(* Distributed C/F splittings as pure functions of the GLOBAL strength pattern, the contiguous partition
   (list of block sizes, empty blocks allowed) and the caller's weights
   (raptor/ruge_stuben/par_cf_splitting.cpp: set_initial_states, split_rs on a ParCSRMatrix, reset_boundaries,
    initial_weights, find_off_proc_weights, find_max_off_weights, select_independent_set,
    find_off_proc_states, update_states, pmis_main_loop, split_pmis, split_hmis).
   Data owned by the ranks (states, weights) is kept in ONE global list (rank r owns the slice
   [lo_r, lo_r + n_r)); what a rank knows about other ranks (off_proc_states, off_proc_weights,
   unassigned_off) is kept per rank.  MPI is not modelled: a forward exchange reads the owners' slice, a
   reverse exchange reduces into it.  The conditional exchanges (conditional_comm / conditional_comm_T) deliver
   only the positions selected by the predicate; they are well defined only if sender and receiver select the
   same positions, which the model checks at every exchange (result None otherwise: in the library that is a
   truncated message or a hang).  Amg/SplitParProofs.v proves that the check never fails. *)
From Coq Require Import List Arith Lia Bool.
Import ListNotations.
From Raptor Require Import Amg.Split.

(* ---------- partition ---------- *)
Fixpoint block_starts (acc : nat) (part : list nat) : list (nat * nat) :=   (* (lo, size) per rank *)
  match part with
  | [] => []
  | k :: t => (acc, k) :: block_starts (acc + k) t
  end.
Definition in_block (b : nat * nat) (v : nat) : bool := (fst b <=? v) && (v <? fst b + snd b).
Definition block_of (bs : list (nat * nat)) (v : nat) : nat * nat :=
  match find (fun b => in_block b v) bs with Some b => b | None => (0, 0) end.

Definition off_row (b : nat * nat) (row : list nat) : list nat :=
  filter (fun c => negb (in_block b c)) row.

Fixpoint insert_u (x : nat) (l : list nat) : list nat :=
  match l with
  | [] => [x]
  | y :: t => if x <? y then x :: l else if x =? y then l else y :: insert_u x t
  end.
Definition sort_u (l : list nat) : list nat := fold_left (fun acc x => insert_u x acc) l [].

(* set_initial_states: stored on-process row longer than 1 (the diagonal) or any off-process entry *)
Definition initial_states (S : graph) (bs : list (nat * nat)) : list label :=
  map (fun ir => let b := block_of bs (fst ir) in
                 if (1 <? length (filter (in_block b) (snd ir))) || (0 <? length (off_row b (snd ir)))
                 then LU else LN) (indexed S).

(* ---------- distributed Ruge-Stuben: sequential split_rs on the diagonal block with these initial states ---------- *)
Definition local_graph (S : graph) (b : nat * nat) : graph :=
  map (fun row => map (fun c => c - fst b) (filter (in_block b) row)) (firstn (snd b) (skipn (fst b) S)).
Definition par_split_rs_gen (S : graph) (part : list nat) (second : bool) : list label :=
  let bs := block_starts 0 part in
  let st0 := initial_states S bs in
  flat_map (fun b => split_rs_gen (local_graph S b) (Some (firstn (snd b) (skipn (fst b) st0))) second) bs.
Definition par_split_rs (S : graph) (part : list nat) : list label := par_split_rs_gen S part true.

(* ---------- distributed PMIS ---------- *)
(* What rank r knows about the other ranks (off_proc_states, off_proc_weights, unassigned_off) is kept in arrays
   indexed by GLOBAL column id; only the entries of its off-process columns (off_proc_column_map) are ever read or
   written.  Loops over the on-/off-process part of a row or column are loops over the global row / column list
   filtered by ownership. *)
Section ParMIS.
Variable F : Type.
Variables (zero one : F) (add : F -> F -> F).
Variable ltb : F -> F -> bool.
Variables R CL : list (list nat).     (* global off-diagonal rows, global column lists *)
Notation n := (length R).

Fixpoint of_nat (k : nat) : F := match k with 0 => zero | S j => add (of_nat j) one end.
Definition fmax (c d : F) : F := if ltb d c then c else d.

(* off_proc_column_map of the rank owning block b *)
Definition colmap (b : nat * nat) : list nat :=
  sort_u (flat_map (fun u => filter (fun c => negb (in_block b c)) (nth u R [])) (seq (fst b) (snd b))).

Record pdyn := mkPdyn {
  d_view : list label;   (* off_proc_states, by global id *)
  d_offw : list F;       (* off_proc_weights, by global id *)
  d_un : list nat;       (* unassigned *)
  d_unoff : list nat;    (* unassigned_off (global ids) *)
  d_active : bool        (* still inside the while loop *)
}.

(* initial_weights: keys, +1 per on-process entry, + the off-process counts reduced through communicate_T *)
Definition initial_weights (bs : list (nat * nat)) (keys : list F) : list F :=
  let w1 := fold_left (fun w b => fold_left (fun w u =>
                fold_left (fun w idx => upd w idx (add (nth idx w zero) one)) (filter (in_block b) (nth u R [])) w)
                (seq (fst b) (snd b)) w) bs keys in
  fold_left (fun w b => fold_left (fun w g =>
                upd w g (add (nth g w zero) (of_nat (length (filter (in_block b) (nth g CL []))))))
                (colmap b) w) bs w1.

Definition is_U (l : label) := label_eqb l LU.
Definition is_moving (l : label) := match l with LU | LNC | LNF => true | _ => false end.   (* a == Unassigned || a > Selected *)

Definition owner_active (bds : list ((nat * nat) * pdyn)) (g : nat) : bool :=
  existsb (fun bd => in_block (fst bd) g && d_active (snd bd)) bds.

(* positions selected by the rank holding the off-process column and by the owner coincide:
   (holder inside its loop and cmp(view)) = (owner inside its loop and cmp(owner's state)) *)
Definition agree (cmp : label -> bool) (first : bool) (bds : list ((nat * nat) * pdyn)) (st : list label) : bool :=
  first ||
  forallb (fun bd =>
      forallb (fun g => Bool.eqb (d_active (snd bd) && cmp (nth g (d_view (snd bd)) LU))
                                 (owner_active bds g && cmp (nth g st LU)))
              (colmap (fst bd))) bds.

(* find_max_off_weights *)
Definition maxw (w : list F) (l : list nat) : F :=
  fold_left (fun m idx => if ltb m (nth idx w zero) then nth idx w zero else m) l zero.
Definition max_off_weights (first : bool) (bds : list ((nat * nat) * pdyn)) (w : list F) : list F :=
  fold_left (fun mw bd =>
      if d_active (snd bd) then
        fold_left (fun mw g =>
            if is_U (nth g (d_view (snd bd)) LU) || first then
              upd mw g (fmax (nth g mw zero) (maxw w (filter (in_block (fst bd)) (nth g CL []))))
            else mw) (colmap (fst bd)) mw
      else mw) bds (map (fun _ => zero) w).

(* select_independent_set of one rank *)
Definition par_sel_ok (b : nat * nat) (dy : pdyn) (w mw : list F) (u : nat) : bool :=
  let wu := nth u w zero in
  negb (ltb wu (nth u mw zero)) &&
  negb (existsb (fun idx => ltb wu (nth idx w zero)) (filter (in_block b) (nth u R []))) &&
  negb (existsb (fun c => ltb wu (nth c (d_offw dy) zero)) (filter (fun c => negb (in_block b c)) (nth u R []))) &&
  negb (existsb (fun idx => ltb wu (nth idx w zero)) (filter (in_block b) (nth u CL []))).
Definition par_select (b : nat * nat) (dy : pdyn) (w mw : list F) (st : list label) : list label * list nat :=
  fold_left (fun p u => if par_sel_ok b dy w mw u then (upd (fst p) u LNC, snd p ++ [u]) else p) (d_un dy) (st, []).

(* find_off_proc_states *)
Definition recv_states (first : bool) (b : nat * nat) (dy : pdyn) (st : list label) : list label :=
  fold_left (fun view g => if first || is_U (nth g view LU) then upd view g (nth g st LU) else view) (colmap b) (d_view dy).
Definition set_view (dy : pdyn) (v : list label) : pdyn :=
  mkPdyn v (d_offw dy) (d_un dy) (d_unoff dy) (d_active dy).

Definition mark_rows (st : list label) (rows : list nat) : list label :=
  fold_left (fun st row => if is_U (nth row st LU) then upd st row LNF else st) rows st.

(* update_states (parallel version: weights, states, list) *)
Definition par_update_states (w : list F) (st : list label) (un : list nat) : list nat * list label * list F :=
  fold_left (fun q u =>
    let '(un, st, w) := q in
    if label_eqb (nth u st LU) LNC then (un, upd st u LC, upd w u zero)
    else if ltb (nth u w zero) one || label_eqb (nth u st LU) LNF then (un, upd st u LF, upd w u zero)
    else (un ++ [u], st, w)) un ([], st, w).

(* the per-rank pieces of one pass of the while loop *)
Definition sel_rank (w mw : list F) (a : list label * list (list nat)) (bd : (nat * nat) * pdyn) :=
  let '(st, ncls) := a in
  if d_active (snd bd) then
    let '(st', ncl) := par_select (fst bd) (snd bd) w mw st in (st', ncls ++ [ncl])
  else (st, ncls ++ [[]]).
Definition recv_rank (first : bool) (st : list label) (bd : (nat * nat) * pdyn) : pdyn :=
  if d_active (snd bd) then set_view (snd bd) (recv_states first (fst bd) (snd bd) st) else snd bd.
(* rows depending on a new coarse column (own: new_coarse_list; other ranks': view NewSelection) become NewUnselection *)
Definition mark_rank (st : list label) (bdn : (nat * nat) * pdyn * list nat) : list label :=
  let '(b, dy, ncl) := bdn in
  if d_active dy then
    let st := fold_left (fun st idx => mark_rows st (filter (in_block b) (nth idx CL []))) ncl st in
    fold_left (fun st g => if label_eqb (nth g (d_view dy) LU) LNC
                           then mark_rows st (filter (in_block b) (nth g CL [])) else st)
              (d_unoff dy) st
  else st.
(* update_states on the own slice and on the views *)
Definition upd_rank (a : list pdyn * list label * list F) (bd : (nat * nat) * pdyn) :=
  let '(dys, st, w) := a in
  let dy := snd bd in
  if d_active dy then
    let '(un, st', w') := par_update_states w st (d_un dy) in
    let '(unoff, view', offw') := par_update_states (d_offw dy) (d_view dy) (d_unoff dy) in
    (dys ++ [mkPdyn view' offw' un unoff (match un, unoff with [], [] => false | _, _ => true end)], st', w')
  else (dys ++ [dy], st, w).

(* one pass of the while loop on all ranks that are still inside it *)
Definition par_round (first : bool) (bs : list (nat * nat)) (p : list pdyn * list label * list F)
  : option (list pdyn * list label * list F) :=
  let '(dys, st, w) := p in
  if negb (agree is_U first (combine bs dys) st) then None else
  let mw := max_off_weights first (combine bs dys) w in
  (* select on every active rank; each rank writes its own slice only *)
  let '(st1, ncls) := fold_left (sel_rank w mw) (combine bs dys) (st, []) in
  if negb (agree is_moving first (combine bs dys) st1) then None else
  let dys1 := map (recv_rank first st1) (combine bs dys) in
  let st2 := fold_left mark_rank (combine (combine bs dys1) ncls) st1 in
  if negb (agree is_moving first (combine bs dys1) st2) then None else
  let dys2 := map (recv_rank first st2) (combine bs dys1) in
  Some (fold_left upd_rank (combine bs dys2) ([], st2, w)).

Fixpoint par_loop (fuel : nat) (bs : list (nat * nat)) (p : list pdyn * list label * list F)
  : option (list pdyn * list label * list F) :=
  if existsb d_active (fst (fst p)) then
    match fuel with
    | 0 => None
    | S f => match par_round false bs p with Some p' => par_loop f bs p' | None => None end
    end
  else Some p.

(* pmis_main_loop up to the first pass of the while loop (always executed) *)
(* rows depending on an already selected column become fine (HMIS enters with coarse points) *)
Definition premark (bs : list (nat * nat)) (st0 : list label) : list label :=
  fold_left (fun st b => fold_left (fun st i =>
      if label_eqb (nth i st LU) LC
      then fold_left (fun st row => if is_U (nth row st LU) then upd st row LF else st)
                     (filter (in_block b) (nth i CL [])) st
      else st) (seq (fst b) (snd b)) st) bs st0.
(* the loop over the local rows: unassigned with weight below one becomes fine, unassigned otherwise goes to
   the work list, anything else gets weight zero *)
Definition cls_step (q : list nat * list label * list F) (i : nat) :=
  let '(un, st, w) := q in
  if is_U (nth i st LU) && ltb (nth i w zero) one then (un, upd st i LF, upd w i zero)
  else if is_U (nth i st LU) then (un ++ [i], st, w)
  else (un, st, upd w i zero).
Definition cls_rank (a : list (list nat) * list label * list F) (b : nat * nat) :=
  let '(uns, st, w) := a in
  let '(un, st', w') := fold_left cls_step (seq (fst b) (snd b)) ([], st, w) in
  (uns ++ [un], st', w').
(* first exchange of states and weights *)
Definition start_dyn (st2 : list label) (w2 : list F) (bu : (nat * nat) * list nat) : pdyn :=
  let cm := colmap (fst bu) in
  let view := fold_left (fun v g => upd v g (nth g st2 LU)) cm (repeat LU n) in
  let offw := fold_left (fun v g => upd v g (nth g w2 zero)) cm (repeat zero n) in
  mkPdyn view offw (snd bu) (filter (fun g => is_U (nth g view LU)) cm) true.

Definition par_pmis_start (bs : list (nat * nat)) (st0 : list label) (keys : list F) : list pdyn * list label * list F :=
  let w0 := initial_weights bs keys in
  let st1 := premark bs st0 in
  let '(uns, st2, w2) := fold_left cls_rank bs ([], st1, w0) in
  (map (start_dyn st2 w2) (combine bs uns), st2, w2).

Definition par_pmis_main (fuel : nat) (bs : list (nat * nat)) (st0 : list label) (keys : list F)
  : option (list (list label) * list label) :=
  match par_round true bs (par_pmis_start bs st0 keys) with
  | Some p => match par_loop fuel bs p with
              | Some (dys, st, w) =>
                Some (map (fun bd => map (fun g => nth g (d_view (snd bd)) LU) (colmap (fst bd))) (combine bs dys), st)
              | None => None
              end
  | None => None
  end.
End ParMIS.

Definition par_split_pmis {F} (zero one : F) add ltb (S : graph) (part : list nat) (keys : list F) (fuel : nat)
  : option (list (list label) * list label) :=
  let bs := block_starts 0 part in
  let R := off_rows S in
  par_pmis_main F zero one add ltb R (col_lists R) fuel bs (initial_states S bs) keys.

(* split_hmis = first pass of RS on the diagonal block, reset_boundaries, then the PMIS loop *)
Definition reset_boundaries (S : graph) (bs : list (nat * nat)) (st : list label) : list label :=
  let boundary v := let b := block_of bs v in
      (0 <? length (off_row b (nth v S []))) ||
      existsb (fun ir => negb (in_block b (fst ir)) && existsb (Nat.eqb v) (snd ir)) (indexed S) in
  map (fun vl => if boundary (fst vl) then LU else snd vl) (indexed st).
Definition par_split_hmis {F} (zero one : F) add ltb (S : graph) (part : list nat) (keys : list F) (fuel : nat)
  : option (list (list label) * list label) :=
  let bs := block_starts 0 part in
  let st0 := reset_boundaries S bs (par_split_rs_gen S part false) in
  let R := off_rows S in
  par_pmis_main F zero one add ltb R (col_lists R) fuel bs st0 keys.
