(* Distributed C/F splittings as pure functions of the GLOBAL strength pattern, the contiguous partition
   (list of block sizes, empty blocks allowed) and the caller's weights
   (raptor/ruge_stuben/par_cf_splitting.cpp: set_initial_states, split_rs on a ParCSRMatrix, transpose,
    initial_weights, find_off_proc_weights, find_max_off_weights, select_independent_set,
    find_off_proc_states, update_states, pmis_main_loop, split_pmis).
   Data owned by the ranks (states, weights) is kept in ONE global list (rank r owns the slice
   [lo_r, lo_r + n_r)); what a rank knows about other ranks (off_proc_states, off_proc_weights,
   unassigned_off) is kept per rank, aligned with its off_proc_column_map.  MPI is not modelled: a forward
   exchange reads the owners' slice, a reverse exchange reduces into it.  The conditional exchanges
   (conditional_comm / conditional_comm_T) deliver only the positions selected by the predicate; they are
   well defined only if sender and receiver select the same positions, which the model checks at every
   exchange (result None otherwise: in the library that is a truncated message or a hang). *)
From Coq Require Import List Arith Lia Bool.
Import ListNotations.
From Raptor Require Import Amg.Split.

(* ---------- partition ---------- *)
Fixpoint block_starts (acc : nat) (part : list nat) : list (nat * nat) :=   (* (lo, size) per rank *)
  match part with
  | [] => []
  | k :: t => (acc, k) :: block_starts (acc + k) t
  end.
Definition in_block (b : nat * nat) (v : nat) : bool := (fst b <=? v) && (v <? fst b + snd b).
Definition block_of (bs : list (nat * nat)) (v : nat) : nat * nat :=
  match find (fun b => in_block b v) bs with Some b => b | None => (0, 0) end.

(* on-process part of global row v as the local loops see it (move_diag, then skip the diagonal), global ids *)
Definition on_row (b : nat * nat) (v : nat) (row : list nat) : list nat :=
  offd v (move_diag_row v (filter (in_block b) row)).
Definition off_row (b : nat * nat) (row : list nat) : list nat :=
  filter (fun c => negb (in_block b c)) row.

Fixpoint insert_u (x : nat) (l : list nat) : list nat :=
  match l with
  | [] => [x]
  | y :: t => if x <? y then x :: l else if x =? y then l else y :: insert_u x t
  end.
Definition sort_u (l : list nat) : list nat := fold_left (fun acc x => insert_u x acc) l [].

Fixpoint index_of (x : nat) (l : list nat) : nat :=
  match l with
  | [] => 0
  | y :: t => if x =? y then 0 else S (index_of x t)
  end.

(* set_initial_states: stored on-process row longer than 1 (the diagonal) or any off-process entry *)
Definition initial_states (S : graph) (bs : list (nat * nat)) : list label :=
  map (fun ir => let b := block_of bs (fst ir) in
                 if (1 <? length (filter (in_block b) (snd ir))) || (0 <? length (off_row b (snd ir)))
                 then LU else LN) (indexed S).

(* ---------- distributed Ruge-Stuben: sequential split_rs on the diagonal block with these initial states ---------- *)
Definition local_graph (S : graph) (b : nat * nat) : graph :=
  map (fun row => map (fun c => c - fst b) (filter (in_block b) row)) (firstn (snd b) (skipn (fst b) S)).
Definition par_split_rs_gen (S : graph) (part : list nat) (second : bool) : list label :=
  let bs := block_starts 0 part in
  let st0 := initial_states S bs in
  flat_map (fun b => split_rs_gen (local_graph S b) (Some (firstn (snd b) (skipn (fst b) st0))) second) bs.
Definition par_split_rs (S : graph) (part : list nat) : list label := par_split_rs_gen S part true.

(* ---------- distributed PMIS ---------- *)
Section ParMIS.
Variable F : Type.
Variables (zero one : F) (add : F -> F -> F).
Variable ltb : F -> F -> bool.

Fixpoint of_nat (k : nat) : F := match k with 0 => zero | S j => add (of_nat j) one end.
Definition fmax (c d : F) : F := if ltb d c then c else d.

(* static data of one rank *)
Record prank := mkPrank {
  p_b : nat * nat;
  p_on : list (nat * list nat);      (* (global row id, on-process off-diagonal row), rows of the block in order *)
  p_off : list (nat * list nat);     (* (global row id, off-process row) *)
  p_colmap : list nat;               (* off_proc_column_map *)
  p_clon : list (nat * list nat);    (* (global col id, rows of the block depending on it), columns of the block *)
  p_cloff : list (list nat)          (* per off-process column: rows of the block depending on it *)
}.
(* what a rank knows about the others + its work lists *)
Record pdyn := mkPdyn {
  d_view : list label;   (* off_proc_states *)
  d_offw : list F;       (* off_proc_weights *)
  d_un : list nat;       (* unassigned (global ids) *)
  d_unoff : list nat;    (* unassigned_off (positions in the column map) *)
  d_active : bool        (* still inside the while loop *)
}.

Definition mk_prank (S : graph) (b : nat * nat) : prank :=
  let rows := firstn (snd b) (skipn (fst b) (indexed S)) in
  let on := map (fun ir => (fst ir, on_row b (fst ir) (snd ir))) rows in
  let off := map (fun ir => (fst ir, off_row b (snd ir))) rows in
  let colmap := sort_u (flat_map snd off) in
  let clon := group_by (snd b) (flat_map (fun ir => map (fun c => (c - fst b, fst ir)) (snd ir)) on) in
  let cloff := group_by (length colmap) (flat_map (fun ir => map (fun c => (index_of c colmap, fst ir)) (snd ir)) off) in
  mkPrank b on off colmap (combine (seq (fst b) (snd b)) clon) cloff.

Definition lookup (u : nat) (l : list (nat * list nat)) : list nat :=
  match find (fun p => fst p =? u) l with Some p => snd p | None => [] end.

(* initial_weights: keys, +1 per on-process entry, + the off-process counts reduced through communicate_T *)
Definition initial_weights (prs : list prank) (keys : list F) : list F :=
  let w1 := fold_left (fun w pr => fold_left (fun w ir =>
                fold_left (fun w idx => upd w idx (add (nth idx w zero) one)) (snd ir) w) (p_on pr) w) prs keys in
  fold_left (fun w pr => fold_left (fun w jc => upd w (fst jc) (add (nth (fst jc) w zero) (of_nat (length (snd jc)))))
                                   (combine (p_colmap pr) (p_cloff pr)) w) prs w1.

Definition is_U (l : label) := label_eqb l LU.
Definition is_moving (l : label) := match l with LU | LNC | LNF => true | _ => false end.   (* a == Unassigned || a > Selected *)

(* the owner of global id g is inside its loop *)
Definition owner_active (prs : list prank) (dys : list pdyn) (g : nat) : bool :=
  existsb (fun pd => in_block (p_b (fst pd)) g && d_active (snd pd)) (combine prs dys).

(* positions selected by the rank holding the off-process column and by the owner coincide:
   (holder inside its loop and cmp(view)) = (owner inside its loop and cmp(owner's state)) *)
Definition agree (cmp : label -> bool) (first : bool) (prs : list prank) (dys : list pdyn) (st : list label) : bool :=
  first ||
  forallb (fun pd =>
      forallb (fun gl => Bool.eqb (d_active (snd pd) && cmp (snd gl))
                                  (owner_active prs dys (fst gl) && cmp (nth (fst gl) st LU)))
              (combine (p_colmap (fst pd)) (d_view (snd pd))))
    (combine prs dys).

(* find_max_off_weights *)
Definition max_off_weights (first : bool) (prs : list prank) (dys : list pdyn) (st : list label) (w : list F) : list F :=
  fold_left (fun mw pd =>
      if d_active (snd pd) then
        fold_left (fun mw gvc =>
            let '(g, v, col) := gvc in
            if is_U v || first then
              upd mw g (fmax (nth g mw zero) (fold_left (fun m idx => if ltb m (nth idx w zero) then nth idx w zero else m) col zero))
            else mw)
          (combine (combine (p_colmap (fst pd)) (d_view (snd pd))) (p_cloff (fst pd))) mw
      else mw)
    (combine prs dys) (map (fun _ => zero) w).

(* select_independent_set of one rank *)
Definition par_sel_ok (pr : prank) (dy : pdyn) (w mw : list F) (u : nat) : bool :=
  let wu := nth u w zero in
  negb (ltb wu (nth u mw zero)) &&
  negb (existsb (fun idx => ltb wu (nth idx w zero)) (lookup u (p_on pr))) &&
  negb (existsb (fun c => ltb wu (nth (index_of c (p_colmap pr)) (d_offw dy) zero)) (lookup u (p_off pr))) &&
  negb (existsb (fun idx => ltb wu (nth idx w zero)) (lookup u (p_clon pr))).
Definition par_select (pr : prank) (dy : pdyn) (w mw : list F) (st : list label) : list label * list nat :=
  fold_left (fun p u => if par_sel_ok pr dy w mw u then (upd (fst p) u LNC, snd p ++ [u]) else p) (d_un dy) (st, []).

(* find_off_proc_states *)
Definition recv_states (first : bool) (pr : prank) (dy : pdyn) (st : list label) : list label :=
  map (fun gl => if first || is_U (snd gl) then nth (fst gl) st LU else snd gl) (combine (p_colmap pr) (d_view dy)).
Definition set_view (dy : pdyn) (v : list label) : pdyn :=
  mkPdyn v (d_offw dy) (d_un dy) (d_unoff dy) (d_active dy).

Definition mark_rows (st : list label) (rows : list nat) : list label :=
  fold_left (fun st row => if is_U (nth row st LU) then upd st row LNF else st) rows st.

(* update_states (parallel version: weights, states, list) *)
Definition par_update_states (w : list F) (st : list label) (un : list nat) : list nat * list label * list F :=
  fold_left (fun q u =>
    let '(un, st, w) := q in
    if label_eqb (nth u st LU) LNC then (un, upd st u LC, upd w u zero)
    else if ltb (nth u w zero) one || label_eqb (nth u st LU) LNF then (un, upd st u LF, upd w u zero)
    else (un ++ [u], st, w)) un ([], st, w).

(* one pass of the while loop on all ranks that are still inside it *)
Definition par_round (first : bool) (prs : list prank) (p : list pdyn * list label * list F)
  : option (list pdyn * list label * list F) :=
  let '(dys, st, w) := p in
  if negb (agree is_U first prs dys st) then None else
  let mw := max_off_weights first prs dys st w in
  (* select on every active rank; each rank writes its own slice only *)
  let '(st1, ncls) := fold_left (fun a pd =>
        let '(st, ncls) := a in
        if d_active (snd pd) then let '(st', ncl) := par_select (fst pd) (snd pd) w mw st in (st', ncls ++ [ncl])
        else (st, ncls ++ [[]])) (combine prs dys) (st, []) in
  if negb (agree is_moving first prs dys st1) then None else
  let dys1 := map (fun pd => if d_active (snd pd) then set_view (snd pd) (recv_states first (fst pd) (snd pd) st1) else snd pd)
                  (combine prs dys) in
  (* rows depending on a new coarse column become NewUnselection *)
  let st2 := fold_left (fun st pdn =>
        let '(pr, dy, ncl) := pdn in
        if d_active dy then
          let st := fold_left (fun st idx => mark_rows st (lookup idx (p_clon pr))) ncl st in
          fold_left (fun st j => if label_eqb (nth j (d_view dy) LU) LNC then mark_rows st (nth j (p_cloff pr) []) else st)
                    (d_unoff dy) st
        else st) (combine (combine prs dys1) ncls) st1 in
  if negb (agree is_moving first prs dys1 st2) then None else
  let dys2 := map (fun pd => if d_active (snd pd) then set_view (snd pd) (recv_states first (fst pd) (snd pd) st2) else snd pd)
                  (combine prs dys1) in
  (* update_states on the own slice and on the views *)
  let '(dys3, st3, w3) := fold_left (fun a pd =>
        let '(dys, st, w) := a in
        let dy := snd pd in
        if d_active dy then
          let '(un, st', w') := par_update_states w st (d_un dy) in
          let '(unoff, view', offw') := par_update_states (d_offw dy) (d_view dy) (d_unoff dy) in
          (dys ++ [mkPdyn view' offw' un unoff (match un, unoff with [], [] => false | _, _ => true end)], st', w')
        else (dys ++ [dy], st, w)) (combine prs dys2) ([], st2, w) in
  Some (dys3, st3, w3).

Fixpoint par_loop (fuel : nat) (prs : list prank) (p : list pdyn * list label * list F) : option (list pdyn * list label * list F) :=
  if existsb d_active (fst (fst p)) then
    match fuel with
    | 0 => None
    | S f => match par_round false prs p with Some p' => par_loop f prs p' | None => None end
    end
  else Some p.

(* pmis_main_loop up to the first pass of the while loop (always executed) *)
Definition par_pmis_start (prs : list prank) (st0 : list label) (keys : list F) : list pdyn * list label * list F :=
  let w0 := initial_weights prs keys in
  (* rows depending on an already selected column become fine (HMIS) *)
  let st1 := fold_left (fun st pr => fold_left (fun st cc =>
                 if label_eqb (nth (fst cc) st LU) LC
                 then fold_left (fun st row => if is_U (nth row st LU) then upd st row LF else st) (snd cc) st
                 else st) (p_clon pr) st) prs st0 in
  let '(uns, st2, w2) := fold_left (fun a pr =>
        let '(uns, st, w) := a in
        let '(un, st', w') := fold_left (fun q i =>
              let '(un, st, w) := q in
              if is_U (nth i st LU) && ltb (nth i w zero) one then (un, upd st i LF, upd w i zero)
              else if is_U (nth i st LU) then (un ++ [i], st, w)
              else (un, st, upd w i zero)) (seq (fst (p_b pr)) (snd (p_b pr))) ([], st, w) in
        (uns ++ [un], st', w')) prs ([], st1, w0) in
  let dys := map (fun pu =>
        let view := map (fun g => nth g st2 LU) (p_colmap (fst pu)) in
        let unoff := filter (fun j => is_U (nth j view LU)) (seq 0 (length view)) in
        mkPdyn view (map (fun g => nth g w2 zero) (p_colmap (fst pu))) (snd pu) unoff true) (combine prs uns) in
  (dys, st2, w2).

Definition par_pmis_main (fuel : nat) (prs : list prank) (st0 : list label) (keys : list F)
  : option (list (list label) * list label) :=
  match par_round true prs (par_pmis_start prs st0 keys) with
  | Some p => match par_loop fuel prs p with
              | Some (dys, st, w) => Some (map d_view dys, st)
              | None => None
              end
  | None => None
  end.
End ParMIS.

Definition par_split_pmis {F} (zero one : F) add ltb (S : graph) (part : list nat) (keys : list F) (fuel : nat)
  : option (list (list label) * list label) :=
  let bs := block_starts 0 part in
  par_pmis_main F zero one add ltb fuel (map (mk_prank S) bs) (initial_states S bs) keys.

(* split_hmis = first pass of RS on the diagonal block, reset_boundaries, then the PMIS loop *)
Definition reset_boundaries (S : graph) (bs : list (nat * nat)) (st : list label) : list label :=
  let boundary v := let b := block_of bs v in
      (0 <? length (off_row b (nth v S []))) ||
      existsb (fun ir => negb (in_block b (fst ir)) && existsb (Nat.eqb v) (snd ir)) (indexed S) in
  map (fun vl => if boundary (fst vl) then LU else snd vl) (indexed st).
Definition par_split_hmis {F} (zero one : F) add ltb (S : graph) (part : list nat) (keys : list F) (fuel : nat)
  : option (list (list label) * list label) :=
  let bs := block_starts 0 part in
  let st0 := reset_boundaries S bs (par_split_rs_gen S part false) in
  par_pmis_main F zero one add ltb fuel (map (mk_prank S) bs) st0 keys.
