(* Executable model of raptor/ruge_stuben/interpolation.cpp (direct_interpolation, mod_classical_interpolation,
   extended_interpolation) and of the distributed direct_interpolation of par_interpolation.cpp, plus the
   verified checker `interp_ok` that is run on the gathered output of the distributed modified-classical
   and extended routines (their algorithms are not modelled).

   Matrices are lists of rows of (column, value) pairs; A and S are given in storage order, every routine
   starts with A->sort(); A->move_diag(); S->sort(); S->move_diag()  (= prep_row of Amg/Strength.v).
   states: 1 = Selected (C point), 0 = Unselected (F point), anything else = the other labels of types.hpp.
   Sums are `sumf` (exact arithmetic; the order of the floating-point additions is not modelled).
   `val_at c r` is what the forward search `while (A->idx2[ctr] != col) ctr++` finds in a sorted duplicate-free
   row that contains the column (the code runs off the row otherwise: precondition S pattern inside A pattern). *)
From Raptor Require Import Base.Sums Sparse.Defs Amg.Strength.

Section Interp.
Variable F : Type.
Variables (zero one : F) (add mul : F -> F -> F) (opp : F -> F) (div : F -> F -> F).
Variable ltb : F -> F -> bool.          (* a < b *)
Variable eqb : F -> F -> bool.          (* a == b *)
Variable small : F -> bool.             (* fabs(a) < zero_tol *)

Notation row := (list (nat * F)).
Notation sumF := (sumf F zero add).
Notation prep := (prep_row F).

Definition isC (states : list nat) (c : nat) : bool := nth c states 0 =? 1.   (* states[c] == Selected *)
Definition isU (states : list nat) (c : nat) : bool := nth c states 0 =? 0.   (* states[c] == Unselected *)
(* col_to_new[c]: number of Selected points before c *)
Definition rankC (states : list nat) (c : nat) : nat := length (filter (fun s => s =? 1) (firstn c states)).

Definition val_at (c : nat) (r : row) : F :=
  match find (fun p => fst p =? c) r with Some p => snd p | None => zero end.
Definition has_col (c : nat) (r : row) : bool := existsb (fun p => fst p =? c) r.
(* if (S->idx2[start] == i) start++; *)
Definition drop_diag (i : nat) (r : row) : row :=
  match r with p :: r' => if fst p =? i then r' else r | [] => [] end.
Definition head_val (r : row) : F := match r with p :: _ => snd p | [] => zero end.

Definition isneg (v : F) : bool := ltb v zero.
Definition negs (l : list F) : list F := filter isneg l.
Definition nonnegs (l : list F) : list F := filter (fun v => negb (isneg v)) l.

(* ---------------- direct interpolation ---------------- *)
(* (neg_coeff, pos_coeff) from the strong-coarse values, all off-diagonal values and the diagonal *)
Definition direct_coeffs (strongvals allvals : list F) (d : F) : F * F :=
  let ssn := sumF (negs strongvals) in
  let ssp := sumF (nonnegs strongvals) in
  let san := sumF (negs allvals) in
  let sap := sumF (nonnegs allvals) in
  let alpha := div san ssn in
  let db := if eqb ssp zero then (add d sap, zero) else (d, div sap ssp) in
  (div (opp alpha) (fst db), div (opp (snd db)) (fst db)).

Definition direct_weight (nc pc : F) (p : nat * F) : nat * F :=
  (fst p, if isneg (snd p) then mul nc (snd p) else mul pc (snd p)).

(* the row of an F point, with FINE column indices; sc = strong coarse neighbours with A's values (sa[]) *)
Definition direct_frow (states : list nat) (i : nat) (ar sr : row) : row :=
  let ar' := prep i ar in
  let sr' := prep i sr in
  let sc := map (fun p => (fst p, val_at (fst p) ar'))
                (filter (fun p => isC states (fst p)) (drop_diag i sr')) in
  let cf := direct_coeffs (map snd sc) (map snd (tl ar')) (head_val ar') in
  map (direct_weight (fst cf) (snd cf)) sc.

Definition renumber (states : list nat) (r : row) : row := map (fun p => (rankC states (fst p), snd p)) r.

Definition direct_row (states : list nat) (i : nat) (ar sr : row) : row :=
  if isC states i then [(rankC states i, one)] else renumber states (direct_frow states i ar sr).

Definition zip_rows (A S : list row) : list (nat * (row * row)) := indexed (combine A S).

Definition direct_interpolation (A S : list row) (states : list nat) : list row :=
  map (fun t => direct_row states (fst t) (fst (snd t)) (snd (snd t))) (zip_rows A S).

(* distributed direct interpolation, rank owning rows [lo, lo+n): on_proc / off_proc parts of the rows are
   sorted separately, move_diag on on_proc only; off_proc_states[] are the owners' states (exchange).
   Output with fine GLOBAL columns (P->on_proc_column_map / off_proc_column_map hold fine indices),
   on_proc entries first.  Local column renumbering is the layer verified for C14 and is not repeated here. *)
Definition par_direct_frow (states : list nat) (lo n g : nat) (ar sr : row) : row :=
  let aon := prep g (on_part F lo n ar) in
  let aoff := sort_line (off_part F lo n ar) in
  let son := prep g (on_part F lo n sr) in
  let soff := sort_line (off_part F lo n sr) in
  let sc_on := map (fun p => (fst p, val_at (fst p) aon)) (filter (fun p => isC states (fst p)) (drop_diag g son)) in
  let sc_off := map (fun p => (fst p, val_at (fst p) aoff)) (filter (fun p => isC states (fst p)) soff) in
  let cf := direct_coeffs (map snd sc_on ++ map snd sc_off) (map snd (tl aon) ++ map snd aoff) (head_val aon) in
  map (direct_weight (fst cf) (snd cf)) sc_on ++ map (direct_weight (fst cf) (snd cf)) sc_off.

Definition par_direct_row (states : list nat) (lo n g : nat) (ar sr : row) : row :=
  if isC states g then [(g, one)] else par_direct_frow states lo n g ar sr.

Fixpoint par_direct_blocks (states : list nat) (lo : nat) (part : list nat) (AS : list (row * row)) : list row :=
  match part with
  | [] => []
  | n :: part' =>
    map (fun t => par_direct_row states lo n (fst t) (fst (snd t)) (snd (snd t)))
        (indexed_from lo (firstn n AS))
    ++ par_direct_blocks states (lo + n) part' (skipn n AS)
  end.
(* gathered result, fine global columns *)
Definition par_direct_interpolation (A S : list row) (states : list nat) (part : list nat) : list row :=
  par_direct_blocks states 0 part (combine A S).

(* ---------------- modified classical interpolation ---------------- *)
(* walking A's off-diagonals against S's off-diagonals with the pointer ctr: (strong?, entry) *)
Fixpoint walk (ar_off sr_off : row) : list (bool * (nat * F)) :=
  match ar_off with
  | [] => []
  | a :: ar' =>
    match sr_off with
    | s :: sr' => if fst s =? fst a then (true, a) :: walk ar' sr' else (false, a) :: walk ar' sr_off
    | [] => (false, a) :: walk ar' []
    end
  end.

(* num_variables == 1 || variables[i] == variables[col] *)
Definition same_var' (nv : nat) (vars : list nat) (i c : nat) : bool := same_var nv (nth i vars 0) vars c.

Record mc_split := mkSplit {
  sp_SS : row;        (* strong Selected *)
  sp_SU : row;        (* strong Unselected *)
  sp_NS : row;        (* weak Selected *)
  sp_weak : F;        (* weak_sums[i]: diagonal + weak same-variable entries *)
  sp_neg : bool }.    (* signs[i] == -1 *)

Definition mc_split_row (states : list nat) (nv : nat) (vars : list nat) (i : nat) (ar sr : row) : mc_split :=
  let ar' := prep i ar in
  let sr' := prep i sr in
  let tagged := walk (tl ar') (tl sr') in
  let strong := map snd (filter fst tagged) in
  let weak := map snd (filter (fun t => negb (fst t)) tagged) in
  let d := head_val ar' in
  let ws := add d (sumF (map snd (filter (fun p => same_var' nv vars i (fst p)) weak))) in
  mkSplit (filter (fun p => isC states (fst p)) strong)
          (filter (fun p => isU states (fst p)) strong)
          (filter (fun p => isC states (fst p)) weak)
          ws (ltb d zero).    (* signs[i] is read right after the diagonal was added to weak_sums[i] *)

Definition empty_split : mc_split := mkSplit [] [] [] zero false.

(* val * sign < 0 *)
Definition opp_sign (neg : bool) (v : F) : bool := if neg then ltb zero v else ltb v zero.

(* entries of row k (its strong and weak Selected columns) that lie in C_i and have the sign opposite to a_ii *)
Definition mc_contrib (ci : list nat) (neg : bool) (sk : mc_split) : row :=
  filter (fun p => existsb (Nat.eqb (fst p)) ci && opp_sign neg (snd p)) (sp_SS sk ++ sp_NS sk).

Definition mc_frow (splits : list mc_split) (i : nat) : row :=
  let si := nth i splits empty_split in
  let ci := map fst (sp_SS si) in
  let neg := sp_neg si in
  (* per strong F neighbour k: (a_ik, coarse_sum, contributing entries) *)
  let fs := map (fun p => let ck := mc_contrib ci neg (nth (fst p) splits empty_split) in
                          (snd p, sumF (map snd ck), ck)) (sp_SU si) in
  let lumped := filter (fun t => small (snd (fst t))) fs in
  let distr := filter (fun t => negb (small (snd (fst t)))) fs in
  let weak_sum := add (sp_weak si) (sumF (map (fun t => fst (fst t)) lumped)) in
  map (fun p =>
         let extra := sumF (map (fun t => mul (div (fst (fst t)) (snd (fst t)))
                                              (sumF (map snd (filter (fun q => fst q =? fst p) (snd t))))) distr) in
         (fst p, div (add (snd p) extra) (opp weak_sum)))
      (sp_SS si).

Definition mc_splits (A S : list row) (states : list nat) (nv : nat) (vars : list nat) : list mc_split :=
  map (fun t => mc_split_row states nv vars (fst t) (fst (snd t)) (snd (snd t))) (zip_rows A S).

Definition mod_classical_interpolation (A S : list row) (states : list nat) (nv : nat) (vars : list nat)
  : list row :=
  let splits := mc_splits A S states nv vars in
  map (fun t => let i := fst t in
                if isC states i then [(rankC states i, one)] else renumber states (mc_frow splits i))
      (zip_rows A S).

(* ---------------- extended (+i) interpolation ---------------- *)
Definition add_new (c : nat) (l : list nat) : list nat := if existsb (Nat.eqb c) l then l else l ++ [c].

(* pattern of row i: strong C neighbours and the strong C neighbours of strong F neighbours, insertion order *)
Definition ext_pattern (Soff : list row) (states : list nat) (i : nat) : list nat :=
  fold_left (fun acc p =>
               if isC states (fst p) then add_new (fst p) acc
               else if isU states (fst p) then
                 fold_left (fun acc' q => if isC states (fst q) then add_new (fst q) acc' else acc')
                           (nth (fst p) Soff []) acc
               else acc)
            (nth i Soff []) [].

Definition ext_frow (Ap Sp Soff : list row) (states : list nat) (nv : nat) (vars : list nat) (i : nat) : row :=
  let chat := ext_pattern Soff states i in
  let inhat c := existsb (Nat.eqb c) chat in
  let si := nth i Soff [] in
  let ai := nth i Ap [] in
  (* weak part of row i *)
  let tagged := walk (tl ai) si in
  let weak := map snd (filter (fun t => negb (fst t)) tagged) in
  let w0 := add (head_val ai)
                (sumF (map snd (filter (fun p => (isU states (fst p) || negb (inhat (fst p)))
                                                && same_var' nv vars i (fst p)) weak))) in
  (* else-branch: a weak connection to a point of the pattern goes into that point's weight *)
  let weak_hat := filter (fun p => negb (isU states (fst p) || negb (inhat (fst p)))) weak in
  (* strong F neighbours j: (S value, coefficient, row j of A) *)
  let fs := map (fun p =>
                   let j := fst p in
                   let negj := ltb (head_val (nth j Sp [])) zero in
                   let aj := nth j Ap [] in
                   let cs := sumF (map snd (filter (fun q => (inhat (fst q) || (fst q =? i)) && opp_sign negj (snd q)) aj)) in
                   (snd p, (if small cs then cs else div (snd p) cs), (small cs, (negj, aj))))
                (filter (fun p => isU states (fst p)) si) in
  let lump := sumF (map (fun t => fst (fst t)) (filter (fun t => fst (snd t)) fs)) in
  (* "+i": coarse_sum * a_ji for the non-Selected column i of row j *)
  let back := sumF (map (fun t => let coef := snd (fst t) in let aj := snd (snd (snd t)) in
                                  mul coef (sumF (map snd (filter (fun q => negb (isC states (fst q)) && (fst q =? i)) (tl aj)))))
                        fs) in
  let weak_sum := add (add w0 lump) back in
  map (fun c =>
         let init := add (if isC states c && has_col c si then val_at c si else zero)
                         (sumF (map snd (filter (fun p => fst p =? c) weak_hat))) in
         let extra := sumF (map (fun t => let coef := snd (fst t) in let negj := fst (snd (snd t)) in
                                          let aj := snd (snd (snd t)) in
                                          mul coef (sumF (map snd (filter (fun q => isC states (fst q) && (fst q =? c)
                                                                                     && opp_sign negj (snd q)) (tl aj)))))
                                fs) in
         (c, div (add init extra) (opp weak_sum)))
      chat.

Definition extended_interpolation (A S : list row) (states : list nat) (nv : nat) (vars : list nat)
  : list row :=
  let Ap := map (fun ir => prep (fst ir) (snd ir)) (indexed A) in
  let Sp := map (fun ir => prep (fst ir) (snd ir)) (indexed S) in
  let Soff := map (fun r => tl r) Sp in               (* startS = S->idx1[i]+1 *)
  map (fun ir => let i := fst ir in
                 if isC states i then [(rankC states i, one)]
                 else renumber states (ext_frow Ap Sp Soff states nv vars i))
      (indexed A).

(* ---------------- the verified checker (run on gathered distributed output) ---------------- *)
Variable close1 : F -> bool.            (* |x - 1| <= tolerance *)

Definition strong_nb (S : list row) (i j : nat) : bool :=
  negb (j =? i) && has_col j (nth i S []).
Definition reach (dist : nat) (S : list row) (i j : nat) : bool :=
  strong_nb S i j ||
  ((2 <=? dist) && existsb (fun p => negb (fst p =? i) && strong_nb S (fst p) j) (nth i S [])).
(* a strong negative coarse neighbour *)
Definition has_neg_C (S : list row) (states : list nat) (i : nat) : bool :=
  existsb (fun p => negb (fst p =? i) && isC states (fst p) && isneg (snd p)) (nth i S []).

(* the row sum the routines account for: all entries (direct: nv = 1), or the entries of the row's own variable *)
Definition acc_row_sum (nv : nat) (vars : list nat) (i : nat) (r : row) : F :=
  sumF (map snd (filter (fun p => same_var' nv vars i (fst p)) r)).

Definition row_ok (dist : nat) (nv : nat) (vars : list nat) (A S : list row) (states : list nat) (i : nat) (pr : row) : bool :=
  if isC states i then
    match pr with [p] => (fst p =? rankC states i) && eqb (snd p) one | _ => false end
  else
    forallb (fun p => existsb (fun j => isC states j && (rankC states j =? fst p) && reach dist S i j)
                              (seq 0 (length states))) pr
    && (negb (eqb (acc_row_sum nv vars i (nth i A [])) zero && has_neg_C S states i) || close1 (sumF (map snd pr))).

Definition interp_ok (dist : nat) (nv : nat) (vars : list nat) (A S : list row) (states : list nat) (P : list row) : bool :=
  (length P =? length A) && forallb (fun ir => row_ok dist nv vars A S states (fst ir) (snd ir)) (indexed P).

End Interp.
