(* Family `energy` (property C10): executable model of one multigrid V-cycle as raptor runs it
   (raptor/multilevel/multilevel.hpp  Multilevel::cycle,  raptor/multilevel/par_multilevel.hpp
   ParMultilevel::cycle on one process,  raptor/util/linalg/relax.cpp  sor / ssor,
   raptor/util/linalg/par_relax.cpp  SOR_forward / SOR_backward,  util/linalg/spmv.cpp
   CSR_residual / CSR_append / CSR_append_T).
   Definitions only; the proofs are in EnergyProofs.v.

   Vectors are  list F ; a CSR matrix is the list of its rows, a row the list of its stored
   (column, value) pairs in storage order.  Loops `for i in 0 .. n_rows-1` are folds / maps
   over `seq 0 n`.  Arithmetic over an abstract field (executed at Qc). *)
From Raptor Require Import Base.Sums.

Section EnergyDefs.
Variable F : Type.
Variables (zero one : F) (add mul sub : F -> F -> F) (opp : F -> F) (div : F -> F -> F).
Variable eqb : F -> F -> bool.     (* only used by the Gauss-Jordan elimination of the executed instance *)

Notation "0" := zero.
Notation "1" := one.
Infix "+" := add.
Infix "*" := mul.
Infix "-" := sub.
Infix "/" := div.
Notation sumF := (sumf F zero add).

Notation vec := (list F).
Notation srow := (list (nat * F)).
Notation smat := (list (list (nat * F))).

Definition vget (x : vec) (i : nat) : F := nth i x 0.
Fixpoint vset (x : vec) (i : nat) (v : F) : vec :=
  match x, i with
  | [], _ => []
  | _ :: x', O => v :: x'
  | a :: x', S i' => a :: vset x' i' v
  end.
Definition vzeros (n : nat) : vec := repeat 0 n.

(* finite sums over 0 .. n-1 *)
Definition sumn (n : nat) (f : nat -> F) : F := sumF (map f (seq 0 n)).

(* the operator a stored row / matrix represents: sum of the stored values at a column *)
Definition den_row (r : srow) (j : nat) : F := sumF (map snd (filter (fun p => fst p =? j) r)).
Definition den (A : smat) (i j : nat) : F := den_row (nth i A []) j.

(* ---------------- relaxation ---------------- *)

(* relax.cpp, one row of sor()/ssor() (sequential classes):
     orig_x = x[i]; x[i] = b[i]; if (row_start == row_end) continue;
     diag_inv = omega / vals[row_start];
     for (j = row_start+1 .. row_end-1) x[i] -= vals[j] * x[idx2[j]];
     x[i] = diag_inv*x[i] + (1 - omega)*orig_x;
   the accumulator is x[i] itself and the first stored entry of the row is taken as the diagonal *)
Definition seq_sor_row (omega : F) (A : smat) (b x : vec) (i : nat) : vec :=
  let orig := vget x i in
  let x1 := vset x i (vget b i) in
  match nth i A [] with
  | [] => x1
  | d :: rest =>
    let x2 := fold_left (fun y p => vset y i (vget y i - snd p * vget y (fst p))) rest x1 in
    vset x2 i ((omega / snd d) * vget x2 i + (1 - omega) * orig)
  end.

(* par_relax.cpp, one row of SOR_forward / SOR_backward on a single process (off_proc is empty):
     if (on_proc->idx2[start] == i) { diag = vals[start]; start++; } else continue;
     row_sum = sum_{j = start .. end-1} vals[j] * x[idx2[j]];
     x[i] = (1 - omega)*x[i] + omega*((y[i] - row_sum) / diag);
   (an empty row makes the C++ read idx2 out of range; rows of the matrices in scope start with
   their diagonal, see sweep_wf in EnergyProofs.v) *)
Definition par_sor_row (omega : F) (A : smat) (b x : vec) (i : nat) : vec :=
  match nth i A [] with
  | [] => x
  | d :: rest =>
    if fst d =? i then
      let row_sum := fold_left (fun s p => s + snd p * vget x (fst p)) rest 0 in
      vset x i ((1 - omega) * vget x i + omega * ((vget b i - row_sum) / snd d))
    else x
  end.

Inductive variant := VSeq | VPar.          (* Multilevel (relax.cpp) / ParMultilevel (par_relax.cpp) *)
Inductive relax_kind := RSOR | RSSOR.       (* relax_t SOR / SSOR *)

Definition row_upd (v : variant) := match v with VSeq => seq_sor_row | VPar => par_sor_row end.

(* one pass over the rows listed in `rows`, each update seeing the entries already updated *)
Definition sweep (v : variant) (omega : F) (A : smat) (b : vec) (rows : list nat) (x : vec) : vec :=
  fold_left (row_upd v omega A b) rows x.
Definition fwd_rows (A : smat) : list nat := seq 0 (length A).
Definition bwd_rows (A : smat) : list nat := rev (seq 0 (length A)).

(* sor(): num_sweeps forward passes;  ssor(): num_sweeps times (forward pass; backward pass) *)
Definition relax (v : variant) (k : relax_kind) (omega : F) (sweeps : nat) (A : smat) (b x : vec) : vec :=
  Nat.iter sweeps
    (fun y => match k with
              | RSOR => sweep v omega A b (fwd_rows A) y
              | RSSOR => sweep v omega A b (bwd_rows A) (sweep v omega A b (fwd_rows A) y)
              end) x.

(* ---------------- residual, restriction, interpolation ---------------- *)

(* CSR_residual: r[i] = b[i]; r[i] -= vals[j]*x[idx2[j]] *)
Definition residual (A : smat) (x b : vec) : vec :=
  map (fun i => fold_left (fun acc p => acc - snd p * vget x (fst p)) (nth i A []) (vget b i))
      (seq 0 (length A)).

(* Matrix::mult_T: zero the n_cols outputs, then CSR_append_T: b[idx2[j]] += vals[j]*x[i] *)
Definition scatter_row (r : srow) (xi : F) (acc : vec) : vec :=
  fold_left (fun a p => vset a (fst p) (vget a (fst p) + snd p * xi)) r acc.
Definition mult_T (nc : nat) (P : smat) (r : vec) : vec :=
  fold_left (fun acc i => scatter_row (nth i P []) (vget r i) acc) (seq 0 (length P)) (vzeros nc).

(* CSR_append: val = 0; val += vals[j]*x[idx2[j]]; b[i] += val   (b has P->n_rows entries) *)
Definition mult_append (P : smat) (xc x : vec) : vec :=
  map (fun i => vget x i + fold_left (fun acc p => acc + snd p * vget xc (fst p)) (nth i P []) 0)
      (seq 0 (length P)).

(* ---------------- the cycle ---------------- *)

Record level := mkLevel { lvA : smat; lvP : smat; lvNc : nat }.   (* lvNc = P->n_cols = size of the next level *)

(* cycle(x, b, level): the coarsest level overwrites x by the LU solve of b; every other level:
   zero the next level's x, relax, residual, restrict, recurse, interpolate-and-add, relax *)
Section Cycle.
Variable coarse_solve : smat -> vec -> vec.
Variables (v : variant) (k : relax_kind) (omega : F) (sweeps : nat).

Fixpoint cycle (lv : list level) (Ac : smat) (x b : vec) : vec :=
  match lv with
  | [] => coarse_solve Ac b
  | L :: lv' =>
    let x1 := relax v k omega sweeps (lvA L) b x in
    let r := residual (lvA L) x1 b in
    let bc := mult_T (lvNc L) (lvP L) r in
    let xc := cycle lv' Ac (vzeros (lvNc L)) bc in
    let x2 := mult_append (lvP L) xc x1 in
    relax v k omega sweeps (lvA L) b x2
  end.

(* k calls of cycle(x, b, 0) *)
Definition iterate (lv : list level) (Ac : smat) (b : vec) (n : nat) (x0 : vec) : vec :=
  Nat.iter n (fun x => cycle lv Ac x b) x0.
End Cycle.

(* ---------------- an exact dense solve for the executed instance ---------------- *)
(* Gauss-Jordan elimination on the augmented dense rows, first non-zero pivot.  In exact arithmetic
   every pivoting strategy returns the solution of a nonsingular system, which is all the cycle
   theorems assume of the coarsest solve (LAPACK dgetrf/dgetrs in the code). *)
Definition dense_aug (n : nat) (A : smat) (b : vec) : list (list F) :=
  map (fun i => map (fun j => den A i j) (seq 0 n) ++ [vget b i]) (seq 0 n).

Fixpoint find_pivot (c : nat) (rows : list (list F)) : option (list F * list (list F)) :=
  match rows with
  | [] => None
  | r :: rs =>
    if eqb (nth c r 0) 0 then
      match find_pivot c rs with
      | Some (p, rest) => Some (p, r :: rest)
      | None => None
      end
    else Some (r, rs)
  end.

Fixpoint row_axpy (c : F) (p r : list F) : list F :=      (* r - c*p *)
  match p, r with
  | a :: p', e :: r' => (e - c * a) :: row_axpy c p' r'
  | _, _ => []
  end.

Fixpoint gauss_jordan (fuel c : nat) (done todo : list (list F)) : option (list (list F)) :=
  match fuel with
  | O => Some done
  | S f =>
    match find_pivot c todo with
    | None => None
    | Some (p, rest) =>
      let piv := nth c p 0 in
      let p' := map (fun a => a / piv) p in
      let elim := fun r => row_axpy (nth c r 0) p' r in
      gauss_jordan f (S c) (map elim done ++ [p']) (map elim rest)
    end
  end.

Definition gauss_solve (A : smat) (b : vec) : option vec :=
  let n := length A in
  match gauss_jordan n 0 [] (dense_aug n A b) with
  | Some rows => Some (map (fun r => nth n r 0) rows)
  | None => None
  end.

(* matrix-vector product through the row loop (CSR_spmv), used to check solves and Galerkin products *)
Definition smv (A : smat) (x : vec) : vec :=
  map (fun i => fold_left (fun acc p => acc + snd p * vget x (fst p)) (nth i A []) 0) (seq 0 (length A)).

(* what the relaxation routines need of a matrix (executable check): every row starts with its
   diagonal entry, no other stored entry of the row sits on the diagonal, columns in range *)
Definition row_okb (n i : nat) (r : srow) : bool :=
  match r with
  | [] => false
  | d :: rest => (fst d =? i) && forallb (fun p => negb (fst p =? i) && (fst p <? n)) rest
  end.
Definition sweep_wfb (A : smat) : bool :=
  forallb (fun i => row_okb (length A) i (nth i A [])) (seq 0 (length A)).

End EnergyDefs.

Arguments mkLevel {F}. Arguments lvA {F}. Arguments lvP {F}. Arguments lvNc {F}.
