
type nat =
| O
| S of nat

(** val fst : ('a1 * 'a2) -> 'a1 **)

let fst = function
| (x, _) -> x

(** val snd : ('a1 * 'a2) -> 'a2 **)

let snd = function
| (_, y) -> y

(** val length : 'a1 list -> nat **)

let rec length = function
| [] -> O
| _ :: l' -> S (length l')

(** val app : 'a1 list -> 'a1 list -> 'a1 list **)

let rec app l m =
  match l with
  | [] -> m
  | a :: l1 -> a :: (app l1 m)

type comparison =
| Eq
| Lt
| Gt

(** val compOpp : comparison -> comparison **)

let compOpp = function
| Eq -> Eq
| Lt -> Gt
| Gt -> Lt

module Coq__1 = struct
 (** val add : nat -> nat -> nat **)
 let rec add n m =
   match n with
   | O -> m
   | S p -> S (add p m)
end
include Coq__1

type positive =
| XI of positive
| XO of positive
| XH

type z =
| Z0
| Zpos of positive
| Zneg of positive

module Nat =
 struct
  (** val eqb : nat -> nat -> bool **)

  let rec eqb n m =
    match n with
    | O -> (match m with
            | O -> true
            | S _ -> false)
    | S n' -> (match m with
               | O -> false
               | S m' -> eqb n' m')

  (** val leb : nat -> nat -> bool **)

  let rec leb n m =
    match n with
    | O -> true
    | S n' -> (match m with
               | O -> false
               | S m' -> leb n' m')

  (** val ltb : nat -> nat -> bool **)

  let ltb n m =
    leb (S n) m
 end

module Pos =
 struct
  type mask =
  | IsNul
  | IsPos of positive
  | IsNeg
 end

module Coq_Pos =
 struct
  (** val succ : positive -> positive **)

  let rec succ = function
  | XI p -> XO (succ p)
  | XO p -> XI p
  | XH -> XO XH

  (** val add : positive -> positive -> positive **)

  let rec add x y =
    match x with
    | XI p ->
      (match y with
       | XI q0 -> XO (add_carry p q0)
       | XO q0 -> XI (add p q0)
       | XH -> XO (succ p))
    | XO p ->
      (match y with
       | XI q0 -> XI (add p q0)
       | XO q0 -> XO (add p q0)
       | XH -> XI p)
    | XH -> (match y with
             | XI q0 -> XO (succ q0)
             | XO q0 -> XI q0
             | XH -> XO XH)

  (** val add_carry : positive -> positive -> positive **)

  and add_carry x y =
    match x with
    | XI p ->
      (match y with
       | XI q0 -> XI (add_carry p q0)
       | XO q0 -> XO (add_carry p q0)
       | XH -> XI (succ p))
    | XO p ->
      (match y with
       | XI q0 -> XO (add_carry p q0)
       | XO q0 -> XI (add p q0)
       | XH -> XO (succ p))
    | XH ->
      (match y with
       | XI q0 -> XI (succ q0)
       | XO q0 -> XO (succ q0)
       | XH -> XI XH)

  (** val pred_double : positive -> positive **)

  let rec pred_double = function
  | XI p -> XI (XO p)
  | XO p -> XI (pred_double p)
  | XH -> XH

  type mask = Pos.mask =
  | IsNul
  | IsPos of positive
  | IsNeg

  (** val succ_double_mask : mask -> mask **)

  let succ_double_mask = function
  | IsNul -> IsPos XH
  | IsPos p -> IsPos (XI p)
  | IsNeg -> IsNeg

  (** val double_mask : mask -> mask **)

  let double_mask = function
  | IsPos p -> IsPos (XO p)
  | x0 -> x0

  (** val double_pred_mask : positive -> mask **)

  let double_pred_mask = function
  | XI p -> IsPos (XO (XO p))
  | XO p -> IsPos (XO (pred_double p))
  | XH -> IsNul

  (** val sub_mask : positive -> positive -> mask **)

  let rec sub_mask x y =
    match x with
    | XI p ->
      (match y with
       | XI q0 -> double_mask (sub_mask p q0)
       | XO q0 -> succ_double_mask (sub_mask p q0)
       | XH -> IsPos (XO p))
    | XO p ->
      (match y with
       | XI q0 -> succ_double_mask (sub_mask_carry p q0)
       | XO q0 -> double_mask (sub_mask p q0)
       | XH -> IsPos (pred_double p))
    | XH -> (match y with
             | XH -> IsNul
             | _ -> IsNeg)

  (** val sub_mask_carry : positive -> positive -> mask **)

  and sub_mask_carry x y =
    match x with
    | XI p ->
      (match y with
       | XI q0 -> succ_double_mask (sub_mask_carry p q0)
       | XO q0 -> double_mask (sub_mask p q0)
       | XH -> IsPos (pred_double p))
    | XO p ->
      (match y with
       | XI q0 -> double_mask (sub_mask_carry p q0)
       | XO q0 -> succ_double_mask (sub_mask_carry p q0)
       | XH -> double_pred_mask p)
    | XH -> IsNeg

  (** val sub : positive -> positive -> positive **)

  let sub x y =
    match sub_mask x y with
    | IsPos z0 -> z0
    | _ -> XH

  (** val mul : positive -> positive -> positive **)

  let rec mul x y =
    match x with
    | XI p -> add y (XO (mul p y))
    | XO p -> XO (mul p y)
    | XH -> y

  (** val size_nat : positive -> nat **)

  let rec size_nat = function
  | XI p0 -> S (size_nat p0)
  | XO p0 -> S (size_nat p0)
  | XH -> S O

  (** val compare_cont : comparison -> positive -> positive -> comparison **)

  let rec compare_cont r x y =
    match x with
    | XI p ->
      (match y with
       | XI q0 -> compare_cont r p q0
       | XO q0 -> compare_cont Gt p q0
       | XH -> Gt)
    | XO p ->
      (match y with
       | XI q0 -> compare_cont Lt p q0
       | XO q0 -> compare_cont r p q0
       | XH -> Gt)
    | XH -> (match y with
             | XH -> r
             | _ -> Lt)

  (** val compare : positive -> positive -> comparison **)

  let compare =
    compare_cont Eq

  (** val ggcdn :
      nat -> positive -> positive -> positive * (positive * positive) **)

  let rec ggcdn n a b =
    match n with
    | O -> (XH, (a, b))
    | S n0 ->
      (match a with
       | XI a' ->
         (match b with
          | XI b' ->
            (match compare a' b' with
             | Eq -> (a, (XH, XH))
             | Lt ->
               let (g, p) = ggcdn n0 (sub b' a') a in
               let (ba, aa) = p in (g, (aa, (add aa (XO ba))))
             | Gt ->
               let (g, p) = ggcdn n0 (sub a' b') b in
               let (ab, bb) = p in (g, ((add bb (XO ab)), bb)))
          | XO b0 ->
            let (g, p) = ggcdn n0 a b0 in
            let (aa, bb) = p in (g, (aa, (XO bb)))
          | XH -> (XH, (a, XH)))
       | XO a0 ->
         (match b with
          | XI _ ->
            let (g, p) = ggcdn n0 a0 b in
            let (aa, bb) = p in (g, ((XO aa), bb))
          | XO b0 -> let (g, p) = ggcdn n0 a0 b0 in ((XO g), p)
          | XH -> (XH, (a, XH)))
       | XH -> (XH, (XH, b)))

  (** val ggcd : positive -> positive -> positive * (positive * positive) **)

  let ggcd a b =
    ggcdn (Coq__1.add (size_nat a) (size_nat b)) a b
 end

module Z =
 struct
  (** val double : z -> z **)

  let double = function
  | Z0 -> Z0
  | Zpos p -> Zpos (XO p)
  | Zneg p -> Zneg (XO p)

  (** val succ_double : z -> z **)

  let succ_double = function
  | Z0 -> Zpos XH
  | Zpos p -> Zpos (XI p)
  | Zneg p -> Zneg (Coq_Pos.pred_double p)

  (** val pred_double : z -> z **)

  let pred_double = function
  | Z0 -> Zneg XH
  | Zpos p -> Zpos (Coq_Pos.pred_double p)
  | Zneg p -> Zneg (XI p)

  (** val pos_sub : positive -> positive -> z **)

  let rec pos_sub x y =
    match x with
    | XI p ->
      (match y with
       | XI q0 -> double (pos_sub p q0)
       | XO q0 -> succ_double (pos_sub p q0)
       | XH -> Zpos (XO p))
    | XO p ->
      (match y with
       | XI q0 -> pred_double (pos_sub p q0)
       | XO q0 -> double (pos_sub p q0)
       | XH -> Zpos (Coq_Pos.pred_double p))
    | XH ->
      (match y with
       | XI q0 -> Zneg (XO q0)
       | XO q0 -> Zneg (Coq_Pos.pred_double q0)
       | XH -> Z0)

  (** val add : z -> z -> z **)

  let add x y =
    match x with
    | Z0 -> y
    | Zpos x' ->
      (match y with
       | Z0 -> x
       | Zpos y' -> Zpos (Coq_Pos.add x' y')
       | Zneg y' -> pos_sub x' y')
    | Zneg x' ->
      (match y with
       | Z0 -> x
       | Zpos y' -> pos_sub y' x'
       | Zneg y' -> Zneg (Coq_Pos.add x' y'))

  (** val opp : z -> z **)

  let opp = function
  | Z0 -> Z0
  | Zpos x0 -> Zneg x0
  | Zneg x0 -> Zpos x0

  (** val mul : z -> z -> z **)

  let mul x y =
    match x with
    | Z0 -> Z0
    | Zpos x' ->
      (match y with
       | Z0 -> Z0
       | Zpos y' -> Zpos (Coq_Pos.mul x' y')
       | Zneg y' -> Zneg (Coq_Pos.mul x' y'))
    | Zneg x' ->
      (match y with
       | Z0 -> Z0
       | Zpos y' -> Zneg (Coq_Pos.mul x' y')
       | Zneg y' -> Zpos (Coq_Pos.mul x' y'))

  (** val compare : z -> z -> comparison **)

  let compare x y =
    match x with
    | Z0 -> (match y with
             | Z0 -> Eq
             | Zpos _ -> Lt
             | Zneg _ -> Gt)
    | Zpos x' -> (match y with
                  | Zpos y' -> Coq_Pos.compare x' y'
                  | _ -> Gt)
    | Zneg x' ->
      (match y with
       | Zneg y' -> compOpp (Coq_Pos.compare x' y')
       | _ -> Lt)

  (** val sgn : z -> z **)

  let sgn = function
  | Z0 -> Z0
  | Zpos _ -> Zpos XH
  | Zneg _ -> Zneg XH

  (** val abs : z -> z **)

  let abs = function
  | Zneg p -> Zpos p
  | x -> x

  (** val to_pos : z -> positive **)

  let to_pos = function
  | Zpos p -> p
  | _ -> XH

  (** val ggcd : z -> z -> z * (z * z) **)

  let ggcd a b =
    match a with
    | Z0 -> ((abs b), (Z0, (sgn b)))
    | Zpos a0 ->
      (match b with
       | Z0 -> ((abs a), ((sgn a), Z0))
       | Zpos b0 ->
         let (g, p) = Coq_Pos.ggcd a0 b0 in
         let (aa, bb) = p in ((Zpos g), ((Zpos aa), (Zpos bb)))
       | Zneg b0 ->
         let (g, p) = Coq_Pos.ggcd a0 b0 in
         let (aa, bb) = p in ((Zpos g), ((Zpos aa), (Zneg bb))))
    | Zneg a0 ->
      (match b with
       | Z0 -> ((abs a), ((sgn a), Z0))
       | Zpos b0 ->
         let (g, p) = Coq_Pos.ggcd a0 b0 in
         let (aa, bb) = p in ((Zpos g), ((Zneg aa), (Zpos bb)))
       | Zneg b0 ->
         let (g, p) = Coq_Pos.ggcd a0 b0 in
         let (aa, bb) = p in ((Zpos g), ((Zneg aa), (Zneg bb))))
 end

(** val nth : nat -> 'a1 list -> 'a1 -> 'a1 **)

let rec nth n l default =
  match n with
  | O -> (match l with
          | [] -> default
          | x :: _ -> x)
  | S m -> (match l with
            | [] -> default
            | _ :: t -> nth m t default)

(** val map : ('a1 -> 'a2) -> 'a1 list -> 'a2 list **)

let rec map f = function
| [] -> []
| a :: t -> (f a) :: (map f t)

(** val flat_map : ('a1 -> 'a2 list) -> 'a1 list -> 'a2 list **)

let rec flat_map f = function
| [] -> []
| x :: t -> app (f x) (flat_map f t)

(** val fold_left : ('a1 -> 'a2 -> 'a1) -> 'a2 list -> 'a1 -> 'a1 **)

let rec fold_left f l a0 =
  match l with
  | [] -> a0
  | b :: t -> fold_left f t (f a0 b)

(** val fold_right : ('a2 -> 'a1 -> 'a1) -> 'a1 -> 'a2 list -> 'a1 **)

let rec fold_right f a0 = function
| [] -> a0
| b :: t -> f b (fold_right f a0 t)

(** val forallb : ('a1 -> bool) -> 'a1 list -> bool **)

let rec forallb f = function
| [] -> true
| a :: l0 -> (&&) (f a) (forallb f l0)

(** val filter : ('a1 -> bool) -> 'a1 list -> 'a1 list **)

let rec filter f = function
| [] -> []
| x :: l0 -> if f x then x :: (filter f l0) else filter f l0

(** val firstn : nat -> 'a1 list -> 'a1 list **)

let rec firstn n l =
  match n with
  | O -> []
  | S n0 -> (match l with
             | [] -> []
             | a :: l0 -> a :: (firstn n0 l0))

(** val skipn : nat -> 'a1 list -> 'a1 list **)

let rec skipn n l =
  match n with
  | O -> l
  | S n0 -> (match l with
             | [] -> []
             | _ :: l0 -> skipn n0 l0)

(** val seq : nat -> nat -> nat list **)

let rec seq start = function
| O -> []
| S len0 -> start :: (seq (S start) len0)

(** val repeat : 'a1 -> nat -> 'a1 list **)

let rec repeat x = function
| O -> []
| S k -> x :: (repeat x k)

type q = { qnum : z; qden : positive }

(** val qcompare : q -> q -> comparison **)

let qcompare p q0 =
  Z.compare (Z.mul p.qnum (Zpos q0.qden)) (Z.mul q0.qnum (Zpos p.qden))

(** val qplus : q -> q -> q **)

let qplus x y =
  { qnum = (Z.add (Z.mul x.qnum (Zpos y.qden)) (Z.mul y.qnum (Zpos x.qden)));
    qden = (Coq_Pos.mul x.qden y.qden) }

(** val qmult : q -> q -> q **)

let qmult x y =
  { qnum = (Z.mul x.qnum y.qnum); qden = (Coq_Pos.mul x.qden y.qden) }

(** val qopp : q -> q **)

let qopp x =
  { qnum = (Z.opp x.qnum); qden = x.qden }

(** val qinv : q -> q **)

let qinv x =
  match x.qnum with
  | Z0 -> { qnum = Z0; qden = XH }
  | Zpos p -> { qnum = (Zpos x.qden); qden = p }
  | Zneg p -> { qnum = (Zneg x.qden); qden = p }

(** val qred : q -> q **)

let qred q0 =
  let { qnum = q1; qden = q2 } = q0 in
  let (r1, r2) = snd (Z.ggcd q1 (Zpos q2)) in
  { qnum = r1; qden = (Z.to_pos r2) }

type qc = q
  (* singleton inductive, whose constructor was Qcmake *)

(** val this : qc -> q **)

let this q0 =
  q0

(** val q2Qc : q -> qc **)

let q2Qc =
  qred

(** val qccompare : qc -> qc -> comparison **)

let qccompare p q0 =
  qcompare (this p) (this q0)

(** val qcplus : qc -> qc -> qc **)

let qcplus x y =
  q2Qc (qplus (this x) (this y))

(** val qcmult : qc -> qc -> qc **)

let qcmult x y =
  q2Qc (qmult (this x) (this y))

(** val qcopp : qc -> qc **)

let qcopp x =
  q2Qc (qopp (this x))

(** val qcminus : qc -> qc -> qc **)

let qcminus x y =
  qcplus x (qcopp y)

(** val qcinv : qc -> qc **)

let qcinv x =
  q2Qc (qinv (this x))

(** val qcdiv : qc -> qc -> qc **)

let qcdiv x y =
  qcmult x (qcinv y)

(** val qabs : q -> q **)

let qabs x =
  let { qnum = n; qden = d } = x in { qnum = (Z.abs n); qden = d }

(** val qcabs : qc -> qc **)

let qcabs x =
  qabs (this x)

(** val sumf : 'a1 -> ('a1 -> 'a1 -> 'a1) -> 'a1 list -> 'a1 **)

let sumf zero add0 l =
  fold_right add0 zero l

(** val indexed_from : nat -> 'a1 list -> (nat * 'a1) list **)

let rec indexed_from s = function
| [] -> []
| a :: l' -> (s, a) :: (indexed_from (S s) l')

(** val indexed : 'a1 list -> (nat * 'a1) list **)

let indexed l =
  indexed_from O l

type 't ent = (nat * nat) * 't

(** val erow : 'a1 ent -> nat **)

let erow e =
  fst (fst e)

(** val ecol : 'a1 ent -> nat **)

let ecol e =
  snd (fst e)

(** val eval : 'a1 ent -> 'a1 **)

let eval =
  snd

type 't coo = { coo_nr : nat; coo_nc : nat; coo_ents : 't ent list }

type 't csr = { csr_nr : nat; csr_nc : nat; csr_rows : (nat * 't) list list }

type 't csc = { csc_nr : nat; csc_nc : nat; csc_cols : (nat * 't) list list }

(** val coo_wfb : 'a1 coo -> bool **)

let coo_wfb a =
  forallb (fun e ->
    (&&) (Nat.ltb (erow e) a.coo_nr) (Nat.ltb (ecol e) a.coo_nc)) a.coo_ents

(** val csr_wfb : 'a1 csr -> bool **)

let csr_wfb a =
  (&&) (Nat.eqb (length a.csr_rows) a.csr_nr)
    (forallb (fun r -> forallb (fun p -> Nat.ltb (fst p) a.csr_nc) r)
      a.csr_rows)

(** val csc_wfb : 'a1 csc -> bool **)

let csc_wfb a =
  (&&) (Nat.eqb (length a.csc_cols) a.csc_nc)
    (forallb (fun r -> forallb (fun p -> Nat.ltb (fst p) a.csc_nr) r)
      a.csc_cols)

(** val bucket :
    ('a1 ent -> nat) -> ('a1 ent -> nat * 'a1) -> nat -> 'a1 ent list ->
    (nat * 'a1) list list **)

let bucket key pay n es =
  map (fun i -> map pay (filter (fun e -> Nat.eqb (key e) i) es)) (seq O n)

(** val coo_to_coo : 'a1 coo -> 'a1 coo **)

let coo_to_coo a =
  { coo_nr = a.coo_nr; coo_nc = a.coo_nc; coo_ents = a.coo_ents }

(** val csr_to_coo : 'a1 csr -> 'a1 coo **)

let csr_to_coo a =
  { coo_nr = a.csr_nr; coo_nc = a.csr_nc; coo_ents =
    (flat_map (fun ir ->
      map (fun p -> (((fst ir), (fst p)), (snd p))) (snd ir))
      (indexed a.csr_rows)) }

(** val csc_to_coo : 'a1 csc -> 'a1 coo **)

let csc_to_coo a =
  { coo_nr = a.csc_nr; coo_nc = a.csc_nc; coo_ents =
    (flat_map (fun jc ->
      map (fun p -> (((fst p), (fst jc)), (snd p))) (snd jc))
      (indexed a.csc_cols)) }

(** val coo_to_csr : 'a1 coo -> 'a1 csr **)

let coo_to_csr a =
  { csr_nr = a.coo_nr; csr_nc = a.coo_nc; csr_rows =
    (bucket erow (fun e -> ((ecol e), (eval e))) a.coo_nr a.coo_ents) }

(** val coo_to_csc : 'a1 coo -> 'a1 csc **)

let coo_to_csc a =
  { csc_nr = a.coo_nr; csc_nc = a.coo_nc; csc_cols =
    (bucket ecol (fun e -> ((erow e), (eval e))) a.coo_nc a.coo_ents) }

(** val csr_to_csr : 'a1 csr -> 'a1 csr **)

let csr_to_csr a =
  { csr_nr = a.csr_nr; csr_nc = a.csr_nc; csr_rows = a.csr_rows }

(** val csc_to_csc : 'a1 csc -> 'a1 csc **)

let csc_to_csc a =
  { csc_nr = a.csc_nr; csc_nc = a.csc_nc; csc_cols = a.csc_cols }

(** val csr_to_csc : 'a1 csr -> 'a1 csc **)

let csr_to_csc a =
  coo_to_csc (csr_to_coo a)

(** val csc_to_csr : 'a1 csc -> 'a1 csr **)

let csc_to_csr a =
  coo_to_csr (csc_to_coo a)

(** val coo_transpose : 'a1 coo -> 'a1 coo **)

let coo_transpose a =
  { coo_nr = a.coo_nc; coo_nc = a.coo_nr; coo_ents =
    (map (fun e -> (((ecol e), (erow e)), (eval e))) a.coo_ents) }

(** val csr_transpose : 'a1 csr -> 'a1 csr **)

let csr_transpose a =
  csc_to_csr { csc_nr = a.csr_nc; csc_nc = a.csr_nr; csc_cols = a.csr_rows }

(** val csc_transpose : 'a1 csc -> 'a1 csc **)

let csc_transpose a =
  csr_to_csc { csr_nr = a.csc_nc; csr_nc = a.csc_nr; csr_rows = a.csc_cols }

(** val insert_by : ('a1 -> 'a1 -> bool) -> 'a1 -> 'a1 list -> 'a1 list **)

let rec insert_by le x l = match l with
| [] -> x :: []
| y :: l' -> if le x y then x :: l else y :: (insert_by le x l')

(** val isort_by : ('a1 -> 'a1 -> bool) -> 'a1 list -> 'a1 list **)

let rec isort_by le = function
| [] -> []
| x :: l' -> insert_by le x (isort_by le l')

(** val le_fst : (nat * 'a1) -> (nat * 'a1) -> bool **)

let le_fst p q0 =
  Nat.leb (fst p) (fst q0)

(** val sort_line : (nat * 'a1) list -> (nat * 'a1) list **)

let sort_line r =
  isort_by le_fst r

(** val csr_sort : 'a1 csr -> 'a1 csr **)

let csr_sort a =
  { csr_nr = a.csr_nr; csr_nc = a.csr_nc; csr_rows =
    (map sort_line a.csr_rows) }

(** val csc_sort : 'a1 csc -> 'a1 csc **)

let csc_sort a =
  { csc_nr = a.csc_nr; csc_nc = a.csc_nc; csc_cols =
    (map sort_line a.csc_cols) }

(** val le_ent : 'a1 ent -> 'a1 ent -> bool **)

let le_ent e f =
  (||) (Nat.ltb (erow e) (erow f))
    ((&&) (Nat.eqb (erow e) (erow f)) (Nat.leb (ecol e) (ecol f)))

(** val coo_sort : 'a1 coo -> 'a1 coo **)

let coo_sort a =
  { coo_nr = a.coo_nr; coo_nc = a.coo_nc; coo_ents =
    (isort_by le_ent a.coo_ents) }

(** val extract_first :
    ('a1 -> bool) -> 'a1 list -> ('a1 * 'a1 list) option **)

let rec extract_first p = function
| [] -> None
| x :: l' ->
  if p x
  then Some (x, l')
  else (match extract_first p l' with
        | Some p0 -> let (y, r) = p0 in Some (y, (x :: r))
        | None -> None)

(** val move_diag_line : nat -> (nat * 'a1) list -> (nat * 'a1) list **)

let move_diag_line i r =
  match extract_first (fun p -> Nat.eqb (fst p) i) r with
  | Some p -> let (d, rest) = p in d :: rest
  | None -> r

(** val csr_move_diag : 'a1 csr -> 'a1 csr **)

let csr_move_diag a =
  { csr_nr = a.csr_nr; csr_nc = a.csr_nc; csr_rows =
    (map (fun ir -> move_diag_line (fst ir) (snd ir)) (indexed a.csr_rows)) }

(** val csc_move_diag : 'a1 csc -> 'a1 csc **)

let csc_move_diag a =
  { csc_nr = a.csc_nr; csc_nc = a.csc_nc; csc_cols =
    (map (fun ir -> move_diag_line (fst ir) (snd ir)) (indexed a.csc_cols)) }

(** val den_line :
    'a1 -> ('a1 -> 'a1 -> 'a1) -> (nat * 'a1) list -> nat -> 'a1 **)

let den_line zero add0 r j =
  sumf zero add0 (map snd (filter (fun p -> Nat.eqb (fst p) j) r))

(** val den_coo :
    'a1 -> ('a1 -> 'a1 -> 'a1) -> 'a1 coo -> nat -> nat -> 'a1 **)

let den_coo zero add0 a i j =
  sumf zero add0
    (map eval
      (filter (fun e -> (&&) (Nat.eqb (erow e) i) (Nat.eqb (ecol e) j))
        a.coo_ents))

(** val den_csr :
    'a1 -> ('a1 -> 'a1 -> 'a1) -> 'a1 csr -> nat -> nat -> 'a1 **)

let den_csr zero add0 a i j =
  den_line zero add0 (nth i a.csr_rows []) j

(** val den_csc :
    'a1 -> ('a1 -> 'a1 -> 'a1) -> 'a1 csc -> nat -> nat -> 'a1 **)

let den_csc zero add0 a i j =
  den_line zero add0 (nth j a.csc_cols []) i

(** val emit : ('a1 -> bool) -> nat -> 'a1 -> (nat * 'a1) list **)

let emit small c acc =
  if small acc then [] else (c, acc) :: []

(** val dedup_acc :
    ('a1 -> 'a1 -> 'a1) -> ('a1 -> bool) -> nat -> 'a1 -> (nat * 'a1) list ->
    (nat * 'a1) list **)

let rec dedup_acc add0 small c acc = function
| [] -> emit small c acc
| p :: l' ->
  if Nat.eqb (fst p) c
  then dedup_acc add0 small c (add0 acc (snd p)) l'
  else app (emit small c acc) (dedup_acc add0 small (fst p) (snd p) l')

(** val dedup_line :
    ('a1 -> 'a1 -> 'a1) -> ('a1 -> bool) -> (nat * 'a1) list -> (nat * 'a1)
    list **)

let dedup_line add0 small = function
| [] -> []
| p :: l' -> dedup_acc add0 small (fst p) (snd p) l'

(** val csr_remove_duplicates :
    ('a1 -> 'a1 -> 'a1) -> ('a1 -> bool) -> 'a1 csr -> 'a1 csr **)

let csr_remove_duplicates add0 small a =
  { csr_nr = a.csr_nr; csr_nc = a.csr_nc; csr_rows =
    (map (fun r -> dedup_line add0 small (sort_line r)) a.csr_rows) }

(** val csc_remove_duplicates :
    ('a1 -> 'a1 -> 'a1) -> ('a1 -> bool) -> 'a1 csc -> 'a1 csc **)

let csc_remove_duplicates add0 small a =
  { csc_nr = a.csc_nr; csc_nc = a.csc_nc; csc_cols =
    (map (fun r -> dedup_line add0 small (sort_line r)) a.csc_cols) }

(** val coo_dedup_acc :
    ('a1 -> 'a1 -> 'a1) -> nat -> nat -> 'a1 -> 'a1 ent list -> 'a1 ent list **)

let rec coo_dedup_acc add0 r c acc = function
| [] -> ((r, c), acc) :: []
| e :: l' ->
  if (&&) (Nat.eqb (erow e) r) (Nat.eqb (ecol e) c)
  then coo_dedup_acc add0 r c (add0 acc (eval e)) l'
  else ((r, c), acc) :: (coo_dedup_acc add0 (erow e) (ecol e) (eval e) l')

(** val coo_remove_duplicates : ('a1 -> 'a1 -> 'a1) -> 'a1 coo -> 'a1 coo **)

let coo_remove_duplicates add0 a =
  { coo_nr = a.coo_nr; coo_nc = a.coo_nc; coo_ents =
    (match (coo_sort a).coo_ents with
     | [] -> []
     | e :: l -> coo_dedup_acc add0 (erow e) (ecol e) (eval e) l) }

(** val zip_rows :
    (nat * 'a1) list list -> (nat * 'a1) list list -> (nat * 'a1) list list **)

let rec zip_rows ra rb =
  match ra with
  | [] -> []
  | a :: ra' ->
    (match rb with
     | [] -> a :: (zip_rows ra' [])
     | b :: rb' -> (app a b) :: (zip_rows ra' rb'))

(** val csr_add :
    ('a1 -> 'a1 -> 'a1) -> ('a1 -> bool) -> 'a1 csr -> 'a1 csr -> bool -> 'a1
    csr **)

let csr_add add0 small a b remove_dup =
  let c = { csr_nr = a.csr_nr; csr_nc = a.csr_nc; csr_rows =
    (zip_rows a.csr_rows b.csr_rows) }
  in
  if remove_dup then csr_remove_duplicates add0 small c else csr_sort c

(** val neg_line : ('a1 -> 'a1) -> (nat * 'a1) list -> (nat * 'a1) list **)

let neg_line opp0 r =
  map (fun p -> ((fst p), (opp0 (snd p)))) r

(** val csr_subtract :
    ('a1 -> 'a1 -> 'a1) -> ('a1 -> 'a1) -> ('a1 -> bool) -> 'a1 csr -> 'a1
    csr -> 'a1 csr **)

let csr_subtract add0 opp0 small a b =
  csr_remove_duplicates add0 small { csr_nr = a.csr_nr; csr_nc = a.csr_nc;
    csr_rows = (zip_rows a.csr_rows (map (neg_line opp0) b.csr_rows)) }

(** val upd : 'a1 list -> nat -> 'a1 -> 'a1 list **)

let rec upd l i v =
  match l with
  | [] -> []
  | x :: l' -> (match i with
                | O -> v :: l'
                | S i' -> x :: (upd l' i' v))

(** val xat : 'a1 -> 'a1 list -> nat -> 'a1 **)

let xat zero x i =
  nth i x zero

(** val k_append :
    'a1 -> ('a1 -> 'a1 -> 'a1) -> ('a1 -> 'a1 -> 'a1) -> 'a1 list -> 'a1 list
    -> 'a1 ent -> 'a1 list **)

let k_append zero add0 mul0 b x e =
  upd b (erow e)
    (add0 (xat zero b (erow e)) (mul0 (eval e) (xat zero x (ecol e))))

(** val k_append_T :
    'a1 -> ('a1 -> 'a1 -> 'a1) -> ('a1 -> 'a1 -> 'a1) -> 'a1 list -> 'a1 list
    -> 'a1 ent -> 'a1 list **)

let k_append_T zero add0 mul0 b x e =
  upd b (ecol e)
    (add0 (xat zero b (ecol e)) (mul0 (eval e) (xat zero x (erow e))))

(** val k_append_neg :
    'a1 -> ('a1 -> 'a1 -> 'a1) -> ('a1 -> 'a1 -> 'a1) -> 'a1 list -> 'a1 list
    -> 'a1 ent -> 'a1 list **)

let k_append_neg zero mul0 sub0 b x e =
  upd b (erow e)
    (sub0 (xat zero b (erow e)) (mul0 (eval e) (xat zero x (ecol e))))

(** val k_append_neg_T :
    'a1 -> ('a1 -> 'a1 -> 'a1) -> ('a1 -> 'a1 -> 'a1) -> 'a1 list -> 'a1 list
    -> 'a1 ent -> 'a1 list **)

let k_append_neg_T zero mul0 sub0 b x e =
  upd b (ecol e)
    (sub0 (xat zero b (ecol e)) (mul0 (eval e) (xat zero x (erow e))))

(** val run_kernel :
    ('a1 list -> 'a1 list -> 'a1 ent -> 'a1 list) -> 'a1 ent list -> 'a1 list
    -> 'a1 list -> 'a1 list **)

let run_kernel k es x b =
  fold_left (fun b0 e -> k b0 x e) es b

(** val zeros : 'a1 -> nat -> 'a1 list **)

let zeros =
  repeat

(** val coo_spmv :
    'a1 -> ('a1 -> 'a1 -> 'a1) -> ('a1 -> 'a1 -> 'a1) -> 'a1 coo -> 'a1 list
    -> 'a1 list **)

let coo_spmv zero add0 mul0 a x =
  run_kernel (k_append zero add0 mul0) a.coo_ents x (zeros zero a.coo_nr)

(** val coo_spmv_append :
    'a1 -> ('a1 -> 'a1 -> 'a1) -> ('a1 -> 'a1 -> 'a1) -> 'a1 coo -> 'a1 list
    -> 'a1 list -> 'a1 list **)

let coo_spmv_append zero add0 mul0 a x b =
  run_kernel (k_append zero add0 mul0) a.coo_ents x b

(** val coo_spmv_append_T :
    'a1 -> ('a1 -> 'a1 -> 'a1) -> ('a1 -> 'a1 -> 'a1) -> 'a1 coo -> 'a1 list
    -> 'a1 list -> 'a1 list **)

let coo_spmv_append_T zero add0 mul0 a x b =
  run_kernel (k_append_T zero add0 mul0) a.coo_ents x b

(** val coo_spmv_append_neg :
    'a1 -> ('a1 -> 'a1 -> 'a1) -> ('a1 -> 'a1 -> 'a1) -> 'a1 coo -> 'a1 list
    -> 'a1 list -> 'a1 list **)

let coo_spmv_append_neg zero mul0 sub0 a x b =
  run_kernel (k_append_neg zero mul0 sub0) a.coo_ents x b

(** val coo_spmv_append_neg_T :
    'a1 -> ('a1 -> 'a1 -> 'a1) -> ('a1 -> 'a1 -> 'a1) -> 'a1 coo -> 'a1 list
    -> 'a1 list -> 'a1 list **)

let coo_spmv_append_neg_T zero mul0 sub0 a x b =
  run_kernel (k_append_neg_T zero mul0 sub0) a.coo_ents x b

(** val coo_residual :
    'a1 -> ('a1 -> 'a1 -> 'a1) -> ('a1 -> 'a1 -> 'a1) -> 'a1 coo -> 'a1 list
    -> 'a1 list -> 'a1 list **)

let coo_residual zero mul0 sub0 a x b =
  run_kernel (k_append_neg zero mul0 sub0) a.coo_ents x (firstn a.coo_nr b)

(** val csc_spmv :
    'a1 -> ('a1 -> 'a1 -> 'a1) -> ('a1 -> 'a1 -> 'a1) -> 'a1 csc -> 'a1 list
    -> 'a1 list **)

let csc_spmv zero add0 mul0 a x =
  coo_spmv zero add0 mul0 (csc_to_coo a) x

(** val csc_spmv_append :
    'a1 -> ('a1 -> 'a1 -> 'a1) -> ('a1 -> 'a1 -> 'a1) -> 'a1 csc -> 'a1 list
    -> 'a1 list -> 'a1 list **)

let csc_spmv_append zero add0 mul0 a x b =
  coo_spmv_append zero add0 mul0 (csc_to_coo a) x b

(** val csc_spmv_append_T :
    'a1 -> ('a1 -> 'a1 -> 'a1) -> ('a1 -> 'a1 -> 'a1) -> 'a1 csc -> 'a1 list
    -> 'a1 list -> 'a1 list **)

let csc_spmv_append_T zero add0 mul0 a x b =
  coo_spmv_append_T zero add0 mul0 (csc_to_coo a) x b

(** val csc_spmv_append_neg :
    'a1 -> ('a1 -> 'a1 -> 'a1) -> ('a1 -> 'a1 -> 'a1) -> 'a1 csc -> 'a1 list
    -> 'a1 list -> 'a1 list **)

let csc_spmv_append_neg zero mul0 sub0 a x b =
  coo_spmv_append_neg zero mul0 sub0 (csc_to_coo a) x b

(** val csc_spmv_append_neg_T :
    'a1 -> ('a1 -> 'a1 -> 'a1) -> ('a1 -> 'a1 -> 'a1) -> 'a1 csc -> 'a1 list
    -> 'a1 list -> 'a1 list **)

let csc_spmv_append_neg_T zero mul0 sub0 a x b =
  coo_spmv_append_neg_T zero mul0 sub0 (csc_to_coo a) x b

(** val csc_residual :
    'a1 -> ('a1 -> 'a1 -> 'a1) -> ('a1 -> 'a1 -> 'a1) -> 'a1 csc -> 'a1 list
    -> 'a1 list -> 'a1 list **)

let csc_residual zero mul0 sub0 a x b =
  coo_residual zero mul0 sub0 (csc_to_coo a) x b

(** val row_dot :
    'a1 -> ('a1 -> 'a1 -> 'a1) -> ('a1 -> 'a1 -> 'a1) -> (nat * 'a1) list ->
    'a1 list -> 'a1 **)

let row_dot zero add0 mul0 r x =
  fold_left (fun acc p -> add0 acc (mul0 (snd p) (xat zero x (fst p)))) r zero

(** val csr_spmv :
    'a1 -> ('a1 -> 'a1 -> 'a1) -> ('a1 -> 'a1 -> 'a1) -> 'a1 csr -> 'a1 list
    -> 'a1 list **)

let csr_spmv zero add0 mul0 a x =
  map (fun r -> row_dot zero add0 mul0 r x) a.csr_rows

(** val csr_spmv_append :
    'a1 -> ('a1 -> 'a1 -> 'a1) -> ('a1 -> 'a1 -> 'a1) -> 'a1 csr -> 'a1 list
    -> 'a1 list -> 'a1 list **)

let csr_spmv_append zero add0 mul0 a x b =
  app
    (map (fun ir ->
      add0 (xat zero b (fst ir)) (row_dot zero add0 mul0 (snd ir) x))
      (indexed a.csr_rows)) (skipn a.csr_nr b)

(** val csr_residual :
    'a1 -> ('a1 -> 'a1 -> 'a1) -> ('a1 -> 'a1 -> 'a1) -> 'a1 csr -> 'a1 list
    -> 'a1 list -> 'a1 list **)

let csr_residual zero mul0 sub0 a x b =
  map (fun ir ->
    fold_left (fun acc p -> sub0 acc (mul0 (snd p) (xat zero x (fst p))))
      (snd ir) (xat zero b (fst ir))) (indexed a.csr_rows)

(** val csr_spmv_append_T :
    'a1 -> ('a1 -> 'a1 -> 'a1) -> ('a1 -> 'a1 -> 'a1) -> 'a1 csr -> 'a1 list
    -> 'a1 list -> 'a1 list **)

let csr_spmv_append_T zero add0 mul0 a x b =
  coo_spmv_append_T zero add0 mul0 (csr_to_coo a) x b

(** val csr_spmv_append_neg :
    'a1 -> ('a1 -> 'a1 -> 'a1) -> ('a1 -> 'a1 -> 'a1) -> 'a1 csr -> 'a1 list
    -> 'a1 list -> 'a1 list **)

let csr_spmv_append_neg zero mul0 sub0 a x b =
  coo_spmv_append_neg zero mul0 sub0 (csr_to_coo a) x b

(** val csr_spmv_append_neg_T :
    'a1 -> ('a1 -> 'a1 -> 'a1) -> ('a1 -> 'a1 -> 'a1) -> 'a1 csr -> 'a1 list
    -> 'a1 list -> 'a1 list **)

let csr_spmv_append_neg_T zero mul0 sub0 a x b =
  coo_spmv_append_neg_T zero mul0 sub0 (csr_to_coo a) x b

(** val coo_mult_T :
    'a1 -> ('a1 -> 'a1 -> 'a1) -> ('a1 -> 'a1 -> 'a1) -> 'a1 coo -> 'a1 list
    -> 'a1 list **)

let coo_mult_T zero add0 mul0 a x =
  coo_spmv_append_T zero add0 mul0 a x (zeros zero a.coo_nc)

(** val csr_mult_T :
    'a1 -> ('a1 -> 'a1 -> 'a1) -> ('a1 -> 'a1 -> 'a1) -> 'a1 csr -> 'a1 list
    -> 'a1 list **)

let csr_mult_T zero add0 mul0 a x =
  csr_spmv_append_T zero add0 mul0 a x (zeros zero a.csr_nc)

(** val csc_mult_T :
    'a1 -> ('a1 -> 'a1 -> 'a1) -> ('a1 -> 'a1 -> 'a1) -> 'a1 csc -> 'a1 list
    -> 'a1 list **)

let csc_mult_T zero add0 mul0 a x =
  csc_spmv_append_T zero add0 mul0 a x (zeros zero a.csc_nc)

(** val zero_tol : qc **)

let zero_tol =
  q2Qc { qnum = (Zpos XH); qden = (XO (XO (XO (XO (XO (XO (XO (XO (XO (XO (XO
    (XO (XO (XO (XO (XO (XI (XO (XO (XO (XO (XO (XI (XI (XI (XI (XI (XI (XO
    (XI (XI (XO (XO (XI (XO (XO (XI (XI (XI (XI (XO (XI (XI (XO (XO (XO (XO
    (XI (XI (XI (XO (XO (XO
    XH))))))))))))))))))))))))))))))))))))))))))))))))))))) }

(** val qc_small : qc -> bool **)

let qc_small q0 =
  match qccompare (qcabs q0) zero_tol with
  | Lt -> true
  | _ -> false

(** val qc_ltb : qc -> qc -> bool **)

let qc_ltb a b =
  match qccompare a b with
  | Lt -> true
  | _ -> false

(** val qc_leb : qc -> qc -> bool **)

let qc_leb a b =
  match qccompare a b with
  | Gt -> false
  | _ -> true

(** val qc_eqb : qc -> qc -> bool **)

let qc_eqb a b =
  match qccompare a b with
  | Eq -> true
  | _ -> false

(** val q_den_coo : qc coo -> nat -> nat -> qc **)

let q_den_coo =
  den_coo (q2Qc { qnum = Z0; qden = XH }) qcplus

(** val q_den_csr : qc csr -> nat -> nat -> qc **)

let q_den_csr =
  den_csr (q2Qc { qnum = Z0; qden = XH }) qcplus

(** val q_den_csc : qc csc -> nat -> nat -> qc **)

let q_den_csc =
  den_csc (q2Qc { qnum = Z0; qden = XH }) qcplus

(** val q_csr_remove_duplicates : qc csr -> qc csr **)

let q_csr_remove_duplicates =
  csr_remove_duplicates qcplus qc_small

(** val q_csc_remove_duplicates : qc csc -> qc csc **)

let q_csc_remove_duplicates =
  csc_remove_duplicates qcplus qc_small

(** val q_coo_remove_duplicates : qc coo -> qc coo **)

let q_coo_remove_duplicates =
  coo_remove_duplicates qcplus

(** val q_csr_add : qc csr -> qc csr -> bool -> qc csr **)

let q_csr_add =
  csr_add qcplus qc_small

(** val q_csr_subtract : qc csr -> qc csr -> qc csr **)

let q_csr_subtract =
  csr_subtract qcplus qcopp qc_small

(** val q_coo_spmv : qc coo -> qc list -> qc list **)

let q_coo_spmv =
  coo_spmv (q2Qc { qnum = Z0; qden = XH }) qcplus qcmult

(** val q_coo_spmv_append : qc coo -> qc list -> qc list -> qc list **)

let q_coo_spmv_append =
  coo_spmv_append (q2Qc { qnum = Z0; qden = XH }) qcplus qcmult

(** val q_coo_spmv_append_T : qc coo -> qc list -> qc list -> qc list **)

let q_coo_spmv_append_T =
  coo_spmv_append_T (q2Qc { qnum = Z0; qden = XH }) qcplus qcmult

(** val q_coo_spmv_append_neg : qc coo -> qc list -> qc list -> qc list **)

let q_coo_spmv_append_neg =
  coo_spmv_append_neg (q2Qc { qnum = Z0; qden = XH }) qcmult qcminus

(** val q_coo_spmv_append_neg_T : qc coo -> qc list -> qc list -> qc list **)

let q_coo_spmv_append_neg_T =
  coo_spmv_append_neg_T (q2Qc { qnum = Z0; qden = XH }) qcmult qcminus

(** val q_coo_residual : qc coo -> qc list -> qc list -> qc list **)

let q_coo_residual =
  coo_residual (q2Qc { qnum = Z0; qden = XH }) qcmult qcminus

(** val q_coo_mult_T : qc coo -> qc list -> qc list **)

let q_coo_mult_T =
  coo_mult_T (q2Qc { qnum = Z0; qden = XH }) qcplus qcmult

(** val q_csr_spmv : qc csr -> qc list -> qc list **)

let q_csr_spmv =
  csr_spmv (q2Qc { qnum = Z0; qden = XH }) qcplus qcmult

(** val q_csr_spmv_append : qc csr -> qc list -> qc list -> qc list **)

let q_csr_spmv_append =
  csr_spmv_append (q2Qc { qnum = Z0; qden = XH }) qcplus qcmult

(** val q_csr_spmv_append_T : qc csr -> qc list -> qc list -> qc list **)

let q_csr_spmv_append_T =
  csr_spmv_append_T (q2Qc { qnum = Z0; qden = XH }) qcplus qcmult

(** val q_csr_spmv_append_neg : qc csr -> qc list -> qc list -> qc list **)

let q_csr_spmv_append_neg =
  csr_spmv_append_neg (q2Qc { qnum = Z0; qden = XH }) qcmult qcminus

(** val q_csr_spmv_append_neg_T : qc csr -> qc list -> qc list -> qc list **)

let q_csr_spmv_append_neg_T =
  csr_spmv_append_neg_T (q2Qc { qnum = Z0; qden = XH }) qcmult qcminus

(** val q_csr_residual : qc csr -> qc list -> qc list -> qc list **)

let q_csr_residual =
  csr_residual (q2Qc { qnum = Z0; qden = XH }) qcmult qcminus

(** val q_csr_mult_T : qc csr -> qc list -> qc list **)

let q_csr_mult_T =
  csr_mult_T (q2Qc { qnum = Z0; qden = XH }) qcplus qcmult

(** val q_csc_spmv : qc csc -> qc list -> qc list **)

let q_csc_spmv =
  csc_spmv (q2Qc { qnum = Z0; qden = XH }) qcplus qcmult

(** val q_csc_spmv_append : qc csc -> qc list -> qc list -> qc list **)

let q_csc_spmv_append =
  csc_spmv_append (q2Qc { qnum = Z0; qden = XH }) qcplus qcmult

(** val q_csc_spmv_append_T : qc csc -> qc list -> qc list -> qc list **)

let q_csc_spmv_append_T =
  csc_spmv_append_T (q2Qc { qnum = Z0; qden = XH }) qcplus qcmult

(** val q_csc_spmv_append_neg : qc csc -> qc list -> qc list -> qc list **)

let q_csc_spmv_append_neg =
  csc_spmv_append_neg (q2Qc { qnum = Z0; qden = XH }) qcmult qcminus

(** val q_csc_spmv_append_neg_T : qc csc -> qc list -> qc list -> qc list **)

let q_csc_spmv_append_neg_T =
  csc_spmv_append_neg_T (q2Qc { qnum = Z0; qden = XH }) qcmult qcminus

(** val q_csc_residual : qc csc -> qc list -> qc list -> qc list **)

let q_csc_residual =
  csc_residual (q2Qc { qnum = Z0; qden = XH }) qcmult qcminus

(** val q_csc_mult_T : qc csc -> qc list -> qc list **)

let q_csc_mult_T =
  csc_mult_T (q2Qc { qnum = Z0; qden = XH }) qcplus qcmult
