(* The executed instance: every model over the abstract ring/field is run at Qc
   (canonical rationals, Leibniz equality). *)
From Coq Require Import QArith Qcanon Qcabs.
From Raptor Require Import Base.Sums Sparse.Defs Sparse.Block.

Local Open Scope Qc_scope.

Definition zero_tol : Qc := Q2Qc (1 # 10000000000000000).
Definition Qc_small (q : Qc) : bool :=
  match Qccompare (Qcabs q) zero_tol with Lt => true | _ => false end.
Definition Qc_ltb (a b : Qc) : bool := match Qccompare a b with Lt => true | _ => false end.
Definition Qc_leb (a b : Qc) : bool := match Qccompare a b with Gt => false | _ => true end.
Definition Qc_eqb (a b : Qc) : bool := match Qccompare a b with Eq => true | _ => false end.

Definition q_den_coo := den_coo Qc 0 Qcplus.
Definition q_den_csr := den_csr Qc 0 Qcplus.
Definition q_den_csc := den_csc Qc 0 Qcplus.

Definition q_csr_remove_duplicates := csr_remove_duplicates Qc Qcplus Qc_small.
Definition q_csc_remove_duplicates := csc_remove_duplicates Qc Qcplus Qc_small.
Definition q_coo_remove_duplicates := coo_remove_duplicates Qc Qcplus.
Definition q_csr_add := csr_add Qc Qcplus Qc_small.
Definition q_csr_subtract := csr_subtract Qc Qcplus Qcopp Qc_small.

Definition q_coo_spmv := coo_spmv Qc 0 Qcplus Qcmult.
Definition q_coo_spmv_append := coo_spmv_append Qc 0 Qcplus Qcmult.
Definition q_coo_spmv_append_T := coo_spmv_append_T Qc 0 Qcplus Qcmult.
Definition q_coo_spmv_append_neg := coo_spmv_append_neg Qc 0 Qcmult Qcminus.
Definition q_coo_spmv_append_neg_T := coo_spmv_append_neg_T Qc 0 Qcmult Qcminus.
Definition q_coo_residual := coo_residual Qc 0 Qcmult Qcminus.
Definition q_coo_mult_T := coo_mult_T Qc 0 Qcplus Qcmult.
Definition q_csr_spmv := csr_spmv Qc 0 Qcplus Qcmult.
Definition q_csr_spmv_append := csr_spmv_append Qc 0 Qcplus Qcmult.
Definition q_csr_spmv_append_T := csr_spmv_append_T Qc 0 Qcplus Qcmult.
Definition q_csr_spmv_append_neg := csr_spmv_append_neg Qc 0 Qcmult Qcminus.
Definition q_csr_spmv_append_neg_T := csr_spmv_append_neg_T Qc 0 Qcmult Qcminus.
Definition q_csr_residual := csr_residual Qc 0 Qcmult Qcminus.
Definition q_csr_mult_T := csr_mult_T Qc 0 Qcplus Qcmult.
Definition q_csc_spmv := csc_spmv Qc 0 Qcplus Qcmult.
Definition q_csc_spmv_append := csc_spmv_append Qc 0 Qcplus Qcmult.
Definition q_csc_spmv_append_T := csc_spmv_append_T Qc 0 Qcplus Qcmult.
Definition q_csc_spmv_append_neg := csc_spmv_append_neg Qc 0 Qcmult Qcminus.
Definition q_csc_spmv_append_neg_T := csc_spmv_append_neg_T Qc 0 Qcmult Qcminus.
Definition q_csc_residual := csc_residual Qc 0 Qcmult Qcminus.
Definition q_csc_mult_T := csc_mult_T Qc 0 Qcplus Qcmult.

(* block formats *)
Definition Qc_big (q : Qc) : bool := match Qccompare (Qcabs q) zero_tol with Gt => true | _ => false end.
Definition q_bcoo_expand := bcoo_expand (F:=Qc) 0.
Definition q_bsr_to_csr := bsr_to_csr (F:=Qc) 0 Qc_big.
Definition q_bcoo_transpose := bcoo_transpose (F:=Qc) 0.
Definition q_bsr_transpose := bsr_transpose (F:=Qc) 0.
Definition q_bsc_transpose := bsc_transpose (F:=Qc) 0.
(* block remove_duplicates: the scalar routines at T = list Qc with entrywise addition (append_vals) and
   abs_val(block) = sum of |entries| < zero_tol *)
Definition vadd := Block.vadd Qcplus.
Definition bsmall (blk : list Qc) : bool := Qc_small (fold_right (fun v acc => Qcabs v + acc) 0 blk).
Definition q_bsr_remove_duplicates := csr_remove_duplicates (list Qc) vadd bsmall.
Definition q_bsc_remove_duplicates := csc_remove_duplicates (list Qc) vadd bsmall.
Definition q_bcoo_remove_duplicates := coo_remove_duplicates (list Qc) vadd.
