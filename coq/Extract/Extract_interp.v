From Coq Require Import QArith Qcanon Qcabs.
From Raptor Require Import Base.Sums Sparse.Defs Extract.Inst Amg.Strength Amg.Interp Amg.Truncate Extract.Inst_interp.
Require Import ExtrOcamlBasic.
Extraction Language OCaml.
Extraction "model_interp.ml"
  Q2Qc Qcplus Qcmult Qcminus Qcopp Qcinv Qcdiv Qccompare Coq.QArith.Qcabs.Qcabs
  Qc_small Qc_ltb Qc_leb Qc_eqb
  q_strength_seq q_strength_par
  q_direct q_par_direct q_mod_classical q_extended q_interp_ok q_filter_interp.
