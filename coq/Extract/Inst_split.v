(* Family `split` (C13) executed at Qc: weights are exact rationals (keys k/1024 + integer counts). *)
From Coq Require Import QArith Qcanon.
From Raptor Require Import Amg.Split Amg.SplitPar.

Local Open Scope Qc_scope.

Definition Qc_ltb_s (a b : Qc) : bool := match Qccompare a b with Lt => true | _ => false end.

Definition q_split_cljp := @split_cljp Qc 0 1 Qcplus Qcminus Qc_ltb_s.
Definition q_split_pmis := @split_pmis Qc 0 1 Qcplus Qc_ltb_s.
Definition q_par_split_pmis := @par_split_pmis Qc 0 1 Qcplus Qc_ltb_s.
Definition q_par_split_hmis := @par_split_hmis Qc 0 1 Qcplus Qc_ltb_s.
