(* Executed instance of the `interp` family (C14 strength of connection, C12 interpolation) at Qc. *)
From Coq Require Import QArith Qcanon Qcabs.
From Raptor Require Import Base.Sums Sparse.Defs Extract.Inst Amg.Strength Amg.Interp Amg.Truncate.

Local Open Scope Qc_scope.

(* RAND_MAX of glibc: 2^31 - 1 *)
Definition rand_max : Qc := Q2Qc (2147483647 # 1).

Definition q_strength_seq := strength_seq Qc 0 Qcmult Qc_ltb rand_max (- rand_max).
Definition q_strength_par := strength_par Qc 0 Qcmult Qc_ltb rand_max (- rand_max).

(* |x - 1| <= 1e-9: tolerance of the row-sum clause when the checker reads floating-point output *)
Definition Qc_close1 (x : Qc) : bool := Qc_leb (Qcabs (x - 1)) (Q2Qc (1 # 1000000000)).

Definition q_direct := direct_interpolation Qc 0 1 Qcplus Qcmult Qcopp Qcdiv Qc_ltb Qc_eqb.
Definition q_par_direct := par_direct_interpolation Qc 0 1 Qcplus Qcmult Qcopp Qcdiv Qc_ltb Qc_eqb.
Definition q_mod_classical := mod_classical_interpolation Qc 0 1 Qcplus Qcmult Qcopp Qcdiv Qc_ltb Qc_small.
Definition q_extended := extended_interpolation Qc 0 1 Qcplus Qcmult Qcopp Qcdiv Qc_ltb Qc_small.
(* the value of a C row is compared with tolerance-free equality: the implementations store exactly 1.0 *)
Definition q_interp_ok := interp_ok Qc 0 1 Qcplus Qc_ltb Qc_eqb Qc_close1.
(* filter_interp: |w| >= thr * row_max kept, rescaled when |kept sum| > 1e-16 and |row sum - kept sum| > 1e-16 *)
Definition q_filter_interp := filter_interp (F:=Qc) 0 Qcplus Qcmult Qcminus Qcdiv Qcabs Qc_ltb Qc_big.
