(* Executed instance of the `interp` family (C14 strength of connection, C12 interpolation) at Qc. *)
From Coq Require Import QArith Qcanon Qcabs.
From Raptor Require Import Base.Sums Sparse.Defs Extract.Inst Amg.Strength.

Local Open Scope Qc_scope.

(* RAND_MAX of glibc: 2^31 - 1 *)
Definition rand_max : Qc := Q2Qc (2147483647 # 1).

Definition q_strength_seq := strength_seq Qc 0 Qcmult Qc_ltb rand_max (- rand_max).
Definition q_strength_par := strength_par Qc 0 Qcmult Qc_ltb rand_max (- rand_max).
