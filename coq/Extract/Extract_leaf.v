(* Extraction of the leaf model (family `leaf`, property C18): the generated arithmetic (GenLeaf.v) and the
   hand-written partition model (Leaf.v). Z / positive / nat stay the extracted inductives. *)
From Coq Require Import ZArith List.
From Raptor Require Import Dist.GenLeaf Dist.Leaf.
Require Import ExtrOcamlBasic.
Extraction Language OCaml.
Extraction "model_leaf.ml"
  Topology_get_node Topology_get_node_ok Topology_get_local_proc Topology_get_local_proc_ok
  Topology_get_global_proc Topology_get_global_proc_ok Topology_ctor topo_num_nodes topo_rank_ok
  Partition_block block_partition explicit_partition transpose_partition owner form_col_to_proc split_rank split_size.
