From Coq Require Import QArith Qcanon Qcabs ZArith List.
From Raptor Require Import Extract.Inst Amg.Mis2 Amg.Aggregate Extract.Inst_agg.
Require Import ExtrOcamlBasic.
Extraction Language OCaml.
Extraction "model_agg.ml"
  Q2Qc Qcplus Qcmult Qcminus Qcopp Qcinv Qcdiv Qccompare Coq.QArith.Qcabs.Qcabs
  Qc_ltb Qc_leb Qc_eqb Qc_gtb
  graph_wfb symmetricb reflexiveb isolatedb st_code
  q_mis2 q_aggregate
  mis_ok decidedb indep2b maximal2b agg_ok agg_ok_glob root_list.
