From Coq Require Import QArith Qcanon Qcabs.
From Raptor Require Import Base.Sums Sparse.Defs Krylov.KDefs Extract.Inst Extract.Inst_krylov.
Require Import ExtrOcamlBasic.
Extraction Language OCaml.
Extraction "model_krylov.ml"
  Q2Qc Qcplus Qcmult Qcminus Qcopp Qcinv Qcdiv Qccompare Coq.QArith.Qcabs.Qcabs
  Qc_small Qc_ltb Qc_leb Qc_eqb
  coo_wfb csr_wfb csc_wfb
  coo_to_coo csr_to_coo csc_to_coo coo_to_csr coo_to_csc csr_to_csr csc_to_csr csr_to_csc csc_to_csc
  q_csr_spmv q_csr_residual
  q_seq_ops q_dist_ops q_inner q_norm2sq q_dinner q_dnorm2sq
  q_cg_run q_bi_run q_bi_half q_bi_init q_pcg_run q_pcg_binner q_par_cg_scale q_par_cg_reported
  default_iters_13 default_iters_seq_bicgstab
  q_xnorm2sq q_xinner q_xdnorm2sq q_xdinner q_xgt xfinite.
