From Coq Require Import QArith Qcanon.
From Raptor Require Import Base.Sums Amg.Energy Extract.Inst_energy.
Require Import ExtrOcamlBasic.
Extraction Language OCaml.
Extraction "model_energy.ml"
  Q2Qc Qcplus Qcmult Qcminus Qcopp Qcinv Qcdiv Qccompare Qc_eqb
  q_seq_sor_row q_par_sor_row q_relax q_residual q_mult_T q_mult_append q_cycle q_iterate
  q_gauss_solve q_smv q_sweep_wfb q_den.
