(* Family `hier` (C08): the setup-loop model and the hierarchy checker executed at Qc.
   The checker sums thousands of dyadic rationals whose denominators are large powers of two;  Qplus
   multiplies  num * Zpos den  with the recursion on the (long) numerator.  The instance therefore uses
   Qcplus_fast / Qcminus_fast / Qc_leb_fast, which multiply in the other order (recursion on the power of
   two) and are proved equal to Qcplus / Qcminus / Qc_leb below, so that the ring laws are those of Qc. *)
From Coq Require Import QArith Qcanon Qcabs.
From Raptor Require Import Base.Sums Sparse.Defs Extract.Inst Amg.Hierarchy.

Local Open Scope Z_scope.
Definition Qplus_fast (x y : Q) : Q :=
  (Zpos (Qden y) * Qnum x + Zpos (Qden x) * Qnum y) # (Qden x * Qden y).
Lemma Qplus_fast_eq x y : Qplus_fast x y = Qplus x y.
Proof. unfold Qplus_fast, Qplus. f_equal. ring. Qed.

Definition Qcplus_fast (x y : Qc) : Qc := Q2Qc (Qplus_fast x y).
Definition Qcminus_fast (x y : Qc) : Qc := Qcplus_fast x (Qcopp y).
Definition Qc_leb_fast (x y : Qc) : bool :=
  match (Zpos (Qden y) * Qnum x ?= Zpos (Qden x) * Qnum y) with Gt => false | _ => true end.

Lemma Qcplus_fast_eq x y : Qcplus_fast x y = Qcplus x y.
Proof. unfold Qcplus_fast, Qcplus. rewrite Qplus_fast_eq. reflexivity. Qed.
Lemma Qcminus_fast_eq x y : Qcminus_fast x y = Qcminus x y.
Proof. unfold Qcminus_fast, Qcminus. apply Qcplus_fast_eq. Qed.
Lemma Qc_leb_fast_eq x y : Qc_leb_fast x y = Qc_leb x y.
Proof.
  unfold Qc_leb_fast, Qc_leb, Qccompare, Qcompare.
  rewrite (Z.mul_comm (Zpos (Qden y)) (Qnum x)), (Z.mul_comm (Zpos (Qden x)) (Qnum y)). reflexivity.
Qed.

Local Open Scope Qc_scope.
Lemma Qc_fast_ring : ring_theory 0 1 Qcplus_fast Qcmult Qcminus_fast Qcopp (@eq Qc).
Proof.
  destruct Qcrt as [a1 a2 a3 m1 m2 m3 d s o].
  constructor; intros; rewrite ?Qcminus_fast_eq, ?Qcplus_fast_eq; auto.
Qed.

Definition q_mm := mm Qc Qcplus_fast Qcmult.
Definition q_ptap := ptap Qc Qcplus_fast Qcmult.
Definition q_galerkin_ok := galerkin_ok Qc 0 Qcplus_fast Qcmult Qcminus_fast Qc_leb_fast Qcabs.
Definition q_sizes_ok := @sizes_ok Qc.
Definition q_vectors_ok := @vectors_ok Qc.
Definition q_maps_ok := @maps_ok Qc.
Definition q_prolong_ok := prolong_ok Qc 0 Qcplus_fast Qcmult Qcminus_fast Qc_leb_fast Qcabs.
Definition q_coarsening_ok := @coarsening_ok Qc.
Definition q_hier_ok := hier_ok Qc 0 Qcplus_fast Qcmult Qcminus_fast Qc_leb_fast Qcabs.
Definition q_dense_coarse := dense_coarse Qc 0.
Definition q_den := den_csr Qc 0 Qcplus_fast.

(* The setup loop with an arbitrary `coarsen` (the driver passes the lookup "P of level l as dumped by the
   implementation").  The run only observes level counts, sizes, partitions and vector sizes, so the two
   products are instantiated by operators of the right shape without entries (the Galerkin identity of the
   dumped operators is what hier_ok checks, with the exact product q_ptap). *)
Definition shape_mm (A B : csr Qc) : csr Qc := mkCsr (csr_nr A) (csr_nc B) (map (fun _ => []) (csr_rows A)).
Definition shape_mm_T (P B : csr Qc) : csr Qc := mkCsr (csr_nc P) (csr_nc B) (repeat [] (csr_nc P)).
Definition q_setup (coarsen : nat -> csr Qc -> list nat -> option (csr Qc * list nat))
           (max_coarse : nat) (max_levels : option nat) (fuel : nat) (Af : csr Qc) (part : list nat) :=
  setup shape_mm shape_mm_T (fun A => A) (fun A => A) coarsen max_coarse max_levels fuel Af part.
