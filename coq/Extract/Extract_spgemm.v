From Coq Require Import QArith Qcanon Qcabs.
From Raptor Require Import Base.Sums Sparse.Defs Sparse.Spgemm Dist.ParSpgemm Extract.Inst Extract.Inst_spgemm.
Require Import ExtrOcamlBasic.
Extraction Language OCaml.
Extraction "model_spgemm.ml"
  Q2Qc Qcplus Qcmult Qcminus Qcopp Qcinv Qcdiv Qccompare Coq.QArith.Qcabs.Qcabs
  Qc_small Qc_smallm Qc_ltb Qc_leb Qc_eqb
  coo_wfb csr_wfb csc_wfb
  coo_to_coo csr_to_coo csc_to_coo coo_to_csr coo_to_csc csr_to_csr csc_to_csc csr_to_csc csc_to_csr
  q_den_coo q_den_csr q_den_csc
  q_mat_mult q_mat_mult_T q_galerkin
  owner inblk pfirst psum sort_unique
  q_par_mult_on q_par_mult_off q_par_mult_offmap q_par_mult
  q_par_mult_T_on q_par_mult_T_off q_par_mult_T_offmap q_par_mult_T q_par_galerkin.
