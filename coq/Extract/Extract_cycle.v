From Coq Require Import QArith Qcanon Qcabs.
From Raptor Require Import Base.Sums Amg.Cycle Amg.Solve Extract.Inst Extract.Inst_cycle.
Require Import ExtrOcamlBasic.
Extraction Language OCaml.
Extraction "model_cycle.ml"
  Q2Qc Qcplus Qcmult Qcminus Qcopp Qcinv Qcdiv Qccompare Coq.QArith.Qcabs.Qcabs
  Qc_small Qc_ltb Qc_leb Qc_eqb Qc_tiny Qc_is0
  q_ge_solve q_lsolve q_h_cycle q_cycle_x q_fresh_scratch q_poison_scratch q_mulmat q_c_resid
  q_c_relax q_c_restrict q_c_coarse q_run_history
  q_solve q_solve_now q_measure q_xresid q_xnorm2 q_sumsq q_lift_cycle fin_vals all_fin.
