(* Family `energy` at Qc: the executed instance of Energy.v and the ordered-field facts of Qc that
   instantiate the abstract hypotheses of EnergyProofs.v (no axioms). *)
From Coq Require Import QArith Qcanon Field.
From Raptor Require Import Base.Sums Amg.Energy.

Local Open Scope Qc_scope.

Definition Qc_eqb (a b : Qc) : bool := match Qccompare a b with Eq => true | _ => false end.

Definition q_seq_sor_row := seq_sor_row Qc 0 1 Qcplus Qcmult Qcminus Qcdiv.
Definition q_par_sor_row := par_sor_row Qc 0 1 Qcplus Qcmult Qcminus Qcdiv.
Definition q_relax := relax Qc 0 1 Qcplus Qcmult Qcminus Qcdiv.
Definition q_residual := residual Qc 0 Qcmult Qcminus.
Definition q_mult_T := mult_T Qc 0 Qcplus Qcmult.
Definition q_mult_append := mult_append Qc 0 Qcplus Qcmult.
Definition q_cycle := cycle Qc 0 1 Qcplus Qcmult Qcminus Qcdiv.
Definition q_iterate := iterate Qc 0 1 Qcplus Qcmult Qcminus Qcdiv.
Definition q_gauss_solve := gauss_solve Qc 0 Qcplus Qcmult Qcminus Qcdiv Qc_eqb.
Definition q_smv := smv Qc 0 Qcplus Qcmult.
Definition q_sweep_wfb := sweep_wfb Qc.
Definition q_den := den Qc 0 Qcplus.

(* order facts *)
Lemma Qc_le_add_l (a b c : Qc) : a <= b -> c + a <= c + b.
Proof. intros H. apply Qcplus_le_compat; [apply Qcle_refl|exact H]. Qed.

Lemma Qc_mul_nonneg (a b : Qc) : 0 <= a -> 0 <= b -> 0 <= a * b.
Proof.
  intros Ha Hb. replace 0 with (0 * b) by ring. apply Qcmult_le_compat_r; assumption.
Qed.

Lemma Qc_sq_nonneg (a : Qc) : 0 <= a * a.
Proof.
  destruct (Qclt_le_dec a 0) as [H|H].
  - replace (a * a) with ((- a) * (- a)) by ring.
    assert (H' : 0 <= - a).
    { apply Qclt_le_weak in H. apply Qcopp_le_compat in H. replace (- 0) with 0 in H by ring. exact H. }
    apply Qc_mul_nonneg; exact H'.
  - apply Qc_mul_nonneg; exact H.
Qed.
