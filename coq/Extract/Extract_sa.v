From Coq Require Import QArith Qcanon Qcabs.
From Raptor Require Import Base.Sums Sparse.Defs Extract.Inst Amg.Candidates Amg.Prolong Extract.Inst_sa.
Require Import ExtrOcamlBasic.
Extraction Language OCaml.
Extraction "model_sa.ml"
  Q2Qc Qcplus Qcmult Qcminus Qcopp Qcinv Qcdiv Qccompare Coq.QArith.Qcabs.Qcabs
  Qc_small Qc_ltb Qc_leb Qc_eqb Qc_small_le Qc_sqrt
  coo_wfb csr_wfb csc_wfb
  coo_to_coo csr_to_coo csc_to_coo coo_to_csr coo_to_csc csr_to_csr csc_to_csc csr_to_csc csc_to_csr
  q_den_csr
  q_fit_candidates q_par_fit_candidates q_par_fit_T q_jacobi_prolongation q_par_jacobi_prolongation q_csr_spgemm
  ro_on ro_off ro_R ro_rows.
