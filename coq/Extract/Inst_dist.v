From Coq Require Import QArith Qcanon.
From Raptor Require Import Base.Sums Sparse.Defs Extract.Inst Dist.Comm Dist.ParMat.
Local Open Scope Qc_scope.
Definition q_assemble_all := assemble_all Qc Qcplus Qc_small.
Definition q_par_mult := par_mult Qc 0 Qcplus Qcmult.
Definition q_par_mult_append := par_mult_append Qc 0 Qcplus Qcmult.
Definition q_par_residual := par_residual Qc 0 Qcmult Qcminus.
Definition q_par_mult_T := par_mult_T Qc 0 Qcplus Qcmult.
(* distributed conversions / transpose / sums (Dist/ParConv.v) *)
From Raptor Require Import Dist.ParConv.
Definition q_par_transpose := par_transpose Qc Qcplus Qc_small.
Definition q_par_add_local := par_add_local Qc Qcplus Qcopp Qc_small.
Definition q_par_csr_to_coo := par_csr_to_coo Qc.
Definition q_par_csr_to_csc := par_csr_to_csc Qc.
Definition q_par_csr_to_csr := par_csr_to_csr Qc.
Definition q_par_coo_to_csr := par_coo_to_csr Qc.
Definition q_par_coo_to_csc := par_coo_to_csc Qc.
Definition q_par_coo_to_coo := par_coo_to_coo Qc.
Definition q_par_csc_to_csr := par_csc_to_csr Qc.
Definition q_par_csc_to_coo := par_csc_to_coo Qc.
Definition q_par_csc_to_csc := par_csc_to_csc Qc.
