From Coq Require Import QArith Qcanon.
From Raptor Require Import Base.Sums Sparse.Defs Extract.Inst Dist.Comm Dist.ParMat.
Local Open Scope Qc_scope.
Definition q_assemble_all := assemble_all Qc Qcplus Qc_small.
Definition q_par_mult := par_mult Qc 0 Qcplus Qcmult.
Definition q_par_mult_append := par_mult_append Qc 0 Qcplus Qcmult.
Definition q_par_residual := par_residual Qc 0 Qcmult Qcminus.
Definition q_par_mult_T := par_mult_T Qc 0 Qcplus Qcmult.
