(* Executed instance of the C15 models: keys and values are canonical rationals Qc. *)
From Coq Require Import QArith Qcanon Qcabs ZArith List.
From Raptor Require Import Extract.Inst Amg.Mis2 Amg.Aggregate.

Local Open Scope Qc_scope.

Definition Qc_gtb (a b : Qc) : bool := Qc_ltb b a.

Definition q_mis2 (G : graph) (r : list Qc) : option (list st) := mis2 Qc Qc_gtb 0 G r.
Definition q_aggregate (A : list (list (nat * Qc))) (S : graph) (states : list Z) (r : list Qc)
  : option (list Z * nat) := aggregate Qc 0 Qcplus Qcabs Qc_ltb A S states r.
