From Coq Require Import QArith Qcanon Qcabs.
From Raptor Require Import Base.Sums Sparse.Defs Repart.Repartition Repart.DiagScale Extract.Inst_repart.
Require Import ExtrOcamlBasic.
Extraction Language OCaml.
Extraction "model_repart.ml"
  Q2Qc Qcplus Qcmult Qcminus Qcopp Qcinv Qcdiv Qccompare Coq.QArith.Qcabs.Qcabs
  mkRV rv_first rv_on rv_off rv_colmap gmat
  q_repartition q_par_mult q_gden q_row_scale q_diagonally_scale q_all_scales q_diagonally_unscale.
