(* The executed instance of the cycle / solve models: Qc (canonical rationals, Leibniz equality). *)
From Coq Require Import QArith Qcanon Qcabs.
From Raptor Require Import Base.Sums Amg.Cycle Extract.Inst.

Local Open Scope Qc_scope.

(* !(fabs(d) > zero_tol) *)
Definition Qc_tiny (q : Qc) : bool := Qc_leb (Qcabs q) zero_tol.
Definition Qc_is0 (q : Qc) : bool := Qc_eqb q 0.

Definition q_ge_solve := ge_solve Qc 0 Qcmult Qcminus Qcinv Qc_is0.
(* the dense solver handed to the model as `lapack_solve`; [] = singular (the driver reports it) *)
Definition q_lsolve (M : list (list Qc)) (b : list Qc) : list Qc :=
  match q_ge_solve M b with Some x => x | None => [] end.

Definition q_h_cycle := h_cycle Qc 0 1 Qcplus Qcmult Qcminus Qcinv Qc_tiny q_lsolve.
Definition q_cycle_x (H : chier Qc) ss x b : list Qc := fst (fst (q_h_cycle H ss x b)).
Definition q_fresh_scratch := fresh_scratch Qc 0.
Definition q_poison_scratch := poison_scratch Qc.
Definition q_mulmat := mulmat Qc 0 Qcplus Qcmult.
Definition q_c_resid := c_resid Qc 0 Qcplus Qcmult Qcminus.
Definition q_c_relax := c_relax Qc 0 1 Qcplus Qcmult Qcminus Qcinv Qc_tiny.
Definition q_c_restrict := c_restrict Qc 0 Qcplus Qcmult.
Definition q_c_coarse := c_coarse Qc 0 q_lsolve.
(* histories on the model: the scratch is threaded *)
Definition q_run_history (H : chier Qc) :=
  run_history 0 (q_c_coarse (ch_trans H) (ch_coarse H))
              (mk_levels Qc 0 1 Qcplus Qcmult Qcminus Qcinv Qc_tiny H (ch_levels H)).

(* ---- the solve wrapper (C01) ---- *)
From Raptor Require Import Amg.Solve.
Definition ztol2_q : Qc := zero_tol * zero_tol.
Definition q_solve := solve Qc 0 Qcplus Qcmult Qcminus Qcinv Qc_leb Qc_is0 Qc_tiny.
Definition q_measure := measure Qc 0 Qcplus Qcmult Qcminus Qcinv Qc_leb Qc_is0 Qc_tiny.
Definition q_xresid := xresid Qc Qcmult Qcminus.
Definition q_xnorm2 := xnorm2 Qc 0 Qcplus Qcmult Qc_tiny.
Definition q_sumsq := sumsq Qc 0 Qcplus Qcmult.
(* the solve of the current code: plain norm, test !(r_norm <= tol), zero_tol = 1e-16 *)
Definition q_solve_now (tol : Qc) (cyc : list (xval Qc) -> list (xval Qc) -> list (xval Qc))
  (A : list (list (nat * Qc))) (b x : list (xval Qc)) (maxit : nat) : result Qc :=
  q_solve NPlain false ztol2_q tol cyc A b x maxit.
Definition q_lift_cycle := @lift_cycle Qc.
