From Coq Require Import QArith Qcanon Qcabs ZArith.
From Raptor Require Import Base.Sums Sparse.Defs Gallery.Stencil Gallery.MMFormat Extract.Inst Extract.Inst_gallery.
Require Import ExtrOcamlBasic.
Extraction Language OCaml.
Extraction "model_gallery.ml"
  Q2Qc Qcplus Qcmult Qcminus Qcopp Qcinv Qcdiv Qccompare Coq.QArith.Qcabs.Qcabs
  Qc_small Qc_ltb Qc_leb Qc_eqb Qc_big
  coo_wfb csr_wfb csc_wfb
  coo_to_coo csr_to_coo csc_to_coo coo_to_csr coo_to_csc csr_to_csr csc_to_csc csr_to_csc csc_to_csr
  q_den_coo q_den_csr q_den_csc
  nprod coords linear offs strides diag_of windows
  q_stencil_grid q_par_stencil_grid q_pattern_symmetricb q_stencil_weight q_dropw
  q_diffusion_stencil_2d q_laplace_stencil_27pt
  q_write_mm q_read_mm q_read_par_mm q_par_mm_rank q_mm_expand q_write_par_mm q_readMatrix q_readParMatrix.
