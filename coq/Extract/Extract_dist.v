From Coq Require Import QArith Qcanon.
From Raptor Require Import Base.Sums Sparse.Defs Extract.Inst Dist.Comm Dist.ParMat Dist.ParConv Dist.ParBlock Dist.Tap Dist.Net Extract.Inst_dist.
Require Import ExtrOcamlBasic.
Extraction Language OCaml.
Extraction "model_dist.ml"
  Q2Qc Qcplus Qcmult Qcminus Qcopp Qcinv Qcdiv Qccompare
  mkPkg pk forward reverse seg pairs_ok sizes_ok in_range fwd_ok rev_ok reverse_sym expected_wires
  owner group_by_owner requests_to build_pkg build_world
  coo_to_csr csr_to_coo q_csr_spmv q_csr_spmv_append q_csr_mult_T q_csr_residual
  mkTap mkTapW tap_forward tap_fwd_ok tap_reverse tap_rev_ok
  phases_ok trace_ok dests_in_rangeb Barrier EvBarrier
  q_assemble_all q_par_mult q_par_mult_append q_par_residual q_par_mult_T rs_colmap
  q_par_transpose q_par_add_local q_par_csr_to_coo q_par_csr_to_csc q_par_csr_to_csr q_par_coo_to_csr q_par_coo_to_csc
  q_par_coo_to_coo q_par_csc_to_csr q_par_csc_to_coo q_par_csc_to_csc
  expand_world expand_ids.
