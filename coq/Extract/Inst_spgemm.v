(* The executed instance of the SpGEMM family (C06): Qc with zero_tol = 1/10^16. *)
From Coq Require Import QArith Qcanon Qcabs.
From Raptor Require Import Base.Sums Sparse.Defs Sparse.Spgemm Dist.ParSpgemm Extract.Inst.

Local Open Scope Qc_scope.

(* the accumulator test of matmult.cpp keeps a sum iff fabs(sum) > zero_tol *)
Definition Qc_smallm (q : Qc) : bool :=
  match Qccompare (Qcabs q) zero_tol with Gt => false | _ => true end.

Definition q_mat_mult := mat_mult Qc 0 Qcplus Qcmult Qc_smallm.
Definition q_mat_mult_T := mat_mult_T Qc 0 Qcplus Qcmult Qc_smallm.
Definition q_galerkin := galerkin Qc 0 Qcplus Qcmult Qc_smallm.

(* distributed products: the executed instance uses the exchange that delivers the owners' rows *)
Definition q_fetch (B : csr Qc) (pk pc : list nat) := fun (_ k : nat) => owner_row Qc B pk pc k.
Definition q_par_mult_on A B pa pk pc r :=
  par_mult_on Qc 0 Qcplus Qcmult Qc_smallm Qc_small (q_fetch B pk pc) A B pa pk pc r.
Definition q_par_mult_off A B pa pk pc r :=
  par_mult_off Qc 0 Qcplus Qcmult Qc_smallm Qc_small (q_fetch B pk pc) A B pa pk pc r.
Definition q_par_mult_offmap A B pa pk pc r := par_mult_offmap Qc (q_fetch B pk pc) A B pa pk pc r.
Definition q_par_mult := par_mult_std Qc 0 Qcplus Qcmult Qc_smallm Qc_small.
Definition q_fetchT (A : csc Qc) (B : csr Qc) (pk pm pc : list nat) :=
  fun r i => sentT Qc 0 Qcplus Qcmult Qc_smallm Qc_small A B pk pm pc r i.
Definition q_par_mult_T_on A B pk pm pc r :=
  par_mult_T_on Qc 0 Qcplus Qcmult Qc_smallm Qc_small (q_fetchT A B pk pm pc) A B pk pm pc r.
Definition q_par_mult_T_off A B pk pm pc r :=
  par_mult_T_off Qc 0 Qcplus Qcmult Qc_smallm Qc_small (q_fetchT A B pk pm pc) A B pk pm pc r.
Definition q_par_mult_T_offmap A B pk pm pc r :=
  par_mult_T_offmap Qc 0 Qcplus Qcmult Qc_smallm Qc_small (q_fetchT A B pk pm pc) A B pk pm pc r.
Definition q_par_mult_T := par_mult_T_std Qc 0 Qcplus Qcmult Qc_smallm Qc_small.
Definition q_par_galerkin := par_galerkin Qc 0 Qcplus Qcmult Qc_smallm Qc_small.
