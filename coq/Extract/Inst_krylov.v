(* The executed instance of the Krylov models: Qc, with the operator given as a CSR matrix
   (csr_spmv / csr_residual of Sparse/Defs.v). *)
From Coq Require Import QArith Qcanon Qcabs.
From Raptor Require Import Base.Sums Sparse.Defs Krylov.KDefs Extract.Inst.

Local Open Scope Qc_scope.

Definition ztol2 : Qc := zero_tol * zero_tol.

Definition q_vops := vops Qc.
Definition q_seq_ops : q_vops := seq_ops Qc 0 Qcplus Qcmult.
Definition q_dist_ops (parts : list nat) : q_vops := dist_ops Qc 0 Qcplus Qcmult parts.

Definition q_inner := inner Qc 0 Qcplus Qcmult.
Definition q_norm2sq := norm2sq Qc 0 Qcplus Qcmult.
Definition q_dinner := dinner Qc 0 Qcplus Qcmult.
Definition q_dnorm2sq := dnorm2sq Qc 0 Qcplus Qcmult.

Definition q_cg_run (A : csr Qc) (ops : q_vops) (b : list Qc) (tol : Qc) (max_iter : nat) (x0 : list Qc) :=
  cg_run Qc 0 1 Qcmult Qcopp Qcdiv Qc_eqb Qc_ltb (q_csr_spmv A) (q_csr_residual A) ops b tol max_iter x0.
Definition q_bi_run (A : csr Qc) (ops : q_vops) (b : list Qc) (tol : Qc) (seqform : bool) (max_iter : nat) (x0 : list Qc) :=
  bi_run Qc 0 1 Qcmult Qcopp Qcdiv Qc_eqb Qc_ltb (q_csr_spmv A) (q_csr_residual A) ops b tol seqform max_iter x0.
Definition q_bi_half (A : csr Qc) (ops : q_vops) (rstar : list Qc) (s : bi_state Qc) :=
  bi_half Qc 0 1 Qcmult Qcopp Qcdiv Qc_eqb (q_csr_spmv A) ops rstar s.
Definition q_bi_init (A : csr Qc) (ops : q_vops) (b x0 : list Qc) :=
  bi_init Qc (q_csr_residual A) ops b x0.

(* the preconditioner as a dense matrix (rows), applied with the sequential inner product *)
Definition dense_mv (M : list (list Qc)) (r : list Qc) : list Qc := map (fun row => q_inner row r) M.
Definition q_pcg_run (A : csr Qc) (M : list (list Qc)) (ops : q_vops) (b : list Qc) (tol : Qc) (max_iter : nat) (x0 : list Qc) :=
  pcg_run Qc 0 1 Qcmult Qcopp Qcdiv Qc_eqb Qc_ltb (q_csr_spmv A) (q_csr_residual A) ops b tol (dense_mv M) ztol2 max_iter x0.
Definition q_pcg_binner (M : list (list Qc)) (ops : q_vops) (b : list Qc) := pcg_binner Qc ops b (dense_mv M).

Definition q_par_cg_scale (parts : list nat) (b : list Qc) : Qc :=
  par_cg_scale Qc 0 1 Qcplus Qcmult Qc_ltb parts ztol2 b.
Definition q_par_cg_reported (parts : list nat) (b hist : list Qc) : list Qc :=
  par_cg_reported Qc 0 1 Qcplus Qcmult Qcdiv Qc_ltb parts ztol2 b hist.

(* extended values over Qc *)
Definition q_xnorm2sq := xnorm2sq Qc 0 Qcplus Qcmult.
Definition q_xinner := xinner Qc 0 Qcplus Qcmult.
Definition q_xdnorm2sq := xdnorm2sq Qc 0 Qcplus Qcmult.
Definition q_xdinner := xdinner Qc 0 Qcplus Qcmult.
Definition q_xgt := xgt Qc Qc_ltb.
