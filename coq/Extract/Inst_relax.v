(* The executed instance of the relaxation model: Qc (canonical rationals). *)
From Coq Require Import QArith Qcanon Qcabs.
From Raptor Require Import Base.Sums Sparse.Defs Amg.Relax.

Local Open Scope Qc_scope.

Definition relax_zero_tol : Qc := Q2Qc (1 # 10000000000000000).
(* the negation of the C++ guard  fabs(diag) > zero_tol *)
Definition Qc_tiny (q : Qc) : bool :=
  match Qccompare (Qcabs q) relax_zero_tol with Gt => false | _ => true end.

Definition q_seq_jacobi := seq_jacobi Qc 0 1 Qcplus Qcmult Qcminus Qcdiv Qc_tiny.
Definition q_seq_sor := seq_sor Qc 0 1 Qcplus Qcmult Qcminus Qcdiv.
Definition q_seq_ssor := seq_ssor Qc 0 1 Qcplus Qcmult Qcminus Qcdiv.
Definition q_dist_jacobi := dist_jacobi Qc 0 1 Qcplus Qcmult Qcminus Qcdiv Qc_tiny.
Definition q_dist_sor := dist_sor Qc 0 1 Qcplus Qcmult Qcminus Qcdiv.
Definition q_dist_ssor := dist_ssor Qc 0 1 Qcplus Qcmult Qcminus Qcdiv.
