(* The executed instance of the gallery models: values in Qc, big v = |v| > zero_tol (1e-16),
   show / parse = identity (the tie uses values whose 16-digit decimal form is read back to the same double). *)
From Coq Require Import QArith Qcanon Qcabs ZArith.
From Raptor Require Import Base.Sums Sparse.Defs Gallery.Stencil Gallery.MMFormat Extract.Inst.

Local Open Scope Qc_scope.

Definition Qc_big (q : Qc) : bool :=
  match Qccompare (Qcabs q) zero_tol with Gt => true | _ => false end.

Definition q_stencil_grid := stencil_grid Qc 0 Qc_big.
Definition q_par_stencil_grid := par_stencil_grid Qc 0 Qc_big.
Definition q_pattern_symmetricb := pattern_symmetricb Qc 0 Qc_big.
Definition q_stencil_weight := stencil_weight Qc 0.
Definition q_dropw := dropw Qc 0 Qc_big.
Definition Qc_of_nat (n : nat) : Qc := Q2Qc (Z.of_nat n # 1).
Definition q_diffusion_stencil_2d :=
  diffusion_stencil_2d Qc 1 Qcplus Qcmult Qcminus Qcopp Qc_of_nat (fun x => x / Qc_of_nat 6).
Definition q_laplace_stencil_27pt := laplace_stencil_27pt Qc 1 Qcopp Qc_of_nat.

Definition qid (x : Qc) : Qc := x.
Definition q_write_mm := write_mm Qc qid.
Definition q_read_mm := read_mm Qc Qc_big qid.
Definition q_read_par_mm := read_par_mm Qc Qc_big qid.
Definition q_par_mm_rank := par_mm_rank Qc Qc_big qid.
Definition q_mm_expand := mm_expand Qc Qc_big qid.
Definition q_write_par_mm := write_par_mm Qc qid.
Definition q_readMatrix := readMatrix Qc.
Definition q_readParMatrix := readParMatrix Qc.
