(* Executed instance of the smoothed-aggregation family (C16) at Qc.
   sqrt: exact when numerator and denominator of the canonical fraction are perfect squares (the generator
   favours such data, and IEEE sqrt is exact there too); otherwise floor(sqrt(q * 2^240)) / 2^120, i.e. an
   approximation from below with absolute error < 2^-120 (values compared by tolerance in that case). *)
From Coq Require Import QArith Qcanon Qcabs ZArith.
From Raptor Require Import Base.Sums Sparse.Defs Extract.Inst Amg.Candidates Amg.Prolong.

Local Open Scope Qc_scope.

Definition Qc_small_le (q : Qc) : bool :=
  match Qccompare (Qcabs q) zero_tol with Gt => false | _ => true end.

Definition Qc_sqrt (q : Qc) : Qc :=
  let n := Qnum q in
  let d := Zpos (Qden q) in
  if (n <=? 0)%Z then 0
  else
    let sn := Z.sqrt n in
    let sd := Z.sqrt d in
    if ((sn * sn =? n) && (sd * sd =? d))%Z then Q2Qc (Qmake sn (Z.to_pos sd))
    else Q2Qc (Qmake (Z.sqrt (Z.shiftl n 240 / d)) (Pos.shiftl 1 120)).

Definition q_fit_candidates := fit_candidates Qc 0 1 Qcplus Qcmult Qcdiv Qc_sqrt Qc_ltb.
Definition q_par_fit_candidates := par_fit_candidates Qc 0 1 Qcplus Qcmult Qcdiv Qc_sqrt.
Definition q_par_fit_T := par_fit_T Qc 0 1 Qcplus Qcmult Qcdiv Qc_sqrt.
Definition q_jacobi_prolongation := jacobi_prolongation Qc 0 1 Qcplus Qcmult Qcopp Qcdiv Qc_ltb Qc_eqb Qc_small Qc_small_le.
Definition q_par_jacobi_prolongation := par_jacobi_prolongation Qc 0 1 Qcplus Qcmult Qcopp Qcdiv Qc_ltb Qc_eqb Qc_small Qc_small_le.
Definition q_csr_spgemm := csr_spgemm Qc 0 Qcplus Qcmult Qc_small_le.
