From Coq Require Import QArith Qcanon Qcabs.
From Raptor Require Import Base.Sums Sparse.Defs Extract.Inst Amg.Hierarchy Extract.Inst_hier.
Require Import ExtrOcamlBasic.
Extraction Language OCaml.
Extraction "model_hier.ml"
  Q2Qc Qcplus Qcmult Qcminus Qcopp Qcinv Qcdiv Qccompare Coq.QArith.Qcabs.Qcabs
  Qc_small Qc_ltb Qc_leb Qc_eqb csr_wfb csr_transpose q_den_csr
  q_den q_mm q_ptap q_galerkin_ok q_sizes_ok q_vectors_ok q_maps_ok q_prolong_ok q_coarsening_ok q_hier_ok
  q_dense_coarse q_setup num_levels coarse_n coarse_sizes coarse_displs continue_cond level_names.
