From Coq Require Import QArith Qcanon Qcabs.
From Raptor Require Import Base.Sums Sparse.Defs Sparse.Block Extract.Inst.
Require Import ExtrOcamlBasic.
Extraction Language OCaml.
Extraction "model_sparse.ml"
  Q2Qc Qcplus Qcmult Qcminus Qcopp Qcinv Qcdiv Qccompare Coq.QArith.Qcabs.Qcabs
  Qc_small Qc_ltb Qc_leb Qc_eqb
  coo_wfb csr_wfb csc_wfb
  coo_to_coo csr_to_coo csc_to_coo coo_to_csr coo_to_csc csr_to_csr csc_to_csc csr_to_csc csc_to_csr
  coo_transpose csr_transpose csc_transpose
  coo_sort csr_sort csc_sort csr_move_diag csc_move_diag
  q_den_coo q_den_csr q_den_csc
  q_csr_remove_duplicates q_csc_remove_duplicates q_coo_remove_duplicates q_csr_add q_csr_subtract
  q_coo_spmv q_coo_spmv_append q_coo_spmv_append_T q_coo_spmv_append_neg q_coo_spmv_append_neg_T
  q_coo_residual q_coo_mult_T
  q_csr_spmv q_csr_spmv_append q_csr_spmv_append_T q_csr_spmv_append_neg q_csr_spmv_append_neg_T
  q_csr_residual q_csr_mult_T
  q_csc_spmv q_csc_spmv_append q_csc_spmv_append_T q_csc_spmv_append_neg q_csc_spmv_append_neg_T
  q_csc_residual q_csc_mult_T
  q_bcoo_expand q_bsr_to_csr q_bcoo_transpose q_bsr_transpose q_bsc_transpose
  q_bsr_remove_duplicates q_bsc_remove_duplicates q_bcoo_remove_duplicates.
