(* Executed instance of the repart family (C20) at Qc.  Qc_sqrt is exact on squares of rationals (the
   generator only uses such diagonals); the theorems are about an abstract sqrt. *)
From Coq Require Import QArith Qcanon Qcabs.
From Raptor Require Import Base.Sums Sparse.Defs Repart.Repartition Repart.DiagScale.

Local Open Scope Qc_scope.

Definition Qc_sqrt (q : Qc) : Qc := Q2Qc (Z.sqrt (Qnum (this q)) # Pos.sqrt (Qden (this q))).

Definition q_repartition := repartition (T := Qc).
Definition q_par_mult := par_mult Qc 0 Qcplus Qcmult.
Definition q_gden := gden Qc 0 Qcplus.
Definition q_row_scale := row_scale Qc 0 Qcmult Qcinv.
Definition q_diagonally_scale := diagonally_scale Qc 0 Qcmult Qcinv Qc_sqrt Qcabs.
Definition q_all_scales := all_scales Qc 0 Qcinv Qc_sqrt Qcabs.
Definition q_diagonally_unscale := diagonally_unscale Qc 0 Qcmult.
