From Coq Require Import QArith Qcanon Qcabs.
From Raptor Require Import Base.Sums Sparse.Defs Amg.Relax Extract.Inst_relax.
Require Import ExtrOcamlBasic.
Extraction Language OCaml.
Extraction "model_relax.ml"
  Q2Qc Qcplus Qcmult Qcminus Qcopp Qcinv Qcdiv Qccompare Coq.QArith.Qcabs.Qcabs
  Qc_tiny q_seq_jacobi q_seq_sor q_seq_ssor q_dist_jacobi q_dist_sor q_dist_ssor.
