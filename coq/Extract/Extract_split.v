From Coq Require Import QArith Qcanon.
From Raptor Require Import Amg.Split Amg.SplitPar Extract.Inst_split.
Require Import ExtrOcamlBasic.
Extraction Language OCaml.
Extraction "model_split.ml"
  Q2Qc Qcplus Qcminus Qccompare
  graph_wfb split_rs split_rs_gen q_split_cljp q_split_pmis split_ok off_rows
  total_okb f_has_c_okb c_and_f_okb has_dep_edge
  initial_states block_starts par_split_rs par_split_rs_gen q_par_split_pmis q_par_split_hmis.
