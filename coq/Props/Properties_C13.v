(* C13 — Coarse/fine splittings are total, agreed between processes and usable.
   Property-level theorems only; each is closed by a lemma from Amg/Split*Proofs.v.
   S is the strength pattern (CSR rows of column indices as stored); off_rows S are the rows as the
   library's loops see them (after move_diag, leading diagonal entry skipped).
   Labels: LC coarse (Selected 1), LF fine (Unselected 0), LN isolated (NoNeighbors -2), LU unassigned (-1). *)
From Coq Require Import List Arith Lia Bool.
Import ListNotations.
From Raptor Require Import Amg.Split Amg.SplitProofs Amg.SplitMisProofs Amg.SplitRsProofs.

(* The checker run on every gathered output of the library (all routines, sequential and distributed)
   decides the property's clauses. *)
Theorem C13_split_ok_sound (rs : bool) (S : graph) (st : list label) : split_ok rs S st = true ->
  let R := off_rows S in
  length st = length S /\
  (forall v, v < length S ->
     nth v st LU = LC \/ nth v st LU = LF \/ (nth v st LU = LN /\ nth v R [] = [])) /\
  (rs = true ->
     (forall v, v < length S -> nth v st LU = LF -> nth v R [] <> [] ->
        exists c, In c (nth v R []) /\ nth c st LU = LC) /\
     ((exists u t, In t (nth u R []) /\ nth t R [] <> []) ->
        (exists c, c < length S /\ nth c st LU = LC) /\ (exists f, f < length S /\ nth f st LU = LF))).
Proof. apply split_ok_sound. Qed.

Example C13_split_ok_sound_nonvacuous :
  split_ok true [[0; 1]; [1; 0]] [LF; LC] = true /\ split_ok true [[0; 1]; [1; 0]] [LC; LC] = false.
Proof. split; reflexivity. Qed.

(* Ruge-Stuben (both passes or the first only, with or without states supplied by the caller, for ALL
   patterns): a point is fine on exit only if the caller passed it in as fine or it strongly depends on
   a coarse point. *)
Theorem C13_rs_fine_has_coarse (S : graph) (init : option (list label)) (second : bool) (v : nat) :
  (match init with Some st0 => length st0 = length S | None => True end) ->
  let st := split_rs_gen S init second in
  nth v st LU = LF ->
  (match init with Some st0 => nth v st0 LU = LF | None => False end) \/
  exists c, In c (nth v (off_rows S) []) /\ nth c st LU = LC.
Proof. apply rs_fine_has_coarse. Qed.

Example C13_rs_fine_has_coarse_nonvacuous :
  split_rs [[0; 1]; [1; 0; 2]; [2; 1]] = [LF; LC; LF].
Proof. reflexivity. Qed.

(* Ruge-Stuben on a pattern with at least one edge u -> t (t <> u): at least one point is coarse; at least one
   is fine as soon as the first pass leaves no point unassigned.
   The preconditions are the ones the code itself needs: column indices in range, no duplicate of the
   diagonal left in a row, and every in-degree below n (it indexes weight_sizes[]).
   PARTIAL: the hypothesis "first pass leaves no point unassigned" (totality of the first pass) needs the
   bucket invariant of rs_first_pass; see C13_rs_total_partial below - until that is closed it is checked on
   every run by split_ok. *)
Theorem C13_rs_coarse_and_fine_partial (G : graph) :
  graph_wfb G = true ->
  (forall c, c < length G -> length (nth c (col_lists (off_rows G)) []) < length G) ->
  (forall i, ~ In i (nth i (off_rows G) [])) ->
  (exists u t, In t (nth u (off_rows G) [])) ->
  (exists c, c < length G /\ nth c (split_rs G) LU = LC) /\
  ((forall v, v < length G -> nth v (split_rs_gen G None false) LU <> LU) ->
   exists f, f < length G /\ nth f (split_rs G) LU = LF).
Proof. apply rs_coarse_and_fine. Qed.

(* after the first pass alone both exist unconditionally *)
Theorem C13_rs_first_pass_coarse_and_fine (G : graph) :
  graph_wfb G = true ->
  (forall c, c < length G -> length (nth c (col_lists (off_rows G)) []) < length G) ->
  (forall i, ~ In i (nth i (off_rows G) [])) ->
  (exists u t, In t (nth u (off_rows G) [])) ->
  let st := split_rs_gen G None false in
  length st = length G /\
  exists c f, c < length G /\ f < length G /\ nth c st LU = LC /\ nth f st LU = LF.
Proof. apply first_pass_coarse_fine. Qed.

Example C13_rs_coarse_and_fine_nonvacuous :
  let G := [[0; 1]; [1; 0; 2]; [2; 1]] in
  graph_wfb G = true /\
  (forall c, c < length G -> length (nth c (col_lists (off_rows G)) []) < length G) /\
  (forall i, ~ In i (nth i (off_rows G) [])) /\
  (exists u t, In t (nth u (off_rows G) [])) /\
  (forall v, v < length G -> nth v (split_rs_gen G None false) LU <> LU).
Proof.
  cbv zeta. split; [reflexivity|]. split.
  - intros c Hc. change (length [[0; 1]; [1; 0; 2]; [2; 1]]) with 3 in *.
    destruct c as [|[|[|c]]]; [vm_compute; lia|vm_compute; lia|vm_compute; lia|lia].
  - split.
    + intros i. destruct i as [|[|[|i]]]; [vm_compute; intuition lia|vm_compute; intuition lia|vm_compute; intuition lia|].
      intros H. rewrite nth_overflow in H by (vm_compute; lia). exact H.
    + split; [exists 0, 1; vm_compute; auto|].
      intros v Hv. change (length [[0; 1]; [1; 0; 2]; [2; 1]]) with 3 in *.
      destruct v as [|[|[|v]]]; [vm_compute; discriminate|vm_compute; discriminate|vm_compute; discriminate|lia].
Qed.

(* CLJP and PMIS with ANY caller-supplied weights over an ordered carrier: every round assigns at least the
   maximal unassigned vertex, so n rounds of fuel suffice (termination) and every point ends coarse or fine. *)
Section C13_MIS.
Variable F : Type.
Variables (zero one : F) (add sub : F -> F -> F).
Variable ltb : F -> F -> bool.
Hypothesis ltb_trans : forall a b c, ltb a b = true -> ltb b c = true -> ltb a c = true.
Hypothesis ltb_irrefl : forall a, ltb a a = false.
Hypothesis lt01 : ltb zero one = true.

Theorem C13_cljp_terminates_total (S : graph) (keys : list F) :
  graph_wfb S = true -> length keys = length S ->
  exists st, split_cljp zero one add sub ltb S keys (length S) = Some st /\
             length st = length S /\ forall v, v < length S -> nth v st LU = LC \/ nth v st LU = LF.
Proof. apply split_cljp_total; assumption. Qed.

Theorem C13_pmis_terminates_total (S : graph) (keys : list F) :
  graph_wfb S = true -> length keys = length S ->
  exists st, split_pmis zero one add ltb S keys (length S) = Some st /\
             length st = length S /\ forall v, v < length S -> nth v st LU = LC \/ nth v st LU = LF.
Proof. apply split_pmis_total; assumption. Qed.
End C13_MIS.

Example C13_mis_nonvacuous :
  graph_wfb [[0; 1]; [1; 0; 2]; [2; 1]] = true /\
  split_pmis 0 1 Nat.add Nat.ltb [[0; 1]; [1; 0; 2]; [2; 1]] [0; 0; 0] 3 = Some [LF; LC; LF].
Proof. split; reflexivity. Qed.

Print Assumptions C13_split_ok_sound.
Print Assumptions C13_rs_fine_has_coarse.
Print Assumptions C13_rs_coarse_and_fine_partial.
Print Assumptions C13_rs_first_pass_coarse_and_fine.
Print Assumptions C13_cljp_terminates_total.
Print Assumptions C13_pmis_terminates_total.
