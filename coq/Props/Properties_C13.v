(* C13 — Coarse/fine splittings are total, agreed between processes and usable.
   Property-level theorems only; each is closed by a lemma from Amg/Split*Proofs.v.
   S is the strength pattern (CSR rows of column indices as stored); off_rows S are the rows as the
   library's loops see them (after move_diag, leading diagonal entry skipped).
   Labels: LC coarse (Selected 1), LF fine (Unselected 0), LN isolated (NoNeighbors -2), LU unassigned (-1). *)
From Coq Require Import List Arith Lia Bool.
Import ListNotations.
From Raptor Require Import Amg.Split Amg.SplitProofs.

(* The checker run on every gathered output of the library (all routines, sequential and distributed)
   decides the property's clauses. *)
Theorem C13_split_ok_sound (rs : bool) (S : graph) (st : list label) : split_ok rs S st = true ->
  let R := off_rows S in
  length st = length S /\
  (forall v, v < length S ->
     nth v st LU = LC \/ nth v st LU = LF \/ (nth v st LU = LN /\ nth v R [] = [])) /\
  (rs = true ->
     (forall v, v < length S -> nth v st LU = LF -> nth v R [] <> [] ->
        exists c, In c (nth v R []) /\ nth c st LU = LC) /\
     ((exists u t, In t (nth u R []) /\ nth t R [] <> []) ->
        (exists c, c < length S /\ nth c st LU = LC) /\ (exists f, f < length S /\ nth f st LU = LF))).
Proof. apply split_ok_sound. Qed.

Example C13_split_ok_sound_nonvacuous :
  split_ok true [[0; 1]; [1; 0]] [LF; LC] = true /\ split_ok true [[0; 1]; [1; 0]] [LC; LC] = false.
Proof. split; reflexivity. Qed.

(* Ruge-Stuben (both passes or the first only, with or without states supplied by the caller, for ALL
   patterns): a point is fine on exit only if the caller passed it in as fine or it strongly depends on
   a coarse point. *)
Theorem C13_rs_fine_has_coarse (S : graph) (init : option (list label)) (second : bool) (v : nat) :
  (match init with Some st0 => length st0 = length S | None => True end) ->
  let st := split_rs_gen S init second in
  nth v st LU = LF ->
  (match init with Some st0 => nth v st0 LU = LF | None => False end) \/
  exists c, In c (nth v (off_rows S) []) /\ nth c st LU = LC.
Proof. apply rs_fine_has_coarse. Qed.

Example C13_rs_fine_has_coarse_nonvacuous :
  split_rs [[0; 1]; [1; 0; 2]; [2; 1]] = [LF; LC; LF].
Proof. reflexivity. Qed.

Print Assumptions C13_split_ok_sound.
Print Assumptions C13_rs_fine_has_coarse.
