(* C13 — Coarse/fine splittings are total, agreed between processes and usable.
   Property-level theorems only; each is closed by a lemma from Amg/Split*Proofs.v.
   S is the strength pattern (CSR rows of column indices as stored); off_rows S are the rows as the
   library's loops see them (after move_diag, leading diagonal entry skipped).
   Labels: LC coarse (Selected 1), LF fine (Unselected 0), LN isolated (NoNeighbors -2), LU unassigned (-1). *)
From Coq Require Import List Arith Lia Bool.
Import ListNotations.
From Raptor Require Import Amg.Split Amg.SplitProofs Amg.SplitMisProofs Amg.SplitRsProofs Amg.SplitRsTotal2.

(* The checker run on every gathered output of the library (all routines, sequential and distributed)
   decides the property's clauses. *)
Theorem C13_split_ok_sound (rs : bool) (S : graph) (st : list label) : split_ok rs S st = true ->
  let R := off_rows S in
  length st = length S /\
  (forall v, v < length S ->
     nth v st LU = LC \/ nth v st LU = LF \/ (nth v st LU = LN /\ nth v R [] = [])) /\
  (rs = true ->
     (forall v, v < length S -> nth v st LU = LF -> nth v R [] <> [] ->
        exists c, In c (nth v R []) /\ nth c st LU = LC) /\
     ((exists u t, In t (nth u R []) /\ nth t R [] <> []) ->
        (exists c, c < length S /\ nth c st LU = LC) /\ (exists f, f < length S /\ nth f st LU = LF))).
Proof. apply split_ok_sound. Qed.

Example C13_split_ok_sound_nonvacuous :
  split_ok true [[0; 1]; [1; 0]] [LF; LC] = true /\ split_ok true [[0; 1]; [1; 0]] [LC; LC] = false.
Proof. split; reflexivity. Qed.

(* Ruge-Stuben (both passes or the first only, with or without states supplied by the caller, for ALL
   patterns): a point is fine on exit only if the caller passed it in as fine or it strongly depends on
   a coarse point. *)
Theorem C13_rs_fine_has_coarse (S : graph) (init : option (list label)) (second : bool) (v : nat) :
  (match init with Some st0 => length st0 = length S | None => True end) ->
  let st := split_rs_gen S init second in
  nth v st LU = LF ->
  (match init with Some st0 => nth v st0 LU = LF | None => False end) \/
  exists c, In c (nth v (off_rows S) []) /\ nth c st LU = LC.
Proof. apply rs_fine_has_coarse. Qed.

Example C13_rs_fine_has_coarse_nonvacuous :
  split_rs [[0; 1]; [1; 0; 2]; [2; 1]] = [LF; LC; LF].
Proof. reflexivity. Qed.

(* Ruge-Stuben is total, for ALL patterns whose column indices are in range and whose stored rows have no
   duplicate entry (what the code itself needs: the in-degree indexes weight_sizes[]).  With or without
   caller-supplied states (the distributed entry points pass NoNeighbors / Unassigned), one or two passes:
   every point that enters unassigned leaves coarse or fine; every other point keeps its label, except that the
   second pass may promote a fine point to coarse.  The proof is the bucket invariant of rs_first_pass
   (weight_idx_to_col / col_to_weight_idx inverse permutations, weight classes = ordered intervals below the
   cursor, only assigned vertices at or above the cursor). *)
Theorem C13_rs_total (G : graph) (init : option (list label)) (second : bool) :
  graph_wfb G = true -> rows_nodup G ->
  (match init with Some st0 => length st0 = length G | None => True end) ->
  let st0 := match init with Some s => s | None => repeat LU (length G) end in
  let st := split_rs_gen G init second in
  length st = length G /\
  forall v, v < length G ->
    (nth v st0 LU = LU -> nth v st LU = LC \/ nth v st LU = LF) /\
    (nth v st0 LU <> LU -> nth v st LU = nth v st0 LU \/ (nth v st0 LU = LF /\ nth v st LU = LC)).
Proof. intros Hwf Hnd. apply rs_total; [exact Hwf|apply in_degree_bound; assumption]. Qed.

(* Sequential split_rs: every point is coarse or fine, and as soon as the pattern has one off-diagonal entry
   at least one point is coarse and at least one is fine (the property asks this only when the target of the
   edge has a dependency of its own). *)
Theorem C13_rs_total_and_usable (G : graph) :
  graph_wfb G = true -> rows_nodup G ->
  (length (split_rs G) = length G /\
   forall v, v < length G -> nth v (split_rs G) LU = LC \/ nth v (split_rs G) LU = LF) /\
  ((exists u t, In t (nth u (off_rows G) [])) ->
   (exists c, c < length G /\ nth c (split_rs G) LU = LC) /\ (exists f, f < length G /\ nth f (split_rs G) LU = LF)).
Proof.
  intros Hwf Hnd. destruct (rs_seq_total_and_usable G Hwf (in_degree_bound G Hwf Hnd)) as [A B].
  split; [exact A|]. intros He. apply B; [apply off_rows_noself; exact Hnd|exact He].
Qed.

Example C13_rs_total_nonvacuous :
  let G := [[0; 1]; [1; 0; 2]; [2; 1]] in
  graph_wfb G = true /\ rows_nodup G /\ (exists u t, In t (nth u (off_rows G) [])) /\ split_rs G = [LF; LC; LF].
Proof.
  cbv zeta. split; [reflexivity|]. split.
  - intros i. destruct i as [|[|[|i]]]; cbn [nth].
    + constructor; [simpl; intuition lia|]. constructor; [simpl; intuition lia|constructor].
    + constructor; [simpl; intuition lia|]. constructor; [simpl; intuition lia|]. constructor; [simpl; intuition lia|constructor].
    + constructor; [simpl; intuition lia|]. constructor; [simpl; intuition lia|constructor].
    + destruct i; constructor.
  - split; [exists 0, 1; vm_compute; auto|reflexivity].
Qed.

(* CLJP and PMIS with ANY caller-supplied weights over an ordered carrier: every round assigns at least the
   maximal unassigned vertex, so n rounds of fuel suffice (termination) and every point ends coarse or fine. *)
Section C13_MIS.
Variable F : Type.
Variables (zero one : F) (add sub : F -> F -> F).
Variable ltb : F -> F -> bool.
Hypothesis ltb_trans : forall a b c, ltb a b = true -> ltb b c = true -> ltb a c = true.
Hypothesis ltb_irrefl : forall a, ltb a a = false.
Hypothesis lt01 : ltb zero one = true.

Theorem C13_cljp_terminates_total (S : graph) (keys : list F) :
  graph_wfb S = true -> length keys = length S ->
  exists st, split_cljp zero one add sub ltb S keys (length S) = Some st /\
             length st = length S /\ forall v, v < length S -> nth v st LU = LC \/ nth v st LU = LF.
Proof. apply split_cljp_total; assumption. Qed.

Theorem C13_pmis_terminates_total (S : graph) (keys : list F) :
  graph_wfb S = true -> length keys = length S ->
  exists st, split_pmis zero one add ltb S keys (length S) = Some st /\
             length st = length S /\ forall v, v < length S -> nth v st LU = LC \/ nth v st LU = LF.
Proof. apply split_pmis_total; assumption. Qed.
End C13_MIS.

Example C13_mis_nonvacuous :
  graph_wfb [[0; 1]; [1; 0; 2]; [2; 1]] = true /\
  split_pmis 0 1 Nat.add Nat.ltb [[0; 1]; [1; 0; 2]; [2; 1]] [0; 0; 0] 3 = Some [LF; LC; LF].
Proof. split; reflexivity. Qed.

Print Assumptions C13_split_ok_sound.
Print Assumptions C13_rs_fine_has_coarse.
Print Assumptions C13_rs_total.
Print Assumptions C13_rs_total_and_usable.
Print Assumptions C13_cljp_terminates_total.
Print Assumptions C13_pmis_terminates_total.
