(* C13 — Coarse/fine splittings are total, agreed between processes and usable.
   Property-level theorems only; each is closed by a lemma from Amg/Split*Proofs.v.
   S is the strength pattern (CSR rows of column indices as stored); off_rows S are the rows as the
   library's loops see them (after move_diag, leading diagonal entry skipped).
   Labels: LC coarse (Selected 1), LF fine (Unselected 0), LN isolated (NoNeighbors -2), LU unassigned (-1). *)
From Coq Require Import List Arith Lia Bool.
Import ListNotations.
From Raptor Require Import Amg.Split Amg.SplitProofs Amg.SplitMisProofs Amg.SplitRsProofs Amg.SplitRsTotal2
  Amg.SplitPar Amg.SplitParProofs.

(* The checker run on every gathered output of the library (all routines, sequential and distributed)
   decides the property's clauses. *)
Theorem C13_split_ok_sound (rs : bool) (S : graph) (st : list label) : split_ok rs S st = true ->
  let R := off_rows S in
  length st = length S /\
  (forall v, v < length S ->
     nth v st LU = LC \/ nth v st LU = LF \/ (nth v st LU = LN /\ nth v R [] = [])) /\
  (rs = true ->
     (forall v, v < length S -> nth v st LU = LF -> nth v R [] <> [] ->
        exists c, In c (nth v R []) /\ nth c st LU = LC) /\
     ((exists u t, In t (nth u R []) /\ nth t R [] <> []) ->
        (exists c, c < length S /\ nth c st LU = LC) /\ (exists f, f < length S /\ nth f st LU = LF))).
Proof. apply split_ok_sound. Qed.

Example C13_split_ok_sound_nonvacuous :
  split_ok true [[0; 1]; [1; 0]] [LF; LC] = true /\ split_ok true [[0; 1]; [1; 0]] [LC; LC] = false.
Proof. split; reflexivity. Qed.

(* Ruge-Stuben (both passes or the first only, with or without states supplied by the caller, for ALL
   patterns): a point is fine on exit only if the caller passed it in as fine or it strongly depends on
   a coarse point. *)
Theorem C13_rs_fine_has_coarse (S : graph) (init : option (list label)) (second : bool) (v : nat) :
  (match init with Some st0 => length st0 = length S | None => True end) ->
  let st := split_rs_gen S init second in
  nth v st LU = LF ->
  (match init with Some st0 => nth v st0 LU = LF | None => False end) \/
  exists c, In c (nth v (off_rows S) []) /\ nth c st LU = LC.
Proof. apply rs_fine_has_coarse. Qed.

Example C13_rs_fine_has_coarse_nonvacuous :
  split_rs [[0; 1]; [1; 0; 2]; [2; 1]] = [LF; LC; LF].
Proof. reflexivity. Qed.

(* Ruge-Stuben is total, for ALL patterns whose column indices are in range and whose stored rows have no
   duplicate entry (what the code itself needs: the in-degree indexes weight_sizes[]).  With or without
   caller-supplied states (the distributed entry points pass NoNeighbors / Unassigned), one or two passes:
   every point that enters unassigned leaves coarse or fine; every other point keeps its label, except that the
   second pass may promote a fine point to coarse.  The proof is the bucket invariant of rs_first_pass
   (weight_idx_to_col / col_to_weight_idx inverse permutations, weight classes = ordered intervals below the
   cursor, only assigned vertices at or above the cursor). *)
Theorem C13_rs_total (G : graph) (init : option (list label)) (second : bool) :
  graph_wfb G = true -> rows_nodup G ->
  (match init with Some st0 => length st0 = length G | None => True end) ->
  let st0 := match init with Some s => s | None => repeat LU (length G) end in
  let st := split_rs_gen G init second in
  length st = length G /\
  forall v, v < length G ->
    (nth v st0 LU = LU -> nth v st LU = LC \/ nth v st LU = LF) /\
    (nth v st0 LU <> LU -> nth v st LU = nth v st0 LU \/ (nth v st0 LU = LF /\ nth v st LU = LC)).
Proof. intros Hwf Hnd. apply rs_total; [exact Hwf|apply in_degree_bound; assumption]. Qed.

(* Sequential split_rs: every point is coarse or fine, and as soon as the pattern has one off-diagonal entry
   at least one point is coarse and at least one is fine (the property asks this only when the target of the
   edge has a dependency of its own). *)
Theorem C13_rs_total_and_usable (G : graph) :
  graph_wfb G = true -> rows_nodup G ->
  (length (split_rs G) = length G /\
   forall v, v < length G -> nth v (split_rs G) LU = LC \/ nth v (split_rs G) LU = LF) /\
  ((exists u t, In t (nth u (off_rows G) [])) ->
   (exists c, c < length G /\ nth c (split_rs G) LU = LC) /\ (exists f, f < length G /\ nth f (split_rs G) LU = LF)).
Proof.
  intros Hwf Hnd. destruct (rs_seq_total_and_usable G Hwf (in_degree_bound G Hwf Hnd)) as [A B].
  split; [exact A|]. intros He. apply B; [apply off_rows_noself; exact Hnd|exact He].
Qed.

Example C13_rs_total_nonvacuous :
  let G := [[0; 1]; [1; 0; 2]; [2; 1]] in
  graph_wfb G = true /\ rows_nodup G /\ (exists u t, In t (nth u (off_rows G) [])) /\ split_rs G = [LF; LC; LF].
Proof.
  cbv zeta. split; [reflexivity|]. split.
  - intros i. destruct i as [|[|[|i]]]; cbn [nth].
    + constructor; [simpl; intuition lia|]. constructor; [simpl; intuition lia|constructor].
    + constructor; [simpl; intuition lia|]. constructor; [simpl; intuition lia|]. constructor; [simpl; intuition lia|constructor].
    + constructor; [simpl; intuition lia|]. constructor; [simpl; intuition lia|constructor].
    + destruct i; constructor.
  - split; [exists 0, 1; vm_compute; auto|reflexivity].
Qed.

(* CLJP and PMIS with ANY caller-supplied weights over an ordered carrier: every round assigns at least the
   maximal unassigned vertex, so n rounds of fuel suffice (termination) and every point ends coarse or fine. *)
Section C13_MIS.
Variable F : Type.
Variables (zero one : F) (add sub : F -> F -> F).
Variable ltb : F -> F -> bool.
Hypothesis ltb_trans : forall a b c, ltb a b = true -> ltb b c = true -> ltb a c = true.
Hypothesis ltb_irrefl : forall a, ltb a a = false.
Hypothesis lt01 : ltb zero one = true.

Theorem C13_cljp_terminates_total (S : graph) (keys : list F) :
  graph_wfb S = true -> length keys = length S ->
  exists st, split_cljp zero one add sub ltb S keys (length S) = Some st /\
             length st = length S /\ forall v, v < length S -> nth v st LU = LC \/ nth v st LU = LF.
Proof. apply split_cljp_total; assumption. Qed.

Theorem C13_pmis_terminates_total (S : graph) (keys : list F) :
  graph_wfb S = true -> length keys = length S ->
  exists st, split_pmis zero one add ltb S keys (length S) = Some st /\
             length st = length S /\ forall v, v < length S -> nth v st LU = LC \/ nth v st LU = LF.
Proof. apply split_pmis_total; assumption. Qed.
End C13_MIS.

Example C13_mis_nonvacuous :
  graph_wfb [[0; 1]; [1; 0; 2]; [2; 1]] = true /\
  split_pmis 0 1 Nat.add Nat.ltb [[0; 1]; [1; 0; 2]; [2; 1]] [0; 0; 0] 3 = Some [LF; LC; LF].
Proof. split; reflexivity. Qed.

(* Distributed Ruge-Stuben (split_rs on a ParCSRMatrix = sequential RS on each rank's diagonal block after
   set_initial_states), for every block of every partition: points left unassigned by set_initial_states end
   coarse or fine, NoNeighbors points keep their label, a fine point has a coarse neighbour inside the block.
   (The ">= 1 fine" clause is false for this routine when every edge crosses ranks: known finding.) *)
Theorem C13_par_rs_block (S : graph) (b : nat * nat) (st0 : list label) (second : bool) :
  rows_nodup S -> fst b + snd b <= length S -> length st0 = length S ->
  (forall v, nth v st0 LU = LU \/ nth v st0 LU = LN) ->
  let G := local_graph S b in
  let init := firstn (snd b) (skipn (fst b) st0) in
  let st := split_rs_gen G (Some init) second in
  length st = snd b /\
  forall i, i < snd b ->
    (nth i init LU = LU -> nth i st LU = LC \/ nth i st LU = LF) /\
    (nth i init LU = LN -> nth i st LU = LN) /\
    (nth i st LU = LF -> exists c, In c (nth i (off_rows G) []) /\ nth c st LU = LC).
Proof. apply par_rs_block. Qed.

Example C13_par_rs_nonvacuous :
  par_split_rs [[0; 1]; [0; 1; 2]; [1; 2]; [3]] [2; 2] = [LF; LC; LC; LN].
Proof. reflexivity. Qed.

(* Distributed PMIS, for EVERY contiguous partition (empty ranks included) and any caller-supplied weights:
   the agreement invariant.  The model returns None as soon as a conditional exchange would select different
   positions on the two sides (a truncated message or a hang in the library) or the fuel runs out; the theorem
   says it returns Some: no exchange ever disagrees, n further passes suffice on every rank, every point is
   coarse, fine or (exactly when set_initial_states said so) NoNeighbors, and every rank's final off_proc_states
   equal the owners' labels.
   PARTIAL with respect to the property: equality of these labels with the sequential split_pmis labels is not
   proved here (it is false in general, see C13_par_pmis_equals_seq_refuted, and holds in every tested case
   without a strong edge into an isolated vertex: differential check in props/C13.py, exhaustive on <= 4
   vertices in the thorough tier). *)
Section C13_PAR.
Variable F : Type.
Variables (zero one : F) (add : F -> F -> F).
Variable ltb : F -> F -> bool.
Hypothesis ltb_trans : forall a b c, ltb a b = true -> ltb b c = true -> ltb a c = true.
Hypothesis ltb_irrefl : forall a, ltb a a = false.
Hypothesis lt01 : ltb zero one = true.

Theorem C13_par_pmis_agreement_partial (S : graph) (part : list nat) (keys : list F) :
  graph_wfb S = true -> list_sum part = length S -> length keys = length S ->
  let bs := block_starts 0 part in
  let st0 := initial_states S bs in
  exists st,
    par_split_pmis zero one add ltb S part keys (length S) =
      Some (map (fun b => map (fun g => nth g st LU) (colmap (off_rows S) b)) bs, st) /\
    length st = length S /\
    forall v, v < length S ->
      (nth v st0 LU = LU /\ (nth v st LU = LC \/ nth v st LU = LF)) \/ (nth v st0 LU = LN /\ nth v st LU = LN).
Proof. apply par_split_pmis_agreement; assumption. Qed.
End C13_PAR.

Example C13_par_pmis_nonvacuous :
  par_split_pmis 0 1024 Nat.add Nat.ltb [[0; 1]; [0; 1; 2]; [1; 2]] [1; 0; 2] [300; 100; 200] 3
  = Some ([[LC]; []; [LF]], [LF; LC; LF]).
Proof. vm_compute. reflexivity. Qed.

(* The literal clause "distributed PMIS labels of non-isolated points = sequential labels" is false of the
   faithful models (and of the library: known finding KF-C13-pmis-dep-on-isolated): vertex 1 depends on the
   isolated vertex 0; sequentially 0 becomes coarse and 1 fine, in the distributed routine 0 is NoNeighbors and 1
   becomes coarse - already on one rank.  Weights are k/1024 written as integers with one = 1024. *)
Lemma C13_par_pmis_equals_seq_refuted :
  exists (S : graph) (part : list nat) (keys : list nat) (v : nat) views st_par st_seq,
    graph_wfb S = true /\ list_sum part = length S /\
    nth v (off_rows S) [] <> [] /\
    par_split_pmis 0 1024 Nat.add Nat.ltb S part keys (length S) = Some (views, st_par) /\
    split_pmis 0 1024 Nat.add Nat.ltb S keys (length S) = Some st_seq /\
    nth v st_par LU <> nth v st_seq LU.
Proof.
  exists [[0]; [1; 0]; [2; 1]], [3], [300; 100; 200], 1, [[]], [LN; LC; LF], [LC; LF; LF].
  repeat split; try reflexivity; vm_compute; discriminate.
Qed.

Print Assumptions C13_split_ok_sound.
Print Assumptions C13_rs_fine_has_coarse.
Print Assumptions C13_rs_total.
Print Assumptions C13_rs_total_and_usable.
Print Assumptions C13_cljp_terminates_total.
Print Assumptions C13_pmis_terminates_total.
Print Assumptions C13_par_rs_block.
Print Assumptions C13_par_pmis_agreement_partial.
