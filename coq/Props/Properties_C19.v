(* C19 — Generated and stored matrices mean what their description says.
   Property-level theorems only; each is closed by a lemma of Gallery/*Proofs.v / StencilThm.v.

   Stencil generators (full proof, every dimension count, every extent >= 1, every process count / partition).
   Conventions: grid point p has coordinates `coords grid p` (last dimension fastest); `offset_between grid a b`
   is coord b - coord a; `stencil_weight st o` is the stencil entry of the offset vector o (C order, 3^dim
   entries) and zero outside {-1,0,1}^dim; `dropw` discards weights with |w| <= zero_tol (`big w = false`),
   as the code does; `den_csr A i j` is the sum of the stored values of A at (i,j).

   What the theorem needs, precisely.  The emission loop pairs the diagonal offset of the d-th non-zero stencil
   entry with the value (and the boundary mask) of the (N_s-1-d)-th one.  This is the mirrored entry exactly when
   the ZERO PATTERN is centrally symmetric (`pattern_symmetric`: |st[t]| > tol <-> |st[3^dim-1-t]| > tol).
   Under that hypothesis alone the result is  A(i,j) = weight(coord i - coord j), i.e. the TRANSPOSE of the
   matrix "entry (i,j) = weight of coord j - coord i"; the two coincide when the VALUES are centrally symmetric
   (`value_symmetric`), which is the case of the property statement ("all symmetric stencils").  Without
   pattern symmetry the result is neither (C19_stencil_nonsymmetric_pattern_refuted).

   File formats (names end in _partial).  The theorems are about the token-level model of Gallery/MMFormat.v:
   a coordinate file is its banner flag, size line and 1-based triples; a PETSc file is its header and three
   arrays.  NOT covered (the partial part): libc fprintf/fscanf/fread and byte order (`show`, `parse` abstract:
   a value v comes back as parse (show v)), and ParMatrix::finalize / to_ParCSR after the distributed readers
   (sort, summing of duplicates, column renumbering: C07/C18) - a distributed result is the operator represented
   by the entries each process hands to on_proc / off_proc.  Those parts are tied by the correspondence runs. *)
From Coq Require Import ZArith.
From Raptor Require Import Base.Sums Sparse.Defs Gallery.Stencil Gallery.StencilProofs Gallery.StencilThm
  Gallery.MMFormat Gallery.MMProofs.

Section C19.
Variable F : Type.
Variables (zero one : F) (add mul sub : F -> F -> F) (opp : F -> F).
Variable Fth : ring_theory zero one add mul sub opp (@eq F).
Variable big : F -> bool.                      (* fabs(v) > zero_tol *)
Hypothesis big_zero : big zero = false.

Notation denCsr := (den_csr F zero add).
Notation sgrid := (stencil_grid F zero big).
Notation dropW := (dropw F zero big).
Notation weight := (stencil_weight F zero).
Definition extents_ok (grid : list nat) : Prop := Forall (fun x => 0 < x) grid.

(* shape, and every stored column index is in range *)
Theorem C19_stencil_shape (st : list F) (grid : list nat) :
  csr_nr (sgrid st grid) = nprod grid /\ csr_nc (sgrid st grid) = nprod grid /\ csr_wf (sgrid st grid).
Proof. split; [reflexivity|split; [reflexivity|apply stencil_grid_wf]]. Qed.

(* every write of the boundary-zeroing loops stays inside the row of `data` it is meant for *)
Theorem C19_stencil_writes_in_range (grid : list nat) (o : list Z) (p : nat) :
  extents_ok grid -> In p (seq_zero_pos (nprod grid) grid o) -> p < nprod grid.
Proof. intros Hg. apply (seq_zero_pos_lt (nprod grid) grid o 1 p Hg). lia. Qed.

(* symmetric zero pattern: entry (i,j) is the retained weight of coord i - coord j, zero boundary conditions *)
Theorem C19_stencil_entry (st : list F) (grid : list nat) (i j : nat) :
  extents_ok grid -> pattern_symmetric F zero big st (length grid) ->
  denCsr (sgrid st grid) i j =
  if (i <? nprod grid) && (j <? nprod grid) then dropW (weight st (offset_between grid j i)) else zero.
Proof. intros Hg Hs. apply (stencil_grid_entry F zero one add mul sub opp Fth big big_zero); assumption. Qed.

(* ... and no position is stored twice, so the stored value at (i,j) IS that weight *)
Theorem C19_stencil_rows_nodup (st : list F) (grid : list nat) (r : list (nat * F)) :
  extents_ok grid -> pattern_symmetric F zero big st (length grid) ->
  In r (csr_rows (sgrid st grid)) -> NoDup (map fst r).
Proof. intros Hg Hs. apply (stencil_rows_nodup F zero big big_zero st grid Hg Hs). Qed.

(* symmetric values (the property's case): entry (i,j) is the retained weight of coord j - coord i *)
Theorem C19_stencil_entry_symmetric (st : list F) (grid : list nat) (i j : nat) :
  extents_ok grid -> value_symmetric F zero st (length grid) ->
  denCsr (sgrid st grid) i j =
  if (i <? nprod grid) && (j <? nprod grid) then dropW (weight st (offset_between grid i j)) else zero.
Proof. intros Hg Hs. apply (stencil_grid_entry_symmetric F zero one add mul sub opp Fth big big_zero); assumption. Qed.

(* ... so with symmetric values the generated matrix is symmetric, and in general it is the transpose of the
   matrix generated from the mirrored stencil *)
Theorem C19_stencil_transpose (st : list F) (grid : list nat) (i j : nat) :
  extents_ok grid -> pattern_symmetric F zero big st (length grid) ->
  denCsr (sgrid st grid) j i =
  if (i <? nprod grid) && (j <? nprod grid) then dropW (weight st (offset_between grid i j)) else zero.
Proof.
  intros Hg Hs. rewrite (stencil_grid_entry F zero one add mul sub opp Fth big big_zero) by assumption.
  rewrite andb_comm. reflexivity.
Qed.

(* the distributed generator: each process builds exactly its block of rows of the sequential matrix, for every
   window inside the grid ... *)
Theorem C19_par_stencil_rank_rows (st : list F) (grid : list nat) (first n : nat) :
  extents_ok grid -> first + n <= nprod grid ->
  par_stencil_rank F zero big st grid first n = firstn n (skipn first (csr_rows (sgrid st grid))).
Proof. intros Hg Hw. apply par_stencil_rank_rows; assumption. Qed.

(* ... hence the gathered matrix is the sequential one for every process count and every contiguous partition
   (empty blocks included); no symmetry hypothesis is needed for this *)
Theorem C19_par_stencil_equals_sequential (st : list F) (grid : list nat) (blocks : list nat) :
  extents_ok grid -> nsum blocks = nprod grid ->
  par_stencil_gathered F zero big st grid blocks = sgrid st grid.
Proof. intros Hg Hb. apply par_stencil_gathered_eq; assumption. Qed.

(* the library's own stencil makers produce centrally symmetric stencils of the right length, so
   C19_stencil_entry_symmetric applies to them *)
Theorem C19_makers_symmetric (of_nat : nat -> F) (sixth : F -> F) (eps C S : F) :
  (value_symmetric F zero (diffusion_stencil_2d F one add mul sub opp of_nat sixth eps C S) 2 /\
   length (diffusion_stencil_2d F one add mul sub opp of_nat sixth eps C S) = 3 ^ 2) /\
  (value_symmetric F zero (laplace_stencil_27pt F one opp of_nat) 3 /\
   length (laplace_stencil_27pt F one opp of_nat) = 3 ^ 3).
Proof.
  split; [exact (diffusion_stencil_symmetric F zero one add mul sub opp of_nat sixth eps C S)
        |exact (laplace27_symmetric F zero one add mul sub opp of_nat sixth)].
Qed.

(* ---------------- file formats ---------------- *)
Variables show parse : F -> F.
Notation denCoo := (den_coo F zero add).

(* write_mm then read_mm: same dimensions, and every stored value v comes back as parse (show v), entries whose
   read value is below zero_tol being dropped (explicit zeros) *)
Theorem C19_mm_round_trip_partial (A : csr F) : csr_wf A ->
  exists B, read_mm F big parse (write_mm F show A) = Some B /\
            csr_nr B = csr_nr A /\ csr_nc B = csr_nc A /\
            forall i j, denCsr B i j = denCsr (csr_mapv F (fun v => dropW (rt F show parse v)) A) i j.
Proof. apply (read_write_mm F zero one add mul sub opp Fth). Qed.

(* write_par_mm (any number of processes, any row blocks) then read_mm: the global operator of the distributed
   matrix, values through parse . show *)
Theorem C19_mm_par_write_round_trip_partial (nr nc : nat)
        (ranks : list (nat * list (list (nat * F)) * list (list (nat * F)))) :
  exists A, read_mm_coo F big parse (write_par_mm F show nr nc ranks) = Some A /\
            coo_nr A = nr /\ coo_nc A = nc /\
            forall i j, denCoo A i j = par_den F zero add ranks (fun v => dropW (rt F show parse v)) i j.
Proof. apply (read_write_par_mm F zero one add mul sub opp Fth). Qed.

(* both Matrix Market readers honour the banner, and the distributed reader assembles the same global matrix as
   the sequential one for every process count and every partition whose row blocks tile the rows (general
   banner: any column blocks; symmetric banner: square matrix, column blocks = row blocks, as the default
   partition gives).  mm_expand = the triples as listed, off-diagonal ones mirrored when the banner is symmetric *)
Theorem C19_mm_readers_agree_partial (f : mmfile F) (parts : list (nat * nat * nat * nat)) :
  mm_wf F f -> rows_tile parts (mm_nr f) ->
  (mm_sym f = true -> mm_nc f = mm_nr f /\ square_parts parts) ->
  length (mm_ents f) >= mm_nz f ->
  exists B, read_mm F big parse f = Some B /\ csr_nr B = mm_nr f /\ csr_nc B = mm_nc f /\
    forall i j, denCoo (read_par_mm F big parse f parts) i j = denCsr B i j /\
                denCsr B i j = den_ents F zero add (mm_expand F big parse f) i j.
Proof. apply (read_par_mm_eq_read_mm_csr F zero one add mul sub opp Fth). Qed.

(* PETSc binary: the distributed reader returns, block by block, exactly the rows of the sequential reader, for
   every process count and every contiguous row partition (empty blocks included) *)
Theorem C19_petsc_readers_agree_partial (f : petsc F) (blocks : list nat) :
  petsc_wf F f -> nsum blocks = p_nr f ->
  readParMatrix_gathered F f (windows 0 blocks) = Some (readMatrix F f).
Proof. apply readParMatrix_eq_readMatrix. Qed.

End C19.

(* ---- instances: hypotheses are satisfiable, results non-trivial; the statement without pattern symmetry is false ---- *)
Definition Zbig (v : Z) : bool := negb (Z.eqb v 0).
Definition five_point : list Z := [0; -1; 0; -1; 4; -1; 0; -1; 0]%Z.

Example C19_stencil_entry_nonvacuous :
  extents_ok [2; 3] /\ pattern_symmetric Z 0%Z Zbig five_point 2 /\ value_symmetric Z 0%Z five_point 2 /\
  Zbig 0%Z = false /\
  den_csr Z 0%Z Z.add (stencil_grid Z 0%Z Zbig five_point [2; 3]) 2 5 = (-1)%Z /\
  den_csr Z 0%Z Z.add (stencil_grid Z 0%Z Zbig five_point [2; 3]) 2 3 = 0%Z /\
  den_csr Z 0%Z Z.add (stencil_grid Z 0%Z Zbig five_point [2; 3]) 4 4 = 4%Z.
Proof.
  split; [repeat constructor|].
  split; [intros t Ht; simpl in Ht; do 9 (destruct t as [|t]; [reflexivity|]); lia|].
  split; [intros t Ht; simpl in Ht; do 9 (destruct t as [|t]; [reflexivity|]); lia|].
  repeat split; vm_compute; reflexivity.
Qed.

(* pattern-symmetric but not value-symmetric: the result is the transpose of the pyamg convention *)
Example C19_stencil_transpose_nonvacuous :
  pattern_symmetric Z 0%Z Zbig [1; 2; 3]%Z 1 /\
  den_csr Z 0%Z Z.add (stencil_grid Z 0%Z Zbig [1; 2; 3]%Z [3]) 0 1 = 1%Z /\
  stencil_weight Z 0%Z [1; 2; 3]%Z (offset_between [3] 0 1) = 3%Z /\
  stencil_weight Z 0%Z [1; 2; 3]%Z (offset_between [3] 1 0) = 1%Z.
Proof.
  split; [intros t Ht; simpl in Ht; do 3 (destruct t as [|t]; [reflexivity|]); lia|].
  repeat split; vm_compute; reflexivity.
Qed.

(* without a symmetric zero pattern the entry is the weight of neither direction *)
Lemma C19_stencil_nonsymmetric_pattern_refuted :
  exists (st : list Z) (grid : list nat) (i j : nat),
    extents_ok grid /\ i < nprod grid /\ j < nprod grid /\
    den_csr Z 0%Z Z.add (stencil_grid Z 0%Z Zbig st grid) i j
      <> dropw Z 0%Z Zbig (stencil_weight Z 0%Z st (offset_between grid j i)) /\
    den_csr Z 0%Z Z.add (stencil_grid Z 0%Z Zbig st grid) i j
      <> dropw Z 0%Z Zbig (stencil_weight Z 0%Z st (offset_between grid i j)).
Proof.
  exists [1; 2; 0]%Z, [3], 0, 0. split; [repeat constructor|]. split; [simpl; lia|]. split; [simpl; lia|].
  split; vm_compute; discriminate.
Qed.

Example C19_par_stencil_nonvacuous :
  extents_ok [4; 1] /\ nsum [2; 0; 1; 1] = nprod [4; 1] /\
  par_stencil_gathered Z 0%Z Zbig [1;1;1;1;1;1;1;1;1]%Z [4; 1] [2; 0; 1; 1] =
  stencil_grid Z 0%Z Zbig [1;1;1;1;1;1;1;1;1]%Z [4; 1] /\
  den_csr Z 0%Z Z.add (stencil_grid Z 0%Z Zbig [1;1;1;1;1;1;1;1;1]%Z [4; 1]) 1 2 = 1%Z.
Proof. split; [repeat constructor|]. repeat split; vm_compute; reflexivity. Qed.

(* a symmetric-banner file on three processes (one without rows): hypotheses hold, the mirrored entry appears once,
   the diagonal once *)
Definition zid (x : Z) : Z := x.
Definition sym_file : mmfile Z := mkMM true 2 2 2 [(1, 1, 3%Z); (2, 1, 5%Z)].
Definition sym_parts : list (nat * nat * nat * nat) := [(0, 1, 0, 1); (1, 1, 1, 1); (2, 0, 2, 0)].
Example C19_mm_readers_agree_nonvacuous :
  mm_wf Z sym_file /\ rows_tile sym_parts (mm_nr sym_file) /\
  (mm_sym sym_file = true -> mm_nc sym_file = mm_nr sym_file /\ square_parts sym_parts) /\
  length (mm_ents sym_file) >= mm_nz sym_file /\
  den_coo Z 0%Z Z.add (read_par_mm Z Zbig zid sym_file sym_parts) 0 1 = 5%Z /\
  den_coo Z 0%Z Z.add (read_par_mm Z Zbig zid sym_file sym_parts) 0 0 = 3%Z.
Proof.
  split.
  { intros e He. simpl in He. destruct He as [<-|[<-|[]]]; simpl; lia. }
  split; [exists [1; 1; 0]; split; reflexivity|].
  split.
  { intros _. split; [reflexivity|]. intros w Hw. simpl in Hw. destruct Hw as [<-|[<-|[<-|[]]]]; reflexivity. }
  split; [simpl; lia|]. split; vm_compute; reflexivity.
Qed.

Example C19_mm_round_trip_nonvacuous :
  csr_wf (mkCsr 2 3 [[(2, 7%Z); (0, (-1)%Z)]; []]) /\
  read_mm Z Zbig zid (write_mm Z zid (mkCsr 2 3 [[(2, 7%Z); (0, (-1)%Z)]; []])) =
  Some (mkCsr 2 3 [[(2, 7%Z); (0, (-1)%Z)]; []]).
Proof.
  split; [|vm_compute; reflexivity].
  split; [reflexivity|]. intros r Hr p Hp. simpl in Hr. destruct Hr as [<-|[<-|[]]]; simpl in Hp; [|contradiction].
  destruct Hp as [<-|[<-|[]]]; simpl; lia.
Qed.

Example C19_petsc_readers_agree_nonvacuous :
  petsc_wf Z (mkPetsc 3 4 3 [2; 0; 1] [0; 3; 1] [5; 6; 7]%Z) /\ nsum [1; 0; 2] = 3 /\
  readParMatrix_gathered Z (mkPetsc 3 4 3 [2; 0; 1] [0; 3; 1] [5; 6; 7]%Z) (windows 0 [1; 0; 2]) =
  Some (mkCsr 3 4 [[(0, 5%Z); (3, 6%Z)]; []; [(1, 7%Z)]]).
Proof. split; [repeat split|]. split; [reflexivity|vm_compute; reflexivity]. Qed.

Print Assumptions C19_stencil_shape.
Print Assumptions C19_stencil_writes_in_range.
Print Assumptions C19_stencil_entry.
Print Assumptions C19_stencil_rows_nodup.
Print Assumptions C19_stencil_entry_symmetric.
Print Assumptions C19_stencil_transpose.
Print Assumptions C19_par_stencil_rank_rows.
Print Assumptions C19_par_stencil_equals_sequential.
Print Assumptions C19_makers_symmetric.
Print Assumptions C19_mm_round_trip_partial.
Print Assumptions C19_mm_par_write_round_trip_partial.
Print Assumptions C19_mm_readers_agree_partial.
Print Assumptions C19_petsc_readers_agree_partial.
