(* C20 — Repartitioning and diagonal scaling produce equivalent linear systems.
   Property-level theorems only; each is closed by lemmas of Repart/RepartitionProofs.v / DiagScaleProofs.v.

   Model: a distributed square matrix is a list of per-rank views (Repart/Repartition.v); `gden rs i j` is the
   operator it represents (sum of the stored values at global (i,j), on- and off-process blocks alike);
   `repartition rs tm sched tau` mirrors repartition_matrix + make_contiguous for the global target map tm
   (tm[g] = new owner of old row g); sched / tau are the arrival orders of the any-source receives
   (row messages / index requests of the new package).  `invl` = new_local_rows of all ranks, concatenated
   in rank order: entry k is the OLD id of NEW row k; `pi` is its inverse (old id -> new id).            *)
From Coq Require Import Field.
From Raptor Require Import Base.Sums Sparse.Defs Repart.Repartition Repart.RUtil Repart.RepartitionProofs
     Repart.DiagScale Repart.DiagScaleProofs.

Section C20_repartition.
Variable F : Type.
Variables (zero one : F) (add mul sub : F -> F -> F) (opp : F -> F).
Variable Fth : ring_theory zero one add mul sub opp (@eq F).

Variable rs : list (rview F).            (* the matrix, any number of ranks, any contiguous partition *)
Variable tm : list nat.                  (* the target map *)
Variables sched tau : list (list nat).   (* arrival orders *)
Notation n := (length (gmat rs)).
Notation P := (length rs).
Hypothesis Hwf : pm_wf rs.
Hypothesis Htm : forall g, g < n -> tmv tm g < P.
Hypothesis Hsched : forall p, p < P -> Permutation (nth p sched []) (seq 0 P).
Hypothesis Htau : forall p, p < P -> Permutation (nth p tau []) (seq 0 P).

Notation out := (repartition rs tm sched tau).
Notation A' := (map (@ro_view F) out).
Notation gdenF := (gden F zero add).
Notation gmvF := (gmv F zero add mul).
Notation inv_ := (invl F rs tm sched tau).
Notation pi_ := (pi F rs tm sched tau).

(* new_local_rows is a permutation of the old row ids; pi is a bijection of [0,n) whose inverse it lists *)
Theorem C20_repart_permutation :
  Permutation inv_ (seq 0 n) /\
  length (gmat A') = n /\
  (forall g, g < n -> pi_ g < n) /\
  (forall g, g < n -> nth (pi_ g) inv_ 0 = g) /\
  (forall k, k < n -> nth k inv_ 0 < n /\ pi_ (nth k inv_ 0) = k).
Proof.
  split; [apply invl_perm; assumption|].
  split; [apply (out_rows F zero one add mul sub opp Fth); assumption|].
  apply pi_bijection; assumption.
Qed.

(* the new matrix is the old one with rows and columns renumbered by pi *)
Theorem C20_repart_operator :
  (forall i j, i < n -> j < n -> gdenF A' (pi_ i) (pi_ j) = gdenF rs i j) /\
  (forall i' j', i' < n -> j' < n -> gdenF A' i' j' = gdenF rs (nth i' inv_ 0) (nth j' inv_ 0)).
Proof.
  split; intros.
  - apply (repart_operator_pi F zero one add mul sub opp Fth); assumption.
  - apply (repart_operator F zero one add mul sub opp Fth); assumption.
Qed.

(* A' (pi x) = pi (A x) *)
Theorem C20_repart_product (x : list F) :
  forall i', i' < n ->
  gmvF A' (permute F zero rs tm sched tau x) i' = gmvF rs x (nth i' inv_ 0).
Proof. intros. apply (repart_product F zero one add mul sub opp Fth); assumption. Qed.

(* new block of rank p = the rows the target map names, ordered by old id; sizes = counts of the target map *)
Theorem C20_repart_blocks p :
  p < P ->
  let o := nth p out (mkRO F dv [] [] []) in
  ro_nlr o = filter (fun g => tmv tm g =? p) (seq 0 n) /\
  rv_first (ro_view o) = length (filter (fun g => tmv tm g <? p) (seq 0 n)) /\
  rv_n (ro_view o) = length (filter (fun g => tmv tm g =? p) (seq 0 n)).
Proof. intros Hp. apply repart_blocks; assumption. Qed.

(* the result does not depend on the order in which the row messages arrive ... *)
Theorem C20_repart_sched_independent sched' :
  (forall p, p < P -> Permutation (nth p sched' []) (seq 0 P)) ->
  repartition rs tm sched' tau = out.
Proof.
  intros Hs'. unfold repartition. rewrite (stage1_indep F rs tm Hwf sched' sched Hs' Hsched). reflexivity.
Qed.

(* ... and on the order of the index requests only through the order of the package's send list *)
Theorem C20_repart_tau_independent tau' :
  (forall p, p < P -> Permutation (nth p tau' []) (seq 0 P)) ->
  Forall2 (fun a b => ro_view a = ro_view b /\ ro_nlr a = ro_nlr b /\ ro_recv a = ro_recv b /\
                      Permutation (ro_send a) (ro_send b))
          out (repartition rs tm sched tau').
Proof. intros. apply repartition_tau_indep; assumption. Qed.

(* the result is again a well-formed distributed matrix (so the operations compose) *)
Theorem C20_repart_wellformed : pm_wf A'.
Proof. apply out_wf; assumption. Qed.

(* validity of the new communication package: an exchange through it delivers, for every off-process
   column of the new matrix, the entry of the global vector at that column *)
Theorem C20_repart_package_valid (xs : list (list F)) r :
  r < P -> length xs = P ->
  (forall p, p < P -> length (nth p xs []) = rv_n (new_view (stage1 rs tm sched) tau p)) ->
  exchange (stage1 rs tm sched) tau zero xs r =
  map (fun c' => nth c' (concat xs) zero) (rv_colmap (new_view (stage1 rs tm sched) tau r)).
Proof.
  intros Hr Hl Hb. apply (pkg_valid F rs tm sched tau Hwf Htm Hsched Htau zero xs r Hr Hl).
  intros p Hp. rewrite Hb by exact Hp. rewrite new_view_n. unfold nlr. rewrite map_length. reflexivity.
Qed.

(* ParCSRMatrix::mult with the new matrix through that package computes the represented product *)
Theorem C20_repart_mult_through_package (xs : list (list F)) p i :
  length xs = P -> (forall q, q < P -> length (nth q xs []) = rv_n (new_view (stage1 rs tm sched) tau q)) ->
  p < P -> i < rv_n (new_view (stage1 rs tm sched) tau p) ->
  nth i (nth p (par_mult F zero add mul rs tm sched tau xs) []) zero =
  gmvF A' (concat xs) (rv_first (new_view (stage1 rs tm sched) tau p) + i).
Proof. intros. apply (par_mult_correct F zero one add mul sub opp Fth); assumption. Qed.

End C20_repartition.

Section C20_scaling.
Variable F : Type.
Variables (zero one : F) (add mul sub : F -> F -> F) (opp : F -> F) (div : F -> F -> F) (inv : F -> F).
Variable Ffield : field_theory zero one add mul sub opp div inv (@eq F).
Variables (sqrt abs : F -> F).

Variable rs : list (rview F).
Notation n := (length (gmat rs)).
Notation P := (length rs).
Hypothesis Hwf : pm_wf rs.
Variables prevs bs : list (list F).     (* incoming row_scales vectors (normally empty), right-hand sides *)
Hypothesis Hprev : forall q, q < P -> rv_n (nth q rs dv) = 0 -> nth q prevs [] = [].

Notation gdenF := (gden F zero add).
Notation gmvF := (gmv F zero add mul).
Notation outD := (diagonally_scale F zero mul inv sqrt abs rs prevs bs).
Notation d_ := (dvec F zero inv sqrt abs rs prevs).      (* all row_scales, concatenated *)
Notation outR := (row_scale F zero mul inv rs bs).
Notation r_ := (rvec F zero inv rs).
Notation off_ := (off F rs).

(* (A, b) -> (D A D, D b), every entry, on- or off-process *)
Theorem C20_dscale_system :
  (forall i j, i < n -> gdenF (map fst outD) i j = mul (gdenF rs i j) (mul (nth i d_ zero) (nth j d_ zero))) /\
  (length bs = P -> (forall q, q < P -> length (nth q bs []) = rv_n (nth q rs dv)) ->
   forall i, i < n -> nth i (concat (map snd outD)) zero = mul (nth i (concat bs) zero) (nth i d_ zero)).
Proof.
  split.
  - intros. apply (dscale_operator F zero one add mul sub opp div inv Ffield); assumption.
  - intros. apply (dscale_rhs_global F zero mul inv sqrt abs); assumption.
Qed.

(* D = diag(|a_ii|^-1/2) for every row whose diagonal is stored (once) in the on-process block *)
Theorem C20_dscale_scales q k a :
  q < P -> k < rv_n (nth q rs dv) -> diag_stored F (nth q rs dv) k a -> halo_foreign F (nth q rs dv) ->
  gdenF rs (off_ q + k) (off_ q + k) = a /\
  nth (off_ q + k) d_ zero = inv (sqrt (abs (gdenF rs (off_ q + k) (off_ q + k)))).
Proof.
  intros. split.
  - apply (gden_diag F zero one add mul sub opp div inv Ffield); assumption.
  - apply (dscale_scale_value F zero one add mul sub opp div inv Ffield sqrt abs rs Hwf prevs Hprev q k a); assumption.
Qed.

(* for a non-zero diagonal the scale is invertible and the scaled diagonal has modulus one *)
Theorem C20_dscale_unit_diagonal a :
  (abs a = a \/ abs a = opp a) -> mul (sqrt (abs a)) (sqrt (abs a)) = abs a -> a <> zero ->
  inv (sqrt (abs a)) <> zero /\
  let d := inv (sqrt (abs a)) in mul (mul a (mul d d)) (mul a (mul d d)) = one.
Proof.
  intros. split.
  - apply (scale_nonzero F zero one add mul sub opp div inv Ffield); assumption.
  - apply (scaled_diag_unit F zero one add mul sub opp div inv Ffield); assumption.
Qed.

(* the code as it behaves when the first stored on-process entry of a row is not its diagonal: with a fresh
   row_scales vector the scale is 0, i.e. row and column of the scaled matrix and the rhs entry vanish *)
Theorem C20_dscale_missing_diagonal q k :
  q < P -> k < rv_n (nth q rs dv) -> nth q prevs [] = [] ->
  nth k (rv_on (nth q rs dv)) [] <> [] ->
  filter (fun e : nat * F => fst e =? k) (nth k (rv_on (nth q rs dv)) []) = [] ->
  nth (off_ q + k) d_ zero = zero.
Proof. intros. apply dscale_scale_nodiag; assumption. Qed.

(* unscaling: if y solves the scaled system in row i, diagonally_unscale(y) solves row i of the original *)
Theorem C20_dscale_unscale (ys : list (list F)) i :
  length ys = P -> (forall q, q < P -> length (nth q ys []) = rv_n (nth q rs dv)) ->
  length bs = P -> (forall q, q < P -> length (nth q bs []) = rv_n (nth q rs dv)) ->
  i < n -> nth i d_ zero <> zero ->
  gmvF (map fst outD) (concat ys) i = nth i (concat (map snd outD)) zero ->
  gmvF rs (unscaled F zero mul inv sqrt abs rs prevs ys) i = nth i (concat bs) zero.
Proof.
  intros. apply (dscale_unscale_model F zero one add mul sub opp div inv Ffield sqrt abs rs Hwf prevs bs Hprev); assumption.
Qed.

(* row scaling: (A, b) -> (D' A, D' b) with D' = diag(1/a_ii), off-process entries included *)
Theorem C20_rscale_system :
  (forall i j, i < n -> gdenF (map fst outR) i j = mul (gdenF rs i j) (nth i r_ zero)) /\
  (length bs = P -> (forall q, q < P -> length (nth q bs []) = rv_n (nth q rs dv)) ->
   forall i, i < n -> nth i (concat (map snd outR)) zero = mul (nth i (concat bs) zero) (nth i r_ zero)).
Proof.
  split.
  - intros. apply (rscale_operator F zero one add mul sub opp div inv Ffield); assumption.
  - intros. apply (rscale_rhs_global F zero mul inv); assumption.
Qed.

Theorem C20_rscale_scales q k a :
  q < P -> k < rv_n (nth q rs dv) -> diag_stored F (nth q rs dv) k a -> halo_foreign F (nth q rs dv) ->
  nth (off_ q + k) r_ zero = inv (gdenF rs (off_ q + k) (off_ q + k)).
Proof.
  intros. apply (rscale_scale_value F zero one add mul sub opp div inv Ffield rs Hwf q k a); assumption.
Qed.

Theorem C20_rscale_missing_diagonal q k :
  q < P -> k < rv_n (nth q rs dv) ->
  nth k (rv_on (nth q rs dv)) [] <> [] ->
  filter (fun e : nat * F => fst e =? k) (nth k (rv_on (nth q rs dv)) []) = [] ->
  nth (off_ q + k) r_ zero = zero.
Proof. intros. apply rscale_scale_nodiag; assumption. Qed.

End C20_scaling.

Print Assumptions C20_repart_permutation.
Print Assumptions C20_repart_operator.
Print Assumptions C20_repart_product.
Print Assumptions C20_repart_blocks.
Print Assumptions C20_repart_sched_independent.
Print Assumptions C20_repart_tau_independent.
Print Assumptions C20_repart_wellformed.
Print Assumptions C20_repart_package_valid.
Print Assumptions C20_repart_mult_through_package.
Print Assumptions C20_dscale_system.
Print Assumptions C20_dscale_scales.
Print Assumptions C20_dscale_unit_diagonal.
Print Assumptions C20_dscale_missing_diagonal.
Print Assumptions C20_dscale_unscale.
Print Assumptions C20_rscale_system.
Print Assumptions C20_rscale_scales.
Print Assumptions C20_rscale_missing_diagonal.

(* ---------------- non-vacuity: the hypotheses are satisfiable and the statements say something ---------------- *)
(* two ranks, rows {0,1} | {2}, a non-symmetric 3x3 matrix over nat values; rows 0 and 2 go to rank 1, row 1 to rank 0;
   messages arrive in reverse rank order *)
Ltac crush_in := repeat match goal with
  | H : _ \/ _ |- _ => destruct H
  | H : False |- _ => destruct H
  | H : _ = _ |- _ => progress subst
  | H : In _ _ |- _ => progress simpl in H
  end.

Definition ex_rs : list (rview nat) :=
  [ mkRV 0 [[(0, 4); (1, 1)]; [(1, 9)]] [[]; [(0, 2)]] [2];
    mkRV 2 [[(0, 16)]] [[(0, 3); (1, 5)]] [0; 1] ].
Definition ex_tm : list nat := [1; 0; 1].
Definition ex_sched : list (list nat) := [[1; 0]; [1; 0]].

Example C20_repart_nonvacuous :
  pm_wf ex_rs /\
  (forall g, g < length (gmat ex_rs) -> tmv ex_tm g < length ex_rs) /\
  (forall p, p < length ex_rs -> Permutation (nth p ex_sched []) (seq 0 (length ex_rs))) /\
  flat_map (@ro_nlr nat) (repartition ex_rs ex_tm ex_sched ex_sched) = [1; 0; 2] /\
  gmat (map (@ro_view nat) (repartition ex_rs ex_tm ex_sched ex_sched)) =
    [[(0, 9); (2, 2)]; [(1, 4); (0, 1)]; [(2, 16); (1, 3); (0, 5)]].
Proof.
  split; [|split; [|split; [|split]]].
  - split; [simpl; auto|]. apply Forall_forall. intros v Hv. simpl in Hv. destruct Hv as [<-|[<-|[]]];
      (unfold rv_wf, rv_n; simpl; repeat split; intros; crush_in; simpl; lia).
  - simpl. intros g Hg. unfold tmv, ex_tm. destruct g as [|[|[|g]]]; simpl; lia.
  - intros p Hp. simpl in Hp. destruct p as [|[|p]]; simpl; try lia; apply perm_swap.
  - vm_compute. reflexivity.
  - vm_compute. reflexivity.
Qed.

From Coq Require Import QArith Qcanon Qcabs.
Close Scope Qc_scope. Close Scope Q_scope.
Definition Qc_sqrt' (q : Qc) : Qc := Q2Qc (Qmake (Z.sqrt (Qnum (this q))) (Pos.sqrt (Qden (this q)))).
Definition Q1 : Qc := Q2Qc (Qmake (1) 1).
Definition Q4 : Qc := Q2Qc (Qmake (4) 1).
Definition Q9 : Qc := Q2Qc (Qmake (9) 1).
Definition ex_q : list (rview Qc) :=
  (mkRV 0%nat (((0%nat, Q4) :: nil) :: nil) (((0%nat, Q1) :: nil) :: nil) (1%nat :: nil)) ::
  (mkRV 1%nat (((0%nat, Qcopp Q9) :: nil) :: nil) (((0%nat, Q4) :: nil) :: nil) (0%nat :: nil)) :: nil.
Definition Q0 : Qc := Q2Qc (Qmake (0) 1).

(* scaling hypotheses hold on a 2-rank example with diagonals 4 and -9 and off-process couplings; the scales are 1/2, 1/3
   and the off-process entry (0,1) becomes 1 * (1/2 * 1/3) *)
Example C20_scaling_nonvacuous :
  pm_wf ex_q /\
  diag_stored Qc (nth 0 ex_q dv) 0 Q4 /\ halo_foreign Qc (nth 0 ex_q dv) /\
  (Qcabs Q4 = Q4 \/ Qcabs Q4 = Qcopp Q4) /\ Qcmult (Qc_sqrt' (Qcabs Q4)) (Qc_sqrt' (Qcabs Q4)) = Qcabs Q4 /\ Q4 <> Q0 /\
  dvec Qc Q0 Qcinv Qc_sqrt' Qcabs ex_q [[]; []] = [Q2Qc (Qmake (1) 2); Q2Qc (Qmake (1) 3)] /\
  gden Qc Q0 Qcplus (map fst (diagonally_scale Qc Q0 Qcmult Qcinv Qc_sqrt' Qcabs ex_q [[]; []] [[Q1]; [Q1]])) 0 1 = Q2Qc (Qmake (1) 6) /\
  rvec Qc Q0 Qcinv ex_q = [Q2Qc (Qmake (1) 4); Q2Qc (Qmake (-1) 9)].
Proof.
  split; [|split; [|split; [|split; [|split; [|split; [|split; [|split]]]]]]].
  - split; [simpl; auto|]. apply Forall_forall. intros v Hv. simpl in Hv. destruct Hv as [<-|[<-|[]]];
      (unfold rv_wf, rv_n; simpl; repeat split; intros; crush_in; simpl; lia).
  - vm_compute. reflexivity.
  - intros g Hg. simpl in Hg. destruct Hg as [<-|[]]. unfold rv_n. simpl. lia.
  - left. apply Qc_is_canon. vm_compute. reflexivity.
  - apply Qc_is_canon. vm_compute. reflexivity.
  - intros H. apply (f_equal (fun q : Qc => Qnum (this q))) in H. vm_compute in H. discriminate.
  - vm_compute. reflexivity.
  - vm_compute. reflexivity.
  - vm_compute. reflexivity.
Qed.
