(* C07 — Conversions, copies, transposes and sums preserve the represented operator.
   Property-level theorems only; each is closed by a lemma from Sparse/*Proofs.v.
   `den_X A i j` is the sum of all stored values of A at (i,j): the operator A represents. *)
From Raptor Require Import Base.Sums Sparse.Defs Sparse.ConvertProofs Sparse.SortProofs Sparse.Block Sparse.BlockProofs Sparse.BlockConvProofs Sparse.BlockDedupProofs.
From Coq Require Import Sorted.
From Raptor Require Import Sparse.CooDedupProofs.
From Raptor Require Import Dist.Comm Dist.ParMat Dist.ParConv Dist.ParConvProofs.

Section C07.
Variable F : Type.
Variables (zero one : F) (add mul sub : F -> F -> F) (opp : F -> F).
Variable Fth : ring_theory zero one add mul sub opp (@eq F).
Variable small : F -> bool.      (* |v| < 1e-16 *)

Notation denCoo := (den_coo F zero add).
Notation denCsr := (den_csr F zero add).
Notation denCsc := (den_csc F zero add).

(* the nine conversions: operator and dimensions preserved, well-formedness preserved
   (so that chains of any length compose) *)
Theorem C07_coo_to_csr (A : coo F) : coo_wf A ->
  (forall i j, denCsr (coo_to_csr A) i j = denCoo A i j) /\
  csr_nr (coo_to_csr A) = coo_nr A /\ csr_nc (coo_to_csr A) = coo_nc A /\ csr_wf (coo_to_csr A).
Proof. intros H. split; [intros; apply den_coo_to_csr; assumption|split; [reflexivity|split; [reflexivity|apply coo_to_csr_wf; exact H]]]. Qed.

Theorem C07_coo_to_csc (A : coo F) : coo_wf A ->
  (forall i j, denCsc (coo_to_csc A) i j = denCoo A i j) /\
  csc_nr (coo_to_csc A) = coo_nr A /\ csc_nc (coo_to_csc A) = coo_nc A /\ csc_wf (coo_to_csc A).
Proof. intros H. split; [intros; apply den_coo_to_csc; assumption|split; [reflexivity|split; [reflexivity|apply coo_to_csc_wf; exact H]]]. Qed.

Theorem C07_csr_to_coo (A : csr F) : csr_wf A ->
  (forall i j, denCoo (csr_to_coo A) i j = denCsr A i j) /\
  coo_nr (csr_to_coo A) = csr_nr A /\ coo_nc (csr_to_coo A) = csr_nc A /\ coo_wf (csr_to_coo A).
Proof. intros H. split; [intros; apply den_csr_to_coo|split; [reflexivity|split; [reflexivity|apply csr_to_coo_wf; exact H]]]. Qed.

Theorem C07_csc_to_coo (A : csc F) : csc_wf A ->
  (forall i j, denCoo (csc_to_coo A) i j = denCsc A i j) /\
  coo_nr (csc_to_coo A) = csc_nr A /\ coo_nc (csc_to_coo A) = csc_nc A /\ coo_wf (csc_to_coo A).
Proof. intros H. split; [intros; apply den_csc_to_coo|split; [reflexivity|split; [reflexivity|apply csc_to_coo_wf; exact H]]]. Qed.

Theorem C07_csr_to_csc (A : csr F) : csr_wf A ->
  (forall i j, denCsc (csr_to_csc A) i j = denCsr A i j) /\
  csc_nr (csr_to_csc A) = csr_nr A /\ csc_nc (csr_to_csc A) = csr_nc A /\ csc_wf (csr_to_csc A).
Proof. intros H. split; [intros; apply den_csr_to_csc; assumption|split; [reflexivity|split; [reflexivity|apply csr_to_csc_wf; exact H]]]. Qed.

Theorem C07_csc_to_csr (A : csc F) : csc_wf A ->
  (forall i j, denCsr (csc_to_csr A) i j = denCsc A i j) /\
  csr_nr (csc_to_csr A) = csc_nr A /\ csr_nc (csc_to_csr A) = csc_nc A /\ csr_wf (csc_to_csr A).
Proof. intros H. split; [intros; apply den_csc_to_csr; assumption|split; [reflexivity|split; [reflexivity|apply csc_to_csr_wf; exact H]]]. Qed.

(* copies are the identity on the model *)
Theorem C07_copies (A : coo F) (B : csr F) (C : csc F) :
  (forall i j, denCoo (coo_to_coo A) i j = denCoo A i j) /\
  (forall i j, denCsr (csr_to_csr B) i j = denCsr B i j) /\
  (forall i j, denCsc (csc_to_csc C) i j = denCsc C i j).
Proof. repeat split. Qed.

(* transposes: exactly A^T, with rows and columns exchanged *)
Theorem C07_coo_transpose (A : coo F) :
  (forall i j, denCoo (coo_transpose A) i j = denCoo A j i) /\
  coo_nr (coo_transpose A) = coo_nc A /\ coo_nc (coo_transpose A) = coo_nr A.
Proof. split; [intros; apply den_coo_transpose|split; reflexivity]. Qed.

Theorem C07_csr_transpose (A : csr F) : csr_wf A ->
  (forall i j, denCsr (csr_transpose A) i j = denCsr A j i) /\
  csr_nr (csr_transpose A) = csr_nc A /\ csr_nc (csr_transpose A) = csr_nr A.
Proof. intros H. split; [intros; apply den_csr_transpose; assumption|split; reflexivity]. Qed.

Theorem C07_csc_transpose (A : csc F) : csc_wf A ->
  (forall i j, denCsc (csc_transpose A) i j = denCsc A j i) /\
  csc_nr (csc_transpose A) = csc_nc A /\ csc_nc (csc_transpose A) = csc_nr A.
Proof. intros H. split; [intros; apply den_csc_transpose; assumption|split; reflexivity]. Qed.

(* sorting: operator unchanged, every line sorted by index *)
Theorem C07_sort (A : coo F) (B : csr F) (C : csc F) :
  (forall i j, denCoo (coo_sort A) i j = denCoo A i j) /\
  (forall i j, denCsr (csr_sort B) i j = denCsr B i j) /\
  (forall i j, denCsc (csc_sort C) i j = denCsc C i j) /\
  (forall r, In r (csr_rows (csr_sort B)) -> sortedb le_fst r = true).
Proof.
  split; [intros; apply (den_coo_sort _ _ _ _ _ _ _ Fth)|].
  split; [intros; apply (den_csr_sort _ _ _ _ _ _ _ Fth)|].
  split; [intros; apply (den_csc_sort _ _ _ _ _ _ _ Fth)|].
  intros r Hr. eapply csr_sort_sorted. exact Hr.
Qed.

(* moving diagonals first: operator unchanged; a line that stores its diagonal starts with it *)
Theorem C07_move_diag (B : csr F) (C : csc F) :
  (forall i j, denCsr (csr_move_diag B) i j = denCsr B i j) /\
  (forall i j, denCsc (csc_move_diag C) i j = denCsc C i j) /\
  (forall i, i < length (csr_rows B) -> (exists p, In p (nth i (csr_rows B) []) /\ fst p = i) ->
     exists d rest, nth i (csr_rows (csr_move_diag B)) [] = d :: rest /\ fst d = i).
Proof.
  split; [intros; apply (den_csr_move_diag _ _ _ _ _ _ _ Fth)|].
  split; [intros; apply (den_csc_move_diag _ _ _ _ _ _ _ Fth)|].
  intros i Hi H. apply csr_move_diag_first; assumption.
Qed.

(* merging duplicates: each position keeps the sum of its entries unless that sum is below the
   drop tolerance; afterwards a line holds at most one entry per index *)
Theorem C07_remove_duplicates (B : csr F) (C : csc F) :
  (forall i j, denCsr (csr_remove_duplicates F add small B) i j = drop F zero small (denCsr B i j)) /\
  (forall i j, denCsc (csc_remove_duplicates F add small C) i j = drop F zero small (denCsc C i j)) /\
  (forall r, In r (csr_rows (csr_remove_duplicates F add small B)) -> NoDup (map fst r)).
Proof.
  split; [intros; apply (den_csr_remove_duplicates _ _ _ _ _ _ _ Fth)|].
  split; [intros; apply (den_csc_remove_duplicates _ _ _ _ _ _ _ Fth)|].
  intros r Hr. apply (csr_remove_duplicates_nodup F zero add small B r Hr).
Qed.

(* A+B and A-B *)
Theorem C07_add_subtract (A B : csr F) : length (csr_rows B) <= length (csr_rows A) ->
  (forall i j, denCsr (csr_add F add small A B true) i j = drop F zero small (add (denCsr A i j) (denCsr B i j))) /\
  (forall i j, denCsr (csr_add F add small A B false) i j = add (denCsr A i j) (denCsr B i j)) /\
  (forall i j, denCsr (csr_subtract F add opp small A B) i j = drop F zero small (sub (denCsr A i j) (denCsr B i j))).
Proof.
  intros Hl.
  split; [intros; apply (den_csr_add F zero one add mul sub opp Fth small A B true); exact Hl|].
  split; [intros; apply (den_csr_add F zero one add mul sub opp Fth small A B false); exact Hl|].
  intros; apply (den_csr_subtract F zero one add mul sub opp Fth); exact Hl.
Qed.

(* BSR -> CSR (block storage to scalar storage): the scalar matrix represents, at (I*br + r, J*bc + c), the sum of the
   (r, c) entries of the stored blocks at (I, J), provided the scalars the conversion drops (|v| <= zero_tol) are exact zeros *)
Theorem C07_bsr_to_csr (big : F -> bool) br bc (A : csr (list F)) : csr_wf A ->
  (forall e, In e (coo_ents (bsr_expand zero br bc A)) -> big (eval e) = false -> eval e = zero) ->
  (forall i j, denCsr (bsr_to_csr zero big br bc A) i j = denCoo (bsr_expand zero br bc A) i j) /\
  (forall I J r c, r < br -> c < bc ->
     denCoo (bsr_expand zero br bc A) (I * br + r) (J * bc + c)
     = sumf F zero add (map (fun e => nth (r * bc + c) (eval e) zero)
                            (filter (fun e => (erow e =? I) && (ecol e =? J)) (coo_ents (csr_to_coo A))))) /\
  csr_nr (bsr_to_csr zero big br bc A) = csr_nr A * br /\ csr_nc (bsr_to_csr zero big br bc A) = csr_nc A * bc.
Proof.
  intros Hwf Hz. split; [intros; apply (bsr_to_csr_den F zero one add mul sub opp Fth); assumption|].
  split; [intros; apply (bcoo_expand_den F zero one add mul sub opp Fth); assumption|split; reflexivity].
Qed.

(* Block forms BCOO / BSR / BSC (the polymorphic formats at T = row-major blocks).  bden_X br bc A is the operator
   the block matrix represents (entry (I*br + r, J*bc + c) = sum over the stored blocks at (I, J) of their entry (r, c),
   C02_block_kernels / bcoo_expand_den).  Every in-range position is of the form (I*br + r, J*bc + c) with r < br, c < bc. *)
Notation bdenCoo := (bden_coo F zero add).
Notation bdenCsr := (bden_csr F zero add).
Notation bdenCsc := (bden_csc F zero add).

Theorem C07_block_conversions br bc I J r c (A : coo (list F)) (B : csr (list F)) (C : csc (list F)) :
  r < br -> c < bc -> coo_wf A -> csr_wf B -> csc_wf C ->
  let i := I * br + r in let j := J * bc + c in
  bdenCsr br bc (coo_to_csr A) i j = bdenCoo br bc A i j /\
  bdenCsc br bc (coo_to_csc A) i j = bdenCoo br bc A i j /\
  bdenCoo br bc (csr_to_coo B) i j = bdenCsr br bc B i j /\
  bdenCoo br bc (csc_to_coo C) i j = bdenCsc br bc C i j /\
  bdenCsc br bc (csr_to_csc B) i j = bdenCsr br bc B i j /\
  bdenCsr br bc (csc_to_csr C) i j = bdenCsc br bc C i j /\
  bdenCoo br bc (coo_to_coo A) i j = bdenCoo br bc A i j /\
  bdenCsr br bc (csr_to_csr B) i j = bdenCsr br bc B i j /\
  bdenCsc br bc (csc_to_csc C) i j = bdenCsc br bc C i j.
Proof.
  intros Hr Hc HA HB HC i j.
  split; [apply (bden_coo_to_csr F zero one add mul sub opp Fth); assumption|].
  split; [apply (bden_coo_to_csc F zero one add mul sub opp Fth); assumption|].
  split; [reflexivity|]. split; [reflexivity|].
  split; [apply (bden_csr_to_csc F zero one add mul sub opp Fth); assumption|].
  split; [apply (bden_csc_to_csr F zero one add mul sub opp Fth); assumption|].
  destruct A, B, C; repeat split; reflexivity.
Qed.

Theorem C07_block_sort_move_diag br bc I J r c (A : coo (list F)) (B : csr (list F)) (C : csc (list F)) :
  r < br -> c < bc ->
  let i := I * br + r in let j := J * bc + c in
  bdenCoo br bc (coo_sort A) i j = bdenCoo br bc A i j /\
  bdenCsr br bc (csr_sort B) i j = bdenCsr br bc B i j /\
  bdenCsc br bc (csc_sort C) i j = bdenCsc br bc C i j /\
  bdenCsr br bc (csr_move_diag B) i j = bdenCsr br bc B i j /\
  bdenCsc br bc (csc_move_diag C) i j = bdenCsc br bc C i j.
Proof.
  intros Hr Hc i j.
  split; [apply (bden_coo_sort F zero one add mul sub opp Fth); assumption|].
  split; [apply (bden_csr_sort F zero one add mul sub opp Fth); assumption|].
  split; [apply (bden_csc_sort F zero one add mul sub opp Fth); assumption|].
  split; [apply (bden_csr_move_diag F zero one add mul sub opp Fth); assumption|].
  apply (bden_csc_move_diag F zero one add mul sub opp Fth); assumption.
Qed.

(* block transposes: block (I, J) becomes block (J, I) holding the transposed bc x br block; dimensions exchanged *)
Theorem C07_block_transposes br bc I J r c (A : coo (list F)) (B : csr (list F)) (C : csc (list F)) :
  r < br -> c < bc -> csr_wf B -> csc_wf C ->
  let i := I * br + r in let j := J * bc + c in
  bdenCoo bc br (bcoo_transpose zero br bc A) j i = bdenCoo br bc A i j /\
  bdenCsr bc br (bsr_transpose zero br bc B) j i = bdenCsr br bc B i j /\
  bdenCsc bc br (bsc_transpose zero br bc C) j i = bdenCsc br bc C i j /\
  (coo_nr (bcoo_transpose zero br bc A) = coo_nc A /\ coo_nc (bcoo_transpose zero br bc A) = coo_nr A) /\
  (csr_nr (bsr_transpose zero br bc B) = csr_nc B /\ csr_nc (bsr_transpose zero br bc B) = csr_nr B) /\
  (csc_nr (bsc_transpose zero br bc C) = csc_nc C /\ csc_nc (bsc_transpose zero br bc C) = csc_nr C).
Proof.
  intros Hr Hc HB HC i j.
  split; [apply (bden_coo_transpose F zero one add mul sub opp Fth); assumption|].
  split; [apply (bden_csr_transpose F zero one add mul sub opp Fth); assumption|].
  split; [apply (bden_csc_transpose F zero one add mul sub opp Fth); assumption|].
  apply (dims_block_transposes F zero).
Qed.

(* block remove_duplicates (BSR / BSC; the scalar routine at blocks with entrywise addition): the blocks stored at a block
   position are merged; the represented operator is unchanged except that a merged block for which the routine's
   smallness test (abs_val(block) < zero_tol) holds is discarded as a whole.  Blocks have b_rows * b_cols = n entries. *)
Theorem C07_block_remove_duplicates (bsmall : list F -> bool) br bc n I J r c (B : csr (list F)) (C : csc (list F)) :
  r < br -> c < bc ->
  (forall row, In row (csr_rows B) -> forall q, In q row -> length (snd q) = n) ->
  (forall col, In col (csc_cols C) -> forall q, In q col -> length (snd q) = n) ->
  let i := I * br + r in let j := J * bc + c in
  bdenCsr br bc (csr_remove_duplicates (list F) (vadd add) bsmall B) i j
    = (if bsr_discarded F add bsmall I J B then zero else bdenCsr br bc B i j) /\
  bdenCsc br bc (csc_remove_duplicates (list F) (vadd add) bsmall C) i j
    = (if bsc_discarded F add bsmall I J C then zero else bdenCsc br bc C i j).
Proof.
  intros Hr Hc HB HC i j. split.
  - apply (bden_csr_remove_duplicates F zero one add mul sub opp Fth bsmall br bc n I J r c Hr Hc B HB).
  - apply (bden_csc_remove_duplicates F zero one add mul sub opp Fth bsmall br bc n I J r c Hr Hc C HC).
Qed.

(* COO remove_duplicates: entries at equal positions are summed and nothing is dropped: operator, dimensions and
   well-formedness unchanged, and no position is stored that was not stored before *)
Theorem C07_coo_remove_duplicates (A : coo F) :
  (forall i j, denCoo (coo_remove_duplicates F add A) i j = denCoo A i j) /\
  coo_nr (coo_remove_duplicates F add A) = coo_nr A /\ coo_nc (coo_remove_duplicates F add A) = coo_nc A /\
  (coo_wf A -> coo_wf (coo_remove_duplicates F add A)) /\
  (forall e, In e (coo_ents (coo_remove_duplicates F add A)) ->
     exists e', In e' (coo_ents A) /\ erow e' = erow e /\ ecol e' = ecol e).
Proof.
  split; [intros; apply (den_coo_remove_duplicates F zero one add mul sub opp Fth)|].
  split; [reflexivity|split; [reflexivity|]].
  split; [apply coo_remove_duplicates_wf|apply coo_remove_duplicates_pos].
Qed.

(* ---------------- distributed counterparts (core/par_matrix.cpp, util/linalg/par_add.cpp) ----------------
   `gden_row rs li j` is entry (first_local_row + li, j) of the global operator as held by one rank
   (on-process block + off-process block through the column map). *)
Notation gdenR := (gden_row F zero add).
Notation dfltR := (mkRS 0 0 0 0 (mkCsr 0 0 []) (mkCsr 0 0 []) []).

(* conversions between ParCSR / ParCOO / ParCSC (copies included): every rank's rows of the global operator unchanged *)
Theorem C07_par_conversions (r : rank_state F) (c : rank_coo F) (k : rank_csc F) li j :
  (rs_wf2 F r ->
     gden_coo F zero add (par_csr_to_coo F r) li j = gdenR r li j /\
     gden_csc F zero add (par_csr_to_csc F r) li j = gdenR r li j /\
     gdenR (par_csr_to_csr F r) li j = gdenR r li j) /\
  (rc_wf F c ->
     gdenR (par_coo_to_csr F c) li j = gden_coo F zero add c li j /\
     gden_csc F zero add (par_coo_to_csc F c) li j = gden_coo F zero add c li j /\
     gden_coo F zero add (par_coo_to_coo F c) li j = gden_coo F zero add c li j) /\
  (rk_wf F k ->
     gdenR (par_csc_to_csr F k) li j = gden_csc F zero add k li j /\
     gden_coo F zero add (par_csc_to_coo F k) li j = gden_csc F zero add k li j /\
     gden_csc F zero add (par_csc_to_csc F k) li j = gden_csc F zero add k li j).
Proof.
  split; [|split].
  - apply (par_conversions_from_csr F zero add).
  - apply (par_conversions_from_coo F zero add).
  - apply (par_conversions_from_csc F zero add).
Qed.

(* ParCSRMatrix::transpose: for every list of rank states (any partition into contiguous blocks) and every package
   that passes the reverse check of C03, entry (local row i of rank q, global column = row li of rank p) of the result
   is entry (row li of rank p, column fc_q + i) of the source; remove_duplicates in finalize discards |v| < zero_tol *)
Theorem C07_par_transpose (w : world) (st : list (rank_state F)) (q p i li : nat) :
  let colmaps := map (fun rs => rs_colmap rs) st in
  let ids := map (fun rs => seq (rs_fc rs) (rs_nc rs)) st in
  let Q := nth q st dfltR in let P := nth p st dfltR in
  rev_ok w ids colmaps = true -> length w = length st -> q < length st -> p < length st ->
  (forall p', p' < length st -> st_ok F (nth p' st dfltR)) ->
  i < rs_nc Q -> li < rs_nr P ->
  (forall p', p' < length st -> p' <> p ->
     ~ (rs_fr (nth p' st dfltR) <= rs_fr P + li < rs_fr (nth p' st dfltR) + rs_nr (nth p' st dfltR))) ->
  (forall q', q' < length st -> q' <> q ->
     ~ (rs_fc (nth q' st dfltR) <= rs_fc Q + i < rs_fc (nth q' st dfltR) + rs_nc (nth q' st dfltR))) ->
  (forall c, In c (rs_colmap Q) -> ~ (rs_fc Q <= c < rs_fc Q + rs_nc Q)) ->
  gdenR (par_transpose F add small w st q) i (rs_fr P + li) = drop F zero small (gdenR P li (rs_fc Q + i)) /\
  rs_fr (par_transpose F add small w st q) = rs_fc Q /\ rs_nr (par_transpose F add small w st q) = rs_nc Q /\
  rs_fc (par_transpose F add small w st q) = rs_fr Q /\ rs_nc (par_transpose F add small w st q) = rs_nr Q.
Proof.
  intros colmaps ids Q P H1 H2 H3 H4 H5 H6 H7 H8 H9 H10.
  split; [|repeat split].
  exact (par_transpose_global F zero one add mul sub opp Fth small w st q p i li H1 H2 H3 H4 H5 H6 H7 H8 H9 H10).
Qed.

(* ParCSRMatrix::add / subtract on operands with DIFFERENT off-process column maps *)
Theorem C07_par_add_subtract (neg : bool) (A B : rank_state F) li j :
  st_ok F A -> st_ok F B -> rs_nr B = rs_nr A -> rs_nc B = rs_nc A -> rs_fc B = rs_fc A ->
  StronglySorted lt (rs_colmap A) -> StronglySorted lt (rs_colmap B) ->
  (forall c, In c (rs_colmap A) \/ In c (rs_colmap B) -> ~ (rs_fc A <= c < rs_fc A + rs_nc A)) ->
  gdenR (par_add_local F add opp small neg A B) li j
  = drop F zero small (add (gdenR A li j) (if neg then opp (gdenR B li j) else gdenR B li j)).
Proof. exact (par_add_global F zero one add mul sub opp Fth small neg A B li j). Qed.

End C07.

(* non-vacuity of the distributed transpose theorem: a 4 x 4 matrix on two ranks, exact arithmetic over Z.  The package
   built by the construction model passes the reverse check, both rank states are well formed, and the theorem's
   conclusion is the computed value (A(2,0) = 7 appears as T(0,2)). *)
From Coq Require Import ZArith Lia.
Section C07_example.
Local Open Scope Z_scope.
Definition ex_small (z : Z) := Z.eqb z 0.
Definition ex_st := assemble_all Z Z.add ex_small
   [(0%nat,0%nat,2); (0%nat,3%nat,-1); (1%nat,1%nat,2); (1%nat,2%nat,5); (2%nat,2%nat,3); (2%nat,0%nat,7);
    (3%nat,3%nat,4); (3%nat,1%nat,-2); (3%nat,0%nat,1)] [0;2;4]%nat [0;2;4]%nat.
Definition ex_colmaps := map (fun rs : rank_state Z => rs_colmap rs) ex_st.
Definition ex_ids := map (fun rs : rank_state Z => seq (rs_fc rs) (rs_nc rs)) ex_st.
Definition ex_w := build_world [0;2;4]%nat ex_colmaps (fun _ r => r).
Example C07_par_transpose_hypotheses_hold :
  rev_ok ex_w ex_ids ex_colmaps = true /\ length ex_w = length ex_st /\
  (forall p', (p' < length ex_st)%nat -> st_ok Z (nth p' ex_st (mkRS 0 0 0 0 (mkCsr 0 0 []) (mkCsr 0 0 []) []))).
Proof.
  split; [vm_compute; reflexivity|split; [reflexivity|]].
  intros p' Hp. change (length ex_st) with 2%nat in Hp.
  assert (Hc : p' = 0%nat \/ p' = 1%nat) by lia.
  destruct Hc as [-> | ->]; vm_compute; repeat split; try reflexivity;
    intros r Hr q Hq; repeat (destruct Hr as [<-|Hr]; [repeat (destruct Hq as [<-|Hq]; [simpl; lia|]); destruct Hq|]); destruct Hr.
Qed.
Example C07_par_transpose_value :
  gden_row Z 0 Z.add (par_transpose Z Z.add ex_small ex_w ex_st 0) 0 (2 + 0) = 7 /\
  drop Z 0 ex_small (gden_row Z 0 Z.add (nth 1 ex_st (mkRS 0 0 0 0 (mkCsr 0 0 []) (mkCsr 0 0 []) [])) 0 (0 + 0)) = 7.
Proof. split; vm_compute; reflexivity. Qed.
End C07_example.

Print Assumptions C07_coo_to_csr.
Print Assumptions C07_coo_to_csc.
Print Assumptions C07_csr_to_coo.
Print Assumptions C07_csc_to_coo.
Print Assumptions C07_csr_to_csc.
Print Assumptions C07_csc_to_csr.
Print Assumptions C07_copies.
Print Assumptions C07_coo_transpose.
Print Assumptions C07_csr_transpose.
Print Assumptions C07_csc_transpose.
Print Assumptions C07_sort.
Print Assumptions C07_move_diag.
Print Assumptions C07_remove_duplicates.
Print Assumptions C07_add_subtract.
Print Assumptions C07_bsr_to_csr.
Print Assumptions C07_block_conversions.
Print Assumptions C07_block_sort_move_diag.
Print Assumptions C07_block_transposes.
Print Assumptions C07_block_remove_duplicates.
Print Assumptions C07_par_conversions.
Print Assumptions C07_par_transpose.
Print Assumptions C07_par_add_subtract.
Print Assumptions C07_coo_remove_duplicates.
