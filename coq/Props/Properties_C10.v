(* C10 — On SPD problems each V-cycle does not increase the energy norm of the error.
   Property-level theorems only; each is closed by a lemma of Amg/EnergyProofs.v.

   Setting: an arbitrary ordered field (F, le) — the order only has to be reflexive, transitive,
   compatible with +, with nonnegative squares and products of nonnegatives; Qc is an instance
   (bottom of the file), so no axiom is involved.  `cycle` is the executable model of
   Multilevel::cycle / ParMultilevel::cycle (one process) of Amg/Energy.v;
   `energy A xs x` = a(xs - x, xs - x) = ||xs - x||_A^2 with a(f,g) = <A f, g> (squares are
   compared, no square root);  `solves A xs b` = "A xs = b". *)
From Coq Require Import Field.
From Raptor Require Import Base.Sums Amg.Energy Amg.EnergyProofs.

Section C10.
Variable F : Type.
Variables (zero one : F) (add mul sub : F -> F -> F) (opp : F -> F) (div : F -> F -> F) (inv : F -> F).
Variable Fth : field_theory zero one add mul sub opp div inv (@eq F).
Variable le : F -> F -> Prop.
Hypothesis le_refl : forall a, le a a.
Hypothesis le_trans : forall a b c, le a b -> le b c -> le a c.
Hypothesis le_add_l : forall a b c, le a b -> le (add c a) (add c b).
Hypothesis sq_nonneg : forall a, le zero (mul a a).
Hypothesis mul_nonneg : forall a b, le zero a -> le zero b -> le zero (mul a b).

Notation vec := (list F).
Notation smat := (list (list (nat * F))).
Notation vget := (vget F zero).
Notation vset := (vset F).
Notation vzeros := (vzeros F zero).
Notation den := (den F zero add).
Notation sumF := (sumf F zero add).
Notation symf := (symf F).
Notation psdf := (psdf F zero add mul le).
Notation energy := (energy F zero add mul sub).
Notation solves := (solves F zero add mul).
Notation sweep_wf := (sweep_wf F).
Notation posdiag := (posdiag F zero add le).
Notation cols_lt := (cols_lt F).
Notation galerkin := (galerkin F zero add mul).
Notation gs_val := (gs_val F zero add mul sub div).
Notation row_upd := (row_upd F zero one add mul sub div).
Notation sweep := (sweep F zero one add mul sub div).
Notation relax := (relax F zero one add mul sub div).
Notation residual := (residual F zero mul sub).
Notation mult_T := (mult_T F zero add mul).
Notation mult_append := (mult_append F zero add mul).
Notation cycle := (cycle F zero one add mul sub div).
Notation iterate := (iterate F zero one add mul sub div).
Notation hier_ok := (hier_ok F zero add mul le).
Notation exact_coarse := (exact_coarse F zero add mul).
Notation next_A := (next_A F).
Infix "<==" := le (at level 70).
Infix "+" := add.
Infix "*" := mul.
Infix "-" := sub.

(* C11 at weight 1: on a row that starts with its (non-zero) diagonal, the row update of relax.cpp
   (sequential) and of par_relax.cpp (one process) both write the Gauss-Seidel value
   (b_i - sum_{j<>i} a_ij x_j) / a_ii computed from the current, partly updated x *)
Theorem C10_row_updates_are_gauss_seidel (v : variant) (A : smat) (b x : vec) (i : nat) :
  i < length A -> row_ok F (length A) i (nth i A []) -> den A i i <> zero -> i < length x ->
  row_upd v one A b x i = vset x i (gs_val A b x i).
Proof. intros. eapply row_upd_gs; eassumption. Qed.

(* (1) one coordinate of a sweep: the energy of the error drops by exactly a_ii * (increment)^2 *)
Theorem C10_gs_coordinate_step_energy (A : smat) (b xs x : vec) (i : nat) :
  symf (den A) (length A) -> i < length A -> row_ok F (length A) i (nth i A []) -> den A i i <> zero ->
  length x = length A -> solves A xs b ->
  energy A xs (vset x i (gs_val A b x i)) +
    den A i i * ((gs_val A b x i - vget x i) * (gs_val A b x i - vget x i)) = energy A xs x.
Proof. intros. eapply (gs_step_energy F zero one add mul sub opp div inv Fth); eassumption. Qed.

(* (1) a forward and a backward Gauss-Seidel sweep (both code variants), x' the result:
   a(e',e') + <D d, d> = a(e,e)  with d = x' - x the sweep's increment *)
Theorem C10_sweep_energy_identity (v : variant) (A : smat) (b xs x : vec) :
  symf (den A) (length A) -> sweep_wf A -> posdiag A -> solves A xs b -> length x = length A ->
  (let x' := sweep v one A b (fwd_rows F A) x in
   energy A xs x' + sumF (map (fun i => den A i i * ((vget x' i - vget x i) * (vget x' i - vget x i)))
                              (seq 0 (length A))) = energy A xs x) /\
  (let x' := sweep v one A b (bwd_rows F A) x in
   energy A xs x' + sumF (map (fun i => den A i i * ((vget x' i - vget x i) * (vget x' i - vget x i)))
                              (rev (seq 0 (length A)))) = energy A xs x).
Proof.
  intros S WF PD Hs Hx. split; cbv zeta.
  - apply (sweep_energy_identity F zero one add mul sub opp div inv Fth le A b xs S WF PD Hs v (fwd_rows F A) x);
      [apply fwd_rows_ok|apply fwd_rows_ok|exact Hx].
  - apply (sweep_energy_identity F zero one add mul sub opp div inv Fth le A b xs S WF PD Hs v (bwd_rows F A) x);
      [apply bwd_rows_ok|apply bwd_rows_ok|exact Hx].
Qed.

(* (1) hence sor() and ssor() with weight 1 and any number of sweeps are A-norm non-expansive *)
Theorem C10_relax_nonexpansive (v : variant) (k : relax_kind) (s : nat) (A : smat) (b xs x : vec) :
  symf (den A) (length A) -> sweep_wf A -> posdiag A -> solves A xs b -> length x = length A ->
  energy A xs (relax v k one s A b x) <== energy A xs x /\ length (relax v k one s A b x) = length A.
Proof.
  intros. eapply (relax_energy_le F zero one add mul sub opp div inv Fth le); eassumption.
Qed.

(* C08 gives the coarse operator the properties of the fine one *)
Theorem C10_galerkin_inherits_spd (A P A' : smat) :
  galerkin A P A' -> symf (den A) (length A) -> psdf (den A) (length A) ->
  symf (den A') (length A') /\ psdf (den A') (length A').
Proof.
  intros G S PSD. split.
  - eapply (galerkin_sym F zero one add mul sub opp div inv Fth); eassumption.
  - eapply (galerkin_psd F zero one add mul sub opp div inv Fth); eassumption.
Qed.

(* (2) coarse-grid correction x1 + P xc with restriction P^T, Galerkin A' = P^T A P, and ANY coarse
   result xc that is no worse than the zero start in the A'-energy norm of its own error (w = an
   exact solution of A' w = P^T (b - A x1), which must exist): non-expansive.  P is arbitrary. *)
Theorem C10_coarse_correction_nonexpansive (A P A' : smat) (b xs x1 xc w : vec) :
  galerkin A P A' ->
  symf (den A) (length A) -> sweep_wf A -> length P = length A -> cols_lt (length A') P ->
  solves A xs b ->
  solves A' w (mult_T (length A') P (residual A x1 b)) ->
  energy A' w xc <== energy A' w (vzeros (length A')) ->
  energy A xs (mult_append P xc x1) <== energy A xs x1.
Proof.
  intros. eapply (correction_energy_le F zero one add mul sub opp div inv Fth le); eassumption.
Qed.

(* (2) special case: exact coarse solve *)
Theorem C10_coarse_correction_exact (A P A' : smat) (b xs x1 w : vec) :
  galerkin A P A' ->
  symf (den A) (length A) -> psdf (den A) (length A) -> sweep_wf A -> length P = length A ->
  cols_lt (length A') P -> solves A xs b ->
  solves A' w (mult_T (length A') P (residual A x1 b)) ->
  energy A xs (mult_append P w x1) <== energy A xs x1.
Proof.
  intros. eapply (correction_exact_energy_le F zero one add mul sub opp div inv Fth le); eassumption.
Qed.

(* (3) every V-cycle of a hierarchy that is Galerkin (C08), restricts with P^T (C02), relaxes with
   SOR or SSOR at weight 1 (any number of sweeps; the post-smoother is the SAME routine as the
   pre-smoother, no symmetry of the cycle is needed) and solves the coarsest system exactly (C09)
   does not increase ||x* - x||_A.  A_0 symmetric positive semidefinite with A_0 x* = b. *)
Theorem C10_vcycle_nonexpansive
  (coarse_solve : smat -> vec -> vec) (v : variant) (k : relax_kind) (sweeps : nat)
  (lv : list (level F)) (Ac : smat) (x b xs : vec) :
  hier_ok lv Ac -> exact_coarse coarse_solve Ac ->
  symf (den (next_A lv Ac)) (length (next_A lv Ac)) ->
  psdf (den (next_A lv Ac)) (length (next_A lv Ac)) ->
  length x = length (next_A lv Ac) -> length b = length (next_A lv Ac) ->
  solves (next_A lv Ac) xs b ->
  energy (next_A lv Ac) xs (cycle coarse_solve v k one sweeps lv Ac x b) <== energy (next_A lv Ac) xs x.
Proof.
  intros. eapply (vcycle_energy_le F zero one add mul sub opp div inv Fth le); eassumption.
Qed.

(* corollary on the iterates x_m of repeated cycle() calls: ||x* - x_{m+1}||_A <= ||x* - x_m||_A
   and ||x* - x_m||_A <= ||x* - x_0||_A for every m (no blow-up) *)
Corollary C10_iterates_monotone
  (coarse_solve : smat -> vec -> vec) (v : variant) (k : relax_kind) (sweeps : nat)
  (lv : list (level F)) (Ac : smat) (x0 b xs : vec) (m : nat) :
  hier_ok lv Ac -> exact_coarse coarse_solve Ac ->
  symf (den (next_A lv Ac)) (length (next_A lv Ac)) ->
  psdf (den (next_A lv Ac)) (length (next_A lv Ac)) ->
  length x0 = length (next_A lv Ac) -> length b = length (next_A lv Ac) ->
  solves (next_A lv Ac) xs b ->
  energy (next_A lv Ac) xs (iterate coarse_solve v k one sweeps lv Ac b (S m) x0) <==
    energy (next_A lv Ac) xs (iterate coarse_solve v k one sweeps lv Ac b m x0) /\
  energy (next_A lv Ac) xs (iterate coarse_solve v k one sweeps lv Ac b m x0) <== energy (next_A lv Ac) xs x0.
Proof.
  intros HO EC S PSD Hx Hb Hs.
  destruct (iterates_energy_monotone F zero one add mul sub opp div inv Fth le le_refl le_trans le_add_l
              sq_nonneg mul_nonneg coarse_solve v k sweeps lv Ac x0 b xs HO EC S PSD Hx Hb Hs m) as (H1 & H2 & _).
  split; assumption.
Qed.

(* the executable checks the harness runs on the implementation's dumped hierarchy establish the
   corresponding hypotheses: sweep_wfb (printed as WF by the model driver) gives sweep_wf, and a
   coarsest solve verified through the row loop (smv A w = b) is a solution *)
Theorem C10_harness_checks_sound (A : smat) (w b : vec) :
  (sweep_wfb F A = true -> sweep_wf A) /\
  ((forall i p, In p (nth i A []) -> fst p < length A) -> smv F zero add mul A w = b -> solves A w b).
Proof.
  split.
  - apply sweep_wfb_sound.
  - apply (smv_solves F zero one add mul sub opp div inv Fth).
Qed.

End C10.


(* ---------------------------------------------------------------------------------------- *)
(* Qc is such an ordered field: the V-cycle theorem over the executed rationals, and a concrete
   two-level hierarchy showing that the hypotheses are satisfiable (and what they look like). *)
From Coq Require Import QArith Qcanon.
From Raptor Require Import Extract.Inst_energy.

Theorem C10_vcycle_nonexpansive_Qc
  (coarse_solve : list (list (nat * Qc)) -> list Qc -> list Qc) (v : variant) (k : relax_kind) (sweeps : nat)
  (lv : list (level Qc)) (Ac : list (list (nat * Qc))) (x b xs : list Qc) :
  hier_ok Qc 0%Qc Qcplus Qcmult Qcle lv Ac -> exact_coarse Qc 0%Qc Qcplus Qcmult coarse_solve Ac ->
  symf Qc (den Qc 0%Qc Qcplus (next_A Qc lv Ac)) (length (next_A Qc lv Ac)) ->
  psdf Qc 0%Qc Qcplus Qcmult Qcle (den Qc 0%Qc Qcplus (next_A Qc lv Ac)) (length (next_A Qc lv Ac)) ->
  length x = length (next_A Qc lv Ac) -> length b = length (next_A Qc lv Ac) ->
  solves Qc 0%Qc Qcplus Qcmult (next_A Qc lv Ac) xs b ->
  (energy Qc 0%Qc Qcplus Qcmult Qcminus (next_A Qc lv Ac) xs (q_cycle coarse_solve v k 1%Qc sweeps lv Ac x b)
   <= energy Qc 0%Qc Qcplus Qcmult Qcminus (next_A Qc lv Ac) xs x)%Qc.
Proof.
  intros. unfold q_cycle.
  eapply (C10_vcycle_nonexpansive Qc 0%Qc 1%Qc Qcplus Qcmult Qcminus Qcopp Qcdiv Qcinv Qcft Qcle
            Qcle_refl Qcle_trans Qc_le_add_l Qc_sq_nonneg Qc_mul_nonneg); eassumption.
Qed.

Section Nonvacuous.
Local Open Scope Qc_scope.
Let two : Qc := 1 + 1.
Let mone : Qc := - (1).
(* A0 = [[2,-1],[-1,2]] (diagonal first), P = [1;1], Ac = P^T A0 P = [2] *)
Let A0 : list (list (nat * Qc)) := [[(0%nat, two); (1%nat, mone)]; [(1%nat, two); (0%nat, mone)]].
Let P0 : list (list (nat * Qc)) := [[(0%nat, 1)]; [(0%nat, 1)]].
Let Ac0 : list (list (nat * Qc)) := [[(0%nat, two)]].
Let L0 : level Qc := mkLevel A0 P0 1.
Let solve0 : list (list (nat * Qc)) -> list Qc -> list Qc := fun _ b => [nth 0 b 0 / two].

Lemma two_neq_0 : two <> 0.
Proof.
  intro H. assert (E : (this two == this 0)%Q) by (rewrite H; reflexivity).
  vm_compute in E. discriminate E.
Qed.

Lemma Qc_add_nonneg (a b : Qc) : 0 <= a -> 0 <= b -> 0 <= a + b.
Proof. intros Ha Hb. replace 0 with (0 + 0) by ring. apply Qcplus_le_compat; assumption. Qed.

Example C10_hierarchy_nonvacuous :
  hier_ok Qc 0 Qcplus Qcmult Qcle [L0] Ac0 /\ exact_coarse Qc 0 Qcplus Qcmult solve0 Ac0 /\
  symf Qc (den Qc 0 Qcplus A0) 2 /\ psdf Qc 0 Qcplus Qcmult Qcle (den Qc 0 Qcplus A0) 2 /\
  solves Qc 0 Qcplus Qcmult A0 [1; 1] [1; 1].
Proof.
  assert (SOLV : forall rhs : list Qc, length rhs = 1%nat ->
            solves Qc 0 Qcplus Qcmult Ac0 [nth 0 rhs 0 / two] rhs).
  { intros rhs _ i Hi. simpl in Hi. assert (i = 0%nat) by lia. subst i.
    unfold mvf, Energy.sumn, Energy.den, Energy.den_row, Energy.vget. simpl. field. apply two_neq_0. }
  split; [|split; [|split; [|split]]].
  - simpl. repeat split.
    + intros i Hi. simpl in Hi. destruct i as [|[|i]]; [| |lia].
      * exists two, [(1%nat, mone)]. split; [reflexivity|]. intros p [<-|[]]. simpl. split; lia.
      * exists two, [(0%nat, mone)]. split; [reflexivity|]. intros p [<-|[]]. simpl. split; lia.
    + destruct i as [|[|i]]; simpl in H; try lia; unfold Energy.den, Energy.den_row; simpl;
        (replace (two + 0) with (two * two * (1 / two)) by (field; apply two_neq_0));
        apply Qc_mul_nonneg; [apply Qc_sq_nonneg| |apply Qc_sq_nonneg|];
        (replace (1 / two) with ((1 / two) * (1 / two) * two) by (field; apply two_neq_0));
        apply Qc_mul_nonneg; try apply Qc_sq_nonneg;
        (replace two with (1 * 1 + 1 * 1) by (unfold two; ring));
        apply Qc_add_nonneg; apply Qc_sq_nonneg.
    + destruct i as [|[|i]]; simpl in H; try lia; unfold Energy.den, Energy.den_row; simpl;
        intro E; apply two_neq_0; rewrite <- E; ring.
    + intros i p Hp. destruct i as [|[|i]]; simpl in Hp.
      * destruct Hp as [<-|[]]. simpl. lia.
      * destruct Hp as [<-|[]]. simpl. lia.
      * destruct i; destruct Hp.
    + intros k m Hk Hm. simpl in Hk, Hm. assert (k = 0%nat) by lia. assert (m = 0%nat) by lia. subst.
      unfold Energy.sumn, Energy.den, Energy.den_row. simpl. unfold two, mone. ring.
    + intros rhs Hr. exists [nth 0 rhs 0 / two]. split; [reflexivity|]. apply SOLV. exact Hr.
  - intros b Hb. split; [reflexivity|]. apply SOLV. exact Hb.
  - intros i j Hi Hj. destruct i as [|[|i]]; destruct j as [|[|j]]; try lia; reflexivity.
  - intros f. unfold bilf, dotf, mvf, Energy.sumn, Energy.den, Energy.den_row. simpl.
    match goal with |- 0 <= ?e =>
      replace e with (f 0%nat * f 0%nat + f 1%nat * f 1%nat + (f 0%nat - f 1%nat) * (f 0%nat - f 1%nat))
        by (unfold two, mone; ring) end.
    apply Qc_add_nonneg; [apply Qc_add_nonneg|]; apply Qc_sq_nonneg.
  - intros i Hi. simpl in Hi. unfold mvf, Energy.sumn, Energy.den, Energy.den_row, Energy.vget.
    destruct i as [|[|i]]; [| |lia]; simpl; unfold two, mone; ring.
Qed.

(* the conclusion of the theorem on this instance, for every start x and the solution (1,1) *)
Example C10_vcycle_nonexpansive_nonvacuous (x : list Qc) : length x = 2%nat ->
  energy Qc 0 Qcplus Qcmult Qcminus A0 [1; 1] (q_cycle solve0 VSeq RSSOR 1 1 [L0] Ac0 x [1; 1])
  <= energy Qc 0 Qcplus Qcmult Qcminus A0 [1; 1] x.
Proof.
  intros Hx. destruct C10_hierarchy_nonvacuous as (H1 & H2 & H3 & H4 & H5).
  apply (C10_vcycle_nonexpansive_Qc solve0 VSeq RSSOR 1 [L0] Ac0 x [1; 1] [1; 1]); try assumption. reflexivity.
Qed.
End Nonvacuous.

Print Assumptions C10_row_updates_are_gauss_seidel.
Print Assumptions C10_gs_coordinate_step_energy.
Print Assumptions C10_sweep_energy_identity.
Print Assumptions C10_relax_nonexpansive.
Print Assumptions C10_galerkin_inherits_spd.
Print Assumptions C10_coarse_correction_nonexpansive.
Print Assumptions C10_coarse_correction_exact.
Print Assumptions C10_vcycle_nonexpansive.
Print Assumptions C10_iterates_monotone.
Print Assumptions C10_harness_checks_sound.
Print Assumptions C10_vcycle_nonexpansive_Qc.
