(* C04 — topology-aware communication is equivalent to standard communication.
   tap_world = per rank the four standard packages (local_L, local_S, global, local_R) with the final
   positions of the L and R receive slots; three_step = false is the two-step ("simple") variant. *)
From Coq Require Import List Arith Lia Bool.
From Raptor Require Import Base.Sums Dist.Comm Dist.CommProofs Dist.Tap Dist.TapProofs.
Import ListNotations.

(* the node-aware exchange (3-step and 2-step) commutes with every map on payloads: int / double /
   block / sparse-row payloads all behave like the vector of global ids *)
Theorem C04_tap_forward_natural :
  forall (A A' : Type) (g : A -> A') (d : A) tw xs p,
  tap_forward (g d) tw (map (map g) xs) p = map g (tap_forward d tw xs p).
Proof. exact @tap_forward_natural. Qed.

(* a node-aware package accepted by the id check (tap_fwd_ok; evaluated by the extracted checker on the
   package dumped from the implementation, for every layout explored) delivers, for EVERY global vector
   and payload type, the owner's value for each column-map entry *)
Theorem C04_tap_forward_delivers_owner_values :
  forall (A : Type) (d : A) (tw : tap_world) (ids colmaps : list (list nat)) (big : nat) (X : list A),
  tap_fwd_ok tw ids colmaps big = true -> length X <= big ->
  forall p, p < length (t_ranks tw) ->
    tap_forward d tw (map (map (fun i => nth i X d)) ids) p = map (fun c => nth c X d) (nth p colmaps []).
Proof. exact @tap_forward_delivers. Qed.

(* hence it equals the standard exchange of C03 on the same column maps: topology awareness changes
   which messages are sent, never what is received *)
Theorem C04_tap_equals_standard :
  forall (A : Type) (d : A) (tw : tap_world) (w : world) (ids colmaps : list (list nat)) (big : nat) (X : list A),
  tap_fwd_ok tw ids colmaps big = true -> fwd_ok w ids colmaps big = true -> length X <= big ->
  length w = length (t_ranks tw) ->
  forall p, p < length w ->
    tap_forward d tw (map (map (fun i => nth i X d)) ids) p = forward d w (map (map (fun i => nth i X d)) ids) p.
Proof. exact @tap_equals_standard. Qed.

(* reverse (transpose) exchange with addition over a commutative ring: a node-aware package accepted by the
   symbolic reverse check (tap_rev_ok, evaluated by the extracted checker on every dumped package) produces in
   every owner entry the same value as a standard package accepted by rev_ok: initial value plus the sum of the
   contributions of exactly the slots whose column-map entry is that entry's global id. *)
Theorem C04_tap_reverse_equals_standard :
  forall (F : Type) (zero one : F) (add mul sub : F -> F -> F) (opp : F -> F),
  ring_theory zero one add mul sub opp (@eq F) ->
  forall (tw : tap_world) (w : world) (ids colmaps : list (list nat)) (ys : list (list F)) (init : list F) q i,
  tap_rev_ok tw ids colmaps = true -> rev_ok w ids colmaps = true ->
  q < length (t_ranks tw) -> length w = length (t_ranks tw) ->
  map (@length F) ys = map (@length nat) colmaps ->
  length init = length (nth q ids []) -> i < length init ->
  nth i (tap_reverse zero add zero add tw ys init q) zero = nth i (reverse add w ys init q) zero.
Proof. intros F zero one add mul sub opp Fth. exact (tap_reverse_equals_standard F zero one add mul sub opp Fth). Qed.

Print Assumptions C04_tap_forward_natural.
Print Assumptions C04_tap_forward_delivers_owner_values.
Print Assumptions C04_tap_equals_standard.
Print Assumptions C04_tap_reverse_equals_standard.
