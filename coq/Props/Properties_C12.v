(* C12 — Classical interpolation: injection at C-points, constants preserved, parallel = sequential.
   Property-level theorems only; each is closed by lemmas of Amg/InterpProofs.v.
   Model: Amg/Interp.v = raptor/ruge_stuben/interpolation.cpp (direct_interpolation, mod_classical_interpolation,
   extended_interpolation, as of the fix that adds weak connections to pattern points) and direct_interpolation of
   par_interpolation.cpp as a function of the global data and the partition; the distributed modified-classical and
   extended routines are covered by the verified checker interp_ok (C12_checker_sound) run on their gathered output.
   Field abstract (field_theory); `small x` is fabs(x) < zero_tol with small 0 = true; states: 1 = Selected. *)
From Coq Require Import QArith Qcanon Qcabs Field.
From Raptor Require Import Base.Sums Sparse.Defs Amg.Strength Amg.StrengthProofs Amg.StrengthInst Amg.Interp
     Amg.InterpProofs Amg.InterpInst Amg.Truncate Amg.TruncateProofs Extract.Inst Extract.Inst_interp.
Local Open Scope nat_scope.

Section C12.
Variable F : Type.
Variables (zero one : F) (add mul sub : F -> F -> F) (opp : F -> F) (div : F -> F -> F) (inv : F -> F).
Variable Fth : field_theory zero one add mul sub opp div inv (@eq F).
Variable ltb : F -> F -> bool.
Variable eqb : F -> F -> bool.
Variable small : F -> bool.
Variable close1 : F -> bool.
Hypothesis eqb_eq : forall a b, eqb a b = true <-> a = b.
Hypothesis small_zero : small zero = true.

Notation row := (list (nat * F)).
Notation sumF := (sumf F zero add).
Notation directP := (direct_interpolation F zero one add mul opp div ltb eqb).
Notation parDirectP := (par_direct_interpolation F zero one add mul opp div ltb eqb).
Notation modclsP := (mod_classical_interpolation F zero one add mul opp div ltb small).
Notation extendedP := (extended_interpolation F zero one add mul opp div ltb small).

(* coarse numbering order: the column of a C point is its rank among the C points - strictly increasing along the
   C points, hence injective, and below the number of C points *)
Theorem C12_coarse_numbering (states : list nat) :
  (forall a b, a < b -> isC states a = true -> rankC states a < rankC states b) /\
  (forall a b, isC states a = true -> isC states b = true -> rankC states a = rankC states b -> a = b) /\
  (forall a, isC states a = true -> rankC states a < length (filter (fun s => s =? 1) states)).
Proof. split; [apply rankC_strict|split; [apply rankC_inj|apply rankC_bound]]. Qed.

(* injection: the row of every C point is exactly one unit entry in its coarse column, in all three operators *)
Theorem C12_injection (A S : list row) (states : list nat) (nv : nat) (vars : list nat) (i : nat) :
  length A = length S -> i < length A -> isC states i = true ->
  nth i (directP A S states) [] = [(rankC states i, one)] /\
  nth i (modclsP A S states nv vars) [] = [(rankC states i, one)] /\
  nth i (extendedP A S states nv vars) [] = [(rankC states i, one)].
Proof. apply injection_all. Qed.

(* support: an F row interpolates only from C points reachable through strong connections - distance one for
   direct and modified classical, at most two for extended *)
Theorem C12_support (A S : list row) (states : list nat) (nv : nat) (vars : list nat) (i c : nat) (w : F) :
  length A = length S -> i < length A -> isC states i = false ->
  (In (c, w) (nth i (directP A S states) []) ->
     exists j, c = rankC states j /\ isC states j = true /\ reach F 1 S i j = true) /\
  (In (c, w) (nth i (modclsP A S states nv vars) []) ->
     exists j, c = rankC states j /\ isC states j = true /\ reach F 1 S i j = true) /\
  ((forall k, NoDup (map fst (nth k S []))) -> In (c, w) (nth i (extendedP A S states nv vars) []) ->
     exists j, c = rankC states j /\ isC states j = true /\ reach F 2 S i j = true).
Proof.
  intros Hl Hi HF. split; [|split].
  - apply direct_support; assumption.
  - apply mod_classical_support; assumption.
  - intros Hnd. apply extended_support; assumption.
Qed.

(* direct interpolation reproduces constants: zero matrix row sum, non-zero strong negative coarse sum and
   non-zero effective diagonal (both guaranteed on M-matrix-like rows, C12_direct_finite) give row sum 1 *)
Theorem C12_direct_rowsum (A S : list row) (states : list nat) (i : nat) :
  length A = length S -> i < length A -> isC states i = false ->
  let ar := nth i A [] in let sr := nth i S [] in
  ar <> [] -> sumF (map snd ar) = zero ->
  sumF (negs F zero ltb (map snd (dsc F zero states i ar sr))) <> zero ->
  eff_diag F zero add ltb eqb (map snd (dsc F zero states i ar sr)) (map snd (tl (prep_row F i ar)))
           (head_val F zero (prep_row F i ar)) <> zero ->
  sumF (map snd (nth i (directP A S states) [])) = one.
Proof.
  intros Hl Hi HF ar sr Hne H0 Hn Hd. rewrite direct_interpolation_nth by assumption.
  unfold direct_row. rewrite HF. unfold renumber. rewrite map_map. cbn [snd].
  apply (direct_frow_rowsum F zero one add mul sub opp div inv Fth ltb eqb eqb_eq states i ar sr); assumption.
Qed.

(* modified classical interpolation reproduces constants: distribution identity; hypotheses: the strong Selected
   columns of the row are distinct, the accounted row sum (diagonal + weak same-variable + strong C + strong F
   entries) is zero and the denominator mc_W is non-zero *)
Theorem C12_mod_classical_rowsum (A S : list row) (states : list nat) (nv : nat) (vars : list nat) (i : nat) :
  length A = length S -> i < length A -> isC states i = false ->
  let splits := mc_splits F zero add ltb A S states nv vars in
  let si := nth i splits (empty_split F zero) in
  NoDup (map fst (sp_SS F si)) ->
  mc_W F zero add ltb small splits i <> zero ->
  add (add (sp_weak F si) (sumF (map snd (sp_SS F si)))) (sumF (map snd (sp_SU F si))) = zero ->
  sumF (map snd (nth i (modclsP A S states nv vars) [])) = one.
Proof.
  intros Hl Hi HF splits si Hn HW H0. rewrite mod_classical_nth by assumption. rewrite HF.
  unfold renumber. rewrite map_map. cbn [snd].
  apply (mc_frow_rowsum F zero one add mul sub opp div inv Fth ltb small small_zero splits i); assumption.
Qed.

(* extended (+i) interpolation reproduces constants.  _partial: proved under per-neighbour hypotheses that hold for
   M-matrix-like operators with stored diagonals but are not derived here from that description - for every strong
   Unselected neighbour j: row j stores its diagonal first and j <> i, the entry a_ji (if any) has the sign
   opposite to a_jj, and a coarse sum below zero_tol is exactly zero (otherwise the code distributes with the
   tiny sum as coefficient and the row sum is 1 only up to that tolerance); e_W <> 0 (finite weights) is assumed *)
Theorem C12_extended_rowsum_partial (A S : list row) (states : list nat) (nv : nat) (vars : list nat) (i : nat) :
  i < length A -> isC states i = false ->
  let Ap := prepped F A in let Sp := prepped F S in let Soff := offdiag F S in
  let si := nth i Soff [] in
  NoDup (map fst si) ->
  e_W F zero add mul div ltb small Ap Sp Soff states nv vars i <> zero ->
  add (add (add (add (head_val F zero (nth i Ap [])) (sumF (map snd (e_weak_diag F Ap Soff states nv vars i))))
                (sumF (map snd (e_weak_hat F Ap Soff states i))))
           (sumF (map snd (filter (fun p => isC states (fst p)) si))))
      (sumF (map snd (filter (fun p => isU states (fst p)) si))) = zero ->
  (forall p, In p si -> isU states (fst p) = true ->
     let j := fst p in
     (small (e_cs F zero add ltb Ap Sp Soff states i j) = true -> e_cs F zero add ltb Ap Sp Soff states i j = zero) /\
     (forall q, hd_error (nth j Ap []) = Some q -> fst q = j /\ j <> i) /\
     (forall q, In q (tl (nth j Ap [])) -> fst q = i ->
                opp_sign F zero ltb (ltb (head_val F zero (nth j Sp [])) zero) (snd q) = true)) ->
  sumF (map snd (nth i (extendedP A S states nv vars) [])) = one.
Proof.
  intros Hi HF Ap Sp Soff si Hn HW H0 Hnb. rewrite extended_nth by assumption. rewrite HF.
  unfold renumber. rewrite map_map. cbn [snd].
  apply (ext_frow_rowsum F zero one add mul sub opp div inv Fth ltb small small_zero Ap Sp Soff states nv vars i); assumption.
Qed.

(* distributed direct interpolation = sequential direct interpolation, for every partition into contiguous blocks
   (empty blocks allowed): row by row the same entries once the fine global columns are renumbered by rank *)
Theorem C12_par_direct_eq_seq (A S : list row) (states part : list nat) :
  rows_wf F (combine A S) 0 -> list_sum part = length (combine A S) ->
  Forall2 (fun p q => Permutation (renumber F states p) q) (parDirectP A S states part) (directP A S states).
Proof. apply (par_direct_interpolation_perm F zero one add mul sub opp div inv Fth ltb eqb small). Qed.

(* the checker run on the gathered output of the distributed modified-classical / extended routines is sound for
   the clauses of the property *)
Theorem C12_checker_sound (dist nv : nat) (vars : list nat) (A S : list row) (states : list nat) (P : list row) :
  interp_ok F zero one add ltb eqb close1 dist nv vars A S states P = true ->
  interp_spec F zero one add ltb close1 dist nv vars A S states P.
Proof. apply interp_ok_sound. exact eqb_eq. Qed.

End C12.

(* finite weights of direct interpolation on M-matrix-like rows: with a positive diagonal, non-positive off-diagonals
   and a strong negative coarse neighbour both denominators (sum_strong_neg, effective diagonal) are non-zero *)
Theorem C12_direct_finite (F : Type) (zero one : F) (add mul sub : F -> F -> F) (opp : F -> F) (div : F -> F -> F)
        (inv : F -> F) (Fth : field_theory zero one add mul sub opp div inv (@eq F)) (ltb eqb : F -> F -> bool) :
  (forall a, ltb a a = false) -> (forall a b, ltb a b = false -> ltb b a = false -> a = b) ->
  (forall a b, ltb a zero = true -> ltb b zero = true -> ltb (add a b) zero = true) ->
  forall (sv av : list F) (d v : F),
    In v sv -> ltb v zero = true -> ltb zero d = true -> (forall w, In w av -> ltb zero w = false) ->
    sumf F zero add (negs F zero ltb sv) <> zero /\ eff_diag F zero add ltb eqb sv av d <> zero.
Proof.
  intros Hirr Htot Hadd sv av d v Hin Hv Hd Hav. split.
  - apply (strong_neg_nonzero F zero one add mul sub opp div inv Fth ltb Hirr Hadd sv v Hin Hv).
  - apply (mmatrix_eff_diag F zero one add mul sub opp div inv Fth ltb eqb Hirr Htot sv av d Hd Hav).
Qed.

(* the executed instance satisfies every hypothesis used above *)
Theorem C12_instance_Qc :
  (forall a b, Qc_eqb a b = true <-> a = b) /\ Qc_small 0%Qc = true /\
  (forall a, Qc_ltb a a = false) /\ (forall a b, Qc_ltb a b = false -> Qc_ltb b a = false -> a = b) /\
  (forall a b, Qc_ltb a 0%Qc = true -> Qc_ltb b 0%Qc = true -> Qc_ltb (a + b)%Qc 0%Qc = true).
Proof.
  split; [exact Qc_eqb_eq|]. split; [exact Qc_small_zero|]. split; [exact Qc_ltb_irrefl|].
  split; [exact Qc_ltb_total|exact Qc_neg_add].
Qed.

(* ---- non-vacuity: the hypotheses of the implications hold on a concrete operator (Qc), where the conclusions
        can also be computed: A = [[3,-1,-1,-1],[-1,2,-1,0],[0,0,1,0],[0,0,0,1]], strong pattern {0:{1,3}, 1:{0,2}},
        points 2 and 3 coarse.  Row 0 has a WEAK connection to the pattern point 2 (the case fixed in extended). ---- *)
Definition qi (z : Z) : Qc := Q2Qc (z # 1).
Definition exA : list (list (nat * Qc)) :=
  [ [(0%nat, qi 3); (1%nat, qi (-1)); (2%nat, qi (-1)); (3%nat, qi (-1))];
    [(0%nat, qi (-1)); (1%nat, qi 2); (2%nat, qi (-1))]; [(2%nat, qi 1)]; [(3%nat, qi 1)] ].
Definition exS : list (list (nat * Qc)) :=
  [ [(0%nat, qi 3); (1%nat, qi (-1)); (3%nat, qi (-1))];
    [(0%nat, qi (-1)); (1%nat, qi 2); (2%nat, qi (-1))]; [(2%nat, qi 1)]; [(3%nat, qi 1)] ].
Definition exSt : list nat := [0; 0; 1; 1]%nat.
Notation qsum := (sumf Qc 0%Qc Qcplus).

Lemma Qc_neq_by_eqb a b : Qc_eqb a b = false -> a <> b.
Proof. intros H E. apply Qc_eqb_eq in E. congruence. Qed.

Example C12_rowsums_computed_nonvacuous :
  Qc_eqb (qsum (map snd (nth 0%nat (q_direct exA exS exSt) []))) 1%Qc = true /\
  Qc_eqb (qsum (map snd (nth 0%nat (q_mod_classical exA exS exSt 1%nat []) []))) 1%Qc = true /\
  Qc_eqb (qsum (map snd (nth 0%nat (q_extended exA exS exSt 1%nat []) []))) 1%Qc = true /\
  Qc_eqb (qsum (map snd (nth 1%nat (q_extended exA exS exSt 1%nat []) []))) 1%Qc = true /\
  q_interp_ok 2%nat 1%nat [] exA exS exSt (q_extended exA exS exSt 1%nat []) = true /\
  q_interp_ok 1%nat 1%nat [] exA exS exSt (q_mod_classical exA exS exSt 1%nat []) = true.
Proof. vm_compute. repeat split. Qed.

Example C12_direct_rowsum_nonvacuous :
  length exA = length exS /\ (0 < length exA)%nat /\ isC exSt 0%nat = false /\ nth 0%nat exA [] <> [] /\
  qsum (map snd (nth 0%nat exA [])) = 0%Qc /\
  qsum (negs Qc 0%Qc Qc_ltb (map snd (dsc Qc 0%Qc exSt 0%nat (nth 0%nat exA []) (nth 0%nat exS [])))) <> 0%Qc /\
  eff_diag Qc 0%Qc Qcplus Qc_ltb Qc_eqb (map snd (dsc Qc 0%Qc exSt 0%nat (nth 0%nat exA []) (nth 0%nat exS [])))
           (map snd (tl (prep_row Qc 0%nat (nth 0%nat exA [])))) (head_val Qc 0%Qc (prep_row Qc 0%nat (nth 0%nat exA []))) <> 0%Qc.
Proof.
  split; [reflexivity|]. split; [simpl; lia|]. split; [reflexivity|]. split; [discriminate|].
  split; [apply Qc_eqb_eq; vm_compute; reflexivity|].
  split; apply Qc_neq_by_eqb; vm_compute; reflexivity.
Qed.

Example C12_mod_classical_rowsum_nonvacuous :
  let splits := mc_splits Qc 0%Qc Qcplus Qc_ltb exA exS exSt 1%nat [] in
  let si := nth 0%nat splits (empty_split Qc 0%Qc) in
  NoDup (map fst (sp_SS Qc si)) /\ mc_W Qc 0%Qc Qcplus Qc_ltb Qc_small splits 0%nat <> 0%Qc /\
  (sp_weak Qc si + qsum (map snd (sp_SS Qc si)) + qsum (map snd (sp_SU Qc si)))%Qc = 0%Qc.
Proof.
  intros splits si. split; [|split].
  - assert (E : map fst (sp_SS Qc si) = [3%nat]) by (vm_compute; reflexivity). rewrite E. repeat constructor. intros [].
  - apply Qc_neq_by_eqb. vm_compute. reflexivity.
  - apply Qc_eqb_eq. vm_compute. reflexivity.
Qed.

Example C12_par_direct_nonvacuous :
  rows_wf Qc (combine exA exS) 0 /\ list_sum [1; 0; 3]%nat = length (combine exA exS).
Proof.
  split; [|reflexivity]. intros g ar sr Hin. simpl in Hin.
  destruct Hin as [E|[E|[E|[E|[]]]]]; inversion E; subst; (split; [|split]);
    try (repeat (constructor; [simpl; intuition discriminate|]); constructor);
    eexists; simpl; eauto.
Qed.

Example C12_extended_rowsum_nonvacuous :
  let Ap := prepped Qc exA in let Sp := prepped Qc exS in let Soff := offdiag Qc exS in
  let si := nth 0%nat Soff [] in
  NoDup (map fst si) /\
  e_W Qc 0%Qc Qcplus Qcmult Qcdiv Qc_ltb Qc_small Ap Sp Soff exSt 1%nat [] 0%nat <> 0%Qc /\
  (head_val Qc 0%Qc (nth 0%nat Ap []) + qsum (map snd (e_weak_diag Qc Ap Soff exSt 1%nat [] 0%nat))
   + qsum (map snd (e_weak_hat Qc Ap Soff exSt 0%nat))
   + qsum (map snd (filter (fun p => isC exSt (fst p)) si))
   + qsum (map snd (filter (fun p => isU exSt (fst p)) si)))%Qc = 0%Qc /\
  (forall p, In p si -> isU exSt (fst p) = true ->
     let j := fst p in
     (Qc_small (e_cs Qc 0%Qc Qcplus Qc_ltb Ap Sp Soff exSt 0%nat j) = true ->
      e_cs Qc 0%Qc Qcplus Qc_ltb Ap Sp Soff exSt 0%nat j = 0%Qc) /\
     (forall q, hd_error (nth j Ap []) = Some q -> fst q = j /\ j <> 0%nat) /\
     (forall q, In q (tl (nth j Ap [])) -> fst q = 0%nat ->
                opp_sign Qc 0%Qc Qc_ltb (Qc_ltb (head_val Qc 0%Qc (nth j Sp [])) 0%Qc) (snd q) = true)).
Proof.
  intros Ap Sp Soff si.
  assert (Esi : si = [(1%nat, qi (-1)); (3%nat, qi (-1))]) by (vm_compute; reflexivity).
  split; [rewrite Esi; simpl; repeat (constructor; [simpl; intuition discriminate|]); constructor|].
  split; [apply Qc_neq_by_eqb; vm_compute; reflexivity|].
  split; [apply Qc_eqb_eq; vm_compute; reflexivity|].
  intros p Hp HU. rewrite Esi in Hp. destruct Hp as [<-|[<-|[]]]; [|vm_compute in HU; discriminate].
  cbn [fst]. split; [|split].
  - intros H. vm_compute in H. discriminate.
  - intros q Hq. assert (E : nth 1%nat Ap [] = [(1%nat, qi 2); (0%nat, qi (-1)); (2%nat, qi (-1))]) by (vm_compute; reflexivity).
    rewrite E in Hq. simpl in Hq. inversion Hq; subst. split; [reflexivity|discriminate].
  - intros q Hq Hq0. assert (E : nth 1%nat Ap [] = [(1%nat, qi 2); (0%nat, qi (-1)); (2%nat, qi (-1))]) by (vm_compute; reflexivity).
    rewrite E in Hq. simpl in Hq. destruct Hq as [<-|[<-|[]]]; [vm_compute; reflexivity|simpl in Hq0; discriminate].
Qed.

(* truncation of the weights (filter_interp, distributed extended interpolation with a threshold): every truncated row
   keeps only columns of the untruncated row, a row whose weights all pass the threshold is unchanged, and whenever the row
   is rescaled its row sum is exactly the row sum of the untruncated row - so truncation preserves "constants are
   reproduced" (in the branch without rescaling the row is the kept part as it is) *)
Theorem C12_truncation (F : Type) (zero one : F) (add mul sub : F -> F -> F) (opp : F -> F) (div : F -> F -> F)
        (inv : F -> F) (Fth : field_theory zero one add mul sub opp div inv (@eq F))
        (absf : F -> F) (ltb : F -> F -> bool) (big : F -> bool) (big_zero : big zero = false)
        (thr : F) (r : list (nat * F)) :
  let tr := filter_row zero add mul sub div absf ltb big thr r in
  let rs := sumf F zero add (map snd r) in
  let ks := sumf F zero add (map snd (kept_of zero mul absf ltb thr r)) in
  (forall c w, In (c, w) tr -> exists w0, In (c, w0) r) /\
  (big ks = true -> big (sub rs ks) = true -> sumf F zero add (map snd tr) = rs) /\
  (big ks && big (sub rs ks) = false -> tr = kept_of zero mul absf ltb thr r) /\
  ((forall p, In p r -> ltb (absf (snd p)) (mul (row_max zero absf ltb r) thr) = false) -> tr = r).
Proof.
  intros tr rs ks. split; [intros c w; apply filter_row_support|].
  split; [apply (filter_row_sum F zero one add mul sub opp div inv Fth absf ltb big big_zero)|].
  split; [apply filter_row_unscaled|].
  apply (filter_row_all_kept F zero one add mul sub opp div inv Fth absf ltb big big_zero).
Qed.

Print Assumptions C12_coarse_numbering.
Print Assumptions C12_injection.
Print Assumptions C12_support.
Print Assumptions C12_direct_rowsum.
Print Assumptions C12_mod_classical_rowsum.
Print Assumptions C12_extended_rowsum_partial.
Print Assumptions C12_par_direct_eq_seq.
Print Assumptions C12_checker_sound.
Print Assumptions C12_direct_finite.
Print Assumptions C12_instance_Qc.
Print Assumptions C12_truncation.
