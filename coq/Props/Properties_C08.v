(* C08 — Every AMG hierarchy is Galerkin, conformal and strictly coarsening.
   Property-level theorems only; each is closed by a lemma of Amg/HierarchyProofs.v.

   Model (Amg/Hierarchy.v): `setup` is the while loop of Multilevel::setup_helper / ParMultilevel::setup_helper
   with explicit fuel; one pass is extend_hierarchy:  P := coarsen l A_l  (strength o splitting o interpolation,
   resp. strength o MIS-2 o aggregation o candidates o smoothing: a Section variable with the dimension contract
   `coarsen_spec`),  A_{l+1} := finish (spgemm_T P (spgemm A_l P))  with the den-specifications of the two
   products (C06) as hypotheses.  A level records A, P, the local sizes of all ranks (sequential classes: one
   block) and the sizes of the work vectors x, b, tmp.
   Checker: `hier_ok` is run (extracted) on the levels dumped by the implementation; `C08_checker_sound` says
   what its `true` means. *)
From Coq Require Import ZArith.
From Raptor Require Import Base.Sums Sparse.Defs Sparse.ConvertProofs Amg.Hierarchy Amg.HierarchyProofs Amg.HierarchyExamples.

Section C08.
Variable F : Type.
Variables (zero one : F) (add mul sub : F -> F -> F) (opp : F -> F).
Variable Fth : ring_theory zero one add mul sub opp (@eq F).
Variable small : F -> bool.                  (* |v| <= zero_tol: the entry is dropped *)

Notation csrF := (csr F).
Notation sumF := (sumf F zero add).
Notation den := (den_csr F zero add).
Notation dropF := (drop F zero small).

Variable spgemm : csrF -> csrF -> csrF.
Variable spgemm_T : csrF -> csrF -> csrF.
Variable prep finish : csrF -> csrF.
Variable coarsen : nat -> csrF -> list nat -> option (csrF * list nat).
Variable max_coarse : nat.
Variable max_levels : option nat.
Variable has_edge : nat -> csrF -> bool.     (* the strength graph of level l has an edge *)

Hypothesis Hmm : spgemm_spec F zero add mul small spgemm.          (* C06: den (A*B) = drop (sum_k a_ik b_kj) *)
Hypothesis HmmT : spgemm_T_spec F zero add mul small spgemm_T.     (* C06: den (P^T*B) = drop (sum_k p_ki b_kj) *)
Hypothesis Hprep : pass_spec F zero add prep.                      (* C07: copy / sort / move_diag keep den *)
Hypothesis Hfinish : pass_spec F zero add finish.
Hypothesis Hcoarsen : coarsen_spec F coarsen.                      (* P: n_l rows, column blocks sum to its columns *)

Notation setupM := (setup spgemm spgemm_T prep finish coarsen max_coarse max_levels).

(* 1. every level's operator is square, the local sizes of the ranks sum to the global size, and the work
      vectors x, b, tmp have exactly the global / local sizes of their level *)
Theorem C08_levels_conformal fuel Af part ls : input_ok F Af part -> setupM fuel Af part = Some ls ->
  forall k L, nth_error ls k = Some L ->
    csr_wf (lv_A L) /\ csr_nr (lv_A L) = csr_nc (lv_A L) /\ list_sum (lv_part L) = csr_nr (lv_A L) /\
    lv_x L = mkV (csr_nr (lv_A L)) (lv_part L) /\ lv_b L = mkV (csr_nr (lv_A L)) (lv_part L) /\
    lv_tmp L = mkV (csr_nr (lv_A L)) (lv_part L).
Proof. exact (setup_levels F zero add mul small spgemm spgemm_T prep finish coarsen max_coarse max_levels Hmm HmmT Hfinish Hcoarsen Hprep fuel Af part ls). Qed.

(* 2. Galerkin, two-drop form: A_{l+1} = drop (P^T drop (A_l P)) entrywise, P_l is n_l x n_{l+1} *)
Theorem C08_galerkin fuel Af part ls : input_ok F Af part -> setupM fuel Af part = Some ls ->
  forall k L L', nth_error ls k = Some L -> nth_error ls (S k) = Some L' ->
    exists P, lv_P L = Some P /\ csr_wf P /\ csr_nr P = csr_nr (lv_A L) /\ csr_nc P = csr_nr (lv_A L') /\
      forall i j, den (lv_A L') i j =
        dropF (sumF (map (fun k => mul (den P k i)
                 (dropF (sumF (map (fun m => mul (den (lv_A L) k m) (den P m j)) (seq 0 (csr_nr (lv_A L)))))))
                 (seq 0 (csr_nr (lv_A L))))).
Proof. exact (setup_galerkin F zero add mul small spgemm spgemm_T prep finish coarsen max_coarse max_levels Hmm HmmT Hfinish Hcoarsen Hprep fuel Af part ls). Qed.

(* 3. the loop ran exactly as long as its condition held: every level that has a successor is larger than
      max_coarse and below the depth limit, the last level is not; at most max(1, max_levels) levels;
      the coarsest level has no P *)
Theorem C08_stops_at_limits fuel Af part ls : input_ok F Af part -> setupM fuel Af part = Some ls ->
  1 <= length ls /\ (forall m, max_levels = Some m -> length ls <= Nat.max 1 m) /\
  forall k L, nth_error ls k = Some L ->
    (forall L', nth_error ls (S k) = Some L' ->
        max_coarse < csr_nr (lv_A L) /\ (forall m, max_levels = Some m -> S k < m)) /\
    (nth_error ls (S k) = None ->
        (csr_nr (lv_A L) <= max_coarse \/ exists m, max_levels = Some m /\ m <= S k) /\ lv_P L = None).
Proof. exact (setup_stops F zero add spgemm spgemm_T prep finish coarsen max_coarse max_levels Hprep fuel Af part ls). Qed.

(* 4. termination is part of the statement: with a depth limit m the fuel m suffices ... *)
Theorem C08_terminates_with_limit m Af part : coarsen_total F coarsen -> max_levels = Some m ->
  input_ok F Af part -> exists ls, setupM m Af part = Some ls.
Proof. intros Ht. exact (setup_terminates_limit F zero add mul small spgemm spgemm_T prep finish coarsen max_coarse max_levels Hmm HmmT Hfinish Hcoarsen Ht Hprep m Af part). Qed.

(* ... and without one (max_levels = -1) n_0 passes suffice, provided coarsening strictly reduces every
   level that is still larger than max_coarse *)
Theorem C08_terminates_without_limit Af part : coarsen_total F coarsen ->
  coarsen_reduces F coarsen max_coarse -> input_ok F Af part ->
  exists ls, setupM (csr_nr Af) Af part = Some ls.
Proof. intros Ht. exact (setup_terminates_unlimited F zero add mul small spgemm spgemm_T prep finish coarsen max_coarse max_levels Hmm HmmT Hfinish Hcoarsen Ht Hprep Af part). Qed.

(* 5. sizes never increase (coarse unknowns are C points / aggregates of the level) and strictly decrease on
      every level whose strength graph has an edge, under the splitting / aggregation contract of C13 / C15 *)
Theorem C08_sizes_decrease fuel Af part ls : input_ok F Af part -> setupM fuel Af part = Some ls ->
  forall k L L', nth_error ls k = Some L -> nth_error ls (S k) = Some L' ->
    (coarsen_mono F coarsen -> csr_nr (lv_A L') <= csr_nr (lv_A L)) /\
    (coarsen_strict F coarsen has_edge -> has_edge k (lv_A L) = true -> csr_nr (lv_A L') < csr_nr (lv_A L)).
Proof. exact (setup_sizes F zero add mul small spgemm spgemm_T prep finish coarsen max_coarse max_levels Hmm HmmT Hfinish Hcoarsen Hprep has_edge fuel Af part ls). Qed.

(* 6. duplicate_coarse: the sizes of the ranks that own rows of the coarsest operator are positive and sum to
      coarse_n; the displacements are their prefix sums *)
Theorem C08_coarse_duplicate fuel Af part ls : input_ok F Af part -> setupM fuel Af part = Some ls ->
  list_sum (coarse_sizes ls) = coarse_n ls /\ last (coarse_displs ls) 0 = coarse_n ls /\
  length (coarse_displs ls) = S (length (coarse_sizes ls)) /\ Forall (fun s => 0 < s) (coarse_sizes ls).
Proof. exact (coarse_duplicate F zero add mul small spgemm spgemm_T prep finish coarsen max_coarse max_levels Hmm HmmT Hfinish Hcoarsen Hprep fuel Af part ls). Qed.

(* 7. form_dense_coarse: the dense coarse matrix holds the operator of the coarsest level *)
Theorem C08_dense_coarse (A : csrF) i j : i < csr_nr A -> j < csr_nr A ->
  NoDup (map fst (nth i (csr_rows A) [])) ->
  nth j (nth i (dense_coarse F zero A) []) zero = den A i j.
Proof. exact (dense_coarse_den F zero one add mul sub opp Fth A i j). Qed.

(* 8. soundness of the checker run on the implementation's dumped levels: hier_ok = true means
      - every level: A_l square and well formed, global sizes = sums of the local sizes, names of the unknowns
        distinct, on every rank x, b, tmp have global size n_l and local size = local rows, every off-process
        column names an unknown of the level that another rank owns                          (level_spec)
      - consecutive levels: P_l is n_l x n_{l+1}, its row/column maps are the unknowns of the two levels, its
        off-process columns name unknowns of the coarser level, |A_{l+1} - P^T A_l P| <= tol_l entrywise,
        n_{l+1} <= n_l and n_{l+1} < n_l if the level's strength graph has an edge          (pair_spec)
      - the loop condition holds on every level with a successor and fails on the last one. *)
Variable leb : F -> F -> bool.
Variable absF : F -> F.
Theorem C08_checker_sound mc ml (ls : list (ldump F)) :
  hier_ok F zero add mul sub leb absF mc ml ls = true ->
  ls <> [] /\
  forall k L, nth_error ls k = Some L ->
    level_spec F L /\
    (forall L', nth_error ls (S k) = Some L' ->
        continue_cond mc ml (csr_nr (ld_A L)) (S k) = true /\ pair_spec F zero add mul sub leb absF L L') /\
    (nth_error ls (S k) = None ->
        continue_cond mc ml (csr_nr (ld_A L)) (S k) = false /\ ld_P L = None).
Proof.
  unfold hier_ok. intros H. apply andb_prop in H. destruct H as [Hn H]. split.
  - intros ->. discriminate.
  - intros k L Hk. exact (hier_from_sound F zero one add mul sub opp Fth leb absF mc ml ls 0 H k L Hk).
Qed.

End C08.

Print Assumptions C08_levels_conformal.
Print Assumptions C08_galerkin.
Print Assumptions C08_stops_at_limits.
Print Assumptions C08_terminates_with_limit.
Print Assumptions C08_terminates_without_limit.
Print Assumptions C08_sizes_decrease.
Print Assumptions C08_coarse_duplicate.
Print Assumptions C08_dense_coarse.
Print Assumptions C08_checker_sound.

(* ---------------------------------------------------------------------------------------------- *)
(* Non-vacuity: the hypotheses are satisfiable by executable functions over Z (instances in
   Amg/HierarchyExamples.v), and the statements are about non-trivial hierarchies. *)
Section Nonvacuous.
Local Open Scope Z_scope.
(* all hypotheses of theorems 1-7 hold for this instance; without depth limit and max_coarse = 2 the model builds
   the three levels 8 > 4 > 2 on the partitions 5+3, 4+0, 2+0 (ranks without unknowns on the coarse levels), each
   level again with the stencil (-1, 2, -1) in its first row; with max_coarse = 0 and max_levels = 2 it stops at
   the depth limit *)
Lemma C08_model_nonvacuous :
  spgemm_spec Z 0 Z.add Z.mul (fun _ => false) zmm /\ spgemm_T_spec Z 0 Z.add Z.mul (fun _ => false) zmmT /\
  pass_spec Z 0 Z.add zid /\ coarsen_spec Z pair_coarsen /\ coarsen_total Z pair_coarsen /\
  coarsen_mono Z pair_coarsen /\ coarsen_strict Z pair_coarsen z_has_edge /\ coarsen_reduces Z pair_coarsen 2 /\
  input_ok Z lap8 [5; 3]%nat /\
  (exists ls, setup zmm zmmT zid zid pair_coarsen 2 None 8 lap8 [5; 3]%nat = Some ls /\
     map (fun L => csr_nr (lv_A L)) ls = [8; 4; 2]%nat /\ map (@lv_part Z) ls = [[5; 3]; [4; 0]; [2; 0]]%nat /\
     map (fun L => den_csr Z 0 Z.add (lv_A L) 0 0) ls = [2; 2; 2] /\
     map (fun L => den_csr Z 0 Z.add (lv_A L) 0 1) ls = [-1; -1; -1]) /\
  (exists ls, setup zmm zmmT zid zid pair_coarsen 0 (Some 2%nat) 2 lap8 [5; 3]%nat = Some ls /\ length ls = 2%nat).
Proof.
  split; [apply (mm_spgemm_spec Z 0 1 Z.add Z.mul Z.sub Z.opp); apply InitialRing.Zth|].
  split; [apply (mm_spgemm_T_spec Z 0 1 Z.add Z.mul Z.sub Z.opp); apply InitialRing.Zth|].
  split; [apply id_pass_spec|]. split; [apply pair_coarsen_spec|]. split; [apply pair_coarsen_total|].
  split; [apply pair_coarsen_mono|]. split; [apply pair_coarsen_strict|].
  split; [apply pair_coarsen_reduces; lia|]. split; [apply lap8_input|].
  split; eexists; (split; [vm_compute; reflexivity|]); repeat split; vm_compute; reflexivity.
Qed.

Example C08_checker_nonvacuous :
  z_hier_ok 5 None (dump_ok 0 3 4) = true /\
  z_hier_ok 5 None (dump_ok 1 3 4) = false /\          (* A_1[0,0] off by one: not Galerkin *)
  z_hier_ok 5 None (dump_ok 0 4 4) = false /\          (* x of level 1 has the fine size *)
  z_hier_ok 5 None (dump_ok 0 3 5) = false /\          (* P's off-process column 5 is no coarse unknown *)
  z_hier_ok 3 None (dump_ok 0 3 4) = false /\          (* 4 > max_coarse = 3: setup stopped early *)
  z_hier_ok 5 (Some 1%nat) (dump_ok 0 3 4) = false.    (* two levels although max_levels = 1 *)
Proof. vm_compute. repeat split. Qed.
End Nonvacuous.
