(* C05 - results and termination independent of message timing: the phase-separation theorem.
   Property-level theorems only; each is closed by a lemma of Dist/NetProofs.v.

   Model (Dist/Net.v): P ranks run the same program, a list of items `Barrier | Phase tag dests`.  In a phase
   every rank posts one non-blocking send per element of `dests r` (in any order), then performs exactly
   `expected P dests r` wildcard receives (ANY_SOURCE) restricted to the phase's tag, then moves on; a rank
   leaves barrier j only when every rank has reached it.  The network is a multiset of in-flight messages
   (src, dst, tag, ghost sending item); a wildcard receive may take ANY in-flight message with its own rank
   and tag (an over-approximation of MPI matching).  `step` = some rank makes one enabled move, so every
   interleaving and every delay of every rank is an execution; `reachable` = any finite execution prefix
   from `init P` (all pc = 0, empty network).  Static discipline `phases_ok`: between two Phase items with
   the same tag there is a Barrier item.  All theorems are for every P, every program satisfying the
   discipline and every execution. *)
From Coq Require Import List Arith Bool Permutation.
From Raptor Require Import Base.Sums Dist.Net Dist.NetProofs Dist.Comm Dist.CommProofs Dist.CommBuildProofs.
Import ListNotations.

(* T1a. no message is consumed by the wrong phase: whatever a rank received while executing item j was
   sent by item j, to this rank, and item j is a phase with the message's tag *)
Theorem C05_received_in_own_phase :
  forall P prog st, phases_ok prog = true -> reachable P prog st ->
  forall r rs j m, nth_error (ranks st) r = Some rs -> In (j, m) (rlog rs) ->
    m_item m = j /\ m_dst m = r /\ j <= pc rs /\ exists d, nth_error prog j = Some (Phase (m_tag m) d).
Proof. exact received_in_own_phase. Qed.

(* T1a, seen from the network: every in-flight message that a pending wildcard receive of rank r could
   match (same destination, same tag) was sent by the item r is executing *)
Theorem C05_pending_receive_matches_only_own_phase :
  forall P prog st, phases_ok prog = true -> reachable P prog st ->
  forall r rs t d m, nth_error (ranks st) r = Some rs -> nth_error prog (pc rs) = Some (Phase t d) ->
    In m (net st) -> m_dst m = r -> m_tag m = t -> m_item m = pc rs.
Proof. exact recv_matches_own_phase. Qed.

(* T1b. a rank that has completed the receives of phase j has received exactly the messages addressed to
   it in phase j: the sources are a permutation of the senders (with multiplicity), and no message of
   phase j addressed to it is left in the network *)
Theorem C05_phase_receives_exactly_its_messages :
  forall P prog st, phases_ok prog = true -> reachable P prog st ->
  forall r rs j t d, nth_error (ranks st) r = Some rs -> nth_error prog j = Some (Phase t d) ->
    (j < pc rs \/ (j = pc rs /\ nrecv rs = expected P d r)) ->
    Permutation (map (fun e => m_src (snd e)) (filter (fun e => fst e =? j) (rlog rs)))
                (senders P d r)
    /\ (forall m, In m (net st) -> m_dst m = r -> m_item m <> j).
Proof. exact phase_receives_exactly. Qed.

(* T2. no deadlock: a reachable state in which some rank has not finished has a successor *)
Theorem C05_no_stuck_state :
  forall P prog st, phases_ok prog = true -> reachable P prog st ->
  (exists r rs, nth_error (ranks st) r = Some rs /\ pc rs < length prog) ->
  exists st', step P prog st st'.
Proof. exact progress. Qed.

(* T2b. termination: every step does one unit of the remaining work (remaining sends-posts + receives +
   advances + barriers, summed over the ranks), so an execution of n steps from the initial state satisfies
   n + work = total_work; this needs no discipline *)
Theorem C05_steps_bounded :
  forall P prog n st, steps P prog n (init P) st -> n + work P prog st = total_work P prog.
Proof. exact steps_bounded. Qed.

(* hence every maximal execution is finite, has exactly total_work steps, and ends with every rank at the
   end of the program and (destinations inside the world) an empty network *)
Theorem C05_maximal_execution_terminates_clean :
  forall P prog n st, phases_ok prog = true -> steps P prog n (init P) st ->
  n <= total_work P prog /\
  ((forall st', ~ step P prog st st') ->
     n = total_work P prog /\ finished prog st /\ (dests_in_range P prog -> net st = [])).
Proof. exact maximal_execution. Qed.

(* and from every reachable state a final state can be reached *)
Theorem C05_can_always_finish :
  forall P prog, phases_ok prog = true ->
  forall st, reachable P prog st -> exists n st', steps P prog n st st' /\ finished prog st'.
Proof. exact can_finish. Qed.

(* T3. non-vacuity: two phases reusing tag 7 separated by a barrier satisfy the discipline ... *)
Theorem C05_example_with_barrier_ok : phases_ok prog_good = true.
Proof. exact good_program_ok. Qed.

(* ... and the discipline is needed: without the barrier (3 ranks; phase 0: 0 -> 2, phase 1: 1 -> 2, same
   tag) there is an execution in which rank 2, still executing item 0, receives the message sent by item 1 *)
Theorem C05_example_without_barrier_confuses_phases :
  phases_ok prog_bad = false /\
  exists st, reachable 3 prog_bad st /\
    exists rs m, nth_error (ranks st) 2 = Some rs /\ pc rs = 0 /\ In (0, m) (rlog rs) /\ m_item m = 1.
Proof. exact (conj bad_program_not_ok bad_program_confuses_phases). Qed.

(* trace conformance: the event log of every rank that finished, in every execution, is accepted by the
   executable checker `trace_ok` - an observed log rejected by `trace_ok` is not a run of the protocol *)
Theorem C05_runs_pass_trace_ok :
  forall P prog st, phases_ok prog = true -> reachable P prog st ->
  forall r rs, nth_error (ranks st) r = Some rs -> pc rs = length prog ->
    trace_ok P prog r (rev (revs rs)) = true.
Proof. exact finished_trace_ok. Qed.

(* conversely the checker is exact: a log it accepts for rank r IS the log of rank r in some complete run
   (so trace_ok accepts precisely the rank-local views of the protocol) *)
Theorem C05_trace_ok_sound :
  forall P prog r evs, phases_ok prog = true -> r < P -> trace_ok P prog r evs = true ->
  exists st rs, reachable P prog st /\ finished prog st /\
                nth_error (ranks st) r = Some rs /\ rev (revs rs) = evs.
Proof. exact trace_ok_sound. Qed.

(* and what it accepts, declaratively: item by item, [EvBarrier], or sends with the phase's tag to a
   permutation of `dests r` followed by wildcard receives with the phase's tag from a permutation of the
   ranks addressing r *)
Theorem C05_trace_ok_meaning :
  forall P r prog evs, trace_ok P prog r evs = true <-> trace_spec P r prog evs.
Proof. exact trace_ok_iff. Qed.

(* Arrival-order independence of what is computed: the package constructed under ANY arrival order sigma of
   the any-source probes (the only place where raptor's package construction records message timing) makes
   the forward exchange deliver the same receive buffers — the owners' values — for every payload; two
   timings can therefore differ in the package's send-side order only, never in exchanged data. *)
Theorem C05_exchange_independent_of_arrival_order :
  forall (A : Type) (d : A) (fc : list nat) (colmaps : list (list nat))
         (sigma1 sigma2 : nat -> list (nat * list nat) -> list (nat * list nat)) (X : list A),
  length fc = S (length colmaps) -> nondec fc -> nth 0 fc 0 = 0 ->
  (forall p, p < length colmaps -> increasing (nth p colmaps [])) ->
  (forall p c, p < length colmaps -> In c (nth p colmaps []) -> c < last fc 0) ->
  (forall q l, Permutation (sigma1 q l) l) -> (forall q l, Permutation (sigma2 q l) l) ->
  length X <= last fc 0 ->
  forall p, p < length colmaps ->
    forward d (build_world fc colmaps sigma1) (map (map (fun i => nth i X d)) (block_ids fc colmaps)) p
    = forward d (build_world fc colmaps sigma2) (map (map (fun i => nth i X d)) (block_ids fc colmaps)) p.
Proof.
  intros A d fc colmaps s1 s2 X H1 H2 H3 H4 H5 P1 P2 HX p Hp.
  rewrite (forward_delivers d (build_world fc colmaps s1) (block_ids fc colmaps) colmaps (last fc 0) X
             (build_world_fwd_ok fc colmaps s1 H1 H2 H3 H4 H5 P1) HX p)
    by (unfold build_world; rewrite map_length, seq_length; exact Hp).
  rewrite (forward_delivers d (build_world fc colmaps s2) (block_ids fc colmaps) colmaps (last fc 0) X
             (build_world_fwd_ok fc colmaps s2 H1 H2 H3 H4 H5 P2) HX p)
    by (unfold build_world; rewrite map_length, seq_length; exact Hp).
  reflexivity.
Qed.

Print Assumptions C05_received_in_own_phase.
Print Assumptions C05_pending_receive_matches_only_own_phase.
Print Assumptions C05_phase_receives_exactly_its_messages.
Print Assumptions C05_no_stuck_state.
Print Assumptions C05_steps_bounded.
Print Assumptions C05_maximal_execution_terminates_clean.
Print Assumptions C05_can_always_finish.
Print Assumptions C05_example_with_barrier_ok.
Print Assumptions C05_example_without_barrier_confuses_phases.
Print Assumptions C05_runs_pass_trace_ok.
Print Assumptions C05_trace_ok_sound.
Print Assumptions C05_trace_ok_meaning.
Print Assumptions C05_exchange_independent_of_arrival_order.
