(* C11 — Relaxation sweeps compute their textbook update and fix the solution.
   Property-level theorems only; each is closed by lemmas from Amg/RelaxProofs.v.

   Model (Amg/Relax.v): seq_jacobi / seq_sor / seq_ssor = relax.cpp; dist_jacobi / dist_sor / dist_ssor =
   par_relax.cpp as functions of the GLOBAL matrix A (list of rows of (column, value)), the partition `parts`
   (block sizes), b, omega, the number of sweeps and x.  The right-hand side is not an output of any of them.

   Textbook side: coef A i j = a_ij (sum of the stored values at (i,j)),
     offdot A n i X = sum_{j<n, j<>i} a_ij * X j,   rowdot A n i X = sum_{j<n} a_ij * X j,
     relax_val w xi bi s d = (1-w)*xi + w*((bi - s)/d),
     jac_spec / fwd_spec / bwd_spec / seq_fwd_spec / seq_bwd_spec : the sweeps' definitions stated row by row
     (fwd_spec: unknowns of the row's own block with smaller index take their NEW value, those with larger index
      their old value, unknowns of other blocks their value x0 from the start of the sweep; bwd_spec mirrored).
   Domain: wf_cols (columns < n), diag_stored (each row stores exactly one entry in column i, nonzero),
     diag_not_tiny (and |a_ii| above the library's zero tolerance: Jacobi's own guard), diag_first (stored first:
     what relax.cpp's sor/ssor take for granted), block sizes summing to n. *)
From Coq Require Import Field QArith Qcanon.
From Raptor Require Import Base.Sums Sparse.Defs Amg.Relax Amg.RelaxOrders Amg.RelaxProofs Extract.Inst_relax.

Section C11.
Variable F : Type.
Variables (zero one : F) (add mul sub : F -> F -> F) (opp : F -> F) (div : F -> F -> F) (inv : F -> F).
Variable Fth : field_theory zero one add mul sub opp div inv (@eq F).
Variable tiny : F -> bool.

Notation row := (list (nat * F)).
Notation wf_cols := (wf_cols F).
Notation diag_stored := (diag_stored F zero).
Notation diag_not_tiny := (diag_not_tiny F zero tiny).
Notation diag_first := (diag_first F zero).
Notation solves := (solves F zero add mul).
Notation jac_spec := (jac_spec F zero one add mul sub div).
Notation fwd_spec := (fwd_spec F zero one add mul sub div).
Notation bwd_spec := (bwd_spec F zero one add mul sub div).
Notation seq_fwd_spec := (seq_fwd_spec F zero one add mul sub div).
Notation seq_bwd_spec := (seq_bwd_spec F zero one add mul sub div).
Notation seq_jacobi := (seq_jacobi F zero one add mul sub div tiny).
Notation seq_sor := (seq_sor F zero one add mul sub div).
Notation seq_ssor := (seq_ssor F zero one add mul sub div).
Notation dist_jacobi := (dist_jacobi F zero one add mul sub div tiny).
Notation dist_sor := (dist_sor F zero one add mul sub div).
Notation dist_ssor := (dist_ssor F zero one add mul sub div).

(* ---------------- distributed sweeps = textbook definition ---------------- *)

(* weighted Jacobi, any partition: x'_i = (1-w) x_i + w (b_i - sum_{j<>i} a_ij x_j)/a_ii for every row *)
Theorem C11_dist_jacobi_textbook (A : list row) (parts : list nat) (n : nat) (omega : F) (b x : list F) :
  list_sum parts = n -> wf_cols A n -> length x = n -> diag_not_tiny A n ->
  jac_spec A n omega b x (dist_jacobi A parts b omega 1 x).
Proof. intros Hs Hw Hl Hd. apply (dist_jac_char F zero one add mul sub opp div inv Fth tiny A parts n omega b Hs Hw x Hl Hd). Qed.

(* hybrid forward SOR: the result satisfies the row-wise definition, and is the only vector that does *)
Theorem C11_dist_sor_textbook (A : list row) (parts : list nat) (n : nat) (omega : F) (b x : list F) :
  list_sum parts = n -> wf_cols A n -> length x = n -> diag_stored A n ->
  fwd_spec A parts n omega b x x (dist_sor A parts b omega 1 x) /\
  forall z, length z = n -> fwd_spec A parts n omega b x x z -> z = dist_sor A parts b omega 1 x.
Proof.
  intros Hs Hw Hl Hd.
  pose proof (dist_fwd_char F zero one add mul sub opp div inv Fth tiny A parts n omega b Hs Hw x x Hl Hd) as H.
  split; [exact H|]. intros z Lz Sz.
  apply (fwd_spec_unique F zero one add mul sub div A parts n omega b Hs x x z _ Lz); [|exact Sz|exact H].
  change (length (dist_fwd_pass F zero one add mul sub div (prepare F A parts) b omega x x) = n).
  rewrite (dist_fwd_length F zero one add mul sub opp div inv Fth tiny A parts n omega b x x Hs Hd). exact Hl.
Qed.

(* hybrid SSOR = forward pass, then backward pass; BOTH halves read the other blocks' unknowns as they were at the
   start of the sweep (x), the backward half starts from the forward half's result; unique *)
Theorem C11_dist_ssor_textbook (A : list row) (parts : list nat) (n : nat) (omega : F) (b x : list F) :
  list_sum parts = n -> wf_cols A n -> length x = n -> diag_stored A n ->
  let xh := dist_sor A parts b omega 1 x in
  fwd_spec A parts n omega b x x xh /\
  bwd_spec A parts n omega b x xh (dist_ssor A parts b omega 1 x) /\
  forall z, length z = n -> bwd_spec A parts n omega b x xh z -> z = dist_ssor A parts b omega 1 x.
Proof.
  intros Hs Hw Hl Hd xh.
  assert (Lh : length xh = n).
  { change (length (dist_fwd_pass F zero one add mul sub div (prepare F A parts) b omega x x) = n).
    rewrite (dist_fwd_length F zero one add mul sub opp div inv Fth tiny A parts n omega b x x Hs Hd). exact Hl. }
  pose proof (dist_fwd_char F zero one add mul sub opp div inv Fth tiny A parts n omega b Hs Hw x x Hl Hd) as H1.
  pose proof (dist_bwd_char F zero one add mul sub opp div inv Fth tiny A parts n omega b Hs Hw x xh Lh Hd) as H2.
  split; [exact H1|split; [exact H2|]]. intros z Lz Sz.
  apply (bwd_spec_unique F zero one add mul sub div A parts n omega b Hs x xh z _ Lz); [|exact Sz|exact H2].
  change (length (dist_bwd_pass F zero one add mul sub div (prepare F A parts) b omega x xh) = n).
  rewrite (dist_bwd_length F zero one add mul sub opp div inv Fth tiny A parts n omega b x xh Hs Hd). exact Lh.
Qed.

(* ---------------- sequential sweeps = textbook definition ---------------- *)

Theorem C11_seq_jacobi_textbook (A : list row) (n : nat) (omega : F) (b x : list F) :
  length A = n -> wf_cols A n -> length x = n -> diag_not_tiny A n ->
  jac_spec A n omega b x (seq_jacobi A b omega 1 x).
Proof.
  intros La Hw Hl Hd. simpl.
  rewrite (seq_jac_is_dist F zero one add mul sub opp div inv Fth tiny A n omega b La x Hd).
  apply (dist_jac_char F zero one add mul sub opp div inv Fth tiny A [n] n omega b (list_sum_single n) Hw x Hl Hd).
Qed.

Theorem C11_seq_sor_textbook (A : list row) (n : nat) (omega : F) (b x : list F) :
  length A = n -> wf_cols A n -> length x = n -> diag_first A n ->
  seq_fwd_spec A n omega b x (seq_sor A b omega 1 x).
Proof.
  intros La Hw Hl Hd. simpl.
  rewrite (seq_fwd_is_dist F zero one add mul sub opp div inv Fth tiny A n omega b La Hd Hw x x).
  apply (fwd_spec_single F zero one add mul sub div A n omega b x).
  apply (dist_fwd_char F zero one add mul sub opp div inv Fth tiny A [n] n omega b (list_sum_single n) Hw x x Hl
           (diag_first_stored F zero A n Hd)).
Qed.

Theorem C11_seq_ssor_textbook (A : list row) (n : nat) (omega : F) (b x : list F) :
  length A = n -> wf_cols A n -> length x = n -> diag_first A n ->
  let xh := seq_sor A b omega 1 x in
  seq_fwd_spec A n omega b x xh /\ seq_bwd_spec A n omega b xh (seq_ssor A b omega 1 x).
Proof.
  intros La Hw Hl Hd xh.
  pose proof (diag_first_stored F zero A n Hd) as Hds.
  split; [apply C11_seq_sor_textbook; assumption|].
  unfold xh. simpl.
  rewrite (seq_bwd_is_dist F zero one add mul sub opp div inv Fth tiny A n omega b La Hd Hw x).
  apply (bwd_spec_single F zero one add mul sub div A n omega b x).
  apply (dist_bwd_char F zero one add mul sub opp div inv Fth tiny A [n] n omega b (list_sum_single n) Hw x _); [|exact Hds].
  rewrite (seq_fwd_is_dist F zero one add mul sub opp div inv Fth tiny A n omega b La Hd Hw x x).
  rewrite (dist_fwd_length F zero one add mul sub opp div inv Fth tiny A [n] n omega b x x (list_sum_single n) Hds). exact Hl.
Qed.

(* ---------------- hybrid on a single block = sequential ---------------- *)
Theorem C11_single_block_is_sequential (A : list row) (n : nat) (omega : F) (b x : list F) (sweeps : nat) :
  length A = n -> wf_cols A n -> diag_first A n ->
  dist_sor A [n] b omega sweeps x = seq_sor A b omega sweeps x /\
  dist_ssor A [n] b omega sweeps x = seq_ssor A b omega sweeps x /\
  (diag_not_tiny A n -> dist_jacobi A [n] b omega sweeps x = seq_jacobi A b omega sweeps x).
Proof.
  intros La Hw Hd. split; [|split].
  - symmetry. apply iter_ext. intros y. apply (seq_fwd_is_dist F zero one add mul sub opp div inv Fth tiny A n omega b La Hd Hw y y).
  - symmetry. apply iter_ext. intros y.
    rewrite (seq_fwd_is_dist F zero one add mul sub opp div inv Fth tiny A n omega b La Hd Hw y y).
    apply (seq_bwd_is_dist F zero one add mul sub opp div inv Fth tiny A n omega b La Hd Hw y).
  - intros Hnt. symmetry. apply iter_ext. intros y.
    apply (seq_jac_is_dist F zero one add mul sub opp div inv Fth tiny A n omega b La y Hnt).
Qed.

(* ---------------- fixed point: A x = b  ->  any number of sweeps returns x ---------------- *)
Theorem C11_dist_fixed_point (A : list row) (parts : list nat) (n : nat) (omega : F) (b x : list F) (sweeps : nat) :
  list_sum parts = n -> wf_cols A n -> diag_stored A n -> solves A n x b ->
  dist_jacobi A parts b omega sweeps x = x /\
  dist_sor A parts b omega sweeps x = x /\
  dist_ssor A parts b omega sweeps x = x.
Proof.
  intros Hs Hw Hd Hx.
  pose proof (dist_fwd_fixed F zero one add mul sub opp div inv Fth tiny A parts n omega b Hs Hw x Hd Hx) as Hf.
  pose proof (dist_bwd_fixed F zero one add mul sub opp div inv Fth tiny A parts n omega b Hs Hw x Hd Hx) as Hb.
  split; [|split]; apply iter_fixed.
  - apply (dist_jac_fixed F zero one add mul sub opp div inv Fth tiny A parts n omega b x Hs Hw Hd Hx).
  - exact Hf.
  - rewrite Hf. exact Hb.
Qed.

Theorem C11_seq_fixed_point (A : list row) (n : nat) (omega : F) (b x : list F) (sweeps : nat) :
  length A = n -> wf_cols A n -> solves A n x b ->
  (diag_stored A n -> seq_jacobi A b omega sweeps x = x) /\
  (diag_first A n -> seq_sor A b omega sweeps x = x /\ seq_ssor A b omega sweeps x = x).
Proof.
  intros La Hw Hx. split.
  - intros Hd. apply iter_fixed.
    apply (seq_jac_fixed F zero one add mul sub opp div inv Fth tiny A n omega b La x Hw Hd Hx).
  - intros Hd. pose proof (diag_first_stored F zero A n Hd) as Hds.
    assert (Hf : seq_sor_fwd F zero one add mul sub div A b omega x = x).
    { rewrite (seq_fwd_is_dist F zero one add mul sub opp div inv Fth tiny A n omega b La Hd Hw x x).
      apply (dist_fwd_fixed F zero one add mul sub opp div inv Fth tiny A [n] n omega b (list_sum_single n) Hw x Hds Hx). }
    split; apply iter_fixed; [exact Hf|]. rewrite Hf.
    rewrite (seq_bwd_is_dist F zero one add mul sub opp div inv Fth tiny A n omega b La Hd Hw x x).
    apply (dist_bwd_fixed F zero one add mul sub opp div inv Fth tiny A [n] n omega b (list_sum_single n) Hw x Hds Hx).
Qed.

(* ---------------- sweep count: k+1 sweeps = one more sweep after k (the preamble is idempotent) ---------------- *)
Theorem C11_sweeps_compose (A : list row) (parts : list nat) (omega : F) (b x : list F) (k : nat) :
  dist_jacobi A parts b omega (S k) x = dist_jacobi A parts b omega 1 (dist_jacobi A parts b omega k x) /\
  dist_sor A parts b omega (S k) x = dist_sor A parts b omega 1 (dist_sor A parts b omega k x) /\
  dist_ssor A parts b omega (S k) x = dist_ssor A parts b omega 1 (dist_ssor A parts b omega k x) /\
  seq_jacobi A b omega (S k) x = seq_jacobi A b omega 1 (seq_jacobi A b omega k x) /\
  seq_sor A b omega (S k) x = seq_sor A b omega 1 (seq_sor A b omega k x) /\
  seq_ssor A b omega (S k) x = seq_ssor A b omega 1 (seq_ssor A b omega k x).
Proof. repeat split. Qed.

End C11.

(* ---------------- the executed instance (Qc): boundary of the domain, non-vacuity ---------------- *)
Local Open Scope Qc_scope.

Definition q (a : Z) (b : positive) : Qc := Q2Qc (a # b).
Lemma q_neq0 (a : Z) (b : positive) : (a <> 0)%Z -> q a b <> 0.
Proof.
  intros Ha H. assert (E : (this (q a b) == this 0)%Q) by (rewrite H; reflexivity).
  unfold q in E. cbn [this Q2Qc] in E. rewrite Qred_correct in E. unfold Qeq in E. simpl in E. lia.
Qed.

(* Jacobi's guard `fabs(diag) > zero_tol` matters: with a stored NONZERO diagonal below the tolerance the sweep
   leaves the row alone, which is not the textbook value.  So `diag_not_tiny` cannot be weakened to `diag_stored`
   in C11_dist_jacobi_textbook / C11_seq_jacobi_textbook. *)
Theorem C11_jacobi_textbook_below_zero_tol_refuted :
  exists (A : list (list (nat * Qc))) (x b : list Qc),
    diag_stored Qc 0 A 1 /\ wf_cols Qc A 1 /\
    ~ jac_spec Qc 0 1 Qcplus Qcmult Qcminus Qcdiv A 1 1 b x (q_dist_jacobi A [1%nat] b 1 1 x) /\
    ~ jac_spec Qc 0 1 Qcplus Qcmult Qcminus Qcdiv A 1 1 b x (q_seq_jacobi A b 1 1 x).
Proof.
  exists [[(0%nat, q 1 100000000000000000)]], [q 1 1], [q 1 1].
  split; [|split; [|split]].
  - intros i Hi. assert (i = 0)%nat by lia. subst. eexists. split; [reflexivity|]. apply q_neq0. discriminate.
  - intros i p Hi Hp. assert (i = 0)%nat by lia. subst. simpl in Hp. destruct Hp as [<-|[]]. simpl. lia.
  - intros H. specialize (H 0%nat (Nat.lt_0_succ 0)).
    apply (f_equal (fun v : Qc => this v)) in H. vm_compute in H. discriminate.
  - intros H. specialize (H 0%nat (Nat.lt_0_succ 0)).
    apply (f_equal (fun v : Qc => this v)) in H. vm_compute in H. discriminate.
Qed.

(* non-vacuity: a non-symmetric 3x3 system with mixed signs and a diagonal-only row, partition 1 + 0 + 2,
   exact solution x = (1, -2, 3): every hypothesis used above holds, the off-diagonal part is not zero,
   and a sweep from a non-solution does move x *)
Definition ex_A : list (list (nat * Qc)) :=
  [ [(0%nat, q 2 1); (1%nat, q (-1) 1); (2%nat, q 1 2)];
    [(1%nat, q (-4) 1)];
    [(2%nat, q 1 2); (0%nat, q 3 1)] ].
Definition ex_x : list Qc := [q 1 1; q (-2) 1; q 3 1].
Definition ex_b : list Qc := [q 11 2; q 8 1; q 9 2].
Definition ex_parts : list nat := [1; 0; 2]%nat.

Ltac rows3 := let i := fresh "i" in let Hi := fresh "Hi" in
  intros i Hi; destruct i as [|[|[|i]]]; [ | | |exfalso; lia].

Example C11_domain_nonvacuous :
  list_sum ex_parts = 3%nat /\ length ex_A = 3%nat /\ length ex_x = 3%nat /\
  wf_cols Qc ex_A 3 /\ diag_stored Qc 0 ex_A 3 /\ diag_not_tiny Qc 0 Qc_tiny ex_A 3 /\
  solves Qc 0 Qcplus Qcmult ex_A 3 ex_x ex_b /\
  offdot Qc 0 Qcplus Qcmult ex_A 3 0 (xat Qc 0 ex_x) <> 0.
Proof.
  split; [reflexivity|split; [reflexivity|split; [reflexivity|]]].
  split; [|split; [|split; [|split]]].
  - intros i p Hi; destruct i as [|[|[|i]]]; [ | | |exfalso; lia]; intros Hp; simpl in Hp;
      repeat (destruct Hp as [<-|Hp]; [simpl; lia|]); destruct Hp.
  - rows3; eexists; (split; [reflexivity|apply q_neq0; discriminate]).
  - rows3; eexists; (split; [reflexivity|split; [apply q_neq0; discriminate|reflexivity]]).
  - rows3; apply Qc_is_canon; vm_compute; reflexivity.
  - intros H. apply (f_equal (fun v : Qc => this v)) in H. vm_compute in H. discriminate.
Qed.

(* the canonical (diagonal first) layout of the same matrix, for the sequential routines *)
Definition ex_Ac : list (list (nat * Qc)) :=
  [ [(0%nat, q 2 1); (1%nat, q (-1) 1); (2%nat, q 1 2)];
    [(1%nat, q (-4) 1)];
    [(2%nat, q 1 2); (0%nat, q 3 1)] ].
Example C11_diag_first_nonvacuous : diag_first Qc 0 ex_Ac 3.
Proof. rows3; do 2 eexists; (split; [reflexivity|split; [reflexivity|apply q_neq0; discriminate]]). Qed.

(* the sweeps are not the identity: from x = 0 one hybrid SOR sweep with omega = 3/2 gives (33/8, -3, 27/2)
   (row 2 lives in another block than column 0, so it reads the frozen x_0 = 0, not the new 33/8; sequential SOR
   would give -45/4), SSOR and Jacobi give other vectors, and the exact solution is returned unchanged *)
Example C11_sweeps_nontrivial :
  map (fun v : Qc => this v) (q_dist_sor ex_A ex_parts ex_b (q 3 2) 1 [0; 0; 0]) = [(33 # 8)%Q; ((-3) # 1)%Q; (27 # 2)%Q] /\
  q_dist_ssor ex_A ex_parts ex_b (q 3 2) 1 [0; 0; 0] <> q_dist_sor ex_A ex_parts ex_b (q 3 2) 1 [0; 0; 0] /\
  q_dist_jacobi ex_A [3%nat] ex_b (q 3 2) 1 [0; 0; 0] <> q_dist_sor ex_A [3%nat] ex_b (q 3 2) 1 [0; 0; 0] /\
  map (fun v : Qc => this v) (q_dist_ssor ex_A ex_parts ex_b (q 3 2) 3 ex_x) = map (fun v : Qc => this v) ex_x.
Proof.
  split; [vm_compute; reflexivity|split; [|split]].
  - intros H. apply (f_equal (map (fun v : Qc => this v))) in H. vm_compute in H. discriminate.
  - intros H. apply (f_equal (map (fun v : Qc => this v))) in H. vm_compute in H. discriminate.
  - vm_compute. reflexivity.
Qed.

(* outside the domain (documentation of what the model, like the code, does):
   relax.cpp sor on an EMPTY row overwrites x_i with b_i;
   par_relax.cpp SOR_forward on a row without stored diagonal skips the row AND leaves its cursors stale, so
   the next row also sums the skipped row's entries (here row 1 = [(1,1)] is relaxed with row 0's entry (0,1)->col 1
   added to its row sum: x_1 = (b_1 - 1*x_1)/1 = 5 - 7 = -2 instead of b_1/1 = 5) *)
Example C11_offdomain_seq_sor_empty_row :
  map (fun v : Qc => this v) (q_seq_sor [[]; [(1%nat, q 1 1)]] [q 5 1; q 6 1] 1 1 [q 7 1; q 8 1]) = [(5 # 1)%Q; (6 # 1)%Q].
Proof. vm_compute. reflexivity. Qed.
Example C11_offdomain_sor_forward_stale_cursor :
  map (fun v : Qc => this v) (q_dist_sor [[(1%nat, q 1 1)]; [(1%nat, q 1 1)]] [2%nat] [q 3 1; q 5 1] 1 1 [q 0 1; q 7 1]) = [(0 # 1)%Q; ((-2) # 1)%Q].
Proof. vm_compute. reflexivity. Qed.

Print Assumptions C11_dist_jacobi_textbook.
Print Assumptions C11_dist_sor_textbook.
Print Assumptions C11_dist_ssor_textbook.
Print Assumptions C11_seq_jacobi_textbook.
Print Assumptions C11_seq_sor_textbook.
Print Assumptions C11_seq_ssor_textbook.
Print Assumptions C11_single_block_is_sequential.
Print Assumptions C11_dist_fixed_point.
Print Assumptions C11_seq_fixed_point.
Print Assumptions C11_sweeps_compose.
Print Assumptions C11_jacobi_textbook_below_zero_tol_refuted.
