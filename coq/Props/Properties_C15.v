(* C15 — Distance-two independent sets and aggregates are valid partitions.
   Property-level theorems only; each is closed by lemmas from Amg/Mis2Proofs.v, Amg/AggregateProofs.v.

   Models: Amg/Mis2.v  (raptor/aggregation/mis.cpp, mis2 with caller-supplied keys),
           Amg/Aggregate.v (raptor/aggregation/aggregate.cpp).
   `mis2 K gtb kd G r` runs the main loop with fuel n = number of rows, so `= Some s` states
   termination within n rounds.  `mis_ok`, `agg_ok`, `agg_ok_glob` are the extracted checkers that the
   harness runs on the implementation's (gathered) output; their soundness theorems say what an accepted
   output satisfies.  The distributed routines (par_mis.cpp, par_aggregate.cpp) are not modelled as
   algorithms: their gathered output is compared with these models and judged by the checkers. *)
From Coq Require Import List Arith Bool ZArith Lia QArith Qcanon Qcabs.
From Raptor Require Import Amg.Mis2 Amg.Mis2Proofs Amg.Aggregate Amg.AggregateProofs
                           Extract.Inst Extract.Inst_agg Amg.AggInstProofs.
Import ListNotations.
Local Open Scope nat_scope.

(* ---- the checkers mean what the property says ---- *)

(* mis_ok accepts exactly: every vertex decided (0/1), no two roots adjacent or sharing a neighbour,
   every vertex within two edges of a root *)
Theorem C15_mis_ok_sound (G : graph) (states : list Z) :
  mis_ok G states = true <-> decided G states /\ indep2 G states /\ maximal2 G states.
Proof. apply mis_ok_spec. Qed.

(* agg_ok (sequential labelling, id = rank of the root): every non-isolated vertex lies in the aggregate of a
   root within two edges, every root heads its own aggregate, aggregates are headed by roots, and the
   count is the number of heads *)
Theorem C15_agg_ok_sound (G : graph) (states aggs : list Z) (n_aggs : nat) :
  agg_ok G states aggs n_aggs = true ->
  length aggs = length G /\
  agg_valid G states (aroot_seq (length G) states aggs) /\
  agg_roots_own G states (aroot_seq (length G) states aggs) true /\
  agg_heads G states (aroot_seq (length G) states aggs) n_aggs.
Proof. apply agg_ok_sound. Qed.

(* agg_ok_glob (distributed labelling, id = global index of the root, -1 = none; isolated roots exempt) *)
Theorem C15_agg_ok_glob_sound (G : graph) (states aggs : list Z) (n_aggs : nat) :
  agg_ok_glob G states aggs n_aggs = true ->
  length aggs = length G /\
  agg_valid G states (aroot_glob (length G) aggs) /\
  agg_roots_own G states (aroot_glob (length G) aggs) false /\
  agg_heads G states (aroot_glob (length G) aggs) n_aggs.
Proof. apply agg_ok_glob_sound. Qed.

Section C15.
Variable K : Type.
Variable gtb : K -> K -> bool.              (* gtb a b: key a > key b *)
Variable kd : K.
Hypothesis gtb_irrefl : forall a, gtb a a = false.
Hypothesis gtb_trans : forall a b c, gtb a b = true -> gtb b c = true -> gtb a c = true.

(* mis2 terminates within n rounds on every well-formed pattern and key vector (no symmetry, no
   distinctness needed), decides every vertex, and the roots are maximal *)
Theorem C15_mis2_terminates_maximal (G : graph) (r : list K) :
  graph_wf G -> length r = length G ->
  exists s, mis2 K gtb kd G r = Some s /\ length s = length G /\
            decided G (map st_code s) /\ maximal2 G (map st_code s).
Proof. intros WF L. apply mis2_terminates_maximal; assumption. Qed.

(* on a symmetric pattern with self loops and distinct keys the result is a distance-two maximal
   independent set: accepted by mis_ok, i.e. no two roots adjacent or sharing a neighbour, every vertex
   within two edges of a root *)
Theorem C15_mis2_valid (G : graph) (r : list K) :
  (forall a b, a <> b -> gtb a b = true \/ gtb b a = true) ->
  graph_wf G -> symmetric G -> reflexive G -> length r = length G -> NoDup r ->
  exists s, mis2 K gtb kd G r = Some s /\ mis_ok G (map st_code s) = true /\
            indep2 G (map st_code s) /\ maximal2 G (map st_code s).
Proof.
  intros T WF SY RF L ND.
  destruct (mis2_correct K gtb kd G r WF gtb_irrefl gtb_trans L SY RF ND T) as [s [E M]].
  exists s. split; [exact E|]. split; [exact M|]. apply mis_ok_spec in M. tauto.
Qed.
End C15.

Section C15agg.
Variable F : Type.
Variable zero : F.
Variable add : F -> F -> F.
Variable abs : F -> F.
Variable ltb : F -> F -> bool.              (* ltb a b: b > a *)

(* aggregate() on maximal roots: returns, and the labelling is accepted by agg_ok.  Hypotheses: S's rows
   are found in A's rows in order (what `while (A->idx2[ctr] != col) ctr++` needs) and every weight
   |A_ij| + r_j is positive (what `val > max_val` with max_val = 0.0 needs). *)
Theorem C15_aggregate_valid (A : list (list (nat * F))) (S : graph) (states : list Z) (r : list F) :
  graph_wf S -> length A = length S -> length r = length S ->
  decided S states -> maximal2 S states ->
  (forall i, i < length S -> alignedb F (row S i) (nth i A []) = true) ->
  (forall i c a, In (c, a) (nth i A []) -> ltb zero (add (abs a) (rkey F zero r c)) = true) ->
  exists ag na, aggregate F zero add abs ltb A S states r = Some (ag, na) /\
                agg_ok S states ag na = true /\
                agg_valid S states (aroot_seq (length S) states ag) /\
                agg_roots_own S states (aroot_seq (length S) states ag) true /\
                agg_heads S states (aroot_seq (length S) states ag) na.
Proof.
  intros WF LA LR D M AL P.
  destruct (aggregate_correct F zero add abs ltb A S states r WF LA LR D M AL P) as [ag [na [E O]]].
  exists ag, na. split; [exact E|]. split; [exact O|]. apply agg_ok_sound in O. tauto.
Qed.

(* the pipeline mis2 ; aggregate with the same keys *)
Theorem C15_mis2_then_aggregate (A : list (list (nat * F))) (S : graph) (r : list F) :
  (forall a, ltb a a = false) ->
  (forall a b c, ltb a b = true -> ltb b c = true -> ltb a c = true) ->
  (forall a b, a <> b -> ltb a b = true \/ ltb b a = true) ->
  graph_wf S -> symmetric S -> reflexive S -> length A = length S -> length r = length S -> NoDup r ->
  (forall i, i < length S -> alignedb F (row S i) (nth i A []) = true) ->
  (forall i c a, In (c, a) (nth i A []) -> ltb zero (add (abs a) (rkey F zero r c)) = true) ->
  exists s ag na,
    mis2 F (fun a b => ltb b a) zero S r = Some s /\
    aggregate F zero add abs ltb A S (map st_code s) r = Some (ag, na) /\
    mis_ok S (map st_code s) = true /\ agg_ok S (map st_code s) ag na = true.
Proof.
  intros I T Tot WF SY RF LA LR ND AL P.
  assert (T' : forall a b c, ltb b a = true -> ltb c b = true -> ltb c a = true)
    by (intros a b c H1 H2; exact (T _ _ _ H2 H1)).
  assert (Tot' : forall a b, a <> b -> ltb b a = true \/ ltb a b = true)
    by (intros a b N; destruct (Tot a b N); auto).
  destruct (mis2_correct F (fun a b => ltb b a) zero S r WF I T' LR SY RF ND Tot') as [s [E M]].
  pose proof M as M'. apply mis_ok_spec in M'. destruct M' as [D [_ Mx]].
  destruct (aggregate_correct F zero add abs ltb A S (map st_code s) r WF LA LR D Mx AL P) as [ag [na [Ea O]]].
  exists s, ag, na. auto.
Qed.
End C15agg.

(* the executed instance (keys and values in Qc, as extracted and run against the library) *)
Theorem C15_pipeline_Qc (A : list (list (nat * Qc))) (S : graph) (r : list Qc) :
  graph_wf S -> symmetric S -> reflexive S -> length A = length S -> length r = length S -> NoDup r ->
  (forall i, i < length S -> alignedb Qc (row S i) (nth i A []) = true) ->
  (forall i c a, In (c, a) (nth i A []) -> a <> 0%Qc) -> (forall k, In k r -> (0 <= k)%Qc) ->
  exists s ag na,
    q_mis2 S r = Some s /\ q_aggregate A S (map st_code s) r = Some (ag, na) /\
    mis_ok S (map st_code s) = true /\ agg_ok S (map st_code s) ag na = true.
Proof.
  intros WF SY RF LA LR ND AL NZ NN.
  apply (C15_mis2_then_aggregate Qc 0%Qc Qcplus Qcabs Qc_ltb A S r); auto.
  - intros a. apply Qc_gtb_irrefl.
  - intros a b c H1 H2. exact (Qc_gtb_trans c b a H2 H1).
  - intros a b N. destruct (Qc_gtb_total a b N); auto.
  - intros i c a H. apply Qc_weight_pos; [exact (NZ i c a H)|].
    unfold rkey. destruct (Nat.lt_ge_cases c (length r)) as [L|L].
    + apply NN. apply nth_In. exact L.
    + rewrite nth_overflow by exact L. apply Qcle_refl.
Qed.

(* ---- the hypotheses are satisfiable: the path 0 - 1 - 2 with self loops, keys 1 3 2 ---- *)
Definition ex_G : graph := [[0; 1]; [0; 1; 2]; [1; 2]].
Definition ex_r : list nat := [1; 3; 2].
Definition ex_A : list (list (nat * nat)) := [[(0, 1); (1, 1)]; [(0, 1); (1, 1); (2, 1)]; [(1, 1); (2, 1)]].
Definition nat_gtb (a b : nat) : bool := b <? a.

Example C15_mis2_valid_nonvacuous :
  (forall a, nat_gtb a a = false) /\
  (forall a b c, nat_gtb a b = true -> nat_gtb b c = true -> nat_gtb a c = true) /\
  (forall a b, a <> b -> nat_gtb a b = true \/ nat_gtb b a = true) /\
  graph_wf ex_G /\ symmetric ex_G /\ reflexive ex_G /\ length ex_r = length ex_G /\ NoDup ex_r /\
  mis2 nat nat_gtb 0 ex_G ex_r = Some [Unselected; Unselected; Selected] /\
  mis_ok ex_G [0; 0; 1]%Z = true /\ mis_ok ex_G [1; 0; 1]%Z = false /\ mis_ok ex_G [0; 0; 0]%Z = false.
Proof.
  unfold nat_gtb. repeat split.
  - intros a. apply Nat.ltb_irrefl.
  - intros a b c H1 H2. apply Nat.ltb_lt in H1, H2. apply Nat.ltb_lt. lia.
  - intros a b N. rewrite !Nat.ltb_lt. lia.
  - apply graph_wfb_spec. reflexivity.
  - apply symmetricb_spec; [apply graph_wfb_spec; reflexivity|reflexivity].
  - apply reflexiveb_spec. reflexivity.
  - repeat constructor; simpl; intuition discriminate.
Qed.

Example C15_aggregate_valid_nonvacuous :
  decided ex_G [0; 0; 1]%Z /\ maximal2 ex_G [0; 0; 1]%Z /\
  (forall i, i < length ex_G -> alignedb nat (row ex_G i) (nth i ex_A []) = true) /\
  (forall i c a, In (c, a) (nth i ex_A []) -> Nat.ltb 0 (a + rkey nat 0 [1; 2; 3] c) = true) /\
  aggregate nat 0 Nat.add (fun a => a) Nat.ltb ex_A ex_G [0; 0; 1]%Z [1; 2; 3] = Some ([0; 0; 0]%Z, 1) /\
  agg_ok ex_G [0; 0; 1]%Z [0; 0; 0]%Z 1 = true /\
  agg_ok ex_G [0; 0; 1]%Z [0; 0; 0]%Z 2 = false /\
  agg_ok_glob ex_G [0; 0; 1]%Z [2; 2; 2]%Z 1 = true /\
  agg_ok_glob ex_G [0; 0; 1]%Z [-1; 2; 2]%Z 1 = false.
Proof.
  split; [apply decidedb_spec; reflexivity|]. split; [apply maximal2b_spec; reflexivity|].
  split.
  { intros i Hi. simpl in Hi. destruct i as [|[|[|i]]]; try lia; reflexivity. }
  split.
  { intros i c a H. destruct i as [|[|[|i]]]; simpl in H;
    repeat (destruct H as [H|H]; [inversion H; subst; reflexivity|]); try destruct H; destruct i; destruct H. }
  repeat split.
Qed.

Print Assumptions C15_mis_ok_sound.
Print Assumptions C15_agg_ok_sound.
Print Assumptions C15_agg_ok_glob_sound.
Print Assumptions C15_mis2_terminates_maximal.
Print Assumptions C15_mis2_valid.
Print Assumptions C15_aggregate_valid.
Print Assumptions C15_mis2_then_aggregate.
Print Assumptions C15_pipeline_Qc.
